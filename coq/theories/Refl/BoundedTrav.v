(* Refl/BoundedTrav.v -- C07: NodePathMatcher::DoTraversalAux recurses once per clause level.  The shared model
   (Refl/Traverse.v) runs it on fuel "number of clause levels + 1" and returns the accumulator unchanged when the
   fuel is gone; here: that fuel is adequate -- below the last clause level no pattern is active, the recursion stops
   by itself, and any larger amount of fuel gives the same result (so the out-of-fuel branch is never the answer). *)
From Coq Require Import List NArith ZArith Bool Arith Lia.
From Muscle Require Import Gen.Consts Refl.Base Refl.Tree Refl.Matcher Refl.Traverse Refl.Session Refl.Server
  Refl.BoundedInv Refl.BoundedLoops.
Import ListNotations.

Section TravFuel.
Context {M : MatchOps}.
Variable A : Type.
Variable cb : A -> node -> A * Z.
Variable t : tree.
Variable m : matcher.
Variable rd : nat.
Variable uf gf : bool.

(* ------------------------------------------------------------------ the recursion is only ever entered for children *)

Lemma check_entries_ext : forall (rec1 rec2 : path -> A -> A * Z) (child : node),
  (forall acc, rec1 (n_path child) acc = rec2 (n_path child) acc) ->
  forall es rel known idx matched recursed acc,
  check_entries A cb m rd uf gf rec1 child rel known es idx matched recursed acc =
  check_entries A cb m rd uf gf rec2 child rel known es idx matched recursed acc.
Proof.
  intros rec1 rec2 child H es. induction es as [|e es IH]; intros rel known idx matched recursed acc; cbn [check_entries].
  - reflexivity.
  - cbv zeta. outer_if; [|apply IH].
    outer_if.
    + destruct matched; [apply IH|].
      outer_if; [|apply IH].
      destruct (cb acc child) as [acc1 nd].
      outer_if; [reflexivity|]. destruct recursed; [reflexivity|apply IH].
    + destruct recursed; [apply IH|].
      rewrite H. destruct (rec2 (n_path child) acc) as [acc1 nd].
      outer_if; [reflexivity|]. destruct matched; [reflexivity|apply IH].
Qed.

Lemma iter_children_ext : forall (rec1 rec2 : path -> A -> A * Z) (cs : list node),
  (forall c, In c cs -> forall acc, rec1 (n_path c) acc = rec2 (n_path c) acc) ->
  forall rel acc,
  iter_children A cb m rd uf gf rec1 rel cs acc = iter_children A cb m rd uf gf rec2 rel cs acc.
Proof.
  intros rec1 rec2 cs. induction cs as [|c cs IH]; intros H rel acc; cbn [iter_children].
  - reflexivity.
  - unfold check_child. rewrite (check_entries_ext rec1 rec2 c (H c (or_introl eq_refl))).
    destruct (check_entries A cb m rd uf gf rec2 c rel None (active m rel) 0 false false acc) as [acc1 [d|]].
    + reflexivity.
    + apply IH. intros c' Hc'. apply H. right. exact Hc'.
Qed.

Lemma lookup_keys_ext : forall (rec1 rec2 : path -> A -> A * Z) (x : path),
  (forall k c, get_child t x k = Some c -> forall acc, rec1 (n_path c) acc = rec2 (n_path c) acc) ->
  forall ks rel idx did acc,
  lookup_keys A cb t m rd uf gf rec1 x rel idx ks did acc = lookup_keys A cb t m rd uf gf rec2 x rel idx ks did acc.
Proof.
  intros rec1 rec2 x H ks. induction ks as [|k ks IH]; intros rel idx did acc; cbn [lookup_keys].
  - reflexivity.
  - destruct (get_child t x k) as [c|] eqn:Hc; [|apply IH].
    outer_if; [apply IH|].
    unfold check_child. rewrite (check_entries_ext rec1 rec2 c (H k c Hc)).
    destruct (check_entries A cb m rd uf gf rec2 c rel (Some idx) (active m rel) 0 false false acc) as [acc1 [d|]].
    + reflexivity.
    + apply IH.
Qed.

Lemma lookup_entries_ext : forall (rec1 rec2 : path -> A -> A * Z) (x : path),
  (forall k c, get_child t x k = Some c -> forall acc, rec1 (n_path c) acc = rec2 (n_path c) acc) ->
  forall es rel idx did acc,
  lookup_entries A cb t m rd uf gf rec1 x rel es idx did acc = lookup_entries A cb t m rd uf gf rec2 x rel es idx did acc.
Proof.
  intros rec1 rec2 x H es. induction es as [|e es IH]; intros rel idx did acc; cbn [lookup_entries].
  - reflexivity.
  - cbv zeta. rewrite (lookup_keys_ext rec1 rec2 x H).
    match goal with |- context [lookup_keys A cb t m rd uf gf rec2 x rel idx ?ks did acc] =>
      destruct (lookup_keys A cb t m rd uf gf rec2 x rel idx ks did acc) as [[acc1 did1] [d|]] end.
    + reflexivity.
    + apply IH.
Qed.

(* ------------------------------------------------------------------ below the last clause level nothing is active *)

Lemma active_nil : forall rel, max_clauses m <= rel -> active m rel = [].
Proof.
  intros rel. unfold active, max_clauses. induction (m_groups m) as [|g gs IH]; cbn [flat_map fold_right]; intros H.
  - reflexivity.
  - assert (Hg : Nat.ltb rel (fst g) = false) by (apply Nat.ltb_ge; lia).
    rewrite Hg. cbn [app]. apply IH. lia.
Qed.

Lemma children_length : forall x c, In c (children t x) -> length (n_path c) = S (length x).
Proof.
  intros x c Hin. unfold children in Hin. apply filter_In in Hin. destruct Hin as [_ Hc].
  apply is_child_spec in Hc. destruct Hc as [k Hk]. rewrite Hk, app_length. simpl. lia.
Qed.

Lemma find_node_path : forall tr p n, find_node tr p = Some n -> n_path n = p.
Proof.
  induction tr as [|a tr IH]; intros p n H; cbn [find_node] in H.
  - discriminate.
  - destruct (path_eqb (n_path a) p) eqn:E.
    + inversion H; subst. apply path_eqb_eq. exact E.
    + apply IH. exact H.
Qed.

Lemma get_child_length : forall x k c, get_child t x k = Some c -> length (n_path c) = S (length x).
Proof.
  intros x k c H. unfold get_child in H. apply find_node_path in H. rewrite H, app_length. simpl. lia.
Qed.

(* ------------------------------------------------------------------ fuel beyond the remaining clause levels changes nothing *)

Lemma trav_stable : forall k fuel1 fuel2 x acc,
  rd <= length x -> max_clauses m - (length x - rd) <= k -> k <= fuel1 -> k <= fuel2 ->
  trav A cb t m rd uf gf fuel1 x acc = trav A cb t m rd uf gf fuel2 x acc.
Proof.
  induction k as [|k IH]; intros fuel1 fuel2 x acc Hrd Hk H1 H2.
  - (* no pattern has a clause at this level: both sides return the accumulator *)
    assert (Hnil : active m (length x - rd) = []) by (apply active_nil; lia).
    assert (Hres : forall fuel, trav A cb t m rd uf gf fuel x acc = (acc, Z.of_nat (length x))).
    { intros [|f]; cbn [trav]; [reflexivity|]. cbv zeta. rewrite Hnil. reflexivity. }
    rewrite !Hres. reflexivity.
  - destruct fuel1 as [|f1]; [lia|]. destruct fuel2 as [|f2]; [lia|]. cbn [trav]. cbv zeta.
    assert (Hrec : forall c, length (n_path c) = S (length x) ->
                   forall acc0, trav A cb t m rd uf gf f1 (n_path c) acc0 = trav A cb t m rd uf gf f2 (n_path c) acc0).
    { intros c Hc acc0. apply IH; lia. }
    outer_if.
    + rewrite (iter_children_ext (trav A cb t m rd uf gf f1) (trav A cb t m rd uf gf f2) (children t x)).
      * reflexivity.
      * intros c Hc. apply Hrec. apply children_length. exact Hc.
    + rewrite (lookup_entries_ext (trav A cb t m rd uf gf f1) (trav A cb t m rd uf gf f2) x).
      * reflexivity.
      * intros k0 c Hc. apply Hrec. apply (get_child_length x k0). exact Hc.
Qed.

End TravFuel.

(* DoTraversal's own fuel (number of clause levels + 1) is adequate: more fuel never changes the result *)
Lemma do_traversal_fuel : forall {M : MatchOps} (A : Type) (cb : A -> node -> A * Z) t m root uf gf acc extra,
  do_traversal cb t m root uf gf acc =
  fst (trav A cb t m (length root) uf gf (S (max_clauses m) + extra) root acc).
Proof.
  intros M A cb t m root uf gf acc extra. unfold do_traversal. f_equal.
  apply (trav_stable A cb t m (length root) uf gf (S (max_clauses m))); lia.
Qed.
