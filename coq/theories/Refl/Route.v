(* Refl/Route.v -- routing of client-to-client Messages by the reflector server (property C05).
   Definitions only (no proofs).  Line numbers refer to reflector/StorageReflectSession.cpp.

   What is modelled, on top of the server model of Refl/Server.v (which builds the node tree):
     * the default branch of StorageReflectSession::MessageReceivedFromGateway (872-890): the forced
       PR_NAME_SESSION field, PR_NAME_KEYS / PR_NAME_FILTERS of the Message, the stored default route,
       DumbReflectSession::MessageReceivedFromGateway (broadcast);
     * PathMatcher::PutPathsFromMessage with the "bleed-down" of filters (regex/PathMatcher.cpp 87-106);
     * PassMessageCallback / PassMessageCallbackAux (1251-1265), FindSessionsCallback (1267-1281),
       FindNodesCallback (1061-1071) as callbacks of the traversal of Refl/Traverse.v;
     * DumbReflectSession::MessageReceivedFromSession (the NEIGHBORS_TO_GATEWAY test);
     * the routing-related fields of PR_COMMAND_SETPARAMETERS (715-726, 753-755) and
       PR_COMMAND_REMOVEPARAMETERS / RemoveParameter (1986-2020) for literal parameter names.

   [rfixes] switches three repairs on or off, so that the behaviour found in the code is kept next to
   the repaired one (see the *_refuted lemmas in RouteProofs.v):
     rf_guard : F12, the traversal's re-check shortcut needs exactly one pattern, not one group
     rf_once  : F19, a traversal that passes a Message on remembers the sessions it already served
     rf_route : F20, SETPARAMETERS copies (not moves) PR_NAME_KEYS/PR_NAME_FILTERS, so that they reach _parameters *)
From Coq Require Import List NArith ZArith Bool Arith.
From Muscle Require Import Gen.Consts Refl.Base Refl.Tree Refl.Matcher Refl.Traverse Refl.Session Refl.Server.
Import ListNotations.

Record rfixes := mkRF { rf_guard : bool; rf_once : bool; rf_route : bool }.
Definition r_all_fixed : rfixes := mkRF true true true.
Definition r_as_found : rfixes := mkRF false false false.
(* what the sources the translator has just read look like (gen/gen_consts.py, section C05) *)
Definition r_as_is : rfixes :=
  mkRF (negb (N.eqb c_c05_guard_as_found 1)) (negb (N.eqb c_c05_once_as_found 1)) (negb (N.eqb c_c05_route_as_found 1)).

(* muscleInRange(msg.what, BEGIN_PR_COMMANDS, END_PR_COMMANDS) *)
Definition in_cmd_range (w : N) : bool := N.leb c_BEGIN_PR_COMMANDS w && N.leb w c_END_PR_COMMANDS.

(* the depth PassMessageCallbackAux / FindSessionsCallback return ("skip to the next session") *)
Definition pass_depth : Z := Z.of_N c_NODE_DEPTH_SESSIONNAME.

(* the routing-related parameter names *)
Inductive pname := PReflect | PGw2Nb | PNb2Gw | PKeys | PFilters.

Definition pname_eqb (a b : pname) : bool :=
  match a, b with
  | PReflect, PReflect | PGw2Nb, PGw2Nb | PNb2Gw, PNb2Gw | PKeys, PKeys | PFilters, PFilters => true
  | _, _ => false
  end.

Definition has_param (l : list pname) (p : pname) : bool := existsb (pname_eqb p) l.
Definition add_param (l : list pname) (p : pname) : list pname := if has_param l p then l else l ++ [p].
Definition del_param (l : list pname) (p : pname) : list pname := filter (fun q => negb (pname_eqb p q)) l.

(* the PR_NAME_SESSION field of a Message: absent, a string field (its values), or a field of another type *)
Inductive sfield := SAbsent | SStr (vals : list name) | SOther.

(* msg.ReplaceString(false, PR_NAME_SESSION, GetSessionIDString()): value 0 of an existing string field *)
Definition overwrite (f : sfield) (nm : name) : sfield :=
  match f with
  | SStr (_ :: r) => SStr (nm :: r)
  | _ => f
  end.

(* a delivered Message as its receiver sees it; [d_from] is the session whose gateway it came in on *)
Record dlv := mkD { d_from : sid; d_tag : N; d_field : sfield }.

Fixpoint sid_mem (s : sid) (l : list sid) : bool :=
  match l with [] => false | x :: r => N.eqb x s || sid_mem s r end.

Section Route.
Context {M : MatchOps}.
Variable fx : rfixes.

(* a Message that is not a PR_COMMAND: what code, a tag standing for the rest of its content,
   the values of its PR_NAME_KEYS string field ([] = no such field), the values of its PR_NAME_FILTERS
   Message field as the QueryFilter factory sees them (None = not a filter archive), the session field *)
Record umsg := mkU {
  u_what : N;
  u_tag : N;
  u_keys : list spath;
  u_filters : list (option qfilter);
  u_session : sfield
}.

(* PathMatcher::PutPathsFromMessage(PR_NAME_KEYS, PR_NAME_FILTERS, msg, DEFAULT_PATH_PREFIX):
   key i gets filter i when there is a value i in the filters field, else the filter of key i-1 *)
Fixpoint paths_from_message (keys : list spath) (flts : list (option qfilter)) (cur : option qfilter)
  : list (pat * option qfilter) :=
  match keys with
  | [] => []
  | k :: ks =>
    let cur' := match flts with f :: _ => f | [] => cur end in
    (fix_path k, cur') :: paths_from_message ks (tl flts) cur'
  end.

Definition matcher_of (keys : list spath) (flts : list (option qfilter)) : matcher :=
  m_of_list (paths_from_message keys flts None).

(* what C05 adds to a session of Refl/Session.v *)
Record rinfo := mkRI {
  ri_id : sid;
  ri_reflect : bool;                    (* MUSCLE_ROUTING_FLAG_REFLECT_TO_SELF *)
  ri_gw2nb : bool;                      (* MUSCLE_ROUTING_FLAG_GATEWAY_TO_NEIGHBORS *)
  ri_nb2gw : bool;                      (* MUSCLE_ROUTING_FLAG_NEIGHBORS_TO_GATEWAY *)
  ri_params : list pname;               (* which of the routing-related names _parameters holds *)
  ri_rkeys : list spath;                (* _defaultMessageRouteMessage: PR_NAME_KEYS *)
  ri_rflts : list (option qfilter);     (* _defaultMessageRouteMessage: PR_NAME_FILTERS *)
  ri_route : matcher;                   (* _defaultMessageRoute *)
  ri_inbox : list dlv                   (* non-command Messages handed to this session's gateway, oldest first *)
}.

(* DumbReflectSession(): GATEWAY_TO_NEIGHBORS and NEIGHBORS_TO_GATEWAY are set *)
Definition new_info (s : sid) : rinfo := mkRI s false true true [] [] [] empty_matcher [].

Definition set_flags (ri : rinfo) (r g n : bool) : rinfo :=
  mkRI (ri_id ri) r g n (ri_params ri) (ri_rkeys ri) (ri_rflts ri) (ri_route ri) (ri_inbox ri).
Definition set_pnames (ri : rinfo) (l : list pname) : rinfo :=
  mkRI (ri_id ri) (ri_reflect ri) (ri_gw2nb ri) (ri_nb2gw ri) l (ri_rkeys ri) (ri_rflts ri) (ri_route ri) (ri_inbox ri).
Definition set_rmsg (ri : rinfo) (ks : list spath) (fs : list (option qfilter)) : rinfo :=
  mkRI (ri_id ri) (ri_reflect ri) (ri_gw2nb ri) (ri_nb2gw ri) (ri_params ri) ks fs (ri_route ri) (ri_inbox ri).
Definition set_route (ri : rinfo) (m : matcher) : rinfo :=
  mkRI (ri_id ri) (ri_reflect ri) (ri_gw2nb ri) (ri_nb2gw ri) (ri_params ri) (ri_rkeys ri) (ri_rflts ri) m (ri_inbox ri).
Definition set_inbox (ri : rinfo) (l : list dlv) : rinfo :=
  mkRI (ri_id ri) (ri_reflect ri) (ri_gw2nb ri) (ri_nb2gw ri) (ri_params ri) (ri_rkeys ri) (ri_rflts ri) (ri_route ri) l.

(* UpdateDefaultMessageRoute() *)
Definition update_route (ri : rinfo) : rinfo := set_route ri (matcher_of (ri_rkeys ri) (ri_rflts ri)).

(* ------------------------------------------------------------------ parameters *)

(* the routing-related fields of one PR_COMMAND_SETPARAMETERS Message *)
Record setp := mkSP {
  sp_reflect : bool;                            (* PR_NAME_REFLECT_TO_SELF present *)
  sp_gw2nb : bool;                              (* PR_NAME_ROUTE_GATEWAY_TO_NEIGHBORS present *)
  sp_nb2gw : bool;                              (* PR_NAME_ROUTE_NEIGHBORS_TO_GATEWAY present *)
  sp_keys : list spath;                         (* PR_NAME_KEYS string values, [] = field absent *)
  sp_flts : option (list (option qfilter))      (* PR_NAME_FILTERS Message values, None = field absent *)
}.

(* the loop over the fields (662-754), then UpdateDefaultMessageRoute.
   A flag field sets the flag and is copied to _parameters.  PR_NAME_KEYS / PR_NAME_FILTERS go to
   _defaultMessageRouteMessage; as found they are MOVED there, so the CopyName into _parameters that follows
   finds nothing (F20). *)
Definition set_params (ri : rinfo) (p : setp) : rinfo :=
  let ri1 := if sp_reflect p
             then set_pnames (set_flags ri true (ri_gw2nb ri) (ri_nb2gw ri)) (add_param (ri_params ri) PReflect) else ri in
  let ri2 := if sp_gw2nb p
             then set_pnames (set_flags ri1 (ri_reflect ri1) true (ri_nb2gw ri1)) (add_param (ri_params ri1) PGw2Nb) else ri1 in
  let ri3 := if sp_nb2gw p
             then set_pnames (set_flags ri2 (ri_reflect ri2) (ri_gw2nb ri2) true) (add_param (ri_params ri2) PNb2Gw) else ri2 in
  let ri4 := match sp_keys p with
             | [] => ri3
             | ks => let r := set_rmsg ri3 ks (ri_rflts ri3) in
                     if rf_route fx then set_pnames r (add_param (ri_params r) PKeys) else r
             end in
  let ri5 := match sp_flts p with
             | None => ri4
             | Some fs => let r := set_rmsg ri4 (ri_rkeys ri4) fs in
                          if rf_route fx then set_pnames r (add_param (ri_params r) PFilters) else r
             end in
  match sp_keys p, sp_flts p with
  | [], None => ri5
  | _, _ => update_route ri5
  end.

(* RemoveParameter(name): B_DATA_NOT_FOUND unless _parameters has the name *)
Definition remove_param (ri : rinfo) (p : pname) : rinfo :=
  if has_param (ri_params ri) p then
    let ri1 := match p with
               | PReflect => set_flags ri false (ri_gw2nb ri) (ri_nb2gw ri)
               | PGw2Nb => set_flags ri (ri_reflect ri) false (ri_nb2gw ri)
               | PNb2Gw => set_flags ri (ri_reflect ri) (ri_gw2nb ri) false
               | PKeys => set_rmsg ri [] (ri_rflts ri)
               | PFilters => set_rmsg ri (ri_rkeys ri) []
               end in
    set_pnames ri1 (del_param (ri_params ri1) p)
  else ri.

Definition touches_route (ri : rinfo) (p : pname) : bool :=
  has_param (ri_params ri) p && match p with PKeys | PFilters => true | _ => false end.

(* PR_COMMAND_REMOVEPARAMETERS for literal (unique) names, 767-786 *)
Definition remove_params (ri : rinfo) (l : list pname) : rinfo :=
  let '(ri1, upd) := fold_left (fun acc p => (remove_param (fst acc) p, snd acc || touches_route (fst acc) p)) l (ri, false) in
  if upd then update_route ri1 else ri1.

(* ------------------------------------------------------------------ delivery *)

(* DumbReflectSession::MessageReceivedFromSession(from, msg) of the session described by [ri] *)
Definition put_inbox (from : sid) (d : dlv) (ri : rinfo) : rinfo :=
  if N.eqb from (ri_id ri) || ri_nb2gw ri then set_inbox ri (ri_inbox ri ++ [d]) else ri.

Definition deliver_to (infos : list rinfo) (from to_ : sid) (d : dlv) : list rinfo :=
  map (fun ri => if N.eqb (ri_id ri) to_ then put_inbox from d ri else ri) infos.

(* node.GetAncestorNode(NODE_DEPTH_SESSIONNAME, &node)->GetNodeName() *)
Definition owner_key (p : path) : name :=
  match p with
  | _ :: sn :: _ => sn
  | [h] => h
  | [] => 0%N
  end.

(* GetSession(idString): the attached session with that id string *)
Definition find_by_name (l : list session) (k : name) : option session :=
  find (fun ss => name_eqb (s_name ss) k) l.

Definition owner_of (l : list session) (p : path) : option session := find_by_name l (owner_key p).

(* PassMessageCallbackAux(node, msg, includeSelfOkay); the accumulator carries the sessions already served *)
Definition pass_cb (sessions : list session) (sender : sid) (self_ok : bool) (d : dlv)
           (acc : list rinfo * list sid) (n : node) : (list rinfo * list sid) * Z :=
  match owner_of sessions (n_path n) with
  | Some ss =>
    let r := s_id ss in
    if (negb (N.eqb r sender) || self_ok) && negb (rf_once fx && sid_mem r (snd acc))
    then ((deliver_to (fst acc) sender r d, if rf_once fx then r :: snd acc else snd acc), pass_depth)
    else (acc, pass_depth)
  | None => (acc, pass_depth)
  end.

(* AbstractReflectSession::BroadcastToAllSessions(msg, NULL, toSelf) *)
Definition broadcast (sessions : list session) (sender : sid) (to_self : bool) (d : dlv) (infos : list rinfo) : list rinfo :=
  fold_left (fun inf ss => if to_self || negb (N.eqb (s_id ss) sender) then deliver_to inf sender (s_id ss) d else inf)
            sessions infos.

Record rstate := mkRS { rs_srv : server; rs_info : list rinfo }.

Definition empty_rstate : rstate := mkRS empty_server [].

Definition get_info (st : rstate) (s : sid) : option rinfo := find (fun ri => N.eqb (ri_id ri) s) (rs_info st).

Definition upd_info (st : rstate) (s : sid) (f : rinfo -> rinfo) : rstate :=
  mkRS (rs_srv st) (map (fun ri => if N.eqb (ri_id ri) s then f ri else ri) (rs_info st)).

Definition set_infos (st : rstate) (l : list rinfo) : rstate := mkRS (rs_srv st) l.

(* a matcher.DoTraversal(PassMessageCallbackFunc, this, GetGlobalRoot(), true, &msgRef) *)
Definition pass_traversal (st : rstate) (sender : sid) (self_ok : bool) (d : dlv) (mt : matcher) : list rinfo :=
  fst (do_traversal (pass_cb (sv_sessions (rs_srv st)) sender self_ok d) (sv_tree (rs_srv st)) mt [] true (rf_guard fx)
                    (rs_info st, [])).

(* MessageReceivedFromGateway(msg) of session s for a Message whose what code is no PR_COMMAND (872-890) *)
Definition route_msg (st : rstate) (s : sid) (m : umsg) : rstate :=
  if in_cmd_range (u_what m) then st
  else
    match get_session (rs_srv st) s, get_info st s with
    | Some ss, Some ri =>
      let d := mkD s (u_tag m) (overwrite (u_session m) (s_name ss)) in
      match u_keys m with
      | _ :: _ => set_infos st (pass_traversal st s (ri_reflect ri) d (matcher_of (u_keys m) (u_filters m)))
      | [] =>
        if has_param (ri_params ri) PKeys
        then set_infos st (pass_traversal st s (ri_reflect ri) d (ri_route ri))
        else if ri_gw2nb ri
             then set_infos st (broadcast (sv_sessions (rs_srv st)) s (ri_reflect ri) d (rs_info st))
             else st
      end
    | _, _ => st
    end.

(* ------------------------------------------------------------------ the traversal seen through the public API *)

(* FindNodesCallback: collects the node; -1 (abort) once maxResults nodes are there *)
Definition collect_cb (max : option nat) (acc : list node) (n : node) : list node * Z :=
  let acc' := n :: acc in
  (acc', match max with
         | Some k => if Nat.eqb (length acc') k then (-1)%Z else Z.of_nat (depth n)
         | None => Z.of_nat (depth n)
         end).

(* a traversal with that callback, from the node at [root]: the nodes called back on, in order *)
Definition find_nodes (t : tree) (m : matcher) (root : path) (use_filters : bool) (max : option nat) : list node :=
  rev (do_traversal (collect_cb max) t m root use_filters (rf_guard fx) []).

(* FindSessionsCallback: results.Put(session id string, session) *)
Definition sessions_cb (sessions : list session) (max : option nat) (acc : list sid) (n : node) : list sid * Z :=
  let acc' := match owner_of sessions (n_path n) with
              | Some ss => if sid_mem (s_id ss) acc then acc else acc ++ [s_id ss]
              | None => acc
              end in
  (acc', match max with
         | Some k => if Nat.eqb (length acc') k then (-1)%Z else pass_depth
         | None => pass_depth
         end).

(* FindMatchingSessions(nodePath, filter, results, includeSelf, maxResults) called on session s *)
Definition find_sessions (st : rstate) (s : sid) (sp : spath) (f : option qfilter) (include_self : bool) (max : option nat) : list sid :=
  let all :=
    match fix_path sp with
    | [] => map s_id (sv_sessions (rs_srv st))
    | fp => do_traversal (sessions_cb (sv_sessions (rs_srv st)) max) (sv_tree (rs_srv st)) (m_put empty_matcher fp f) [] true
                         (rf_guard fx) []
    end in
  if include_self then all else filter (fun x => negb (N.eqb x s)) all.

(* ------------------------------------------------------------------ events *)

Inductive rcmd :=
| RSetParams (p : setp)
| RRemoveParams (l : list pname)
| RMsg (m : umsg)
| RSrv (c : cmd).                        (* a command of Refl/Server.v: SETDATA, REMOVEDATA, subscriptions, ... *)

Inductive revent :=
| RAttach (s : sid) (host nm : name)
| RDetach (s : sid)
| RCmd (s : sid) (c : rcmd).

Definition srv_fixes : fixes := mkFixes (rf_guard fx) true true.

Definition rstep (st : rstate) (ev : revent) : rstate :=
  match ev with
  | RAttach s host nm =>
    match get_session (rs_srv st) s with
    | Some _ => st
    | None => mkRS (step srv_fixes (rs_srv st) (EAttach s host nm)) (rs_info st ++ [new_info s])
    end
  | RDetach s =>
    mkRS (step srv_fixes (rs_srv st) (EDetach s)) (filter (fun ri => negb (N.eqb (ri_id ri) s)) (rs_info st))
  | RCmd s c =>
    match get_session (rs_srv st) s with
    | None => st
    | Some _ =>
      match c with
      | RSetParams p => upd_info st s (fun ri => set_params ri p)
      | RRemoveParams l => upd_info st s (fun ri => remove_params ri l)
      | RMsg m => route_msg st s m
      | RSrv c' => mkRS (step srv_fixes (rs_srv st) (ECmd s c')) (rs_info st)
      end
    end
  end.

Definition rrun (evs : list revent) (st : rstate) : rstate := fold_left rstep evs st.

End Route.
