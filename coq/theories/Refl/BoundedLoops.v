(* Refl/BoundedLoops.v -- C07: fuel adequacy of the recursions inside the data handlers, written on fuel in
   Refl/Bounded.v as the code writes them, against the structural definitions of the shared model Refl/Server.v:
     NodeChangedAux        the "flush, then start again" recursion nests exactly once (its cap of 100 is never reached)
     DataNode::RemoveChild  `while(HasChildren()) RemoveChild(first)` returns within fuel linear in the number of nodes
     DoTraversalAux        recursion depth = number of clause levels: the fuel Server.v gives it is adequate *)
From Coq Require Import List NArith ZArith Bool Arith Lia.
From Muscle Require Import Gen.Consts Refl.Base Refl.Tree Refl.Matcher Refl.Traverse Refl.Session Refl.Server
  Refl.Bounded Refl.BoundedSpec Refl.BoundedProofs Refl.BoundedInv.
Import ListNotations.

Section Loops.
Context {M : MatchOps}.

(* ------------------------------------------------------------------ NodeChangedAux *)

Lemma find_session_map : forall (f : session -> session) l s,
  (forall x, s_id (f x) = s_id x) -> find_session (map f l) s = option_map f (find_session l s).
Proof.
  intros f l s Hf. induction l as [|x l IH]; cbn [map find_session].
  - reflexivity.
  - rewrite Hf. destruct (N.eqb (s_id x) s); [reflexivity|exact IH].
Qed.

Lemma s_pending_push_pending : forall x : session, s_pending (push_pending x) = None.
Proof. intros x. unfold push_pending. destruct (s_pending x) eqn:E; [reflexivity|exact E]. Qed.

(* after PushSubscriptionMessages (with the dirty flag set) nobody has a pending update *)
Lemma pending_after_push : forall sv s ss, sv_dirty sv = true -> get_session (push_all sv) s = Some ss -> s_pending ss = None.
Proof.
  intros sv s ss Hd H. unfold push_all in H. rewrite Hd in H. unfold get_session in H. cbn [sv_sessions] in H.
  rewrite find_session_map in H by apply s_id_push_pending.
  destruct (find_session (sv_sessions sv) s) as [x|]; cbn [option_map] in H; [|discriminate].
  inversion H. apply s_pending_push_pending.
Qed.

(* the tail of NodeChangedAux: `if (_nextSubscriptionMessage && GetNumNames() >= _maxSubscriptionMessageItems) Push...` *)
Definition nca_flush (sv1 : server) (s : sid) : server :=
  match get_session sv1 s with
  | Some ss1 =>
    match s_pending ss1 with
    | Some pd => if N.leb (s_max ss1) (di_num_names pd) then push_all sv1 else sv1
    | None => sv1
    end
  | None => sv1
  end.

Lemma nca_flush_idem : forall sv1 s, sv_dirty sv1 = true -> nca_flush (nca_flush sv1 s) s = nca_flush sv1 s.
Proof.
  intros sv1 s Hd. unfold nca_flush at 2 3.
  destruct (get_session sv1 s) as [ss1|] eqn:Hs; [|unfold nca_flush; rewrite Hs; reflexivity].
  destruct (s_pending ss1) as [pd|] eqn:Hp; [|unfold nca_flush; rewrite Hs, Hp; reflexivity].
  destruct (N.leb (s_max ss1) (di_num_names pd)) eqn:Hle; [|unfold nca_flush; rewrite Hs, Hp, Hle; reflexivity].
  unfold nca_flush. destruct (get_session (push_all sv1) s) as [ss2|] eqn:Hs2; [|reflexivity].
  rewrite (pending_after_push sv1 s ss2 Hd Hs2). reflexivity.
Qed.

Lemma nca_max_nest_pos : 0 < max_nca_nest.
Proof. vm_compute. lia. Qed.

(* the second round of NodeChangedAux: it starts without a pending Message, so it cannot ask for a third *)
Lemma nca_rec_fresh : forall fuel nest sv s p d,
  2 <= fuel ->
  (forall ss, get_session sv s = Some ss -> s_pending ss = None) ->
  nca_rec fuel nest sv s p d true =
  Some (match get_session sv s with
        | None => sv
        | Some _ => nca_flush (set_dirty (upd_session sv s (fun x => set_pending x (Some (di_add_removed empty_di p)))) true) s
        end).
Proof.
  intros fuel nest sv s p d Hf Hnone. destruct fuel as [|f]; [lia|]. cbn [nca_rec].
  destruct (get_session sv s) as [ss|] eqn:Hs; [|reflexivity].
  unfold pending_or_new. rewrite (Hnone ss eq_refl). cbn [di_has_set empty_di di_sets sets_has].
  unfold nca_flush.
  match goal with |- context [get_session ?sv1 s] => destruct (get_session sv1 s) as [ss1|]; [|reflexivity] end.
  destruct (s_pending ss1) as [pd|]; [|reflexivity].
  destruct (N.leb (s_max ss1) (di_num_names pd)); [|reflexivity].
  apply push_loop_spec. lia.
Qed.

(* NodeChangedAux on fuel, with its nest counter, is the structural definition of Server.v: the cap is never reached *)
Lemma nca_rec_spec : forall fuel nest sv s p d removed,
  3 <= fuel -> nest < max_nca_nest ->
  nca_rec fuel nest sv s p d removed = Some (node_changed_aux sv s p d removed).
Proof.
  intros fuel nest sv s p d removed Hf Hn. destruct fuel as [|f]; [lia|]. cbn [nca_rec]. unfold node_changed_aux.
  destruct (get_session sv s) as [ss|] eqn:Hs; [|reflexivity].
  cbv zeta. fold (nca_flush).
  assert (Hflush : forall sv1,
    match get_session sv1 s with
    | Some ss1 => match s_pending ss1 with
                  | Some pd => if N.leb (s_max ss1) (di_num_names pd) then push_loop (S f) sv1 else Some sv1
                  | None => Some sv1
                  end
    | None => Some sv1
    end = Some (nca_flush sv1 s)).
  { intros sv1. unfold nca_flush. destruct (get_session sv1 s) as [ss1|]; [|reflexivity].
    destruct (s_pending ss1) as [pd|]; [|reflexivity].
    destruct (N.leb (s_max ss1) (di_num_names pd)); [|reflexivity]. apply push_loop_spec. lia. }
  destruct removed.
  - destruct (di_has_set (pending_or_new ss) p).
    + rewrite push_loop_spec by lia.
      apply Nat.ltb_lt in Hn. rewrite Hn.
      set (sv0 := set_dirty (upd_session sv s (fun x => set_pending x (Some (pending_or_new ss)))) true).
      assert (Hd0 : sv_dirty sv0 = true) by reflexivity.
      rewrite (nca_rec_fresh f (S nest) (push_all sv0) s p d ltac:(lia) (fun ss' H => pending_after_push sv0 s ss' Hd0 H)).
      assert (Hs0 : exists ss', get_session (push_all sv0) s = Some ss').
      { apply get_session_ids. rewrite ids_push_all. subst sv0. rewrite ids_set_dirty.
        rewrite ids_upd_session by (intros; reflexivity). apply get_session_ids. eexists. exact Hs. }
      destruct Hs0 as [ss' Hs0]. rewrite Hs0.
      rewrite Hflush. f_equal. apply nca_flush_idem. reflexivity.
    + apply Hflush.
  - apply Hflush.
Qed.

(* ------------------------------------------------------------------ DataNode::RemoveChild *)

Lemma strip_prefix_spec : forall p q r, strip_prefix p q = Some r <-> q = p ++ r.
Proof.
  induction p as [|a p IH]; intros q r; cbn [strip_prefix app].
  - split; [intros H; inversion H; reflexivity|intros ->; reflexivity].
  - destruct q as [|b q].
    + split; [discriminate|intros H; discriminate].
    + unfold name_eqb. destruct (N.eqb a b) eqn:E.
      * apply N.eqb_eq in E. subst b. rewrite IH. split; [intros ->; reflexivity|intros H; inversion H; reflexivity].
      * apply N.eqb_neq in E. split; [discriminate|intros H; inversion H; congruence].
Qed.

(* q lies strictly below p *)
Definition under (p q : path) : bool :=
  match strip_prefix p q with Some (_ :: _) => true | _ => false end.

Lemma under_spec : forall p q, under p q = true <-> exists x r, q = p ++ x :: r.
Proof.
  intros p q. unfold under. destruct (strip_prefix p q) as [[|x r]|] eqn:E.
  - split; [discriminate|]. intros [x [r H]]. apply strip_prefix_spec in E. rewrite app_nil_r in E. subst q.
    apply (f_equal (@length name)) in H. rewrite app_length in H. simpl in H. lia.
  - split; [|reflexivity]. intros _. exists x, r. apply strip_prefix_spec. exact E.
  - split; [discriminate|]. intros [x [r H]]. apply strip_prefix_spec in H. rewrite H in E. discriminate.
Qed.

Lemma is_child_spec : forall p q, is_child p q = true <-> exists k, q = p ++ [k].
Proof.
  intros p q. unfold is_child, child_name. destruct (strip_prefix p q) as [[|k0 [|k2 r]]|] eqn:E.
  - split; [discriminate|]. intros [k H]. apply strip_prefix_spec in H. rewrite H in E. discriminate.
  - split; [|reflexivity]. intros _. exists k0. apply strip_prefix_spec. exact E.
  - split; [discriminate|]. intros [k H]. apply strip_prefix_spec in H. rewrite H in E. discriminate.
  - split; [discriminate|]. intros [k H]. apply strip_prefix_spec in H. rewrite H in E. discriminate.
Qed.

Lemma path_eqb_eq : forall p q, path_eqb p q = true <-> p = q.
Proof.
  induction p as [|a p IH]; intros [|b q]; cbn [path_eqb]; try (split; [discriminate|intros H; discriminate]).
  - split; reflexivity.
  - unfold name_eqb. rewrite andb_true_iff, N.eqb_eq, IH. split; [intros [-> ->]; reflexivity|intros H; inversion H; split; reflexivity].
Qed.

(* number of nodes strictly below p *)
Definition desc (t : tree) (p : path) : nat := length (filter (fun n => under p (n_path n)) t).

Lemma filter_length_le : forall (A : Type) (f g : A -> bool) (l : list A),
  (forall x, f x = true -> g x = true) -> length (filter f l) <= length (filter g l).
Proof.
  intros A f g l H. induction l as [|a l IH]; cbn [filter]; [lia|].
  destruct (f a) eqn:Ef.
  - rewrite (H a Ef). simpl. lia.
  - destruct (g a); simpl; lia.
Qed.

Lemma filter_length_lt : forall (A : Type) (f g : A -> bool) (l : list A) (a : A),
  (forall x, f x = true -> g x = true) -> In a l -> g a = true -> f a = false ->
  length (filter f l) < length (filter g l).
Proof.
  intros A f g l a H. induction l as [|b l IH]; intros Hin Hg Hf; cbn [filter]; [contradiction|].
  destruct Hin as [->|Hin].
  - rewrite Hf, Hg. simpl. pose proof (filter_length_le A f g l H). lia.
  - specialize (IH Hin Hg Hf). destruct (f b) eqn:Efb.
    + rewrite (H b Efb). simpl. lia.
    + destruct (g b); simpl; lia.
Qed.

Lemma filter_filter : forall (A : Type) (f g : A -> bool) (l : list A),
  filter f (filter g l) = filter (fun x => g x && f x) l.
Proof.
  intros A f g l. induction l as [|a l IH]; cbn [filter]; [reflexivity|].
  destruct (g a); cbn [filter andb]; [destruct (f a); rewrite IH; reflexivity|exact IH].
Qed.

Lemma filter_true : forall (A : Type) (l : list A), filter (fun _ => true) l = l.
Proof. intros A l. induction l as [|a l IH]; cbn [filter]; [reflexivity|rewrite IH; reflexivity]. Qed.

Section RemoveRec.
Variable leave : server -> path -> server.
Hypothesis leave_tree : forall sv q, sv_tree (leave sv q) = remove_node (sv_tree sv) q.

Lemma remove_rec_S : forall f sv p,
  remove_rec leave (S f) sv p = match drain_kids leave f sv p with None => None | Some sv1 => Some (leave sv1 p) end.
Proof. reflexivity. Qed.

Lemma drain_kids_S : forall f sv p,
  drain_kids leave (S f) sv p =
  match children (sv_tree sv) p with
  | [] => Some sv
  | c :: _ => match remove_rec leave f sv (n_path c) with None => None | Some sv1 => drain_kids leave f sv1 p end
  end.
Proof. reflexivity. Qed.

Lemma remove_rec_fuel_aux : forall d,
  (forall sv p fuel, desc (sv_tree sv) p <= d -> 2 * d + 1 <= fuel ->
     exists sv' g, drain_kids leave fuel sv p = Some sv' /\ sv_tree sv' = filter g (sv_tree sv)) /\
  (forall sv p fuel, desc (sv_tree sv) p <= d -> 2 * d + 2 <= fuel ->
     exists sv' g, remove_rec leave fuel sv p = Some sv' /\ sv_tree sv' = filter g (sv_tree sv) /\
                   (forall n, n_path n = p -> g n = false)).
Proof.
  induction d as [|d [IHD IHR]].
  - assert (HD : forall sv p fuel, desc (sv_tree sv) p <= 0 -> 2 * 0 + 1 <= fuel ->
              exists sv' g, drain_kids leave fuel sv p = Some sv' /\ sv_tree sv' = filter g (sv_tree sv)).
    { intros sv p fuel Hd Hf. destruct fuel as [|f]; [lia|]. rewrite drain_kids_S.
      destruct (children (sv_tree sv) p) as [|c cs] eqn:Hc.
      - exists sv, (fun _ => true). split; [reflexivity|]. rewrite filter_true. reflexivity.
      - exfalso. assert (Hin : In c (children (sv_tree sv) p)) by (rewrite Hc; left; reflexivity).
        unfold children in Hin. apply filter_In in Hin. destruct Hin as [Hin Hch].
        apply is_child_spec in Hch. destruct Hch as [k Hk].
        assert (Hu : under p (n_path c) = true) by (apply under_spec; exists k, []; exact Hk).
        unfold desc in Hd.
        assert (Hpos : 0 < length (filter (fun n => under p (n_path n)) (sv_tree sv))).
        { assert (Hin2 : In c (filter (fun n => under p (n_path n)) (sv_tree sv))) by (apply filter_In; split; assumption).
          destruct (filter (fun n => under p (n_path n)) (sv_tree sv)); [contradiction|simpl; lia]. }
        lia. }
    split; [exact HD|].
    intros sv p fuel Hd Hf. destruct fuel as [|f]; [lia|]. rewrite remove_rec_S.
    destruct (HD sv p f Hd ltac:(lia)) as [sv1 [g1 [H1 Ht1]]]. rewrite H1.
    exists (leave sv1 p), (fun n => g1 n && negb (path_eqb (n_path n) p)). split; [reflexivity|]. split.
    + rewrite leave_tree, Ht1. unfold remove_node. apply filter_filter.
    + intros n Hn. rewrite (proj2 (path_eqb_eq _ _) Hn). apply andb_false_r.
  - assert (HD : forall sv p fuel, desc (sv_tree sv) p <= S d -> 2 * S d + 1 <= fuel ->
              exists sv' g, drain_kids leave fuel sv p = Some sv' /\ sv_tree sv' = filter g (sv_tree sv)).
    { intros sv p fuel Hd Hf. destruct fuel as [|f]; [lia|]. rewrite drain_kids_S.
      destruct (children (sv_tree sv) p) as [|c cs] eqn:Hc.
      - exists sv, (fun _ => true). split; [reflexivity|]. rewrite filter_true. reflexivity.
      - assert (Hin : In c (children (sv_tree sv) p)) by (rewrite Hc; left; reflexivity).
        unfold children in Hin. apply filter_In in Hin. destruct Hin as [Hin Hch].
        apply is_child_spec in Hch. destruct Hch as [k Hk].
        assert (Hu : under p (n_path c) = true) by (apply under_spec; exists k, []; exact Hk).
        assert (Hnu : under (n_path c) (n_path c) = false).
        { destruct (under (n_path c) (n_path c)) eqn:E; [|reflexivity]. apply under_spec in E. destruct E as [x [r E]].
          apply (f_equal (@length name)) in E. rewrite app_length in E. simpl in E. lia. }
        (* the child's subtree is smaller *)
        assert (Hdc : desc (sv_tree sv) (n_path c) <= d).
        { unfold desc in *.
          pose proof (filter_length_lt node (fun n => under (n_path c) (n_path n)) (fun n => under p (n_path n)) (sv_tree sv) c) as Hlt.
          assert (Himp : forall x, under (n_path c) (n_path x) = true -> under p (n_path x) = true).
          { intros x Hx. apply under_spec in Hx. destruct Hx as [y [r Hx]]. apply under_spec. exists k, (y :: r).
            rewrite Hx, Hk. rewrite <- app_assoc. reflexivity. }
          specialize (Hlt Himp Hin Hu Hnu). lia. }
        destruct (IHR sv (n_path c) f Hdc ltac:(lia)) as [sv1 [g1 [H1 [Ht1 Hg1]]]]. rewrite H1.
        (* after the child is gone, fewer nodes are left below p *)
        assert (Hd1 : desc (sv_tree sv1) p <= d).
        { unfold desc in *. rewrite Ht1. rewrite filter_filter.
          pose proof (filter_length_lt node (fun x => g1 x && under p (n_path x)) (fun n => under p (n_path n)) (sv_tree sv) c) as Hlt.
          assert (Himp : forall x, g1 x && under p (n_path x) = true -> under p (n_path x) = true).
          { intros x Hx. apply andb_true_iff in Hx. apply Hx. }
          specialize (Hlt Himp Hin Hu). cbv beta in Hlt. rewrite (Hg1 c eq_refl) in Hlt. specialize (Hlt eq_refl). lia. }
        destruct (IHD sv1 p f Hd1 ltac:(lia)) as [sv2 [g2 [H2 Ht2]]].
        exists sv2, (fun x => g1 x && g2 x). split; [exact H2|]. rewrite Ht2, Ht1. apply filter_filter. }
    split; [exact HD|].
    intros sv p fuel Hd Hf. destruct fuel as [|f]; [lia|]. rewrite remove_rec_S.
    destruct (HD sv p f Hd ltac:(lia)) as [sv1 [g1 [H1 Ht1]]]. rewrite H1.
    exists (leave sv1 p), (fun n => g1 n && negb (path_eqb (n_path n) p)). split; [reflexivity|]. split.
    + rewrite leave_tree, Ht1. unfold remove_node. apply filter_filter.
    + intros n Hn. rewrite (proj2 (path_eqb_eq _ _) Hn). apply andb_false_r.
Qed.

(* RemoveChild(recurse) returns within fuel linear in the number of nodes, only drops nodes, and drops the node it was given *)
Lemma remove_rec_fuel : forall sv p fuel,
  2 * length (sv_tree sv) + 2 <= fuel ->
  exists sv' g, remove_rec leave fuel sv p = Some sv' /\ sv_tree sv' = filter g (sv_tree sv) /\
                (forall n, n_path n = p -> g n = false).
Proof.
  intros sv p fuel Hf.
  assert (Hd : desc (sv_tree sv) p <= length (sv_tree sv)) by (unfold desc; pose proof (filter_length_le node (fun n => under p (n_path n)) (fun _ => true) (sv_tree sv) (fun _ _ => eq_refl)) as Hle; rewrite filter_true in Hle; exact Hle).
  destruct (remove_rec_fuel_aux (length (sv_tree sv))) as [_ HR]. apply HR; assumption.
Qed.

End RemoveRec.

(* the notifications of a removal do not touch the tree *)
Lemma tree_push_all : forall sv, sv_tree (push_all sv) = sv_tree sv.
Proof. intros sv. unfold push_all. destruct (sv_dirty sv); reflexivity. Qed.

Lemma tree_node_changed_aux : forall sv s p d removed, sv_tree (node_changed_aux sv s p d removed) = sv_tree sv.
Proof.
  intros sv s p d removed. unfold node_changed_aux.
  destruct (get_session sv s) as [ss|]; [|reflexivity].
  cbv zeta.
  match goal with |- context [get_session ?sv1 s] =>
    assert (H1 : sv_tree sv1 = sv_tree sv);
    [ destruct removed; [destruct (di_has_set (pending_or_new ss) p)|]; cbn [set_dirty upd_session sv_tree];
      rewrite ?tree_push_all; reflexivity
    | destruct (get_session sv1 s) as [ss1|]; [|exact H1];
      destruct (s_pending ss1) as [pd|]; [|exact H1];
      destruct (N.leb (s_max ss1) (di_num_names pd)); [rewrite tree_push_all|]; exact H1 ]
  end.
Qed.

Lemma tree_node_changed : forall sv s p d old removed, sv_tree (node_changed sv s p d old removed) = sv_tree sv.
Proof.
  intros sv s p d old removed. unfold node_changed.
  destruct (get_session sv s) as [ss|]; [|reflexivity].
  repeat first [ reflexivity | apply tree_node_changed_aux | outer_if | destruct old ].
Qed.

Lemma tree_notify_changed : forall sv by_ p d old removed, sv_tree (notify_changed sv by_ p d old removed) = sv_tree sv.
Proof.
  intros sv by_ p d old removed. unfold notify_changed.
  destruct (find_node (sv_tree sv) p) as [n|]; [|reflexivity].
  generalize (n_subs n). intros l. revert sv. induction l as [|kc l IH]; intros sv; cbn [fold_left].
  - reflexivity.
  - rewrite IH. outer_if; [reflexivity|]. apply tree_node_changed.
Qed.

Lemma remove_node_absent : forall t q, find_node t q = None -> remove_node t q = t.
Proof.
  intros t q. unfold remove_node. induction t as [|n t IH]; cbn [find_node filter]; intros H.
  - reflexivity.
  - destruct (path_eqb (n_path n) q); [discriminate|]. cbn [negb]. rewrite IH by exact H. reflexivity.
Qed.

Lemma leave_node_tree : forall by_ notify sv q,
  sv_tree (leave_node by_ notify sv q) = remove_node (sv_tree sv) q.
Proof.
  intros by_ notify sv q. unfold leave_node.
  destruct (find_node (sv_tree sv) q) as [n|] eqn:Hf.
  - cbn [set_tree sv_tree]. destruct notify; [rewrite tree_notify_changed|]; reflexivity.
  - symmetry. apply remove_node_absent. exact Hf.
Qed.

(* DataNode::RemoveChild(key, notify, recurse) as Server.v notifies and unlinks: returns within fuel 2*|tree|+2, the
   node is gone afterwards and no node was added *)
Lemma remove_child_fuel : forall by_ notify sv p fuel,
  2 * length (sv_tree sv) + 2 <= fuel ->
  exists sv', remove_rec (leave_node by_ notify) fuel sv p = Some sv' /\
              find_node (sv_tree sv') p = None /\ length (sv_tree sv') <= length (sv_tree sv).
Proof.
  intros by_ notify sv p fuel Hf.
  destruct (remove_rec_fuel (leave_node by_ notify) (leave_node_tree by_ notify) sv p fuel Hf) as [sv' [g [H1 [Ht Hg]]]].
  exists sv'. split; [exact H1|]. split.
  - rewrite Ht. clear H1 Ht Hf. induction (sv_tree sv) as [|n t IH]; cbn [filter find_node].
    + reflexivity.
    + destruct (g n) eqn:Egn; cbn [find_node].
      * destruct (path_eqb (n_path n) p) eqn:E; [|exact IH].
        apply path_eqb_eq in E. rewrite (Hg n E) in Egn. discriminate.
      * exact IH.
  - rewrite Ht. pose proof (filter_length_le node g (fun _ => true) (sv_tree sv) (fun _ _ => eq_refl)) as Hle.
    rewrite filter_true in Hle. exact Hle.
Qed.

End Loops.
