(* Refl/IsoTold.v -- C06: "every subscriber of those nodes is told".
   [told sv t p]: session t has, delivered or pending, a PR_RESULT_DATAITEMS Message whose removed-items list names p.
   Facts: NodeChangedAux with the being-removed flag makes it so, and nothing that happens later in the same turn --
   further notifications to anybody, pushes, tree surgery -- takes it back. *)
From Coq Require Import List NArith ZArith Bool Arith Lia.
From Muscle Require Import Refl.Base Refl.Tree Refl.Matcher Refl.Traverse Refl.Session Refl.Server Refl.IsoBase.
Import ListNotations.

Section Told.
Context {M : MatchOps}.

Definition sess_told_out (ss : session) (p : path) : Prop := exists d, In d (s_out ss) /\ In p (di_removed d).

Definition sess_told (ss : session) (p : path) : Prop :=
  sess_told_out ss p \/ exists d, s_pending ss = Some d /\ In p (di_removed d).

Definition told (sv : server) (t : sid) (p : path) : Prop :=
  exists ss, get_session sv t = Some ss /\ sess_told ss p.

Definition told_out (sv : server) (t : sid) (p : path) : Prop :=
  exists ss, get_session sv t = Some ss /\ sess_told_out ss p.

Lemma told_out_told : forall sv t p, told_out sv t p -> told sv t p.
Proof. intros sv t p [ss [H1 H2]]. exists ss. split; [exact H1|now left]. Qed.

(* ------------------------------------------------------------------ lookups through maps *)

Lemma find_session_map : forall (f : session -> session) l t,
  (forall x, s_id (f x) = s_id x) ->
  find_session (map f l) t = option_map f (find_session l t).
Proof.
  intros f l t Hf. induction l as [|x l IH]; cbn; [reflexivity|]. rewrite Hf. destruct (N.eqb (s_id x) t); [reflexivity|exact IH].
Qed.

Lemma get_session_upd : forall sv u (f : session -> session) t,
  (forall x, s_id (f x) = s_id x) ->
  get_session (upd_session sv u f) t = option_map (fun x => if N.eqb (s_id x) u then f x else x) (get_session sv t).
Proof.
  intros sv u f t Hf. unfold get_session, upd_session. cbn. apply find_session_map.
  intros x. destruct (N.eqb (s_id x) u); [apply Hf|reflexivity].
Qed.

Lemma get_session_some_id : forall sv s ss, get_session sv s = Some ss -> s_id ss = s.
Proof.
  intros sv s ss. unfold get_session. induction (sv_sessions sv) as [|x l IH]; cbn; [discriminate|].
  destruct (N.eqb (s_id x) s) eqn:E; [|exact IH]. intros H; inversion H; subst. now apply N.eqb_eq.
Qed.

Lemma get_session_push_all : forall sv t, sv_dirty sv = true ->
  get_session (push_all sv) t = option_map push_pending (get_session sv t).
Proof.
  intros sv t Hd. unfold push_all. rewrite Hd. unfold get_session. cbn. apply find_session_map.
  intros x. unfold push_pending. destruct (s_pending x); reflexivity.
Qed.

Lemma get_session_set_dirty : forall sv b t, get_session (set_dirty sv b) t = get_session sv t.
Proof. reflexivity. Qed.

Lemma told_set_dirty : forall sv b t p, told sv t p -> told (set_dirty sv b) t p.
Proof. intros sv b t p H. exact H. Qed.

Lemma told_out_set_dirty : forall sv b t p, told_out sv t p -> told_out (set_dirty sv b) t p.
Proof. intros sv b t p H. exact H. Qed.

(* ------------------------------------------------------------------ monotonicity, piece by piece *)

Lemma sess_told_push : forall ss p, sess_told ss p -> sess_told_out (push_pending ss) p.
Proof.
  intros ss p [[d [H Hp]]|[d [H Hp]]]; unfold push_pending.
  - destruct (s_pending ss); exists d; (split; [|exact Hp]); cbn; [apply in_or_app; now left|exact H].
  - rewrite H. exists d. split; [|exact Hp]. cbn. apply in_or_app. right. now left.
Qed.

Lemma told_push_all : forall sv t p, told sv t p -> told (push_all sv) t p.
Proof.
  intros sv t p H. destruct (sv_dirty sv) eqn:Hd.
  - destruct H as [ss [Hs Ht]]. exists (push_pending ss). rewrite (get_session_push_all sv t Hd), Hs. split; [reflexivity|].
    left. now apply sess_told_push.
  - unfold push_all. now rewrite Hd.
Qed.

Lemma told_push_all_out : forall sv t p, told sv t p -> sv_dirty sv = true -> told_out (push_all sv) t p.
Proof.
  intros sv t p [ss [Hs Ht]] Hd. exists (push_pending ss). rewrite (get_session_push_all sv t Hd), Hs. split; [reflexivity|].
  now apply sess_told_push.
Qed.

(* changing the pending Message of session u to d', where d' keeps every removed-item u's pending Message held *)
Lemma told_set_pending : forall sv u d' t p,
  (forall su d, get_session sv u = Some su -> s_pending su = Some d -> forall q, In q (di_removed d) -> In q (di_removed d')) ->
  told sv t p -> told (upd_session sv u (fun x => set_pending x (Some d'))) t p.
Proof.
  intros sv u d' t p Hk [ss [Hs Ht]]. unfold told. rewrite get_session_upd by reflexivity. rewrite Hs. cbn.
  destruct (N.eqb (s_id ss) u) eqn:E; [|exists ss; now split].
  exists (set_pending ss (Some d')). split; [reflexivity|].
  destruct Ht as [Ho|[d [Hp Hq]]]; [now left|]. right. exists d'. split; [reflexivity|].
  apply N.eqb_eq in E. pose proof (get_session_some_id _ _ _ Hs) as Hid. rewrite E in Hid. subst t.
  eapply Hk; eassumption.
Qed.

Lemma told_out_set_pending : forall sv u d' t p, told_out sv t p -> told_out (upd_session sv u (fun x => set_pending x d')) t p.
Proof.
  intros sv u d' t p [ss [Hs Ht]]. unfold told_out. rewrite get_session_upd by reflexivity. rewrite Hs. cbn.
  destruct (N.eqb (s_id ss) u); [exists (set_pending ss d')|exists ss]; now split.
Qed.

Lemma told_send : forall sv u d' t p, told sv t p -> told (upd_session sv u (fun x => send x d')) t p.
Proof.
  intros sv u d' t p [ss [Hs Ht]]. unfold told. rewrite get_session_upd by reflexivity. rewrite Hs. cbn.
  destruct (N.eqb (s_id ss) u); [|exists ss; now split].
  exists (send ss d'). split; [reflexivity|]. destruct Ht as [[d [H Hp]]|H]; [left|now right].
  exists d. split; [cbn; apply in_or_app; now left|exact Hp].
Qed.

Lemma pending_or_new_keeps : forall (ss : session) d q, s_pending ss = Some d -> In q (di_removed d) -> In q (di_removed (pending_or_new ss)).
Proof. intros ss d q H Hq. unfold pending_or_new. now rewrite H. Qed.

(* NodeChangedAux never takes a removal notice back, whoever it is for *)
Lemma told_node_changed_aux : forall sv u q d r t p, told sv t p -> told (node_changed_aux sv u q d r) t p.
Proof.
  intros sv u q d r t p H. unfold node_changed_aux.
  destruct (get_session sv u) as [su|] eqn:Eu; [|exact H].
  match goal with |- told (match get_session ?X u with _ => _ end) t p => set (sv1 := X) end.
  assert (Hkeep : forall su0 d0, get_session sv u = Some su0 -> s_pending su0 = Some d0 ->
                    forall q0, In q0 (di_removed d0) -> In q0 (di_removed (pending_or_new su))).
  { intros su0 d0 Hs0 Hp0 q0 Hq0. rewrite Eu in Hs0. inversion Hs0; subst su0. eapply pending_or_new_keeps; eassumption. }
  assert (H1 : told sv1 t p).
  { subst sv1. destruct r; [destruct (di_has_set (pending_or_new su) q)|].
    - (* the forced flush: everything pending goes out, then a fresh pending Message for u *)
      apply told_out_told. apply told_out_set_dirty. apply told_out_set_pending.
      apply told_push_all_out; [|reflexivity]. apply told_set_dirty. apply told_set_pending; [exact Hkeep|exact H].
    - apply told_set_dirty. apply told_set_pending; [|exact H].
      intros su0 d0 Hs0 Hp0 q0 Hq0. cbn. apply in_or_app. left. eapply Hkeep; eassumption.
    - apply told_set_dirty. apply told_set_pending; [|exact H].
      intros su0 d0 Hs0 Hp0 q0 Hq0. cbn. eapply Hkeep; eassumption. }
  destruct (get_session sv1 u) as [ss1|]; [|exact H1].
  destruct (s_pending ss1); [|exact H1]. destruct (N.leb _ _); [|exact H1]. now apply told_push_all.
Qed.

Lemma told_node_changed : forall sv u q d old r t p, told sv t p -> told (node_changed sv u q d old r) t p.
Proof.
  intros sv u q d old r t p H. unfold node_changed. destruct (get_session sv u); [|exact H].
  destruct (N.ltb _ _); [|now apply told_node_changed_aux].
  destruct r.
  - destruct (matches_node _ _ _ _); [now apply told_node_changed_aux|exact H].
  - destruct old; repeat (match goal with |- context [if ?b then _ else _] => destruct b end);
      try (now apply told_node_changed_aux); exact H.
Qed.

Lemma told_notify_changed : forall sv by_ q d old r t p, told sv t p -> told (notify_changed sv by_ q d old r) t p.
Proof.
  intros sv by_ q d old r t p H. unfold notify_changed. destruct (find_node _ _) as [n|]; [|exact H].
  revert sv H. induction (n_subs n) as [|kc l IH]; intros sv H; cbn; [exact H|].
  apply IH. destruct (N.eqb _ _); [exact H|now apply told_node_changed].
Qed.

(* ------------------------------------------------------------------ how a removal notice comes about *)

Lemma node_changed_aux_tells : forall sv t q d ss, get_session sv t = Some ss -> told (node_changed_aux sv t q d true) t q.
Proof.
  intros sv t q d ss Hs. unfold node_changed_aux. rewrite Hs.
  match goal with |- told (match get_session ?X t with _ => _ end) t q => set (sv1 := X) end.
  assert (H1 : told sv1 t q).
  { subst sv1. pose proof (get_session_some_id _ _ _ Hs) as Hid.
    destruct (di_has_set (pending_or_new ss) q).
    - unfold told. rewrite get_session_set_dirty, get_session_upd by reflexivity.
      destruct (get_session (push_all _) t) as [s2|] eqn:E2.
      + cbn. pose proof (get_session_some_id _ _ _ E2) as Hid2. rewrite Hid2, N.eqb_refl.
        exists (set_pending s2 (Some (di_add_removed empty_di q))). split; [reflexivity|]. right.
        exists (di_add_removed empty_di q). split; [reflexivity|]. cbn. now left.
      + exfalso. rewrite get_session_push_all in E2 by reflexivity. rewrite get_session_set_dirty, get_session_upd in E2 by reflexivity.
        rewrite Hs in E2. discriminate.
    - unfold told. rewrite get_session_set_dirty, get_session_upd by reflexivity. rewrite Hs. cbn. rewrite Hid, N.eqb_refl.
      exists (set_pending ss (Some (di_add_removed (pending_or_new ss) q))). split; [reflexivity|]. right.
      exists (di_add_removed (pending_or_new ss) q). split; [reflexivity|]. cbn. apply in_or_app. right. now left. }
  destruct (get_session sv1 t) as [ss1|]; [|exact H1].
  destruct (s_pending ss1); [|exact H1]. destruct (N.leb _ _); [|exact H1]. now apply told_push_all.
Qed.

(* NodeChanged(node, oldData = its data, being removed) tells t, unless t uses filters and none of its subscriptions accepts the node *)
Lemma node_changed_tells : forall sv t q d ss,
  get_session sv t = Some ss ->
  (N.ltb 0 (m_nfilters (s_subs ss)) = true -> matches_node (s_subs ss) q (Some d) 0 = true) ->
  told (node_changed sv t q d (Some d) true) t q.
Proof.
  intros sv t q d ss Hs Hf. unfold node_changed. rewrite Hs.
  destruct (N.ltb 0 (m_nfilters (s_subs ss))) eqn:E.
  - rewrite (Hf eq_refl). eapply node_changed_aux_tells; eassumption.
  - eapply node_changed_aux_tells; eassumption.
Qed.

End Told.
