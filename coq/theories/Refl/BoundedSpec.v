(* Refl/BoundedSpec.v -- C07: what the fuelled handler loops of Refl/Bounded.v compute when they return, written
   without fuel (filters and maps), and the size measures the fuel bounds are stated in.  Definitions only.

   [jq_spec] is the declarative meaning of PR_COMMAND_JETTISONRESULTS: in every queued PR_RESULT_DATAITEMS the removed-
   strings and the values accepted by the matcher go, fields and Messages left empty go with them.  [bhandle_spec] /
   [bstep_spec] are [bhandle] / [bstep] with every fuelled loop replaced by its meaning.  [hpeak] / [speak] are the
   largest outgoing-queue weight a handler meets while it runs: the fuel theorem (BoundedProofs.handler_fuel) says
   that fuel above it (and >= 2 for the while-dirty loop) is adequate, i.e. every loop instance iterates at most
   "weight of the Message it edits + 1" times. *)
From Coq Require Import List NArith ZArith Bool Arith.
From Muscle Require Import Gen.Consts Refl.Base Refl.Tree Refl.Matcher Refl.Traverse Refl.Session Refl.Server Refl.Bounded.
Import ListNotations.

Section Spec.
Context {M : MatchOps}.

(* ------------------------------------------------------------------ sizes *)

Definition sets_weight (fs : list (path * list payload)) : nat := list_sum (map (fun pv => length (snd pv)) fs).

(* number of removed-strings plus number of values: the number of items a jettison pass may have to look at *)
Definition di_weight (d : ditems) : nat := length (di_removed d) + sets_weight (di_sets d).

Definition omsg_weight (x : omsg) : nat := match x with ODataItems d => di_weight d | _ => 0 end.

(* the heaviest Message of a queue *)
Definition qweight (q : list omsg) : nat := list_max (map omsg_weight q).

(* ------------------------------------------------------------------ JettisonOutgoingResults, declaratively *)

Definition keep_removed (m : matcher) (p : path) : bool := negb (matches_path m p None).

Definition keep_value (m : matcher) (p : path) (v : payload) : bool := negb (matches_path m p (Some v)).

Definition field_spec (m : matcher) (pv : path * list payload) : list (path * list payload) :=
  let vs' := if N.ltb 0 (m_nfilters m) then filter (keep_value m (fst pv)) (snd pv)
             else if matches_path m (fst pv) None then [] else snd pv in
  match vs' with [] => [] | _ => [(fst pv, vs')] end.

Definition msg_spec (m : matcher) (d : ditems) : ditems :=
  mkDI (filter (keep_removed m) (di_removed d)) (flat_map (field_spec m) (di_sets d)).

Definition omsg_spec (om : option matcher) (x : omsg) : list omsg :=
  match x with
  | ODataItems d =>
    let d' := match om with Some m => msg_spec m d | None => empty_di end in
    if di_has_names d' then [ODataItems d'] else []
  | _ => [x]
  end.

Definition jq_spec (om : option matcher) (q : list omsg) : list omsg := flat_map (omsg_spec om) q.

(* ------------------------------------------------------------------ the dispatch without fuel *)

Variable fx : fixes.

Definition bpush_spec (b : bserver) : bserver := absorb b (push_all (b_sv b)).

Definition jett_matcher (keys : option (list (spath * option qfilter))) : option matcher :=
  match keys with
  | Some ks => Some (m_of_list (map (fun kf => (fix_path (fst kf), snd kf)) ks))
  | None => None
  end.

Fixpoint bhandle_spec (nest : nat) (b : bserver) (s : sid) (c : bcmd) {struct c} : bserver :=
  match get_session (b_sv b) s with
  | None => b
  | Some ss =>
    match c with
    | BBase c0 => absorb b (handle fx nest (b_sv b) s c0)
    | BSetSup flags items =>
      fold_left (fun b' it =>
                   match get_session (b_sv b') s with
                   | Some ss' => match fst it with
                                 | [] => b'
                                 | _ => bset_data_loop b' (s_id ss') (session_dir ss') (fst it) (snd it)
                                          (flag_set flags c_SETDATANODE_FLAG_DONTCREATENODE)
                                          (flag_set flags c_SETDATANODE_FLAG_DONTOVERWRITEDATA)
                                          (flag_set flags c_SETDATANODE_FLAG_QUIET) true
                                 end
                   | None => b'
                   end) items b
    | BPing t => enqueue b s (OPong t)
    | BNoop => b
    | BBounce code what => enqueue b s (OBounce code what)
    | BJettResults keys => set_queue b s (jq_spec (jett_matcher keys) (queue_of b s))
    | BJettTrees ids => set_queue b s (jettison_trees ids (queue_of b s))
    | BGetTrees id keys => enqueue b s (ODataTrees id (get_trees fx (b_sv b) ss keys))
    | BBatch l =>
      if Nat.ltb nest max_batch_nest then
        (fix go (l : list bcmd) (b : bserver) : bserver :=
           match l with
           | [] => b
           | c' :: r => go r (bpush_spec (bhandle_spec (S nest) b s c'))
           end) l b
      else b
    end
  end.

(* the heaviest queued Message a jettison pass of this command meets *)
Fixpoint hpeak (nest : nat) (b : bserver) (s : sid) (c : bcmd) {struct c} : nat :=
  match get_session (b_sv b) s with
  | None => 0
  | Some _ =>
    match c with
    | BJettResults _ => qweight (queue_of b s)
    | BBatch l =>
      if Nat.ltb nest max_batch_nest then
        (fix go (l : list bcmd) (b : bserver) : nat :=
           match l with
           | [] => 0
           | c' :: r => Nat.max (hpeak (S nest) b s c') (go r (bpush_spec (bhandle_spec (S nest) b s c')))
           end) l b
      else 0
    | _ => 0
    end
  end.

Definition bstep_spec (b : bserver) (ev : bevent) : bserver :=
  match ev with
  | BAttach s host nm =>
    match get_session (b_sv b) s with
    | Some _ => flush b
    | None => flush (absorb (mkB (b_sv b) (b_gws b ++ [mkGw s [] false]) (b_last b)) (attach (b_sv b) s host nm))
    end
  | BDetach s =>
    let b1 := absorb b (detach fx (b_sv b) s) in
    flush (mkB (b_sv b1) (filter (fun g => negb (N.eqb (g_sid g) s)) (b_gws b1)) (b_last b1))
  | BBlock s bl => flush (upd_gw b s (fun g => mkGw (g_sid g) (g_q g) bl))
  | BCmd s c =>
    match get_session (b_sv b) s with
    | None => flush b
    | Some _ => flush (bpush_spec (bhandle_spec 0 b s c))
    end
  end.

Definition speak (b : bserver) (ev : bevent) : nat :=
  match ev with BCmd s c => hpeak 0 b s c | _ => 0 end.

Definition brun_spec (evs : list bevent) (b : bserver) : bserver := fold_left bstep_spec evs b.

(* the heaviest queued Message any step of the history meets *)
Fixpoint rpeak (evs : list bevent) (b : bserver) : nat :=
  match evs with
  | [] => 0
  | ev :: r => Nat.max (speak b ev) (rpeak r (bstep_spec b ev))
  end.

(* ------------------------------------------------------------------ who is talking *)

Definition ev_sid (ev : bevent) : sid :=
  match ev with BAttach s _ _ => s | BDetach s => s | BBlock s _ => s | BCmd s _ => s end.

(* session w is attached and its client reads *)
Definition serving (b : bserver) (w : sid) : Prop :=
  (exists ss, get_session (b_sv b) w = Some ss) /\
  (exists g, find_gw (b_gws b) w = Some g /\ g_blocked g = false).

Definition delivered (b : bserver) (w : sid) (x : omsg) : Prop :=
  exists ms, In (w, ms) (b_last b) /\ In x ms.

End Spec.
