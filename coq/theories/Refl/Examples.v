(* Refl/Examples.v -- concrete histories over the instance of Concrete.v: the premises of the C04 theorems are
   satisfiable by non-trivial states. *)
From Coq Require Import List NArith ZArith Bool Arith Lia.
From Muscle Require Import Refl.Base Refl.BaseProofs Refl.Tree Refl.Matcher Refl.Traverse Refl.Session Refl.Server
     Refl.ServerProofs Refl.RefcountProofs Refl.Concrete.
Import ListNotations.
Local Open Scope N_scope.

(* names: host 1; session nodes 10, 11, 12; data names a = 20, ab = 21, ac = 22, b = 23 *)
Definition a_star : cclause := CWild [20; 21; 22].

(* two sessions; session 0 subscribes to "a*" and to "ab" with the filter v > 3; session 1 creates ab, ac, b/ab *)
Definition ex1 : list event :=
  [ EAttach 0 1 10; EAttach 1 1 11;
    ECmd 0 (CSubscribe false [(Rel [a_star], None); (Rel [CLit 21], Some 3)]);
    ECmd 1 (CSetData 0 [([21], 6); ([22], 2); ([23; 21], 9)]);
    ECmd 0 (CUnsubscribe [Rel [CLit 21]]);
    ECmd 1 (CSetData 0 [([21], 7)]) ].

Definition ex1_state : server := run all_fixed ex1 empty_server.

Example ex1_premises : wf_run all_fixed empty_server ex1 /\ small (run_budget ex1).
Proof. split; [apply wf_run_b_spec; vm_compute; reflexivity|vm_compute; reflexivity]. Qed.

(* non-trivial: five nodes; /1/11/21 ("ab") is marked once by session 0 after the unsubscribe, was marked twice before *)
Example ex1_nontrivial :
  length (sv_tree ex1_state) = 7%nat
  /\ option_map (fun n => tbl_get (n_subs n) 0) (find_node (sv_tree ex1_state) [1; 11; 21]) = Some 1
  /\ option_map (fun n => tbl_get (n_subs n) 0)
       (find_node (sv_tree (run all_fixed (firstn 4 ex1) empty_server)) [1; 11; 21]) = Some 2.
Proof. vm_compute. repeat split; reflexivity. Qed.
