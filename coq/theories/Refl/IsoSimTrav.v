(* Refl/IsoSimTrav.v -- C06, as-if-never: a traversal that starts at a node below which two trees agree up to one session's
   marks (same children in the same order, same payloads), with a callback that does not look at subscriber tables, gives the
   same result on both trees. *)
From Coq Require Import List NArith ZArith Bool Arith Lia.
From Muscle Require Import Refl.Base Refl.BaseProofs Refl.Tree Refl.Matcher Refl.Traverse Refl.IsoBase Refl.IsoSimBase.
Import ListNotations.

Section TravTwo.
Context {M : MatchOps}.
Variable A : Type.
Variable cb : A -> node -> A * Z.
Variable tF tE : tree.
Variable m : matcher.
Variable root_depth : nat.
Variable use_filters guard_fixed : bool.
Variable root : path.
Variable s : sid.

Hypothesis Hcb : forall acc n, cb acc (strip s n) = cb acc n.
Hypothesis Hkids : forall x, is_prefix root x = true -> children tE x = map (strip s) (children tF x).
Hypothesis Hget : forall x k, is_prefix root x = true -> get_child tE x k = option_map (strip s) (get_child tF x k).

Definition rec_same (recE recF : path -> A -> A * Z) : Prop :=
  forall p acc, is_prefix root p = true -> recE p acc = recF p acc.

Lemma check_entries_two : forall recE recF child rel known es idx matched recursed acc,
  rec_same recE recF -> is_prefix root (n_path child) = true ->
  check_entries A cb m root_depth use_filters guard_fixed recE (strip s child) rel known es idx matched recursed acc =
  check_entries A cb m root_depth use_filters guard_fixed recF child rel known es idx matched recursed acc.
Proof.
  intros recE recF child rel known es. induction es as [|e es IH]; intros idx matched recursed acc Hrec Hp; cbn; [reflexivity|].
  unfold depth; cbn [n_path n_data strip].
  destruct (_ || _); [|now apply IH].
  destruct (Nat.eqb _ _).
  - destruct matched; [now apply IH|].
    destruct (_ || _); [|now apply IH].
    rewrite Hcb. destruct (cb acc child) as [acc1 nd]. destruct (Z.ltb _ _); [reflexivity|]. destruct recursed; [reflexivity|]. now apply IH.
  - destruct recursed; [now apply IH|].
    rewrite (Hrec (n_path child) acc Hp). destruct (recF (n_path child) acc) as [acc1 nd].
    destruct (Z.ltb _ _); [reflexivity|]. destruct matched; [reflexivity|]. now apply IH.
Qed.

Lemma iter_children_two : forall recE recF rel cs acc,
  rec_same recE recF -> (forall c, In c cs -> is_prefix root (n_path c) = true) ->
  iter_children A cb m root_depth use_filters guard_fixed recE rel (map (strip s) cs) acc =
  iter_children A cb m root_depth use_filters guard_fixed recF rel cs acc.
Proof.
  intros recE recF rel cs. induction cs as [|c cs IH]; intros acc Hrec Hcs; cbn; [reflexivity|].
  unfold check_child. rewrite (check_entries_two recE recF c rel None (active m rel) 0 false false acc Hrec (Hcs c (or_introl eq_refl))).
  destruct (check_entries A cb m root_depth use_filters guard_fixed recF c rel None (active m rel) 0 false false acc) as [acc1 [d|]]; [reflexivity|].
  apply IH; [exact Hrec|]. intros c' Hc'. apply Hcs. now right.
Qed.

Lemma lookup_keys_two : forall recE recF x rel idx ks did acc,
  rec_same recE recF -> is_prefix root x = true ->
  lookup_keys A cb tE m root_depth use_filters guard_fixed recE x rel idx ks did acc =
  lookup_keys A cb tF m root_depth use_filters guard_fixed recF x rel idx ks did acc.
Proof.
  intros recE recF x rel idx ks. induction ks as [|k ks IH]; intros did acc Hrec Hx; cbn; [reflexivity|].
  rewrite (Hget x k Hx). destruct (get_child tF x k) as [c|] eqn:Eg; cbn [option_map]; [|now apply IH].
  rewrite ?strip_path. destruct (path_mem (n_path c) did); [now apply IH|].
  assert (Hc : is_prefix root (n_path c) = true).
  { unfold get_child in Eg. apply find_node_In in Eg as [_ Hp]. rewrite Hp. now apply is_prefix_snoc. }
  unfold check_child. rewrite (check_entries_two recE recF c rel (Some idx) (active m rel) 0 false false acc Hrec Hc).
  destruct (check_entries A cb m root_depth use_filters guard_fixed recF c rel (Some idx) (active m rel) 0 false false acc) as [acc1 [d|]]; [reflexivity|].
  now apply IH.
Qed.

Lemma lookup_entries_two : forall recE recF x rel es idx did acc,
  rec_same recE recF -> is_prefix root x = true ->
  lookup_entries A cb tE m root_depth use_filters guard_fixed recE x rel es idx did acc =
  lookup_entries A cb tF m root_depth use_filters guard_fixed recF x rel es idx did acc.
Proof.
  intros recE recF x rel es. induction es as [|e es IH]; intros idx did acc Hrec Hx; cbn; [reflexivity|].
  rewrite (lookup_keys_two recE recF x rel idx _ did acc Hrec Hx).
  destruct (lookup_keys A cb tF m root_depth use_filters guard_fixed recF x rel idx _ did acc) as [[acc1 did1] [d|]]; [reflexivity|].
  now apply IH.
Qed.

Lemma trav_two : forall fuel,
  rec_same (trav A cb tE m root_depth use_filters guard_fixed fuel) (trav A cb tF m root_depth use_filters guard_fixed fuel).
Proof.
  induction fuel as [|f IH]; intros x acc Hx; cbn; [reflexivity|].
  destruct (existsb _ _).
  - rewrite (Hkids x Hx). rewrite (iter_children_two _ _ _ _ acc IH); [reflexivity|].
    intros c Hc. apply children_In in Hc as [_ [k Hk]]. rewrite Hk. now apply is_prefix_snoc.
  - now rewrite (lookup_entries_two _ _ x _ _ 0 [] acc IH Hx).
Qed.

End TravTwo.

Lemma do_traversal_two : forall {M : MatchOps} (A : Type) (cb : A -> node -> A * Z) tF tE m root uf gf s acc,
  (forall acc n, cb acc (strip s n) = cb acc n) ->
  (forall x, is_prefix root x = true -> children tE x = map (strip s) (children tF x)) ->
  (forall x k, is_prefix root x = true -> get_child tE x k = option_map (strip s) (get_child tF x k)) ->
  do_traversal cb tE m root uf gf acc = do_traversal cb tF m root uf gf acc.
Proof.
  intros M A cb tF tE m root uf gf s acc Hcb Hk Hg. unfold do_traversal. f_equal.
  apply (trav_two A cb tF tE m (length root) uf gf root s Hcb Hk Hg). apply is_prefix_refl.
Qed.
