(* Refl/IsoProofs.v -- C06: first facts about the dispatcher model of Refl/IsoModel.v. *)
From Coq Require Import List NArith ZArith Bool Arith Lia.
From Muscle Require Import Gen.Consts Refl.Base Refl.Tree Refl.Matcher Refl.Traverse Refl.Session Refl.Server Refl.IsoModel.
Import ListNotations.

Section IsoProofs.
Context {M : MatchOps}.
Variable fx : fixes.

(* a client cannot give itself privileges: SETPARAMETERS with PR_NAME_PRIVILEGE_BITS changes nothing at all *)
Lemma setpriv_ignored : forall nest xs s bits, xhandle fx nest xs s (XSetPriv bits) = xs.
Proof.
  intros nest xs s bits. destruct nest; cbn; destruct (get_session (xs_sv xs) s); reflexivity.
Qed.

End IsoProofs.
