(* Refl/IsoProofs.v -- C06: first facts about the dispatcher model of Refl/IsoModel.v. *)
From Coq Require Import List NArith ZArith Bool Arith Lia.
From Muscle Require Import Gen.Consts Refl.Base Refl.Tree Refl.Matcher Refl.Traverse Refl.Session Refl.Server Refl.IsoModel.
Import ListNotations.

Section IsoProofs.
Context {M : MatchOps}.
Variable fx : fixes.

(* a client cannot give itself privileges: SETPARAMETERS with PR_NAME_PRIVILEGE_BITS changes nothing at all *)
Lemma setpriv_ignored : forall nest xs s bits, xhandle fx nest xs s (XSetPriv bits) = xs.
Proof.
  intros nest xs s bits. destruct nest; cbn; destruct (get_session (xs_sv xs) s); reflexivity.
Qed.

End IsoProofs.

(* side conditions on the translated constants the dispatcher model branches on: the what-codes it tells apart are pairwise
   distinct and lie inside the command range (so no branch of [dispatch] shadows another), the three privilege bits are
   distinct and below PR_NUM_PRIVILEGES.  Re-checked whenever reflector/StorageReflectConstants.h changes. *)
Lemma dispatch_codes_ok :
  NoDup [c_PR_COMMAND_KICK; c_PR_COMMAND_ADDBANS; c_PR_COMMAND_ADDREQUIRES; c_PR_COMMAND_REMOVEBANS; c_PR_COMMAND_REMOVEREQUIRES;
         c_PR_COMMAND_PING; c_PR_COMMAND_GETPARAMETERS; c_PR_COMMAND_GETDATATREES; c_PR_COMMAND_SETDATATREES; c_PR_COMMAND_NOOP;
         c_PR_COMMAND_JETTISONRESULTS; c_PR_COMMAND_JETTISONDATATREES; c_PR_COMMAND_SETPARAMETERS; c_PR_COMMAND_REMOVEPARAMETERS;
         c_PR_COMMAND_SETDATA; c_PR_COMMAND_REMOVEDATA; c_PR_COMMAND_GETDATA; c_PR_COMMAND_BATCH; c_PR_COMMAND_INSERTORDEREDDATA;
         c_PR_COMMAND_REORDERDATA] /\
  forallb in_command_range
        [c_PR_COMMAND_KICK; c_PR_COMMAND_ADDBANS; c_PR_COMMAND_ADDREQUIRES; c_PR_COMMAND_REMOVEBANS; c_PR_COMMAND_REMOVEREQUIRES;
         c_PR_COMMAND_PING; c_PR_COMMAND_GETPARAMETERS; c_PR_COMMAND_GETDATATREES; c_PR_COMMAND_SETDATATREES; c_PR_COMMAND_NOOP;
         c_PR_COMMAND_JETTISONRESULTS; c_PR_COMMAND_JETTISONDATATREES; c_PR_COMMAND_SETPARAMETERS; c_PR_COMMAND_REMOVEPARAMETERS;
         c_PR_COMMAND_SETDATA; c_PR_COMMAND_REMOVEDATA; c_PR_COMMAND_GETDATA; c_PR_COMMAND_BATCH; c_PR_COMMAND_INSERTORDEREDDATA;
         c_PR_COMMAND_REORDERDATA] = true /\
  NoDup [c_PR_PRIVILEGE_KICK; c_PR_PRIVILEGE_ADDBANS; c_PR_PRIVILEGE_REMOVEBANS] /\
  forallb (fun b => N.ltb b c_PR_NUM_PRIVILEGES) [c_PR_PRIVILEGE_KICK; c_PR_PRIVILEGE_ADDBANS; c_PR_PRIVILEGE_REMOVEBANS] = true /\
  N.ltb c_PR_RESULT_ERRORACCESSDENIED c_BEGIN_PR_COMMANDS || N.ltb c_END_PR_COMMANDS c_PR_RESULT_ERRORACCESSDENIED = true.
Proof.
  repeat split; try (vm_compute; reflexivity);
    repeat (constructor; [vm_compute; intuition discriminate|]); constructor.
Qed.
