(* Refl/MirrorGet.v -- an explicit PR_COMMAND_GETDATA of the subscriber itself whose keys are subscriptions it holds
   (same path, same filter) leaves its invariant J alone: every node in the reply is selected by its subscriptions and
   carries the node's current payload. *)
From Coq Require Import List NArith ZArith Bool Arith Lia.
From Muscle Require Import Gen.Consts Refl.Base Refl.BaseProofs Refl.Tree Refl.TreeProofs Refl.Matcher Refl.MatcherProofs
     Refl.Traverse Refl.TraverseFold Refl.TraverseSpec Refl.Session Refl.Server Refl.ServerProofs Refl.Mirror Refl.MirrorBase
     Refl.MirrorServer Refl.MirrorNotify Refl.MirrorSem Refl.MirrorSteps Refl.MirrorHandlers Refl.MirrorSubscribe Refl.MirrorFetch.
Import ListNotations.

Section Get.
Context {M : MatchOps} {L : MatchLaws M}.
Variable fx : fixes.
Hypothesis guard_on : fx_guard fx = true.
Variable mir : mirror.
Variable s : sid.

Notation J := (J mir).
Notation V := (V mir).

Theorem getdata_covered_J : forall B sv ss keys,
  inv B sv -> pend_ok sv -> get_session sv s = Some ss -> s_pending ss = None ->
  NoDup (fixed keys) -> (forall p, In p (fixed keys) -> p <> []) ->
  (forall kf, In kf keys -> In (mkEntry (fix_path (fst kf)) (snd kf)) (all_entries (s_subs ss))) ->
  J sv s -> J (do_get_data fx sv s keys) s.
Proof.
  intros B sv ss keys I Hpo Hss Hnp Hnd Hne Hcov HJ.
  pose proof (inv_tree _ _ _ I) as Ht.
  set (Mf := m_of_list (map (fun kf => (fix_path (fst kf), snd kf)) keys)).
  assert (HwMf : wf_groups (m_groups Mf)) by apply m_of_list_wf.
  assert (HndVl : NoDup (map n_path (vlist (sv_tree sv) Mf [] true))) by (now apply vlist_paths_nodup).
  destruct (fetch_V fx guard_on mir s ss sv keys Hpo Hss Hnp HndVl) as [Hc2 HV2]. fold Mf in HV2.
  assert (HMf : forall x, In x (all_entries Mf) <-> exists sf, In sf keys /\ x = mkEntry (fix_path (fst sf)) (snd sf)).
  { intros x. unfold Mf. rewrite m_of_list_entries.
    - split.
      + intros [pf [H1 H2]]. apply in_map_iff in H1 as [sf [H3 H4]]. subst pf. cbn [fst snd] in H2. eauto.
      + intros [sf [H1 H2]]. exists (fix_path (fst sf), snd sf). split; [apply in_map_iff; eauto|auto].
    - rewrite map_map. cbn [fst]. exact Hnd.
    - intros pf Hpf. apply in_map_iff in Hpf as [sf [H1 H2]]. subst pf. cbn [fst]. apply Hne. unfold fixed. apply in_map_iff. eauto. }
  assert (Hin : In ss (sv_sessions sv)) by (apply find_session_some in Hss; tauto).
  destruct (inv_subs _ _ _ I ss Hin) as [[Hw _] _].
  apply (J_intro mir sv); [now apply same_core_sess|].
  intros ss0 Hss0 q Hown. assert (ss0 = ss) by congruence. subst ss0.
  destruct Hc2 as [Ht2 _]. rewrite Ht2, HV2.
  destruct (find _ (vlist (sv_tree sv) Mf [] true)) as [n|] eqn:Ef; [|now apply HJ].
  apply find_some in Ef as [Hf1 Hf2]. apply andb_true_iff in Hf2 as [Hf2 _]. apply path_eqb_eq in Hf2.
  apply vlist_spec in Hf1 as [Hf1 [_ Hf3]]; auto. cbn [length] in Hf3. unfold dsel in Hf3.
  rewrite matches_node_path, Hf2 in Hf3 by auto. apply matches_path_ematch in Hf3 as [x [Hx Hm]]; auto.
  apply HMf in Hx as [sf [Hsf1 Hsf2]]. subst x.
  rewrite expected_exp_with. rewrite <- Hf2, (find_node_in _ _ (proj1 Ht) Hf1). cbn [option_map]. rewrite Hf2.
  f_equal. symmetry. apply exp_with_some; auto. exists (mkEntry (fix_path (fst sf)) (snd sf)). split; [now apply Hcov|exact Hm].
Qed.

End Get.
