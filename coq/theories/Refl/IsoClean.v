(* Refl/IsoClean.v -- C06: [detach_clean], the statement of Refl/IsoDetach.v for a connection that ends after ANY history. *)
From Coq Require Import List NArith ZArith Bool Arith Lia.
From Muscle Require Import Gen.Consts Refl.Base Refl.BaseProofs Refl.Tree Refl.TreeProofs Refl.Matcher Refl.MatcherProofs
     Refl.Traverse Refl.Session Refl.Server Refl.ServerProofs Refl.IsoModel Refl.IsoBase Refl.IsoFrame Refl.IsoTold
     Refl.IsoDetach Refl.IsoRun.
Import ListNotations.

Section Clean.
Context {M : MatchOps} {L : MatchLaws M}.
Variable fx : fixes.
Hypothesis guard_on : fx_guard fx = true.

(* what "session s (record ss, state xs) has left without a trace, and everybody concerned knows" means for the state xs' *)
Record left_clean (xs : xserver) (s : sid) (ss : session) (xs' : xserver) : Prop := mkClean {
  (* its whole subtree is gone *)
  lc_subtree : forall n, In n (sv_tree (xs_sv xs')) -> is_prefix (session_dir ss) (n_path n) = false;
  (* the host node is there iff another session lives on that host *)
  lc_host : has_node (sv_tree (xs_sv xs')) [s_host ss] = true <->
            exists x, In x (sv_sessions (xs_sv xs)) /\ s_id x <> s /\ s_host x = s_host ss;
  (* no subscriber table mentions it *)
  lc_marks : forall n, In n (sv_tree (xs_sv xs')) -> ~ In s (map fst (n_subs n)) /\ tbl_get (n_subs n) s = 0%N;
  (* it is no longer a session, holds no privilege entry, nobody is marked for removal *)
  lc_gone : get_session (xs_sv xs') s = None /\ priv_get (xs_priv xs') s = 0%N /\ xs_ducks xs' = [];
  (* every other session is still there with the same identity, subscriptions, limits and privileges *)
  lc_others : map core (sv_sessions (xs_sv xs')) = map core (filter (fun x => negb (N.eqb (s_id x) s)) (sv_sessions (xs_sv xs))) /\
              priv_remove (xs_priv xs') s = priv_remove (xs_priv xs) s;
  (* every remaining node is an old node outside the subtree, unchanged but for the departed session's mark ... *)
  lc_rest : forall n', In n' (sv_tree (xs_sv xs')) ->
            exists n, In n (sv_tree (xs_sv xs)) /\ n_path n' = n_path n /\ n_data n' = n_data n /\
                      tbl_without s (n_subs n') = tbl_without s (n_subs n);
  (* ... and every old node outside the subtree, except possibly the host node, is still there *)
  lc_kept : forall n, In n (sv_tree (xs_sv xs)) -> is_prefix (session_dir ss) (n_path n) = false -> n_path n <> [s_host ss] ->
            has_node (sv_tree (xs_sv xs')) (n_path n) = true;
  (* every other session owed a notice for a node of the subtree has been sent (or has pending) its removal *)
  lc_told : forall n t st, In n (sv_tree (xs_sv xs)) -> is_prefix (session_dir ss) (n_path n) = true ->
            t <> s -> get_session (xs_sv xs) t = Some st -> owed st n -> told (xs_sv xs') t (n_path n)
}.

Lemma priv_get_remove_self : forall l s, priv_get (priv_remove l s) s = 0%N.
Proof.
  unfold priv_remove. induction l as [|[k b] r IH]; intros s; cbn; [reflexivity|].
  destruct (N.eqb k s) eqn:E; cbn; [apply IH|]. rewrite E. apply IH.
Qed.

Lemma priv_remove_twice : forall l s, priv_remove (priv_remove l s) s = priv_remove l s.
Proof.
  unfold priv_remove. induction l as [|[k b] r IH]; intros s; cbn; [reflexivity|].
  destruct (N.eqb k s) eqn:E; cbn; [apply IH|]. rewrite E. cbn. now rewrite IH.
Qed.

(* in any state satisfying the invariant *)
Lemma xdetach_clean : forall B xs s ss, small B -> inv B (xs_sv xs) -> xs_ducks xs = [] ->
  get_session (xs_sv xs) s = Some ss -> left_clean xs s ss (xdetach fx xs s).
Proof.
  intros B xs s ss HB I Hd Hss. constructor; cbn [xs_sv xs_priv xs_ducks xdetach].
  - now apply (detach_subtree_gone fx guard_on B).
  - now apply (detach_host fx guard_on B).
  - now apply (detach_no_marks fx guard_on B _ s ss).
  - split; [apply (detach_sessions fx guard_on B _ s ss I Hss)|]. split; [apply priv_get_remove_self|]. now rewrite Hd.
  - split; [apply (detach_sessions fx guard_on B _ s ss I Hss)|apply priv_remove_twice].
  - now apply (detach_rest_untouched fx guard_on B _ s ss).
  - now apply (detach_rest_kept fx guard_on B _ s ss).
  - intros n t st Hn Hp Hne Hst Ho. now apply (detach_tells fx B _ s ss n t st).
Qed.

(* DETACH CLEAN: whatever happened before (any history of arrivals, departures and commands, hostile or not, from any number
   of sessions), when the connection of an attached session s ends, s has left without a trace and everybody concerned knows.
   The only conditions on the history: sessions arrive under fresh (host, id) pairs, and fewer than 2^31 - 1 subscription
   strings are ever added (the counts in the subscriber tables are uint32 / the deltas int32). *)
Theorem detach_clean : forall evs s ss,
  small (xrun_budget evs) -> xwf_run fx empty_xserver evs ->
  let xs := xrun fx evs empty_xserver in
  get_session (xs_sv xs) s = Some ss ->
  left_clean xs s ss (xstep fx xs (XDetach s)).
Proof.
  intros evs s ss HB Hwf xs Hss. cbn [xstep].
  apply (xdetach_clean (xrun_budget evs)); [exact HB| | |exact Hss].
  - now apply reachable_inv.
  - apply xrun_no_ducks. reflexivity.
Qed.

End Clean.
