(* Refl/TraverseExit.v -- NodePathMatcher::DoTraversal with an ARBITRARY callback (any returned depths).

   trav_R:     the traversal equals a structural run [R] over the pure functions [procs] / [actions] of
               Refl/TraverseProofs.v, in which the only thing that depends on the accumulator is where the
               callback's returned depth makes the traversal unwind.
   R_invariant: a property of the accumulator that every callback preserves holds at the end.
   R_deep / R_shallow: for a callback that always returns NODE_DEPTH_SESSIONNAME ("skip to the next session"), started
               at the global root: below depth 3 only the first node of the visit list is called back on, above it
               the traversal is a plain fold over the truncated visit list [Vt]. *)
From Coq Require Import List NArith ZArith Bool Arith Lia.
From Muscle Require Import Refl.Base Refl.Tree Refl.Matcher Refl.Traverse Refl.TravBase Refl.TraverseProofs Refl.TraverseTheorems.
Import ListNotations.

Section Exit.
Context {M : MatchOps}.
Variable t : tree.
Variable m : matcher.
Variable root_depth : nat.
Variable use_filters : bool.
Variable guard_fixed : bool.
Variable A : Type.
Variable cb : A -> node -> A * Z.

Local Notation ACT := (actions m root_depth use_filters guard_fixed).

(* the result of a (sub)traversal: Some d = it unwinds to depth d *)
Definition fin (r : A * option Z) (p : path) : A * Z :=
  match snd r with Some d => (fst r, d) | None => (fst r, Z.of_nat (length p)) end.

(* the actions for one child, with the exits *)
Fixpoint run_x (recW : path -> A -> A * option Z) (c : node) (l : list action) (acc : A) : A * option Z :=
  match l with
  | [] => (acc, None)
  | ACall :: l' =>
    if Z.ltb (snd (cb acc c)) (Z.of_nat (depth c) - 1) then (fst (cb acc c), Some (snd (cb acc c)))
    else run_x recW c l' (fst (cb acc c))
  | ARec :: l' =>
    match snd (recW (n_path c) acc) with
    | Some d => if Z.ltb d (Z.of_nat (depth c) - 1) then (fst (recW (n_path c) acc), Some d)
                else run_x recW c l' (fst (recW (n_path c) acc))
    | None => run_x recW c l' (fst (recW (n_path c) acc))
    end
  end.

Fixpoint run_procs (recW : path -> A -> A * option Z) (rel : nat) (ps : list (node * option nat)) (acc : A) : A * option Z :=
  match ps with
  | [] => (acc, None)
  | ck :: ps' =>
    match snd (run_x recW (fst ck) (ACT (fst ck) rel (snd ck) (active m rel) 0 false false) acc) with
    | Some d => run_x recW (fst ck) (ACT (fst ck) rel (snd ck) (active m rel) 0 false false) acc
    | None => run_procs recW rel ps' (fst (run_x recW (fst ck) (ACT (fst ck) rel (snd ck) (active m rel) 0 false false) acc))
    end
  end.

Fixpoint R (fuel : nat) (x : path) (acc : A) : A * option Z :=
  match fuel with
  | 0 => (acc, None)
  | S f => run_procs (R f) (length x - root_depth) (procs t m x (length x - root_depth)) acc
  end.

Lemma run_procs_app : forall recW rel l1 l2 acc,
  run_procs recW rel (l1 ++ l2) acc =
  match snd (run_procs recW rel l1 acc) with
  | Some d => run_procs recW rel l1 acc
  | None => run_procs recW rel l2 (fst (run_procs recW rel l1 acc))
  end.
Proof.
  intros recW rel l1. induction l1 as [|ck l1 IH]; intros l2 acc; [reflexivity|].
  cbn [app run_procs].
  destruct (snd (run_x recW (fst ck) (ACT (fst ck) rel (snd ck) (active m rel) 0 false false) acc)) eqn:E.
  - rewrite E. reflexivity.
  - apply IH.
Qed.

Section Step.
Variable rec : path -> A -> A * Z.
Variable recW : path -> A -> A * option Z.
Hypothesis rec_spec : forall p acc, rec p acc = fin (recW p acc) p.

Local Notation CE := (check_entries A cb m root_depth use_filters guard_fixed).
Local Notation CC := (check_child A cb m root_depth use_filters guard_fixed).
Local Notation IC := (iter_children A cb m root_depth use_filters guard_fixed).
Local Notation LK := (lookup_keys A cb t m root_depth use_filters guard_fixed).
Local Notation LE := (lookup_entries A cb t m root_depth use_filters guard_fixed).

Lemma ltb_self_false : forall d : nat, Z.ltb (Z.of_nat d) (Z.of_nat d - 1) = false.
Proof. intros d. apply Z.ltb_ge. lia. Qed.

Lemma check_entries_run : forall es child rel known idx matched recursed acc,
  CE rec child rel known es idx matched recursed acc = run_x recW child (ACT child rel known es idx matched recursed) acc.
Proof.
  induction es as [|e es IH]; intros child rel known idx matched recursed acc; [reflexivity|].
  cbn [check_entries actions]. unfold hit at 1.
  destruct ((match known with Some k => Nat.eqb idx k | None => false end)
            || cmatch (clause_at e rel) (last_name (n_path child))) eqn:Hhit; [|apply IH].
  destruct (Nat.eqb (length (e_pat e)) (S rel)) eqn:Hterm.
  - destruct matched; [apply IH|]. unfold guard_ok at 1.
    destruct ((single_guard m guard_fixed && (negb use_filters || negb (has_filter e)))
              || matches_node m (n_path child) (if use_filters then Some (n_data child) else None) root_depth) eqn:Hg; [|apply IH].
    cbn [run_x]. destruct (cb acc child) as [acc1 nd] eqn:Hcb. cbn [fst snd].
    destruct (Z.ltb nd (Z.of_nat (depth child) - 1)); [reflexivity|].
    destruct recursed; [reflexivity | apply IH].
  - destruct recursed; [apply IH|].
    cbn [run_x]. rewrite rec_spec. unfold fin.
    destruct (recW (n_path child) acc) as [acc1 [d|]] eqn:Hr; cbn [fst snd].
    + destruct (Z.ltb d (Z.of_nat (depth child) - 1)); [reflexivity|].
      destruct matched; [reflexivity | apply IH].
    + unfold depth. rewrite ltb_self_false. destruct matched; [reflexivity | apply IH].
Qed.

Lemma check_child_run : forall child rel known acc,
  CC rec child rel known acc = run_x recW child (ACT child rel known (active m rel) 0 false false) acc.
Proof. intros. unfold check_child. apply check_entries_run. Qed.

Lemma iter_children_run : forall rel cs acc,
  IC rec rel cs acc = run_procs recW rel (map (fun c => (c, None)) cs) acc.
Proof.
  intros rel cs. induction cs as [|c cs IH]; intros acc; [reflexivity|].
  cbn [iter_children map run_procs fst snd]. rewrite check_child_run.
  destruct (run_x recW c (ACT c rel None (active m rel) 0 false false) acc) as [acc1 [d|]]; cbn [fst snd]; [reflexivity | apply IH].
Qed.

Lemma lookup_keys_run : forall x rel idx ks did acc,
  fst (fst (LK rec x rel idx ks did acc)) = fst (run_procs recW rel (fst (lk_keys t x idx ks did)) acc) /\
  snd (LK rec x rel idx ks did acc) = snd (run_procs recW rel (fst (lk_keys t x idx ks did)) acc) /\
  (snd (run_procs recW rel (fst (lk_keys t x idx ks did)) acc) = None ->
   snd (fst (LK rec x rel idx ks did acc)) = snd (lk_keys t x idx ks did)).
Proof.
  intros x rel idx ks. induction ks as [|k ks IH]; intros did acc; [cbn; tauto|].
  cbn [lookup_keys lk_keys]. destruct (get_child t x k) as [c|]; [|apply IH].
  destruct (path_mem (n_path c) did); [apply IH|].
  rewrite check_child_run. cbn [fst snd run_procs].
  destruct (run_x recW c (ACT c rel (Some idx) (active m rel) 0 false false) acc) as [acc1 [d|]]; cbn [fst snd].
  - repeat split; try reflexivity. intros X. discriminate.
  - apply IH.
Qed.

Lemma lookup_entries_run : forall x rel es idx did acc,
  LE rec x rel es idx did acc = run_procs recW rel (lk_entries t x rel es idx did) acc.
Proof.
  intros x rel es. induction es as [|e es IH]; intros idx did acc; [reflexivity|].
  cbn [lookup_entries lk_entries]. rewrite run_procs_app.
  set (ks := match ckeys (clause_at e rel) with Some ks => ks | None => [] end).
  destruct (lookup_keys_run x rel idx ks did acc) as [H1 [H2 H3]].
  destruct (LK rec x rel idx ks did acc) as [[acc1 did1] o] eqn:E. cbn [fst snd] in H1, H2, H3.
  destruct (run_procs recW rel (fst (lk_keys t x idx ks did)) acc) as [acc2 o2] eqn:E2. cbn [fst snd] in *.
  subst acc2 o2. destruct o as [d|]; [reflexivity|].
  rewrite (H3 eq_refl). apply IH.
Qed.

End Step.

(* the traversal, whatever the callback returns *)
Theorem trav_R : forall fuel x acc,
  trav A cb t m root_depth use_filters guard_fixed fuel x acc = fin (R fuel x acc) x.
Proof.
  induction fuel as [|f IH]; intros x acc; [reflexivity|].
  cbn [trav R]. unfold procs.
  destruct (existsb (fun e => is_wild (clause_at e (length x - root_depth))) (active m (length x - root_depth))).
  - rewrite (iter_children_run _ (R f) IH). unfold fin.
    destruct (run_procs (R f) (length x - root_depth) (map (fun c => (c, None)) (children t x)) acc) as [a [d|]]; reflexivity.
  - rewrite (lookup_entries_run _ (R f) IH). unfold fin.
    destruct (run_procs (R f) (length x - root_depth) (lk_entries t x (length x - root_depth) (active m (length x - root_depth)) 0 []) acc) as [a [d|]]; reflexivity.
Qed.

(* ------------------------------------------------------------------ invariants *)

Section Invariant.
Variable P : A -> Prop.
Hypothesis cb_keeps : forall acc n, P acc -> P (fst (cb acc n)).

Lemma run_x_inv : forall recW, (forall p acc, P acc -> P (fst (recW p acc))) ->
  forall c l acc, P acc -> P (fst (run_x recW c l acc)).
Proof.
  intros recW HW c l. induction l as [|a l IH]; intros acc H; [assumption|].
  destruct a; cbn [run_x].
  - destruct (Z.ltb (snd (cb acc c)) (Z.of_nat (depth c) - 1)); cbn [fst]; [now apply cb_keeps | apply IH; now apply cb_keeps].
  - destruct (snd (recW (n_path c) acc)) as [d|].
    + destruct (Z.ltb d (Z.of_nat (depth c) - 1)); cbn [fst]; [now apply HW | apply IH; now apply HW].
    + apply IH. now apply HW.
Qed.

Lemma run_procs_inv : forall recW, (forall p acc, P acc -> P (fst (recW p acc))) ->
  forall rel ps acc, P acc -> P (fst (run_procs recW rel ps acc)).
Proof.
  intros recW HW rel ps. induction ps as [|ck ps IH]; intros acc H; [assumption|].
  cbn [run_procs].
  destruct (snd (run_x recW (fst ck) (ACT (fst ck) rel (snd ck) (active m rel) 0 false false) acc)).
  - now apply run_x_inv.
  - apply IH. now apply run_x_inv.
Qed.

Lemma R_invariant : forall fuel x acc, P acc -> P (fst (R fuel x acc)).
Proof.
  induction fuel as [|f IH]; intros x acc H; [assumption|].
  cbn [R]. apply run_procs_inv; [|assumption]. intros p a Ha. now apply IH.
Qed.

Lemma trav_invariant : forall fuel x acc, P acc -> P (fst (trav A cb t m root_depth use_filters guard_fixed fuel x acc)).
Proof.
  intros fuel x acc H. rewrite trav_R. unfold fin.
  destruct (R fuel x acc) as [a [d|]] eqn:E; cbn [fst snd];
    change a with (fst (a, (Some d : option Z))) || change a with (fst (a, (None : option Z))); rewrite <- E; now apply R_invariant.
Qed.

End Invariant.

End Exit.

(* ------------------------------------------------------------------ a callback that always returns NODE_DEPTH_SESSIONNAME *)

Section ConstDepth.
Context {M : MatchOps}.
Variable t : tree.
Variable m : matcher.
Variable use_filters : bool.
Variable guard_fixed : bool.
Variable A : Type.
Variable h : A -> node -> A.

(* PassMessageCallback, FindSessionsCallback (without a result limit): do something, then "skip to the next session" *)
Definition cbK : A -> node -> A * Z := fun acc n => (h acc n, 2%Z).

Local Notation RR := (R t m 0 use_filters guard_fixed A cbK).
Local Notation VV := (V t m 0 use_filters guard_fixed).
Local Notation CV := (child_visits m 0 use_filters guard_fixed).
Local Notation RX := (run_x A cbK).
Local Notation RP := (run_procs m 0 use_filters guard_fixed A cbK).

Definition first_only (acc : A) (l : list node) : A * option Z :=
  match l with [] => (acc, None) | n :: _ => (h acc n, Some 2%Z) end.

Definition act_nodes (W : path -> list node) (c : node) (l : list action) : list node :=
  flat_map (fun a => match a with ACall => [c] | ARec => W (n_path c) end) l.

Lemma run_x_deep : forall recW W c l acc,
  4 <= depth c -> (forall a, recW (n_path c) a = first_only a (W (n_path c))) ->
  RX recW c l acc = first_only acc (act_nodes W c l).
Proof.
  intros recW W c l acc Hd HW. revert acc. induction l as [|a l IH]; intros acc; [reflexivity|].
  destruct a; cbn [run_x act_nodes flat_map].
  - unfold cbK at 1. cbn [fst snd].
    replace (Z.ltb 2 (Z.of_nat (depth c) - 1)) with true by (symmetry; apply Z.ltb_lt; lia). reflexivity.
  - rewrite HW. fold (act_nodes W c l). destruct (W (n_path c)) as [|n0 r]; cbn [first_only fst snd app].
    + apply IH.
    + replace (Z.ltb 2 (Z.of_nat (depth c) - 1)) with true by (symmetry; apply Z.ltb_lt; lia). reflexivity.
Qed.

Lemma run_procs_deep : forall recW W rel ps acc,
  (forall ck, In ck ps -> 4 <= depth (fst ck)) ->
  (forall ck, In ck ps -> forall a, recW (n_path (fst ck)) a = first_only a (W (n_path (fst ck)))) ->
  RP recW rel ps acc = first_only acc (flat_map (CV W rel) ps).
Proof.
  intros recW W rel ps. induction ps as [|ck ps IH]; intros acc Hd HW; [reflexivity|].
  cbn [run_procs flat_map].
  rewrite (run_x_deep recW W (fst ck) _ acc (Hd ck (or_introl eq_refl)) (HW ck (or_introl eq_refl))).
  change (act_nodes W (fst ck) (actions m 0 use_filters guard_fixed (fst ck) rel (snd ck) (active m rel) 0 false false))
    with (CV W rel ck).
  destruct (CV W rel ck) as [|n0 r]; cbn [first_only fst snd app].
  - apply IH; intros ck' H'; [apply Hd | apply HW]; now right.
  - reflexivity.
Qed.

(* at depth 3 and below, the first node called back on ends the traversal of that subtree *)
Lemma R_deep : forall f x acc, 3 <= length x -> RR f x acc = first_only acc (VV f x).
Proof.
  induction f as [|f IH]; intros x acc Hx; [reflexivity|].
  cbn [R V]. apply run_procs_deep.
  - intros ck Hck. destruct (procs_in t m _ _ _ Hck) as [_ [k Hk]]. unfold depth. rewrite Hk, app_length. cbn. lia.
  - intros ck Hck a. apply IH. destruct (procs_in t m _ _ _ Hck) as [_ [k Hk]]. rewrite Hk, app_length. cbn. lia.
Qed.

Lemma run_x_shallow : forall recW W c l acc,
  depth c <= 3 ->
  (forall a, fst (recW (n_path c) a) = fold_left h (W (n_path c)) a /\
             (snd (recW (n_path c) a) = None \/ snd (recW (n_path c) a) = Some 2%Z)) ->
  RX recW c l acc = (fold_left h (act_nodes W c l) acc, None).
Proof.
  intros recW W c l acc Hd HW. revert acc. induction l as [|a l IH]; intros acc; [reflexivity|].
  destruct a; cbn [run_x act_nodes flat_map].
  - unfold cbK at 1. cbn [fst snd].
    replace (Z.ltb 2 (Z.of_nat (depth c) - 1)) with false by (symmetry; apply Z.ltb_ge; lia).
    unfold cbK. cbn [fst]. fold (act_nodes W c l). rewrite IH. reflexivity.
  - destruct (HW acc) as [H1 H2]. fold (act_nodes W c l). rewrite fold_left_app, <- H1.
    destruct H2 as [H2|H2]; rewrite H2.
    + apply IH.
    + replace (Z.ltb 2 (Z.of_nat (depth c) - 1)) with false by (symmetry; apply Z.ltb_ge; lia). apply IH.
Qed.

Lemma run_procs_shallow : forall recW W rel ps acc,
  (forall ck, In ck ps -> depth (fst ck) <= 3) ->
  (forall ck, In ck ps -> forall a, fst (recW (n_path (fst ck)) a) = fold_left h (W (n_path (fst ck))) a /\
             (snd (recW (n_path (fst ck)) a) = None \/ snd (recW (n_path (fst ck)) a) = Some 2%Z)) ->
  RP recW rel ps acc = (fold_left h (flat_map (CV W rel) ps) acc, None).
Proof.
  intros recW W rel ps. induction ps as [|ck ps IH]; intros acc Hd HW; [reflexivity|].
  cbn [run_procs flat_map].
  rewrite (run_x_shallow recW W (fst ck) _ acc (Hd ck (or_introl eq_refl)) (HW ck (or_introl eq_refl))).
  cbn [fst snd]. rewrite fold_left_app.
  apply IH; intros ck' H'; [apply Hd | apply HW]; now right.
Qed.

(* the visit list with every subtree at depth 3 cut down to its first node *)
Fixpoint Vt (fuel : nat) (x : path) : list node :=
  match fuel with
  | 0 => []
  | S f => flat_map (CV (fun p => if Nat.leb 3 (length p) then firstn 1 (VV f p) else Vt f p) (length x - 0))
                    (procs t m x (length x - 0))
  end.

Lemma R_shallow : forall f x acc, length x < 3 -> RR f x acc = (fold_left h (Vt f x) acc, None).
Proof.
  induction f as [|f IH]; intros x acc Hx; [reflexivity|].
  cbn [R Vt]. apply run_procs_shallow.
  - intros ck Hck. destruct (procs_in t m _ _ _ Hck) as [_ [k Hk]]. unfold depth. rewrite Hk, app_length. cbn. lia.
  - intros ck Hck a. destruct (Nat.leb 3 (length (n_path (fst ck)))) eqn:E.
    + apply Nat.leb_le in E. rewrite (R_deep f _ a E).
      destruct (VV f (n_path (fst ck))) as [|n0 r]; cbn; tauto.
    + apply Nat.leb_gt in E. rewrite (IH _ a E). cbn. tauto.
Qed.

(* the whole traversal from the global root *)
Theorem trav_const_depth : forall fuel acc,
  fst (trav A cbK t m 0 use_filters guard_fixed fuel [] acc) = fold_left h (Vt fuel []) acc.
Proof.
  intros fuel acc. rewrite trav_R. rewrite R_shallow by (cbn; lia). reflexivity.
Qed.

(* Vt is a part of V ... *)
Lemma child_visits_incl : forall (W1 W2 : path -> list node) rel ck,
  (forall n, In n (W1 (n_path (fst ck))) -> In n (W2 (n_path (fst ck)))) ->
  forall n, In n (CV W1 rel ck) -> In n (CV W2 rel ck).
Proof.
  intros W1 W2 rel ck HW n H. unfold child_visits in *. apply in_flat_map in H. destruct H as [a [Ha Hn]].
  apply in_flat_map. exists a. split; [assumption|]. destruct a; [assumption | now apply HW].
Qed.

Lemma firstn_1_in : forall (B : Type) (l : list B) (x : B), In x (firstn 1 l) -> In x l.
Proof. intros B [|y l] x H; [destruct H|]. cbn in H. destruct H as [H|[]]. now left. Qed.

Lemma Vt_incl : forall f x n, In n (Vt f x) -> In n (VV f x).
Proof.
  induction f as [|f IH]; intros x n H; [destruct H|].
  cbn [Vt V] in *. apply in_flat_map in H. destruct H as [ck [Hck Hn]]. apply in_flat_map. exists ck. split; [assumption|].
  revert Hn. apply child_visits_incl. intros n0 H0.
  destruct (Nat.leb 3 (length (n_path (fst ck)))); [now apply firstn_1_in | now apply IH].
Qed.

(* ... that keeps, for every node of V, a node with the same path up to depth 3 (hence of the same session) *)
Lemma Vt_covers : forall f x n, length x < 3 -> In n (VV f x) ->
  exists n', In n' (Vt f x) /\ firstn 3 (n_path n') = firstn 3 (n_path n).
Proof.
  induction f as [|f IH]; intros x n Hx H; [destruct H|].
  cbn [V] in H. apply in_flat_map in H. destruct H as [ck [Hck Hn]].
  unfold child_visits in Hn. apply in_flat_map in Hn. destruct Hn as [a [Ha Hn]].
  assert (Lift : forall n', In n' (match a with ACall => [fst ck]
                                   | ARec => (fun p => if Nat.leb 3 (length p) then firstn 1 (VV f p) else Vt f p) (n_path (fst ck)) end) ->
                 In n' (Vt (S f) x)).
  { intros n' H'. cbn [Vt]. apply in_flat_map. exists ck. split; [assumption|].
    unfold child_visits. apply in_flat_map. exists a. split; assumption. }
  destruct a.
  - destruct Hn as [Hn|[]]. subst n. exists (fst ck). split; [apply Lift; now left | reflexivity].
  - cbn beta in Lift. destruct (Nat.leb 3 (length (n_path (fst ck)))) eqn:E.
    + apply Nat.leb_le in E.
      destruct (VV f (n_path (fst ck))) as [|n0 r] eqn:EV; [destruct Hn|].
      exists n0. split; [apply Lift; now left|].
      assert (H0 : In n0 (VV f (n_path (fst ck)))) by (rewrite EV; now left).
      assert (H1 : In n (VV f (n_path (fst ck)))) by (rewrite EV; exact Hn).
      destruct (V_below t m [] use_filters guard_fixed _ _ _ H0) as [_ [r0 [_ P0]]].
      destruct (V_below t m [] use_filters guard_fixed _ _ _ H1) as [_ [r1 [_ P1]]].
      rewrite P0, P1. rewrite !firstn_app. replace (3 - length (n_path (fst ck))) with 0 by lia. reflexivity.
    + apply Nat.leb_gt in E. destruct (IH _ n E Hn) as [n' [H1 H2]]. exists n'. split; [now apply Lift | assumption].
Qed.

End ConstDepth.

(* ------------------------------------------------------------------ the traversal depends on the callback pointwise *)

Section Ext.
Context {M : MatchOps}.
Variable t : tree.
Variable m : matcher.
Variable root_depth : nat.
Variable use_filters : bool.
Variable guard_fixed : bool.
Variable A : Type.
Variables cb1 cb2 : A -> node -> A * Z.
Hypothesis cb_eq : forall acc n, cb1 acc n = cb2 acc n.

Lemma run_x_ext : forall recW1 recW2, (forall p a, recW1 p a = recW2 p a) ->
  forall c l acc, run_x A cb1 recW1 c l acc = run_x A cb2 recW2 c l acc.
Proof.
  intros recW1 recW2 HW c l. induction l as [|a l IH]; intros acc; [reflexivity|].
  destruct a; cbn [run_x].
  - rewrite cb_eq. destruct (Z.ltb (snd (cb2 acc c)) (Z.of_nat (depth c) - 1)); [reflexivity | apply IH].
  - rewrite HW. destruct (snd (recW2 (n_path c) acc)) as [d|]; [|apply IH].
    destruct (Z.ltb d (Z.of_nat (depth c) - 1)); [reflexivity | apply IH].
Qed.

Lemma run_procs_ext : forall recW1 recW2, (forall p a, recW1 p a = recW2 p a) ->
  forall rel ps acc,
    run_procs m root_depth use_filters guard_fixed A cb1 recW1 rel ps acc =
    run_procs m root_depth use_filters guard_fixed A cb2 recW2 rel ps acc.
Proof.
  intros recW1 recW2 HW rel ps. induction ps as [|ck ps IH]; intros acc; [reflexivity|].
  cbn [run_procs]. rewrite (run_x_ext recW1 recW2 HW).
  destruct (snd (run_x A cb2 recW2 (fst ck) (actions m root_depth use_filters guard_fixed (fst ck) rel (snd ck) (active m rel) 0 false false) acc));
    [reflexivity | apply IH].
Qed.

Lemma R_ext : forall fuel x acc,
  R t m root_depth use_filters guard_fixed A cb1 fuel x acc = R t m root_depth use_filters guard_fixed A cb2 fuel x acc.
Proof.
  induction fuel as [|f IH]; intros x acc; [reflexivity|]. cbn [R]. apply run_procs_ext. exact IH.
Qed.

Lemma trav_ext : forall fuel x acc,
  trav A cb1 t m root_depth use_filters guard_fixed fuel x acc = trav A cb2 t m root_depth use_filters guard_fixed fuel x acc.
Proof. intros. rewrite !trav_R. now rewrite R_ext. Qed.

End Ext.

(* ------------------------------------------------------------------ a callback that goes on until it aborts the traversal *)

Section Stoppable.
Context {M : MatchOps}.
Variable t : tree.
Variable m : matcher.
Variable root_depth : nat.
Variable use_filters : bool.
Variable guard_fixed : bool.
Variable A : Type.
Variable g : A -> node -> A.
Variable stop : A -> bool.

(* FindNodesCallback: do something, then return the node's depth, or -1 ("abort now") once [stop] holds *)
Definition cbS : A -> node -> A * Z :=
  fun acc n => (g acc n, if stop (g acc n) then (-1)%Z else Z.of_nat (depth n)).

(* fold g over the list until stop holds *)
Fixpoint sfold (L : list node) (acc : A) : A * bool :=
  match L with
  | [] => (acc, false)
  | n :: L' => if stop (g acc n) then (g acc n, true) else sfold L' (g acc n)
  end.

Definition conv (r : A * bool) : A * option Z := (fst r, if snd r then Some (-1)%Z else None).

Lemma sfold_app : forall l1 l2 acc,
  sfold (l1 ++ l2) acc = if snd (sfold l1 acc) then sfold l1 acc else sfold l2 (fst (sfold l1 acc)).
Proof.
  induction l1 as [|n l1 IH]; intros l2 acc; [reflexivity|].
  cbn [app sfold]. destruct (stop (g acc n)); [reflexivity | apply IH].
Qed.

Local Notation RS := (R t m root_depth use_filters guard_fixed A cbS).
Local Notation VV := (V t m root_depth use_filters guard_fixed).
Local Notation CV := (child_visits m root_depth use_filters guard_fixed).

Lemma run_x_stop : forall recW W c l acc,
  1 <= depth c -> (forall a, recW (n_path c) a = conv (sfold (W (n_path c)) a)) ->
  run_x A cbS recW c l acc = conv (sfold (act_nodes W c l) acc).
Proof.
  intros recW W c l acc Hd HW. revert acc. induction l as [|a l IH]; intros acc; [reflexivity|].
  destruct a; cbn [run_x act_nodes flat_map].
  - fold (act_nodes W c l). cbn [app sfold]. unfold cbS at 1 2 3. cbn [fst snd].
    destruct (stop (g acc c)).
    + replace (Z.ltb (-1) (Z.of_nat (depth c) - 1)) with true by (symmetry; apply Z.ltb_lt; lia). reflexivity.
    + rewrite ltb_self_false. unfold cbS. cbn [fst]. apply IH.
  - fold (act_nodes W c l). rewrite HW, sfold_app.
    destruct (sfold (W (n_path c)) acc) as [a1 b1] eqn:E. unfold conv at 1 2 3. cbn [fst snd].
    destruct b1.
    + replace (Z.ltb (-1) (Z.of_nat (depth c) - 1)) with true by (symmetry; apply Z.ltb_lt; lia). reflexivity.
    + apply IH.
Qed.

Lemma run_procs_stop : forall recW W rel ps acc,
  (forall ck, In ck ps -> 1 <= depth (fst ck)) ->
  (forall ck, In ck ps -> forall a, recW (n_path (fst ck)) a = conv (sfold (W (n_path (fst ck))) a)) ->
  run_procs m root_depth use_filters guard_fixed A cbS recW rel ps acc = conv (sfold (flat_map (CV W rel) ps) acc).
Proof.
  intros recW W rel ps. induction ps as [|ck ps IH]; intros acc Hd HW; [reflexivity|].
  cbn [run_procs flat_map].
  rewrite (run_x_stop recW W (fst ck) _ acc (Hd ck (or_introl eq_refl)) (HW ck (or_introl eq_refl))).
  change (act_nodes W (fst ck) (actions m root_depth use_filters guard_fixed (fst ck) rel (snd ck) (active m rel) 0 false false))
    with (CV W rel ck).
  rewrite sfold_app. destruct (sfold (CV W rel ck) acc) as [a1 b1] eqn:E. unfold conv at 1 2. cbn [fst snd].
  destruct b1; [reflexivity|].
  apply IH; intros ck' H'; [apply Hd | apply HW]; now right.
Qed.

Lemma R_stop : forall f x acc, RS f x acc = conv (sfold (VV f x) acc).
Proof.
  induction f as [|f IH]; intros x acc; [reflexivity|].
  cbn [R V]. apply run_procs_stop.
  - intros ck Hck. destruct (procs_in t m _ _ _ Hck) as [_ [k Hk]]. unfold depth. rewrite Hk, app_length. cbn. lia.
  - intros ck Hck a. apply IH.
Qed.

Theorem trav_stop : forall fuel x acc,
  fst (trav A cbS t m root_depth use_filters guard_fixed fuel x acc) = fst (sfold (VV fuel x) acc).
Proof.
  intros fuel x acc. rewrite trav_R, R_stop. unfold fin, conv. cbn [fst snd].
  destruct (snd (sfold (VV fuel x) acc)); reflexivity.
Qed.

End Stoppable.
