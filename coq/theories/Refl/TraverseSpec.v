(* Refl/TraverseSpec.v -- what a traversal visits: with the repaired guard (exactly one pattern), the
   nodes called back on are exactly the nodes below the start node that NodePathMatcher::MatchesNode
   accepts, each once.  (The C05 statement traversal_eq_bruteforce, for callbacks that go on.) *)
From Coq Require Import List NArith ZArith Bool Arith Lia.
From Muscle Require Import Refl.Base Refl.BaseProofs Refl.Tree Refl.TreeProofs Refl.Matcher Refl.MatcherProofs
     Refl.Traverse Refl.TraverseFold.
Import ListNotations.

Section Spec.
Context {M : MatchOps} {L : MatchLaws M}.
Variable t : tree.
Variable m : matcher.
Variable rd : nat.
Variable uf : bool.
Hypothesis wf_t : wf_tree t.
Hypothesis wf_m : wf_groups (m_groups m).

Notation gf := true.
Notation vchk := (vcheck_entries m rd uf gf).
Notation vchild := (vcheck_child m rd uf gf).
Notation tok := (term_ok m rd uf gf).

Definition dsel (n : node) : option payload := if uf then Some (n_data n) else None.

(* ------------------------------------------------------------------ one child *)

Definition term_hit (es : list entry) (c : node) (rel : nat) : Prop :=
  exists e, In e es /\ length (e_pat e) = S rel
            /\ cmatch (clause_at e rel) (last_name (n_path c)) = true /\ tok e c = true.

Definition rec_hit (es : list entry) (c : node) (rel : nat) : Prop :=
  exists e, In e es /\ length (e_pat e) <> S rel /\ cmatch (clause_at e rel) (last_name (n_path c)) = true.

Lemma vchk_none_spec : forall recV c rel es idx matched recursed n,
  In n (vchk recV c rel None es idx matched recursed) <->
  (n = c /\ matched = false /\ term_hit es c rel) \/ (In n (recV (n_path c)) /\ recursed = false /\ rec_hit es c rel).
Proof.
  intros recV c rel. induction es as [|e es IH]; intros idx matched recursed n.
  - cbn. split; [intros []|]. intros [[_ [_ [e [[] _]]]]|[_ [_ [e [[] _]]]]].
  - cbn [vcheck_entries]. unfold hit_of. cbn [orb].
    destruct (cmatch (clause_at e rel) (last_name (n_path c))) eqn:Hc.
    + destruct (Nat.eqb (length (e_pat e)) (S rel)) eqn:Hl.
      * apply Nat.eqb_eq in Hl.
        destruct matched.
        -- rewrite IH. split.
           ++ intros [[_ [H _]]|[H1 [H2 [e' [H3 H4]]]]]; [discriminate|]. right. repeat split; auto. exists e'. split; [now right|auto].
           ++ intros [[_ [H _]]|[H1 [H2 [e' [[H3|H3] [H4 H5]]]]]]; [discriminate| |].
              ** subst e'. contradiction.
              ** right. repeat split; auto. exists e'. auto.
        -- destruct (tok e c) eqn:Ht.
           ++ cbn [In]. split.
              ** intros [H|H].
                 --- left. repeat split; auto. exists e. repeat split; auto. now left.
                 --- destruct recursed; [contradiction|]. apply IH in H as [[_ [H _]]|[H1 [H2 [e' [H3 H4]]]]]; [discriminate|].
                     right. repeat split; auto. exists e'. split; [now right|auto].
              ** intros [[H _]|[H1 [H2 [e' [[H3|H3] [H4 H5]]]]]].
                 --- now left.
                 --- subst e'. contradiction.
                 --- right. subst recursed. apply IH. right. repeat split; auto. exists e'. auto.
           ++ rewrite IH. split.
              ** intros [[H1 [H2 [e' [H3 H4]]]]|[H1 [H2 [e' [H3 H4]]]]].
                 --- left. repeat split; auto. exists e'. split; [now right|auto].
                 --- right. repeat split; auto. exists e'. split; [now right|auto].
              ** intros [[H1 [H2 [e' [[H3|H3] [H4 [H5 H6]]]]]]|[H1 [H2 [e' [[H3|H3] [H4 H5]]]]]].
                 --- subst e'. congruence.
                 --- left. repeat split; auto. exists e'. auto.
                 --- subst e'. contradiction.
                 --- right. repeat split; auto. exists e'. auto.
      * apply Nat.eqb_neq in Hl.
        destruct recursed.
        -- rewrite IH. split.
           ++ intros [[H1 [H2 [e' [H3 H4]]]]|[_ [H _]]]; [|discriminate]. left. repeat split; auto. exists e'. split; [now right|auto].
           ++ intros [[H1 [H2 [e' [[H3|H3] [H4 H5]]]]]|[_ [H _]]]; [| |discriminate].
              ** subst e'. contradiction.
              ** left. repeat split; auto. exists e'. auto.
        -- rewrite in_app_iff. split.
           ++ intros [H|H].
              ** right. repeat split; auto. exists e. split; [now left|auto].
              ** destruct matched; [contradiction|]. apply IH in H as [[H1 [H2 [e' [H3 H4]]]]|[_ [H _]]]; [|discriminate].
                 left. repeat split; auto. exists e'. split; [now right|auto].
           ++ intros [[H1 [H2 [e' [[H3|H3] [H4 H5]]]]]|[H _]].
              ** subst e'. contradiction.
              ** right. subst matched. apply IH. left. repeat split; auto. exists e'. auto.
              ** now left.
    + rewrite IH. split.
      * intros [[H1 [H2 [e' [H3 H4]]]]|[H1 [H2 [e' [H3 H4]]]]].
        -- left. repeat split; auto. exists e'. split; [now right|auto].
        -- right. repeat split; auto. exists e'. split; [now right|auto].
      * intros [[H1 [H2 [e' [[H3|H3] [H4 [H5 H6]]]]]]|[H1 [H2 [e' [[H3|H3] [H4 H5]]]]]].
        -- subst e'. congruence.
        -- left. repeat split; auto. exists e'. auto.
        -- subst e'. congruence.
        -- right. repeat split; auto. exists e'. auto.
Qed.

Lemma vchk_nodup : forall recV c rel known es idx matched recursed,
  NoDup (recV (n_path c)) -> ~ In c (recV (n_path c)) ->
  NoDup (vchk recV c rel known es idx matched recursed)
  /\ (matched = true -> ~ In c (vchk recV c rel known es idx matched recursed))
  /\ (recursed = true -> forall n, In n (vchk recV c rel known es idx matched recursed) -> n = c).
Proof.
  intros recV c rel known es. induction es as [|e es IH]; intros idx matched recursed Hnd Hc.
  - cbn. repeat split; [constructor|auto|intros _ n []].
  - cbn [vcheck_entries].
    destruct (hit_of known idx e rel c); [|now apply IH].
    destruct (Nat.eqb (length (e_pat e)) (S rel)).
    + destruct matched; [now apply IH|].
      destruct (tok e c); [|now apply IH].
      destruct recursed.
      * repeat split; [repeat constructor; intros []|discriminate|]. intros _ n [H|[]]; auto.
      * destruct (IH (S idx) true false Hnd Hc) as [H1 [H2 _]].
        repeat split; [constructor; auto|discriminate|discriminate].
    + destruct recursed; [now apply IH|].
      destruct matched.
      * rewrite app_nil_r. repeat split; auto. discriminate.
      * destruct (IH (S idx) false true Hnd Hc) as [H1 [_ H3]].
        repeat split; [|discriminate|discriminate].
        apply NoDup_app_intro; auto.
        intros n Hn1 Hn2. apply (H3 eq_refl) in Hn2. subst. contradiction.
Qed.


(* ------------------------------------------------------------------ the known-entry shortcut is sound *)

Lemma vchk_known : forall recV c rel k es idx matched recursed,
  (forall e, idx <= k -> nth_error es (k - idx) = Some e -> cmatch (clause_at e rel) (last_name (n_path c)) = true) ->
  vchk recV c rel (Some k) es idx matched recursed = vchk recV c rel None es idx matched recursed.
Proof.
  intros recV c rel k. induction es as [|e es IH]; intros idx matched recursed H; cbn [vcheck_entries]; auto.
  assert (Hh : hit_of (Some k) idx e rel c = hit_of None idx e rel c).
  { unfold hit_of. cbn [orb]. destruct (Nat.eqb idx k) eqn:E; auto. apply Nat.eqb_eq in E. subst.
    cbn [orb]. symmetry. apply H; auto. now rewrite Nat.sub_diag. }
  assert (Hn : forall e', S idx <= k -> nth_error es (k - S idx) = Some e' ->
               cmatch (clause_at e' rel) (last_name (n_path c)) = true).
  { intros e' Hle Hn. apply H; [lia|]. replace (k - idx) with (S (k - S idx)) by lia. exact Hn. }
  rewrite Hh. rewrite !(IH (S idx)) by exact Hn. reflexivity.
Qed.

(* ------------------------------------------------------------------ the children the hash-lookup path checks *)

Fixpoint klookup_keys (x : path) (ks : list name) (did : list path) : list node * list path :=
  match ks with
  | [] => ([], did)
  | k :: ks' =>
    match get_child t x k with
    | Some c =>
      if path_mem (n_path c) did then klookup_keys x ks' did
      else let '(l, did') := klookup_keys x ks' (n_path c :: did) in (c :: l, did')
    | None => klookup_keys x ks' did
    end
  end.

Fixpoint klookup_entries (x : path) (rel : nat) (es : list entry) (did : list path) : list node :=
  match es with
  | [] => []
  | e :: es' =>
    let ks := match ckeys (clause_at e rel) with Some ks => ks | None => [] end in
    let '(l, did') := klookup_keys x ks did in
    l ++ klookup_entries x rel es' did'
  end.

Lemma path_mem_spec : forall p l, path_mem p l = true <-> In p l.
Proof.
  intros p. induction l as [|q l IH]; cbn; [split; [discriminate|intros []]|].
  rewrite orb_true_iff, IH, path_eqb_eq. intuition.
Qed.

Lemma vlookup_keys_flat : forall recV x rel idx ks did,
  vlookup_keys t m rd uf gf recV x rel idx ks did
  = (flat_map (fun c => vchild recV c rel (Some idx)) (fst (klookup_keys x ks did)), snd (klookup_keys x ks did)).
Proof.
  intros recV x rel idx. induction ks as [|k ks IH]; intros did; cbn [vlookup_keys klookup_keys]; auto.
  destruct (get_child t x k) as [c|]; [|apply IH].
  destruct (path_mem (n_path c) did); [apply IH|].
  rewrite IH. destruct (klookup_keys x ks (n_path c :: did)) as [l did']. reflexivity.
Qed.

(* facts about the children found by one key list *)
Lemma klookup_keys_props : forall x ks did,
  let r := klookup_keys x ks did in
  (forall c, In c (fst r) -> In c t /\ (exists k, In k ks /\ n_path c = x ++ [k]) /\ ~ In (n_path c) did)
  /\ NoDup (map n_path (fst r))
  /\ (forall p, In p (snd r) <-> In p did \/ In p (map n_path (fst r)))
  /\ (forall k c, In k ks -> get_child t x k = Some c -> In (n_path c) (snd r)).
Proof.
  intros x. induction ks as [|k ks IH]; intros did; cbn [klookup_keys].
  - cbn. split; [intros c []|]. split; [constructor|]. split; [|intros k c []].
    intros p. split; [auto|]. intros [H|[]]; auto.
  - destruct (get_child t x k) as [c|] eqn:Hg.
    + destruct (path_mem (n_path c) did) eqn:Hm.
      * destruct (IH did) as [H1 [H2 [H3 H4]]]. cbn zeta in *. split; [|split; [|split]]; auto.
        -- intros c' Hc'. destruct (H1 c' Hc') as [Ha [[k' [Hk1 Hk2]] Hb]]. split; [auto|split; [|auto]].
           exists k'. split; [now right|auto].
        -- intros k' c' [Hk|Hk] Hg'; [|now apply (H4 k' c')].
           subst k'. rewrite Hg in Hg'. inversion Hg'; subst c'. apply H3. left. now apply path_mem_spec.
      * destruct (IH (n_path c :: did)) as [H1 [H2 [H3 H4]]]. cbn zeta in *.
        destruct (klookup_keys x ks (n_path c :: did)) as [l did'] eqn:E. cbn [fst snd] in *.
        assert (Hcn : ~ In (n_path c) did).
        { intros H. apply path_mem_spec in H. congruence. }
        split; [|split; [|split]].
        -- intros c' [Hc'|Hc'].
           ++ subst c'. apply find_node_some in Hg as [Ha Hb]. split; [auto|split; [|auto]].
              exists k. split; [now left|auto].
           ++ destruct (H1 c' Hc') as [Ha [[k' [Hk1 Hk2]] Hb]]. split; [auto|split].
              ** exists k'. split; [now right|auto].
              ** intros H. apply Hb. now right.
        -- cbn. constructor; auto. intros H. apply in_map_iff in H as [c' [Hp Hc']].
           destruct (H1 c' Hc') as [_ [_ Hb]]. apply Hb. left. auto.
        -- intros p. split.
           ++ intros H. apply H3 in H as [[H|H]|H]; [right; left; auto|now left|right; now right].
           ++ intros [H|[H|H]]; apply H3; [left; now right|left; now left|now right].
        -- intros k' c' [Hk|Hk] Hg'; [|now apply (H4 k' c')].
           subst k'. rewrite Hg in Hg'. inversion Hg'; subst c'. apply H3. left. now left.
    + destruct (IH did) as [H1 [H2 [H3 H4]]]. cbn zeta in *. split; [|split; [|split]]; auto.
      * intros c' Hc'. destruct (H1 c' Hc') as [Ha [[k' [Hk1 Hk2]] Hb]]. split; [auto|split; [|auto]].
        exists k'. split; [now right|auto].
      * intros k' c' [Hk|Hk] Hg'; [|now apply (H4 k' c')]. subst k'. congruence.
Qed.


Lemma flat_map_ext_in : forall (A B : Type) (f g : A -> list B) l,
  (forall a, In a l -> f a = g a) -> flat_map f l = flat_map g l.
Proof.
  induction l as [|a l IH]; intros H; cbn; auto.
  rewrite (H a (or_introl eq_refl)), IH; auto. intros b Hb. apply H. now right.
Qed.

Lemma klookup_entries_props : forall x rel es did,
  let l := klookup_entries x rel es did in
  (forall c, In c l -> In c t /\ ~ In (n_path c) did
      /\ exists e ks k, In e es /\ ckeys (clause_at e rel) = Some ks /\ In k ks /\ n_path c = x ++ [k])
  /\ NoDup (map n_path l)
  /\ (forall e ks k c, In e es -> ckeys (clause_at e rel) = Some ks -> In k ks -> get_child t x k = Some c ->
        In (n_path c) did \/ In c l).
Proof.
  intros x rel. induction es as [|e es IH]; intros did; cbn [klookup_entries].
  - cbn. split; [intros c []|]. split; [constructor|]. intros e ks k c [].
  - set (ks0 := match ckeys (clause_at e rel) with Some ks => ks | None => [] end).
    pose proof (klookup_keys_props x ks0 did) as HK. cbn zeta in HK.
    destruct (klookup_keys x ks0 did) as [l1 did1] eqn:E1. cbn [fst snd] in HK.
    destruct HK as [K1 [K2 [K3 K4]]].
    destruct (IH did1) as [I1 [I2 I3]]. cbn zeta in *.
    split; [|split].
    + intros c Hc. apply in_app_or in Hc as [Hc|Hc].
      * destruct (K1 c Hc) as [Ha [[k [Hk1 Hk2]] Hb]]. split; [auto|split; [auto|]].
        destruct (ckeys (clause_at e rel)) as [ks|] eqn:Eck; [|contradiction].
        exists e, ks, k. split; [now left|auto].
      * destruct (I1 c Hc) as [Ha [Hb [e' [ks [k [H1 H2]]]]]]. split; [auto|split].
        -- intros H. apply Hb. apply K3. now left.
        -- exists e', ks, k. split; [now right|auto].
    + rewrite map_app. apply NoDup_app_intro; auto.
      intros p Hp1 Hp2. apply in_map_iff in Hp2 as [c [Hc1 Hc2]].
      destruct (I1 c Hc2) as [_ [Hb _]]. apply Hb. apply K3. right. now rewrite Hc1.
    + intros e' ks k c [He|He] Hck Hk Hg.
      * subst e'. unfold ks0 in *. rewrite Hck in *.
        pose proof (K4 k c Hk Hg) as H. apply K3 in H as [H|H]; [now left|].
        right. apply in_or_app. left.
        apply in_map_iff in H as [c' [Hp Hc']].
        destruct (K1 c' Hc') as [Ha _]. apply find_node_some in Hg as [Hg1 Hg2].
        destruct wf_t as [Hnd _].
        assert (c' = c) by (apply (node_eq_by_path t); auto; congruence). now subst.
      * destruct (I3 e' ks k c He Hck Hk Hg) as [H|H].
        -- apply K3 in H as [H|H]; [now left|].
           right. apply in_or_app. left.
           apply in_map_iff in H as [c' [Hp Hc']].
           destruct (K1 c' Hc') as [Ha _]. apply find_node_some in Hg as [Hg1 Hg2].
           destruct wf_t as [Hnd _].
           assert (c' = c) by (apply (node_eq_by_path t); auto; congruence). now subst.
        -- right. apply in_or_app. now right.
Qed.

Lemma vlookup_entries_flat : forall recV x rel es pre did,
  active m rel = pre ++ es ->
  vlookup_entries t m rd uf gf recV x rel es (length pre) did
  = flat_map (fun c => vchild recV c rel None) (klookup_entries x rel es did).
Proof.
  intros recV x rel. induction es as [|e es IH]; intros pre did Hact; cbn [vlookup_entries klookup_entries]; auto.
  set (ks0 := match ckeys (clause_at e rel) with Some ks => ks | None => [] end).
  rewrite vlookup_keys_flat.
  pose proof (klookup_keys_props x ks0 did) as HK. cbn zeta in HK.
  destruct (klookup_keys x ks0 did) as [l1 did1] eqn:E1. cbn [fst snd] in *.
  destruct HK as [K1 _].
  rewrite flat_map_app. f_equal.
  - apply flat_map_ext_in. intros c Hc. unfold vcheck_child.
    apply vchk_known. intros e0 _ Hn. rewrite Nat.sub_0_r, Hact in Hn.
    rewrite nth_error_app2 in Hn by lia. rewrite Nat.sub_diag in Hn. cbn in Hn. inversion Hn; subst e0.
    destruct (K1 c Hc) as [_ [[k [Hk1 Hk2]] _]]. rewrite Hk2, last_name_snoc.
    unfold ks0 in Hk1. destruct (ckeys (clause_at e rel)) as [ks|] eqn:Eck; [|contradiction].
    now apply (ckeys_spec _ _ Eck).
  - replace (S (length pre)) with (length (pre ++ [e])) by (rewrite app_length; cbn; lia).
    apply IH. now rewrite <- app_assoc.
Qed.

(* ------------------------------------------------------------------ the children DoTraversalAux checks *)

Definition kids (x : path) : list node :=
  let rel := length x - rd in
  let es := active m rel in
  if existsb (fun e => is_wild (clause_at e rel)) es then children t x else klookup_entries x rel es [].

Lemma vtrav_unfold : forall f x,
  vtrav t m rd uf gf (S f) x
  = flat_map (fun c => vchild (vtrav t m rd uf gf f) c (length x - rd) None) (kids x).
Proof.
  intros f x. cbn [vtrav]. unfold kids. destruct (existsb _ _); [reflexivity|].
  apply (vlookup_entries_flat _ x _ _ []). reflexivity.
Qed.

Lemma kids_props : forall x,
  (forall c, In c (kids x) -> In c t /\ exists k, n_path c = x ++ [k])
  /\ NoDup (map n_path (kids x))
  /\ (forall c k, In c t -> n_path c = x ++ [k] ->
        (exists e, In e (active m (length x - rd)) /\ cmatch (clause_at e (length x - rd)) k = true) -> In c (kids x)).
Proof.
  intros x. unfold kids. destruct wf_t as [Hnd _].
  destruct (existsb _ _) eqn:Ew.
  - split; [|split].
    + intros c Hc. now apply children_in in Hc.
    + now apply children_nodup.
    + intros c k Hc Hp _. apply children_in. eauto.
  - pose proof (klookup_entries_props x (length x - rd) (active m (length x - rd)) []) as HK. cbn zeta in HK.
    destruct HK as [K1 [K2 K3]]. split; [|split]; auto.
    + intros c Hc. destruct (K1 c Hc) as [Ha [_ [e [ks [k [_ [_ [_ Hp]]]]]]]]. eauto.
    + intros c k Hc Hp [e [He Hm]].
      assert (Hk : exists ks, ckeys (clause_at e (length x - rd)) = Some ks).
      { destruct (ckeys (clause_at e (length x - rd))) as [ks|] eqn:Eck; eauto.
        exfalso. rewrite <- not_true_iff_false in Ew. apply Ew. apply existsb_exists. exists e. split; auto.
        unfold is_wild. now rewrite Eck. }
      destruct Hk as [ks Hks].
      destruct (K3 e ks k c He Hks) as [[]|H]; auto.
      * now apply (ckeys_spec _ _ Hks).
      * now apply get_child_in.
Qed.


(* ------------------------------------------------------------------ no node is visited twice *)

Lemma NoDup_map_inj : forall (A B : Type) (f : A -> B) l a b,
  NoDup (map f l) -> In a l -> In b l -> f a = f b -> a = b.
Proof.
  induction l as [|x l IH]; intros a b Hnd Ha Hb Hf; [contradiction|].
  cbn in Hnd. inversion Hnd as [|? ? Hx Hnd']; subst.
  destruct Ha as [Ha|Ha], Hb as [Hb|Hb]; subst; auto.
  - exfalso. apply Hx. rewrite Hf. now apply in_map.
  - exfalso. apply Hx. rewrite <- Hf. now apply in_map.
Qed.

Lemma vchild_below : forall f c rel known n,
  In n (vchild (vtrav t m rd uf gf f) c rel known) -> exists r, n_path n = n_path c ++ r.
Proof.
  intros f c rel known n H. unfold vcheck_child in H. apply vchk_in in H as [H|H].
  - subst. exists []. now rewrite app_nil_r.
  - apply vtrav_below in H as [r [_ H]]. eauto.
Qed.

Lemma vtrav_nodup : forall fuel x, NoDup (vtrav t m rd uf gf fuel x).
Proof.
  induction fuel as [|f IH]; intros x; [constructor|].
  rewrite vtrav_unfold. destruct (kids_props x) as [K1 [K2 _]].
  apply NoDup_flat_map.
  - now apply NoDup_map_inv in K2.
  - intros c Hc. unfold vcheck_child.
    apply vchk_nodup; auto.
    intros H. apply vtrav_below in H as [r [Hr H]].
    apply (f_equal (@length name)) in H. rewrite app_length in H. destruct r; [congruence|cbn in H; lia].
  - intros c c' n Hc Hc' Hne Hn Hn'.
    apply vchild_below in Hn as [r Hn]. apply vchild_below in Hn' as [r' Hn'].
    destruct (K1 c Hc) as [_ [k Hk]]. destruct (K1 c' Hc') as [_ [k' Hk']].
    rewrite Hk, <- app_assoc in Hn. rewrite Hk', <- app_assoc in Hn'.
    rewrite Hn in Hn'. apply app_inv_head in Hn'. cbn in Hn'. inversion Hn'; subst k'.
    apply Hne. apply (NoDup_map_inj _ _ n_path (kids x)); auto. congruence.
Qed.

(* ------------------------------------------------------------------ exactly the matching nodes are visited *)

Lemma entry_len_le_max : forall e, In e (all_entries m) -> length (e_pat e) <= max_clauses m.
Proof.
  intros e H. apply in_all_entries in H as [g [Hg He]].
  destruct wf_m as [_ Hwf]. destruct (Hwf g Hg) as [_ [_ [Hlen _]]]. rewrite (Hlen e He).
  unfold max_clauses. clear - Hg. induction (m_groups m) as [|g' gs IH]; [contradiction|].
  cbn. destruct Hg as [Hg|Hg]; [subst; lia|]. apply IH in Hg. lia.
Qed.

Lemma pat_matches_firstn : forall (pt : pat) (p : path) j,
  pat_matches pt p = true -> pat_matches (firstn j pt) (firstn j p) = true.
Proof.
  induction pt as [|c pt IH]; intros p j H; destruct p as [|k p]; cbn in H; try discriminate.
  - now rewrite !firstn_nil.
  - destruct j; cbn; auto. apply andb_true_iff in H as [H1 H2]. rewrite H1. cbn. now apply IH.
Qed.

Lemma firstn_S_nth : forall (A : Type) (l : list A) j d, j < length l -> firstn (S j) l = firstn j l ++ [nth j l d].
Proof.
  induction l as [|a l IH]; intros j d H; cbn in H; [lia|].
  destruct j; cbn; auto. f_equal. apply IH. lia.
Qed.

Lemma single_entry : forall e e', single_guard m gf = true -> In e (all_entries m) -> In e' (all_entries m) -> e = e'.
Proof.
  intros e e' H He He'. unfold single_guard, num_entries in H. apply Nat.eqb_eq in H.
  destruct (all_entries m) as [|a [|b l]]; cbn in H; try discriminate.
  destruct He as [He|[]], He' as [He'|[]]. congruence.
Qed.

Definition inv (x : path) : Prop :=
  single_guard m gf = true ->
  forall e, In e (all_entries m) -> pat_matches (firstn (length x - rd) (e_pat e)) (skipn rd x) = true.

Lemma skipn_app_le : forall (x r : path), rd <= length x -> skipn rd (x ++ r) = skipn rd x ++ r.
Proof. intros x r H. rewrite skipn_app. replace (rd - length x) with 0 by lia. reflexivity. Qed.

Lemma inv_child : forall x k e, rd <= length x -> inv x ->
  In e (all_entries m) -> length x - rd < length (e_pat e) -> cmatch (clause_at e (length x - rd)) k = true ->
  inv (x ++ [k]).
Proof.
  intros x k e Hrd Hinv He Hlt Hm Hsg e' He'.
  assert (e' = e) by (apply single_entry; auto). subst e'.
  rewrite app_length. cbn. replace (length x + 1 - rd) with (S (length x - rd)) by lia.
  rewrite (firstn_S_nth _ _ _ cstar Hlt), skipn_app_le by auto.
  rewrite pat_matches_app.
  - rewrite (Hinv Hsg e He). cbn. unfold clause_at in Hm. now rewrite Hm.
  - rewrite firstn_length, skipn_length. lia.
Qed.

Lemma vtrav_spec_aux : forall fuel x, rd <= length x -> max_clauses m < fuel + (length x - rd) -> inv x ->
  forall n, In n (vtrav t m rd uf gf fuel x) <->
            In n t /\ (exists r, r <> [] /\ n_path n = x ++ r) /\ matches_node m (n_path n) (dsel n) rd = true.
Proof.
  induction fuel as [|f IH]; intros x Hrd Hfuel Hinv n.
  - cbn. split; [intros []|]. intros [Hn [[r [Hr Hp]] Hm]]. exfalso.
    apply matches_node_spec in Hm as [e [He Hm]]; auto; [|rewrite Hp, app_length; lia].
    unfold path_matches in Hm. apply andb_true_iff in Hm as [Hm _]. apply pat_matches_length in Hm.
    rewrite skipn_length, Hp, app_length in Hm. apply entry_len_le_max in He.
    destruct r; [congruence|cbn in Hm; lia].
  - rewrite vtrav_unfold, in_flat_map. destruct (kids_props x) as [K1 [K2 K3]].
    set (rel := length x - rd) in *.
    split.
    + intros [c [Hc Hn]]. destruct (K1 c Hc) as [Hct [k Hk]].
      assert (Hlc : rd <= length (n_path c)) by (rewrite Hk, app_length; lia).
      unfold vcheck_child in Hn. apply vchk_none_spec in Hn as [[Hn [_ [e [He [Hl [Hm Ht]]]]]]|[Hn [_ [e [He [Hl Hm]]]]]].
      * subst n. split; [auto|split; [exists [k]; split; [discriminate|auto]|]].
        apply active_spec in He as [He Hlt]; auto.
        unfold term_ok in Ht. apply orb_true_iff in Ht as [Ht|Ht]; [|exact Ht].
        apply andb_true_iff in Ht as [Hsg Hf].
        apply matches_node_spec; auto. exists e. split; auto.
        unfold path_matches. apply andb_true_iff. split.
        -- rewrite Hk, skipn_app_le by auto.
           rewrite <- (firstn_all (e_pat e)), Hl. rewrite (firstn_S_nth _ _ _ cstar) by (fold rel; lia).
           rewrite pat_matches_app by (rewrite firstn_length, skipn_length; fold rel; lia).
           pose proof (Hinv Hsg e He) as Hi. fold rel in Hi. rewrite Hi.
           cbn. rewrite Hk, last_name_snoc in Hm. unfold clause_at in Hm. now rewrite Hm.
        -- unfold dsel. apply orb_true_iff in Hf as [Hf|Hf].
           ++ apply negb_true_iff in Hf. rewrite Hf. unfold filter_ok. now destruct (e_flt e).
           ++ apply negb_true_iff in Hf. unfold has_filter in Hf. destruct (e_flt e); [discriminate|reflexivity].
      * apply active_spec in He as [He Hlt]; auto.
        rewrite Hk, last_name_snoc in Hm.
        apply IH in Hn.
        -- destruct Hn as [Hnt [[r [Hr Hp]] Hmm]]. split; [auto|split; [|auto]].
           exists (k :: r). split; [discriminate|]. rewrite Hp, Hk, <- app_assoc. reflexivity.
        -- exact Hlc.
        -- rewrite Hk, app_length. cbn. fold rel in Hfuel. lia.
        -- rewrite Hk. apply (inv_child x k e); auto.
    + intros [Hn [[r [Hr Hp]] Hm]].
      destruct r as [|k r']; [congruence|].
      destruct wf_t as [Hnd [_ Hpre]].
      destruct (Hpre n (x ++ [k]) r' Hn) as [c [Hc Hcp]].
      { rewrite Hp, <- app_assoc. reflexivity. }
      { destruct x; discriminate. }
      pose proof Hm as Hm0.
      apply matches_node_spec in Hm as [e [He Hpm]]; auto; [|rewrite Hp, app_length; lia].
      unfold path_matches in Hpm. apply andb_true_iff in Hpm as [Hpm Hfo].
      rewrite Hp, skipn_app_le in Hpm by auto.
      assert (Hlen : length (e_pat e) = rel + S (length r')).
      { apply pat_matches_length in Hpm. rewrite app_length, skipn_length in Hpm. cbn in Hpm. fold rel in Hpm. lia. }
      assert (Hck : cmatch (clause_at e rel) k = true).
      { pose proof (pat_matches_nth _ _ rel Hpm) as H. unfold clause_at.
        rewrite app_nth2 in H by (rewrite skipn_length; fold rel; lia).
        rewrite skipn_length in H. fold rel in H. rewrite Nat.sub_diag in H. cbn in H. apply H. lia. }
      assert (Hact : In e (active m rel)) by (apply active_spec; auto; split; auto; lia).
      assert (Hkid : In c (kids x)) by (apply (K3 c k); eauto).
      exists c. split; auto. unfold vcheck_child. apply vchk_none_spec.
      destruct r' as [|k' r''].
      * left. assert (n = c).
        { apply (node_eq_by_path t); auto. rewrite Hcp, Hp. reflexivity. }
        subst c. split; [auto|split; [auto|]]. exists e. split; [auto|split; [cbn in Hlen; lia|split]].
        -- now rewrite Hcp, last_name_snoc.
        -- unfold term_ok. apply orb_true_iff. right. exact Hm0.
      * right. split; [|split; [auto|]].
        -- apply IH.
           ++ rewrite Hcp, app_length. lia.
           ++ rewrite Hcp, app_length. cbn. fold rel in Hfuel. lia.
           ++ rewrite Hcp. apply (inv_child x k e); auto. fold rel. lia.
           ++ split; [auto|split; [|auto]]. exists (k' :: r''). split; [discriminate|].
              rewrite Hp, Hcp, <- app_assoc. reflexivity.
        -- exists e. split; [auto|split]; [cbn in Hlen; lia|]. now rewrite Hcp, last_name_snoc.
Qed.

End Spec.

(* ------------------------------------------------------------------ DoTraversal as a whole *)

Section Top.
Context {M : MatchOps} {L : MatchLaws M}.

(* the nodes DoTraversal(cb, This, root, useFilters, ...) calls back on, in order *)
Definition vlist (t : tree) (m : matcher) (root : path) (uf : bool) : list node :=
  vtrav t m (length root) uf true (S (max_clauses m)) root.

Theorem vlist_spec : forall t m root uf n, wf_tree t -> wf_groups (m_groups m) ->
  In n (vlist t m root uf) <->
  In n t /\ (exists r, r <> [] /\ n_path n = root ++ r) /\ matches_node m (n_path n) (dsel uf n) (length root) = true.
Proof.
  intros t m root uf n Ht Hm. unfold vlist. apply vtrav_spec_aux; auto; [lia|].
  intros _ e _. rewrite Nat.sub_diag, skipn_all. reflexivity.
Qed.

Theorem vlist_nodup : forall t m root uf, wf_tree t -> NoDup (vlist t m root uf).
Proof. intros. unfold vlist. now apply vtrav_nodup. Qed.

(* a callback that always goes on: the traversal is a fold over the visit list *)
Theorem do_traversal_continue : forall (A : Type) (f : A -> node -> A) t m root uf acc,
  do_traversal (continue_cb f) t m root uf true acc = fold_left f (vlist t m root uf) acc.
Proof.
  intros A f t m root uf acc. unfold do_traversal, vlist.
  assert (H : trav A (continue_cb f) t m (length root) uf true (S (max_clauses m)) root acc
              = (fold_left (g' A f (fun _ => false)) (vtrav t m (length root) uf true (S (max_clauses m)) root) acc,
                 Z.of_nat (length root))).
  { apply (trav_fold A (continue_cb f) f (fun _ => false) 0 (fun _ => True)); auto; try discriminate.
    intros acc0 n _ _. exists (Z.of_nat (depth n)). unfold continue_cb. split; [auto|split; [lia|auto]]. }
  rewrite H. reflexivity.
Qed.

(* the visit list of the model is that list *)
Theorem visits_vlist : forall t m root uf, visits t m root uf true = vlist t m root uf.
Proof.
  intros t m root uf. unfold visits. rewrite do_traversal_continue.
  assert (H : forall l acc, fold_left (fun (a : list node) n => n :: a) l acc = rev l ++ acc).
  { induction l as [|x l IH]; intros acc; cbn; auto. rewrite IH, <- app_assoc. reflexivity. }
  rewrite H, app_nil_r. apply rev_involutive.
Qed.

Theorem visits_spec : forall t m root uf n, wf_tree t -> wf_groups (m_groups m) ->
  (In n (visits t m root uf true) <->
   In n t /\ (exists r, r <> [] /\ n_path n = root ++ r) /\ matches_node m (n_path n) (dsel uf n) (length root) = true).
Proof. intros t m root uf n Ht Hm. rewrite visits_vlist. now apply vlist_spec. Qed.

Theorem visits_nodup : forall t m root uf, wf_tree t -> NoDup (visits t m root uf true).
Proof. intros t m root uf Ht. rewrite visits_vlist. now apply vlist_nodup. Qed.

End Top.
