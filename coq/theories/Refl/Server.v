(* Refl/Server.v -- the reflector server core: the handlers of StorageReflectSession that create,
   change and remove nodes, maintain subscriptions and produce PR_RESULT_DATAITEMS updates.
   Definitions only (no proofs).  Line numbers refer to reflector/StorageReflectSession.cpp.

   What is modelled: AttachedToServer (94), Cleanup (203), NotifySubscribersThatNodeChanged (249),
   NotifySubscribersOfNewNode (280) + NodeCreated (311), NodeChanged (318, the filter enter/leave logic),
   NodeChangedAux (357, set-then-remove forces a flush; flush at max items), SetDataNode (459, flags
   DONTCREATENODE / DONTOVERWRITEDATA / QUIET), the PR_COMMAND_SETPARAMETERS handler for SUBSCRIBE: fields,
   PR_NAME_SUBSCRIBE_QUIETLY and PR_NAME_MAX_UPDATE_MESSAGE_ITEMS (657), PR_COMMAND_REMOVEPARAMETERS / RemoveParameter
   (767, 1977) for the same, PR_COMMAND_SETDATA (788), PR_COMMAND_GETDATA / DoGetData / GetDataCallback
   (1137, 1340), PR_COMMAND_REMOVEDATA / DoRemoveData / RemoveDataCallback (1167, 1398),
   PR_COMMAND_BATCH (613), PushSubscriptionMessages (1211), ChangeQueryFilterCallback (1316),
   DoSubscribeRefCallback (1331), DataNode::PutChild/SetParent/SetData/RemoveChild.
   Not modelled: ordered indices (C13 has them), SETDATANODE_FLAG_ADDTOINDEX/ENABLESUPERCEDE, reflect-to-self,
   PR_NAME_DISABLE_SUBSCRIPTIONS, client-to-client Messages (C05), privileges, node-count limits.

   [fixes] switches the three repairs proposed with C04 on or off, so that the behaviour found in the
   code is kept next to the repaired one (see the *_refuted lemmas). *)
From Coq Require Import List NArith ZArith Bool Arith.
From Muscle Require Import Gen.Consts Refl.Base Refl.Tree Refl.Matcher Refl.Traverse Refl.Session.
Import ListNotations.

Record fixes := mkFixes {
  fx_guard : bool;      (* F12: the traversal's re-check shortcut needs exactly one pattern, not one group *)
  fx_overlap : bool;    (* F14: a filter change reports a node only if no other subscription covers it *)
  fx_push : bool        (* F15: pending updates are flushed before the initial values of SETPARAMETERS go out *)
}.
Definition all_fixed : fixes := mkFixes true true true.
Definition as_found : fixes := mkFixes false false false.

Definition max_node_depth : nat := N.to_nat c_MUSCLE_MAX_NODE_DEPTH.
Definition session_depth : nat := N.to_nat c_NODE_DEPTH_SESSIONNAME.
Definition default_max_items : N := c_default_max_subscription_message_size.
Definition cleanup_delta : Z := Z.opp (Z.of_N c_cleanup_unsubscribe_delta_abs).
Definition max_batch_nest : nat := N.to_nat c_max_batch_nest_count.

Definition flag_set (flags : N) (bit : N) : bool := N.testbit flags bit.

(* (int32) of a uint32 *)
Definition i32_of_u32 (n : N) : Z := if N.ltb n 2147483648 then Z.of_N n else (Z.of_N n - 4294967296)%Z.

Section Server.
Context {M : MatchOps}.
Variable fx : fixes.

Record server := mkServer {
  sv_tree : tree;
  sv_sessions : list session;        (* GetSessions(), attach order *)
  sv_dirty : bool                    (* _sharedData->_subsDirty *)
}.

Definition empty_server : server := mkServer [] [] false.

Fixpoint find_session (l : list session) (s : sid) : option session :=
  match l with
  | [] => None
  | x :: r => if N.eqb (s_id x) s then Some x else find_session r s
  end.

Definition get_session (sv : server) (s : sid) : option session := find_session (sv_sessions sv) s.

Definition upd_session (sv : server) (s : sid) (f : session -> session) : server :=
  mkServer (sv_tree sv) (map (fun x => if N.eqb (s_id x) s then f x else x) (sv_sessions sv)) (sv_dirty sv).

Definition set_tree (sv : server) (t : tree) : server := mkServer t (sv_sessions sv) (sv_dirty sv).
Definition set_dirty (sv : server) (b : bool) : server := mkServer (sv_tree sv) (sv_sessions sv) b.

(* ------------------------------------------------------------------ update Messages *)

(* PushSubscriptionMessages(): while(dirty) {dirty = false; every session pushes its pending Message} *)
Definition push_all (sv : server) : server :=
  if sv_dirty sv then mkServer (sv_tree sv) (map push_pending (sv_sessions sv)) false else sv.

Definition pending_or_new (ss : session) : ditems :=
  match s_pending ss with Some d => d | None => empty_di end.

(* NodeChangedAux(node, data, flags) of session s for the node at path p.
   The recursion of the C++ (flush, then "start again") cannot nest deeper than once, because the
   flush leaves no pending Message: it is unfolded here (MAX_NODE_CHANGED_AUX_NEST_COUNT is never reached). *)
Definition node_changed_aux (sv : server) (s : sid) (p : path) (d : payload) (removed : bool) : server :=
  match get_session sv s with
  | None => sv
  | Some ss =>
    let pend := pending_or_new ss in
    let sv1 :=
      if removed then
        if di_has_set pend p then
          let sv' := push_all (set_dirty (upd_session sv s (fun x => set_pending x (Some pend))) true) in
          set_dirty (upd_session sv' s (fun x => set_pending x (Some (di_add_removed empty_di p)))) true
        else set_dirty (upd_session sv s (fun x => set_pending x (Some (di_add_removed pend p)))) true
      else set_dirty (upd_session sv s (fun x => set_pending x (Some (di_add_set pend p d)))) true in
    match get_session sv1 s with
    | Some ss1 =>
      match s_pending ss1 with
      | Some pd => if N.leb (s_max ss1) (di_num_names pd) then push_all sv1 else sv1
      | None => sv1
      end
    | None => sv1
    end
  end.

(* NodeChanged(modifiedNode, oldData, flags) of session s; [d] = the node's current payload *)
Definition node_changed (sv : server) (s : sid) (p : path) (d : payload) (old : option payload) (removed : bool) : server :=
  match get_session sv s with
  | None => sv
  | Some ss =>
    let subs := s_subs ss in
    if N.ltb 0 (m_nfilters subs) then
      let before := matches_node subs p old 0 in
      if removed then (if before then node_changed_aux sv s p d true else sv)
      else
        let now := matches_node subs p (Some d) 0 in
        match old with
        | Some _ => if now then node_changed_aux sv s p d false
                    else if before then node_changed_aux sv s p d true else sv
        | None => if now then node_changed_aux sv s p d false else sv
        end
    else node_changed_aux sv s p d removed
  end.

(* NotifySubscribersThatNodeChanged(modifiedNode, oldData, flags) called on the session [by]:
   every subscriber of the node other than [by] (no reflect-to-self) *)
Definition notify_changed (sv : server) (by_ : sid) (p : path) (d : payload) (old : option payload) (removed : bool) : server :=
  match find_node (sv_tree sv) p with
  | None => sv
  | Some n =>
    fold_left (fun sv' kc => if N.eqb (fst kc) by_ then sv' else node_changed sv' (fst kc) p d old removed)
              (n_subs n) sv
  end.

(* NotifySubscribersOfNewNode + NodeCreated: every session marks the new node with its match count *)
Definition new_node_table (sv : server) (p : path) : subtbl :=
  fold_left (fun tb ss => tbl_adjust tb (s_id ss) (i32_of_u32 (u32 (match_count (s_subs ss) p None 0))))
            (sv_sessions sv) [].

(* ------------------------------------------------------------------ SetDataNode *)

(* the loop of SetDataNode over the clauses of a relative path, [pp] = path of the current node *)
Fixpoint set_data_loop (sv : server) (by_ : sid) (pp : path) (cl : list name) (d : payload)
         (dontcreate dontoverwrite quiet : bool) : server :=
  match cl with
  | [] => sv
  | k :: rest =>
    let last := match rest with [] => true | _ => false end in
    let p := pp ++ [k] in
    match find_node (sv_tree sv) p with
    | Some n =>
      if last then
        if dontoverwrite then sv
        else
          let sv1 := set_tree sv (set_data (sv_tree sv) p d) in
          if quiet then sv1 else notify_changed sv1 by_ p d (Some (n_data n)) false
      else set_data_loop sv by_ p rest d dontcreate dontoverwrite quiet
    | None =>
      if dontcreate then sv
      else if Nat.leb max_node_depth (length pp) then sv       (* DataNode::SetParent: B_RESOURCE_LIMIT *)
      else
        let d0 := if last then d else empty_payload in
        let sv1 := set_tree sv (add_node (sv_tree sv) (mkNode p d0 (new_node_table sv p))) in
        let sv2 := if quiet then sv1 else notify_changed sv1 by_ p d0 None false in
        if last then sv2 else set_data_loop sv2 by_ p rest d dontcreate dontoverwrite quiet
    end
  end.

Definition set_data_node (sv : server) (ss : session) (rel : list name) (d : payload) (flags : N) : server :=
  set_data_loop sv (s_id ss) (session_dir ss) rel d
                (flag_set flags c_SETDATANODE_FLAG_DONTCREATENODE)
                (flag_set flags c_SETDATANODE_FLAG_DONTOVERWRITEDATA)
                (flag_set flags c_SETDATANODE_FLAG_QUIET).

(* ------------------------------------------------------------------ removal *)

(* DataNode::RemoveChild(key, optNotifyWith, recurse = true) for the child at path p *)
Definition remove_subtree (sv : server) (by_ : sid) (p : path) (notify : bool) : server :=
  fold_left (fun sv' q =>
               match find_node (sv_tree sv') q with
               | None => sv'
               | Some n =>
                 let sv1 := if notify then notify_changed sv' by_ q (n_data n) (Some (n_data n)) true else sv' in
                 set_tree sv1 (remove_node (sv_tree sv1) q)
               end)
            (removal_order (S (length (sv_tree sv))) (sv_tree sv) p) sv.

(* RemoveDataCallback: collects the node unless it is a host or session node *)
Definition remove_cb (acc : list path) (n : node) : list path * Z :=
  if Nat.ltb session_depth (depth n) then (n_path n :: acc, Z.of_nat (depth n) - 1)%Z
  else (acc, Z.of_nat (depth n)).

(* DoRemoveData(matcher, quiet): the collected nodes are removed last-collected first *)
Definition do_remove_data (sv : server) (ss : session) (keys : list (pat * option qfilter)) (quiet : bool) : server :=
  let m := m_of_list keys in
  let rs := do_traversal remove_cb (sv_tree sv) m (session_dir ss) true (fx_guard fx) [] in
  fold_left (fun sv' p => if has_node (sv_tree sv') p then remove_subtree sv' (s_id ss) p (negb quiet) else sv') rs sv.

(* ------------------------------------------------------------------ GETDATA *)

Inductive spath := Abs (p : pat) | Rel (p : pat).       (* "/a/b" | "a/b" *)

(* PathMatcher::AdjustStringPrefix(path, DEFAULT_PATH_PREFIX) *)
Definition fix_path (sp : spath) : pat :=
  match sp with Abs p => p | Rel p => default_prefix ++ p end.

(* GetDataCallback with messageArray[0] = the reply under construction *)
Definition getdata_cb (s : sid) (acc : option ditems * server) (n : node) : (option ditems * server) * Z :=
  let '(reply, sv) := acc in
  match get_session sv s with
  | None => (acc, 0%Z)
  | Some ss =>
    if own_node ss (n_path n) then (acc, Z.of_nat session_depth)
    else
      let r := di_add_set (match reply with Some r => r | None => empty_di end) (n_path n) (n_data n) in
      if N.leb (s_max ss) (di_num_names r)
      then ((None, upd_session sv s (fun x => send x r)), Z.of_nat (depth n))
      else ((Some r, sv), Z.of_nat (depth n))
  end.

(* DoGetData(msg): the keys and filters of msg, DEFAULT_PATH_PREFIX *)
Definition do_get_data (sv : server) (s : sid) (keys : list (spath * option qfilter)) : server :=
  let m := m_of_list (map (fun kf => (fix_path (fst kf), snd kf)) keys) in
  let '(reply, sv1) := do_traversal (getdata_cb s) (sv_tree sv) m [] true (fx_guard fx) (None, sv) in
  match reply with
  | Some r => upd_session sv1 s (fun x => send x r)
  | None => sv1
  end.

(* ------------------------------------------------------------------ subscriptions *)

Definition single (p : pat) : matcher := m_put empty_matcher p None.      (* NodePathMatcher temp; temp.PutPathString(fixPath, no filter) *)

(* DoSubscribeRefCallback over the nodes matched by one path *)
Definition mark_nodes (t : tree) (m : matcher) (s : sid) (delta : Z) : tree :=
  do_traversal (continue_cb (fun acc n => adjust_subs acc (n_path n) s delta)) t m [] false (fx_guard fx) t.

(* ChangeQueryFilterCallback(node, {oldFilter, newFilter}) *)
Definition cqf_cb (s : sid) (oldf newf : option qfilter) (sv : server) (n : node) : server :=
  let d := Some (n_data n) in
  let oldm := filter_ok oldf d in
  let newm := filter_ok newf d in
  if Bool.eqb oldm newm then sv
  else
    match get_session sv s with
    | None => sv
    | Some ss =>
      if fx_overlap fx && negb (N.leb (match_count (s_subs ss) (n_path n) d 0) (if oldm then 1 else 0))
      then sv
      else node_changed_aux sv s (n_path n) (n_data n) oldm
    end.

(* one SUBSCRIBE:<path> field of PR_COMMAND_SETPARAMETERS *)
Definition subscribe_one (sv : server) (s : sid) (sf : spath * option qfilter) : server :=
  let fp := fix_path (fst sf) in
  let f := snd sf in
  match get_session sv s with
  | None => sv
  | Some ss =>
    match fp with
    | [] => sv
    | _ =>
      match m_get (s_subs ss) fp with
      | Some e =>
        let sv1 :=
          match f, e_flt e with
          | None, None => sv
          | _, _ => do_traversal (continue_cb (cqf_cb s (e_flt e) f)) (sv_tree sv) (single fp) [] false (fx_guard fx) sv
          end in
        upd_session sv1 s (fun x => set_subs x (m_set_filter (s_subs x) fp f))
      | None =>
        let sv1 := upd_session sv s (fun x => set_subs x (m_put (s_subs x) fp f)) in
        set_tree sv1 (mark_nodes (sv_tree sv1) (single fp) s 1)
      end
    end
  end.

(* RemoveParameter("SUBSCRIBE:<path>") *)
Definition unsubscribe_one (sv : server) (s : sid) (sp : spath) : server :=
  let fp := fix_path sp in
  match get_session sv s with
  | None => sv
  | Some ss =>
    match m_remove (s_subs ss) fp with
    | None => sv
    | Some m' =>
      let sv1 := upd_session sv s (fun x => set_subs x m') in
      set_tree sv1 (mark_nodes (sv_tree sv1) (single fp) s (-1))
    end
  end.

(* ------------------------------------------------------------------ commands *)

Inductive cmd :=
| CSetData (flags : N) (items : list (list name * payload))              (* PR_COMMAND_SETDATA *)
| CRemoveData (quiet : bool) (keys : list (pat * option qfilter))        (* PR_COMMAND_REMOVEDATA *)
| CSubscribe (quiet : bool) (subs : list (spath * option qfilter))       (* PR_COMMAND_SETPARAMETERS, SUBSCRIBE: fields *)
| CUnsubscribe (subs : list spath)                                      (* PR_COMMAND_REMOVEPARAMETERS, SUBSCRIBE: names *)
| CSetMax (n : Z)                                                       (* SETPARAMETERS PR_NAME_MAX_UPDATE_MESSAGE_ITEMS *)
| CResetMax                                                             (* REMOVEPARAMETERS of the same *)
| CGetData (keys : list (spath * option qfilter))                       (* PR_COMMAND_GETDATA *)
| CBatch (l : list cmd).                                                (* PR_COMMAND_BATCH *)

(* MessageReceivedFromGateway(msg) of session s; [nest] = _batchMsgNestCount *)
Fixpoint handle (nest : nat) (sv : server) (s : sid) (c : cmd) : server :=
  match get_session sv s with
  | None => sv
  | Some ss =>
    match c with
    | CSetData flags items =>
      fold_left (fun sv' it =>
                   match get_session sv' s with
                   | Some ss' => match fst it with
                                 | [] => sv'
                                 | _ => set_data_node sv' ss' (fst it) (snd it) flags
                                 end
                   | None => sv'
                   end) items sv
    | CRemoveData quiet keys => do_remove_data sv ss keys quiet
    | CSubscribe quiet subs =>
      let sv1 := fold_left (fun sv' sf => subscribe_one sv' s sf) subs sv in
      if quiet then sv1
      else match subs with
           | [] => sv1
           | _ => do_get_data (if fx_push fx then push_all sv1 else sv1) s subs
           end
    | CUnsubscribe subs => fold_left (fun sv' sp => unsubscribe_one sv' s sp) subs sv
    | CSetMax n => upd_session sv s (fun x => set_max x (u32_of_Z n))
    | CResetMax => upd_session sv s (fun x => set_max x default_max_items)
    | CGetData keys => do_get_data sv s keys
    | CBatch l =>
      if Nat.ltb nest max_batch_nest then
        (fix go (l : list cmd) (sv : server) : server :=
           match l with
           | [] => sv
           | c' :: r => go r (push_all (handle (S nest) sv s c'))     (* CallMessageReceivedFromGateway: handler + After... *)
           end) l sv
      else sv
    end
  end.

(* ------------------------------------------------------------------ sessions come and go *)

(* AttachedToServer() of a new session *)
Definition attach (sv : server) (s : sid) (host nm : name) : server :=
  let ss := mkSession s host nm empty_matcher default_max_items None [] in
  let sv0 := mkServer (sv_tree sv) (sv_sessions sv ++ [ss]) (sv_dirty sv) in
  let sv1 :=
    if has_node (sv_tree sv0) [host] then sv0
    else
      let svh := set_tree sv0 (add_node (sv_tree sv0) (mkNode [host] empty_payload (new_node_table sv0 [host]))) in
      notify_changed svh s [host] empty_payload None false in
  let sdir := [host; nm] in
  let sv2 := set_tree sv1 (add_node (sv_tree sv1) (mkNode sdir empty_payload (new_node_table sv1 sdir))) in
  push_all (notify_changed sv2 s sdir empty_payload None false).

(* AboutToDetachFromServer() -> Cleanup() *)
Definition detach (sv : server) (s : sid) : server :=
  match get_session sv s with
  | None => sv
  | Some ss =>
    let hostp := [s_host ss] in
    let sv3 :=
      if has_node (sv_tree sv) hostp then
        let sv1 := if has_node (sv_tree sv) (session_dir ss) then remove_subtree sv s (session_dir ss) true else sv in
        let sv2 := if has_children (sv_tree sv1) hostp then sv1 else remove_subtree sv1 s hostp true in
        push_all sv2
      else sv in
    let t4 := match sv_tree sv3 with
              | [] => []                                  (* the root is empty: the shared data goes *)
              | _ => mark_nodes (sv_tree sv3) (s_subs ss) s cleanup_delta
              end in
    mkServer t4 (filter (fun x => negb (N.eqb (s_id x) s)) (sv_sessions sv3)) (sv_dirty sv3)
  end.

Inductive event :=
| EAttach (s : sid) (host nm : name)
| EDetach (s : sid)
| ECmd (s : sid) (c : cmd).

(* one turn of the server: a session arrives or leaves, or one Message from a client is handled
   (CallMessageReceivedFromGateway = handler, then AfterMessageReceivedFromGateway = PushSubscriptionMessages) *)
Definition step (sv : server) (ev : event) : server :=
  match ev with
  | EAttach s host nm => match get_session sv s with Some _ => sv | None => attach sv s host nm end
  | EDetach s => detach sv s
  | ECmd s c => match get_session sv s with Some _ => push_all (handle 0 sv s c) | None => sv end
  end.

Definition run (evs : list event) (sv : server) : server := fold_left step evs sv.

End Server.
