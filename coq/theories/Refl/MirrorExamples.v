(* Refl/MirrorExamples.v -- concrete histories over the instance of Concrete.v:
   * the premises of mirror_converges_partial are satisfiable by a non-trivial history (overlapping subscriptions,
     filters, payload changes across a filter, removal, unsubscribe, departure);
   * with any one of the three repairs switched off the statement FAILS: the witnesses of findings F12, F37
     (filter change of one of two overlapping subscriptions) and F38 (initial values overtaken by a pending removal). *)
From Coq Require Import List NArith ZArith Bool Arith Lia.
From Muscle Require Import Gen.Consts Refl.Base Refl.BaseProofs Refl.Tree Refl.Matcher Refl.Traverse Refl.Session Refl.Server
     Refl.ServerProofs Refl.RefcountProofs Refl.Mirror Refl.MirrorSubscribe Refl.MirrorCmd Refl.MirrorFrame Refl.MirrorQuiet Refl.MirrorProofs Refl.MirrorCheck Refl.MirrorStale Refl.Concrete Refl.Examples.
Import ListNotations.
Local Open Scope N_scope.

(* payloads: v+1 (0 = empty Message); filter k accepts payload p iff k < p *)

(* ------------------------------------------------------------------ a non-trivial clean history *)

Definition exm : list event :=
  [ EAttach 0 1 10; EAttach 1 1 11; EAttach 2 1 12;
    ECmd 0 (CSubscribe false [(Rel [a_star], None); (Rel [CLit 21], Some 4)]);       (* a*   and   ab with v > 3 *)
    ECmd 2 (CSubscribe false [(Abs [CAny; CLit 11; CAny], Some 6)]);                  (* /*/11/* with v > 5 *)
    ECmd 1 (CSetData 0 [([21], 6); ([22], 2); ([23; 21], 9)]);
    ECmd 1 (CSetData 0 [([21], 9); ([22], 8)]);
    ECmd 0 (CUnsubscribe [Rel [a_star]]);
    ECmd 1 (CBatch [CSetData 0 [([21], 3)]; CRemoveData false [([CLit 22], None)]]);
    ECmd 0 (CSubscribe false [(Rel [CLit 21], None); (Rel [CAny; CAny], None)]);
    EDetach 1 ].

Example exm_premises : premises_b all_fixed exm 0 = true /\ premises_b all_fixed exm 2 = true.
Proof. vm_compute. split; reflexivity. Qed.

(* after the sixth event client 0 holds ab and ac of session 1; at the end (session 1 gone) nothing *)
Example exm_nontrivial :
  option_map (fun c => length (c_mirror c)) (find (fun c => N.eqb (c_id c) 0) (w_clients (world_run all_fixed (firstn 6 exm) empty_world))) = Some 2%nat
  /\ option_map (fun c => length (c_mirror c)) (find (fun c => N.eqb (c_id c) 0) (w_clients (world_run all_fixed (firstn 10 exm) empty_world))) = Some 2%nat
  /\ option_map (fun c => length (c_mirror c)) (find (fun c => N.eqb (c_id c) 0) (w_clients (world_run all_fixed exm empty_world))) = Some 0%nat.
Proof. vm_compute. repeat split; reflexivity. Qed.

(* ------------------------------------------------------------------ the statement, in checkable form *)

(* does client o hold, at the foreign path q, what the statement says? *)
Definition holds_at (w : world) (o : sid) (q : path) : bool :=
  match find (fun c => N.eqb (c_id c) o) (w_clients w), get_session (w_srv w) o with
  | Some c, Some ss =>
    own_node ss q ||
    match mirror_get (c_mirror c) q, expected (sv_tree (w_srv w)) ss q with
    | Some a, Some b => N.eqb a b
    | None, None => true
    | _, _ => false
    end
  | _, _ => true
  end.

(* F12: two patterns of equal clause count "conspire" in the initial-values traversal.
   j* = {jeremy 30, jenny 31, joe 34}, k* = {kate 32, kevin 33, kim 35} *)
Definition jstar : cclause := CWild [30; 31; 34].
Definition kstar : cclause := CWild [32; 33; 35].
Definition ex_f12 : list event :=
  [ EAttach 0 1 10; EAttach 1 1 11; EAttach 2 1 12;
    ECmd 1 (CSetData 0 [([30], 1); ([30; 31], 2); ([30; 32], 3)]);
    ECmd 2 (CSetData 0 [([33], 1); ([33; 34], 4); ([33; 35], 5)]);
    ECmd 0 (CSubscribe false [(Rel [jstar; kstar], None); (Rel [kstar; jstar], None)]) ].

Lemma mirror_refuted_without_F12_repair :
  premises_b (mkFixes false true true) ex_f12 0 = true
  /\ holds_at (world_run (mkFixes false true true) ex_f12 empty_world) 0 [1; 11; 30; 31] = false      (* jeremy/jenny is held *)
  /\ holds_at (world_run all_fixed ex_f12 empty_world) 0 [1; 11; 30; 31] = true.
Proof. vm_compute. repeat split; reflexivity. Qed.

(* F37: the filter of "ab" changes from v>3 to v>7 while "a*" still covers ab = 5 *)
Definition ex_f37 : list event :=
  [ EAttach 0 1 10; EAttach 1 1 11;
    ECmd 1 (CSetData 0 [([21], 6)]);
    ECmd 0 (CSubscribe false [(Rel [a_star], None)]);
    ECmd 0 (CSubscribe false [(Rel [CLit 21], Some 4)]);
    ECmd 0 (CSubscribe false [(Rel [CLit 21], Some 8)]) ].

Lemma mirror_refuted_without_F37_repair :
  premises_b (mkFixes true false true) ex_f37 0 = true
  /\ holds_at (world_run (mkFixes true false true) ex_f37 empty_world) 0 [1; 11; 21] = false          (* ab is missing *)
  /\ holds_at (world_run all_fixed ex_f37 empty_world) 0 [1; 11; 21] = true.
Proof. vm_compute. repeat split; reflexivity. Qed.

(* F38: one SETPARAMETERS changes the filter of "a*" (ab = 5 leaves it) and adds "ab": the initial values overtake the removal *)
Definition ex_f38 : list event :=
  [ EAttach 0 1 10; EAttach 1 1 11;
    ECmd 1 (CSetData 0 [([21], 6)]);
    ECmd 0 (CSubscribe false [(Rel [a_star], Some 4)]);
    ECmd 0 (CSubscribe false [(Rel [a_star], Some 8); (Rel [CLit 21], None)]) ].

Lemma mirror_refuted_without_F38_repair :
  premises_b (mkFixes true true false) ex_f38 0 = true
  /\ holds_at (world_run (mkFixes true true false) ex_f38 empty_world) 0 [1; 11; 21] = false          (* ab is missing *)
  /\ holds_at (world_run all_fixed ex_f38 empty_world) 0 [1; 11; 21] = true.
Proof. vm_compute. repeat split; reflexivity. Qed.

(* ------------------------------------------------------------------ explicit GETDATA of the observer, quiet subscription of another session *)

(* session 1 subscribes quietly; the observer 0 asks again for what it is subscribed to, alone and inside a BATCH after
   the SUBSCRIBE: that covers the key *)
Definition exg : list event :=
  [ EAttach 0 1 10; EAttach 1 1 11;
    ECmd 1 (CSetData 0 [([21], 6); ([22], 2)]);
    ECmd 0 (CSubscribe false [(Rel [a_star], None)]);
    ECmd 1 (CSubscribe true [(Rel [CLit 21], None)]);
    ECmd 0 (CGetData [(Rel [a_star], None)]);
    ECmd 0 (CBatch [CSubscribe false [(Rel [CLit 21], Some 4)]; CGetData [(Rel [CLit 21], Some 4)]; CSetData 0 [([23], 1)]]);
    ECmd 1 (CSetData 0 [([21], 9)]) ].

Lemma exg_premises :
  wf_wrun all_fixed empty_world exg /\ ok_wrun all_fixed 0 empty_world exg /\ small (run_budget exg).
Proof.
  split; [apply wf_wrun_b_spec; vm_compute; reflexivity|].
  split; [|unfold small; vm_compute; reflexivity].
  assert (Ha : forall w ev, ev_ok_b 0 ev = true -> ev_ok 0 w ev) by (intros; now apply ev_ok_b_one).
  assert (Hb : forall w ev, ev_clean_b 0 ev = true -> ev_clean 0 w ev) by (intros; now apply ev_clean_b_one).
  cbn [ok_wrun exg].
  split; [apply Ha; reflexivity|split; [apply Hb; reflexivity|]]. split; [apply Ha; reflexivity|split; [apply Hb; reflexivity|]].
  split; [apply Ha; reflexivity|split; [apply Hb; reflexivity|]]. split; [apply Ha; reflexivity|split; [apply Hb; reflexivity|]].
  split; [apply Ha; reflexivity|split; [apply Hb; reflexivity|]].
  split; [apply Ha; reflexivity|split; [|split; [apply Ha; reflexivity|split; [|split; [apply Ha; reflexivity|split; [apply Hb; reflexivity|exact I]]]]]].
  - (* GETDATA a* *)
    cbn [ev_clean]. intros _. split; [exact I|left]. split; [reflexivity|]. intros ss Hss. vm_compute in Hss. inversion Hss; subst ss. clear Hss.
    cbn [cmd_covered]. split; [repeat constructor; intros []|]. split.
    + intros p Hp. vm_compute in Hp. destruct Hp as [Hp|[]]. subst p. discriminate.
    + intros kf Hk. destruct Hk as [Hk|[]]. subst kf. vm_compute. auto.
  - (* BATCH [SUBSCRIBE ab@4; GETDATA ab@4; SETDATA] *)
    cbn [ev_clean]. intros _. split.
    + cbn. split; [|repeat split]. split; [repeat constructor; intros []|]. intros p Hp. destruct Hp as [Hp|[]]. subst p. discriminate.
    + left. split; [reflexivity|]. intros ss Hss. vm_compute in Hss. inversion Hss; subst ss. clear Hss.
      cbn [cmd_covered]. split; [exact I|]. split; [|split; exact I].
      split; [repeat constructor; intros []|]. split.
      * intros p Hp. vm_compute in Hp. destruct Hp as [Hp|[]]. subst p. discriminate.
      * intros kf Hk. destruct Hk as [Hk|[]]. subst kf. vm_compute. auto.
Qed.

(* the observer holds ab and ac of session 1 with their current payloads at the end *)
Example exg_nontrivial :
  holds_at (world_run all_fixed exg empty_world) 0 [1; 11; 21] = true
  /\ option_map (fun c => length (c_mirror c)) (find (fun c => N.eqb (c_id c) 0) (w_clients (world_run all_fixed exg empty_world))) = Some 2%nat.
Proof. vm_compute. split; reflexivity. Qed.

(* ------------------------------------------------------------------ quiet changes where the observer cannot see (quiet_frame) *)

(* the observer 0 subscribes to /*/11/* only; session 2 (named 12) sets and removes quietly in its own subtree *)
Definition exq : list event :=
  [ EAttach 0 1 10; EAttach 1 1 11; EAttach 2 1 12;
    ECmd 0 (CSubscribe false [(Abs [CAny; CLit 11; CAny], None)]);
    ECmd 1 (CSetData 0 [([21], 6)]);
    ECmd 2 (CSetData (N.shiftl 1 c_SETDATANODE_FLAG_QUIET) [([21], 7); ([22; 23], 8)]);
    ECmd 2 (CBatch [CRemoveData true [([CLit 22], None)]; CSetData 0 [([24], 1)]]);
    ECmd 1 (CSetData 0 [([21], 9)]) ].

Lemma exq_hidden : hidden_data [mkEntry [CAny; CLit 11; CAny] None] [1; 12].
Proof.
  intros e [He|[]] q Hq. subst e. apply is_prefix_spec in Hq as [r Hr]. subst q. cbn [e_pat].
  destruct r as [|x [|y r]]; reflexivity.
Qed.

Lemma exq_premises :
  wf_wrun all_fixed empty_world exq /\ ok_wrun all_fixed 0 empty_world exq /\ small (run_budget exq).
Proof.
  split; [apply wf_wrun_b_spec; vm_compute; reflexivity|].
  split; [|unfold small; vm_compute; reflexivity].
  assert (Ha : forall w ev, ev_ok_b 0 ev = true -> ev_ok 0 w ev) by (intros; now apply ev_ok_b_one).
  assert (Hb : forall w ev, ev_clean_b 0 ev = true -> ev_clean 0 w ev) by (intros; now apply ev_clean_b_one).
  assert (Hq : forall w c, (forall so sb, get_session (w_srv w) 0 = Some so -> get_session (w_srv w) 2 = Some sb ->
                           all_entries (s_subs so) = [mkEntry [CAny; CLit 11; CAny] None] /\ session_dir sb = [1; 12]) ->
               (cmd_depth c <= max_batch_nest)%nat -> ev_ok 0 w (ECmd 2 c)).
  { intros w c H Hd. split; [right|exact Hd]. split; [discriminate|]. intros so sb H1 H2. destruct (H so sb H1 H2) as [E1 E2].
    rewrite E1, E2. exact exq_hidden. }
  cbn [ok_wrun exq].
  split; [apply Ha; reflexivity|split; [apply Hb; reflexivity|]]. split; [apply Ha; reflexivity|split; [apply Hb; reflexivity|]].
  split; [apply Ha; reflexivity|split; [apply Hb; reflexivity|]]. split; [apply Ha; reflexivity|split; [apply Hb; reflexivity|]].
  split; [apply Ha; reflexivity|split; [apply Hb; reflexivity|]].
  split; [|split; [apply Hb; reflexivity|]].
  { apply Hq; [|vm_compute; lia]. intros so sb H1 H2. vm_compute in H1, H2. inversion H1; inversion H2; subst. split; reflexivity. }
  split; [|split; [apply Hb; reflexivity|]].
  { apply Hq; [|vm_compute; lia]. intros so sb H1 H2. vm_compute in H1, H2. inversion H1; inversion H2; subst. split; reflexivity. }
  split; [apply Ha; reflexivity|split; [apply Hb; reflexivity|exact I]].
Qed.

(* the observer holds ab of session 1 with its current payload and nothing of session 2 *)
Example exq_nontrivial :
  holds_at (world_run all_fixed exq empty_world) 0 [1; 11; 21] = true
  /\ holds_at (world_run all_fixed exq empty_world) 0 [1; 12; 21] = true
  /\ option_map (fun c => length (c_mirror c)) (find (fun c => N.eqb (c_id c) 0) (w_clients (world_run all_fixed exq empty_world))) = Some 1%nat
  /\ length (sv_tree (w_srv (world_run all_fixed exq empty_world))) = 7%nat.
Proof. vm_compute. repeat split; reflexivity. Qed.

(* ------------------------------------------------------------------ switching subscriptions inside one BATCH *)

(* the observer 0 replaces "a*" by "ab with v > 3" atomically: SUBSCRIBE: the new one, then unsubscribe the old one, in one
   BATCH (the client prunes once, after the BATCH); ac drops out of its mirror, ab stays and follows later changes *)
Definition exb : list event :=
  [ EAttach 0 1 10; EAttach 1 1 11;
    ECmd 1 (CSetData 0 [([21], 6); ([22], 2)]);
    ECmd 0 (CSubscribe false [(Rel [a_star], None)]);
    ECmd 0 (CBatch [CSubscribe false [(Rel [CLit 21], Some 4)]; CSetData 0 [([30], 1)]; CUnsubscribe [Rel [a_star]]; CSetData 0 [([31], 1)]]);
    ECmd 1 (CSetData 0 [([21], 9); ([22], 8)]) ].

Example exb_premises : premises_b all_fixed exb 0 = true.
Proof. vm_compute. reflexivity. Qed.

Example exb_nontrivial :
  holds_at (world_run all_fixed exb empty_world) 0 [1; 11; 21] = true
  /\ holds_at (world_run all_fixed exb empty_world) 0 [1; 11; 22] = true
  /\ option_map (fun c => length (c_mirror c)) (find (fun c => N.eqb (c_id c) 0) (w_clients (world_run all_fixed (firstn 4 exb) empty_world))) = Some 2%nat
  /\ option_map (fun c => length (c_mirror c)) (find (fun c => N.eqb (c_id c) 0) (w_clients (world_run all_fixed exb empty_world))) = Some 1%nat.
Proof. vm_compute. repeat split; reflexivity. Qed.

(* the other order: unsubscribe the old one first, then SUBSCRIBE: the new one, then drop one more, all in one BATCH *)
Definition exu : list event :=
  [ EAttach 0 1 10; EAttach 1 1 11;
    ECmd 1 (CSetData 0 [([21], 6); ([22], 2); ([23], 7)]);
    ECmd 0 (CSubscribe false [(Rel [a_star], None); (Rel [CLit 23], None)]);
    ECmd 0 (CBatch [CUnsubscribe [Rel [a_star]]; CSetMax 3; CSubscribe false [(Rel [CLit 21], Some 4)]; CSetData 0 [([30], 1)];
                    CUnsubscribe [Rel [CLit 23]]]);
    ECmd 1 (CSetData 0 [([21], 9); ([22], 8); ([23], 1)]) ].

Example exu_premises : premises_b all_fixed exu 0 = true.
Proof. vm_compute. reflexivity. Qed.

Example exu_nontrivial :
  holds_at (world_run all_fixed exu empty_world) 0 [1; 11; 21] = true
  /\ holds_at (world_run all_fixed exu empty_world) 0 [1; 11; 22] = true
  /\ holds_at (world_run all_fixed exu empty_world) 0 [1; 11; 23] = true
  /\ option_map (fun c => length (c_mirror c)) (find (fun c => N.eqb (c_id c) 0) (w_clients (world_run all_fixed (firstn 4 exu) empty_world))) = Some 3%nat
  /\ option_map (fun c => length (c_mirror c)) (find (fun c => N.eqb (c_id c) 0) (w_clients (world_run all_fixed exu empty_world))) = Some 1%nat.
Proof. vm_compute. repeat split; reflexivity. Qed.

(* ------------------------------------------------------------------ quiet changes the observer can see (mirror_converges_announced) *)

(* the observer 0 watches a*; session 1 changes ab and creates ac QUIETLY, then sets ad loudly: the mirror keeps the old ab,
   knows nothing of ac, and is exact at ad -- ab and ac are the collected (stale) paths *)
Definition exs : list event :=
  [ EAttach 0 1 10; EAttach 1 1 11;
    ECmd 1 (CSetData 0 [([21], 6)]);
    ECmd 0 (CSubscribe false [(Rel [a_star], None)]);
    ECmd 1 (CSetData (N.shiftl 1 c_SETDATANODE_FLAG_QUIET) [([21], 7); ([22], 2)]);
    ECmd 1 (CSetData 0 [([20], 1)]) ].

Example exs_premises :
  wf_wrun_b all_fixed empty_world exs = true /\ forallb (ev_oks_b 0) exs = true
  /\ stale_run all_fixed 0 empty_world exs [] = [[1; 11; 21]; [1; 11; 21]; [1; 11; 22]].
Proof. vm_compute. repeat split; reflexivity. Qed.

Example exs_nontrivial :
  holds_at (world_run all_fixed exs empty_world) 0 [1; 11; 20] = true            (* exact where nothing happened quietly *)
  /\ holds_at (world_run all_fixed exs empty_world) 0 [1; 11; 21] = false        (* stale at ab: the restriction is needed *)
  /\ holds_at (world_run all_fixed exs empty_world) 0 [1; 11; 22] = false
  /\ option_map (fun c => length (c_mirror c)) (find (fun c => N.eqb (c_id c) 0) (w_clients (world_run all_fixed exs empty_world))) = Some 2%nat.
Proof. vm_compute. repeat split; reflexivity. Qed.
