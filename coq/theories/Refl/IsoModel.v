(* Refl/IsoModel.v -- C06: the command dispatcher of StorageReflectSession around the shared server
   core of Refl/Server.v: privileges, the privileged what-codes, client-to-client Messages with a
   (possibly forged) PR_NAME_SESSION field, replies other than PR_RESULT_DATAITEMS, sessions ended
   by PR_COMMAND_KICK.  Definitions only (no proofs).  Line numbers: reflector/StorageReflectSession.cpp.

   What is modelled here (everything of Refl/Server.v is reused as it is):
     MessageReceivedFromGateway (563): the range test on msg.what, the switch over the what-code,
       PR_COMMAND_KICK (626) + KickClientCallback (1286), PR_COMMAND_ADDBANS/ADDREQUIRES (639),
       PR_COMMAND_REMOVEBANS/REMOVEREQUIRES (648), HasPrivilege (528), BounceMessage (1126),
       the PR_NAME_PRIVILEGE_BITS branch of PR_COMMAND_SETPARAMETERS (736) and RemoveParameter of the same (1986),
       PR_COMMAND_NOOP / PING / GETPARAMETERS / GETDATATREES / SETDATATREES / JETTISON* at the level "a reply to the
       sender or nothing", the default branch (868), the client-to-client branch (872-890) with
       ReplaceString(false, PR_NAME_SESSION, ..), PassMessageCallback(Aux) (1251), the broadcast of
       DumbReflectSession::MessageReceivedFromGateway, PR_COMMAND_BATCH (613) over all of these;
     AttachedToServer (139-159): the privilege bits are assigned by the server when the session arrives;
     ReflectServer::EndSession / ClearLameDucks (813): a kicked session is detached at the server's next turn.
   Not modelled: ban/require patterns themselves (they live in the session factory and concern future connections),
   the default Message route parameter (PR_NAME_KEYS in SETPARAMETERS), the routing-flag parameters,
   PR_NAME_REPLY_ENCODING / keep-alive parameters, the content of PR_RESULT_PARAMETERS / PR_RESULT_DATATREES replies,
   JETTISON* (they edit the sender's own outgoing queue only), ordered indices. *)
From Coq Require Import List NArith ZArith Bool Arith.
From Muscle Require Import Gen.Consts Refl.Base Refl.Tree Refl.Matcher Refl.Traverse Refl.Session Refl.Server.
Import ListNotations.

(* a Message other than PR_RESULT_DATAITEMS handed to a session's gateway *)
Inductive reply :=
| RBounce (code : N) (what : N)                             (* BounceMessage(code, msg): PR_NAME_REJECTED_MESSAGE holds the Message with that what-code *)
| RForward (from : sid) (what : N) (sess : option name)      (* a client-to-client Message: sender, what-code, its PR_NAME_SESSION field as delivered *)
| RReply (what : N).                                         (* PR_RESULT_PONG / PARAMETERS / DATATREES to the sender itself *)

Section Iso.
Context {M : MatchOps}.
Variable fx : fixes.

Record xserver := mkX {
  xs_sv : server;
  xs_priv : list (sid * N);          (* PR_NAME_PRIVILEGE_BITS of the sessions that carry the parameter (int32 bit-chord read as uint32) *)
  xs_log : list (sid * reply);       (* (receiving session, Message), oldest first *)
  xs_ducks : list sid                (* ReflectServer::_lameDuckSessions: EndSession() was called on them *)
}.

Definition empty_xserver : xserver := mkX empty_server [] [] [].

Definition with_sv (xs : xserver) (sv : server) : xserver := mkX sv (xs_priv xs) (xs_log xs) (xs_ducks xs).
Definition with_priv (xs : xserver) (p : list (sid * N)) : xserver := mkX (xs_sv xs) p (xs_log xs) (xs_ducks xs).
Definition with_ducks (xs : xserver) (d : list sid) : xserver := mkX (xs_sv xs) (xs_priv xs) (xs_log xs) d.
Definition log_to (xs : xserver) (s : sid) (r : reply) : xserver :=
  mkX (xs_sv xs) (xs_priv xs) (xs_log xs ++ [(s, r)]) (xs_ducks xs).

Fixpoint priv_get (l : list (sid * N)) (s : sid) : N :=       (* _parameters.GetInt32(PR_NAME_PRIVILEGE_BITS): 0 when absent *)
  match l with
  | [] => 0%N
  | (k, b) :: r => if N.eqb k s then b else priv_get r s
  end.

Definition priv_remove (l : list (sid * N)) (s : sid) : list (sid * N) :=
  filter (fun kb => negb (N.eqb (fst kb) s)) l.

(* HasPrivilege(priv) *)
Definition has_priv (xs : xserver) (s : sid) (p : N) : bool := N.testbit (priv_get (xs_priv xs) s) p.

Definition unprivileged (xs : xserver) (s : sid) : Prop := priv_get (xs_priv xs) s = 0%N.

(* muscleInRange(msg.what, BEGIN_PR_COMMANDS, END_PR_COMMANDS) *)
Definition in_command_range (what : N) : bool := N.leb c_BEGIN_PR_COMMANDS what && N.leb what c_END_PR_COMMANDS.

(* GetSession(node.GetAncestorNode(NODE_DEPTH_SESSIONNAME, &node)->GetNodeName()): the name looked up among the sessions *)
Definition owner_name (p : path) : option name :=
  match p with
  | _ :: sn :: _ => Some sn
  | [h] => Some h
  | [] => None
  end.

Fixpoint find_by_name (l : list session) (nm : name) : option session :=
  match l with
  | [] => None
  | x :: r => if name_eqb (s_name x) nm then Some x else find_by_name r nm
  end.

Definition owner_of (sv : server) (p : path) : option session :=
  match owner_name p with
  | Some nm => find_by_name (sv_sessions sv) nm
  | None => None
  end.

Fixpoint sid_mem (s : sid) (l : list sid) : bool :=
  match l with [] => false | x :: r => N.eqb x s || sid_mem s r end.

(* KickClientCallback: next->EndSession() unless it is the kicker itself; the traversal goes on at session level *)
Definition kick_cb (sv : server) (s : sid) (ducks : list sid) (n : node) : list sid * Z :=
  match owner_of sv (n_path n) with
  | Some t => if N.eqb (s_id t) s then (ducks, Z.of_nat session_depth)
              else if sid_mem (s_id t) ducks then (ducks, Z.of_nat session_depth)
              else (ducks ++ [s_id t], Z.of_nat session_depth)
  | None => (ducks, Z.of_nat session_depth)
  end.

(* PassMessageCallbackAux(node, msg, includeSelfOkay = false, &args->_sentTo): one delivery per session and traversal
   ([sent] = PassMessageCallbackArgs::_sentTo) *)
Definition pass_cb (sv : server) (s : sid) (r : reply) (acc : list sid * list (sid * reply)) (n : node)
  : (list sid * list (sid * reply)) * Z :=
  let '(sent, log) := acc in
  match owner_of sv (n_path n) with
  | Some t => if N.eqb (s_id t) s then (acc, Z.of_nat session_depth)
              else if sid_mem (s_id t) sent then (acc, Z.of_nat session_depth)
              else ((sent ++ [s_id t], log ++ [(s_id t, r)]), Z.of_nat session_depth)
  | None => (acc, Z.of_nat session_depth)
  end.

Definition keys_matcher (keys : list (spath * option qfilter)) : matcher :=
  m_of_list (map (fun kf => (fix_path (fst kf), snd kf)) keys).

Inductive xcmd :=
| XBase (c : cmd)                                                   (* the commands of Refl/Server.v *)
| XSetData (flags : N) (items : list (bool * list name * payload))  (* PR_COMMAND_SETDATA; the bool: the field name begins with '/' *)
| XRemoveData (quiet : bool) (keys : list (spath * option qfilter)) (* PR_COMMAND_REMOVEDATA; keys with or without a leading '/' *)
| XCode (what : N) (keys : list (spath * option qfilter))           (* any other Message, with its PR_NAME_KEYS / PR_NAME_FILTERS *)
| XSetPriv (bits : N)                                               (* PR_COMMAND_SETPARAMETERS carrying PR_NAME_PRIVILEGE_BITS *)
| XRemovePriv                                                       (* PR_COMMAND_REMOVEPARAMETERS naming PR_NAME_PRIVILEGE_BITS *)
| XMessage (what : N) (keys : list (spath * option qfilter)) (sess : option name)   (* as XCode, carrying a PR_NAME_SESSION string *)
| XBatch (l : list xcmd).                                           (* PR_COMMAND_BATCH *)

(* PathMatcher::AdjustStringPrefix(path, NULL) *)
Definition unslash (sp : spath) : pat := match sp with Abs p => p | Rel p => p end.

Definition bounce (xs : xserver) (s : sid) (code what : N) : xserver := log_to xs s (RBounce code what).

(* the switch of MessageReceivedFromGateway for the what-codes that Refl/Server.v does not cover;
   [sess] = the PR_NAME_SESSION field of the Message, if it has one *)
Definition dispatch (xs : xserver) (ss : session) (what : N) (keys : list (spath * option qfilter)) (sess : option name) : xserver :=
  let s := s_id ss in
  if in_command_range what then
    if N.eqb what c_PR_COMMAND_KICK then
      if has_priv xs s c_PR_PRIVILEGE_KICK then
        match keys with
        | [] => xs
        | _ => with_ducks xs (do_traversal (kick_cb (xs_sv xs) s) (sv_tree (xs_sv xs)) (keys_matcher keys) [] true (fx_guard fx) (xs_ducks xs))
        end
      else bounce xs s c_PR_RESULT_ERRORACCESSDENIED what
    else if N.eqb what c_PR_COMMAND_ADDBANS || N.eqb what c_PR_COMMAND_ADDREQUIRES then
      if has_priv xs s c_PR_PRIVILEGE_ADDBANS then xs       (* handed to the session factory: future connections only *)
      else bounce xs s c_PR_RESULT_ERRORACCESSDENIED what
    else if N.eqb what c_PR_COMMAND_REMOVEBANS || N.eqb what c_PR_COMMAND_REMOVEREQUIRES then
      if has_priv xs s c_PR_PRIVILEGE_REMOVEBANS then xs
      else bounce xs s c_PR_RESULT_ERRORACCESSDENIED what
    else if N.eqb what c_PR_COMMAND_PING then log_to xs s (RReply c_PR_RESULT_PONG)
    else if N.eqb what c_PR_COMMAND_GETPARAMETERS then log_to xs s (RReply c_PR_RESULT_PARAMETERS)
    else if N.eqb what c_PR_COMMAND_GETDATATREES then log_to xs s (RReply c_PR_RESULT_DATATREES)
    else if N.eqb what c_PR_COMMAND_SETDATATREES then bounce xs s c_PR_RESULT_ERRORUNIMPLEMENTED what
    else if N.eqb what c_PR_COMMAND_NOOP || N.eqb what c_PR_COMMAND_JETTISONRESULTS || N.eqb what c_PR_COMMAND_JETTISONDATATREES
         then xs
    else if N.eqb what c_PR_COMMAND_SETPARAMETERS || N.eqb what c_PR_COMMAND_REMOVEPARAMETERS || N.eqb what c_PR_COMMAND_SETDATA
            || N.eqb what c_PR_COMMAND_REMOVEDATA || N.eqb what c_PR_COMMAND_GETDATA || N.eqb what c_PR_COMMAND_BATCH
            || N.eqb what c_PR_COMMAND_INSERTORDEREDDATA || N.eqb what c_PR_COMMAND_REORDERDATA
         then xs                                            (* one of the commands of XBase without any field it interprets *)
    else bounce xs s c_PR_RESULT_ERRORUNIMPLEMENTED what
  else
    (* client-to-client: msg.ReplaceString(false, PR_NAME_SESSION, GetSessionIDString()), then routing *)
    let sess' := match sess with Some _ => Some (s_name ss) | None => None end in
    let r := RForward s what sess' in
    match keys with
    | [] =>     (* no default route parameter: DumbReflectSession::MessageReceivedFromGateway broadcasts to the neighbours *)
      mkX (xs_sv xs) (xs_priv xs)
          (xs_log xs ++ flat_map (fun t => if N.eqb (s_id t) s then [] else [(s_id t, r)]) (sv_sessions (xs_sv xs)))
          (xs_ducks xs)
    | _ =>
      mkX (xs_sv xs) (xs_priv xs)
          (snd (do_traversal (pass_cb (xs_sv xs) s r) (sv_tree (xs_sv xs)) (keys_matcher keys) [] true (fx_guard fx) ([], xs_log xs)))
          (xs_ducks xs)
    end.

(* MessageReceivedFromGateway(msg) of session s; [nest] = _batchMsgNestCount *)
Fixpoint xhandle (nest : nat) (xs : xserver) (s : sid) (c : xcmd) : xserver :=
  match get_session (xs_sv xs) s with
  | None => xs
  | Some ss =>
    match c with
    | XBase b => with_sv xs (handle fx nest (xs_sv xs) s b)
    | XSetData flags items =>
      (* SetDataNode (468): `if ((nodePath.HasChars())&&(nodePath[0] != '/'))` -- an absolute path is not acted on *)
      with_sv xs (handle fx nest (xs_sv xs) s
                         (CSetData flags (map (fun it : bool * list name * payload => if fst (fst it) then ([], snd it) else (snd (fst it), snd it)) items)))
    | XRemoveData quiet keys =>
      (* PutPathsFromMessage(.., NULL): AdjustStringPrefix without a prefix only drops a leading '/' *)
      with_sv xs (handle fx nest (xs_sv xs) s (CRemoveData quiet (map (fun kf : spath * option qfilter => (unslash (fst kf), snd kf)) keys)))
    | XCode what keys => dispatch xs ss what keys None
    | XMessage what keys sess => dispatch xs ss what keys sess
    | XSetPriv _ => xs                                       (* "clients aren't allowed to change their privilege bits": copyField = false *)
    | XRemovePriv => with_priv xs (priv_remove (xs_priv xs) s)
    | XBatch l =>
      if Nat.ltb nest max_batch_nest then
        (fix go (l : list xcmd) (xs : xserver) : xserver :=
           match l with
           | [] => xs
           | c' :: r => go r (let xs1 := xhandle (S nest) xs s c' in with_sv xs1 (push_all (xs_sv xs1)))
           end) l xs
      else xs
    end
  end.

(* ------------------------------------------------------------------ sessions come and go *)

(* AttachedToServer(): [bits] is what the server's priv<n> patterns grant to the new session's host *)
Definition xattach (xs : xserver) (s : sid) (host nm : name) (bits : N) : xserver :=
  mkX (attach (xs_sv xs) s host nm)
      (if N.eqb bits 0 then xs_priv xs else xs_priv xs ++ [(s, bits)])
      (xs_log xs) (xs_ducks xs).

(* AboutToDetachFromServer() and the removal from the server's tables *)
Definition xdetach (xs : xserver) (s : sid) : xserver :=
  mkX (detach fx (xs_sv xs) s) (priv_remove (xs_priv xs) s) (xs_log xs)
      (filter (fun d => negb (N.eqb d s)) (xs_ducks xs)).

(* ReflectServer::ClearLameDucks() *)
Definition clear_ducks (xs : xserver) : xserver :=
  fold_left (fun xs' d => xdetach xs' d) (xs_ducks xs) xs.

Inductive xevent :=
| XAttach (s : sid) (host nm : name) (bits : N)
| XDetach (s : sid)                                        (* the connection of s ends *)
| XCmd (s : sid) (c : xcmd).

Definition xstep (xs : xserver) (ev : xevent) : xserver :=
  match ev with
  | XAttach s host nm bits => match get_session (xs_sv xs) s with Some _ => xs | None => xattach xs s host nm bits end
  | XDetach s => xdetach xs s
  | XCmd s c =>
    match get_session (xs_sv xs) s with
    | Some _ => let xs1 := xhandle 0 xs s c in clear_ducks (with_sv xs1 (push_all (xs_sv xs1)))
    | None => xs
    end
  end.

Definition xrun (evs : list xevent) (xs : xserver) : xserver := fold_left xstep evs xs.

(* what the correspondence run reads and then forgets after every step *)
Definition xclear (xs : xserver) : xserver :=
  mkX (mkServer (sv_tree (xs_sv xs)) (map clear_out (sv_sessions (xs_sv xs))) (sv_dirty (xs_sv xs))) (xs_priv xs) [] (xs_ducks xs).

End Iso.
