(* Refl/MirrorSubJ.v -- the subscriber's own SETPARAMETERS as a whole (loop over the SUBSCRIBE: fields, flush,
   initial values) re-establishes its invariant J; its own REMOVEPARAMETERS leaves the virtual mirror alone. *)
From Coq Require Import List NArith ZArith Bool Arith Lia.
From Muscle Require Import Gen.Consts Refl.Base Refl.BaseProofs Refl.Tree Refl.TreeProofs Refl.Matcher Refl.MatcherProofs
     Refl.Traverse Refl.TraverseFold Refl.TraverseSpec Refl.Session Refl.Server Refl.ServerProofs Refl.Mirror Refl.MirrorBase
     Refl.MirrorServer Refl.MirrorNotify Refl.MirrorSem Refl.MirrorSteps Refl.MirrorHandlers Refl.MirrorSubscribe Refl.MirrorFetch.
Import ListNotations.

Section SubJ.
Context {M : MatchOps} {L : MatchLaws M}.
Variable fx : fixes.
Hypothesis guard_on : fx_guard fx = true.
Hypothesis overlap_on : fx_overlap fx = true.
Hypothesis push_on : fx_push fx = true.
Variable mir : mirror.
Variable s : sid.

Notation J := (J mir).
Notation V := (V mir).

Lemma K_push_all : forall sv T, K mir s sv T -> K mir s (push_all sv) T.
Proof.
  intros sv T HK ss' Hss' q Hown.
  destruct (get_session_sess sv (push_all sv) s ss' (same_core_sess _ _ (push_all_core sv)) Hss') as [ss [Hss [Hsub Hdir]]].
  destruct (push_all_core sv) as [Ht _]. rewrite Ht, V_push_all, <- Hsub.
  apply (HK ss Hss q). now rewrite (own_node_dir ss ss' q Hdir).
Qed.

Theorem subscribe_cmd_J : forall B sv subs, small (B + length subs) ->
  inv B sv -> pend_ok sv -> (exists ss, get_session sv s = Some ss) ->
  NoDup (fixed subs) -> (forall p, In p (fixed subs) -> p <> []) ->
  J sv s ->
  let sv1 := fold_left (fun sv' sf => subscribe_one fx sv' s sf) subs sv in
  let sv2 := match subs with
             | [] => sv1
             | _ => do_get_data fx (if fx_push fx then push_all sv1 else sv1) s subs
             end in
  J sv2 s /\ pend_ok sv2.
Proof.
  intros B sv subs HB I Hpo [ss Hss] Hnd Hne HJ sv1 sv2.
  pose proof (J_K mir s sv (inv_marks_ok _ _ _ I) HJ) as HK0.
  assert (Hok : forall p, In p (fixed subs) -> p <> [] /\ ~ In p []).
  { intros p Hp. split; [now apply Hne|intros []]. }
  destruct (subscribe_loop_K fx guard_on overlap_on mir s subs B sv [] HB I Hpo (ex_intro _ ss Hss) Hnd Hok HK0)
    as [HK1 [Hpo1 [I1 [ss1 [Hss1 [HR1 _]]]]]].
  fold sv1 in HK1, Hpo1, I1, Hss1. rewrite app_nil_r in HK1.
  unfold sv2. clear sv2.
  destruct subs as [|sf0 subs0] eqn:Esubs; [split; [exact HJ|exact Hpo]|]. rewrite <- Esubs in *.
  rewrite push_on.
  set (svp := push_all sv1).
  assert (Hcp : same_core sv1 svp) by apply push_all_core.
  assert (HKp : K mir s svp (rev (fixed subs))) by (now apply K_push_all).
  assert (Hpop : pend_ok svp) by (now apply pend_ok_push_all).
  destruct (get_session_core_some sv1 svp s ss1 Hcp Hss1) as [ssp [Hssp Hsubp]].
  assert (Hnp : s_pending ssp = None).
  { apply (push_all_no_pending sv1 Hpo1). apply find_session_some in Hssp. tauto. }
  assert (Ip : inv (B + length subs) svp) by (eapply inv_same_core; [exact Hcp|exact I1]).
  pose proof (inv_tree _ _ _ Ip) as Htp.
  set (Mf := m_of_list (map (fun kf => (fix_path (fst kf), snd kf)) subs)).
  assert (HwMf : wf_groups (m_groups Mf)) by apply m_of_list_wf.
  assert (HndVl : NoDup (map n_path (vlist (sv_tree svp) Mf [] true))) by (now apply vlist_paths_nodup).
  destruct (fetch_V fx guard_on mir s ssp svp subs Hpop Hssp Hnp HndVl) as [Hc2 HV2]. fold Mf in HV2.
  split; [|now apply pend_ok_do_get_data].
  (* the entries of the fetch matcher are the entries this Message touched *)
  assert (HMf : forall x, In x (all_entries Mf) <-> exists sf, In sf subs /\ x = mkEntry (fix_path (fst sf)) (snd sf)).
  { intros x. unfold Mf. rewrite m_of_list_entries.
    - split.
      + intros [pf [H1 H2]]. apply in_map_iff in H1 as [sf [H3 H4]]. subst pf. cbn [fst snd] in H2. eauto.
      + intros [sf [H1 H2]]. exists (fix_path (fst sf), snd sf). split; [apply in_map_iff; eauto|auto].
    - rewrite map_map. cbn [fst]. exact Hnd.
    - intros pf Hpf. apply in_map_iff in Hpf as [sf [H1 H2]]. subst pf. cbn [fst]. apply Hne. unfold fixed. apply in_map_iff. eauto. }
  assert (Hinp : In ssp (sv_sessions svp)) by (apply find_session_some in Hssp; tauto).
  destruct (inv_subs _ _ _ Ip ssp Hinp) as [[Hwp _] _].
  apply (J_intro mir svp); [now apply same_core_sess|].
  intros ss0 Hss0 q Hown. assert (ss0 = ssp) by congruence. subst ss0.
  destruct Hc2 as [Ht2 _]. rewrite Ht2, HV2.
  destruct (HKp ssp Hssp q Hown) as [K1 K2].
  rewrite expected_exp_with. fold (data_at (sv_tree svp) q).
  set (E := s_subs ssp) in *.
  assert (HRp : forall sf, In sf subs -> In (mkEntry (fix_path (fst sf)) (snd sf)) (all_entries E)).
  { intros sf Hsf. rewrite Hsubp. now apply HR1. }
  (* a node found by the fetch at q *)
  assert (Hfound : forall n, find (fun n => path_eqb (n_path n) q && negb (own_node ssp (n_path n))) (vlist (sv_tree svp) Mf [] true) = Some n ->
                   In n (sv_tree svp) /\ n_path n = q /\ exists x, In x (all_entries Mf) /\ ematch x q (n_data n) = true).
  { intros n Hf. apply find_some in Hf as [Hf1 Hf2]. apply andb_true_iff in Hf2 as [Hf2 _]. apply path_eqb_eq in Hf2.
    apply vlist_spec in Hf1 as [Hf1 [_ Hf3]]; auto. cbn [length] in Hf3. unfold dsel in Hf3.
    rewrite matches_node_path, Hf2 in Hf3 by auto. apply matches_path_ematch in Hf3; auto. }
  destruct (data_at (sv_tree svp) q) as [v|] eqn:Hdq.
  - unfold data_at in Hdq. destruct (find_node (sv_tree svp) q) as [nq|] eqn:Hfq; [|discriminate].
    cbn in Hdq. inversion Hdq; subst v. clear Hdq.
    pose proof (find_node_some _ _ _ Hfq) as [Hnq Hpq].
    destruct (exp_with E q (Some (n_data nq))) as [v'|] eqn:Eexp.
    + (* selected by the subscriptions *)
      assert (v' = n_data nq).
      { unfold exp_with in Eexp. destruct (matches_path E q (Some (n_data nq))); congruence. }
      subst v'. apply exp_with_some in Eexp as [e [He Hm]]; auto.
      destruct (find _ (vlist (sv_tree svp) Mf [] true)) as [n0|] eqn:Ef.
      * destruct (Hfound n0 eq_refl) as [H1 [H2 _]].
        assert (n0 = nq) by (destruct Htp as [Hndt _]; apply (node_eq_by_path (sv_tree svp)); auto; congruence).
        now subst n0.
      * (* not fetched: then the selecting entry is one the Message did not touch *)
        apply (K2 e (n_data nq)); auto.
        intros HT. apply in_rev in HT. unfold fixed in HT. apply in_map_iff in HT as [sf [Hsf1 Hsf2]].
        assert (e = mkEntry (fix_path (fst sf)) (snd sf)).
        { apply (entries_unique E); auto. }
        assert (HinVl : In nq (vlist (sv_tree svp) Mf [] true)).
        { apply vlist_spec; auto. split; [auto|split; [exists (n_path nq); split; [|reflexivity]|]].
          - destruct Htp as [_ [Hne' _]]. now apply Hne'.
          - cbn [length]. unfold dsel. rewrite matches_node_path by auto. apply matches_path_ematch; auto.
            exists e. split; [apply HMf; eauto|now rewrite Hpq]. }
        pose proof (find_none _ _ Ef nq HinVl) as Hc. cbn in Hc. rewrite Hpq, path_eqb_refl, Hown in Hc. discriminate.
    + (* not selected: nothing is fetched, nothing was held *)
      destruct (find _ (vlist (sv_tree svp) Mf [] true)) as [n0|] eqn:Ef; [|now apply K1].
      exfalso. destruct (Hfound n0 eq_refl) as [H1 [H2 [x [Hx Hm]]]].
      assert (n0 = nq) by (destruct Htp as [Hndt _]; apply (node_eq_by_path (sv_tree svp)); auto; congruence).
      subst n0. apply HMf in Hx as [sf [Hsf1 Hsf2]]. subst x.
      rewrite exp_with_none in Eexp by auto. rewrite (Eexp _ (HRp sf Hsf1)) in Hm. discriminate.
  - (* no node at q *)
    destruct (find _ (vlist (sv_tree svp) Mf [] true)) as [n0|] eqn:Ef; [|now apply K1].
    exfalso. destruct (Hfound n0 eq_refl) as [H1 [H2 _]].
    unfold data_at in Hdq. rewrite <- H2, (find_node_in _ _ (proj1 Htp) H1) in Hdq. discriminate.
Qed.

End SubJ.
