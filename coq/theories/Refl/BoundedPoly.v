(* Refl/BoundedPoly.v -- C07: the polynomial bound.  [csize] / [bsize] measure a command (path clauses, keys,
   subscriptions, sub-commands); with z the size of the command, NT the number of nodes, S the node weight (nodes +
   subscriber-table entries), n the number of sessions of the state the command arrives in, ONE handler call
     adds at most z nodes, at most z*(NT+z+n+1) node weight, and at most z*(S + z*(NT+z+n+1) + NT + 2n+1) items
   to the PR_RESULT_DATAITEMS Messages held by the server ([univ]); so the heaviest outgoing Message any jettison pass of
   the handler meets ([hpeak], the fuel the handler needs) is bounded by the heaviest Message already queued or the
   items already held plus that cubic polynomial: [hpeak_poly]. *)
From Coq Require Import List NArith ZArith Bool Arith Lia.
From Muscle Require Import Gen.Consts Refl.Base Refl.Tree Refl.Matcher Refl.Traverse Refl.Session Refl.Server
  Refl.Bounded Refl.BoundedSpec Refl.BoundedProofs Refl.BoundedInv Refl.BoundedServe Refl.BoundedLoops Refl.BoundedCount Refl.BoundedCost.
Import ListNotations.

(* ------------------------------------------------------------------ arithmetic *)

Definition Bf (z NT n : nat) : nat := z * (NT + z + n + 1).
Definition Gf (z NT S n : nat) : nat := z * (S + z * (NT + z + n + 1) + NT + 2 * n + 1).

Lemma Bf_mono : forall z NT NT' n, NT <= NT' -> Bf z NT n <= Bf z NT' n.
Proof. intros. unfold Bf. apply Nat.mul_le_mono_l. lia. Qed.

Lemma Gf_mono : forall z NT NT' S S' n, NT <= NT' -> S <= S' -> Gf z NT S n <= Gf z NT' S' n.
Proof.
  intros z NT NT' S S' n H H0. unfold Gf. apply Nat.mul_le_mono_l.
  pose proof (Nat.mul_le_mono_l (NT + z + n + 1) (NT' + z + n + 1) z ltac:(lia)). lia.
Qed.

Lemma Bf_comp : forall z1 z2 NT NT1 n, NT1 <= NT + z1 -> Bf z1 NT n + Bf z2 NT1 n <= Bf (z1 + z2) NT n.
Proof. intros z1 z2 NT NT1 n H. pose proof (Bf_mono z2 NT1 (NT + z1) n H). unfold Bf in *. nia. Qed.

Lemma Gf_comp : forall z1 z2 NT NT1 S S1 n, NT1 <= NT + z1 -> S1 <= S + Bf z1 NT n ->
  Gf z1 NT S n + Gf z2 NT1 S1 n <= Gf (z1 + z2) NT S n.
Proof.
  intros z1 z2 NT NT1 S S1 n H H0. pose proof (Gf_mono z2 NT1 (NT + z1) S1 (S + Bf z1 NT n) n H H0).
  unfold Gf, Bf in *. nia.
Qed.

Lemma Gf_zmono : forall z z' NT S n, z <= z' -> Gf z NT S n <= Gf z' NT S n.
Proof.
  intros z z' NT S n H. unfold Gf. apply Nat.mul_le_mono; [exact H|].
  pose proof (Nat.mul_le_mono z z' (NT + z + n + 1) (NT + z' + n + 1) H ltac:(lia)). lia.
Qed.

Section Poly.
Context {M : MatchOps}.
Variable fx : fixes.

(* ------------------------------------------------------------------ sizes of commands *)

Fixpoint csize (c : cmd) : nat :=
  match c with
  | CSetData _ items => 1 + list_sum (map (fun it => 1 + length (fst it)) items)
  | CRemoveData _ _ => 1
  | CSubscribe _ subs => 1 + length subs
  | CUnsubscribe subs => 1 + length subs
  | CSetMax _ => 1
  | CResetMax => 1
  | CGetData _ => 1
  | CBatch l => 1 + (fix go (l : list cmd) : nat := match l with [] => 0 | c' :: r => csize c' + go r end) l
  end.

Definition univ (z : nat) (sv sv' : server) : Prop :=
  step_ok z (Bf z (length (sv_tree sv)) (NS sv)) (Gf z (length (sv_tree sv)) (SZ (sv_tree sv)) (NS sv)) sv sv'.

Lemma univ_of_step : forall a b g z sv sv', a <= z -> b <= Bf z (length (sv_tree sv)) (NS sv) ->
  g <= Gf z (length (sv_tree sv)) (SZ (sv_tree sv)) (NS sv) -> step_ok a b g sv sv' -> univ z sv sv'.
Proof. intros. unfold univ. eapply step_ok_weaken; eauto. Qed.

Lemma univ_trans : forall z1 z2 sv sv1 sv2, univ z1 sv sv1 -> univ z2 sv1 sv2 -> univ (z1 + z2) sv sv2.
Proof.
  intros z1 z2 sv sv1 sv2 H1 H2. unfold univ in *.
  pose proof (step_ok_trans _ _ _ _ _ _ _ _ _ H1 H2) as H3.
  destruct H1 as [K1 [_ [K3 [K4 _]]]]. rewrite (NS_ids sv sv1 K1) in H3.
  eapply step_ok_weaken; [| | |exact H3]; [lia|apply Bf_comp; exact K3|apply Gf_comp; [exact K3|exact K4]].
Qed.

Lemma univ_refl : forall z sv, good_sv sv -> univ z sv sv.
Proof. intros z sv Hg. eapply univ_of_step; [| | |apply step_ok_refl; exact Hg]; lia. Qed.

Lemma univ_zmono : forall z z' sv sv', z <= z' -> univ z sv sv' -> univ z' sv sv'.
Proof.
  intros z z' sv sv' H Hu. unfold univ in *. eapply step_ok_weaken; [exact H| | |exact Hu].
  - unfold Bf. apply Nat.mul_le_mono; lia.
  - apply Gf_zmono. exact H.
Qed.

(* ------------------------------------------------------------------ the handlers of Server.v *)

Lemma set_data_node_cost : forall sv ss rel d flags, good_sv sv ->
  step_ok (length rel) (length rel * (1 + NS sv)) (SZ (sv_tree sv) + length rel * (2 * NS sv + 1)) sv (set_data_node sv ss rel d flags).
Proof. intros. unfold set_data_node. apply set_data_loop_cost. assumption. Qed.

Lemma setdata_items_cost : forall (items : list (list name * payload)) flags s sv, good_sv sv ->
  let Z := list_sum (map (fun it => length (fst it)) items) in
  let K := length items in
  step_ok Z (Z * (1 + NS sv)) (K * (SZ (sv_tree sv) + Z * (1 + NS sv)) + Z * (2 * NS sv + 1)) sv
    (fold_left (fun sv' it => match get_session sv' s with
                              | Some ss' => match fst it with [] => sv' | _ => set_data_node sv' ss' (fst it) (snd it) flags end
                              | None => sv'
                              end) items sv).
Proof.
  induction items as [|it items IH]; intros flags s sv Hg; cbv zeta; cbn [fold_left map length].
  - cbn. apply step_ok_refl. exact Hg.
  - rewrite list_sum_cons.
    set (sv1 := match get_session sv s with
                | Some ss' => match fst it with [] => sv | _ => set_data_node sv ss' (fst it) (snd it) flags end
                | None => sv end).
    assert (H1 : step_ok (length (fst it)) (length (fst it) * (1 + NS sv)) (SZ (sv_tree sv) + length (fst it) * (2 * NS sv + 1)) sv sv1).
    { subst sv1. destruct (get_session sv s) as [ss'|]; [|eapply step_ok_weaken; [| | |apply step_ok_refl; exact Hg]; lia].
      destruct (fst it) as [|k r] eqn:E; [eapply step_ok_weaken; [| | |apply step_ok_refl; exact Hg]; lia|].
      rewrite <- E. apply set_data_node_cost. exact Hg. }
    specialize (IH flags s sv1 (good_step _ _ _ _ _ Hg H1)). cbv zeta in IH.
    pose proof (step_ok_trans _ _ _ _ _ _ _ _ _ H1 IH) as H2.
    assert (Hn : NS sv1 = NS sv) by (apply NS_ids; apply H1). rewrite Hn in H2.
    destruct H1 as [_ [_ [_ [Hs _]]]].
    eapply step_ok_weaken; [| | |exact H2]; try lia; nia.
Qed.

Lemma list_sum_succ : forall (A : Type) (f : A -> nat) (l : list A),
  list_sum (map (fun a => 1 + f a) l) = length l + list_sum (map f l).
Proof. intros A f l. induction l as [|a l IH]; cbn [map length]; [reflexivity|]. rewrite !list_sum_cons. lia. Qed.

Lemma fold_step_const : forall (B : Type) (f : server -> B -> server) (l : list B) (b g : nat) (sv : server),
  good_sv sv ->
  (forall acc x, good_sv acc -> length (sv_tree acc) <= length (sv_tree sv) -> step_ok 0 b g acc (f acc x)) ->
  step_ok 0 (length l * b) (length l * g) sv (fold_left f l sv).
Proof.
  intros B f l b g sv Hg Hf.
  assert (H : forall acc, good_sv acc -> length (sv_tree acc) <= length (sv_tree sv) ->
                          step_ok 0 (length l * b) (length l * g) acc (fold_left f l acc)).
  { induction l as [|x l IH]; intros acc Ha Hl; cbn [fold_left length]; [apply step_ok_refl; exact Ha|].
    pose proof (Hf acc x Ha Hl) as H1.
    assert (Hl1 : length (sv_tree (f acc x)) <= length (sv_tree sv)) by (destruct H1 as [_ [_ [H3 _]]]; lia).
    pose proof (step_ok_trans _ _ _ _ _ _ _ _ _ H1 (IH (f acc x) (good_step _ _ _ _ _ Ha H1) Hl1)) as H2.
    eapply step_ok_weaken; [| | |exact H2]; lia. }
  apply H; [exact Hg|lia].
Qed.

Lemma step_push_all : forall sv, good_sv sv -> step_ok 0 0 0 sv (push_all sv).
Proof.
  intros sv [Hi Hp]. unfold step_ok, paths. rewrite ids_push_all, tree_push_all, tw_push_all. repeat split; try lia; assumption.
Qed.

(* every command of Server.v *)
Lemma handle_cost : forall c nest sv s, good_sv sv -> univ (csize c) sv (handle fx nest sv s c).
Proof.
  induction c as [flags items|quiet keys|quiet subs|subs|n| |keys|l IHl] using cmd_ind'; intros nest sv s Hg;
    cbn [handle]; destruct (get_session sv s) as [ss|]; try (apply univ_refl; exact Hg).
  - (* SETDATA *)
    pose proof (setdata_items_cost items flags s sv Hg) as H. cbv zeta in H. cbn [csize]. rewrite list_sum_succ.
    eapply univ_of_step; [| | |exact H]; unfold Bf, Gf; nia.
  - (* REMOVEDATA *)
    pose proof (shrink_step _ _ (do_remove_data_shrink fx sv ss keys quiet Hg)) as H. cbn [csize].
    eapply univ_of_step; [| | |exact H]; unfold Bf, Gf; nia.
  - (* SETPARAMETERS: subscriptions, then the initial values *)
    pose proof (fold_step_const _ (fun sv' sf => subscribe_one fx sv' s sf) subs (length (sv_tree sv)) (length (sv_tree sv)) sv Hg) as H1.
    specialize (H1 ltac:(intros acc x Ha Hl; eapply step_ok_weaken; [| | |apply subscribe_one_cost; exact Ha]; lia)).
    set (sv1 := fold_left (fun sv' sf => subscribe_one fx sv' s sf) subs sv) in *.
    cbn [csize].
    destruct quiet; [eapply univ_of_step; [| | |exact H1]; unfold Bf, Gf; nia|].
    destruct subs as [|sf0 subs']; [eapply univ_of_step; [| | |exact H1]; unfold Bf, Gf; nia|].
    assert (Hg1 : good_sv sv1) by (exact (good_step _ _ _ _ _ Hg H1)).
    assert (Hl1 : length (sv_tree sv1) <= length (sv_tree sv)) by (destruct H1 as [_ [_ [H3 _]]]; lia).
    set (sv2 := if fx_push fx then push_all sv1 else sv1).
    assert (H2 : step_ok 0 0 0 sv1 sv2) by (subst sv2; destruct (fx_push fx); [apply step_push_all|apply step_ok_refl]; exact Hg1).
    assert (Hl2 : length (sv_tree sv2) <= length (sv_tree sv)) by (destruct H2 as [_ [_ [H3 _]]]; lia).
    pose proof (do_get_data_cost fx sv2 s (sf0 :: subs') (good_step _ _ _ _ _ Hg1 H2)) as H3.
    pose proof (step_ok_trans _ _ _ _ _ _ _ _ _ H1 (step_ok_trans _ _ _ _ _ _ _ _ _ H2 H3)) as H4.
    eapply univ_of_step; [| | |exact H4]; unfold Bf, Gf; cbn [length] in *; nia.
  - (* REMOVEPARAMETERS *)
    pose proof (fold_step_const _ (fun sv' sp => unsubscribe_one fx sv' s sp) subs (length (sv_tree sv)) 0 sv Hg) as H1.
    specialize (H1 ltac:(intros acc x Ha Hl; eapply step_ok_weaken; [| | |apply unsubscribe_one_cost; exact Ha]; lia)).
    cbn [csize]. eapply univ_of_step; [| | |exact H1]; unfold Bf, Gf; nia.
  - eapply univ_of_step; [| | |apply (step_upd_same sv s (fun x => set_max x (u32_of_Z n)) Hg); reflexivity]; lia.
  - eapply univ_of_step; [| | |apply (step_upd_same sv s (fun x => set_max x default_max_items) Hg); reflexivity]; lia.
  - (* GETDATA *)
    pose proof (do_get_data_cost fx sv s keys Hg) as H. cbn [csize]. eapply univ_of_step; [| | |exact H]; unfold Bf, Gf; nia.
  - (* BATCH *)
    cbn [csize]. destruct (Nat.ltb nest max_batch_nest); [|apply univ_refl; exact Hg].
    apply (univ_zmono ((fix go (l : list cmd) : nat := match l with [] => 0 | c' :: r => csize c' + go r end) l)); [lia|].
    revert sv Hg. induction IHl as [|c' r Hc' _ IHr]; intros sv Hg.
    + apply univ_refl. exact Hg.
    + pose proof (Hc' (S nest) sv s Hg) as H1.
      assert (Hg1 : good_sv (handle fx (S nest) sv s c')) by (exact (good_step _ _ _ _ _ Hg H1)).
      pose proof (step_push_all _ Hg1) as H2.
      assert (H12 : univ (csize c') sv (push_all (handle fx (S nest) sv s c'))).
      { unfold univ in *. pose proof (step_ok_trans _ _ _ _ _ _ _ _ _ H1 H2) as H3. eapply step_ok_weaken; [| | |exact H3]; lia. }
      exact (univ_trans _ _ _ _ _ H12 (IHr _ (good_step _ _ _ _ _ Hg H12))).
Qed.

(* ------------------------------------------------------------------ the outgoing queue of one session *)

Definition QM (b : bserver) (w : sid) : nat := qweight (queue_of b w).

Lemma list_max_cons : forall a l, list_max (a :: l) = Nat.max a (list_max l).
Proof. reflexivity. Qed.

Lemma qweight_cons : forall x q, qweight (x :: q) = Nat.max (omsg_weight x) (qweight q).
Proof. reflexivity. Qed.

Lemma qweight_app : forall a b, qweight (a ++ b) = Nat.max (qweight a) (qweight b).
Proof. intros a b. unfold qweight. rewrite map_app, list_max_app. reflexivity. Qed.

Lemma qm_map : forall (b : bserver) (h : gw -> gw) (K : nat) (sv' : server) (last : list (sid * list omsg)) (w : sid),
  (forall g, g_sid (h g) = g_sid g) -> (forall g, qweight (g_q (h g)) <= Nat.max (qweight (g_q g)) K) ->
  QM (mkB sv' (map h (b_gws b)) last) w <= Nat.max (QM b w) K.
Proof.
  intros b h K sv' last w Hs Hk. unfold QM, queue_of. cbn [b_gws]. rewrite find_gw_map by exact Hs.
  destruct (find_gw (b_gws b) w) as [g|]; cbn [option_map]; [apply Hk|cbn; lia].
Qed.

Lemma out_weight_le_tw : forall sv ss d, In ss (sv_sessions sv) -> In d (s_out ss) -> di_weight d <= tw sv.
Proof.
  intros sv ss d Hs Hd. unfold tw.
  assert (H1 : di_weight d <= sw ss).
  { unfold sw, outw. assert (H : di_weight d <= list_sum (map di_weight (s_out ss))).
    { clear Hs. induction (s_out ss) as [|x l IH]; [contradiction|]. cbn [map]. rewrite list_sum_cons.
      destruct Hd as [->|Hd]; [lia|specialize (IH Hd); lia]. }
    lia. }
  assert (H2 : sw ss <= list_sum (map sw (sv_sessions sv))).
  { clear Hd H1. induction (sv_sessions sv) as [|x l IH]; [contradiction|]. cbn [map]. rewrite list_sum_cons.
    destruct Hs as [->|Hs]; [lia|specialize (IH Hs); lia]. }
  lia.
Qed.

Lemma find_session_In : forall l s ss, find_session l s = Some ss -> In ss l.
Proof.
  induction l as [|x l IH]; intros s ss H; cbn [find_session] in H; [discriminate|].
  destruct (N.eqb (s_id x) s); [inversion H; left; reflexivity|right; apply (IH s ss H)].
Qed.

Lemma sw_clear_out : forall x : session, sw (clear_out x) <= sw x.
Proof. intros x. unfold sw, clear_out. cbn [s_pending s_out]. unfold outw at 1. cbn. lia. Qed.

Lemma tw_absorb : forall b sv', tw (b_sv (absorb b sv')) <= tw sv'.
Proof.
  intros b sv'. unfold absorb, tw. cbn [b_sv sv_sessions]. rewrite map_map.
  induction (sv_sessions sv') as [|x l IH]; cbn [map]; [lia|]. rewrite !list_sum_cons. pose proof (sw_clear_out x). lia.
Qed.

(* a command's effect on the server state and on session w's outgoing queue *)
Definition buniv (z : nat) (w : sid) (b b' : bserver) : Prop :=
  univ z (b_sv b) (b_sv b') /\
  QM b' w <= Nat.max (QM b w) (tw (b_sv b) + Gf z (length (sv_tree (b_sv b))) (SZ (sv_tree (b_sv b))) (NS (b_sv b))).

Lemma buniv_absorb : forall z w b sv', univ z (b_sv b) sv' -> buniv z w b (absorb b sv').
Proof.
  intros z w b sv' Hu. split.
  - destruct Hu as [H1 [H2 [H3 [H4 H5]]]]. unfold univ, step_ok, paths in *. rewrite ids_absorb.
    pose proof (tw_absorb b sv'). unfold absorb. cbn [b_sv sv_tree]. repeat split; try assumption.
    unfold absorb in H. cbn [b_sv] in H. lia.
  - destruct Hu as [_ [_ [_ [_ H5]]]]. unfold absorb.
    eapply Nat.le_trans; [apply qm_map|].
    + intros g. destruct (find_session (sv_sessions sv') (g_sid g)); reflexivity.
    + intros g. instantiate (1 := tw sv'). destruct (find_session (sv_sessions sv') (g_sid g)) as [ss|] eqn:Hf; cbn [g_q]; [|lia].
      rewrite qweight_app. apply Nat.max_le_compat_l.
      unfold qweight. apply find_session_In in Hf. clear -Hf.
      assert (H : forall l, (forall d, In d l -> In d (s_out ss)) -> list_max (map omsg_weight (map ODataItems l)) <= tw sv').
      { induction l as [|d l IH]; intros Hl; [cbn; lia|]. cbn [map]. rewrite list_max_cons.
        apply Nat.max_lub; [cbn [omsg_weight]; apply (out_weight_le_tw sv' ss d Hf); apply Hl; left; reflexivity|].
        apply IH. intros d0 Hd0. apply Hl. right. exact Hd0. }
      apply H. auto.
    + lia.
Qed.

Lemma buniv_trans : forall z1 z2 w b b1 b2, buniv z1 w b b1 -> buniv z2 w b1 b2 -> buniv (z1 + z2) w b b2.
Proof.
  intros z1 z2 w b b1 b2 [U1 Q1] [U2 Q2]. split; [exact (univ_trans _ _ _ _ _ U1 U2)|].
  destruct U1 as [K1 [_ [K3 [K4 K5]]]]. rewrite (NS_ids _ _ K1) in Q2.
  pose proof (Gf_comp z1 z2 _ _ _ _ (NS (b_sv b)) K3 K4) as Hc.
  pose proof (Gf_zmono z1 (z1 + z2) (length (sv_tree (b_sv b))) (SZ (sv_tree (b_sv b))) (NS (b_sv b)) ltac:(lia)). lia.
Qed.

Lemma buniv_refl : forall z w b, good_sv (b_sv b) -> buniv z w b b.
Proof. intros z w b Hg. split; [apply univ_refl; exact Hg|lia]. Qed.

Lemma buniv_zmono : forall z z' w b b', z <= z' -> buniv z w b b' -> buniv z' w b b'.
Proof.
  intros z z' w b b' H [U Q]. split; [exact (univ_zmono _ _ _ _ H U)|].
  pose proof (Gf_zmono z z' (length (sv_tree (b_sv b))) (SZ (sv_tree (b_sv b))) (NS (b_sv b)) H). lia.
Qed.

(* editing a gateway queue without making any Message heavier *)
Lemma buniv_upd_gw : forall z w b s (f : gw -> gw), good_sv (b_sv b) ->
  (forall g, g_sid (f g) = g_sid g) -> (forall g, qweight (g_q (f g)) <= qweight (g_q g)) -> buniv z w b (upd_gw b s f).
Proof.
  intros z w b s f Hg Hs Hq. split; [unfold upd_gw; cbn [b_sv]; apply univ_refl; exact Hg|].
  unfold upd_gw. eapply Nat.le_trans; [apply (qm_map b _ 0)|lia].
  - intros g. destruct (N.eqb (g_sid g) s); [apply Hs|reflexivity].
  - intros g. destruct (N.eqb (g_sid g) s); [specialize (Hq g); lia|lia].
Qed.

Lemma qweight_remove_nth : forall i q, qweight (remove_nth i q) <= qweight q.
Proof.
  induction i as [|i IH]; intros [|x q]; unfold remove_nth.
  - cbn. lia.
  - cbn [firstn app]. change (skipn 1 (x :: q)) with q. rewrite qweight_cons. lia.
  - cbn. lia.
  - cbn [firstn app]. change (skipn (S (S i)) (x :: q)) with (skipn (S i) q). rewrite !qweight_cons.
    specialize (IH q). unfold remove_nth in IH. lia.
Qed.

Lemma qweight_replace_nth : forall i q x, qweight (replace_nth i q x) <= Nat.max (qweight q) (omsg_weight x).
Proof.
  intros i q. revert i. induction q as [|y q IH]; intros i x; [destruct i; apply Nat.le_max_l|].
  destruct i as [|i]; cbn [replace_nth]; rewrite !qweight_cons; [lia|]. specialize (IH i x). lia.
Qed.

Lemma nth_error_weight : forall q i x, nth_error q i = Some x -> omsg_weight x <= qweight q.
Proof. intros q i x H. apply qweight_ge. apply (nth_error_In q i H). Qed.

Lemma filter_length_le1 : forall (A : Type) (f : A -> bool) (l : list A), length (filter f l) <= length l.
Proof. intros A f l. induction l as [|a l IH]; cbn [filter length]; [lia|]. destruct (f a); cbn [length]; lia. Qed.

Lemma msg_spec_weight : forall m d, di_weight (msg_spec m d) <= di_weight d.
Proof.
  intros m d. unfold msg_spec, di_weight. cbn [di_removed di_sets].
  pose proof (filter_length_le1 _ (keep_removed m) (di_removed d)).
  assert (H2 : sets_weight (flat_map (field_spec m) (di_sets d)) <= sets_weight (di_sets d)).
  { unfold sets_weight. induction (di_sets d) as [|[p vs] l IH]; cbn [flat_map map]; [lia|].
    rewrite map_app, list_sum_app, list_sum_cons. cbn [snd].
    assert (H3 : list_sum (map (fun pv : path * list payload => length (snd pv)) (field_spec m (p, vs))) <= length vs).
    { rewrite field_spec_vals. unfold field_vals.
      destruct (N.ltb 0 (m_nfilters m)).
      - pose proof (filter_length_le1 _ (keep_value m p) vs). destruct (filter (keep_value m p) vs); cbn [map snd length] in *; [cbn; lia|].
        rewrite list_sum_cons. cbn [list_sum fold_right snd]. lia.
      - destruct (matches_path m p None); [cbn; lia|]. destruct vs; cbn [map snd]; [cbn; lia|]. rewrite list_sum_cons. cbn [list_sum fold_right snd]. lia. }
    lia. }
  lia.
Qed.

Lemma jq_spec_weight : forall om q, qweight (jq_spec om q) <= qweight q.
Proof.
  intros om q. unfold jq_spec. induction q as [|x q IH]; cbn [flat_map]; [lia|].
  rewrite qweight_app, qweight_cons.
  assert (H : qweight (omsg_spec om x) <= omsg_weight x).
  { destruct x as [d| | |]; cbn [omsg_spec]; try (unfold qweight; cbn; lia).
    destruct (di_has_names _); [|cbn; lia]. rewrite qweight_cons. cbn [omsg_weight]. change (qweight []) with 0.
    destruct om as [m|]; [pose proof (msg_spec_weight m d); lia|cbn; lia]. }
  lia.
Qed.

Lemma jett_trees_from_weight : forall pat n q, qweight (jett_trees_from pat n q) <= qweight q.
Proof.
  intros pat n. induction n as [|i IH]; intros q; cbn [jett_trees_from]; [lia|].
  destruct (nth_error q i) as [[d|id roots|t|c0 w0]|]; try apply IH.
  match goal with |- context [if ?c then _ else _] => destruct c end; [|apply IH].
  eapply Nat.le_trans; [apply IH|apply qweight_remove_nth].
Qed.

Lemma jettison_trees_weight : forall ids q, qweight (jettison_trees ids q) <= qweight q.
Proof.
  intros ids q. unfold jettison_trees, jett_trees_one. destruct ids as [l|]; [|apply jett_trees_from_weight].
  revert q. induction l as [|c l IH]; intros q; cbn [fold_left]; [lia|].
  eapply Nat.le_trans; [apply IH|apply jett_trees_from_weight].
Qed.

(* ------------------------------------------------------------------ SETDATA with ENABLESUPERCEDE, step by step *)

Definition bstep_ok (a bb g : nat) (w : sid) (b b' : bserver) : Prop :=
  step_ok a bb g (b_sv b) (b_sv b') /\ QM b' w <= Nat.max (QM b w) (tw (b_sv b) + g).

Lemma bstep_refl : forall w b, good_sv (b_sv b) -> bstep_ok 0 0 0 w b b.
Proof. intros w b Hg. split; [apply step_ok_refl; exact Hg|lia]. Qed.

Lemma bstep_weaken : forall a bb g a' bb' g' w b b', a <= a' -> bb <= bb' -> g <= g' -> bstep_ok a bb g w b b' -> bstep_ok a' bb' g' w b b'.
Proof. intros a bb g a' bb' g' w b b' Ha Hb Hg0 [H1 H2]. split; [eapply step_ok_weaken; eauto|lia]. Qed.

Lemma bstep_trans : forall a1 b1 g1 a2 b2 g2 w b x y,
  bstep_ok a1 b1 g1 w b x -> bstep_ok a2 b2 g2 w x y -> bstep_ok (a1 + a2) (b1 + b2) (g1 + g2) w b y.
Proof.
  intros a1 b1 g1 a2 b2 g2 w b x y [S1 Q1] [S2 Q2]. split; [exact (step_ok_trans _ _ _ _ _ _ _ _ _ S1 S2)|].
  destruct S1 as [_ [_ [_ [_ T1]]]]. lia.
Qed.

Lemma bstep_absorb : forall a bb g w b sv', step_ok a bb g (b_sv b) sv' -> bstep_ok a bb g w b (absorb b sv').
Proof.
  intros a bb g w b sv' Hs. split.
  - destruct Hs as [H1 [H2 [H3 [H4 H5]]]]. unfold step_ok, paths in *. rewrite ids_absorb.
    pose proof (tw_absorb b sv') as H. unfold absorb in *. cbn [b_sv sv_tree] in *. repeat split; try assumption. lia.
  - destruct Hs as [_ [_ [_ [_ H5]]]]. unfold absorb.
    eapply Nat.le_trans; [apply (qm_map b _ (tw sv'))|lia].
    + intros g0. destruct (find_session (sv_sessions sv') (g_sid g0)); reflexivity.
    + intros g0. destruct (find_session (sv_sessions sv') (g_sid g0)) as [ss|] eqn:Hf; cbn [g_q]; [|lia].
      rewrite qweight_app. apply Nat.max_le_compat_l.
      unfold qweight. apply find_session_In in Hf. clear -Hf.
      assert (H : forall l, (forall d, In d l -> In d (s_out ss)) -> list_max (map omsg_weight (map ODataItems l)) <= tw sv').
      { induction l as [|d l IH]; intros Hl; [cbn; lia|]. cbn [map]. rewrite list_max_cons.
        apply Nat.max_lub; [cbn [omsg_weight]; apply (out_weight_le_tw sv' ss d Hf); apply Hl; left; reflexivity|].
        apply IH. intros d0 Hd0. apply Hl. right. exact Hd0. }
      apply H. auto.
Qed.

Lemma bstep_upd_gw : forall w b s (f : gw -> gw), good_sv (b_sv b) ->
  (forall g, g_sid (f g) = g_sid g) -> (forall g, qweight (g_q (f g)) <= qweight (g_q g)) -> bstep_ok 0 0 0 w b (upd_gw b s f).
Proof.
  intros w b s f Hg Hs Hq. split; [unfold upd_gw; cbn [b_sv]; apply step_ok_refl; exact Hg|].
  unfold upd_gw. eapply Nat.le_trans; [apply (qm_map b _ 0)|lia].
  - intros g. destruct (N.eqb (g_sid g) s); [apply Hs|reflexivity].
  - intros g. destruct (N.eqb (g_sid g) s); [specialize (Hq g); lia|lia].
Qed.

Lemma bstep_with_sv : forall a bb g w b sv', step_ok a bb g (b_sv b) sv' -> bstep_ok a bb g w b (with_sv b sv').
Proof. intros a bb g w b sv' Hs. split; [exact Hs|unfold QM, queue_of, with_sv; cbn [b_gws]; lia]. Qed.

Lemma qm_set_queue : forall b s q' w, QM (set_queue b s q') w <= Nat.max (QM b w) (if N.eqb w s then qweight q' else 0).
Proof.
  intros b s q' w. unfold QM, queue_of, set_queue, upd_gw. cbn [b_gws].
  rewrite find_gw_map by (intros g; destruct (N.eqb (g_sid g) s); reflexivity).
  destruct (find_gw (b_gws b) w) as [g|] eqn:Hf; cbn [option_map]; [|cbn; lia].
  rewrite (find_gw_sid _ _ _ Hf). destruct (N.eqb w s); cbn [g_q]; lia.
Qed.

(* replacing session s's queue by one that is no heavier than it was *)
Lemma bstep_set_queue : forall w b s q', good_sv (b_sv b) -> qweight q' <= qweight (queue_of b s) -> bstep_ok 0 0 0 w b (set_queue b s q').
Proof.
  intros w b s q' Hg Hq. split; [unfold set_queue, upd_gw; cbn [b_sv]; apply step_ok_refl; exact Hg|].
  pose proof (qm_set_queue b s q' w) as H. destruct (N.eqb w s) eqn:E; [apply N.eqb_eq in E; subst w; unfold QM in *; lia|lia].
Qed.

Lemma sets_weight_filter : forall (f : path * list payload -> bool) l, sets_weight (filter f l) <= sets_weight l.
Proof.
  intros f l. unfold sets_weight. induction l as [|x l IH]; cbn [filter map]; [lia|].
  destruct (f x); cbn [map]; rewrite ?list_sum_cons; lia.
Qed.

Lemma prune_di_weight : forall d p d', prune_di d p = Some d' -> di_weight d' <= di_weight d.
Proof.
  intros d p d' H. unfold prune_di in H. destruct (di_has_set d p); [|discriminate]. inversion H. unfold di_weight. cbn [di_removed di_sets].
  pose proof (sets_weight_filter (fun qv => negb (path_eqb (fst qv) p)) (di_sets d)). lia.
Qed.

Lemma supersede_scan_weight : forall p n q, qweight (supersede_scan p n q) <= qweight q.
Proof.
  intros p n. induction n as [|i IH]; intros q; cbn [supersede_scan]; [lia|].
  destruct (nth_error q i) as [[d|id roots|t|c0 w0]|] eqn:E; try apply IH.
  destruct (prune_di d p) as [d'|] eqn:Ep; [|apply IH].
  destruct (di_has_names d'); [|apply qweight_remove_nth].
  eapply Nat.le_trans; [apply qweight_replace_nth|]. cbn [omsg_weight].
  pose proof (prune_di_weight d p d' Ep). pose proof (nth_error_weight q i _ E) as Hw. cbn [omsg_weight] in Hw. lia.
Qed.

Lemma prune_for_cost : forall w b s p, good_sv (b_sv b) -> bstep_ok 0 0 0 w b (prune_for b s p).
Proof.
  intros w b s p Hg. unfold prune_for. destruct (get_session (b_sv b) s) as [ss|] eqn:Hs; [|apply bstep_refl; exact Hg].
  destruct (s_pending ss) as [pd|] eqn:Ep.
  - destruct (prune_di pd p) as [pd'|] eqn:Ed.
    + apply bstep_with_sv. destruct Hg as [Hi Hp]. unfold step_ok, paths.
      rewrite ids_upd_session by (intros; reflexivity). cbn [upd_session sv_tree].
      split; [reflexivity|]. split; [exact Hp|]. split; [lia|]. split; [lia|].
      apply (tw_upd_le (b_sv b) s ss); [exact Hi|exact Hs|reflexivity|].
      unfold sw. cbn [set_pending s_pending s_out]. rewrite Ep. cbn [wopt]. pose proof (prune_di_weight pd p pd' Ed). lia.
    + apply bstep_set_queue; [exact Hg|apply supersede_scan_weight].
  - apply bstep_set_queue; [exact Hg|apply supersede_scan_weight].
Qed.

Lemma step_nca : forall sv s p d removed, good_sv sv -> step_ok 0 0 1 sv (node_changed_aux sv s p d removed).
Proof.
  intros sv s p d removed [Hi Hp]. unfold step_ok, paths. rewrite ids_node_changed_aux, tree_node_changed_aux.
  repeat split; try lia; try assumption. apply tw_node_changed_aux. exact Hi.
Qed.

Lemma bgood_step : forall a bb g w b b', good_sv (b_sv b) -> bstep_ok a bb g w b b' -> good_sv (b_sv b').
Proof. intros a bb g w b b' Hg [H _]. exact (good_step _ _ _ _ _ Hg H). Qed.

Lemma bnca_set_cost : forall w b s p d sup, good_sv (b_sv b) -> bstep_ok 0 0 1 w b (bnca_set b s p d sup).
Proof.
  intros w b s p d sup Hg. unfold bnca_set. cbv zeta.
  set (b1 := if sup then prune_for b s p else b).
  assert (H1 : bstep_ok 0 0 0 w b b1) by (subst b1; destruct sup; [apply prune_for_cost|apply bstep_refl]; exact Hg).
  pose proof (bstep_absorb 0 0 1 w b1 _ (step_nca (b_sv b1) s p d false (bgood_step _ _ _ _ _ _ Hg H1))) as H2.
  exact (bstep_trans _ _ _ _ _ _ _ _ _ _ H1 H2).
Qed.

Lemma bnode_changed_cost : forall w b s p d old sup, good_sv (b_sv b) -> bstep_ok 0 0 1 w b (bnode_changed b s p d old sup).
Proof.
  intros w b s p d old sup Hg. unfold bnode_changed.
  destruct (get_session (b_sv b) s) as [ss|]; [|eapply bstep_weaken; [| | |apply bstep_refl; exact Hg]; lia].
  cbv zeta.
  assert (Hrem : bstep_ok 0 0 1 w b (absorb b (node_changed_aux (b_sv b) s p d true))) by (apply bstep_absorb; apply step_nca; exact Hg).
  assert (Hid : bstep_ok 0 0 1 w b b) by (eapply bstep_weaken; [| | |apply bstep_refl; exact Hg]; lia).
  outer_if; [|apply bnca_set_cost; exact Hg].
  destruct old; repeat outer_if; try exact Hid; try exact Hrem; apply bnca_set_cost; exact Hg.
Qed.

Lemma bnotify_changed_cost : forall w b by_ p d old sup n, good_sv (b_sv b) -> find_node (sv_tree (b_sv b)) p = Some n ->
  bstep_ok 0 0 (length (n_subs n)) w b (bnotify_changed b by_ p d old sup).
Proof.
  intros w b by_ p d old sup n Hg Hf. unfold bnotify_changed. rewrite Hf.
  generalize (n_subs n). intros l. clear Hf. revert b Hg. induction l as [|kc l IH]; intros b Hg; cbn [fold_left length].
  - apply bstep_refl. exact Hg.
  - set (b1 := if N.eqb (fst kc) by_ then b else bnode_changed b (fst kc) p d old sup).
    assert (H1 : bstep_ok 0 0 1 w b b1).
    { subst b1. destruct (N.eqb (fst kc) by_); [eapply bstep_weaken; [| | |apply bstep_refl; exact Hg]; lia|apply bnode_changed_cost; exact Hg]. }
    pose proof (IH b1 (bgood_step _ _ _ _ _ _ Hg H1)) as H2.
    pose proof (bstep_trans _ _ _ _ _ _ _ _ _ _ H1 H2) as H3. eapply bstep_weaken; [| | |exact H3]; lia.
Qed.

Lemma bset_data_loop_cost : forall w cl b by_ pp d dc dov q sup, good_sv (b_sv b) ->
  bstep_ok (length cl) (length cl * (1 + NS (b_sv b))) (SZ (sv_tree (b_sv b)) + length cl * (2 * NS (b_sv b) + 1))
           w b (bset_data_loop b by_ pp cl d dc dov q sup).
Proof.
  intros w. induction cl as [|k rest IH]; intros b by_ pp d dc dov q sup Hg; cbn [bset_data_loop length].
  - eapply bstep_weaken; [| | |apply bstep_refl; exact Hg]; lia.
  - cbv zeta. pose proof Hg as [Hi Hp]. destruct (find_node (sv_tree (b_sv b)) (pp ++ [k])) as [n|] eqn:Hf.
    + destruct rest as [|k2 rest2].
      * destruct dov; [eapply bstep_weaken; [| | |apply bstep_refl; exact Hg]; lia|].
        set (sv1 := set_tree (b_sv b) (set_data (sv_tree (b_sv b)) (pp ++ [k]) d)).
        assert (S1 : step_ok 0 0 0 (b_sv b) sv1).
        { unfold step_ok, sv1, paths. cbn [set_tree sv_tree]. rewrite paths_set_data, SZ_set_data, length_set_data.
          repeat split; try lia; try reflexivity; try exact Hp. change (tw (b_sv b) <= tw (b_sv b) + 0). lia. }
        pose proof (bstep_with_sv 0 0 0 w b sv1 S1) as H1.
        destruct q; [eapply bstep_weaken; [| | |exact H1]; lia|].
        assert (Hf1 : exists n1, find_node (sv_tree sv1) (pp ++ [k]) = Some n1 /\ n_subs n1 = n_subs n).
        { unfold sv1. cbn [set_tree sv_tree]. unfold set_data, map_node. clear -Hf.
          induction (sv_tree (b_sv b)) as [|a t IHt]; cbn [find_node map] in *; [discriminate|].
          destruct (path_eqb (n_path a) (pp ++ [k])) eqn:E.
          - inversion Hf; subst a. cbn [n_path]. rewrite E. eexists. split; reflexivity.
          - rewrite E. apply IHt. exact Hf. }
        destruct Hf1 as [n1 [Hf1 Hs1]].
        pose proof (bnotify_changed_cost w (with_sv b sv1) by_ (pp ++ [k]) d (Some (n_data n)) sup n1 (bgood_step _ _ _ _ _ _ Hg H1) Hf1) as H2.
        pose proof (bstep_trans _ _ _ _ _ _ _ _ _ _ H1 H2) as H3.
        eapply bstep_weaken; [| | |exact H3]; try lia.
        apply find_node_sound in Hf. pose proof (nw_le_SZ _ _ (proj1 Hf)). unfold nw in *. rewrite Hs1. lia.
      * pose proof (IH b by_ (pp ++ [k]) d dc dov q sup Hg) as H.
        eapply bstep_weaken; [| | |exact H]; cbn [length]; lia.
    + destruct dc; [eapply bstep_weaken; [| | |apply bstep_refl; exact Hg]; lia|].
      outer_if; [eapply bstep_weaken; [| | |apply bstep_refl; exact Hg]; lia|].
      match goal with |- context [add_node (sv_tree (b_sv b)) ?nn] => set (newn := nn) end.
      set (sv1 := set_tree (b_sv b) (add_node (sv_tree (b_sv b)) newn)).
      assert (Hlen : length (n_subs newn) <= NS (b_sv b)) by (subst newn; cbn [n_subs]; apply new_node_table_len).
      assert (S1 : step_ok 1 (1 + NS (b_sv b)) 0 (b_sv b) sv1).
      { unfold step_ok, sv1, paths, add_node. cbn [set_tree sv_tree]. rewrite map_app, app_length, SZ_app. cbn [map length].
        split; [reflexivity|]. split.
        { apply NoDup_app_one; [exact Hp|]. subst newn. cbn [n_path]. apply find_node_none_paths. exact Hf. }
        split; [lia|]. split.
        { unfold SZ at 2. cbn [map]. rewrite list_sum_cons. cbn [list_sum fold_right]. unfold nw. lia. }
        change (tw (b_sv b) <= tw (b_sv b) + 0). lia. }
      assert (Hg1 : good_sv sv1) by (exact (good_step _ _ _ _ _ Hg S1)).
      assert (Hf1 : exists n1, find_node (sv_tree sv1) (pp ++ [k]) = Some n1 /\ n_subs n1 = n_subs newn).
      { unfold sv1, add_node. cbn [set_tree sv_tree]. clear -Hf.
        induction (sv_tree (b_sv b)) as [|a t IHt]; cbn [find_node app] in *.
        - subst newn. cbn [n_path]. assert (E : path_eqb (pp ++ [k]) (pp ++ [k]) = true) by (apply path_eqb_eq; reflexivity).
          rewrite E. eexists. split; reflexivity.
        - destruct (path_eqb (n_path a) (pp ++ [k])); [discriminate|]. apply IHt. exact Hf. }
      destruct Hf1 as [n1 [Hf1 Hs1]].
      pose proof (bstep_with_sv _ _ _ w b sv1 S1) as H1.
      destruct rest as [|k2 rest2].
      * destruct q; [eapply bstep_weaken; [| | |exact H1]; cbn [length]; lia|].
        pose proof (bnotify_changed_cost w (with_sv b sv1) by_ (pp ++ [k]) d None sup n1 Hg1 Hf1) as H2.
        pose proof (bstep_trans _ _ _ _ _ _ _ _ _ _ H1 H2) as H3.
        eapply bstep_weaken; [| | |exact H3]; cbn [length]; try lia. rewrite Hs1. lia.
      * set (b2 := if q then with_sv b sv1 else absorb b (notify_changed sv1 by_ (pp ++ [k]) empty_payload None false)).
        assert (H2 : bstep_ok 1 (1 + NS (b_sv b)) (NS (b_sv b)) w b b2).
        { subst b2. destruct q; [eapply bstep_weaken; [| | |exact H1]; lia|].
          apply bstep_absorb.
          pose proof (step_notify sv1 by_ (pp ++ [k]) empty_payload None false n1 Hg1 Hf1) as Hn.
          pose proof (step_ok_trans _ _ _ _ _ _ _ _ _ S1 Hn) as H3.
          eapply step_ok_weaken; [| | |exact H3]; try lia. rewrite Hs1. lia. }
        pose proof (IH b2 by_ (pp ++ [k]) d false dov q sup (bgood_step _ _ _ _ _ _ Hg H2)) as H3.
        assert (Hns2 : NS (b_sv b2) = NS (b_sv b)) by (apply NS_ids; apply H2).
        pose proof (bstep_trans _ _ _ _ _ _ _ _ _ _ H2 H3) as H4.
        eapply bstep_weaken; [| | |exact H4]; rewrite ?Hns2; cbn [length]; try lia.
        destruct H2 as [[_ [_ [_ [Hsz _]]]] _]. nia.
Qed.

Lemma bsetsup_items_cost : forall w (items : list (list name * payload)) flags s b, good_sv (b_sv b) ->
  let Z := list_sum (map (fun it => length (fst it)) items) in
  let K := length items in
  bstep_ok Z (Z * (1 + NS (b_sv b))) (K * (SZ (sv_tree (b_sv b)) + Z * (1 + NS (b_sv b))) + Z * (2 * NS (b_sv b) + 1)) w b
    (fold_left (fun b' it =>
                  match get_session (b_sv b') s with
                  | Some ss' => match fst it with
                                | [] => b'
                                | _ => bset_data_loop b' (s_id ss') (session_dir ss') (fst it) (snd it)
                                         (flag_set flags c_SETDATANODE_FLAG_DONTCREATENODE)
                                         (flag_set flags c_SETDATANODE_FLAG_DONTOVERWRITEDATA)
                                         (flag_set flags c_SETDATANODE_FLAG_QUIET) true
                                end
                  | None => b'
                  end) items b).
Proof.
  intros w. induction items as [|it items IH]; intros flags s b Hg; cbv zeta; cbn [fold_left map length].
  - cbn. apply bstep_refl. exact Hg.
  - rewrite list_sum_cons.
    match goal with |- context [fold_left _ items ?bb] => set (b1 := bb) end.
    assert (H1 : bstep_ok (length (fst it)) (length (fst it) * (1 + NS (b_sv b))) (SZ (sv_tree (b_sv b)) + length (fst it) * (2 * NS (b_sv b) + 1)) w b b1).
    { subst b1. destruct (get_session (b_sv b) s) as [ss'|]; [|eapply bstep_weaken; [| | |apply bstep_refl; exact Hg]; lia].
      destruct (fst it) as [|k r] eqn:E; [eapply bstep_weaken; [| | |apply bstep_refl; exact Hg]; lia|].
      rewrite <- E. apply bset_data_loop_cost. exact Hg. }
    specialize (IH flags s b1 (bgood_step _ _ _ _ _ _ Hg H1)). cbv zeta in IH.
    pose proof (bstep_trans _ _ _ _ _ _ _ _ _ _ H1 IH) as H2.
    assert (Hn : NS (b_sv b1) = NS (b_sv b)) by (apply NS_ids; apply H1). rewrite Hn in H2.
    destruct H1 as [[_ [_ [_ [Hs _]]]] _].
    eapply bstep_weaken; [| | |exact H2]; try lia; nia.
Qed.

Lemma buniv_of_bstep : forall a bb g z w b b', a <= z -> bb <= Bf z (length (sv_tree (b_sv b))) (NS (b_sv b)) ->
  g <= Gf z (length (sv_tree (b_sv b))) (SZ (sv_tree (b_sv b))) (NS (b_sv b)) -> bstep_ok a bb g w b b' -> buniv z w b b'.
Proof. intros a bb g z w b b' Ha Hb Hg0 [H1 H2]. split; [eapply univ_of_step; eauto|lia]. Qed.

(* ------------------------------------------------------------------ the commands of Bounded.v *)

Fixpoint bsize (c : bcmd) : nat :=
  match c with
  | BBase c0 => csize c0
  | BSetSup _ items => 1 + list_sum (map (fun it => 1 + length (fst it)) items)
  | BBatch l => 1 + (fix go (l : list bcmd) : nat := match l with [] => 0 | c' :: r => bsize c' + go r end) l
  | _ => 1
  end.

Definition PB (z : nat) (b : bserver) (w : sid) : nat :=
  Nat.max (QM b w) (tw (b_sv b) + Gf z (length (sv_tree (b_sv b))) (SZ (sv_tree (b_sv b))) (NS (b_sv b))).

Lemma bpush_buniv : forall w b, good_sv (b_sv b) -> buniv 0 w b (bpush_spec b).
Proof.
  intros w b Hg. unfold bpush_spec. apply buniv_absorb.
  eapply univ_of_step; [| | |apply step_push_all; exact Hg]; lia.
Qed.

Lemma bhandle_cost : forall c nest b s, good_sv (b_sv b) ->
  buniv (bsize c) s b (bhandle_spec fx nest b s c) /\ hpeak fx nest b s c <= PB (bsize c) b s.
Proof.
  induction c as [c0|flags items|t| |code what|keys|ids0|id keys|l IHl] using bcmd_ind'; intros nest b s Hg;
    cbn [bhandle_spec hpeak bsize] in *;
    destruct (get_session (b_sv b) s) as [ss|];
    try (split; [apply buniv_refl; exact Hg|unfold PB; lia]).
  - split; [|unfold PB; lia]. apply buniv_absorb. apply handle_cost. exact Hg.
  - split; [|unfold PB; lia].
    pose proof (bsetsup_items_cost s items flags s b Hg) as H. cbv zeta in H. rewrite list_sum_succ.
    eapply buniv_of_bstep; [| | |exact H]; unfold Bf, Gf; nia.
  - split; [|unfold PB; lia]. unfold enqueue. apply buniv_upd_gw; [exact Hg|reflexivity|].
    intros g. cbn [g_q]. rewrite qweight_app. unfold qweight at 2. cbn. lia.
  - split; [|unfold PB; lia]. unfold enqueue. apply buniv_upd_gw; [exact Hg|reflexivity|].
    intros g. cbn [g_q]. rewrite qweight_app. unfold qweight at 2. cbn. lia.
  - split; [|unfold PB, QM; lia].
    split; [unfold set_queue, upd_gw; cbn [b_sv]; apply univ_refl; exact Hg|].
    unfold set_queue, upd_gw.
    eapply Nat.le_trans; [apply (qm_map b _ (qweight (jq_spec (jett_matcher keys) (queue_of b s))))|].
    + intros g. destruct (N.eqb (g_sid g) s); reflexivity.
    + intros g. destruct (N.eqb (g_sid g) s); cbn [g_q]; lia.
    + pose proof (jq_spec_weight (jett_matcher keys) (queue_of b s)). unfold QM. lia.
  - split; [|unfold PB; lia].
    split; [unfold set_queue, upd_gw; cbn [b_sv]; apply univ_refl; exact Hg|].
    unfold set_queue, upd_gw.
    eapply Nat.le_trans; [apply (qm_map b _ (qweight (jettison_trees ids0 (queue_of b s))))|].
    + intros g. destruct (N.eqb (g_sid g) s); reflexivity.
    + intros g. destruct (N.eqb (g_sid g) s); cbn [g_q]; lia.
    + pose proof (jettison_trees_weight ids0 (queue_of b s)). unfold QM. lia.
  - split; [|unfold PB; lia]. unfold enqueue. apply buniv_upd_gw; [exact Hg|reflexivity|].
    intros g. cbn [g_q]. rewrite qweight_app. unfold qweight at 2. cbn. lia.
  - destruct (Nat.ltb nest max_batch_nest); [|split; [apply buniv_refl; exact Hg|unfold PB; lia]].
    set (zz := (fix go (l : list bcmd) : nat := match l with [] => 0 | c' :: r => bsize c' + go r end) l).
    assert (Hmain : forall b0, good_sv (b_sv b0) ->
      buniv zz s b0 ((fix go (l : list bcmd) (b : bserver) : bserver :=
                        match l with [] => b | c' :: r => go r (bpush_spec (bhandle_spec fx (S nest) b s c')) end) l b0) /\
      (fix go (l : list bcmd) (b : bserver) : nat :=
         match l with [] => 0 | c' :: r => Nat.max (hpeak fx (S nest) b s c') (go r (bpush_spec (bhandle_spec fx (S nest) b s c'))) end) l b0
      <= PB zz b0 s).
    { subst zz. clear Hg. induction IHl as [|c' r Hc' _ IHr]; intros b0 Hg0.
      - split; [apply buniv_refl; exact Hg0|unfold PB; lia].
      - destruct (Hc' (S nest) b0 s Hg0) as [U1 P1].
        assert (Hg1 : good_sv (b_sv (bhandle_spec fx (S nest) b0 s c'))) by (exact (good_step _ _ _ _ _ Hg0 (proj1 U1))).
        pose proof (buniv_trans _ _ _ _ _ _ U1 (bpush_buniv s _ Hg1)) as U2. rewrite Nat.add_0_r in U2.
        assert (Hg2 : good_sv (b_sv (bpush_spec (bhandle_spec fx (S nest) b0 s c')))) by (exact (good_step _ _ _ _ _ Hg0 (proj1 U2))).
        destruct (IHr _ Hg2) as [U3 P3].
        split; [exact (buniv_trans _ _ _ _ _ _ U2 U3)|].
        set (zr := (fix go (l : list bcmd) : nat := match l with [] => 0 | c'0 :: r0 => bsize c'0 + go r0 end) r) in *.
        apply Nat.max_lub.
        + unfold PB in *. pose proof (Gf_zmono (bsize c') (bsize c' + zr) (length (sv_tree (b_sv b0))) (SZ (sv_tree (b_sv b0))) (NS (b_sv b0)) ltac:(lia)). lia.
        + eapply Nat.le_trans; [exact P3|]. unfold PB.
          destruct U2 as [[K1 [_ [K3 [K4 K5]]]] Q2]. rewrite (NS_ids _ _ K1).
          pose proof (Gf_comp (bsize c') zr _ _ _ _ (NS (b_sv b0)) K3 K4) as Hc.
          pose proof (Gf_zmono (bsize c') (bsize c' + zr) (length (sv_tree (b_sv b0))) (SZ (sv_tree (b_sv b0))) (NS (b_sv b0)) ltac:(lia)). lia. }
    destruct (Hmain b Hg) as [U P]. split.
    + apply (buniv_zmono zz); [lia|exact U].
    + eapply Nat.le_trans; [exact P|]. unfold PB.
      pose proof (Gf_zmono zz (1 + zz) (length (sv_tree (b_sv b))) (SZ (sv_tree (b_sv b))) (NS (b_sv b)) ltac:(lia)). lia.
Qed.

(* hpeak_poly: the fuel the handler needs is polynomial (cubic) in the size of the state and of the command *)
Theorem hpeak_poly : forall c nest b s, good_sv (b_sv b) ->
  hpeak fx nest b s c <=
  Nat.max (qweight (queue_of b s))
          (tw (b_sv b) + Gf (bsize c) (length (sv_tree (b_sv b))) (SZ (sv_tree (b_sv b))) (NS (b_sv b))).
Proof. intros c nest b s Hg. exact (proj2 (bhandle_cost c nest b s Hg)). Qed.

(* handler_fuel, in terms of the state the command arrives in: fuel above the heaviest Message already queued for the
   session, or above the items the server holds plus a cubic polynomial in (command size, nodes, node weight, sessions),
   is adequate for every command *)
Theorem handler_fuel_poly : forall c fuel nest b s, good_sv (b_sv b) -> 2 <= fuel ->
  Nat.max (qweight (queue_of b s))
          (tw (b_sv b) + Gf (bsize c) (length (sv_tree (b_sv b))) (SZ (sv_tree (b_sv b))) (NS (b_sv b))) < fuel ->
  bhandle fx true fuel nest b s c = Some (bhandle_spec fx nest b s c).
Proof.
  intros c fuel nest b s Hg Hf2 Hf. apply handler_fuel; [exact Hf2|].
  eapply Nat.le_lt_trans; [apply hpeak_poly; exact Hg|exact Hf].
Qed.

(* distinct session ids and distinct node paths survive every dispatched command *)
Lemma good_sv_cmd : forall b s c, good_sv (b_sv b) -> good_sv (b_sv (bstep_spec fx b (BCmd s c))).
Proof.
  intros b s c Hg. cbn [bstep_spec]. destruct (get_session (b_sv b) s); [|exact Hg].
  unfold flush. cbn [b_sv].
  destruct (bhandle_cost c 0 b s Hg) as [U _].
  assert (Hg1 : good_sv (b_sv (bhandle_spec fx 0 b s c))) by (exact (good_step _ _ _ _ _ Hg (proj1 U))).
  exact (good_step _ _ _ _ _ Hg1 (proj1 (bpush_buniv s _ Hg1))).
Qed.

End Poly.
