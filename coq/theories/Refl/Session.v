(* Refl/Session.v -- per-session state of StorageReflectSession that the node-tree properties need,
   and the PR_RESULT_DATAITEMS update Message.  Definitions only.

   [ditems] is the content of a PR_RESULT_DATAITEMS Message as its reader sees it: the strings of the
   PR_NAME_REMOVED_DATAITEMS field, and the Message-typed fields (node path -> the payloads added under
   that name, in order) in field order.  Message::GetNumNames() counts the removed-list as one name. *)
From Coq Require Import List NArith ZArith Bool Arith.
From Muscle Require Import Refl.Base Refl.Tree Refl.Matcher.
Import ListNotations.

Record ditems := mkDI { di_removed : list path; di_sets : list (path * list payload) }.

Definition empty_di : ditems := mkDI [] [].

Definition di_num_names (d : ditems) : N :=
  ((match di_removed d with [] => 0 | _ => 1 end) + N.of_nat (length (di_sets d)))%N.

Fixpoint sets_has (l : list (path * list payload)) (p : path) : bool :=
  match l with [] => false | (q, _) :: r => path_eqb q p || sets_has r p end.

(* Message::HasName(np, B_MESSAGE_TYPE) *)
Definition di_has_set (d : ditems) (p : path) : bool := sets_has (di_sets d) p.

Fixpoint sets_add (l : list (path * list payload)) (p : path) (v : payload) : list (path * list payload) :=
  match l with
  | [] => [(p, [v])]
  | (q, vs) :: r => if path_eqb q p then (q, vs ++ [v]) :: r else (q, vs) :: sets_add r p v
  end.

(* UpdateSubscriptionMessage(msg, np, data): AddMessage(np, data) / AddString(PR_NAME_REMOVED_DATAITEMS, np) *)
Definition di_add_set (d : ditems) (p : path) (v : payload) : ditems := mkDI (di_removed d) (sets_add (di_sets d) p v).
Definition di_add_removed (d : ditems) (p : path) : ditems := mkDI (di_removed d ++ [p]) (di_sets d).

Section Session.
Context {M : MatchOps}.

Record session := mkSession {
  s_id : sid;
  s_host : name;                     (* name of the host node, GetHostName() *)
  s_name : name;                     (* name of the session node, GetSessionIDString() *)
  s_subs : matcher;                  (* _subscriptions *)
  s_max : N;                         (* _maxSubscriptionMessageItems (uint32) *)
  s_pending : option ditems;         (* _nextSubscriptionMessage *)
  s_out : list ditems                (* PR_RESULT_DATAITEMS Messages handed to the gateway, oldest first *)
}.

Definition session_dir (s : session) : path := [s_host s; s_name s].      (* _sessionDir, depth NODE_DEPTH_SESSIONNAME *)

Definition set_subs (s : session) (m : matcher) : session :=
  mkSession (s_id s) (s_host s) (s_name s) m (s_max s) (s_pending s) (s_out s).
Definition set_max (s : session) (n : N) : session :=
  mkSession (s_id s) (s_host s) (s_name s) (s_subs s) n (s_pending s) (s_out s).
Definition set_pending (s : session) (p : option ditems) : session :=
  mkSession (s_id s) (s_host s) (s_name s) (s_subs s) (s_max s) p (s_out s).
Definition send (s : session) (d : ditems) : session :=                   (* MessageReceivedFromSession(self, msg) -> AddOutgoingMessage *)
  mkSession (s_id s) (s_host s) (s_name s) (s_subs s) (s_max s) (s_pending s) (s_out s ++ [d]).
Definition clear_out (s : session) : session :=
  mkSession (s_id s) (s_host s) (s_name s) (s_subs s) (s_max s) (s_pending s) [].

(* PushSubscriptionMessage(_nextSubscriptionMessage) *)
Definition push_pending (s : session) : session :=
  match s_pending s with
  | Some d => set_pending (send s d) None
  | None => s
  end.

(* the test of GetDataCallback / GetSubtreesCallback "node is part of our own tree":
   GetSession(node.GetAncestorNode(NODE_DEPTH_SESSIONNAME, &node)->GetNodeName()) == this *)
Definition own_node (s : session) (p : path) : bool :=
  match p with
  | _ :: sn :: _ => name_eqb sn (s_name s)
  | [h] => name_eqb h (s_name s)
  | [] => false
  end.

End Session.
