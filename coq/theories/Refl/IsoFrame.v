(* Refl/IsoFrame.v -- C06, first half: whatever a session sends, everything outside its own subtree stays as it is.

   For every handler of Refl/Server.v and of the dispatcher Refl/IsoModel.v: the nodes outside the sender's session
   directory (paths, payloads, list order = child iteration order, subscriber tables up to the sender's own mark), the
   identity, subscriptions and limits of every other session, the privilege bits of every other session and -- for a
   sender without PR_PRIVILEGE_KICK -- the set of sessions marked for removal are the same before and after.
   No well-formedness premise is needed: the statement holds in every state, reachable or not. *)
From Coq Require Import List NArith ZArith Bool Arith Lia.
From Muscle Require Import Gen.Consts Refl.Base Refl.Tree Refl.Matcher Refl.Traverse Refl.Session Refl.Server
     Refl.IsoModel Refl.IsoBase Refl.IsoTrav.
Import ListNotations.

Section Frame.
Context {M : MatchOps}.
Variable fx : fixes.

(* ------------------------------------------------------------------ vocabulary *)

Definition sident (x : session) : sid * name * name := (s_id x, s_host x, s_name x).
Definition sparams (x : session) : sid * name * name * matcher * N := (s_id x, s_host x, s_name x, s_subs x, s_max x).

Definition idents (sv : server) : list (sid * name * name) := map sident (sv_sessions sv).
Definition all_params (sv : server) := map sparams (sv_sessions sv).
Definition others_params (s : sid) (sv : server) :=
  map sparams (filter (fun x => negb (N.eqb (s_id x) s)) (sv_sessions sv)).

(* nothing but pending / delivered update Messages and the dirty flag differ *)
Definition same_state (sv sv' : server) : Prop :=
  sv_tree sv' = sv_tree sv /\ all_params sv' = all_params sv.

(* the frame of session s whose directory is dir *)
Definition frame (s : sid) (dir : path) (sv sv' : server) : Prop :=
  foreign_view s dir (sv_tree sv') = foreign_view s dir (sv_tree sv) /\
  others_params s sv' = others_params s sv /\
  idents sv' = idents sv.

Lemma same_state_refl : forall sv, same_state sv sv.
Proof. intros; split; reflexivity. Qed.

Lemma same_state_trans : forall a b c, same_state a b -> same_state b c -> same_state a c.
Proof. intros a b c [H1 H2] [H3 H4]. split; congruence. Qed.

Lemma frame_refl : forall s dir sv, frame s dir sv sv.
Proof. intros; repeat split; reflexivity. Qed.

Lemma frame_trans : forall s dir a b c, frame s dir a b -> frame s dir b c -> frame s dir a c.
Proof. intros s dir a b c [H1 [H2 H3]] [H4 [H5 H6]]. repeat split; congruence. Qed.

Lemma all_params_idents : forall sv sv', all_params sv' = all_params sv -> idents sv' = idents sv.
Proof.
  intros sv sv'. unfold all_params, idents. generalize (sv_sessions sv) (sv_sessions sv').
  induction l as [|x l IH]; intros [|y l'] H; cbn in *; try discriminate; [reflexivity|].
  inversion H. f_equal; [unfold sident; congruence|]. now apply IH.
Qed.

Lemma all_params_others : forall s sv sv', all_params sv' = all_params sv -> others_params s sv' = others_params s sv.
Proof.
  intros s sv sv'. unfold all_params, others_params. generalize (sv_sessions sv) (sv_sessions sv').
  induction l as [|x l IH]; intros [|y l'] H; cbn in *; try discriminate; [reflexivity|].
  inversion H as [[H1 H2 H3 H4 H5 H6]]. rewrite H1. destruct (negb (N.eqb (s_id x) s)); cbn.
  - f_equal; [unfold sparams; congruence|]. now apply IH.
  - now apply IH.
Qed.

Lemma same_state_frame : forall s dir sv sv', same_state sv sv' -> frame s dir sv sv'.
Proof.
  intros s dir sv sv' [H1 H2]. repeat split.
  - now rewrite H1.
  - now apply all_params_others.
  - now apply all_params_idents.
Qed.

(* ------------------------------------------------------------------ session updates *)

Lemma upd_session_same : forall sv s f, (forall x, sparams (f x) = sparams x) -> same_state sv (upd_session sv s f).
Proof.
  intros sv s f Hf. split; [reflexivity|]. unfold all_params, upd_session. cbn. rewrite map_map.
  apply map_ext. intros x. destruct (N.eqb (s_id x) s); [apply Hf|reflexivity].
Qed.

Lemma upd_session_frame : forall sv s dir f, (forall x, sident (f x) = sident x) -> frame s dir sv (upd_session sv s f).
Proof.
  intros sv s dir f Hf. repeat split.
  - unfold others_params, upd_session. cbn. induction (sv_sessions sv) as [|x l IH]; cbn; [reflexivity|].
    destruct (N.eqb (s_id x) s) eqn:E.
    + assert (Hid : s_id (f x) = s_id x) by (specialize (Hf x); unfold sident in Hf; congruence).
      rewrite Hid, E. cbn. exact IH.
    + rewrite E. cbn. now rewrite IH.
  - unfold idents, upd_session. cbn. rewrite map_map. apply map_ext. intros x.
    destruct (N.eqb (s_id x) s); [apply Hf|reflexivity].
Qed.

Lemma set_dirty_same : forall sv b, same_state sv (set_dirty sv b).
Proof. intros; split; reflexivity. Qed.

Lemma push_all_same : forall sv, same_state sv (push_all sv).
Proof.
  intros sv. unfold push_all. destruct (sv_dirty sv); [|apply same_state_refl].
  split; [reflexivity|]. unfold all_params. cbn. rewrite map_map. apply map_ext.
  intros x. unfold push_pending. destruct (s_pending x); reflexivity.
Qed.

Ltac ss_step :=
  match goal with
  | |- same_state ?a ?a => apply same_state_refl
  | |- same_state ?a (push_all ?b) => eapply same_state_trans; [|apply push_all_same]
  | |- same_state ?a (set_dirty ?b _) => eapply same_state_trans; [|apply set_dirty_same]
  | |- same_state ?a (upd_session ?b _ _) => eapply same_state_trans; [|apply upd_session_same; intros; reflexivity]
  end.

Lemma node_changed_aux_same : forall sv s p d removed, same_state sv (node_changed_aux sv s p d removed).
Proof.
  intros sv s p d removed. unfold node_changed_aux.
  destruct (get_session sv s) as [ss|]; [|apply same_state_refl].
  match goal with |- same_state sv (match get_session ?X s with _ => _ end) => set (sv1 := X) end.
  assert (H1 : same_state sv sv1).
  { subst sv1. destruct removed; [destruct (di_has_set _ _)|]; repeat ss_step. }
  destruct (get_session sv1 s) as [ss1|]; [|exact H1].
  destruct (s_pending ss1); [|exact H1]. destruct (N.leb _ _); [|exact H1].
  eapply same_state_trans; [exact H1|apply push_all_same].
Qed.

Lemma node_changed_same : forall sv s p d old removed, same_state sv (node_changed sv s p d old removed).
Proof.
  intros. unfold node_changed. destruct (get_session sv s); [|apply same_state_refl].
  destruct (N.ltb _ _); [|apply node_changed_aux_same].
  destruct removed.
  - destruct (matches_node _ _ _ _); [apply node_changed_aux_same|apply same_state_refl].
  - destruct old; repeat (match goal with |- context [if ?b then _ else _] => destruct b end);
      try apply node_changed_aux_same; apply same_state_refl.
Qed.

Lemma notify_changed_same : forall sv by_ p d old removed, same_state sv (notify_changed sv by_ p d old removed).
Proof.
  intros. unfold notify_changed. destruct (find_node _ _) as [n|]; [|apply same_state_refl].
  generalize (n_subs n). intros l. revert sv. induction l as [|kc l IH]; intros sv; cbn; [apply same_state_refl|].
  eapply same_state_trans; [|apply IH].
  destruct (N.eqb _ _); [apply same_state_refl|apply node_changed_same].
Qed.

(* ------------------------------------------------------------------ GETDATA *)

Lemma getdata_cb_same : forall s sv0 acc n, same_state sv0 (snd acc) -> same_state sv0 (snd (fst (getdata_cb s acc n))).
Proof.
  intros s sv0 [reply sv] n H. cbn in H. unfold getdata_cb.
  destruct (get_session sv s) as [ss|]; [|exact H].
  destruct (own_node ss (n_path n)); [exact H|].
  destruct (N.leb _ _); cbn; [|exact H].
  eapply same_state_trans; [exact H|apply upd_session_same; intros; reflexivity].
Qed.

Lemma do_get_data_same : forall sv s keys, same_state sv (do_get_data fx sv s keys).
Proof.
  intros sv s keys. unfold do_get_data.
  match goal with |- context [do_traversal ?cb ?t ?m ?r ?u ?g ?a] =>
    pose proof (do_traversal_inv _ cb t m r u g (fun acc => same_state sv (snd acc))
                  (fun acc n Ha _ _ => getdata_cb_same s sv acc n Ha) a (same_state_refl sv)) as H;
    destruct (do_traversal cb t m r u g a) as [reply sv1] end.
  cbn in H. destruct reply; [|exact H].
  eapply same_state_trans; [exact H|apply upd_session_same; intros; reflexivity].
Qed.

(* ------------------------------------------------------------------ SETDATA *)

Lemma set_tree_frame_inside : forall s dir sv t',
  foreign_view s dir t' = foreign_view s dir (sv_tree sv) -> frame s dir sv (set_tree sv t').
Proof. intros. repeat split. exact H. Qed.

Lemma frame_set_tree : forall s dir sv sv1 t',
  frame s dir sv sv1 -> foreign_view s dir t' = foreign_view s dir (sv_tree sv1) -> frame s dir sv (set_tree sv1 t').
Proof. intros s dir sv sv1 t' F H. eapply frame_trans; [exact F|]. now apply set_tree_frame_inside. Qed.

Lemma set_data_loop_frame : forall s dir cl sv by_ pp d dc dw q,
  is_prefix dir pp = true -> frame s dir sv (set_data_loop sv by_ pp cl d dc dw q).
Proof.
  intros s dir cl. induction cl as [|k rest IH]; intros sv by_ pp d dc dw q Hpp; cbn; [apply frame_refl|].
  assert (Hp : is_prefix dir (pp ++ [k]) = true) by now apply is_prefix_snoc.
  destruct (find_node (sv_tree sv) (pp ++ [k])) as [n|].
  - destruct rest as [|k2 rest'].
    + destruct dw; [apply frame_refl|].
      assert (F1 : frame s dir sv (set_tree sv (set_data (sv_tree sv) (pp ++ [k]) d))).
      { apply set_tree_frame_inside. now apply fv_set_data_inside. }
      destruct q; [exact F1|]. eapply frame_trans; [exact F1|]. apply same_state_frame, notify_changed_same.
    + now apply IH.
  - destruct dc; [apply frame_refl|]. destruct (Nat.leb _ _); [apply frame_refl|].
    match goal with |- context [set_tree sv (add_node (sv_tree sv) ?nn)] => set (nn0 := nn) end.
    assert (F1 : frame s dir sv (set_tree sv (add_node (sv_tree sv) nn0))).
    { apply set_tree_frame_inside. apply fv_add_inside. subst nn0. exact Hp. }
    match goal with |- context [if q then ?a else ?b] => assert (F2 : frame s dir sv (if q then a else b)) end.
    { destruct q; [exact F1|]. eapply frame_trans; [exact F1|]. apply same_state_frame, notify_changed_same. }
    destruct rest as [|k2 rest']; [exact F2|].
    eapply frame_trans; [exact F2|]. now apply IH.
Qed.

(* ------------------------------------------------------------------ removal *)

Lemma removal_order_prefix : forall fuel t p q, In q (removal_order fuel t p) -> is_prefix p q = true.
Proof.
  induction fuel as [|f IH]; intros t p q H; cbn in H.
  - destruct H as [H|[]]. subst. apply is_prefix_refl.
  - apply in_app_or in H as [H|[H|[]]].
    + apply in_flat_map in H as [c [Hc Hq]]. apply children_In in Hc as [_ [k Hk]].
      apply IH in Hq. rewrite Hk in Hq. eapply is_prefix_trans; [apply is_prefix_app|exact Hq].
    + subst. apply is_prefix_refl.
Qed.

Lemma fold_frame : forall (B : Type) (f : server -> B -> server) s dir l,
  (forall sv q, In q l -> frame s dir sv (f sv q)) -> forall sv, frame s dir sv (fold_left f l sv).
Proof.
  intros B f s dir l. induction l as [|q l IH]; intros H sv; cbn; [apply frame_refl|].
  eapply frame_trans; [apply H; now left|]. apply IH. intros sv' q' Hq'. apply H. now right.
Qed.

Lemma remove_subtree_frame : forall s dir sv by_ p notify,
  is_prefix dir p = true -> frame s dir sv (remove_subtree sv by_ p notify).
Proof.
  intros s dir sv by_ p notify Hp. unfold remove_subtree. apply fold_frame.
  intros sv' q Hq. apply removal_order_prefix in Hq.
  assert (Hdq : is_prefix dir q = true) by (eapply is_prefix_trans; eassumption).
  destruct (find_node (sv_tree sv') q) as [n|]; [|apply frame_refl].
  match goal with |- frame s dir sv' (set_tree ?sv1 _) => assert (F1 : frame s dir sv' sv1) end.
  { destruct notify; [apply same_state_frame, notify_changed_same|apply frame_refl]. }
  eapply frame_trans; [exact F1|]. apply set_tree_frame_inside. now apply fv_remove_inside.
Qed.

(* RemoveDataCallback collects nodes strictly below the directory the traversal starts at *)
Lemma remove_cb_collects_below : forall t m root uf gf,
  Forall (fun p => is_prefix root p = true) (do_traversal remove_cb t m root uf gf []).
Proof.
  intros. apply (do_traversal_inv _ remove_cb t m root uf gf (Forall (fun p => is_prefix root p = true))); [|constructor].
  intros acc n Ha _ [r [_ Hr]]. unfold remove_cb. destruct (Nat.ltb _ _); cbn; [|exact Ha].
  constructor; [|exact Ha]. rewrite Hr. apply is_prefix_app.
Qed.

Lemma do_remove_data_frame : forall sv ss keys quiet,
  frame (s_id ss) (session_dir ss) sv (do_remove_data fx sv ss keys quiet).
Proof.
  intros sv ss keys quiet. unfold do_remove_data. apply fold_frame.
  intros sv' q Hq. destruct (has_node _ _); [|apply frame_refl].
  apply remove_subtree_frame.
  pose proof (remove_cb_collects_below (sv_tree sv) (m_of_list keys) (session_dir ss) true (fx_guard fx)) as H.
  rewrite Forall_forall in H. now apply H.
Qed.

(* ------------------------------------------------------------------ subscriptions *)

Lemma mark_nodes_fv : forall s dir t m delta, foreign_view s dir (mark_nodes fx t m s delta) = foreign_view s dir t.
Proof.
  intros s dir t m delta. unfold mark_nodes.
  apply (do_traversal_inv _ _ t m [] false (fx_guard fx) (fun acc => foreign_view s dir acc = foreign_view s dir t)); [|reflexivity].
  intros acc n Ha _ _. unfold continue_cb. cbn [fst]. now rewrite fv_adjust_subs.
Qed.

Lemma cqf_cb_same : forall s oldf newf sv n, same_state sv (cqf_cb fx s oldf newf sv n).
Proof.
  intros. unfold cqf_cb. destruct (Bool.eqb _ _); [apply same_state_refl|].
  destruct (get_session sv s); [|apply same_state_refl].
  destruct (_ && _); [apply same_state_refl|apply node_changed_aux_same].
Qed.

Lemma subscribe_one_frame : forall sv s dir sf, frame s dir sv (subscribe_one fx sv s sf).
Proof.
  intros sv s dir sf. unfold subscribe_one. destruct (get_session sv s) as [ss|]; [|apply frame_refl].
  destruct (fix_path (fst sf)) as [|c fp] eqn:Efp; [apply frame_refl|].
  destruct (m_get _ _) as [e|].
  - eapply frame_trans; [|apply upd_session_frame; intros; reflexivity].
    destruct (snd sf), (e_flt e); try apply frame_refl;
      apply same_state_frame;
      (apply (do_traversal_inv _ _ (sv_tree sv) _ [] false (fx_guard fx) (fun acc => same_state sv acc)); [|apply same_state_refl];
       intros acc n Ha _ _; unfold continue_cb; cbn [fst]; eapply same_state_trans; [exact Ha|apply cqf_cb_same]).
  - apply frame_set_tree; [apply upd_session_frame; intros; reflexivity|apply mark_nodes_fv].
Qed.

Lemma unsubscribe_one_frame : forall sv s dir sp, frame s dir sv (unsubscribe_one fx sv s sp).
Proof.
  intros sv s dir sp. unfold unsubscribe_one. destruct (get_session sv s) as [ss|]; [|apply frame_refl].
  destruct (m_remove _ _) as [m'|]; [|apply frame_refl].
  apply frame_set_tree; [apply upd_session_frame; intros; reflexivity|apply mark_nodes_fv].
Qed.

(* ------------------------------------------------------------------ the command handler of Refl/Server.v *)

Lemma idents_session_dir : forall sv sv' s ss ss',
  idents sv' = idents sv -> get_session sv s = Some ss -> get_session sv' s = Some ss' ->
  s_id ss' = s_id ss /\ session_dir ss' = session_dir ss.
Proof.
  intros sv sv' s ss ss'. unfold idents, get_session. generalize (sv_sessions sv) (sv_sessions sv').
  induction l as [|x l IH]; intros [|y l'] H H1 H2; cbn in *; try discriminate.
  inversion H as [[Hid Hh Hn Hl]]. rewrite Hid in H2. destruct (N.eqb (s_id x) s).
  - inversion H1; inversion H2; subst. unfold session_dir. split; congruence.
  - now apply (IH l').
Qed.

Lemma get_session_id : forall sv s ss, get_session sv s = Some ss -> s_id ss = s.
Proof.
  intros sv s ss. unfold get_session. induction (sv_sessions sv) as [|x l IH]; cbn; [discriminate|].
  destruct (N.eqb (s_id x) s) eqn:E; [|exact IH]. intros H; inversion H; subst. now apply N.eqb_eq.
Qed.

(* induction over commands, through the list nested in CBatch *)
Lemma cmd_ind' : forall (P : cmd -> Prop),
  (forall flags items, P (CSetData flags items)) -> (forall q keys, P (CRemoveData q keys)) ->
  (forall q subs, P (CSubscribe q subs)) -> (forall subs, P (CUnsubscribe subs)) -> (forall n, P (CSetMax n)) ->
  P CResetMax -> (forall keys, P (CGetData keys)) ->
  (forall l, Forall P l -> P (CBatch l)) -> forall c, P c.
Proof.
  intros P H1 H2 H3 H4 H5 H6 H7 H8.
  refine (fix IH (c : cmd) : P c :=
            match c with
            | CSetData f i => H1 f i | CRemoveData q k => H2 q k | CSubscribe q k => H3 q k | CUnsubscribe k => H4 k
            | CSetMax n => H5 n | CResetMax => H6 | CGetData k => H7 k
            | CBatch l => H8 l ((fix go (l : list cmd) : Forall P l :=
                                   match l with [] => Forall_nil P | c' :: r => Forall_cons c' (IH c') (go r) end) l)
            end).
Qed.

Theorem handle_frame : forall c nest sv s ss,
  get_session sv s = Some ss -> frame s (session_dir ss) sv (handle fx nest sv s c).
Proof.
  induction c as [flags items|q keys|q subs|subs|n| |keys|l IHl] using cmd_ind'; intros nest sv s ss Hs;
    pose proof (get_session_id sv s ss Hs) as Hid.
  - (* SETDATA *)
    destruct nest; cbn; rewrite Hs;
      (apply (fun H => @proj1 _ True (conj H I)));
      (assert (G : forall its sv', frame s (session_dir ss) sv sv' ->
                frame s (session_dir ss) sv
                  (fold_left (fun sv'0 it => match get_session sv'0 s with
                                            | Some ss' => match fst it with [] => sv'0 | _ :: _ => set_data_node sv'0 ss' (fst it) (snd it) flags end
                                            | None => sv'0 end) its sv'));
       [induction its as [|it its IHi]; intros sv' F; cbn; [exact F|];
        apply IHi; destruct (get_session sv' s) as [ss'|] eqn:Es'; [|exact F];
        destruct (fst it) as [|k rest]; [exact F|];
        eapply frame_trans; [exact F|];
        destruct F as [_ [_ Fi]]; destruct (idents_session_dir sv sv' s ss ss' Fi Hs Es') as [_ Hd];
        unfold set_data_node; rewrite <- Hd; apply set_data_loop_frame; apply is_prefix_refl
       | apply G, frame_refl]).
  - destruct nest; cbn; rewrite Hs; subst s; apply do_remove_data_frame.
  - (* SETPARAMETERS / SUBSCRIBE *)
    assert (G : forall l sv', frame s (session_dir ss) sv sv' ->
              frame s (session_dir ss) sv (fold_left (fun sv'0 sf => subscribe_one fx sv'0 s sf) l sv')).
    { induction l as [|sf l IHl]; intros sv' F; cbn; [exact F|]. apply IHl. eapply frame_trans; [exact F|apply subscribe_one_frame]. }
    destruct nest; cbn; rewrite Hs; (destruct q; [apply G, frame_refl|]); (destruct subs as [|sf subs']; [apply G, frame_refl|]);
      (eapply frame_trans; [apply (G (sf :: subs')), frame_refl|]); apply same_state_frame;
      (destruct (fx_push fx); [eapply same_state_trans; [apply push_all_same|apply do_get_data_same]|apply do_get_data_same]).
  - assert (G : forall l sv', frame s (session_dir ss) sv sv' ->
              frame s (session_dir ss) sv (fold_left (fun sv'0 sp => unsubscribe_one fx sv'0 s sp) l sv')).
    { induction l as [|sf l IHl]; intros sv' F; cbn; [exact F|]. apply IHl. eapply frame_trans; [exact F|apply unsubscribe_one_frame]. }
    destruct nest; cbn; rewrite Hs; apply G, frame_refl.
  - destruct nest; cbn; rewrite Hs; apply upd_session_frame; intros; reflexivity.
  - destruct nest; cbn; rewrite Hs; apply upd_session_frame; intros; reflexivity.
  - destruct nest; cbn; rewrite Hs; apply same_state_frame, do_get_data_same.
  - (* BATCH *)
    assert (G : forall nest' sv', frame s (session_dir ss) sv sv' ->
              frame s (session_dir ss) sv
                ((fix go (l0 : list cmd) (sv0 : server) : server :=
                    match l0 with [] => sv0 | c' :: r => go r (push_all (handle fx (S nest') sv0 s c')) end) l sv')).
    { intros nest'. induction IHl as [|c l Hc _ IHl']; intros sv' F; [exact F|].
      apply IHl'. eapply frame_trans; [exact F|].
      destruct (get_session sv' s) as [ss'|] eqn:Es'.
      - destruct F as [_ [_ Fi]]. destruct (idents_session_dir sv sv' s ss ss' Fi Hs Es') as [_ Hd].
        eapply frame_trans; [rewrite <- Hd; now apply Hc|]. apply same_state_frame, push_all_same.
      - assert (Hn : handle fx (S nest') sv' s c = sv') by (destruct c; cbn; now rewrite Es').
        rewrite Hn. apply same_state_frame, push_all_same. }
    destruct nest as [|nest]; cbn [handle]; rewrite Hs; (destruct (Nat.ltb _ _); [apply G, frame_refl|apply frame_refl]).
Qed.

(* ------------------------------------------------------------------ the dispatcher of Refl/IsoModel.v *)

(* the frame of session s in the extended state: the server core, everybody else's privilege bits, and -- when s holds no
   privilege at all -- s stays without privilege and nobody is marked for removal *)
Definition xframe (s : sid) (dir : path) (xs xs' : xserver) : Prop :=
  frame s dir (xs_sv xs) (xs_sv xs') /\
  priv_remove (xs_priv xs') s = priv_remove (xs_priv xs) s /\
  (unprivileged xs s -> unprivileged xs' s /\ xs_ducks xs' = xs_ducks xs).

Lemma xframe_refl : forall s dir xs, xframe s dir xs xs.
Proof. intros. split; [apply frame_refl|]. split; [reflexivity|]. intros H; now split. Qed.

Lemma xframe_trans : forall s dir a b c, xframe s dir a b -> xframe s dir b c -> xframe s dir a c.
Proof.
  intros s dir a b c [F1 [P1 U1]] [F2 [P2 U2]]. split; [eapply frame_trans; eassumption|]. split; [congruence|].
  intros Ha. destruct (U1 Ha) as [Ub Db]. destruct (U2 Ub) as [Uc Dc]. split; [exact Uc|congruence].
Qed.

Lemma xframe_with_sv : forall s dir xs sv', frame s dir (xs_sv xs) sv' -> xframe s dir xs (with_sv xs sv').
Proof. intros s dir xs sv' F. split; [exact F|]. split; [reflexivity|]. intros H; now split. Qed.

Lemma xframe_log : forall s dir xs l, xframe s dir xs (mkX (xs_sv xs) (xs_priv xs) l (xs_ducks xs)).
Proof. intros. split; [apply frame_refl|]. split; [reflexivity|]. intros H; now split. Qed.

Lemma unpriv_no_priv : forall xs s p, unprivileged xs s -> has_priv xs s p = false.
Proof. intros xs s p H. unfold has_priv. rewrite H. apply N.bits_0. Qed.

Lemma dispatch_xframe : forall xs ss what keys sess dir, xframe (s_id ss) dir xs (dispatch fx xs ss what keys sess).
Proof.
  intros xs ss what keys sess dir. unfold dispatch, bounce, log_to.
  destruct (in_command_range what).
  - destruct (N.eqb what c_PR_COMMAND_KICK).
    + destruct (has_priv xs (s_id ss) c_PR_PRIVILEGE_KICK) eqn:Ep; [|apply xframe_log].
      destruct keys; [apply xframe_refl|].
      split; [apply frame_refl|]. split; [reflexivity|]. intros U. rewrite (unpriv_no_priv _ _ _ U) in Ep. discriminate.
    + repeat (match goal with |- context [if ?b then _ else _] => destruct b end); try apply xframe_refl; apply xframe_log.
  - destruct keys; apply xframe_log.
Qed.

Lemma priv_get_remove_same : forall l s, priv_get (priv_remove l s) s = 0%N.
Proof.
  unfold priv_remove. induction l as [|[k b] r IH]; intros s; cbn; [reflexivity|].
  destruct (N.eqb k s) eqn:E; cbn; [apply IH|]. rewrite E. apply IH.
Qed.

Lemma priv_remove_idem : forall l s, priv_remove (priv_remove l s) s = priv_remove l s.
Proof.
  unfold priv_remove. induction l as [|[k b] r IH]; intros s; cbn; [reflexivity|].
  destruct (N.eqb k s) eqn:E; cbn; [apply IH|]. rewrite E. cbn. now rewrite IH.
Qed.

Lemma xcmd_ind' : forall (P : xcmd -> Prop),
  (forall c, P (XBase c)) -> (forall f i, P (XSetData f i)) -> (forall q k, P (XRemoveData q k)) ->
  (forall w k, P (XCode w k)) -> (forall b, P (XSetPriv b)) -> P XRemovePriv -> (forall w k se, P (XMessage w k se)) ->
  (forall l, Forall P l -> P (XBatch l)) -> forall c, P c.
Proof.
  intros P H1 H2 H3 H4 H5 H6 H7 H8.
  refine (fix IH (c : xcmd) : P c :=
            match c with
            | XBase c => H1 c | XSetData f i => H2 f i | XRemoveData q k => H3 q k | XCode w k => H4 w k
            | XSetPriv b => H5 b | XRemovePriv => H6 | XMessage w k se => H7 w k se
            | XBatch l => H8 l ((fix go (l : list xcmd) : Forall P l :=
                                   match l with [] => Forall_nil P | c' :: r => Forall_cons c' (IH c') (go r) end) l)
            end).
Qed.

Theorem xhandle_xframe : forall c nest xs s ss,
  get_session (xs_sv xs) s = Some ss -> xframe s (session_dir ss) xs (xhandle fx nest xs s c).
Proof.
  induction c as [b|f i|q k|w k|b| |w k se|l IHl] using xcmd_ind'; intros nest xs s ss Hs;
    pose proof (get_session_id _ s ss Hs) as Hid.
  - destruct nest; cbn; rewrite Hs; apply xframe_with_sv; now apply handle_frame.
  - destruct nest; cbn [xhandle]; rewrite Hs; apply xframe_with_sv; now apply handle_frame.
  - destruct nest; cbn [xhandle]; rewrite Hs; apply xframe_with_sv; now apply handle_frame.
  - destruct nest; cbn; rewrite Hs; subst s; apply dispatch_xframe.
  - destruct nest; cbn; rewrite Hs; apply xframe_refl.
  - destruct nest; cbn; rewrite Hs; (split; [apply frame_refl|]); (split; [apply priv_remove_idem|]);
      intros U; (split; [|reflexivity]); unfold unprivileged; cbn; apply priv_get_remove_same.
  - destruct nest; cbn; rewrite Hs; subst s; apply dispatch_xframe.
  - assert (G : forall nest' xs', xframe s (session_dir ss) xs xs' ->
              xframe s (session_dir ss) xs
                ((fix go (l0 : list xcmd) (xs0 : xserver) : xserver :=
                    match l0 with
                    | [] => xs0
                    | c' :: r => go r (let xs1 := xhandle fx (S nest') xs0 s c' in with_sv xs1 (push_all (xs_sv xs1)))
                    end) l xs')).
    { intros nest'. induction IHl as [|c l Hc _ IHl']; intros xs' F; [exact F|].
      apply IHl'. eapply xframe_trans; [exact F|].
      destruct (get_session (xs_sv xs') s) as [ss'|] eqn:Es'.
      - destruct F as [[_ [_ Fi]] _]. destruct (idents_session_dir _ _ s ss ss' Fi Hs Es') as [_ Hd].
        eapply xframe_trans; [rewrite <- Hd; now apply Hc|]. apply xframe_with_sv, same_state_frame, push_all_same.
      - assert (Hn : xhandle fx (S nest') xs' s c = xs') by (destruct c; cbn; now rewrite Es').
        rewrite Hn. apply xframe_with_sv, same_state_frame, push_all_same. }
    destruct nest as [|nest]; cbn [xhandle]; rewrite Hs; (destruct (Nat.ltb _ _); [apply G, xframe_refl|apply xframe_refl]).
Qed.

(* ------------------------------------------------------------------ one turn of the server, and sequences of commands *)

Lemma ducks_fold_detach : forall l xs,
  xs_ducks (fold_left (fun xs' d => xdetach fx xs' d) l xs) = filter (fun d => negb (sid_mem d l)) (xs_ducks xs).
Proof.
  induction l as [|a l IH]; intros xs; cbn.
  - induction (xs_ducks xs) as [|d r IHr]; cbn; [reflexivity|]. now rewrite <- IHr.
  - rewrite IH. cbn. induction (xs_ducks xs) as [|d r IHr]; cbn; [reflexivity|].
    rewrite (N.eqb_sym a d). destruct (N.eqb d a); cbn; [exact IHr|]. destruct (sid_mem d l); cbn; [exact IHr|]. now rewrite IHr.
Qed.

Lemma clear_ducks_none : forall xs, xs_ducks (clear_ducks fx xs) = [].
Proof.
  intros xs. unfold clear_ducks. rewrite ducks_fold_detach.
  assert (H : forall l l', (forall d, In d l -> sid_mem d l' = true) -> filter (fun d => negb (sid_mem d l')) l = []).
  { induction l as [|d r IH]; intros l' Hl; cbn; [reflexivity|]. rewrite (Hl d (or_introl eq_refl)). cbn. apply IH. intros; apply Hl; now right. }
  apply H. intros d. induction (xs_ducks xs) as [|a r IH]; intros Hin; [destruct Hin|]. cbn.
  destruct Hin as [->|Hin]; [now rewrite N.eqb_refl|]. rewrite IH; [apply orb_true_r|exact Hin].
Qed.

Lemma clear_ducks_nil : forall xs, xs_ducks xs = [] -> clear_ducks fx xs = xs.
Proof. intros xs H. unfold clear_ducks. now rewrite H. Qed.

(* in every state the server reaches, nobody is left marked for removal between two turns *)
Lemma xstep_no_ducks : forall xs ev, xs_ducks xs = [] -> xs_ducks (xstep fx xs ev) = [].
Proof.
  intros xs ev H. destruct ev as [s host nm bits|s|s c]; unfold xstep.
  - destruct (get_session _ _); exact H.
  - cbn. rewrite H. reflexivity.
  - destruct (get_session _ _); [|exact H]. cbv zeta. apply clear_ducks_none.
Qed.

Lemma xrun_no_ducks : forall evs xs, xs_ducks xs = [] -> xs_ducks (xrun fx evs xs) = [].
Proof. induction evs as [|ev evs IH]; intros xs H; cbn; [exact H|]. apply IH. now apply xstep_no_ducks. Qed.

(* FRAME, one turn: a whole turn of the server for a command of an unprivileged session s (handler, the update push after it,
   the removal of kicked sessions) leaves everything outside s's subtree, every other session's identity, subscriptions,
   limits and privileges as they were, and ends nobody *)
Theorem frame_step : forall xs s c ss,
  get_session (xs_sv xs) s = Some ss -> unprivileged xs s -> xs_ducks xs = [] ->
  let xs' := xstep fx xs (XCmd s c) in
  foreign_view s (session_dir ss) (sv_tree (xs_sv xs')) = foreign_view s (session_dir ss) (sv_tree (xs_sv xs)) /\
  others_params s (xs_sv xs') = others_params s (xs_sv xs) /\
  idents (xs_sv xs') = idents (xs_sv xs) /\
  priv_remove (xs_priv xs') s = priv_remove (xs_priv xs) s /\
  unprivileged xs' s /\ xs_ducks xs' = [].
Proof.
  intros xs s c ss Hs U Hd xs'. subst xs'. unfold xstep. rewrite Hs. cbv zeta.
  pose proof (xhandle_xframe c 0 xs s ss Hs) as [F [P UD]]. destruct (UD U) as [U' D'].
  set (xs1 := xhandle fx 0 xs s c) in *.
  assert (Hnd : xs_ducks (with_sv xs1 (push_all (xs_sv xs1))) = []) by (cbn; congruence).
  rewrite (clear_ducks_nil _ Hnd). cbn.
  assert (F2 : frame s (session_dir ss) (xs_sv xs) (push_all (xs_sv xs1))).
  { eapply frame_trans; [exact F|apply same_state_frame, push_all_same]. }
  destruct F2 as [A [B C]]. repeat split; try assumption; try congruence.
Qed.

(* FRAME, any sequence: "no sequence of commands from an unprivileged session ..." *)
Theorem frame_own_subtree : forall cs xs s ss,
  get_session (xs_sv xs) s = Some ss -> unprivileged xs s -> xs_ducks xs = [] ->
  let xs' := xrun fx (map (XCmd s) cs) xs in
  foreign_view s (session_dir ss) (sv_tree (xs_sv xs')) = foreign_view s (session_dir ss) (sv_tree (xs_sv xs)) /\
  others_params s (xs_sv xs') = others_params s (xs_sv xs) /\
  idents (xs_sv xs') = idents (xs_sv xs) /\
  priv_remove (xs_priv xs') s = priv_remove (xs_priv xs) s /\
  unprivileged xs' s /\ xs_ducks xs' = [].
Proof.
  induction cs as [|c cs IH]; intros xs s ss Hs U Hd xs'; subst xs'.
  - cbn. repeat split; auto.
  - destruct (frame_step xs s c ss Hs U Hd) as [A [B [C [D [E F]]]]].
    change (xrun fx (map (XCmd s) (c :: cs)) xs) with (xrun fx (map (XCmd s) cs) (xstep fx xs (XCmd s c))).
    set (xs1 := xstep fx xs (XCmd s c)) in *.
    assert (Hs1 : exists ss1, get_session (xs_sv xs1) s = Some ss1 /\ session_dir ss1 = session_dir ss).
    { unfold idents, get_session in *. revert C Hs. generalize (sv_sessions (xs_sv xs)) (sv_sessions (xs_sv xs1)).
      induction l as [|x l IHl]; intros [|y l'] C Hs; cbn in *; try discriminate.
      inversion C as [[Hid Hh Hn Hl]]. rewrite Hid. destruct (N.eqb (s_id x) s).
      - exists y. split; [reflexivity|]. inversion Hs; subst. unfold session_dir. congruence.
      - now apply (IHl l'). }
    destruct Hs1 as [ss1 [Hs1 Hd1]].
    destruct (IH xs1 s ss1 Hs1 E F) as [A' [B' [C' [D' [E' F']]]]].
    rewrite Hd1 in A'. repeat split; try assumption; congruence.
Qed.

End Frame.
