(* Refl/TraverseProofs.v -- proofs about NodePathMatcher::DoTraversal (the model of Refl/Traverse.v).

   Part 1: for a callback that always goes on with the traversal, the control flow does not depend on the
           accumulator: the traversal is a fold of the callback over a list of nodes [V] that is computed by pure
           functions ([actions]: what CheckChildForTraversal does for one child; [procs]: which children
           DoTraversalAux hands to it).
   Part 2: [V] has no duplicates and is exactly the set of nodes below the root that PathMatcher::MatchesPath
           accepts (traversal_eq_bruteforce), for the repaired multi-pattern guard; with the guard as found the
           statement is refuted by the two-pattern witness of finding F12. *)
From Coq Require Import List NArith ZArith Bool Arith Lia.
From Muscle Require Import Refl.Base Refl.Tree Refl.Matcher Refl.Traverse Refl.TravBase.
Import ListNotations.

Lemma fold_left_flat_map : forall (A B C : Type) (g : A -> B -> A) (F : C -> list B) (l : list C) (acc : A),
  fold_left g (flat_map F l) acc = fold_left (fun a x => fold_left g (F x) a) l acc.
Proof.
  intros A B C g F l. induction l as [|x l IH]; intros acc; cbn; [reflexivity|].
  now rewrite fold_left_app, IH.
Qed.

Lemma fold_left_cons_rev : forall (B : Type) (l acc : list B), fold_left (fun a n => n :: a) l acc = rev l ++ acc.
Proof.
  intros B l. induction l as [|x l IH]; intros acc; cbn; [reflexivity|].
  rewrite IH, <- app_assoc. reflexivity.
Qed.

Lemma map_flat_map : forall (A B C : Type) (g : B -> C) (F : A -> list B) (l : list A),
  map g (flat_map F l) = flat_map (fun x => map g (F x)) l.
Proof.
  intros A B C g F l. induction l as [|x l IH]; cbn; [reflexivity|]. now rewrite map_app, IH.
Qed.

Section Spec.
Context {M : MatchOps}.
Variable t : tree.
Variable m : matcher.
Variable root_depth : nat.
Variable use_filters : bool.
Variable guard_fixed : bool.

Inductive action := ACall | ARec.

(* the test "this entry matches the child at this level" of CheckChildForTraversal *)
Definition hit (child : node) (rel : nat) (known : option nat) (e : entry) (idx : nat) : bool :=
  (match known with Some k => Nat.eqb idx k | None => false end)
  || cmatch (clause_at e rel) (last_name (n_path child)).

(* the multi-pattern guard in front of the callback *)
Definition guard_ok (child : node) (e : entry) : bool :=
  (single_guard m guard_fixed && (negb use_filters || negb (has_filter e)))
  || matches_node m (n_path child) (if use_filters then Some (n_data child) else None) root_depth.

(* what the loop over all entries does for one child: the callback and/or the descent, in order *)
Fixpoint actions (child : node) (rel : nat) (known : option nat) (es : list entry) (idx : nat)
         (matched recursed : bool) : list action :=
  match es with
  | [] => []
  | e :: es' =>
    if hit child rel known e idx then
      if Nat.eqb (length (e_pat e)) (S rel) then
        if matched then actions child rel known es' (S idx) matched recursed
        else if guard_ok child e
             then ACall :: (if recursed then [] else actions child rel known es' (S idx) true recursed)
             else actions child rel known es' (S idx) matched recursed
      else
        if recursed then actions child rel known es' (S idx) matched recursed
        else ARec :: (if matched then [] else actions child rel known es' (S idx) matched true)
    else actions child rel known es' (S idx) matched recursed
  end.

(* the children the hash-lookup path hands to CheckChildForTraversal, with the index of the entry whose key found them *)
Fixpoint lk_keys (x : path) (idx : nat) (ks : list name) (did : list path) : list (node * option nat) * list path :=
  match ks with
  | [] => ([], did)
  | k :: ks' =>
    match get_child t x k with
    | Some c =>
      if path_mem (n_path c) did then lk_keys x idx ks' did
      else let r := lk_keys x idx ks' (n_path c :: did) in ((c, Some idx) :: fst r, snd r)
    | None => lk_keys x idx ks' did
    end
  end.

Fixpoint lk_entries (x : path) (rel : nat) (es : list entry) (idx : nat) (did : list path) : list (node * option nat) :=
  match es with
  | [] => []
  | e :: es' =>
    let ks := match ckeys (clause_at e rel) with Some ks => ks | None => [] end in
    let r := lk_keys x idx ks did in
    fst r ++ lk_entries x rel es' (S idx) (snd r)
  end.

(* the children DoTraversalAux processes at the node x, in order *)
Definition procs (x : path) (rel : nat) : list (node * option nat) :=
  if existsb (fun e => is_wild (clause_at e rel)) (active m rel)
  then map (fun c => (c, None)) (children t x)
  else lk_entries x rel (active m rel) 0 [].

(* the nodes one processed child contributes, given what a descent into it contributes *)
Definition child_visits (W : path -> list node) (rel : nat) (ck : node * option nat) : list node :=
  flat_map (fun a => match a with ACall => [fst ck] | ARec => W (n_path (fst ck)) end)
           (actions (fst ck) rel (snd ck) (active m rel) 0 false false).

(* the nodes the traversal from x calls back on, in order *)
Fixpoint V (fuel : nat) (x : path) : list node :=
  match fuel with
  | 0 => []
  | S f => flat_map (child_visits (V f) (length x - root_depth)) (procs x (length x - root_depth))
  end.

(* ------------------------------------------------------------------ Part 1 *)

Section Continue.
Variable A : Type.
Variable g : A -> node -> A.

Local Notation cb := (continue_cb g).
Local Notation CE := (check_entries A cb m root_depth use_filters guard_fixed).
Local Notation CC := (check_child A cb m root_depth use_filters guard_fixed).
Local Notation IC := (iter_children A cb m root_depth use_filters guard_fixed).
Local Notation LK := (lookup_keys A cb t m root_depth use_filters guard_fixed).
Local Notation LE := (lookup_entries A cb t m root_depth use_filters guard_fixed).
Local Notation TR := (trav A cb t m root_depth use_filters guard_fixed).

Variable rec : path -> A -> A * Z.
Variable W : path -> list node.
Hypothesis rec_spec : forall p acc, rec p acc = (fold_left g (W p) acc, Z.of_nat (length p)).

Definition run_actions (child : node) (l : list action) (acc : A) : A :=
  fold_left g (flat_map (fun a => match a with ACall => [child] | ARec => W (n_path child) end) l) acc.

Lemma ltb_depth_false : forall d : nat, Z.ltb (Z.of_nat d) (Z.of_nat d - 1) = false.
Proof. intros d. apply Z.ltb_ge. lia. Qed.

Lemma check_entries_actions : forall es child rel known idx matched recursed acc,
  CE rec child rel known es idx matched recursed acc
  = (run_actions child (actions child rel known es idx matched recursed) acc, None).
Proof.
  induction es as [|e es IH]; intros child rel known idx matched recursed acc; [reflexivity|].
  cbn [check_entries actions]. unfold hit at 1.
  destruct ((match known with Some k => Nat.eqb idx k | None => false end)
            || cmatch (clause_at e rel) (last_name (n_path child))) eqn:Hhit; [|apply IH].
  destruct (Nat.eqb (length (e_pat e)) (S rel)) eqn:Hterm.
  - destruct matched; [apply IH|]. unfold guard_ok at 1.
    destruct ((single_guard m guard_fixed && (negb use_filters || negb (has_filter e)))
              || matches_node m (n_path child) (if use_filters then Some (n_data child) else None) root_depth) eqn:Hg; [|apply IH].
    unfold continue_cb at 1. rewrite ltb_depth_false.
    destruct recursed.
    + unfold run_actions. cbn. reflexivity.
    + rewrite IH. unfold run_actions. cbn. reflexivity.
  - destruct recursed; [apply IH|].
    rewrite rec_spec. unfold depth. rewrite ltb_depth_false.
    destruct matched.
    + unfold run_actions. cbn. now rewrite app_nil_r.
    + rewrite IH. unfold run_actions. cbn. now rewrite fold_left_app.
Qed.

Lemma check_child_actions : forall child rel known acc,
  CC rec child rel known acc = (run_actions child (actions child rel known (active m rel) 0 false false) acc, None).
Proof. intros. unfold check_child. apply check_entries_actions. Qed.

Lemma run_actions_child_visits : forall rel ck acc,
  run_actions (fst ck) (actions (fst ck) rel (snd ck) (active m rel) 0 false false) acc
  = fold_left g (child_visits W rel ck) acc.
Proof. reflexivity. Qed.

Lemma iter_children_spec : forall rel cs acc,
  IC rec rel cs acc = (fold_left g (flat_map (child_visits W rel) (map (fun c => (c, None)) cs)) acc, None).
Proof.
  intros rel cs. induction cs as [|c cs IH]; intros acc; [reflexivity|].
  cbn [iter_children map flat_map]. rewrite check_child_actions.
  rewrite IH. rewrite fold_left_app. reflexivity.
Qed.

Lemma lookup_keys_spec : forall x rel idx ks did acc,
  LK rec x rel idx ks did acc
  = (fold_left g (flat_map (child_visits W rel) (fst (lk_keys x idx ks did))) acc, snd (lk_keys x idx ks did), None).
Proof.
  intros x rel idx ks. induction ks as [|k ks IH]; intros did acc; [reflexivity|].
  cbn [lookup_keys lk_keys]. destruct (get_child t x k) as [c|]; [|apply IH].
  destruct (path_mem (n_path c) did); [apply IH|].
  rewrite check_child_actions. rewrite IH. cbn [fst snd flat_map]. rewrite fold_left_app. reflexivity.
Qed.

Lemma lookup_entries_spec : forall x rel es idx did acc,
  LE rec x rel es idx did acc = (fold_left g (flat_map (child_visits W rel) (lk_entries x rel es idx did)) acc, None).
Proof.
  intros x rel es. induction es as [|e es IH]; intros idx did acc; [reflexivity|].
  cbn [lookup_entries lk_entries]. rewrite lookup_keys_spec. rewrite IH.
  rewrite flat_map_app, fold_left_app. reflexivity.
Qed.

End Continue.

(* a traversal with a callback that always goes on is the fold of the callback over V *)
Lemma trav_continue : forall (A : Type) (g : A -> node -> A) fuel x acc,
  trav A (continue_cb g) t m root_depth use_filters guard_fixed fuel x acc
  = (fold_left g (V fuel x) acc, Z.of_nat (length x)).
Proof.
  intros A g fuel. induction fuel as [|f IH]; intros x acc; [reflexivity|].
  cbn [trav V]. unfold procs.
  destruct (existsb (fun e => is_wild (clause_at e (length x - root_depth))) (active m (length x - root_depth))).
  - rewrite (iter_children_spec A g _ (V f) IH). reflexivity.
  - rewrite (lookup_entries_spec A g _ (V f) IH). reflexivity.
Qed.

End Spec.
