(* Refl/IsoOrd.v -- C06: ordered children.  PR_COMMAND_INSERTORDEREDDATA and PR_COMMAND_REORDERDATA on top of the dispatcher
   model of Refl/IsoModel.v: every node may carry an ordered index (DataNode::_orderedIndex, a list of child names) and a
   counter for generated child names (DataNode::_orderedCounter, "I<n>").

   What is modelled (reflector/StorageReflectSession.cpp, reflector/DataNode.cpp):
     InsertOrderedData / InsertOrderedDataCallback / InsertOrderedChildNode / DataNode::InsertOrderedChild: the traversal from
       the session's own directory over ONE key (with its filter), for every visited node every (insert-before, payload) item:
       name generation (the counter skips names that are taken), DataNode::PutChild -- the same call SetDataNode makes for a
       new leaf, so the tree / notification effect is that of PR_COMMAND_SETDATA of the generated paths -- and the insertion
       into the index before the LAST entry with the given name, else at the end; PR_NAME_REMOVE_FROM_INDEX: no index entry;
     PR_COMMAND_SETDATA with SETDATANODE_FLAG_ADDTOINDEX in PR_NAME_FLAGS (SetDataNode -> InsertOrderedChild with the given name);
     PR_COMMAND_REORDERDATA / ReorderDataCallback / DataNode::ReorderChild: each (key, move-before) field on its own;
     DataNode::RemoveChild -> RemoveIndexEntry and the reset of a recycled node (DataNode::Init; F55): after every command
       the entries of nodes and children that are gone are dropped ([oprune]).
   Not modelled: several PR_NAME_KEYS in one INSERTORDEREDDATA (then nodes created by the traversal's own callback can be
   visited by it), the node-count limit, the INDEXUPDATED notifications (outputs), PR_COMMAND_SETDATATREES-style restores. *)
From Coq Require Import List NArith ZArith Bool Arith.
From Muscle Require Import Gen.Consts Refl.Base Refl.Tree Refl.Matcher Refl.Traverse Refl.Session Refl.Server Refl.IsoModel.
Import ListNotations.

Section Ord.
Context {M : MatchOps}.
Variable fx : fixes.
Variable iname : N -> name.            (* the child name "I<n>" *)

Definition itbl := list (path * list name).    (* the nodes with a non-empty ordered index *)
Definition ctbl := list (path * N).            (* the nodes with a non-zero name counter *)

Record oserver := mkO { o_x : xserver; o_idx : itbl; o_ctr : ctbl }.

Definition empty_oserver : oserver := mkO empty_xserver [] [].

Fixpoint idx_get (t : itbl) (p : path) : list name :=
  match t with [] => [] | e :: r => if path_eqb (fst e) p then snd e else idx_get r p end.

Definition idx_set (t : itbl) (p : path) (l : list name) : itbl :=
  filter (fun e => negb (path_eqb (fst e) p)) t ++ match l with [] => [] | _ => [(p, l)] end.

Fixpoint ctr_get (t : ctbl) (p : path) : N :=
  match t with [] => 0%N | e :: r => if path_eqb (fst e) p then snd e else ctr_get r p end.

Definition ctr_set (t : ctbl) (p : path) (c : N) : ctbl :=
  filter (fun e => negb (path_eqb (fst e) p)) t ++ (if N.eqb c 0 then [] else [(p, c)]).

(* position of the LAST entry equal to k (the loops run from GetLastValidIndex() down) *)
Fixpoint find_last (k : name) (l : list name) : option nat :=
  match l with
  | [] => None
  | x :: r => match find_last k r with Some i => Some (S i) | None => if name_eqb x k then Some 0 else None end
  end.

Definition insert_at (l : list name) (i : nat) (x : name) : list name := firstn i l ++ x :: skipn i l.

(* DataNode::RemoveIndexEntry(key) *)
Definition remove_last (k : name) (l : list name) : list name :=
  match find_last k l with Some i => firstn i l ++ skipn (S i) l | None => l end.

(* the while(true) loop of InsertOrderedChild: "I<counter++>" until no child has that name (at most one collision per child) *)
Fixpoint gen_name (t : tree) (p : path) (c : N) (fuel : nat) : name * N :=
  match fuel with
  | 0 => (iname c, N.succ c)
  | S f => if has_node t (p ++ [iname c]) then gen_name t p (N.succ c) f else (iname c, N.succ c)
  end.

(* the names the items get under the node at pp, and the counter afterwards; None as insert-before = PR_NAME_REMOVE_FROM_INDEX *)
Fixpoint plan_names (t : tree) (pp : path) (c : N) (items : list (option name * payload)) : N * list (name * option name * payload) :=
  match items with
  | [] => (c, [])
  | it :: r => let nc := gen_name t pp c (S (length (children t pp))) in
               let rest := plan_names t pp (snd nc) r in
               (fst rest, (fst nc, fst it, snd it) :: snd rest)
  end.

(* InsertOrderedChild: insertIndex *)
Definition idx_insert (l : list name) (b : option name) (nm : name) : list name :=
  match b with
  | None => l
  | Some k => insert_at l (match find_last k l with Some i => i | None => length l end) nm
  end.

(* DataNode::ReorderChild(child nm, optMoveToBeforeThis b) on the index l of the node at [parent] *)
Definition reorder_one (t : tree) (l : list name) (parent : path) (nm : name) (b : option name) : list name :=
  if (match b with Some k => name_eqb k nm | None => false end) then l
  else let l' := remove_last nm l in
       match b with
       | None => l'
       | Some k => insert_at l' (if has_node t (parent ++ [k])
                                 then match find_last k l' with Some i => i | None => length l' end
                                 else length l') nm
       end.

(* RemoveChild -> RemoveIndexEntry; a node that is gone takes index and counter with it *)
Definition prune_idx (t : tree) (ix : itbl) : itbl :=
  filter (fun e => match snd e with [] => false | _ => true end)
         (map (fun e : path * list name => (fst e, filter (fun k => has_node t (fst e ++ [k])) (snd e)))
              (filter (fun e => has_node t (fst e)) ix)).

Definition prune_ctr (t : tree) (ct : ctbl) : ctbl := filter (fun e => has_node t (fst e)) ct.

Definition oprune (os : oserver) : oserver :=
  let t := sv_tree (xs_sv (o_x os)) in mkO (o_x os) (prune_idx t (o_idx os)) (prune_ctr t (o_ctr os)).

Inductive ocmd :=
| OX (c : xcmd)                                                                  (* everything of Refl/IsoModel.v (batches: OBatch) *)
| OInsert (key : spath * option qfilter) (items : list (option name * payload))  (* PR_COMMAND_INSERTORDEREDDATA, one key *)
| OReorder (fields : list (spath * option name))                                 (* PR_COMMAND_REORDERDATA *)
| OSetIdx (flags : N) (items : list (bool * list name * payload))                (* PR_COMMAND_SETDATA, PR_NAME_FLAGS with ADDTOINDEX *)
| OBatch (l : list ocmd).                                                        (* PR_COMMAND_BATCH *)

Definition key_matcher (key : spath * option qfilter) : matcher := m_of_list [(unslash (fst key), snd key)].

(* the paths of the nodes the traversal from the session's directory calls back on, in order *)
Definition visit_paths (t : tree) (ss : session) (key : spath * option qfilter) : list path :=
  map n_path (visits t (key_matcher key) (session_dir ss) true (fx_guard fx)).

Definition plan := (path * (N * list (name * option name * payload)))%type.

Definition do_insert (nest : nat) (os : oserver) (ss : session) (key : spath * option qfilter) (items : list (option name * payload)) : oserver :=
  let x := o_x os in
  let t := sv_tree (xs_sv x) in
  let dir := session_dir ss in
  let plans : list plan := map (fun p => (p, plan_names t p (ctr_get (o_ctr os) p) items)) (visit_paths t ss key) in
  let sitems := flat_map (fun pl : plan =>
                            map (fun e : name * option name * payload => (false, skipn (length dir) (fst pl) ++ [fst (fst e)], snd e)) (snd (snd pl))) plans in
  let x' := xhandle fx nest x (s_id ss) (XSetData 0 sitems) in
  let t' := sv_tree (xs_sv x') in
  let idx' := fold_left (fun ix (pl : plan) =>
                           idx_set ix (fst pl)
                             (fold_left (fun l (e : name * option name * payload) =>
                                           if has_node t' (fst pl ++ [fst (fst e)]) then idx_insert l (snd (fst e)) (fst (fst e)) else l)
                                        (snd (snd pl)) (idx_get ix (fst pl)))) plans (o_idx os) in
  let ctr' := fold_left (fun ct (pl : plan) => ctr_set ct (fst pl) (fst (snd pl))) plans (o_ctr os) in
  oprune (mkO x' idx' ctr').

Definition reorder_at (t : tree) (b : option name) (ix : itbl) (p : path) : itbl :=
  let parent := removelast p in
  idx_set ix parent (reorder_one t (idx_get ix parent) parent (last p 0%N) b).

Definition do_reorder (os : oserver) (ss : session) (fields : list (spath * option name)) : oserver :=
  let t := sv_tree (xs_sv (o_x os)) in
  let idx' := fold_left (fun ix (f : spath * option name) => fold_left (reorder_at t (snd f)) (visit_paths t ss (fst f, None)) ix)
                        fields (o_idx os) in
  oprune (mkO (o_x os) idx' (o_ctr os)).

(* SetDataNode(path, data, flags) with SETDATANODE_FLAG_ADDTOINDEX, for one field value: the intermediate nodes are created as
   always; a leaf that is not there is created by DataNode::InsertOrderedChild(data, "", name, this, QUIET ? NULL : this) --
   DataNode::PutChild as for any new node: the marks of all subscribed sessions are placed, the change is announced unless
   QUIET -- and appended to its parent's index; a leaf that is there is left alone, data included (the SetData step is skipped),
   which is what SETDATANODE_FLAG_DONTOVERWRITEDATA does in Refl/Server.v.  (Appended: no child is named "".) *)
Definition set_idx_item (nest : nat) (ss : session) (flags : N) (os : oserver) (it : bool * list name * payload) : oserver :=
  let x := o_x os in
  let rel := snd (fst it) in
  let p := session_dir ss ++ rel in
  let fresh := negb (fst (fst it)) && negb (has_node (sv_tree (xs_sv x)) p) && match rel with [] => false | _ => true end in
  let x' := xhandle fx nest x (s_id ss) (XSetData (N.setbit flags c_SETDATANODE_FLAG_DONTOVERWRITEDATA) [it]) in
  let parent := session_dir ss ++ removelast rel in
  mkO x' (if fresh && has_node (sv_tree (xs_sv x')) p
          then idx_set (o_idx os) parent (idx_get (o_idx os) parent ++ [last rel 0%N]) else o_idx os)
      (o_ctr os).

Definition do_set_idx (nest : nat) (os : oserver) (ss : session) (flags : N) (items : list (bool * list name * payload)) : oserver :=
  oprune (fold_left (set_idx_item nest ss flags) items os).

Definition opush (os : oserver) : oserver :=
  mkO (with_sv (o_x os) (push_all (xs_sv (o_x os)))) (o_idx os) (o_ctr os).

Fixpoint ohandle (nest : nat) (os : oserver) (s : sid) (c : ocmd) : oserver :=
  match get_session (xs_sv (o_x os)) s with
  | None => os
  | Some ss =>
    match c with
    | OX xc => oprune (mkO (xhandle fx nest (o_x os) s xc) (o_idx os) (o_ctr os))
    | OInsert key items => do_insert nest os ss key items
    | OReorder fields => do_reorder os ss fields
    | OSetIdx flags items => do_set_idx nest os ss flags items
    | OBatch l =>
      if Nat.ltb nest max_batch_nest then
        (fix go (l : list ocmd) (os : oserver) : oserver :=
           match l with
           | [] => os
           | c' :: r => go r (opush (ohandle (S nest) os s c'))
           end) l os
      else os
    end
  end.

Inductive oevent :=
| OAttach (s : sid) (host nm : name) (bits : N)
| ODetach (s : sid)
| OCmd (s : sid) (c : ocmd).

Definition ostep (os : oserver) (ev : oevent) : oserver :=
  match ev with
  | OAttach s host nm bits => oprune (mkO (xstep fx (o_x os) (XAttach s host nm bits)) (o_idx os) (o_ctr os))
  | ODetach s => oprune (mkO (xdetach fx (o_x os) s) (o_idx os) (o_ctr os))
  | OCmd s c =>
    match get_session (xs_sv (o_x os)) s with
    | Some _ => let os1 := opush (ohandle 0 os s c) in
                oprune (mkO (clear_ducks fx (o_x os1)) (o_idx os1) (o_ctr os1))
    | None => os
    end
  end.

Definition orun (evs : list oevent) (os : oserver) : oserver := fold_left ostep evs os.

(* what the correspondence run reads and then forgets after every step *)
Definition oclear (os : oserver) : oserver := mkO (xclear (o_x os)) (o_idx os) (o_ctr os).

End Ord.
