(* Refl/ClauseKeys.v -- the lookup keys NodePathMatcher::DoTraversalAux derives from a clause whose pattern is unique
   or a list of unique values (StorageReflectSession.cpp 1572-1600, DoDirectChildLookup 1612-1622), over the
   StringMatcher model of Pat/Translate.v.  Definitions only.

   This is the concrete [ckeys] of the class MatchOps (Refl/Base.v) that the correspondence driver uses; the
   traversal theorems take the law "a clause with keys matches exactly its keys" as a premise (C15 territory). *)
From Coq Require Import List NArith Bool.
From Muscle Require Import Gen.Consts Pat.Ere Pat.Translate.
Import ListNotations.
Local Open Scope N_scope.

Definition ch_comma : N := 44.

(* the comma-separated-list-of-unique-values loop (1577-1598): [scratch] is scratchStr, kept reversed *)
Fixpoint uv_loop (s : list N) (prevEsc : bool) (scratch : list N) : list (list N) :=
  match s with
  | [] => if is_nil scratch then [] else [rev scratch]
  | c :: t =>
    let curEsc := (c =? ch_bsl) && negb prevEsc in
    if curEsc then uv_loop t true scratch
    else if prevEsc || negb (c =? ch_comma) then uv_loop t false (c :: scratch)
    else if is_nil scratch then uv_loop t false []
    else rev scratch :: uv_loop t false []
  end.

(* the strings handed to node.GetChild(): DoDirectChildLookup applies RemoveEscapeChars to every key,
   also to the list items the loop above has already unescaped *)
Definition clause_keys (st : sm) : option (list (list N)) :=
  if is_uvlist st then Some (map unescape (uv_loop (s_pattern st) false []))
  else if is_unique st then Some [unescape (s_pattern st)]
  else None.
