(* Refl/ClauseKeys.v -- the lookup keys NodePathMatcher::DoTraversalAux derives from a clause whose pattern is unique
   or a list of unique values (StorageReflectSession.cpp 1572-1600, DoDirectChildLookup 1612-1622), over the
   StringMatcher model of Pat/Translate.v.  Definitions only.

   This is the concrete [ckeys] of the class MatchOps (Refl/Base.v) that the correspondence driver uses; the
   traversal theorems take the law "a clause with keys matches exactly its keys" as a premise (C15 territory). *)
From Coq Require Import List NArith Bool.
From Muscle Require Import Gen.Consts Pat.Ere Pat.Translate.
Import ListNotations.
Local Open Scope N_scope.

Definition ck_comma : N := 44.

(* the comma-separated-list-of-unique-values loop (1577-1598): [scratch] is scratchStr, kept reversed.
   [keep_esc] = the repair of finding F52: the escape characters stay in the item (as found they are dropped here
   although DoDirectChildLookup unescapes the item once more, which turns the item a\\b into ab) *)
Fixpoint uv_loop (keep_esc : bool) (s : list N) (prevEsc : bool) (scratch : list N) : list (list N) :=
  match s with
  | [] => if is_nil scratch then [] else [rev scratch]
  | c :: t =>
    let curEsc := (c =? ch_bsl) && negb prevEsc in
    if curEsc then uv_loop keep_esc t true (if keep_esc then c :: scratch else scratch)
    else if prevEsc || negb (c =? ck_comma) then uv_loop keep_esc t false (c :: scratch)
    else if is_nil scratch then uv_loop keep_esc t false []
    else rev scratch :: uv_loop keep_esc t false []
  end.

(* the strings handed to node.GetChild(): DoDirectChildLookup applies RemoveEscapeChars to every key *)
Definition clause_keys_with (keep_esc : bool) (st : sm) : option (list (list N)) :=
  if is_uvlist st then Some (map unescape (uv_loop keep_esc (s_pattern st) false []))
  else if is_unique st then Some [unescape (s_pattern st)]
  else None.

(* the same loop with the second repair (finding F63): an empty item is looked up too -- the list pattern a,,b matches the
   empty name, and SETDATA can create a node with an empty name *)
Fixpoint uv_loop_all (s : list N) (prevEsc : bool) (scratch : list N) : list (list N) :=
  match s with
  | [] => [rev scratch]
  | c :: t =>
    let curEsc := (c =? ch_bsl) && negb prevEsc in
    if curEsc then uv_loop_all t true (c :: scratch)
    else if prevEsc || negb (c =? ck_comma) then uv_loop_all t false (c :: scratch)
    else rev scratch :: uv_loop_all t false []
  end.

Definition clause_keys_all (st : sm) : option (list (list N)) :=
  if is_uvlist st then Some (map unescape (uv_loop_all (s_pattern st) false []))
  else if is_unique st then Some [unescape (s_pattern st)]
  else None.

(* following the sources the translator has just read *)
Definition clause_keys (st : sm) : option (list (list N)) :=
  if c_c05_uvempty_as_found =? 1 then clause_keys_with (negb (c_c05_uvkeys_as_found =? 1)) st
  else clause_keys_all st.
