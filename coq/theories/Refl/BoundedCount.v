(* Refl/BoundedCount.v -- C07: how often a traversal calls its callback.  For EVERY callback (whatever depth it answers),
   every pattern set, guard and filter setting, on a tree whose node paths are distinct, DoTraversal started at x calls
   the callback at most once per node strictly below x; so a measure of the accumulator that one call raises by at most
   one is raised by at most the number of nodes.  (No law of the clause matcher is needed: per node the code checks each
   child at most once -- the iteration path by construction, the hash-lookup path through `alreadyDid` -- and calls back /
   descends at most once per child through its `matched` / `recursed` flags.) *)
From Coq Require Import List NArith ZArith Bool Arith Lia.
From Muscle Require Import Gen.Consts Refl.Base Refl.Tree Refl.Matcher Refl.Traverse Refl.Session Refl.Server
  Refl.BoundedInv Refl.BoundedLoops.
Import ListNotations.

(* ------------------------------------------------------------------ counting nodes below a path *)

Lemma is_prefix_spec : forall p q, is_prefix p q = true <-> exists r, q = p ++ r.
Proof.
  intros p q. unfold is_prefix. destruct (strip_prefix p q) as [r|] eqn:E.
  - split; [intros _; exists r; apply strip_prefix_spec; exact E|reflexivity].
  - split; [discriminate|]. intros [r H]. apply strip_prefix_spec in H. rewrite H in E. discriminate.
Qed.

(* nodes at q or below *)
Definition cnt (t : tree) (q : path) : nat := length (filter (fun n => is_prefix q (n_path n)) t).

Definition b2n (b : bool) : nat := if b then 1 else 0.

Lemma list_sum_cons : forall a l, list_sum (a :: l) = a + list_sum l.
Proof. reflexivity. Qed.

Lemma cnt_cons : forall a t q, cnt (a :: t) q = b2n (is_prefix q (n_path a)) + cnt t q.
Proof. intros a t q. unfold cnt. cbn [filter]. destruct (is_prefix q (n_path a)); reflexivity. Qed.

Lemma desc_cons : forall a t x, desc (a :: t) x = b2n (under x (n_path a)) + desc t x.
Proof. intros a t x. unfold desc. cbn [filter]. destruct (under x (n_path a)); reflexivity. Qed.

Lemma under_not_self : forall q, under q q = false.
Proof.
  intros q. destruct (under q q) eqn:E; [|reflexivity]. apply under_spec in E. destruct E as [x [r E]].
  apply (f_equal (@length name)) in E. rewrite app_length in E. simpl in E. lia.
Qed.

Lemma under_is_prefix : forall q p, under q p = true -> is_prefix q p = true.
Proof. intros q p H. apply under_spec in H. destruct H as [x [r H]]. apply is_prefix_spec. exists (x :: r). exact H. Qed.

(* a node of the tree and everything below it *)
Lemma cnt_ge : forall t c, In c t -> 1 + desc t (n_path c) <= cnt t (n_path c).
Proof.
  intros t c Hin. unfold desc, cnt.
  pose proof (filter_length_lt node (fun n => under (n_path c) (n_path n)) (fun n => is_prefix (n_path c) (n_path n)) t c) as H.
  cbv beta in H. specialize (H (fun x Hx => under_is_prefix _ _ Hx) Hin).
  assert (Hp : is_prefix (n_path c) (n_path c) = true) by (apply is_prefix_spec; exists []; rewrite app_nil_r; reflexivity).
  specialize (H Hp (under_not_self _)). lia.
Qed.

(* distinct children of x *)
Definition good (x : path) (D : list path) : Prop := NoDup D /\ forall q, In q D -> exists k, q = x ++ [k].

Lemma good_nil : forall x, good x [].
Proof. intros x. split; [constructor|intros q []]. Qed.

Lemma child_prefix_unique : forall x k k' p, is_prefix (x ++ [k]) p = true -> is_prefix (x ++ [k']) p = true -> k = k'.
Proof.
  intros x k k' p H1 H2. apply is_prefix_spec in H1. apply is_prefix_spec in H2.
  destruct H1 as [r1 H1]. destruct H2 as [r2 H2]. rewrite H1 in H2. rewrite <- !app_assoc in H2.
  apply app_inv_head in H2. cbn in H2. inversion H2. reflexivity.
Qed.

Lemma no_other_prefix : forall x k p D,
  is_prefix (x ++ [k]) p = true -> (forall q, In q D -> exists k', q = x ++ [k']) -> ~ In (x ++ [k]) D ->
  list_sum (map (fun q => b2n (is_prefix q p)) D) = 0.
Proof.
  intros x k p D E. induction D as [|q D IH]; intros Hch Hnotin; cbn [map]; rewrite ?list_sum_cons; [reflexivity|].
  destruct (is_prefix q p) eqn:E'.
  - exfalso. destruct (Hch q (or_introl eq_refl)) as [k' Hk']. subst q.
    rewrite (child_prefix_unique x k k' p E E') in Hnotin. apply Hnotin. left. reflexivity.
  - change (b2n false) with 0. apply IH.
    + intros q0 H0. apply Hch. right. exact H0.
    + intros Hin. apply Hnotin. right. exact Hin.
Qed.

Lemma prefix_sum_le : forall x D p, good x D ->
  list_sum (map (fun q => b2n (is_prefix q p)) D) <= b2n (under x p).
Proof.
  intros x D p. induction D as [|q D IH]; intros [Hnd Hch]; cbn [map]; rewrite ?list_sum_cons.
  - apply Nat.le_0_l.
  - inversion Hnd as [|? ? Hnotin Hnd']; subst.
    assert (HgD : good x D) by (split; [exact Hnd'|intros q' Hq'; apply Hch; right; exact Hq']).
    destruct (is_prefix q p) eqn:E; [change (b2n true) with 1|change (b2n false) with 0].
    + destruct (Hch q (or_introl eq_refl)) as [k Hk]. subst q.
      assert (Hu : under x p = true).
      { apply is_prefix_spec in E. destruct E as [r E]. apply under_spec. exists k, r. rewrite E, <- app_assoc. reflexivity. }
      rewrite Hu. change (b2n true) with 1.
      rewrite (no_other_prefix x k p D E (proj2 HgD) Hnotin). lia.
    + specialize (IH HgD). lia.
Qed.

Lemma list_sum_map_add : forall (A : Type) (f g : A -> nat) (l : list A),
  list_sum (map (fun a => f a + g a) l) = list_sum (map f l) + list_sum (map g l).
Proof. intros A f g l. induction l as [|a l IH]; cbn [map]; rewrite ?list_sum_cons; [reflexivity|lia]. Qed.

(* the subtrees of distinct children of x are disjoint parts of what lies below x *)
Lemma sum_cnt_le : forall t x D, good x D -> list_sum (map (cnt t) D) <= desc t x.
Proof.
  induction t as [|a t IH]; intros x D Hg.
  - unfold cnt, desc. cbn [filter length]. induction D as [|q D IHD]; cbn [map]; rewrite ?list_sum_cons; [cbn; lia|].
    apply IHD. destruct Hg as [Ha Hb]. split; [inversion Ha; assumption|intros q0 H0; apply Hb; right; exact H0].
  - rewrite desc_cons.
    rewrite (map_ext (cnt (a :: t)) (fun q => b2n (is_prefix q (n_path a)) + cnt t q)) by (intros q; apply cnt_cons).
    rewrite list_sum_map_add. pose proof (prefix_sum_le x D (n_path a) Hg). specialize (IH x D Hg). lia.
Qed.

Lemma NoDup_map_filter' : forall (A B : Type) (f : A -> B) (g : A -> bool) (l : list A),
  NoDup (map f l) -> NoDup (map f (filter g l)).
Proof.
  intros A B f g l. induction l as [|a l IH]; intros H; cbn [filter map]; [constructor|].
  inversion H as [|? ? Hn Hd]; subst. destruct (g a); cbn [map]; [|apply IH; exact Hd].
  constructor; [|apply IH; exact Hd]. intros Hin. apply Hn. apply in_map_iff in Hin. destruct Hin as [b [Hb1 Hb2]].
  apply filter_In in Hb2. apply in_map_iff. exists b. split; [exact Hb1|apply Hb2].
Qed.

Lemma find_node_sound : forall t p n, find_node t p = Some n -> In n t /\ n_path n = p.
Proof.
  induction t as [|a t IH]; intros p n H; cbn [find_node] in H; [discriminate|].
  destruct (path_eqb (n_path a) p) eqn:E.
  - inversion H; subst. split; [left; reflexivity|apply path_eqb_eq; exact E].
  - destruct (IH p n H) as [H1 H2]. split; [right; exact H1|exact H2].
Qed.

Lemma path_mem_iff : forall p l, path_mem p l = true <-> In p l.
Proof.
  intros p l. induction l as [|q l IH]; cbn [path_mem In]; [split; [discriminate|contradiction]|].
  rewrite orb_true_iff, IH, path_eqb_eq. reflexivity.
Qed.

(* ------------------------------------------------------------------ the traversal *)

Section TravCost.
Context {M : MatchOps}.
Variable A : Type.
Variable cb : A -> node -> A * Z.
Variable t : tree.
Variable m : matcher.
Variable rd : nat.
Variable uf gf : bool.
Variable mu : A -> nat.
Variable Q : A -> Prop.
Hypothesis Hcb : forall acc n, Q acc -> Q (fst (cb acc n)) /\ mu (fst (cb acc n)) <= mu acc + 1.
Hypothesis HND : NoDup (map n_path t).

Definition rec_ok (rec : path -> A -> A * Z) : Prop :=
  forall p acc, Q acc -> Q (fst (rec p acc)) /\ mu (fst (rec p acc)) <= mu acc + desc t p.

Lemma check_entries_cost : forall (rec : path -> A -> A * Z), rec_ok rec ->
  forall es child rel known idx matched recursed acc, Q acc ->
  let r := check_entries A cb m rd uf gf rec child rel known es idx matched recursed acc in
  Q (fst r) /\ mu (fst r) <= mu acc + (if matched then 0 else 1) + (if recursed then 0 else desc t (n_path child)).
Proof.
  intros rec Hrec es. induction es as [|e es IH]; intros child rel known idx matched recursed acc HQ; cbn [check_entries]; cbv zeta.
  - cbn [fst]. split; [exact HQ|lia].
  - outer_if; [|apply IH; exact HQ].
    outer_if.
    + destruct matched; [apply (IH child rel known (S idx) true recursed acc HQ)|].
      outer_if; [|apply (IH child rel known (S idx) false recursed acc HQ)].
      destruct (Hcb acc child HQ) as [HQ1 Hm1]. destruct (cb acc child) as [acc1 nd]. cbn [fst] in *.
      outer_if; [cbn [fst]; split; [exact HQ1|destruct recursed; lia]|].
      destruct recursed; [cbn [fst]; split; [exact HQ1|lia]|].
      destruct (IH child rel known (S idx) true false acc1 HQ1) as [H1 H2]. split; [exact H1|]. cbv zeta in H2. lia.
    + destruct recursed; [apply (IH child rel known (S idx) matched true acc HQ)|].
      destruct (Hrec (n_path child) acc HQ) as [HQ1 Hm1]. destruct (rec (n_path child) acc) as [acc1 nd]. cbn [fst] in *.
      outer_if; [cbn [fst]; split; [exact HQ1|destruct matched; lia]|].
      destruct matched; [cbn [fst]; split; [exact HQ1|lia]|].
      destruct (IH child rel known (S idx) false true acc1 HQ1) as [H1 H2]. split; [exact H1|]. cbv zeta in H2. lia.
Qed.

Lemma check_child_cost : forall (rec : path -> A -> A * Z), rec_ok rec ->
  forall child rel known acc, Q acc -> In child t ->
  let r := check_child A cb m rd uf gf rec child rel known acc in
  Q (fst r) /\ mu (fst r) <= mu acc + cnt t (n_path child).
Proof.
  intros rec Hrec child rel known acc HQ Hin. unfold check_child.
  destruct (check_entries_cost rec Hrec (active m rel) child rel known 0 false false acc HQ) as [H1 H2].
  cbv zeta in *. split; [exact H1|]. pose proof (cnt_ge t child Hin). lia.
Qed.

Lemma iter_children_cost : forall (rec : path -> A -> A * Z), rec_ok rec ->
  forall cs rel acc, Q acc -> (forall c, In c cs -> In c t) ->
  let r := iter_children A cb m rd uf gf rec rel cs acc in
  Q (fst r) /\ mu (fst r) <= mu acc + list_sum (map (cnt t) (map n_path cs)).
Proof.
  intros rec Hrec cs. induction cs as [|c cs IH]; intros rel acc HQ Hin; cbn [iter_children map]; rewrite ?list_sum_cons.
  - cbn [fst]. split; [exact HQ|lia].
  - destruct (check_child_cost rec Hrec c rel None acc HQ (Hin c (or_introl eq_refl))) as [H1 H2]. cbv zeta in *.
    destruct (check_child A cb m rd uf gf rec c rel None acc) as [acc1 [d|]]; cbn [fst] in *.
    + split; [exact H1|lia].
    + destruct (IH rel acc1 H1 (fun c' Hc' => Hin c' (or_intror Hc'))) as [H3 H4]. cbv zeta in *. split; [exact H3|lia].
Qed.

Notation Wc D := (list_sum (map (cnt t) D)).

Lemma lookup_keys_cost : forall (rec : path -> A -> A * Z), rec_ok rec ->
  forall x ks rel idx did acc, Q acc -> good x did ->
  match lookup_keys A cb t m rd uf gf rec x rel idx ks did acc with
  | (acc', did', None) => Q acc' /\ good x did' /\ mu acc' + Wc did <= mu acc + Wc did'
  | (acc', _, Some _) => Q acc' /\ exists D, good x D /\ mu acc' + Wc did <= mu acc + Wc D
  end.
Proof.
  intros rec Hrec x ks. induction ks as [|k ks IH]; intros rel idx did acc HQ Hg; cbn [lookup_keys].
  - split; [exact HQ|]. split; [exact Hg|lia].
  - destruct (get_child t x k) as [c|] eqn:Hc; [|apply IH; assumption].
    unfold get_child in Hc. apply find_node_sound in Hc. destruct Hc as [Hin Hp].
    destruct (path_mem (n_path c) did) eqn:Hm; [apply IH; assumption|].
    destruct (check_child_cost rec Hrec c rel (Some idx) acc HQ Hin) as [H1 H2]. cbv zeta in *.
    assert (Hg' : good x (n_path c :: did)).
    { destruct Hg as [Ha Hb]. split.
      - constructor; [|exact Ha]. intros Hi. apply path_mem_iff in Hi. congruence.
      - intros q [Hq|Hq]; [exists k; congruence|apply Hb; exact Hq]. }
    destruct (check_child A cb m rd uf gf rec c rel (Some idx) acc) as [acc1 [d|]]; cbn [fst] in *.
    + split; [exact H1|]. exists (n_path c :: did). split; [exact Hg'|]. cbn [map]; rewrite ?list_sum_cons. lia.
    + specialize (IH rel idx (n_path c :: did) acc1 H1 Hg').
      destruct (lookup_keys A cb t m rd uf gf rec x rel idx ks (n_path c :: did) acc1) as [[acc' did'] [d|]].
      * destruct IH as [Ha [D [Hb Hc]]]. split; [exact Ha|]. exists D. split; [exact Hb|]. cbn [map] in Hc; rewrite ?list_sum_cons in Hc. lia.
      * destruct IH as [Ha [Hb Hc]]. split; [exact Ha|]. split; [exact Hb|]. cbn [map] in Hc; rewrite ?list_sum_cons in Hc. lia.
Qed.

Lemma lookup_entries_cost : forall (rec : path -> A -> A * Z), rec_ok rec ->
  forall x es rel idx did acc, Q acc -> good x did ->
  let r := lookup_entries A cb t m rd uf gf rec x rel es idx did acc in
  Q (fst r) /\ exists D, good x D /\ mu (fst r) + Wc did <= mu acc + Wc D.
Proof.
  intros rec Hrec x es. induction es as [|e es IH]; intros rel idx did acc HQ Hg; cbn [lookup_entries]; cbv zeta.
  - cbn [fst]. split; [exact HQ|]. exists did. split; [exact Hg|lia].
  - match goal with |- context [lookup_keys A cb t m rd uf gf rec x rel idx ?ks did acc] =>
      pose proof (lookup_keys_cost rec Hrec x ks rel idx did acc HQ Hg) as Hk;
      destruct (lookup_keys A cb t m rd uf gf rec x rel idx ks did acc) as [[acc1 did1] [d|]]
    end.
    + cbn [fst]. destruct Hk as [Ha [D [Hb Hc]]]. split; [exact Ha|]. exists D. split; assumption.
    + destruct Hk as [Ha [Hb Hc]].
      destruct (IH rel (S idx) did1 acc1 Ha Hb) as [H3 [D [H4 H5]]]. cbv zeta in *.
      split; [exact H3|]. exists D. split; [exact H4|lia].
Qed.

Lemma trav_cost : forall fuel, rec_ok (trav A cb t m rd uf gf fuel).
Proof.
  induction fuel as [|f IH]; intros x acc HQ; cbn [trav].
  - cbn [fst]. split; [exact HQ|lia].
  - cbv zeta. outer_if.
    + assert (Hin : forall c, In c (children t x) -> In c t) by (intros c Hc; unfold children in Hc; apply filter_In in Hc; apply Hc).
      destruct (iter_children_cost (trav A cb t m rd uf gf f) IH (children t x) (length x - rd) acc HQ Hin) as [H1 H2]. cbv zeta in *.
      assert (Hg : good x (map n_path (children t x))).
      { split; [unfold children; apply NoDup_map_filter'; exact HND|].
        intros q Hq. apply in_map_iff in Hq. destruct Hq as [c [Hc1 Hc2]]. unfold children in Hc2. apply filter_In in Hc2.
        destruct Hc2 as [_ Hc2]. apply is_child_spec in Hc2. destruct Hc2 as [k Hk]. exists k. congruence. }
      pose proof (sum_cnt_le t x _ Hg) as Hs.
      destruct (iter_children A cb m rd uf gf (trav A cb t m rd uf gf f) (length x - rd) (children t x) acc) as [acc1 [d|]];
        cbn [fst] in *; (split; [exact H1|lia]).
    + destruct (lookup_entries_cost (trav A cb t m rd uf gf f) IH x (active m (length x - rd)) (length x - rd) 0 [] acc HQ (good_nil x))
        as [H1 [D [H2 H3]]]. cbv zeta in *.
      pose proof (sum_cnt_le t x D H2) as Hs. cbn [map] in H3; rewrite ?list_sum_cons in H3.
      destruct (lookup_entries A cb t m rd uf gf (trav A cb t m rd uf gf f) x (length x - rd) (active m (length x - rd)) 0 [] acc)
        as [acc1 [d|]]; cbn [fst] in *; (split; [exact H1|lia]).
Qed.

End TravCost.

Lemma desc_le_length : forall t x, desc t x <= length t.
Proof.
  intros t x. unfold desc.
  pose proof (filter_length_le node (fun n => under x (n_path n)) (fun _ => true) t (fun _ _ => eq_refl)) as H.
  rewrite filter_true in H. exact H.
Qed.

(* DoTraversal calls its callback at most |tree| times *)
Theorem do_traversal_cost : forall {M : MatchOps} (A : Type) (cb : A -> node -> A * Z) (mu : A -> nat) (Q : A -> Prop),
  (forall acc n, Q acc -> Q (fst (cb acc n)) /\ mu (fst (cb acc n)) <= mu acc + 1) ->
  forall t m root uf gf acc, NoDup (map n_path t) -> Q acc ->
  Q (do_traversal cb t m root uf gf acc) /\ mu (do_traversal cb t m root uf gf acc) <= mu acc + length t.
Proof.
  intros M A cb mu Q Hcb t m root uf gf acc HND HQ. unfold do_traversal.
  destruct (trav_cost A cb t m (length root) uf gf mu Q Hcb HND (S (max_clauses m)) root acc HQ) as [H1 H2].
  split; [exact H1|]. pose proof (desc_le_length t root). lia.
Qed.
