(* Refl/BoundedProofs.v -- C07: fuel adequacy of the handler loops of Refl/Bounded.v. *)
From Coq Require Import List NArith ZArith Bool Arith Lia.
From Muscle Require Import Gen.Consts Refl.Base Refl.Tree Refl.Matcher Refl.Traverse Refl.Session Refl.Server Refl.Bounded.
Import ListNotations.

Lemma remove_nth_length_lt : forall (A : Type) (n : nat) (l : list A),
  n < length l -> length (remove_nth n l) = length l - 1.
Proof.
  intros A n l Hn. unfold remove_nth.
  rewrite app_length, firstn_length, skipn_length. lia.
Qed.

Lemma remove_nth_out_of_range : forall (A : Type) (n : nat) (l : list A),
  length l <= n -> remove_nth n l = l.
Proof.
  intros A n l Hn. unfold remove_nth.
  rewrite firstn_all2 by lia. rewrite skipn_all2 by lia. apply app_nil_r.
Qed.
