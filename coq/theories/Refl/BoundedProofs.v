(* Refl/BoundedProofs.v -- C07: fuel adequacy and meaning of the handler loops of Refl/Bounded.v.
   Part 1: the list-editing loops (JettisonOutgoingResults, PushSubscriptionMessages) and the dispatch. *)
From Coq Require Import List NArith ZArith Bool Arith Lia.
From Muscle Require Import Gen.Consts Refl.Base Refl.Tree Refl.Matcher Refl.Traverse Refl.Session Refl.Server
  Refl.Bounded Refl.BoundedSpec.
Import ListNotations.

(* ------------------------------------------------------------------ remove_nth / replace_nth *)

Lemma remove_nth_length_lt : forall (A : Type) (n : nat) (l : list A),
  n < length l -> length (remove_nth n l) = length l - 1.
Proof.
  intros A n l Hn. unfold remove_nth.
  rewrite app_length, firstn_length, skipn_length. lia.
Qed.

Lemma remove_nth_out_of_range : forall (A : Type) (n : nat) (l : list A),
  length l <= n -> remove_nth n l = l.
Proof.
  intros A n l Hn. unfold remove_nth.
  rewrite firstn_all2 by lia. rewrite skipn_all2 by lia. apply app_nil_r.
Qed.

Lemma remove_nth_app : forall (A : Type) (pre : list A) (x : A) (suf : list A),
  remove_nth (length pre) (pre ++ x :: suf) = pre ++ suf.
Proof.
  intros A pre x suf. unfold remove_nth.
  rewrite firstn_app, Nat.sub_diag, firstn_all, firstn_O, app_nil_r.
  replace (S (length pre)) with (length (pre ++ [x])) by (rewrite app_length; simpl; lia).
  replace (pre ++ x :: suf) with ((pre ++ [x]) ++ suf) by (rewrite <- app_assoc; reflexivity).
  rewrite skipn_app, Nat.sub_diag, skipn_all, skipn_O. reflexivity.
Qed.

Lemma replace_nth_app : forall (A : Type) (pre : list A) (x y : A) (suf : list A),
  replace_nth (length pre) (pre ++ x :: suf) y = pre ++ y :: suf.
Proof.
  intros A pre x y suf. induction pre as [|a pre IH]; simpl.
  - reflexivity.
  - rewrite IH. reflexivity.
Qed.

Lemma nth_error_app_len : forall (A : Type) (pre : list A) (x : A) (suf : list A),
  nth_error (pre ++ x :: suf) (length pre) = Some x.
Proof.
  intros A pre x suf. rewrite nth_error_app2 by lia. rewrite Nat.sub_diag. reflexivity.
Qed.

Lemma nth_error_app_end : forall (A : Type) (pre : list A),
  nth_error pre (length pre) = None.
Proof. intros A pre. apply nth_error_None. lia. Qed.

(* ------------------------------------------------------------------ weights *)

Section Proofs.
Context {M : MatchOps}.

Lemma list_max_ge : forall (l : list nat) (x : nat), In x l -> x <= list_max l.
Proof.
  induction l as [|a l IH]; intros x Hin; simpl in *.
  - contradiction.
  - destruct Hin as [->|Hin]; [lia|]. specialize (IH x Hin). lia.
Qed.

Lemma qweight_ge : forall (q : list omsg) (x : omsg), In x q -> omsg_weight x <= qweight q.
Proof. intros q x Hin. unfold qweight. apply list_max_ge. apply in_map. exact Hin. Qed.

Lemma sets_weight_ge : forall (fs : list (path * list payload)) (p : path) (vs : list payload),
  In (p, vs) fs -> length vs <= sets_weight fs.
Proof.
  induction fs as [|[q ws] fs IH]; intros p vs Hin; simpl in *.
  - contradiction.
  - unfold sets_weight in *. simpl. destruct Hin as [Heq|Hin].
    + inversion Heq; subst. lia.
    + specialize (IH p vs Hin). lia.
Qed.

(* ------------------------------------------------------------------ the removed-strings loop *)

Lemma jett_removed_spec : forall (m : matcher) (suf pre : list path) (fuel : nat),
  length suf < fuel ->
  jett_removed m fuel (pre ++ suf) (length pre) = Some (pre ++ filter (keep_removed m) suf).
Proof.
  intros m suf. induction suf as [|p suf IH]; intros pre fuel Hf.
  - destruct fuel as [|f]; [simpl in Hf; lia|]. simpl.
    rewrite app_nil_r. rewrite nth_error_app_end. reflexivity.
  - destruct fuel as [|f]; [simpl in Hf; lia|].
    cbn [jett_removed]. rewrite nth_error_app_len. unfold keep_removed at 1. cbn [filter].
    destruct (matches_path m p None) eqn:Hm; cbn [negb].
    + rewrite remove_nth_app. apply IH. simpl in Hf. lia.
    + replace (pre ++ p :: suf) with ((pre ++ [p]) ++ suf) by (rewrite <- app_assoc; reflexivity).
      replace (S (length pre)) with (length (pre ++ [p])) by (rewrite app_length; simpl; lia).
      rewrite IH by (simpl in Hf; lia). rewrite <- app_assoc. reflexivity.
Qed.

(* ------------------------------------------------------------------ the per-field item loop, repaired (IDX = j) *)

Lemma jett_items_spec : forall (m : matcher) (i : nat) (p : path) (suf pre : list payload) (fuel : nat),
  length suf < fuel ->
  jett_items true m fuel i p (pre ++ suf) (length pre) = Some (pre ++ filter (keep_value m p) suf).
Proof.
  intros m i p suf. induction suf as [|v suf IH]; intros pre fuel Hf.
  - destruct fuel as [|f]; [simpl in Hf; lia|]. simpl.
    rewrite app_nil_r. rewrite nth_error_app_end. reflexivity.
  - destruct fuel as [|f]; [simpl in Hf; lia|].
    cbn [jett_items]. rewrite nth_error_app_len. unfold keep_value at 1. cbn [filter].
    destruct (matches_path m p (Some v)) eqn:Hm; cbn [negb].
    + rewrite remove_nth_app. apply IH. simpl in Hf. lia.
    + replace (pre ++ v :: suf) with ((pre ++ [v]) ++ suf) by (rewrite <- app_assoc; reflexivity).
      replace (S (length pre)) with (length (pre ++ [v])) by (rewrite app_length; simpl; lia).
      rewrite IH by (simpl in Hf; lia). rewrite <- app_assoc. reflexivity.
Qed.

(* as found (IDX = i, the queue index): when the current value is to go and the field holds no more than i values,
   nothing is removed and j does not advance -- for every amount of fuel *)
Lemma jett_items_stuck : forall (m : matcher) (i : nat) (p : path) (vs : list payload) (j : nat) (v : payload),
  nth_error vs j = Some v -> matches_path m p (Some v) = true -> length vs <= i ->
  forall fuel, jett_items false m fuel i p vs j = None.
Proof.
  intros m i p vs j v Hn Hm Hi fuel. induction fuel as [|f IH].
  - reflexivity.
  - cbn [jett_items]. rewrite Hn, Hm. rewrite remove_nth_out_of_range by exact Hi. exact IH.
Qed.

(* ------------------------------------------------------------------ one Message *)

Lemma jett_removed_spec0 : forall (m : matcher) (rs : list path) (fuel : nat),
  length rs < fuel -> jett_removed m fuel rs 0 = Some (filter (keep_removed m) rs).
Proof. intros m rs fuel Hf. exact (jett_removed_spec m rs [] fuel Hf). Qed.

Lemma jett_items_spec0 : forall (m : matcher) (i : nat) (p : path) (vs : list payload) (fuel : nat),
  length vs < fuel -> jett_items true m fuel i p vs 0 = Some (filter (keep_value m p) vs).
Proof. intros m i p vs fuel Hf. exact (jett_items_spec m i p vs [] fuel Hf). Qed.

Definition field_vals (m : matcher) (p : path) (vs : list payload) : list payload :=
  if N.ltb 0 (m_nfilters m) then filter (keep_value m p) vs
  else if matches_path m p None then [] else vs.

Lemma field_spec_vals : forall (m : matcher) (p : path) (vs : list payload),
  field_spec m (p, vs) = match field_vals m p vs with [] => [] | _ => [(p, field_vals m p vs)] end.
Proof. reflexivity. Qed.

Lemma field_cur_vals : forall (m : matcher) (i : nat) (fuel : nat) (p : path) (vs : list payload),
  length vs < fuel ->
  (if N.ltb 0 (m_nfilters m) then jett_items true m fuel i p vs 0
   else if matches_path m p None then Some [] else Some vs) = Some (field_vals m p vs).
Proof.
  intros m i fuel p vs Hvs. unfold field_vals.
  destruct (N.ltb 0 (m_nfilters m)).
  - apply jett_items_spec0. exact Hvs.
  - destruct (matches_path m p None); reflexivity.
Qed.

Lemma jett_fields_spec : forall (m : matcher) (i : nat) (fuel : nat) (fs : list (path * list payload)),
  sets_weight fs < fuel ->
  jett_fields true m fuel i fs = Some (flat_map (field_spec m) fs).
Proof.
  intros m i fuel fs. induction fs as [|[p vs] fs IH]; intros Hf.
  - reflexivity.
  - assert (Hvs : length vs < fuel) by (unfold sets_weight in Hf; simpl in Hf; lia).
    assert (Hfs : sets_weight fs < fuel) by (unfold sets_weight in *; simpl in Hf; lia).
    cbn [jett_fields flat_map]. rewrite (field_cur_vals m i fuel p vs Hvs). rewrite (IH Hfs).
    rewrite field_spec_vals. destruct (field_vals m p vs); reflexivity.
Qed.

Lemma jett_msg_spec : forall (m : matcher) (i : nat) (fuel : nat) (d : ditems),
  di_weight d < fuel -> jett_msg true m fuel i d = Some (msg_spec m d).
Proof.
  intros m i fuel d Hf. unfold jett_msg, di_weight in *.
  rewrite jett_removed_spec0 by lia.
  rewrite jett_fields_spec by lia. reflexivity.
Qed.

(* ------------------------------------------------------------------ the queue *)

Lemma jett_queue_spec : forall (om : option matcher) (fuel : nat) (pre done : list omsg),
  qweight pre < fuel ->
  jett_queue true om fuel (length pre) (pre ++ done) = Some (jq_spec om pre ++ done).
Proof.
  intros om fuel pre. induction pre as [|x pre IH] using rev_ind; intros done Hf.
  - reflexivity.
  - rewrite app_length. simpl length. rewrite Nat.add_1_r. cbn [jett_queue].
    rewrite <- app_assoc. cbn [app]. rewrite nth_error_app_len.
    assert (Hpre : qweight pre < fuel).
    { unfold qweight in *. rewrite map_app, list_max_app in Hf. lia. }
    assert (Hx : omsg_weight x < fuel).
    { pose proof (qweight_ge (pre ++ [x]) x ltac:(apply in_or_app; right; left; reflexivity)). lia. }
    unfold jq_spec. rewrite flat_map_app. cbn [flat_map]. rewrite app_nil_r. rewrite <- app_assoc.
    destruct x as [d|id roots|t|code what]; cbn [omsg_spec]; try (rewrite IH by exact Hpre; reflexivity).
    assert (Hd : (match om with Some m => jett_msg true m fuel (length pre) d | None => Some empty_di end)
                 = Some (match om with Some m => msg_spec m d | None => empty_di end)).
    { destruct om as [m|]; [|reflexivity]. apply jett_msg_spec. exact Hx. }
    rewrite Hd.
    destruct (di_has_names (match om with Some m => msg_spec m d | None => empty_di end)).
    + rewrite replace_nth_app. rewrite IH by exact Hpre. reflexivity.
    + rewrite remove_nth_app. rewrite IH by exact Hpre. reflexivity.
Qed.

(* JettisonOutgoingResults, repaired: returns within fuel "heaviest queued Message + 1" and removes exactly what matches *)
Lemma jettison_results_spec : forall (om : option matcher) (fuel : nat) (q : list omsg),
  qweight q < fuel -> jettison_results true om fuel q = Some (jq_spec om q).
Proof.
  intros om fuel q Hf. unfold jettison_results.
  pose proof (jett_queue_spec om fuel q [] Hf) as H. rewrite !app_nil_r in H. exact H.
Qed.

Lemma jettison_results_fuel : forall (om : option matcher) (fuel : nat) (q : list omsg),
  qweight q < fuel -> exists q', jettison_results true om fuel q = Some q'.
Proof. intros om fuel q Hf. eexists. apply jettison_results_spec. exact Hf. Qed.

(* ------------------------------------------------------------------ PushSubscriptionMessages *)

Lemma push_loop_spec : forall (fuel : nat) (sv : server), 2 <= fuel -> push_loop fuel sv = Some (push_all sv).
Proof.
  intros fuel sv Hf. destruct fuel as [|[|f]]; try lia.
  unfold push_all. cbn [push_loop]. destruct (sv_dirty sv) eqn:Hd; cbn [sv_dirty]; reflexivity.
Qed.

Lemma bpush_spec_ok : forall (fuel : nat) (b : bserver), 2 <= fuel -> bpush fuel b = Some (bpush_spec b).
Proof. intros fuel b Hf. unfold bpush, bpush_spec. rewrite push_loop_spec by exact Hf. reflexivity. Qed.

(* ------------------------------------------------------------------ induction over nested batches *)

Section BcmdInd.
Variable P : bcmd -> Prop.
Hypothesis HBase : forall c, P (BBase c).
Hypothesis HSup : forall flags items, P (BSetSup flags items).
Hypothesis HPing : forall t, P (BPing t).
Hypothesis HNoop : P BNoop.
Hypothesis HBounce : forall code what, P (BBounce code what).
Hypothesis HJR : forall keys, P (BJettResults keys).
Hypothesis HJT : forall ids, P (BJettTrees ids).
Hypothesis HGT : forall id keys, P (BGetTrees id keys).
Hypothesis HBatch : forall l, Forall P l -> P (BBatch l).

Fixpoint bcmd_ind' (c : bcmd) : P c :=
  match c with
  | BBase c0 => HBase c0
  | BSetSup flags items => HSup flags items
  | BPing t => HPing t
  | BNoop => HNoop
  | BBounce code what => HBounce code what
  | BJettResults keys => HJR keys
  | BJettTrees ids => HJT ids
  | BGetTrees id keys => HGT id keys
  | BBatch l =>
    HBatch l ((fix go (l : list bcmd) : Forall P l :=
                 match l with
                 | [] => Forall_nil P
                 | x :: r => Forall_cons x (bcmd_ind' x) (go r)
                 end) l)
  end.
End BcmdInd.

(* ------------------------------------------------------------------ the dispatch: fuel adequacy and meaning *)

(* handler_fuel: with the repaired jettison loop, MessageReceivedFromGateway returns for every command in every state
   as soon as the fuel exceeds the weight of the heaviest outgoing Message a jettison pass meets (and 2, for the
   while-dirty loop); what it returns is the fuel-free meaning [bhandle_spec]. *)
Lemma handler_fuel : forall (fx : fixes) (c : bcmd) (fuel nest : nat) (b : bserver) (s : sid),
  2 <= fuel -> hpeak fx nest b s c < fuel ->
  bhandle fx true fuel nest b s c = Some (bhandle_spec fx nest b s c).
Proof.
  intros fx c fuel. induction c as [c0|flags items|t| |code what|keys|ids|id keys|l IHl] using bcmd_ind';
    intros nest b s Hf2 Hpk.
  - cbn [bhandle bhandle_spec]. destruct (get_session (b_sv b) s); reflexivity.
  - cbn [bhandle bhandle_spec]. destruct (get_session (b_sv b) s); reflexivity.
  - cbn [bhandle bhandle_spec]. destruct (get_session (b_sv b) s); reflexivity.
  - cbn [bhandle bhandle_spec]. destruct (get_session (b_sv b) s); reflexivity.
  - cbn [bhandle bhandle_spec]. destruct (get_session (b_sv b) s); reflexivity.
  - cbn [bhandle bhandle_spec hpeak] in *. destruct (get_session (b_sv b) s); [|reflexivity].
    unfold jett_matcher.
    rewrite jettison_results_spec by exact Hpk. reflexivity.
  - cbn [bhandle bhandle_spec]. destruct (get_session (b_sv b) s); reflexivity.
  - cbn [bhandle bhandle_spec]. destruct (get_session (b_sv b) s); reflexivity.
  - cbn [bhandle bhandle_spec hpeak] in *. destruct (get_session (b_sv b) s); [|reflexivity].
    destruct (Nat.ltb nest max_batch_nest); [|reflexivity].
    revert b Hpk. induction IHl as [|c' r Hc' _ IHr]; intros b Hpk.
    + reflexivity.
    + rewrite (Hc' (S nest) b s Hf2) by lia.
      rewrite bpush_spec_ok by exact Hf2.
      apply IHr. lia.
Qed.

Lemma handler_returns : forall (fx : fixes) (c : bcmd) (nest : nat) (b : bserver) (s : sid),
  exists fuel0, forall fuel, fuel0 <= fuel -> exists b', bhandle fx true fuel nest b s c = Some b'.
Proof.
  intros fx c nest b s. exists (S (S (hpeak fx nest b s c))). intros fuel Hf.
  eexists. apply handler_fuel; lia.
Qed.

(* server_step_total: one turn of the event loop returns, for every event in every state *)
Lemma server_step_total : forall (fx : fixes) (fuel : nat) (b : bserver) (ev : bevent),
  2 <= fuel -> speak fx b ev < fuel -> bstep fx true fuel b ev = Some (bstep_spec fx b ev).
Proof.
  intros fx fuel b ev Hf2 Hpk. destruct ev as [s host nm|s|s bl|s c]; cbn [bstep bstep_spec speak] in *.
  - destruct (get_session (b_sv b) s); reflexivity.
  - reflexivity.
  - reflexivity.
  - destruct (get_session (b_sv b) s); [|reflexivity].
    rewrite handler_fuel by assumption. rewrite bpush_spec_ok by exact Hf2. reflexivity.
Qed.

Lemma server_run_total : forall (fx : fixes) (fuel : nat) (evs : list bevent) (b : bserver),
  2 <= fuel -> rpeak fx evs b < fuel -> brun fx true fuel evs b = Some (brun_spec fx evs b).
Proof.
  intros fx fuel evs. induction evs as [|ev r IH]; intros b Hf2 Hpk.
  - reflexivity.
  - cbn [brun rpeak] in *. rewrite server_step_total by lia.
    unfold brun_spec. cbn [fold_left]. apply IH; [exact Hf2|lia].
Qed.

(* ------------------------------------------------------------------ the sources at hand *)

(* the per-field item loop of the sources the check runs on passes the item index j to RemoveData (regenerated flag
   c_c07_jettison_removes_item_j): were the queue index i to come back, this lemma -- and with it the theorems about the
   code at hand -- would no longer check *)
Lemma code_jfix_true : code_jfix = true.
Proof. reflexivity. Qed.

Lemma code_step_total : forall (fuel : nat) (b : bserver) (ev : bevent),
  2 <= fuel -> speak code_fixes b ev < fuel ->
  bstep code_fixes code_jfix fuel b ev = Some (bstep_spec code_fixes b ev).
Proof. intros fuel b ev. rewrite code_jfix_true. apply server_step_total. Qed.

Lemma code_run_total : forall (fuel : nat) (evs : list bevent) (b : bserver),
  2 <= fuel -> rpeak code_fixes evs b < fuel ->
  brun code_fixes code_jfix fuel evs b = Some (brun_spec code_fixes evs b).
Proof. intros fuel evs b. rewrite code_jfix_true. apply server_run_total. Qed.

End Proofs.
