(* Refl/IndexLogProofs.v -- C13: the logged output of a command (st_out: what the correspondence run compares with
   the PR_RESULT_INDEXUPDATED Messages the real clients receive) is exactly what enters the replayed history.
   So: replaying a step's logged stream for (client, node) onto the replica the client held before the step
   yields the server's index after the step. *)
From Coq Require Import List Arith Bool Lia.
Import ListNotations.
From Muscle Require Import Refl.Index Refl.IndexProofs Refl.IndexModel Refl.IndexModelProofs Refl.IndexRunProofs.

(* nothing a client can see or holds has changed *)
Definition same_client (st st' : state) : Prop :=
  st_out st' = st_out st /\ st_hist st' = st_hist st /\ st_mirror st' = st_mirror st /\ st_subs st' = st_subs st.

Lemma sc_refl : forall st, same_client st st.
Proof. intro st. repeat split; reflexivity. Qed.

Lemma sc_trans : forall a b c, same_client a b -> same_client b c -> same_client a c.
Proof. intros a b c (A1 & A2 & A3 & A4) (B1 & B2 & B3 & B4). repeat split; congruence. Qed.

Lemma sc_fold : forall (A : Type) (f : state -> A -> state) l st,
  (forall st a, same_client st (f st a)) -> same_client st (fold_left f l st).
Proof.
  intros A f l. induction l as [|a l IH]; intros st H; [apply sc_refl|]. simpl.
  eapply sc_trans; [apply H | apply IH; exact H].
Qed.

Ltac sc := unfold same_client; repeat split; reflexivity.

Lemma sc_put_idx : forall st p n ops, same_client st (put_idx st p n ops).
Proof. intros. sc. Qed.

Lemma sc_with_tree : forall st t, same_client st (with_tree st t).
Proof. intros. sc. Qed.

Lemma sc_set_ipres : forall st s, same_client st (set_ipres st s).
Proof. intros. sc. Qed.

Lemma sc_prim_remove_entry : forall st p k, same_client st (prim_remove_entry st p k).
Proof.
  intros st p k. unfold prim_remove_entry. destruct (has_node (st_tree st) p); [|apply sc_refl].
  destruct (remove_index_entry (node_at st p) k). apply sc_put_idx.
Qed.

Lemma sc_prim_remove_entry_at : forall st p pos, same_client st (prim_remove_entry_at st p pos).
Proof.
  intros st p pos. unfold prim_remove_entry_at. destruct (has_node (st_tree st) p); [|apply sc_refl].
  destruct (remove_index_entry_at (node_at st p) pos). apply sc_put_idx.
Qed.

Lemma sc_prim_insert_entry_at : forall st s p pos k, same_client st (prim_insert_entry_at st s p pos k).
Proof.
  intros st s p pos k. unfold prim_insert_entry_at.
  match goal with |- same_client _ (if ?b then _ else _) => destruct b end; [|apply sc_refl].
  destruct (insert_index_entry_at (kids_of (st_tree st) p) (node_at st p) pos k). sc.
Qed.

Lemma sc_prim_insert_ordered : forall st s p b o, same_client st (prim_insert_ordered st s p b o).
Proof.
  intros st s p b o. unfold prim_insert_ordered. destruct (own s p && has_node (st_tree st) p); [|apply sc_refl].
  destruct (insert_ordered_child (kids_of (st_tree st) p) (node_at st p) b o) as [[n' nm] ops].
  destruct (has_node (st_tree st) (p ++ [nm])); [apply sc_refl | sc].
Qed.

Lemma sc_prim_reorder : forall cfg st s p c b, same_client st (prim_reorder cfg st s p c b).
Proof.
  intros cfg st s p c b. unfold prim_reorder.
  match goal with |- same_client _ (if ?b then _ else _) => destruct b end; [|apply sc_refl].
  destruct (reorder_child (kids_of (st_tree st) p) (node_at st p) c b). destruct (fix_reorder_ipres cfg); sc.
Qed.

Lemma sc_drain_node : forall st q, same_client st (drain_node st q).
Proof. intros st q. unfold drain_node. apply sc_fold. intros. apply sc_prim_remove_entry. Qed.

Lemma sc_remove_child_rec : forall st v, same_client st (remove_child_rec st v).
Proof.
  intros st v. unfold remove_child_rec. destruct (has_node (st_tree st) v); [|apply sc_refl].
  eapply sc_trans; [apply sc_fold; intros; apply sc_drain_node|].
  eapply sc_trans; [apply sc_prim_remove_entry | apply sc_with_tree].
Qed.

Lemma sc_prim_remove_node : forall st v, same_client st (prim_remove_node st v).
Proof. intros st v. unfold prim_remove_node. destruct (2 <=? length v); [apply sc_remove_child_rec | apply sc_refl]. Qed.

Lemma sc_set_data_node_aux : forall rel st s cur addidx b, same_client st (set_data_node_aux st s cur rel addidx b).
Proof.
  induction rel as [|c rest IH]; intros st s cur addidx b; [apply sc_refl|].
  destruct rest as [|c2 rest].
  - cbn [set_data_node_aux]. destruct (has_node (st_tree st) (cur ++ [c])).
    + destruct addidx; [apply sc_refl|]. destruct (is_remove b); [apply sc_prim_remove_entry | apply sc_refl].
    + destruct addidx; [apply sc_prim_insert_ordered | apply sc_with_tree].
  - change (set_data_node_aux st s cur (c :: c2 :: rest) addidx b)
      with (set_data_node_aux (with_tree st (add_node (st_tree st) (cur ++ [c]))) s (cur ++ [c]) (c2 :: rest) addidx b).
    eapply sc_trans; [apply sc_with_tree | apply IH].
Qed.

Lemma sc_set_data_node : forall st s rel addidx b, same_client st (set_data_node st s rel addidx b).
Proof.
  intros. unfold set_data_node. destruct (has_node (st_tree st) [NS s]); [apply sc_set_data_node_aux | apply sc_refl].
Qed.

Lemma sc_make_path : forall rel st cur, same_client st (make_path st cur rel).
Proof.
  induction rel as [|c r IH]; intros st cur; [apply sc_refl|]. simpl. eapply sc_trans; [apply sc_with_tree | apply IH].
Qed.

Lemma sc_set_data_gen : forall st s rel, same_client st (set_data_gen st s rel).
Proof.
  intros. unfold set_data_gen. destruct (has_node (st_tree st) [NS s]); [|apply sc_refl].
  eapply sc_trans; [apply sc_make_path | apply sc_prim_insert_ordered].
Qed.

Lemma sc_copy_index : forall cfg l st dst w, same_client st (copy_index cfg st dst l w).
Proof.
  intros cfg l. induction l as [|nm rest IH]; intros st dst w; [apply sc_refl|]. cbn [copy_index].
  destruct (mem nm (kids_of (st_tree st) dst)); [|apply IH].
  set (st0 := if fix_clone cfg then prim_remove_entry st dst nm else st).
  assert (H0 : same_client st st0) by (unfold st0; destruct (fix_clone cfg); [apply sc_prim_remove_entry | apply sc_refl]).
  destruct (insert_index_entry_at (kids_of (st_tree st0) dst) (node_at st0 dst) w nm) as [n' ops].
  eapply sc_trans; [exact H0|]. eapply sc_trans; [apply sc_put_idx | apply IH].
Qed.

Lemma sc_clone : forall cfg fuel st s src dstrel addidx b, same_client st (clone cfg fuel st s src dstrel addidx b).
Proof.
  intros cfg fuel. induction fuel as [|f IH]; intros st s src dstrel addidx b; [apply sc_refl|].
  cbn [clone]. destruct (has_node (st_tree st) src); [|apply sc_refl].
  set (st1 := set_data_node st s dstrel addidx b).
  set (st2 := fold_left (fun st k => clone cfg f st s (src ++ [k]) (dstrel ++ [k]) false BEnd) (kids_of (st_tree st1) src) st1).
  assert (H2 : same_client st st2).
  { eapply sc_trans; [apply sc_set_data_node|]. unfold st2. apply sc_fold. intros. apply IH. }
  destruct (idx (node_at st2 src)) as [l|]; [|exact H2].
  destruct (has_node (st_tree st2) (NS s :: dstrel)); [|exact H2].
  eapply sc_trans; [exact H2|]. destruct (fix_clone cfg).
  - eapply sc_trans; [apply sc_copy_index | apply sc_set_ipres].
  - apply sc_copy_index.
Qed.

Lemma sc_restore : forall fuel t0 st s src dstrel addidx, same_client st (restore fuel t0 st s src dstrel addidx).
Proof.
  intros fuel t0. induction fuel as [|f IH]; intros st s src dstrel addidx; [apply sc_refl|]. cbn [restore].
  eapply sc_trans; [apply sc_set_data_node|].
  cbv zeta.
  match goal with |- same_client ?a (fold_left ?f2 ?l2 (fold_left ?f1 ?l1 ?b)) =>
    apply (sc_trans a (fold_left f1 l1 b)); [apply (sc_fold _ f1 l1 b) | apply (sc_fold _ f2 l2)] end.
  - intros st' k. destruct (mem k (kids_of t0 src)); [apply IH | apply sc_refl].
  - intros st' k. match goal with |- same_client _ (if ?b then _ else _) => destruct b end; [apply sc_refl | apply IH].
Qed.

(* commands that only change the tree (and queue notifications) *)
Definition mutating (c : cmd) : bool :=
  match c with
  | CSubscribe _ | CUnsubscribe _ | CUnsubscribeAll | CGetData _ | CAttach => false
  | _ => true
  end.

Lemma handle_same : forall cfg st s c, mutating c = true -> same_client st (handle cfg st s c).
Proof.
  intros cfg st s c H. destruct c; try discriminate; cbn [handle].
  - apply sc_fold. intros st' [rel gen]. simpl. destruct gen; [destruct addidx; [apply sc_set_data_gen | apply sc_refl] | apply sc_set_data_node].
  - apply sc_fold. intros. apply sc_fold. intros. apply sc_prim_insert_ordered.
  - apply sc_fold. intros. apply sc_fold. intros. apply sc_prim_reorder.
  - apply sc_fold. intros. apply sc_prim_remove_node.
  - sc.
  - apply sc_refl.
  - apply sc_set_data_node.
  - apply sc_clone.
  - destruct (has_node (st_tree st) src); [apply sc_restore | apply sc_refl].
  - apply sc_prim_remove_entry_at.
  - apply sc_prim_insert_entry_at.
  - apply sc_remove_child_rec.
Qed.

Lemma fold_deliver_out : forall evs st, st_out (fold_left deliver1 evs st) = st_out st ++ evs.
Proof.
  induction evs as [|[[s p] o] evs IH]; intro st; simpl; [symmetry; apply app_nil_r|].
  rewrite IH. simpl. rewrite <- app_assoc. reflexivity.
Qed.

(* the commands after which every client still holds what it held (no unsubscription, no departure) *)
Definition log_cmd (c : cmd) : bool :=
  match c with CUnsubscribe _ | CUnsubscribeAll | CDetach => false | _ => true end.

Definition log_spec (st st' : state) : Prop :=
  exists new, st_out st' = st_out st ++ new /\
    (forall s' p, subscribed st' s' p = true -> st_hist st' s' p = st_hist st s' p ++ pend_for new s' p) /\
    (forall s' p, subscribed st s' p = true -> subscribed st' s' p = true).

Lemma log_spec_refl : forall st, log_spec st st.
Proof.
  intro st. exists []. split; [symmetry; apply app_nil_r|]. split; [intros; symmetry; apply app_nil_r | intros s' p H; exact H].
Qed.

Lemma flush_handle_log : forall cfg s st c, mutating c = true -> log_spec st (flush (handle cfg st s c)).
Proof.
  intros cfg s st c Hm. pose proof (handle_same cfg st s c Hm) as (S1 & S2 & S3 & S4).
  set (st1 := handle cfg st s c) in *.
  destruct (fold_deliver_fields (st_pend st1) (with_pend st1 [])) as (_ & _ & C & _).
  assert (Hsub : forall s' p, subscribed (flush st1) s' p = subscribed st s' p).
  { intros s' p. unfold flush. rewrite (subscribed_subs (with_pend st1 []) _ s' p C). unfold subscribed. simpl. rewrite S4. reflexivity. }
  exists (st_pend st1). split; [unfold flush; rewrite fold_deliver_out; simpl; rewrite S1; reflexivity|]. split.
  - intros s' p Hs. rewrite Hsub in Hs. unfold flush. rewrite fold_deliver_hist.
    change (subscribed (with_pend st1 []) s' p) with (subscribed st1 s' p).
    replace (subscribed st1 s' p) with true by (symmetry; unfold subscribed; rewrite S4; exact Hs).
    simpl. rewrite S2. reflexivity.
  - intros s' p Hs. rewrite Hsub. exact Hs.
Qed.

Lemma flush_getdata_log : forall st0 st s pat, st_pend st0 = [] ->
  st_out st0 = st_out st -> st_hist st0 = st_hist st ->
  (forall s' p, subscribed st s' p = true -> subscribed st0 s' p = true) ->
  log_spec st (flush (getdata st0 s pat)).
Proof.
  intros st0 st s pat Hp Ho Hh Hmono.
  destruct (getdata_fields st0 s pat) as (_ & _ & C & _ & _ & F).
  set (L := filter (fun e : path * inode => pmatch pat (fst e)) (st_tree st0)).
  set (EV := gd_events (st_ipres st0 s) (st_refl st0 s) s L).
  assert (Hg : getdata st0 s pat = fold_left deliver1 EV st0) by (unfold getdata; rewrite getdata_as_fold; reflexivity).
  assert (Hpend : st_pend (getdata st0 s pat) = []) by (rewrite F; exact Hp).
  unfold flush. rewrite Hpend. simpl fold_left.
  assert (Hsub' : forall s' p, subscribed (with_pend (getdata st0 s pat) []) s' p = subscribed st0 s' p).
  { intros s' p. unfold subscribed. simpl. rewrite C. reflexivity. }
  exists EV. split; [simpl; rewrite Hg, fold_deliver_out, Ho; reflexivity|]. split.
  - intros s' p Hs. rewrite Hsub' in Hs. simpl. rewrite Hg, fold_deliver_hist, Hs, Hh. reflexivity.
  - intros s' p Hs. rewrite Hsub'. apply Hmono. exact Hs.
Qed.

(* One command.  [new] is what the command appended to the logged output.  For every (client, node) subscribed
   afterwards, exactly the part of [new] addressed to it entered its history -- hence its replica. *)
Theorem exec_log : forall cfg s st c, Inv st -> log_cmd c = true -> log_spec st (exec cfg s st c).
Proof.
  intros cfg s st c (M & H6 & Hp) Hlog. unfold exec.
  destruct c; try discriminate Hlog; cbv beta iota zeta;
    try (destruct ((s <? st_n st) && has_node (st_tree st) [NS s]); [|apply log_spec_refl]);
    try (apply flush_handle_log; reflexivity).
  - (* CSubscribe *)
    cbn [handle]. unfold subscribe. apply flush_getdata_log; try reflexivity; [exact Hp|].
    intros s' p Hs. unfold subscribed. simpl.
    destruct (Nat.eqb s' s) eqn:E; [|exact Hs]. apply Nat.eqb_eq in E. subst s'.
    rewrite subscribed_in_add. unfold subscribed in Hs. rewrite Hs. reflexivity.
  - (* CGetData *)
    cbn [handle]. apply flush_getdata_log; try reflexivity; [exact Hp|]. intros s' p Hs; exact Hs.
  - (* CAttach *)
    exists []. split; [simpl; symmetry; apply app_nil_r|]. split; [intros; simpl; symmetry; apply app_nil_r | intros s' p H; exact H].
Qed.

(* for the pairs that were subscribed before: composable over the commands of a step *)
Definition cont_spec (st st' : state) : Prop :=
  exists new, st_out st' = st_out st ++ new /\
    forall s' p, subscribed st s' p = true ->
      subscribed st' s' p = true /\ st_hist st' s' p = st_hist st s' p ++ pend_for new s' p.

Lemma log_cont : forall a b, log_spec a b -> cont_spec a b.
Proof.
  intros a b (new & O & H & S). exists new. split; [exact O|]. intros s' p Hs. split; [apply S, Hs | apply H, S, Hs].
Qed.

Lemma cont_trans : forall a b c, cont_spec a b -> cont_spec b c -> cont_spec a c.
Proof.
  intros a b c (n1 & O1 & H1) (n2 & O2 & H2). exists (n1 ++ n2).
  split; [rewrite O2, O1, app_assoc; reflexivity|].
  intros s' p Hs. destruct (H1 s' p Hs) as [Sb Hb]. destruct (H2 s' p Sb) as [Sc Hc].
  split; [exact Sc|]. rewrite Hc, Hb, pend_for_app, app_assoc. reflexivity.
Qed.

(* One step (a Message of one client: a command or a batch) without unsubscription or departure: for every
   (client, node) subscribed before it, what the step logged for that pair is what was appended to its history. *)
Theorem step_log : forall cfg st sc, cfg_ok cfg -> Inv st -> forallb log_cmd (snd sc) = true ->
  let st' := step cfg st sc in
  forall s' p, subscribed st s' p = true ->
    subscribed st' s' p = true /\ st_hist st' s' p = st_hist st s' p ++ pend_for (st_out st') s' p.
Proof.
  intros cfg st [s cmds] Hc HI Hall st'. unfold st', step. simpl fst. simpl snd in *.
  assert (H : forall l st0, Inv st0 -> forallb log_cmd l = true -> cont_spec st0 (fold_left (exec cfg s) l st0)).
  { induction l as [|c l IH]; intros st0 HI0 Hl.
    - exists []. split; [symmetry; apply app_nil_r|]. intros s' p Hs. split; [exact Hs | symmetry; apply app_nil_r].
    - simpl in Hl. apply andb_true_iff in Hl. destruct Hl as [Hc0 Hl]. simpl.
      apply (cont_trans st0 (exec cfg s st0 c)); [apply log_cont; apply exec_log; [exact HI0 | exact Hc0]|].
      apply IH; [apply exec_Inv; assumption | exact Hl]. }
  destruct (H cmds (with_out st []) (Inv_with_out st [] HI) Hall) as (new & O & Hh).
  intros s' p Hs. simpl in O. rewrite O. apply (Hh s' p Hs).
Qed.

(* The observable form: after any history, for a further step as above and every (client, node) subscribed
   before it, the stream the step logs for the pair -- which the correspondence run compares with the
   PR_RESULT_INDEXUPDATED Messages the real client receives -- fits the replica held before the step and
   replays it into the server's index after the step. *)
Theorem step_replays : forall n steps sc s p,
  let st := run cfg_fixed n steps in
  let st' := step cfg_fixed st sc in
  forallb log_cmd (snd sc) = true -> subscribed st s p = true ->
  ops_fit (pend_for (st_out st') s p) (st_mirror st s p) = true /\
  replay (pend_for (st_out st') s p) (st_mirror st s p) = index_at (st_tree st') p.
Proof.
  intros n steps sc s p st st' Hall Hs.
  pose proof (run_Inv cfg_fixed n steps cfg_fixed_ok) as HI. fold st in HI.
  pose proof (step_Inv cfg_fixed st sc cfg_fixed_ok HI) as HI'. fold st' in HI'.
  destruct (step_log cfg_fixed st sc cfg_fixed_ok HI Hall s p Hs) as [Hs' Hh]. fold st' in Hs', Hh.
  destruct HI as (M & _ & _). destruct HI' as (M' & _ & Hp').
  split.
  - pose proof (mA_hfit st' M' s p) as F. rewrite Hh, ops_fit_app in F. apply andb_true_iff in F.
    rewrite (mA_hist st M s p) in F. apply F.
  - pose proof (mA_sub st' M' s p Hs') as E. rewrite Hp' in E. simpl in E. rewrite <- E.
    rewrite <- (mA_hist st' M' s p), Hh, replay_app, (mA_hist st M s p). reflexivity.
Qed.
