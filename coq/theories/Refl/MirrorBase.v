(* Refl/MirrorBase.v -- the client's mirror read extensionally (through mirror_get), and what one
   PR_RESULT_DATAITEMS Message does to it. *)
From Coq Require Import List NArith ZArith Bool Arith Lia.
From Muscle Require Import Refl.Base Refl.BaseProofs Refl.Tree Refl.Session Refl.Mirror.
Import ListNotations.

Lemma mirror_get_set : forall m p v q, mirror_get (mirror_set m p v) q = if path_eqb p q then Some v else mirror_get m q.
Proof.
  induction m as [|[k w] m IH]; intros p v q; cbn.
  - destruct (path_eqb p q); reflexivity.
  - destruct (path_eqb k p) eqn:E; cbn.
    + apply path_eqb_eq in E. subst k. destruct (path_eqb p q); reflexivity.
    + rewrite IH. destruct (path_eqb k q) eqn:E'; auto.
      apply path_eqb_eq in E'. subst k. now rewrite path_eqb_sym, E.
Qed.

Lemma mirror_get_remove : forall m p q, mirror_get (mirror_remove m p) q = if path_eqb p q then None else mirror_get m q.
Proof.
  intros m p q. unfold mirror_remove. induction m as [|[k w] m IH]; cbn [filter mirror_get fst].
  - destruct (path_eqb p q); reflexivity.
  - destruct (path_eqb k p) eqn:E; cbn [negb mirror_get].
    + apply path_eqb_eq in E. subst k. rewrite IH. destruct (path_eqb p q); reflexivity.
    + rewrite IH. destruct (path_eqb k q) eqn:E'; auto.
      apply path_eqb_eq in E'. subst k. now rewrite path_eqb_sym, E.
Qed.

(* keys of a mirror are distinct *)
Definition mirror_ok (m : mirror) : Prop := NoDup (map fst m).

Lemma mirror_set_keys : forall m p v k, In k (map fst (mirror_set m p v)) <-> k = p \/ In k (map fst m).
Proof.
  induction m as [|[k0 w] m IH]; intros p v k; cbn.
  - intuition.
  - destruct (path_eqb k0 p) eqn:E; cbn.
    + apply path_eqb_eq in E. subst. intuition.
    + rewrite IH. intuition.
Qed.

Lemma mirror_set_ok : forall m p v, mirror_ok m -> mirror_ok (mirror_set m p v).
Proof.
  unfold mirror_ok. induction m as [|[k0 w] m IH]; intros p v H; cbn.
  - repeat constructor. intros [].
  - cbn in H. inversion H as [|? ? Hk H']; subst.
    destruct (path_eqb k0 p) eqn:E; cbn.
    + now constructor.
    + constructor; auto. rewrite mirror_set_keys. intros [H1|H1]; [|contradiction].
      subst. now rewrite path_eqb_refl in E.
Qed.

Lemma mirror_remove_ok : forall m p, mirror_ok m -> mirror_ok (mirror_remove m p).
Proof.
  unfold mirror_ok, mirror_remove. induction m as [|[k0 w] m IH]; intros p H; cbn; auto.
  cbn in H. inversion H as [|? ? Hk H']; subst.
  destruct (negb (path_eqb k0 p)); cbn; auto. constructor; auto.
  intros Hin. apply Hk. apply in_map_iff in Hin as [x [H1 H2]]. apply filter_In in H2 as [H2 _].
  rewrite <- H1. now apply in_map.
Qed.

Lemma mirror_get_in : forall m p v, mirror_ok m -> (mirror_get m p = Some v <-> In (p, v) m).
Proof.
  unfold mirror_ok. induction m as [|[k0 w] m IH]; intros p v H; cbn.
  - split; [discriminate|intros []].
  - cbn in H. inversion H as [|? ? Hk H']; subst.
    destruct (path_eqb k0 p) eqn:E.
    + apply path_eqb_eq in E. subst k0. split.
      * intros H1. inversion H1. now left.
      * intros [H1|H1]; [congruence|]. exfalso. apply Hk. apply in_map_iff. exists (p, v). auto.
    + rewrite IH by auto. split; [now right|]. intros [H1|H1]; auto.
      inversion H1; subst. now rewrite path_eqb_refl in E.
Qed.

(* filtering a mirror with distinct keys *)
Lemma mirror_get_filter : forall (f : path * payload -> bool) m p, mirror_ok m ->
  mirror_get (filter f m) p = match mirror_get m p with
                              | Some v => if f (p, v) then Some v else None
                              | None => None
                              end.
Proof.
  unfold mirror_ok. intros f. induction m as [|[k0 w] m IH]; intros p H; cbn; auto.
  cbn in H. inversion H as [|? ? Hk H']; subst.
  destruct (path_eqb k0 p) eqn:E.
  - apply path_eqb_eq in E. subst k0. destruct (f (p, w)) eqn:Ef; cbn.
    + now rewrite path_eqb_refl.
    + rewrite IH by auto. destruct (mirror_get m p) as [v|] eqn:Eg; auto.
      exfalso. apply Hk. apply mirror_get_in in Eg; auto. apply in_map_iff. exists (p, v). auto.
  - destruct (f (k0, w)); cbn; [rewrite E|]; now apply IH.
Qed.

Lemma filter_ok_mirror : forall (f : path * payload -> bool) m, mirror_ok m -> mirror_ok (filter f m).
Proof.
  unfold mirror_ok. intros f. induction m as [|[k0 w] m IH]; intros H; cbn; auto.
  cbn in H. inversion H as [|? ? Hk H']; subst.
  destruct (f (k0, w)); cbn; auto. constructor; auto.
  intros Hin. apply Hk. apply in_map_iff in Hin as [x [H1 H2]]. apply filter_In in H2 as [H2 _].
  rewrite <- H1. now apply in_map.
Qed.

(* ------------------------------------------------------------------ one Message *)

(* what a Message says about path p: Some (Some v) = set to v; Some None = removed; None = nothing *)
Fixpoint sets_lookup (l : list (path * list payload)) (p : path) : option payload :=
  match l with
  | [] => None
  | (q, vs) :: r =>
    match sets_lookup r p with
    | Some v => Some v
    | None => if path_eqb q p then (match rev vs with v :: _ => Some v | [] => None end) else None
    end
  end.

Definition di_lookup (d : ditems) (p : path) : option (option payload) :=
  match sets_lookup (di_sets d) p with
  | Some v => Some (Some v)
  | None => if existsb (path_eqb p) (di_removed d) then Some None else None
  end.

Lemma fold_remove_get : forall rs m q,
  mirror_get (fold_left mirror_remove rs m) q = if existsb (path_eqb q) rs then None else mirror_get m q.
Proof.
  induction rs as [|r rs IH]; intros m q; cbn; auto.
  rewrite IH, mirror_get_remove. rewrite (path_eqb_sym q r).
  destruct (path_eqb r q); cbn; auto. now destruct (existsb (path_eqb q) rs).
Qed.

Lemma fold_set_values_get : forall vs m p q,
  mirror_get (fold_left (fun m'' v => mirror_set m'' p v) vs m) q
  = match rev vs with
    | v :: _ => if path_eqb p q then Some v else mirror_get m q
    | [] => mirror_get m q
    end.
Proof.
  induction vs as [|v vs IH]; intros m p q; cbn [fold_left rev]; auto.
  rewrite IH. destruct (rev vs) as [|w ws] eqn:E; cbn.
  - rewrite mirror_get_set. reflexivity.
  - rewrite mirror_get_set. destruct (path_eqb p q); reflexivity.
Qed.

Lemma fold_sets_get : forall l m q,
  mirror_get (fold_left (fun m' pv => fold_left (fun m'' v => mirror_set m'' (fst pv) v) (snd pv) m') l m) q
  = match sets_lookup l q with Some v => Some v | None => mirror_get m q end.
Proof.
  induction l as [|[p vs] l IH]; intros m q; cbn [fold_left sets_lookup fst snd]; auto.
  rewrite IH. destruct (sets_lookup l q); auto.
  rewrite fold_set_values_get. destruct (rev vs); destruct (path_eqb p q); reflexivity.
Qed.

Theorem apply_di_get : forall m d q,
  mirror_get (apply_di m d) q = match di_lookup d q with Some r => r | None => mirror_get m q end.
Proof.
  intros m d q. unfold apply_di, di_lookup. rewrite fold_sets_get.
  destruct (sets_lookup (di_sets d) q); auto.
  rewrite fold_remove_get. destruct (existsb (path_eqb q) (di_removed d)); reflexivity.
Qed.

Lemma apply_di_ok : forall m d, mirror_ok m -> mirror_ok (apply_di m d).
Proof.
  intros m d H. unfold apply_di.
  assert (H1 : mirror_ok (fold_left mirror_remove (di_removed d) m)).
  { revert m H. induction (di_removed d) as [|r rs IH]; intros m H; cbn; auto. apply IH. now apply mirror_remove_ok. }
  revert H1. generalize (fold_left mirror_remove (di_removed d) m). clear.
  induction (di_sets d) as [|[p vs] l IH]; intros m H; cbn [fold_left]; auto.
  apply IH. cbn [fst snd]. revert m H. induction vs as [|v vs IHv]; intros m H; cbn; auto.
  apply IHv. now apply mirror_set_ok.
Qed.

Lemma apply_all_ok : forall ds m, mirror_ok m -> mirror_ok (apply_all m ds).
Proof.
  unfold apply_all. induction ds as [|d ds IH]; intros m H; cbn; auto. apply IH. now apply apply_di_ok.
Qed.

(* ------------------------------------------------------------------ building a Message *)

(* field names of a Message are unique *)
Definition di_ok (d : ditems) : Prop := NoDup (map fst (di_sets d)).

Lemma sets_add_names : forall l p v k, In k (map fst (sets_add l p v)) <-> k = p \/ In k (map fst l).
Proof.
  induction l as [|[k0 vs] l IH]; intros p v k; cbn.
  - intuition.
  - destruct (path_eqb k0 p) eqn:E; cbn.
    + apply path_eqb_eq in E. subst. intuition.
    + rewrite IH. intuition.
Qed.

Lemma sets_add_ok : forall l p v, NoDup (map fst l) -> NoDup (map fst (sets_add l p v)).
Proof.
  induction l as [|[k0 vs] l IH]; intros p v H; cbn.
  - repeat constructor. intros [].
  - cbn in H. inversion H as [|? ? Hk H']; subst.
    destruct (path_eqb k0 p) eqn:E; cbn.
    + now constructor.
    + constructor; auto. rewrite sets_add_names. intros [H1|H1]; [|contradiction].
      subst. now rewrite path_eqb_refl in E.
Qed.

Lemma sets_lookup_absent : forall l q, ~ In q (map fst l) -> sets_lookup l q = None.
Proof.
  induction l as [|[k vs] l IH]; intros q H; cbn; auto.
  rewrite IH by (intros H1; apply H; now right).
  destruct (path_eqb k q) eqn:E; auto. apply path_eqb_eq in E. subst. exfalso. apply H. now left.
Qed.

Lemma sets_lookup_add : forall l p v q, NoDup (map fst l) ->
  sets_lookup (sets_add l p v) q = if path_eqb p q then Some v else sets_lookup l q.
Proof.
  induction l as [|[k vs] l IH]; intros p v q Hnd; cbn [sets_add sets_lookup].
  - cbn. destruct (path_eqb p q); reflexivity.
  - cbn in Hnd. inversion Hnd as [|? ? Hk Hnd']; subst.
    destruct (path_eqb k p) eqn:E; cbn [sets_lookup].
    + apply path_eqb_eq in E. subst k.
      destruct (path_eqb p q) eqn:Epq.
      * apply path_eqb_eq in Epq. subst q. rewrite (sets_lookup_absent l p Hk).
        rewrite rev_app_distr. reflexivity.
      * reflexivity.
    + rewrite IH by auto. destruct (path_eqb p q) eqn:Epq; auto.
Qed.

Lemma sets_has_spec : forall l p, sets_has l p = true <-> In p (map fst l).
Proof.
  induction l as [|[k vs] l IH]; intros p; cbn; [split; [discriminate|intros []]|].
  rewrite orb_true_iff, IH, path_eqb_eq. intuition.
Qed.

Lemma di_add_set_ok : forall d p v, di_ok d -> di_ok (di_add_set d p v).
Proof. intros d p v H. unfold di_ok, di_add_set. cbn. now apply sets_add_ok. Qed.

Lemma di_add_removed_ok : forall d p, di_ok d -> di_ok (di_add_removed d p).
Proof. intros d p H. exact H. Qed.

Lemma empty_di_ok : di_ok empty_di.
Proof. constructor. Qed.

(* adding a set to a Message: the reader then sees the set applied after everything the Message said before *)
Lemma di_lookup_add_set : forall d p v q, di_ok d ->
  di_lookup (di_add_set d p v) q = if path_eqb p q then Some (Some v) else di_lookup d q.
Proof.
  intros d p v q H. unfold di_lookup, di_add_set. cbn [di_sets di_removed].
  rewrite sets_lookup_add by exact H. destruct (path_eqb p q); reflexivity.
Qed.

(* adding a removal, when the Message holds no set of that path *)
Lemma di_lookup_add_removed : forall d p q, di_has_set d p = false ->
  di_lookup (di_add_removed d p) q = if path_eqb p q then Some None else di_lookup d q.
Proof.
  intros d p q H. unfold di_lookup, di_add_removed. cbn [di_sets di_removed].
  rewrite existsb_app. cbn [existsb]. rewrite orb_false_r. rewrite (path_eqb_sym q p).
  destruct (path_eqb p q) eqn:E.
  - apply path_eqb_eq in E. subst q.
    assert (sets_lookup (di_sets d) p = None) as ->.
    { apply sets_lookup_absent. intros Hin. apply sets_has_spec in Hin. unfold di_has_set in H. congruence. }
    now rewrite orb_true_r.
  - rewrite orb_false_r. reflexivity.
Qed.
