(* Refl/MirrorFrame.v -- bookkeeping facts about whole commands that hold for every session: pending Messages
   stay well formed, node commands leave all subscriptions alone, and a session's subscription table follows
   its own SUBSCRIBE / unsubscribe commands exactly as the client-side record (Mirror.client_cmd) does. *)
From Coq Require Import List NArith ZArith Bool Arith Lia.
From Muscle Require Import Gen.Consts Refl.Base Refl.BaseProofs Refl.Tree Refl.TreeProofs Refl.Matcher Refl.MatcherProofs
     Refl.Traverse Refl.TraverseFold Refl.TraverseSpec Refl.Session Refl.Server Refl.ServerProofs Refl.Mirror Refl.MirrorBase
     Refl.MirrorServer Refl.MirrorNotify Refl.MirrorSem Refl.MirrorSteps Refl.MirrorHandlers.
Import ListNotations.

Section Frame.
Context {M : MatchOps} {L : MatchLaws M}.
Variable fx : fixes.
Variable mir : mirror.

(* ------------------------------------------------------------------ node commands: sessions keep their cores *)

Lemma set_data_loop_frame : forall cl sv by_ pp d dc dow q, pend_ok sv ->
  pend_ok (set_data_loop sv by_ pp cl d dc dow q) /\ same_sess sv (set_data_loop sv by_ pp cl d dc dow q).
Proof.
  induction cl as [|k rest IH]; intros sv by_ pp d dc dow q Hpo; cbn [set_data_loop]; [split; [auto|reflexivity]|].
  destruct (find_node (sv_tree sv) (pp ++ [k])) as [n|].
  - destruct rest as [|k2 rest2]; [|now apply IH].
    destruct dow; [split; [auto|reflexivity]|].
    destruct q; [split; [exact Hpo|reflexivity]|].
    split; [apply pend_ok_notify_changed; exact Hpo|].
    apply (same_sess_trans sv (set_tree sv (set_data (sv_tree sv) (pp ++ [k]) d))); [reflexivity|apply same_core_sess, notify_changed_core].
  - destruct dc; [split; [auto|reflexivity]|].
    destruct (Nat.leb max_node_depth (length pp)); [split; [auto|reflexivity]|].
    set (sv1 := set_tree sv (add_node (sv_tree sv) (mkNode (pp ++ [k]) (match rest with [] => d | _ => empty_payload end) (new_node_table sv (pp ++ [k]))))).
    set (sv2 := if q then sv1 else notify_changed sv1 by_ (pp ++ [k]) (match rest with [] => d | _ => empty_payload end) None false).
    assert (H2 : pend_ok sv2 /\ same_sess sv sv2).
    { unfold sv2. destruct q; [split; [exact Hpo|reflexivity]|].
      split; [apply pend_ok_notify_changed; exact Hpo|].
      apply (same_sess_trans sv sv1); [reflexivity|apply same_core_sess, notify_changed_core]. }
    destruct H2 as [Hpo2 Hs2].
    destruct rest as [|k2 rest2]; [split; assumption|].
    destruct (IH sv2 by_ (pp ++ [k]) d false dow q Hpo2) as [H3 H4].
    split; [exact H3|]. now apply (same_sess_trans sv sv2).
Qed.

Lemma remove_subtree_frame : forall sv by_ p notify, pend_ok sv ->
  pend_ok (remove_subtree sv by_ p notify) /\ same_sess sv (remove_subtree sv by_ p notify).
Proof.
  intros sv by_ p notify Hpo. unfold remove_subtree.
  generalize (removal_order (S (length (sv_tree sv))) (sv_tree sv) p). intros Lq.
  revert sv Hpo. induction Lq as [|q Lq IH]; intros sv Hpo; cbn [fold_left]; [split; [auto|reflexivity]|].
  destruct (find_node (sv_tree sv) q) as [n|]; [|now apply IH].
  set (sv1 := if notify then notify_changed sv by_ q (n_data n) (Some (n_data n)) true else sv).
  assert (H1 : pend_ok sv1 /\ same_sess sv sv1).
  { unfold sv1. destruct notify; [|split; [auto|reflexivity]].
    split; [now apply pend_ok_notify_changed|apply same_core_sess, notify_changed_core]. }
  destruct H1 as [Hpo1 Hs1].
  destruct (IH (set_tree sv1 (remove_node (sv_tree sv1) q)) Hpo1) as [H2 H3].
  split; [exact H2|]. apply (same_sess_trans sv sv1); auto.
Qed.

Lemma do_remove_data_frame : forall sv ss keys quiet, pend_ok sv ->
  pend_ok (do_remove_data fx sv ss keys quiet) /\ same_sess sv (do_remove_data fx sv ss keys quiet).
Proof.
  intros sv ss keys quiet Hpo. unfold do_remove_data.
  generalize (do_traversal remove_cb (sv_tree sv) (m_of_list keys) (session_dir ss) true (fx_guard fx) []). intros rs.
  revert sv Hpo. induction rs as [|p rs IH]; intros sv Hpo; cbn [fold_left]; [split; [auto|reflexivity]|].
  destruct (has_node (sv_tree sv) p); [|now apply IH].
  destruct (remove_subtree_frame sv (s_id ss) p (negb quiet) Hpo) as [H1 H2].
  destruct (IH _ H1) as [H3 H4]. split; [exact H3|]. eapply same_sess_trans; eauto.
Qed.

Lemma set_data_items_frame : forall items sv s flags, pend_ok sv ->
  let sv' := fold_left (fun sv' it => match get_session sv' s with
                                      | Some ss' => match fst it with
                                                    | [] => sv'
                                                    | _ => set_data_node sv' ss' (fst it) (snd it) flags
                                                    end
                                      | None => sv'
                                      end) items sv in
  pend_ok sv' /\ same_sess sv sv'.
Proof.
  induction items as [|it items IH]; intros sv s flags Hpo; cbn [fold_left]; [split; [auto|reflexivity]|].
  destruct (get_session sv s) as [ss|]; [|now apply IH].
  destruct (fst it) as [|k rel]; [now apply IH|].
  unfold set_data_node.
  destruct (set_data_loop_frame (k :: rel) sv (s_id ss) (session_dir ss) (snd it)
              (flag_set flags c_SETDATANODE_FLAG_DONTCREATENODE) (flag_set flags c_SETDATANODE_FLAG_DONTOVERWRITEDATA)
              (flag_set flags c_SETDATANODE_FLAG_QUIET) Hpo) as [H1 H2].
  destruct (IH _ s flags H1) as [H3 H4]. split; [exact H3|]. eapply same_sess_trans; eauto.
Qed.


(* ------------------------------------------------------------------ a session's subscriptions follow its commands *)

(* what the lemmas below say about every session o of the state before *)
Definition tracks (sv sv' : server) (b : sid) (upd : matcher -> matcher) : Prop :=
  forall o ss, get_session sv o = Some ss ->
  exists ss', get_session sv' o = Some ss' /\ session_dir ss' = session_dir ss
              /\ s_subs ss' = (if N.eqb b o then upd (s_subs ss) else s_subs ss).

Lemma tracks_sess : forall sv sv' b, same_sess sv sv' -> tracks sv sv' b (fun m => m).
Proof.
  intros sv sv' b Hs o ss Hss. destruct (get_session_sess_fwd sv sv' o ss Hs Hss) as [ss' [H1 [H2 H3]]].
  exists ss'. split; [auto|split; [auto|]]. now destruct (N.eqb b o).
Qed.

Lemma tracks_trans : forall a b c s f g, tracks a b s f -> tracks b c s g -> tracks a c s (fun m => g (f m)).
Proof.
  intros a b c s f g H1 H2 o ss Hss. destruct (H1 o ss Hss) as [ss1 [Ha [Hb Hc]]].
  destruct (H2 o ss1 Ha) as [ss2 [Hd [He Hf]]]. exists ss2. split; [auto|split; [congruence|]].
  rewrite Hf, Hc. now destruct (N.eqb s o).
Qed.

Lemma tracks_ext : forall a b s f g, (forall m, f m = g m) -> tracks a b s f -> tracks a b s g.
Proof.
  intros a b s f g H H1 o ss Hss. destruct (H1 o ss Hss) as [ss1 [Ha [Hb Hc]]]. exists ss1.
  split; [auto|split; [auto|]]. rewrite Hc. destruct (N.eqb s o); auto.
Qed.

Lemma m_set_filter_put : forall m p f e, m_get m p = Some e -> p <> [] -> m_set_filter m p f = m_put m p f.
Proof.
  intros m p f e H Hp. unfold m_set_filter, m_put. rewrite H. destruct p; [congruence|reflexivity].
Qed.

Lemma tracks_upd : forall sv b f, (forall x, s_id (f x) = s_id x /\ session_dir (f x) = session_dir x) ->
  NoDup (map s_id (sv_sessions sv)) ->
  forall g, (forall x, s_subs (f x) = g (s_subs x)) -> tracks sv (upd_session sv b f) b g.
Proof.
  intros sv b f Hf Hnd g Hg o ss Hss. rewrite get_session_upd by (intros x; apply Hf).
  destruct (N.eqb b o) eqn:E.
  - rewrite Hss. cbn [option_map]. exists (f ss). split; [auto|split; [apply Hf|apply Hg]].
  - exists ss. auto.
Qed.

Lemma subscribe_one_track : forall sv b sf,
  tracks sv (subscribe_one fx sv b sf) b (fun m => m_put m (fix_path (fst sf)) (snd sf)).
Proof.
  intros sv b [sp f]. unfold subscribe_one. cbn [fst snd].
  destruct (get_session sv b) as [bs|] eqn:Hbs.
  - destruct (fix_path sp) as [|c fp'] eqn:Efp.
    + apply (tracks_ext sv sv b (fun m => m)); [intros m; reflexivity|]. apply tracks_sess. reflexivity.
    + rewrite <- Efp. assert (Hne : fix_path sp <> []) by (rewrite Efp; discriminate).
      destruct (m_get (s_subs bs) (fix_path sp)) as [e|] eqn:Hget.
      * match goal with |- tracks sv (upd_session ?X b _) b _ => set (svt := X) end.
        assert (Hct : same_core sv svt).
        { unfold svt. destruct f, (e_flt e); try apply cqf_traversal_core. apply same_core_refl. }
        intros o ss Hss.
        destruct (get_session_sess_fwd sv svt o ss (same_core_sess _ _ Hct) Hss) as [sst [Hsst [Hsubt Hdirt]]].
        rewrite get_session_upd by reflexivity. rewrite Hsst.
        destruct (N.eqb b o) eqn:E.
        -- cbn [option_map]. eexists. split; [reflexivity|split; [exact Hdirt|]]. cbn [set_subs s_subs]. rewrite Hsubt.
           apply N.eqb_eq in E. subst o. assert (ss = bs) by congruence. subst ss.
           now apply (m_set_filter_put _ _ _ e).
        -- exists sst. auto.
      * intros o ss Hss.
        change (get_session (set_tree (upd_session sv b (fun x => set_subs x (m_put (s_subs x) (fix_path sp) f))) _) o)
          with (get_session (upd_session sv b (fun x => set_subs x (m_put (s_subs x) (fix_path sp) f))) o).
        rewrite get_session_upd by reflexivity. rewrite Hss.
        destruct (N.eqb b o); cbn [option_map]; eexists; split; try reflexivity; split; reflexivity.
  - intros o ss Hss. exists ss. split; [auto|split; [auto|]].
    destruct (N.eqb b o) eqn:E; auto. apply N.eqb_eq in E. subst o. congruence.
Qed.

Lemma unsubscribe_one_track : forall sv b sp,
  tracks sv (unsubscribe_one fx sv b sp) b
         (fun m => match m_remove m (fix_path sp) with Some m' => m' | None => m end).
Proof.
  intros sv b sp. unfold unsubscribe_one.
  destruct (get_session sv b) as [bs|] eqn:Hbs.
  - destruct (m_remove (s_subs bs) (fix_path sp)) as [m'|] eqn:Hrm.
    + intros o ss Hss.
      change (get_session (set_tree (upd_session sv b (fun x => set_subs x m')) _) o)
        with (get_session (upd_session sv b (fun x => set_subs x m')) o).
      rewrite get_session_upd by reflexivity. rewrite Hss.
      destruct (N.eqb b o) eqn:E; cbn [option_map]; eexists; split; try reflexivity; split; try reflexivity.
      apply N.eqb_eq in E. subst o. assert (ss = bs) by congruence. subst ss. cbn [set_subs s_subs]. now rewrite Hrm.
    + intros o ss Hss. exists ss. split; [auto|split; [auto|]].
      destruct (N.eqb b o) eqn:E; auto. apply N.eqb_eq in E. subst o. assert (ss = bs) by congruence. subst ss. now rewrite Hrm.
  - intros o ss Hss. exists ss. split; [auto|split; [auto|]].
    destruct (N.eqb b o) eqn:E; auto. apply N.eqb_eq in E. subst o. congruence.
Qed.


(* nesting depth of PR_COMMAND_BATCH inside a command *)
Fixpoint cmd_depth (c : cmd) : nat :=
  match c with
  | CBatch l => S ((fix mx (l : list cmd) : nat := match l with [] => 0 | c' :: r => Nat.max (cmd_depth c') (mx r) end) l)
  | _ => 0
  end.

Lemma subscribe_fold_track : forall subs sv b, pend_ok sv ->
  let sv' := fold_left (fun sv' sf => subscribe_one fx sv' b sf) subs sv in
  pend_ok sv' /\ tracks sv sv' b (fun m => fold_left (fun m' sf => m_put m' (fix_path (fst sf)) (snd sf)) subs m).
Proof.
  induction subs as [|sf subs IH]; intros sv b Hpo; cbn [fold_left].
  - split; [auto|apply tracks_sess; reflexivity].
  - destruct (IH (subscribe_one fx sv b sf) b) as [H1 H2]; [now apply pend_ok_subscribe_one|].
    split; [exact H1|].
    apply (tracks_trans sv (subscribe_one fx sv b sf) _ b _ _ (subscribe_one_track sv b sf) H2).
Qed.

Lemma unsubscribe_fold_track : forall subs sv b, pend_ok sv ->
  let sv' := fold_left (fun sv' sp => unsubscribe_one fx sv' b sp) subs sv in
  pend_ok sv' /\ tracks sv sv' b (fun m => fold_left (fun m' sp => match m_remove m' (fix_path sp) with Some m'' => m'' | None => m' end) subs m).
Proof.
  induction subs as [|sp subs IH]; intros sv b Hpo; cbn [fold_left].
  - split; [auto|apply tracks_sess; reflexivity].
  - destruct (IH (unsubscribe_one fx sv b sp) b) as [H1 H2]; [now apply pend_ok_unsubscribe_one|].
    split; [exact H1|]. apply (tracks_trans sv (unsubscribe_one fx sv b sp) _ b _ _ (unsubscribe_one_track sv b sp) H2).
Qed.

Lemma client_batch_fst : forall l m u,
  fst ((fix go (l : list cmd) (acc : matcher * bool) : matcher * bool :=
          match l with
          | [] => acc
          | c' :: r => let '(m1, u1) := client_cmd (fst acc) c' in go r (m1, snd acc || u1)
          end) l (m, u))
  = fold_left (fun m' c' => fst (client_cmd m' c')) l m.
Proof.
  induction l as [|c l IH]; intros m u; cbn [fold_left]; auto.
  cbn [fst snd]. destruct (client_cmd m c) as [m1 u1] eqn:E. rewrite IH. cbn [fst]. reflexivity.
Qed.

Lemma tracks_none : forall sv b f, get_session sv b = None -> tracks sv sv b f.
Proof.
  intros sv b f H o ss Hss. exists ss. split; [auto|split; [auto|]].
  destruct (N.eqb b o) eqn:E; auto. apply N.eqb_eq in E. subst o. congruence.
Qed.

Lemma handle_track : forall c nest sv b, pend_ok sv -> nest + cmd_depth c <= max_batch_nest ->
  pend_ok (handle fx nest sv b c) /\ tracks sv (handle fx nest sv b c) b (fun m => fst (client_cmd m c)).
Proof.
  induction c using cmd_ind'; intros nest sv b Hpo Hdepth; cbn [handle client_cmd fst];
    destruct (get_session sv b) as [bs|] eqn:Hbs; try (split; [exact Hpo|now apply tracks_none]).
  - destruct (set_data_items_frame i sv b f Hpo) as [H1 H2]. split; [exact H1|now apply tracks_sess].
  - destruct (do_remove_data_frame sv bs k q Hpo) as [H1 H2]. split; [exact H1|now apply tracks_sess].
  - destruct (subscribe_fold_track k sv b Hpo) as [H1 H2].
    set (sv1 := fold_left (fun sv' sf => subscribe_one fx sv' b sf) k sv) in *.
    assert (Hg : forall svx, pend_ok svx -> same_core sv1 svx ->
              pend_ok svx /\ tracks sv svx b (fun m => fold_left (fun m' sf => m_put m' (fix_path (fst sf)) (snd sf)) k m)).
    { intros svx Hpx Hcx. split; [auto|].
      apply (tracks_ext _ _ _ _ _ (fun m => eq_refl) (tracks_trans sv sv1 svx b _ _ H2 (tracks_sess sv1 svx b (same_core_sess _ _ Hcx)))). }
    destruct q; [apply Hg; [auto|apply same_core_refl]|].
    destruct k as [|sf0 k0] eqn:Ek; [apply Hg; [auto|apply same_core_refl]|]. rewrite <- Ek in *.
    apply Hg.
    + apply pend_ok_do_get_data. destruct (fx_push fx); [now apply pend_ok_push_all|auto].
    + eapply same_core_trans; [|apply do_get_data_core]. destruct (fx_push fx); [apply push_all_core|apply same_core_refl].
  - now apply unsubscribe_fold_track.
  - split; [apply pend_ok_upd_keep; [reflexivity|auto]|].
    apply tracks_sess. apply same_core_sess. apply upd_session_core. reflexivity.
  - split; [apply pend_ok_upd_keep; [reflexivity|auto]|].
    apply tracks_sess. apply same_core_sess. apply upd_session_core. reflexivity.
  - split; [now apply pend_ok_do_get_data|]. apply tracks_sess. apply same_core_sess. apply do_get_data_core.
  - (* BATCH *)
    cbn [cmd_depth] in Hdepth.
    assert (Hlt : Nat.ltb nest max_batch_nest = true) by (apply Nat.ltb_lt; lia). rewrite Hlt.
    match goal with |- _ /\ tracks sv ?X b _ =>
      cut (pend_ok X /\ tracks sv X b (fun m => fold_left (fun m' c' => fst (client_cmd m' c')) l m)) end.
    { intros [Ha Hb]. split; [exact Ha|]. apply (tracks_ext _ _ _ _ _ (fun m => eq_sym (client_batch_fst l m false)) Hb). }
    clear Hbs bs Hlt. revert sv Hpo Hdepth.
    induction H as [|c l Hc Hl IHl]; intros sv Hpo Hdepth.
    + split; [auto|apply tracks_sess; reflexivity].
    + cbn [fold_left].
      destruct (Hc (S nest) sv b Hpo) as [H1 H2]; [lia|].
      set (sv1 := push_all (handle fx (S nest) sv b c)).
      assert (Hpo1 : pend_ok sv1) by (now apply pend_ok_push_all).
      destruct (IHl sv1 Hpo1) as [H3 H4]; [lia|].
      split; [exact H3|].
      apply (tracks_ext _ _ _ _ _ (fun m => eq_refl)
               (tracks_trans sv sv1 _ b _ _
                  (tracks_ext _ _ _ _ _ (fun m => eq_refl)
                     (tracks_trans sv (handle fx (S nest) sv b c) sv1 b _ _ H2
                        (tracks_sess _ sv1 b (same_core_sess _ _ (push_all_core _))))) H4)).
Qed.

End Frame.
