(* Refl/IsoBase.v -- C06: basic facts about paths, subscriber tables and the flat node tree
   (Refl/Base.v, Refl/Tree.v), and the vocabulary of the frame statement. *)
From Coq Require Import List NArith ZArith Bool Arith Lia.
From Muscle Require Import Refl.Base Refl.Tree.
Import ListNotations.

(* ------------------------------------------------------------------ paths *)

Lemma name_eqb_eq : forall a b, name_eqb a b = true <-> a = b.
Proof. intros a b. unfold name_eqb. apply N.eqb_eq. Qed.

Lemma name_eqb_refl : forall a, name_eqb a a = true.
Proof. intros a. apply N.eqb_refl. Qed.

Lemma path_eqb_eq : forall p q, path_eqb p q = true <-> p = q.
Proof.
  induction p as [|a p IH]; intros [|b q]; cbn; split; intros H; try reflexivity; try discriminate.
  - apply andb_true_iff in H as [H1 H2]. apply name_eqb_eq in H1. apply IH in H2. now subst.
  - inversion H; subst. rewrite name_eqb_refl. cbn. now apply IH.
Qed.

Lemma path_eqb_refl : forall p, path_eqb p p = true.
Proof. intros p. now apply path_eqb_eq. Qed.

Lemma path_eqb_neq : forall p q, path_eqb p q = false <-> p <> q.
Proof.
  intros p q. split.
  - intros H E. apply path_eqb_eq in E. congruence.
  - intros H. destruct (path_eqb p q) eqn:E; [|reflexivity]. apply path_eqb_eq in E. contradiction.
Qed.

Lemma path_eqb_sym : forall p q, path_eqb p q = path_eqb q p.
Proof.
  intros p q. destruct (path_eqb p q) eqn:E.
  - apply path_eqb_eq in E. subst. symmetry. apply path_eqb_refl.
  - symmetry. apply path_eqb_neq. apply path_eqb_neq in E. congruence.
Qed.

Lemma strip_prefix_spec : forall p q r, strip_prefix p q = Some r <-> q = p ++ r.
Proof.
  induction p as [|a p IH]; intros q r; cbn.
  - split; intros H; [inversion H|subst]; reflexivity.
  - destruct q as [|b q]; [split; intros H; discriminate|].
    destruct (name_eqb a b) eqn:E.
    + apply name_eqb_eq in E. subst b. rewrite IH. split; intros H; [subst|inversion H]; reflexivity.
    + split; intros H; [discriminate|]. inversion H; subst. rewrite name_eqb_refl in E. discriminate.
Qed.

Lemma is_prefix_spec : forall p q, is_prefix p q = true <-> exists r, q = p ++ r.
Proof.
  intros p q. unfold is_prefix. destruct (strip_prefix p q) as [r|] eqn:E.
  - apply strip_prefix_spec in E. split; intros _; [now exists r|reflexivity].
  - split; intros H; [discriminate|]. destruct H as [r H]. apply strip_prefix_spec in H. congruence.
Qed.

Lemma is_prefix_refl : forall p, is_prefix p p = true.
Proof. intros p. apply is_prefix_spec. exists []. now rewrite app_nil_r. Qed.

Lemma is_prefix_app : forall p r, is_prefix p (p ++ r) = true.
Proof. intros p r. apply is_prefix_spec. now exists r. Qed.

Lemma is_prefix_trans : forall p q r, is_prefix p q = true -> is_prefix q r = true -> is_prefix p r = true.
Proof.
  intros p q r H1 H2. apply is_prefix_spec in H1 as [a Ha]. apply is_prefix_spec in H2 as [b Hb].
  apply is_prefix_spec. exists (a ++ b). subst. now rewrite app_assoc.
Qed.

Lemma is_prefix_snoc : forall p q k, is_prefix p q = true -> is_prefix p (q ++ [k]) = true.
Proof. intros p q k H. eapply is_prefix_trans; [exact H|apply is_prefix_app]. Qed.

Lemma is_child_spec : forall p q, is_child p q = true <-> exists k, q = p ++ [k].
Proof.
  intros p q. unfold is_child, child_name. destruct (strip_prefix p q) as [r|] eqn:E.
  - apply strip_prefix_spec in E. destruct r as [|k [|k' r]].
    + split; intros H; [discriminate|]. destruct H as [k H]. subst q. apply app_inv_head in H. discriminate.
    + split; intros _; [now exists k|reflexivity].
    + split; intros H; [discriminate|]. destruct H as [j H]. subst q. apply app_inv_head in H. discriminate.
  - split; intros H; [discriminate|]. destruct H as [k H]. apply strip_prefix_spec in H. congruence.
Qed.

Lemma is_prefix_length : forall p q, is_prefix p q = true -> length p <= length q.
Proof. intros p q H. apply is_prefix_spec in H as [r ->]. rewrite app_length. lia. Qed.

(* ------------------------------------------------------------------ subscriber tables *)

Definition tbl_without (s : sid) (t : subtbl) : subtbl := filter (fun kc => negb (N.eqb (fst kc) s)) t.

Lemma tbl_without_put : forall t s c, tbl_without s (tbl_put t s c) = tbl_without s t.
Proof.
  unfold tbl_without. induction t as [|[k c0] r IH]; intros s c; cbn.
  - now rewrite N.eqb_refl.
  - destruct (N.eqb k s) eqn:E; cbn; rewrite E; cbn; [reflexivity|]. now rewrite IH.
Qed.

Lemma tbl_without_remove : forall t s, tbl_without s (tbl_remove t s) = tbl_without s t.
Proof.
  unfold tbl_without. induction t as [|[k c0] r IH]; intros s; cbn; [reflexivity|].
  destruct (N.eqb k s) eqn:E; cbn; [reflexivity|]. rewrite E. cbn. now rewrite IH.
Qed.

Lemma tbl_without_adjust : forall t s d, tbl_without s (tbl_adjust t s d) = tbl_without s t.
Proof.
  intros t s d. unfold tbl_adjust. destruct (Z.eqb d 0); [reflexivity|].
  match goal with |- context [if N.ltb 0 ?x then _ else _] => destruct (N.ltb 0 x) end.
  - apply tbl_without_put.
  - apply tbl_without_remove.
Qed.

Lemma tbl_get_other_put : forall t s c k, k <> s -> tbl_get (tbl_put t s c) k = tbl_get t k.
Proof.
  induction t as [|[k0 c0] r IH]; intros s c k Hk; cbn.
  - destruct (N.eqb s k) eqn:E; [apply N.eqb_eq in E; congruence|reflexivity].
  - destruct (N.eqb k0 s) eqn:E; cbn.
    + apply N.eqb_eq in E. subst k0. destruct (N.eqb s k) eqn:E2; [apply N.eqb_eq in E2; congruence|reflexivity].
    + destruct (N.eqb k0 k); [reflexivity|]. now apply IH.
Qed.

(* ------------------------------------------------------------------ lookup *)

Lemma find_node_In : forall t p n, find_node t p = Some n -> In n t /\ n_path n = p.
Proof.
  induction t as [|x r IH]; intros p n H; cbn in H; [discriminate|].
  destruct (path_eqb (n_path x) p) eqn:E.
  - inversion H; subst. apply path_eqb_eq in E. split; [now left|exact E].
  - apply IH in H as [H1 H2]. split; [now right|exact H2].
Qed.

Lemma children_In : forall t p c, In c (children t p) -> In c t /\ exists k, n_path c = p ++ [k].
Proof.
  intros t p c H. unfold children in H. apply filter_In in H as [H1 H2]. split; [exact H1|]. now apply is_child_spec.
Qed.

Lemma get_child_In : forall t p k c, get_child t p k = Some c -> In c t /\ n_path c = p ++ [k].
Proof. intros t p k c H. unfold get_child in H. now apply find_node_In. Qed.

(* ------------------------------------------------------------------ the frame vocabulary *)

(* a node seen without session s's own mark on it *)
Definition strip (s : sid) (n : node) : node := mkNode (n_path n) (n_data n) (tbl_without s (n_subs n)).

Definition outside (dir : path) (n : node) : bool := negb (is_prefix dir (n_path n)).

(* everything of the tree that lies outside [dir], in list (= creation = child iteration) order, without s's marks *)
Definition foreign_view (s : sid) (dir : path) (t : tree) : list node := map (strip s) (filter (outside dir) t).

Lemma fv_app : forall s dir a b, foreign_view s dir (a ++ b) = foreign_view s dir a ++ foreign_view s dir b.
Proof. intros. unfold foreign_view. now rewrite filter_app, map_app. Qed.

Lemma fv_add_inside : forall s dir t n, is_prefix dir (n_path n) = true -> foreign_view s dir (add_node t n) = foreign_view s dir t.
Proof.
  intros s dir t n H. unfold add_node. rewrite fv_app. unfold foreign_view at 2. cbn. unfold outside. rewrite H. cbn. apply app_nil_r.
Qed.

Lemma fv_remove_inside : forall s dir t p, is_prefix dir p = true -> foreign_view s dir (remove_node t p) = foreign_view s dir t.
Proof.
  intros s dir t p H. unfold foreign_view, remove_node. f_equal.
  induction t as [|n r IH]; cbn; [reflexivity|].
  destruct (path_eqb (n_path n) p) eqn:E; cbn.
  - apply path_eqb_eq in E. unfold outside at 2. rewrite E, H. cbn. exact IH.
  - destruct (outside dir n); [now rewrite IH|exact IH].
Qed.

Lemma fv_map : forall s dir (g : node -> node) t,
  (forall n, n_path (g n) = n_path n) ->
  (forall n, outside dir n = true -> strip s (g n) = strip s n) ->
  foreign_view s dir (map g t) = foreign_view s dir t.
Proof.
  intros s dir g t Hp Hs. unfold foreign_view. induction t as [|n r IH]; cbn; [reflexivity|].
  assert (Ho : outside dir (g n) = outside dir n) by (unfold outside; now rewrite Hp).
  rewrite Ho. destruct (outside dir n) eqn:E; cbn; [|exact IH]. rewrite IH. f_equal. now apply Hs.
Qed.

Lemma fv_set_data_inside : forall s dir t p d, is_prefix dir p = true -> foreign_view s dir (set_data t p d) = foreign_view s dir t.
Proof.
  intros s dir t p d H. unfold set_data, map_node. apply fv_map.
  - intros n. destruct (path_eqb (n_path n) p); reflexivity.
  - intros n Ho. destruct (path_eqb (n_path n) p) eqn:E; [|reflexivity].
    apply path_eqb_eq in E. unfold outside in Ho. rewrite E, H in Ho. discriminate.
Qed.

Lemma fv_adjust_subs : forall s dir t p d, foreign_view s dir (adjust_subs t p s d) = foreign_view s dir t.
Proof.
  intros s dir t p d. unfold adjust_subs, map_node. apply fv_map.
  - intros n. destruct (path_eqb (n_path n) p); reflexivity.
  - intros n _. destruct (path_eqb (n_path n) p); [|reflexivity]. unfold strip. cbn [n_path n_data n_subs]. now rewrite tbl_without_adjust.
Qed.
