(* Refl/RefcountProofs.v -- refcount_inv: in every reachable state every node's subscriber table holds, for
   every session, the number of that session's subscription paths that match the node. *)
From Coq Require Import List NArith ZArith Bool Arith Lia.
From Muscle Require Import Refl.Base Refl.BaseProofs Refl.Tree Refl.TreeProofs Refl.Matcher Refl.MatcherProofs
     Refl.Traverse Refl.Session Refl.Server Refl.ServerProofs.
Import ListNotations.

Section Refcount.
Context {M : MatchOps} {L : MatchLaws M}.
Variable fx : fixes.
Hypothesis guard_on : fx_guard fx = true.

(* the number the table must hold, in the model's own terms: NodePathMatcher::GetMatchCount of the session's
   _subscriptions on the node (filters play no part in the marks) *)
Definition subscribed_count (sv : server) (s : sid) (p : path) : N :=
  match get_session sv s with
  | Some ss => match_count (s_subs ss) p None 0
  | None => 0%N
  end.

Theorem refcount_inv : forall evs,
  wf_run fx empty_server evs -> small (run_budget evs) ->
  forall n s, In n (sv_tree (run fx evs empty_server)) ->
              tbl_get (n_subs n) s = subscribed_count (run fx evs empty_server) s (n_path n).
Proof.
  intros evs Hwf Hsmall n s Hn.
  pose proof (run_inv fx guard_on evs empty_server 0 Hsmall empty_inv Hwf) as I. cbn [Nat.add] in I.
  destruct (inv_marks _ _ _ I n Hn) as [_ H]. rewrite H. unfold count_for, subscribed_count.
  destruct (get_session (run fx evs empty_server) s) as [ss|] eqn:Hss; auto.
  apply find_session_some in Hss as [Hin _].
  destruct (inv_subs _ _ _ I ss Hin) as [[Hw _] _]. now rewrite match_count_spec.
Qed.

(* the table holds no entry for a session that is not subscribed, and no session twice *)
Theorem refcount_tables_ok : forall evs,
  wf_run fx empty_server evs -> small (run_budget evs) ->
  forall n, In n (sv_tree (run fx evs empty_server)) -> tbl_ok (n_subs n).
Proof.
  intros evs Hwf Hsmall n Hn.
  pose proof (run_inv fx guard_on evs empty_server 0 Hsmall empty_inv Hwf) as I. cbn [Nat.add] in I.
  now destruct (inv_marks _ _ _ I n Hn).
Qed.

(* the tree stays a tree: distinct paths, every node's parent present *)
Theorem tree_wf_inv : forall evs,
  wf_run fx empty_server evs -> small (run_budget evs) -> wf_tree (sv_tree (run fx evs empty_server)).
Proof.
  intros evs Hwf Hsmall.
  pose proof (run_inv fx guard_on evs empty_server 0 Hsmall empty_inv Hwf) as I. cbn [Nat.add] in I.
  exact (inv_tree _ _ _ I).
Qed.

End Refcount.

(* a boolean test of the history condition, for examples *)
Section WfRunB.
Context {M : MatchOps}.
Variable fx : fixes.

Definition wf_event_b (sv : server) (ev : event) : bool :=
  match ev with
  | EAttach s host nm => forallb (fun ss => negb (path_eqb (session_dir ss) [host; nm])) (sv_sessions sv)
  | _ => true
  end.

Fixpoint wf_run_b (sv : server) (evs : list event) : bool :=
  match evs with
  | [] => true
  | ev :: r => wf_event_b sv ev && wf_run_b (step fx sv ev) r
  end.

Lemma wf_run_b_spec : forall evs sv, wf_run_b sv evs = true -> wf_run fx sv evs.
Proof.
  induction evs as [|ev evs IH]; intros sv H; cbn [wf_run_b wf_run] in *; auto.
  apply andb_true_iff in H as [H1 H2]. split; [|now apply IH].
  destruct ev as [s host nm|s|s c]; cbn [wf_event wf_event_b] in *; auto.
  intros ss Hin E. rewrite forallb_forall in H1. specialize (H1 ss Hin).
  apply negb_true_iff in H1. apply path_eqb_neq in H1. contradiction.
Qed.

End WfRunB.
