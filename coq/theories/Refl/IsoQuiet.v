(* Refl/IsoQuiet.v -- C06: a session cannot make the server tell anybody anything about nodes outside its own subtree.
   [mentions sv t]: every node path named (as set or as removed) in a PR_RESULT_DATAITEMS Message that session t holds,
   delivered or pending.  Whatever session s sends, whatever another session t holds afterwards either was there before or
   names a node at or below s's directory. *)
From Coq Require Import List NArith ZArith Bool Arith Lia.
From Muscle Require Import Gen.Consts Refl.Base Refl.Tree Refl.Matcher Refl.Traverse Refl.Session Refl.Server
     Refl.IsoModel Refl.IsoBase Refl.IsoTrav Refl.IsoFrame.
Import ListNotations.

Section Quiet.
Context {M : MatchOps}.
Variable fx : fixes.

Definition di_paths (d : ditems) : list path := di_removed d ++ map fst (di_sets d).

Definition sess_mentions (x : session) : list path :=
  flat_map di_paths (s_out x) ++ match s_pending x with Some d => di_paths d | None => [] end.

(* the paths held by the session(s) with id t *)
Definition mentions (sv : server) (t : sid) : list path :=
  flat_map (fun x => if N.eqb (s_id x) t then sess_mentions x else []) (sv_sessions sv).

(* relative to sv0, session t holds nothing new in sv except about nodes at or below dir *)
Definition only_about (dir : path) (t : sid) (sv0 sv : server) : Prop :=
  forall p, In p (mentions sv t) -> In p (mentions sv0 t) \/ is_prefix dir p = true.

Lemma only_about_refl : forall dir t sv, only_about dir t sv sv.
Proof. intros dir t sv p H. now left. Qed.

Lemma only_about_trans : forall dir t a b c, only_about dir t a b -> only_about dir t b c -> only_about dir t a c.
Proof. intros dir t a b c H1 H2 p Hp. destruct (H2 p Hp) as [H|H]; [now apply H1|now right]. Qed.

(* ------------------------------------------------------------------ the primitives *)

Lemma mentions_map : forall sv (f : session -> session) tr dirty t,
  (forall x, s_id (f x) = s_id x) ->
  (forall x p, In p (sess_mentions (f x)) -> In p (sess_mentions x)) ->
  forall p, In p (mentions (mkServer tr (map f (sv_sessions sv)) dirty) t) -> In p (mentions sv t).
Proof.
  intros sv f tr dirty t Hid Hf p H. unfold mentions in *. cbn [sv_sessions] in H.
  apply in_flat_map in H as [y [Hy Hp]]. apply in_map_iff in Hy as [x [Hx Hin]]. subst y.
  apply in_flat_map. exists x. split; [exact Hin|]. rewrite Hid in Hp. destruct (N.eqb (s_id x) t); [now apply Hf|exact Hp].
Qed.

Lemma sess_mentions_push : forall x p, In p (sess_mentions (push_pending x)) -> In p (sess_mentions x).
Proof.
  intros x p H. unfold push_pending in H. destruct (s_pending x) as [d|] eqn:E; [|exact H].
  unfold sess_mentions in *. cbn [s_out s_pending set_pending send] in H. rewrite E. rewrite flat_map_app in H. cbn [flat_map] in H.
  rewrite app_nil_r, app_nil_r in H. exact H.
Qed.

Lemma only_about_push_all : forall dir t sv, only_about dir t sv (push_all sv).
Proof.
  intros dir t sv p H. left. unfold push_all in H. destruct (sv_dirty sv); [|exact H].
  apply (mentions_map sv push_pending (sv_tree sv) false t); [| |exact H].
  - intros x. unfold push_pending. destruct (s_pending x); reflexivity.
  - intros x q. apply sess_mentions_push.
Qed.

(* an update of session u that adds at most the path q to what u holds *)
Lemma only_about_upd : forall dir t sv u (f : session -> session) q,
  (forall x, s_id (f x) = s_id x) ->
  (forall x p, In p (sess_mentions (f x)) -> In p (sess_mentions x) \/ p = q) ->
  (u = t -> is_prefix dir q = true) ->
  only_about dir t sv (upd_session sv u f).
Proof.
  intros dir t sv u f q Hid Hf Hq p H. unfold mentions, upd_session in *. cbn [sv_sessions] in H.
  apply in_flat_map in H as [y [Hy Hp]]. apply in_map_iff in Hy as [x [Hx Hin]]. subst y.
  destruct (N.eqb (s_id x) u) eqn:Eu.
  - rewrite Hid in Hp. destruct (N.eqb (s_id x) t) eqn:Et; [|destruct Hp].
    destruct (Hf x p Hp) as [H|H].
    + left. apply in_flat_map. exists x. split; [exact Hin|]. now rewrite Et.
    + right. subst p. apply Hq. apply N.eqb_eq in Eu. apply N.eqb_eq in Et. congruence.
  - left. apply in_flat_map. exists x. now split.
Qed.

Lemma sess_mentions_set_pending_removed : forall x d q p, (forall r, In r (di_paths d) -> In r (sess_mentions x)) ->
  In p (sess_mentions (set_pending x (Some (di_add_removed d q)))) -> In p (sess_mentions x) \/ p = q.
Proof.
  intros x d q p Hd H. unfold sess_mentions in H. cbn [s_out s_pending set_pending] in H. apply in_app_or in H as [H|H].
  - left. unfold sess_mentions. apply in_or_app. now left.
  - unfold di_paths, di_add_removed in H. cbn [di_removed di_sets] in H. rewrite <- app_assoc in H.
    apply in_app_or in H as [H|H]; [left; apply Hd; unfold di_paths; apply in_or_app; now left|].
    cbn in H. destruct H as [H|H]; [now right|]. left. apply Hd. unfold di_paths. apply in_or_app. now right.
Qed.

Lemma sets_add_paths : forall l q v r, In r (map fst (sets_add l q v)) -> In r (map fst l) \/ r = q.
Proof.
  induction l as [|[a vs] l IH]; intros q v r H; cbn in H.
  - destruct H as [H|[]]. now right.
  - destruct (path_eqb a q); cbn in H.
    + left. exact H.
    + destruct H as [H|H]; [left; now left|]. destruct (IH q v r H) as [H1|H1]; [left; now right|now right].
Qed.

Lemma sess_mentions_set_pending_set : forall x d q v p, (forall r, In r (di_paths d) -> In r (sess_mentions x)) ->
  In p (sess_mentions (set_pending x (Some (di_add_set d q v)))) -> In p (sess_mentions x) \/ p = q.
Proof.
  intros x d q v p Hd H. unfold sess_mentions in H. cbn [s_out s_pending set_pending] in H. apply in_app_or in H as [H|H].
  - left. unfold sess_mentions. apply in_or_app. now left.
  - unfold di_paths, di_add_set in H. cbn [di_removed di_sets] in H.
    apply in_app_or in H as [H|H]; [left; apply Hd; unfold di_paths; apply in_or_app; now left|].
    destruct (sets_add_paths _ _ _ _ H) as [H1|H1]; [|now right]. left. apply Hd. unfold di_paths. apply in_or_app. now right.
Qed.

Lemma pending_or_new_paths : forall (x : session) r, In r (di_paths (pending_or_new x)) -> In r (sess_mentions x).
Proof.
  intros x r H. unfold pending_or_new in H. unfold sess_mentions. destruct (s_pending x); [apply in_or_app; now right|destruct H].
Qed.

End Quiet.
