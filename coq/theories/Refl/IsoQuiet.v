(* Refl/IsoQuiet.v -- C06: a session cannot make the server tell anybody anything about nodes outside its own subtree.
   [mentions sv t]: every node path named (as set or as removed) in a PR_RESULT_DATAITEMS Message that session t holds,
   delivered or pending.  Whatever session s sends, whatever another session t holds afterwards either was there before or
   names a node at or below s's directory. *)
From Coq Require Import List NArith ZArith Bool Arith Lia.
From Muscle Require Import Gen.Consts Refl.Base Refl.Tree Refl.Matcher Refl.Traverse Refl.Session Refl.Server
     Refl.IsoModel Refl.IsoBase Refl.IsoTrav Refl.IsoFrame.
Import ListNotations.

Section Quiet.
Context {M : MatchOps}.
Variable fx : fixes.

Definition di_paths (d : ditems) : list path := di_removed d ++ map fst (di_sets d).

Definition sess_mentions (x : session) : list path :=
  flat_map di_paths (s_out x) ++ match s_pending x with Some d => di_paths d | None => [] end.

(* the paths held by the session(s) with id t *)
Definition mentions (sv : server) (t : sid) : list path :=
  flat_map (fun x => if N.eqb (s_id x) t then sess_mentions x else []) (sv_sessions sv).

(* relative to sv0, session t holds nothing new in sv except about nodes at or below dir *)
Definition only_about (dir : path) (t : sid) (sv0 sv : server) : Prop :=
  forall p, In p (mentions sv t) -> In p (mentions sv0 t) \/ is_prefix dir p = true.

Lemma only_about_refl : forall dir t sv, only_about dir t sv sv.
Proof. intros dir t sv p H. now left. Qed.

Lemma only_about_trans : forall dir t a b c, only_about dir t a b -> only_about dir t b c -> only_about dir t a c.
Proof. intros dir t a b c H1 H2 p Hp. destruct (H2 p Hp) as [H|H]; [now apply H1|now right]. Qed.

(* ------------------------------------------------------------------ the primitives *)

Lemma mentions_map : forall sv (f : session -> session) tr dirty t,
  (forall x, s_id (f x) = s_id x) ->
  (forall x p, In p (sess_mentions (f x)) -> In p (sess_mentions x)) ->
  forall p, In p (mentions (mkServer tr (map f (sv_sessions sv)) dirty) t) -> In p (mentions sv t).
Proof.
  intros sv f tr dirty t Hid Hf p H. unfold mentions in *. cbn [sv_sessions] in H.
  apply in_flat_map in H as [y [Hy Hp]]. apply in_map_iff in Hy as [x [Hx Hin]]. subst y.
  apply in_flat_map. exists x. split; [exact Hin|]. rewrite Hid in Hp. destruct (N.eqb (s_id x) t); [now apply Hf|exact Hp].
Qed.

Lemma sess_mentions_push : forall x p, In p (sess_mentions (push_pending x)) -> In p (sess_mentions x).
Proof.
  intros x p H. unfold push_pending in H. destruct (s_pending x) as [d|] eqn:E; [|exact H].
  unfold sess_mentions in *. cbn [s_out s_pending set_pending send] in H. rewrite E. rewrite flat_map_app in H. cbn [flat_map] in H.
  rewrite app_nil_r, app_nil_r in H. exact H.
Qed.

Lemma only_about_push_all : forall dir t sv, only_about dir t sv (push_all sv).
Proof.
  intros dir t sv p H. left. unfold push_all in H. destruct (sv_dirty sv); [|exact H].
  apply (mentions_map sv push_pending (sv_tree sv) false t); [| |exact H].
  - intros x. unfold push_pending. destruct (s_pending x); reflexivity.
  - intros x q. apply sess_mentions_push.
Qed.

Lemma in_mentions : forall sv x p, In x (sv_sessions sv) -> In p (sess_mentions x) -> In p (mentions sv (s_id x)).
Proof. intros sv x p Hx Hp. unfold mentions. apply in_flat_map. exists x. split; [exact Hx|]. now rewrite N.eqb_refl. Qed.

Lemma in_mentions_id : forall sv x u p, In x (sv_sessions sv) -> s_id x = u -> In p (sess_mentions x) -> In p (mentions sv u).
Proof. intros sv x u p Hx Hu Hp. subst u. now apply in_mentions. Qed.

(* an update of the sessions with id u after which they hold at most what was held under that id before, plus the path q *)
Lemma only_about_upd : forall dir t sv u (f : session -> session) q,
  (forall x, s_id (f x) = s_id x) ->
  (forall x p, In x (sv_sessions sv) -> s_id x = u -> In p (sess_mentions (f x)) -> In p (mentions sv u) \/ p = q) ->
  (u = t -> is_prefix dir q = true) ->
  only_about dir t sv (upd_session sv u f).
Proof.
  intros dir t sv u f q Hid Hf Hq p H. unfold mentions at 1, upd_session in H. cbn [sv_sessions] in H.
  apply in_flat_map in H as [y [Hy Hp]]. apply in_map_iff in Hy as [x [Hx Hin]]. subst y.
  destruct (N.eqb (s_id x) u) eqn:Eu.
  - rewrite Hid in Hp. destruct (N.eqb (s_id x) t) eqn:Et; [|destruct Hp].
    apply N.eqb_eq in Eu. apply N.eqb_eq in Et.
    destruct (Hf x p Hin Eu Hp) as [H|H]; [left; congruence|]. right. subst p. apply Hq. congruence.
  - left. unfold mentions. apply in_flat_map. exists x. now split.
Qed.

(* an update of somebody else *)
Lemma only_about_upd_other : forall dir t sv u (f : session -> session),
  (forall x, s_id (f x) = s_id x) -> u <> t -> only_about dir t sv (upd_session sv u f).
Proof.
  intros dir t sv u f Hid Hne p H. left. unfold mentions in *. unfold upd_session in H. cbn [sv_sessions] in H.
  apply in_flat_map in H as [y [Hy Hp]]. apply in_map_iff in Hy as [x [Hx Hin]]. subst y.
  apply in_flat_map. exists x. split; [exact Hin|].
  destruct (N.eqb (s_id x) u) eqn:Eu; [|exact Hp]. rewrite Hid in Hp.
  destruct (N.eqb (s_id x) t) eqn:Et; [|exact Hp]. apply N.eqb_eq in Eu. apply N.eqb_eq in Et. congruence.
Qed.

Lemma sess_mentions_set_pending_removed : forall x d q p, (forall r, In r (di_paths d) -> In r (sess_mentions x)) ->
  In p (sess_mentions (set_pending x (Some (di_add_removed d q)))) -> In p (sess_mentions x) \/ p = q.
Proof.
  intros x d q p Hd H. unfold sess_mentions in H. cbn [s_out s_pending set_pending] in H. apply in_app_or in H as [H|H].
  - left. unfold sess_mentions. apply in_or_app. now left.
  - unfold di_paths, di_add_removed in H. cbn [di_removed di_sets] in H. rewrite <- app_assoc in H.
    apply in_app_or in H as [H|H]; [left; apply Hd; unfold di_paths; apply in_or_app; now left|].
    cbn in H. destruct H as [H|H]; [now right|]. left. apply Hd. unfold di_paths. apply in_or_app. now right.
Qed.

Lemma sets_add_paths : forall l q v r, In r (map fst (sets_add l q v)) -> In r (map fst l) \/ r = q.
Proof.
  induction l as [|[a vs] l IH]; intros q v r H; cbn in H.
  - destruct H as [H|[]]. now right.
  - destruct (path_eqb a q); cbn in H.
    + left. exact H.
    + destruct H as [H|H]; [left; now left|]. destruct (IH q v r H) as [H1|H1]; [left; now right|now right].
Qed.

Lemma sess_mentions_set_pending_set : forall x d q v p, (forall r, In r (di_paths d) -> In r (sess_mentions x)) ->
  In p (sess_mentions (set_pending x (Some (di_add_set d q v)))) -> In p (sess_mentions x) \/ p = q.
Proof.
  intros x d q v p Hd H. unfold sess_mentions in H. cbn [s_out s_pending set_pending] in H. apply in_app_or in H as [H|H].
  - left. unfold sess_mentions. apply in_or_app. now left.
  - unfold di_paths, di_add_set in H. cbn [di_removed di_sets] in H.
    apply in_app_or in H as [H|H]; [left; apply Hd; unfold di_paths; apply in_or_app; now left|].
    destruct (sets_add_paths _ _ _ _ H) as [H1|H1]; [|now right]. left. apply Hd. unfold di_paths. apply in_or_app. now right.
Qed.

Lemma pending_or_new_paths : forall (x : session) r, In r (di_paths (pending_or_new x)) -> In r (sess_mentions x).
Proof.
  intros x r H. unfold pending_or_new in H. unfold sess_mentions. destruct (s_pending x); [apply in_or_app; now right|destruct H].
Qed.

Lemma only_about_set_dirty : forall dir t sv b, only_about dir t sv (set_dirty sv b).
Proof. intros dir t sv b p H. now left. Qed.

Lemma only_about_set_tree : forall dir t sv tr, only_about dir t sv (set_tree sv tr).
Proof. intros dir t sv tr p H. now left. Qed.

Lemma find_session_in_list : forall l u x, find_session l u = Some x -> In x l /\ s_id x = u.
Proof.
  induction l as [|y l IH]; intros u x H; cbn in H; [discriminate|]. destruct (N.eqb (s_id y) u) eqn:E.
  - inversion H; subst. split; [now left|now apply N.eqb_eq].
  - apply IH in H as [H1 H2]. split; [now right|exact H2].
Qed.

Lemma di_paths_add_removed : forall d q r, In r (di_paths (di_add_removed d q)) -> In r (di_paths d) \/ r = q.
Proof.
  intros d q r H. unfold di_paths, di_add_removed in *. cbn [di_removed di_sets] in H. rewrite <- app_assoc in H.
  apply in_app_or in H as [H|H]; [left; apply in_or_app; now left|]. cbn in H. destruct H as [H|H]; [now right|]. left. apply in_or_app. now right.
Qed.

Lemma di_paths_add_set : forall d q v r, In r (di_paths (di_add_set d q v)) -> In r (di_paths d) \/ r = q.
Proof.
  intros d q v r H. unfold di_paths, di_add_set in *. cbn [di_removed di_sets] in H.
  apply in_app_or in H as [H|H]; [left; apply in_or_app; now left|].
  destruct (sets_add_paths _ _ _ _ H) as [H1|H1]; [left; apply in_or_app; now right|now right].
Qed.

(* replacing the pending Message of the sessions with id u by d', all of whose paths come from su's pending Message or are q *)
Lemma upd_pending_agg : forall sv u su d' q x p0, In su (sv_sessions sv) -> s_id su = u -> In x (sv_sessions sv) -> s_id x = u ->
  (forall r, In r (di_paths d') -> In r (di_paths (pending_or_new su)) \/ r = q) ->
  In p0 (sess_mentions (set_pending x (Some d'))) -> In p0 (mentions sv u) \/ p0 = q.
Proof.
  intros sv u su d' q x p0 Hsu Hid Hx Hxu Hd Hp. unfold sess_mentions in Hp. cbn [s_out s_pending set_pending] in Hp.
  apply in_app_or in Hp as [Hp|Hp].
  - left. apply (in_mentions_id _ x); [exact Hx|exact Hxu|]. unfold sess_mentions. apply in_or_app. now left.
  - destruct (Hd p0 Hp) as [H|H]; [|now right]. left. apply (in_mentions_id _ su); [exact Hsu|exact Hid|]. now apply pending_or_new_paths.
Qed.

(* NodeChangedAux for the node q and session u: u learns about q, nobody learns anything else *)
Lemma node_changed_aux_about : forall dir t sv u q d r, (u = t -> is_prefix dir q = true) ->
  only_about dir t sv (node_changed_aux sv u q d r).
Proof.
  intros dir t sv u q d r Hq. unfold node_changed_aux.
  destruct (get_session sv u) as [su|] eqn:Eu; [|apply only_about_refl].
  destruct (find_session_in_list _ _ _ Eu) as [Hin Hid].
  match goal with |- only_about dir t sv (match get_session ?X u with _ => _ end) => set (sv1 := X) end.
  assert (H1 : only_about dir t sv sv1).
  { subst sv1. destruct r; [destruct (di_has_set (pending_or_new su) q)|].
    - (* flush, then a fresh pending Message holding only q *)
      eapply only_about_trans; [|apply only_about_set_dirty].
      eapply only_about_trans; [|apply (only_about_upd dir t _ u _ q); [reflexivity| |exact Hq]].
      + eapply only_about_trans; [|apply only_about_push_all]. eapply only_about_trans; [|apply only_about_set_dirty].
        apply (only_about_upd dir t sv u _ q); [reflexivity| |exact Hq].
        intros x p0 Hx Hxu Hp. apply (upd_pending_agg sv u su (pending_or_new su) q x p0 Hin Hid Hx Hxu); [|exact Hp]. intros r0 Hr0. now left.
      + intros x p0 Hx Hxu Hp. unfold sess_mentions in Hp. cbn [s_out s_pending set_pending] in Hp. apply in_app_or in Hp as [Hp|Hp].
        * left. apply (in_mentions_id _ x); [exact Hx|exact Hxu|]. unfold sess_mentions. apply in_or_app. now left.
        * cbn in Hp. destruct Hp as [Hp|[]]. now right.
    - eapply only_about_trans; [|apply only_about_set_dirty]. apply (only_about_upd dir t sv u _ q); [reflexivity| |exact Hq].
      intros x p0 Hx Hxu Hp. apply (upd_pending_agg sv u su (di_add_removed (pending_or_new su) q) q x p0 Hin Hid Hx Hxu); [|exact Hp]. apply di_paths_add_removed.
    - eapply only_about_trans; [|apply only_about_set_dirty]. apply (only_about_upd dir t sv u _ q); [reflexivity| |exact Hq].
      intros x p0 Hx Hxu Hp. apply (upd_pending_agg sv u su (di_add_set (pending_or_new su) q d) q x p0 Hin Hid Hx Hxu); [|exact Hp]. apply di_paths_add_set. }
  destruct (get_session sv1 u) as [ss1|]; [|exact H1].
  destruct (s_pending ss1); [|exact H1]. destruct (N.leb _ _); [|exact H1].
  eapply only_about_trans; [exact H1|apply only_about_push_all].
Qed.

Lemma node_changed_about : forall dir t sv u q d old r, (u = t -> is_prefix dir q = true) ->
  only_about dir t sv (node_changed sv u q d old r).
Proof.
  intros dir t sv u q d old r Hq. unfold node_changed. destruct (get_session sv u); [|apply only_about_refl].
  destruct (N.ltb _ _); [|now apply node_changed_aux_about].
  destruct r.
  - destruct (matches_node _ _ _ _); [now apply node_changed_aux_about|apply only_about_refl].
  - destruct old; repeat (match goal with |- context [if ?b then _ else _] => destruct b end);
      try (now apply node_changed_aux_about); apply only_about_refl.
Qed.

(* NotifySubscribersThatNodeChanged for a node at or below dir *)
Lemma notify_changed_about : forall dir t sv by_ q d old r, is_prefix dir q = true ->
  only_about dir t sv (notify_changed sv by_ q d old r).
Proof.
  intros dir t sv by_ q d old r Hq. unfold notify_changed. destruct (find_node _ _) as [n|]; [|apply only_about_refl].
  generalize (n_subs n). intros l.
  assert (G : forall sv', only_about dir t sv sv' ->
              only_about dir t sv (fold_left (fun sv'0 (kc : sid * N) => if N.eqb (fst kc) by_ then sv'0 else node_changed sv'0 (fst kc) q d old r) l sv')).
  { induction l as [|kc l IH]; intros sv' H'; cbn [fold_left]; [exact H'|]. apply IH.
    destruct (N.eqb _ _); [exact H'|]. eapply only_about_trans; [exact H'|]. apply node_changed_about. intros _. exact Hq. }
  apply G, only_about_refl.
Qed.

(* ------------------------------------------------------------------ the handlers *)

Lemma fold_about : forall (B : Type) (f : server -> B -> server) dir t l,
  (forall sv q, In q l -> only_about dir t sv (f sv q)) -> forall sv, only_about dir t sv (fold_left f l sv).
Proof.
  intros B f dir t l. induction l as [|q l IH]; intros H sv; cbn; [apply only_about_refl|].
  eapply only_about_trans; [apply H; now left|]. apply IH. intros sv' q' Hq'. apply H. now right.
Qed.

Lemma set_data_loop_about : forall dir t cl sv by_ pp d dc dw q,
  is_prefix dir pp = true -> only_about dir t sv (set_data_loop sv by_ pp cl d dc dw q).
Proof.
  intros dir t cl. induction cl as [|k rest IH]; intros sv by_ pp d dc dw q Hpp; cbn [set_data_loop]; [apply only_about_refl|].
  assert (Hp : is_prefix dir (pp ++ [k]) = true) by now apply is_prefix_snoc.
  destruct (find_node (sv_tree sv) (pp ++ [k])) as [n|].
  - destruct rest as [|k2 rest']; [|now apply IH]. destruct dw; [apply only_about_refl|].
    destruct q; [apply only_about_set_tree|]. eapply only_about_trans; [apply only_about_set_tree|now apply notify_changed_about].
  - destruct dc; [apply only_about_refl|]. destruct (Nat.leb _ _); [apply only_about_refl|].
    match goal with |- only_about dir t sv (if ?l then ?a else _) => assert (Ha : only_about dir t sv a) end.
    { destruct q; [apply only_about_set_tree|]. eapply only_about_trans; [apply only_about_set_tree|now apply notify_changed_about]. }
    destruct rest as [|k2 rest']; [exact Ha|]. eapply only_about_trans; [exact Ha|now apply IH].
Qed.

Lemma remove_subtree_about : forall dir t sv by_ p notify, is_prefix dir p = true -> only_about dir t sv (remove_subtree sv by_ p notify).
Proof.
  intros dir t sv by_ p notify Hp. unfold remove_subtree. apply fold_about. intros sv' q Hq.
  apply removal_order_prefix in Hq. assert (Hdq : is_prefix dir q = true) by (eapply is_prefix_trans; eassumption).
  destruct (find_node _ _); [|apply only_about_refl].
  eapply only_about_trans; [|apply only_about_set_tree]. destruct notify; [now apply notify_changed_about|apply only_about_refl].
Qed.

Lemma do_remove_data_about : forall t sv ss keys quiet, only_about (session_dir ss) t sv (do_remove_data fx sv ss keys quiet).
Proof.
  intros t sv ss keys quiet. unfold do_remove_data. apply fold_about. intros sv' q Hq. destruct (has_node _ _); [|apply only_about_refl].
  apply remove_subtree_about.
  pose proof (remove_cb_collects_below (sv_tree sv) (m_of_list keys) (session_dir ss) true (fx_guard fx)) as H.
  rewrite Forall_forall in H. now apply H.
Qed.

(* what goes to the sender itself does not matter to anybody else *)
Lemma getdata_cb_about : forall dir t sv0 s acc n, s <> t ->
  only_about dir t sv0 (snd acc) -> only_about dir t sv0 (snd (fst (getdata_cb s acc n))).
Proof.
  intros dir t sv0 s [rp sv] n Hne Ha. cbn [snd] in Ha. unfold getdata_cb.
  destruct (get_session sv s); [|exact Ha]. destruct (own_node _ _); [exact Ha|]. destruct (N.leb _ _); cbn [fst snd]; [|exact Ha].
  eapply only_about_trans; [exact Ha|]. apply only_about_upd_other; [reflexivity|exact Hne].
Qed.

Lemma do_get_data_about : forall dir t sv s keys, s <> t -> only_about dir t sv (do_get_data fx sv s keys).
Proof.
  intros dir t sv s keys Hne. unfold do_get_data.
  match goal with |- context [do_traversal ?cb ?tr ?m ?r ?u ?g ?a] =>
    pose proof (do_traversal_inv _ cb tr m r u g (fun acc => only_about dir t sv (snd acc))
                  (fun acc n Ha _ _ => getdata_cb_about dir t sv s acc n Hne Ha) a (only_about_refl dir t sv)) as H;
    destruct (do_traversal cb tr m r u g a) as [reply sv1] end.
  cbn [snd] in H. destruct reply; [|exact H]. eapply only_about_trans; [exact H|]. apply only_about_upd_other; [reflexivity|exact Hne].
Qed.

Lemma cqf_traversal_about : forall dir t sv s oldf newf m, s <> t ->
  only_about dir t sv (do_traversal (continue_cb (cqf_cb fx s oldf newf)) (sv_tree sv) m [] false (fx_guard fx) sv).
Proof.
  intros dir t sv s oldf newf m Hne.
  apply (do_traversal_inv _ _ (sv_tree sv) m [] false (fx_guard fx) (fun acc => only_about dir t sv acc)); [|apply only_about_refl].
  intros acc n Ha _ _. unfold continue_cb. cbn [fst]. eapply only_about_trans; [exact Ha|].
  unfold cqf_cb. destruct (Bool.eqb _ _); [apply only_about_refl|]. destruct (get_session acc s); [|apply only_about_refl].
  destruct (_ && _); [apply only_about_refl|]. apply node_changed_aux_about. intros E. congruence.
Qed.

Lemma subscribe_one_about : forall dir t sv s sf, s <> t -> only_about dir t sv (subscribe_one fx sv s sf).
Proof.
  intros dir t sv s sf Hne. unfold subscribe_one. destruct (get_session sv s); [|apply only_about_refl].
  destruct (fix_path (fst sf)); [apply only_about_refl|]. destruct (m_get _ _) as [e|].
  - eapply only_about_trans; [|apply only_about_upd_other; [reflexivity|exact Hne]].
    destruct (snd sf), (e_flt e); try apply only_about_refl; now apply cqf_traversal_about.
  - eapply only_about_trans; [|apply only_about_set_tree]. apply only_about_upd_other; [reflexivity|exact Hne].
Qed.

Lemma unsubscribe_one_about : forall dir t sv s sp, s <> t -> only_about dir t sv (unsubscribe_one fx sv s sp).
Proof.
  intros dir t sv s sp Hne. unfold unsubscribe_one. destruct (get_session sv s); [|apply only_about_refl].
  destruct (m_remove _ _); [|apply only_about_refl].
  eapply only_about_trans; [|apply only_about_set_tree]. apply only_about_upd_other; [reflexivity|exact Hne].
Qed.

Theorem handle_about : forall c nest sv s ss t, get_session sv s = Some ss -> s <> t ->
  only_about (session_dir ss) t sv (handle fx nest sv s c).
Proof.
  induction c as [flags items|q keys|q subs|subs|n| |keys|l IHl] using cmd_ind'; intros nest sv s ss t Hs Hne;
    pose proof (get_session_id sv s ss Hs) as Hid.
  - destruct nest; cbn [handle]; rewrite Hs;
      (assert (G : forall its sv', frame s (session_dir ss) sv sv' -> only_about (session_dir ss) t sv sv' ->
                only_about (session_dir ss) t sv
                  (fold_left (fun sv'0 (it : list name * payload) =>
                                match get_session sv'0 s with
                                | Some ss' => match fst it with [] => sv'0 | _ :: _ => set_data_node sv'0 ss' (fst it) (snd it) flags end
                                | None => sv'0 end) its sv'));
       [induction its as [|it its IHi]; intros sv' F A; cbn [fold_left]; [exact A|];
        destruct (get_session sv' s) as [ss'|] eqn:Es'; [|now apply IHi];
        destruct (fst it) as [|k rest]; [now apply IHi|];
        pose proof F as [_ [_ Fi]]; destruct (idents_session_dir sv sv' s ss ss' Fi Hs Es') as [_ Hd];
        apply IHi;
        [eapply frame_trans; [exact F|]; unfold set_data_node; rewrite <- Hd; apply set_data_loop_frame; apply is_prefix_refl
        |eapply only_about_trans; [exact A|]; unfold set_data_node; rewrite Hd; apply set_data_loop_about; apply is_prefix_refl]
       | apply G; [apply frame_refl|apply only_about_refl]]).
  - destruct nest; cbn [handle]; rewrite Hs; apply do_remove_data_about.
  - assert (G : forall l sv', only_about (session_dir ss) t sv sv' ->
              only_about (session_dir ss) t sv (fold_left (fun sv'0 sf => subscribe_one fx sv'0 s sf) l sv')).
    { induction l as [|sf l IHl]; intros sv' A; cbn [fold_left]; [exact A|]. apply IHl. eapply only_about_trans; [exact A|now apply subscribe_one_about]. }
    destruct nest; cbn [handle]; rewrite Hs; (destruct q; [apply G, only_about_refl|]); (destruct subs as [|sf subs']; [apply G, only_about_refl|]);
      (eapply only_about_trans; [apply (G (sf :: subs')), only_about_refl|]);
      (destruct (fx_push fx); [eapply only_about_trans; [apply only_about_push_all|now apply do_get_data_about]|now apply do_get_data_about]).
  - assert (G : forall l sv', only_about (session_dir ss) t sv sv' ->
              only_about (session_dir ss) t sv (fold_left (fun sv'0 sp => unsubscribe_one fx sv'0 s sp) l sv')).
    { induction l as [|sf l IHl]; intros sv' A; cbn [fold_left]; [exact A|]. apply IHl. eapply only_about_trans; [exact A|now apply unsubscribe_one_about]. }
    destruct nest; cbn [handle]; rewrite Hs; apply G, only_about_refl.
  - destruct nest; cbn [handle]; rewrite Hs; (apply only_about_upd_other; [reflexivity|exact Hne]).
  - destruct nest; cbn [handle]; rewrite Hs; (apply only_about_upd_other; [reflexivity|exact Hne]).
  - destruct nest; cbn [handle]; rewrite Hs; now apply do_get_data_about.
  - assert (G : forall nest' sv', frame s (session_dir ss) sv sv' -> only_about (session_dir ss) t sv sv' ->
              only_about (session_dir ss) t sv
                ((fix go (l0 : list cmd) (sv0 : server) : server :=
                    match l0 with [] => sv0 | c' :: r => go r (push_all (handle fx (S nest') sv0 s c')) end) l sv')).
    { intros nest'. induction IHl as [|c l Hc _ IHl']; intros sv' F A; [exact A|].
      destruct (get_session sv' s) as [ss'|] eqn:Es'.
      - pose proof F as [_ [_ Fi]]. destruct (idents_session_dir sv sv' s ss ss' Fi Hs Es') as [_ Hd]. apply IHl'.
        + eapply frame_trans; [exact F|]. eapply frame_trans; [rewrite <- Hd; now apply handle_frame|apply same_state_frame, push_all_same].
        + eapply only_about_trans; [exact A|]. eapply only_about_trans; [|apply only_about_push_all]. rewrite <- Hd. now apply Hc.
      - assert (Hn : handle fx (S nest') sv' s c = sv') by (destruct c; cbn; now rewrite Es'). apply IHl'; rewrite Hn.
        + eapply frame_trans; [exact F|apply same_state_frame, push_all_same].
        + eapply only_about_trans; [exact A|apply only_about_push_all]. }
    destruct nest as [|nest]; cbn [handle]; rewrite Hs; (destruct (Nat.ltb _ _); [apply G; [apply frame_refl|apply only_about_refl]|apply only_about_refl]).
Qed.

(* ------------------------------------------------------------------ the dispatcher *)

Lemma dispatch_sv_same : forall xs ss what keys sess, xs_sv (dispatch fx xs ss what keys sess) = xs_sv xs.
Proof.
  intros. unfold dispatch, bounce, log_to, with_ducks.
  repeat (match goal with |- context [if ?b then _ else _] => destruct b end); try reflexivity; destruct keys; reflexivity.
Qed.

Theorem xhandle_about : forall c nest xs s ss t, get_session (xs_sv xs) s = Some ss -> s <> t ->
  only_about (session_dir ss) t (xs_sv xs) (xs_sv (xhandle fx nest xs s c)).
Proof.
  induction c as [b|f i|q k|w k|b| |w k se|l IHl] using xcmd_ind'; intros nest xs s ss t Hs Hne.
  - destruct nest; cbn [xhandle]; rewrite Hs; cbn [xs_sv with_sv]; now apply handle_about.
  - destruct nest; cbn [xhandle]; rewrite Hs; cbn [xs_sv with_sv]; now apply handle_about.
  - destruct nest; cbn [xhandle]; rewrite Hs; cbn [xs_sv with_sv]; now apply handle_about.
  - destruct nest; cbn [xhandle]; rewrite Hs; rewrite dispatch_sv_same; apply only_about_refl.
  - destruct nest; cbn [xhandle]; rewrite Hs; apply only_about_refl.
  - destruct nest; cbn [xhandle]; rewrite Hs; apply only_about_refl.
  - destruct nest; cbn [xhandle]; rewrite Hs; rewrite dispatch_sv_same; apply only_about_refl.
  - assert (G : forall nest' xs', xframe s (session_dir ss) xs xs' -> only_about (session_dir ss) t (xs_sv xs) (xs_sv xs') ->
              only_about (session_dir ss) t (xs_sv xs)
                (xs_sv ((fix go (l0 : list xcmd) (xs0 : xserver) : xserver :=
                           match l0 with
                           | [] => xs0
                           | c' :: r => go r (let xs1 := xhandle fx (S nest') xs0 s c' in with_sv xs1 (push_all (xs_sv xs1)))
                           end) l xs'))).
    { intros nest'. induction IHl as [|c l Hc _ IHl']; intros xs' F A; [exact A|].
      destruct (get_session (xs_sv xs') s) as [ss'|] eqn:Es'.
      - pose proof F as [[_ [_ Fi]] _]. destruct (idents_session_dir _ _ s ss ss' Fi Hs Es') as [_ Hd]. apply IHl'.
        + eapply xframe_trans; [exact F|]. eapply xframe_trans; [rewrite <- Hd; now apply xhandle_xframe|].
          apply xframe_with_sv, same_state_frame, push_all_same.
        + eapply only_about_trans; [exact A|]. cbn [xs_sv with_sv]. eapply only_about_trans; [|apply only_about_push_all].
          rewrite <- Hd. now apply Hc.
      - assert (Hn : xhandle fx (S nest') xs' s c = xs') by (destruct c; cbn; now rewrite Es'). apply IHl'; rewrite Hn.
        + eapply xframe_trans; [exact F|]. apply xframe_with_sv, same_state_frame, push_all_same.
        + eapply only_about_trans; [exact A|]. cbn [xs_sv with_sv]. apply only_about_push_all. }
    destruct nest as [|nest]; cbn [xhandle]; rewrite Hs; (destruct (Nat.ltb _ _); [apply G; [apply xframe_refl|apply only_about_refl]|apply only_about_refl]).
Qed.

(* NO SPOOFED NEWS.  After a whole turn of the server for a command of an unprivileged session s, whatever another session t
   holds in PR_RESULT_DATAITEMS Messages (delivered or pending) either was there before or is about a node at or below s's
   own directory: s cannot make the server announce, change or retract a node of anybody else in anybody's eyes. *)
Theorem quiet_step : forall xs s c ss t,
  get_session (xs_sv xs) s = Some ss -> s <> t -> unprivileged xs s -> xs_ducks xs = [] ->
  only_about (session_dir ss) t (xs_sv xs) (xs_sv (xstep fx xs (XCmd s c))).
Proof.
  intros xs s c ss t Hs Hne U Hd. unfold xstep. rewrite Hs. cbv zeta.
  pose proof (xhandle_xframe fx c 0 xs s ss Hs) as [_ [_ UD]]. destruct (UD U) as [_ D'].
  rewrite clear_ducks_nil by (cbn [xs_ducks with_sv]; congruence). cbn [xs_sv with_sv].
  eapply only_about_trans; [|apply only_about_push_all]. now apply xhandle_about.
Qed.

End Quiet.
