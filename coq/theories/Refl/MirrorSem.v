(* Refl/MirrorSem.v -- the semantic invariant of a subscriber ("its virtual mirror holds, at every foreign
   path, exactly what its subscriptions select of the tree") and its preservation by one tree change
   with its notification. *)
From Coq Require Import List NArith ZArith Bool Arith Lia.
From Muscle Require Import Refl.Base Refl.BaseProofs Refl.Tree Refl.TreeProofs Refl.Matcher Refl.MatcherProofs
     Refl.Traverse Refl.Session Refl.Server Refl.ServerProofs Refl.Mirror Refl.MirrorBase Refl.MirrorServer
     Refl.MirrorNotify.
Import ListNotations.

Section Sem.
Context {M : MatchOps} {L : MatchLaws M}.
Variable mir : mirror.

(* the invariant of observer o.  "Own" is the code's own notion (GetDataCallback: the name of the node's depth-2
   ancestor is the session's id string), which contains the session's subtree. *)
Definition J (sv : server) (o : sid) : Prop :=
  forall ss, get_session sv o = Some ss ->
  forall q, own_node ss q = false -> V mir sv o q = Some (expected (sv_tree sv) ss q).

Lemma own_node_of_prefix : forall (ss : session) p, is_prefix (session_dir ss) p = true -> own_node ss p = true.
Proof.
  intros ss p H. apply is_prefix_spec in H as [r Hr]. subst p. unfold session_dir, own_node. cbn.
  apply name_eqb_refl.
Qed.

(* ------------------------------------------------------------------ paths, counts and filters *)

Lemma count_pos_entry : forall m p, 0 < count_matching m p <-> exists e, In e (all_entries m) /\ pat_matches (e_pat e) p = true.
Proof.
  intros m p. unfold count_matching. split.
  - intros H. destruct (filter (fun e => pat_matches (e_pat e) p) (all_entries m)) as [|e l] eqn:E; [cbn in H; lia|].
    assert (He : In e (filter (fun e => pat_matches (e_pat e) p) (all_entries m))) by (rewrite E; now left).
    apply filter_In in He. eauto.
  - intros [e [H1 H2]].
    assert (He : In e (filter (fun e => pat_matches (e_pat e) p) (all_entries m))) by (apply filter_In; auto).
    destruct (filter (fun e => pat_matches (e_pat e) p) (all_entries m)); [contradiction|cbn; lia].
Qed.

Lemma no_count_no_match : forall m p d, wf_groups (m_groups m) -> count_matching m p = 0 -> matches_path m p d = false.
Proof.
  intros m p d Hw H. destruct (matches_path m p d) eqn:E; auto.
  apply matches_path_spec in E as [e [H1 [H2 _]]]; auto.
  assert (0 < count_matching m p) by (apply count_pos_entry; eauto). lia.
Qed.

Lemma nofilter_match : forall m p d, wf_matcher m -> N.ltb 0 (m_nfilters m) = false -> 0 < count_matching m p ->
  matches_path m p d = true.
Proof.
  intros m p d Hw Hn Hc. apply count_pos_entry in Hc as [e [H1 H2]].
  apply matches_path_spec; [apply Hw|]. exists e. split; [auto|split; [auto|]].
  rewrite (nfilters_zero m Hw Hn e H1). reflexivity.
Qed.

Lemma exp_with_nocount : forall m p d, wf_groups (m_groups m) -> count_matching m p = 0 -> exp_with m p d = None.
Proof. intros m p d Hw H. unfold exp_with. destruct d; auto. now rewrite no_count_no_match. Qed.

(* ------------------------------------------------------------------ one notification, at the changed path *)

(* what the notification lemmas need of the state: the marks are right (refcount_inv), the subscription tables well formed *)
Definition marks_ok (sv : server) : Prop :=
  (forall n, In n (sv_tree sv) -> tbl_ok (n_subs n) /\ forall s, tbl_get (n_subs n) s = count_for sv s (n_path n))
  /\ (forall ss, In ss (sv_sessions sv) -> wf_matcher (s_subs ss)).

Lemma inv_marks_ok : forall B exc sv, inv_x B exc sv -> marks_ok sv.
Proof.
  intros B exc sv I. split; [apply (inv_marks _ _ _ I)|]. intros ss Hin. now destruct (inv_subs _ _ _ I ss Hin).
Qed.

Section OneNotification.
Variable sv : server.
Hypothesis Hmk : marks_ok sv.
Hypothesis Hpo : pend_ok sv.
Variables (by_ : sid) (p : path) (n : node).
Hypothesis Hfind : find_node (sv_tree sv) p = Some n.

Lemma subscribers_exist : forall k, In k (map fst (n_subs n)) -> exists x, get_session sv k = Some x.
Proof.
  intros k Hk. apply find_node_some in Hfind as [Hin Hp].
  destruct (proj1 Hmk n Hin) as [Hok Hget].
  pose proof (tbl_in_get_pos _ _ Hok Hk) as Hpos. rewrite Hget in Hpos. unfold count_for in Hpos.
  destruct (get_session sv k); eauto. lia.
Qed.

Lemma subscribed_iff : forall o ss, get_session sv o = Some ss ->
  tbl_has (n_subs n) o = true <-> 0 < count_matching (s_subs ss) p.
Proof.
  intros o ss Hss. apply find_node_some in Hfind as [Hin Hp].
  destruct (proj1 Hmk n Hin) as [Hok Hget].
  specialize (Hget o). unfold count_for in Hget. rewrite Hss, Hp in Hget.
  rewrite tbl_has_spec. split.
  - intros H. pose proof (tbl_in_get_pos _ _ Hok H). lia.
  - intros H. apply tbl_get_pos_in. lia.
Qed.

Lemma V_notify_at : forall d old r o q ss, get_session sv o = Some ss ->
  V mir (notify_changed sv by_ p d old r) o q
  = if (tbl_has (n_subs n) o && negb (N.eqb o by_)) && path_eqb p q
    then Some (nc_result (s_subs ss) p d old r (mirror_get (vm mir ss) p))
    else V mir sv o q.
Proof.
  intros d old r o q ss Hss. apply (V_notify_changed mir sv by_ p d old r n o q ss); auto.
  - pose proof Hfind as Hf. apply find_node_some in Hf as [Hin _]. now destruct (proj1 Hmk n Hin) as [[H _] _].
  - intros k Hk _. now apply subscribers_exist.
Qed.

(* a node set or created: the other sessions' virtual mirrors follow *)
Lemma notify_set_V : forall d old o ss, o <> by_ -> get_session sv o = Some ss ->
  V mir sv o p = Some (exp_with (s_subs ss) p old) ->
  V mir (notify_changed sv by_ p d old false) o p = Some (exp_with (s_subs ss) p (Some d)).
Proof.
  intros d old o ss Hne Hss Hpre. rewrite (V_notify_at d old false o p ss Hss).
  rewrite path_eqb_refl, andb_true_r. apply N.eqb_neq in Hne. rewrite Hne. cbn [negb]. rewrite andb_true_r.
  assert (Hin : In ss (sv_sessions sv)) by (apply find_session_some in Hss; tauto).
  pose proof (proj2 Hmk ss Hin) as Hw.
  assert (Hcur : mirror_get (vm mir ss) p = exp_with (s_subs ss) p old).
  { unfold V in Hpre. rewrite Hss in Hpre. cbn [option_map] in Hpre. now inversion Hpre. }
  destruct (tbl_has (n_subs n) o) eqn:Eh.
  - apply (subscribed_iff o ss Hss) in Eh. f_equal. unfold nc_result. rewrite Hcur.
    rewrite !matches_node_path by apply Hw.
    destruct (N.ltb 0 (m_nfilters (s_subs ss))) eqn:Enf.
    + unfold exp_with. destruct old as [dold|].
      * destruct (matches_path (s_subs ss) p (Some d)); auto.
        destruct (matches_path (s_subs ss) p (Some dold)); auto.
      * destruct (matches_path (s_subs ss) p (Some d)); auto.
    + unfold exp_with. now rewrite (nofilter_match (s_subs ss) p (Some d) Hw Enf Eh).
  - assert (Hc0 : count_matching (s_subs ss) p = 0).
    { destruct (count_matching (s_subs ss) p) eqn:Ec; auto.
      assert (tbl_has (n_subs n) o = true); [|congruence]. apply (subscribed_iff o ss Hss). lia. }
    rewrite Hpre. now rewrite !exp_with_nocount by (auto; apply Hw).
Qed.

(* a node about to be removed *)
Lemma notify_removed_V : forall d o ss, o <> by_ -> get_session sv o = Some ss ->
  V mir sv o p = Some (exp_with (s_subs ss) p (Some d)) ->
  V mir (notify_changed sv by_ p d (Some d) true) o p = Some None.
Proof.
  intros d o ss Hne Hss Hpre. rewrite (V_notify_at d (Some d) true o p ss Hss).
  rewrite path_eqb_refl, andb_true_r. apply N.eqb_neq in Hne. rewrite Hne. cbn [negb]. rewrite andb_true_r.
  assert (Hin : In ss (sv_sessions sv)) by (apply find_session_some in Hss; tauto).
  pose proof (proj2 Hmk ss Hin) as Hw.
  assert (Hcur : mirror_get (vm mir ss) p = exp_with (s_subs ss) p (Some d)).
  { unfold V in Hpre. rewrite Hss in Hpre. cbn [option_map] in Hpre. now inversion Hpre. }
  destruct (tbl_has (n_subs n) o) eqn:Eh.
  - f_equal. unfold nc_result. rewrite Hcur. rewrite !matches_node_path by apply Hw.
    destruct (N.ltb 0 (m_nfilters (s_subs ss))); auto.
    unfold exp_with. destruct (matches_path (s_subs ss) p (Some d)); auto.
  - assert (Hc0 : count_matching (s_subs ss) p = 0).
    { destruct (count_matching (s_subs ss) p) eqn:Ec; auto.
      assert (tbl_has (n_subs n) o = true); [|congruence]. apply (subscribed_iff o ss Hss). lia. }
    rewrite Hpre. now rewrite exp_with_nocount by (auto; apply Hw).
Qed.

(* elsewhere nothing moves; and the notifying session itself is told nothing *)
Lemma notify_other_path : forall d old r o q ss, get_session sv o = Some ss -> q <> p ->
  V mir (notify_changed sv by_ p d old r) o q = V mir sv o q.
Proof.
  intros d old r o q ss Hss Hq. rewrite (V_notify_at d old r o q ss Hss).
  assert (path_eqb p q = false) as -> by (apply path_eqb_neq; congruence). now rewrite andb_false_r.
Qed.

Lemma notify_self : forall d old r q ss, get_session sv by_ = Some ss ->
  V mir (notify_changed sv by_ p d old r) by_ q = V mir sv by_ q.
Proof.
  intros d old r q ss Hss. rewrite (V_notify_at d old r by_ q ss Hss).
  rewrite N.eqb_refl. cbn [negb]. now rewrite andb_false_r.
Qed.

End OneNotification.

End Sem.
