(* Refl/TravBase.v -- basic lemmas about paths, the flat node tree and PathMatcher tables used by the
   traversal proofs of C05 (Refl/TraverseProofs.v, Refl/RouteProofs.v). *)
From Coq Require Import List NArith ZArith Bool Arith Lia.
From Muscle Require Import Refl.Base Refl.Tree Refl.Matcher.
Import ListNotations.

(* ------------------------------------------------------------------ paths *)

Lemma name_eqb_eq : forall a b : name, name_eqb a b = true <-> a = b.
Proof. intros a b. unfold name_eqb. apply N.eqb_eq. Qed.

Lemma name_eqb_refl : forall a : name, name_eqb a a = true.
Proof. intros a. apply name_eqb_eq. reflexivity. Qed.

Lemma path_eqb_eq : forall p q : path, path_eqb p q = true <-> p = q.
Proof.
  induction p as [|a p IH]; intros [|b q]; cbn; split; intros H; try discriminate; try reflexivity.
  - apply andb_true_iff in H. destruct H as [H1 H2]. apply name_eqb_eq in H1. apply IH in H2. now subst.
  - inversion H; subst. apply andb_true_iff. split; [apply name_eqb_refl | now apply IH].
Qed.

Lemma path_eqb_refl : forall p : path, path_eqb p p = true.
Proof. intros p. now apply path_eqb_eq. Qed.

Lemma path_eqb_neq : forall p q : path, path_eqb p q = false <-> p <> q.
Proof.
  intros p q. split; intros H.
  - intros E. apply path_eqb_eq in E. congruence.
  - destruct (path_eqb p q) eqn:E; [apply path_eqb_eq in E; contradiction | reflexivity].
Qed.

Lemma strip_prefix_spec : forall p q r : path, strip_prefix p q = Some r <-> q = p ++ r.
Proof.
  induction p as [|a p IH]; intros q r; cbn.
  - split; intros H; [now inversion H | now subst].
  - destruct q as [|b q]; [split; intros H; discriminate|].
    destruct (name_eqb a b) eqn:E.
    + apply name_eqb_eq in E. subst b. rewrite IH. split; intros H; [now subst | now inversion H].
    + split; intros H; [discriminate|]. inversion H; subst. rewrite name_eqb_refl in E. discriminate.
Qed.

Lemma strip_prefix_app : forall p r : path, strip_prefix p (p ++ r) = Some r.
Proof. intros p r. now apply strip_prefix_spec. Qed.

Lemma is_child_spec : forall p q : path, is_child p q = true <-> exists k, q = p ++ [k].
Proof.
  intros p q. unfold is_child, child_name. destruct (strip_prefix p q) as [r|] eqn:E.
  - apply strip_prefix_spec in E. subst q. destruct r as [|k [|k' r]].
    + split; [discriminate|]. intros [k H]. rewrite app_nil_r in H.
      assert (L : length p = length (p ++ [k])) by now rewrite <- H. rewrite app_length in L. cbn in L. lia.
    + split; [now exists k | reflexivity].
    + split; [discriminate|]. intros [k0 H]. apply app_inv_head in H. discriminate.
  - split; [discriminate|]. intros [k H]. subst q. rewrite strip_prefix_app in E. discriminate.
Qed.

Lemma last_name_app : forall (p : path) (k : name), last_name (p ++ [k]) = k.
Proof. intros p k. unfold last_name. apply last_last. Qed.

(* ------------------------------------------------------------------ the flat tree *)

Lemma nodup_map_inj : forall (A B : Type) (f : A -> B) (l : list A) (a b : A),
  NoDup (map f l) -> In a l -> In b l -> f a = f b -> a = b.
Proof.
  intros A B f l. induction l as [|x l IH]; intros a b ND Ha Hb E; [destruct Ha|].
  cbn in ND. inversion ND as [|? ? Hnot ND']; subst.
  destruct Ha as [Ha|Ha], Hb as [Hb|Hb]; subst.
  - reflexivity.
  - exfalso. apply Hnot. rewrite E. now apply in_map.
  - exfalso. apply Hnot. rewrite <- E. now apply in_map.
  - now apply IH.
Qed.

Lemma nodup_map_filter : forall (A B : Type) (f : A -> B) (p : A -> bool) (l : list A),
  NoDup (map f l) -> NoDup (map f (filter p l)).
Proof.
  intros A B f p l. induction l as [|x l IH]; intros ND; cbn; [constructor|].
  cbn in ND. inversion ND as [|? ? Hnot ND']; subst.
  destruct (p x); cbn; [|now apply IH].
  constructor; [|now apply IH].
  intros Hin. apply Hnot. apply in_map_iff in Hin. destruct Hin as [y [E Hy]].
  apply filter_In in Hy. apply in_map_iff. exists y. tauto.
Qed.

Lemma find_node_some : forall (t : tree) (p : path) (n : node),
  find_node t p = Some n -> In n t /\ n_path n = p.
Proof.
  induction t as [|x t IH]; intros p n H; cbn in H; [discriminate|].
  destruct (path_eqb (n_path x) p) eqn:E.
  - inversion H; subst. apply path_eqb_eq in E. split; [now left | assumption].
  - apply IH in H. destruct H. split; [now right | assumption].
Qed.

Lemma find_node_in : forall (t : tree) (n : node),
  NoDup (map n_path t) -> In n t -> find_node t (n_path n) = Some n.
Proof.
  induction t as [|x t IH]; intros n ND Hin; [destruct Hin|].
  cbn in ND. inversion ND as [|? ? Hnot ND']; subst. cbn.
  destruct Hin as [Hin|Hin].
  - subst. now rewrite path_eqb_refl.
  - destruct (path_eqb (n_path x) (n_path n)) eqn:E.
    + apply path_eqb_eq in E. exfalso. apply Hnot. rewrite E. now apply in_map.
    + now apply IH.
Qed.

Lemma find_node_none : forall (t : tree) (p : path),
  find_node t p = None -> forall n, In n t -> n_path n <> p.
Proof.
  induction t as [|x t IH]; intros p H n Hin; [destruct Hin|].
  cbn in H. destruct (path_eqb (n_path x) p) eqn:E; [discriminate|].
  destruct Hin as [Hin|Hin]; [subst; now apply path_eqb_neq | now apply IH].
Qed.

Lemma children_spec : forall (t : tree) (x : path) (c : node),
  In c (children t x) <-> In c t /\ exists k, n_path c = x ++ [k].
Proof.
  intros t x c. unfold children. rewrite filter_In. now rewrite is_child_spec.
Qed.

Lemma children_nodup : forall (t : tree) (x : path),
  NoDup (map n_path t) -> NoDup (map n_path (children t x)).
Proof. intros t x. unfold children. apply nodup_map_filter. Qed.

Lemma get_child_some : forall (t : tree) (x : path) (k : name) (c : node),
  get_child t x k = Some c -> In c t /\ n_path c = x ++ [k].
Proof. intros t x k c. unfold get_child. apply find_node_some. Qed.

Lemma get_child_in : forall (t : tree) (x : path) (k : name) (c : node),
  NoDup (map n_path t) -> In c t -> n_path c = x ++ [k] -> get_child t x k = Some c.
Proof. intros t x k c ND Hin E. unfold get_child. rewrite <- E. now apply find_node_in. Qed.

(* node paths are distinct and non-empty, and every node but the ones directly under the root has its parent *)
Definition tree_wf (t : tree) : Prop :=
  NoDup (map n_path t) /\
  (forall n, In n t -> n_path n <> []) /\
  (forall n p k, In n t -> n_path n = p ++ [k] -> p = [] \/ exists pn, In pn t /\ n_path pn = p).

(* every ancestor of a node below x exists *)
Lemma ancestor_exists : forall (t : tree), tree_wf t ->
  forall (r : path) (n : node) (x : path) (k : name),
    In n t -> n_path n = x ++ k :: r -> exists c, In c t /\ n_path c = x ++ [k].
Proof.
  intros t [ND [NE PC]] r. induction r as [|z r IH] using rev_ind; intros n x k Hin E.
  - exists n. now split.
  - assert (E' : n_path n = (x ++ k :: r) ++ [z]) by (rewrite E, <- app_assoc; reflexivity).
    destruct (PC n _ _ Hin E') as [Hnil | [pn [Hpn Epn]]].
    + destruct x; discriminate.
    + now apply (IH pn x k).
Qed.

(* ------------------------------------------------------------------ patterns *)

Section Pat.
Context {M : MatchOps}.

Lemma pat_matches_length : forall (pt : pat) (p : path), pat_matches pt p = true -> length pt = length p.
Proof.
  induction pt as [|c pt IH]; intros [|k p] H; cbn in H; try discriminate; [reflexivity|].
  apply andb_true_iff in H. destruct H as [_ H]. cbn. f_equal. now apply IH.
Qed.

(* the first |p| clauses of pt match p name by name (pt is at least as long as p) *)
Fixpoint pre_matches (pt : pat) (p : path) {struct p} : bool :=
  match p, pt with
  | [], _ => true
  | k :: p', c :: pt' => cmatch c k && pre_matches pt' p'
  | _ :: _, [] => false
  end.

Lemma pre_matches_length : forall (pt : pat) (p : path), pre_matches pt p = true -> length p <= length pt.
Proof.
  induction pt as [|c pt IH]; intros [|k p] H; cbn in *; try lia; try discriminate.
  apply andb_true_iff in H. destruct H as [_ H]. apply IH in H. lia.
Qed.

Lemma pre_matches_snoc : forall (pt : pat) (p : path) (k : name),
  pre_matches pt (p ++ [k]) = pre_matches pt p && match nth_error pt (length p) with Some c => cmatch c k | None => false end.
Proof.
  induction pt as [|c pt IH]; intros [|a p] k; cbn.
  - reflexivity.
  - reflexivity.
  - now rewrite andb_true_r.
  - rewrite IH. now rewrite andb_assoc.
Qed.

Lemma pat_matches_pre : forall (pt : pat) (p : path),
  pat_matches pt p = pre_matches pt p && Nat.eqb (length pt) (length p).
Proof.
  induction pt as [|c pt IH]; intros [|a p]; cbn; try reflexivity.
  rewrite IH. now rewrite andb_assoc.
Qed.

Lemma pat_matches_snoc : forall (pt : pat) (p : path) (k : name),
  pat_matches pt (p ++ [k]) = true ->
  pre_matches pt p = true /\ length pt = S (length p) /\ exists c, nth_error pt (length p) = Some c /\ cmatch c k = true.
Proof.
  intros pt p k H. rewrite pat_matches_pre in H. apply andb_true_iff in H. destruct H as [H L].
  rewrite pre_matches_snoc in H. apply andb_true_iff in H. destruct H as [H1 H2].
  apply Nat.eqb_eq in L. rewrite app_length in L. cbn in L.
  split; [assumption|]. split; [lia|].
  destruct (nth_error pt (length p)) as [c|]; [|discriminate]. now exists c.
Qed.

Lemma pre_matches_app : forall (pt : pat) (p q : path), pre_matches pt (p ++ q) = true -> pre_matches pt p = true.
Proof.
  induction pt as [|c pt IH]; intros [|a p] q H; cbn in *; try reflexivity; try discriminate.
  apply andb_true_iff in H. destruct H as [H1 H2]. rewrite H1. cbn. now apply (IH p q).
Qed.

Lemma pre_matches_nth : forall (pt : pat) (p q : path) (k : name),
  pre_matches pt (p ++ k :: q) = true -> exists c, nth_error pt (length p) = Some c /\ cmatch c k = true.
Proof.
  induction pt as [|c pt IH]; intros [|a p] q k H; cbn in *; try discriminate.
  - apply andb_true_iff in H. destruct H as [H1 _]. now exists c.
  - apply andb_true_iff in H. destruct H as [_ H2]. now apply (IH p q k).
Qed.

(* ------------------------------------------------------------------ PathMatcher tables *)

(* group keys are distinct and every entry sits in the group of its clause count *)
Definition matcher_wf (m : matcher) : Prop :=
  NoDup (map fst (m_groups m)) /\
  (forall d es e, In (d, es) (m_groups m) -> In e es -> length (e_pat e) = d).

Lemma group_get_in : forall (gs : list group) (d : nat) (e : entry),
  In e (group_get gs d) -> exists es, In (d, es) gs /\ In e es.
Proof.
  induction gs as [|[k es] gs IH]; intros d e H; cbn in H; [destruct H|].
  destruct (Nat.eqb k d) eqn:E.
  - apply Nat.eqb_eq in E. subst. exists es. split; [now left | assumption].
  - destruct (IH d e H) as [es' [H1 H2]]. exists es'. split; [now right | assumption].
Qed.

Lemma group_get_intro : forall (gs : list group) (d : nat) (es : list entry) (e : entry),
  NoDup (map fst gs) -> In (d, es) gs -> In e es -> In e (group_get gs d).
Proof.
  induction gs as [|[k es0] gs IH]; intros d es e ND Hin He; [destruct Hin|].
  cbn in ND. inversion ND as [|? ? Hnot ND']; subst. cbn.
  destruct Hin as [Hin|Hin].
  - inversion Hin; subst. now rewrite Nat.eqb_refl.
  - destruct (Nat.eqb k d) eqn:E.
    + apply Nat.eqb_eq in E. subst. exfalso. apply Hnot. apply in_map_iff. exists (d, es). now split.
    + now apply (IH d es e).
Qed.

Lemma all_entries_in : forall (m : matcher) (e : entry),
  In e (all_entries m) <-> exists d es, In (d, es) (m_groups m) /\ In e es.
Proof.
  intros m e. unfold all_entries. rewrite in_flat_map. split.
  - intros [[d es] [H1 H2]]. now exists d, es.
  - intros [d [es [H1 H2]]]. now exists (d, es).
Qed.

Lemma group_get_spec : forall (m : matcher) (d : nat) (e : entry), matcher_wf m ->
  (In e (group_get (m_groups m) d) <-> In e (all_entries m) /\ length (e_pat e) = d).
Proof.
  intros m d e [ND LEN]. split.
  - intros H. apply group_get_in in H. destruct H as [es [H1 H2]]. split.
    + apply all_entries_in. now exists d, es.
    + now apply (LEN d es e).
  - intros [H L]. apply all_entries_in in H. destruct H as [d' [es [H1 H2]]].
    assert (Ed : d' = d) by (rewrite <- L; symmetry; now apply (LEN d' es e)). subst d'.
    now apply (group_get_intro _ d es e).
Qed.

(* PathMatcher::MatchesPath in terms of the entries *)
Lemma matches_path_spec : forall (m : matcher) (p : path) (d : option payload), matcher_wf m ->
  (matches_path m p d = true <->
   exists e, In e (all_entries m) /\ pat_matches (e_pat e) p = true /\ filter_ok (e_flt e) d = true).
Proof.
  intros m p d WF. unfold matches_path. rewrite existsb_exists. split.
  - intros [e [H1 H2]]. apply andb_true_iff in H2. destruct H2 as [H2 H3].
    apply (group_get_spec m _ e WF) in H1. exists e. tauto.
  - intros [e [H1 [H2 H3]]]. exists e. split.
    + apply (group_get_spec m _ e WF). split; [assumption | now apply pat_matches_length].
    + now rewrite H2, H3.
Qed.

(* NodePathMatcher::MatchesNode at a node below the root of the traversal is MatchesPath on the relative path *)
Lemma matches_node_rel : forall (m : matcher) (root rp : path) (d : option payload),
  matches_node m (root ++ rp) d (length root) = matches_path m rp d.
Proof.
  intros m root rp d. unfold matches_node, matches_path, path_matches.
  rewrite app_length.
  replace (Nat.ltb (length root + length rp) (length root)) with false by (symmetry; apply Nat.ltb_ge; lia).
  replace (length root + length rp - length root) with (length rp) by lia.
  rewrite skipn_app, skipn_all, Nat.sub_diag. cbn. reflexivity.
Qed.

Lemma active_spec : forall (m : matcher) (rel : nat) (e : entry), matcher_wf m ->
  (In e (flat_map (fun g : group => if Nat.ltb rel (fst g) then snd g else []) (m_groups m)) <->
   In e (all_entries m) /\ rel < length (e_pat e)).
Proof.
  intros m rel e [ND LEN]. rewrite in_flat_map. split.
  - intros [[d es] [H1 H2]]. cbn [fst snd] in H2. destruct (Nat.ltb rel d) eqn:E; [|destruct H2].
    apply Nat.ltb_lt in E. split.
    + apply all_entries_in. now exists d, es.
    + now rewrite (LEN d es e H1 H2).
  - intros [H L]. apply all_entries_in in H. destruct H as [d [es [H1 H2]]].
    exists (d, es). split; [assumption|]. cbn [fst snd].
    rewrite <- (LEN d es e H1 H2). apply Nat.ltb_lt in L. now rewrite L.
Qed.

End Pat.
