(* Refl/BoundedSound.v -- C07: the fuelled loops of Refl/Bounded.v (repaired jettison loop) are PARTIAL FUNCTIONS OF
   THEIR MEANING: whatever the amount of fuel, if a loop / the dispatch / a turn / a history returns at all, it returns
   the fuel-free meaning of Refl/BoundedSpec.v.  Running out of fuel is therefore the only way the fuelled semantics can
   differ from the meaning, and BoundedProofs shows from which fuel on that does not happen. *)
From Coq Require Import List NArith ZArith Bool Arith Lia.
From Muscle Require Import Gen.Consts Refl.Base Refl.Tree Refl.Matcher Refl.Traverse Refl.Session Refl.Server
  Refl.Bounded Refl.BoundedSpec Refl.BoundedProofs Refl.BoundedInv Refl.BoundedServe.
Import ListNotations.

Section Sound.
Context {M : MatchOps}.

Lemma jett_removed_sound : forall (m : matcher) (fuel : nat) (suf pre r : list path),
  jett_removed m fuel (pre ++ suf) (length pre) = Some r -> r = pre ++ filter (keep_removed m) suf.
Proof.
  intros m fuel. induction fuel as [|f IH]; intros suf pre r H; cbn [jett_removed] in H.
  - discriminate.
  - destruct suf as [|p suf].
    + rewrite app_nil_r in H. rewrite nth_error_app_end in H. inversion H. rewrite app_nil_r. reflexivity.
    + rewrite nth_error_app_len in H. unfold keep_removed at 1. cbn [filter].
      destruct (matches_path m p None); cbn [negb].
      * rewrite remove_nth_app in H. apply IH. exact H.
      * replace (pre ++ p :: suf) with ((pre ++ [p]) ++ suf) in H by (rewrite <- app_assoc; reflexivity).
        replace (S (length pre)) with (length (pre ++ [p])) in H by (rewrite app_length; simpl; lia).
        apply IH in H. rewrite H, <- app_assoc. reflexivity.
Qed.

Lemma jett_items_sound : forall (m : matcher) (i : nat) (p : path) (fuel : nat) (suf pre r : list payload),
  jett_items true m fuel i p (pre ++ suf) (length pre) = Some r -> r = pre ++ filter (keep_value m p) suf.
Proof.
  intros m i p fuel. induction fuel as [|f IH]; intros suf pre r H; cbn [jett_items] in H.
  - discriminate.
  - destruct suf as [|v suf].
    + rewrite app_nil_r in H. rewrite nth_error_app_end in H. inversion H. rewrite app_nil_r. reflexivity.
    + rewrite nth_error_app_len in H. unfold keep_value at 1. cbn [filter].
      destruct (matches_path m p (Some v)); cbn [negb].
      * rewrite remove_nth_app in H. apply IH. exact H.
      * replace (pre ++ v :: suf) with ((pre ++ [v]) ++ suf) in H by (rewrite <- app_assoc; reflexivity).
        replace (S (length pre)) with (length (pre ++ [v])) in H by (rewrite app_length; simpl; lia).
        apply IH in H. rewrite H, <- app_assoc. reflexivity.
Qed.

Lemma jett_fields_sound : forall (m : matcher) (i : nat) (fuel : nat) (fs r : list (path * list payload)),
  jett_fields true m fuel i fs = Some r -> r = flat_map (field_spec m) fs.
Proof.
  intros m i fuel fs. induction fs as [|[p vs] fs IH]; intros r H; cbn [jett_fields] in H.
  - inversion H. reflexivity.
  - cbn [flat_map]. rewrite field_spec_vals.
    assert (Hcur : forall vs', (if N.ltb 0 (m_nfilters m) then jett_items true m fuel i p vs 0
                               else if matches_path m p None then Some [] else Some vs) = Some vs' ->
                         vs' = field_vals m p vs).
    { intros vs' Hc. unfold field_vals. destruct (N.ltb 0 (m_nfilters m)).
      - exact (jett_items_sound m i p fuel vs [] vs' Hc).
      - destruct (matches_path m p None); inversion Hc; reflexivity. }
    destruct (if N.ltb 0 (m_nfilters m) then jett_items true m fuel i p vs 0
              else if matches_path m p None then Some [] else Some vs) as [vs'|]; [|discriminate].
    rewrite <- (Hcur vs' eq_refl).
    destruct (jett_fields true m fuel i fs) as [r'|]; [|discriminate].
    rewrite <- (IH r' eq_refl). inversion H. destruct vs'; reflexivity.
Qed.

Lemma jett_msg_sound : forall (m : matcher) (i : nat) (fuel : nat) (d d' : ditems),
  jett_msg true m fuel i d = Some d' -> d' = msg_spec m d.
Proof.
  intros m i fuel d d' H. unfold jett_msg in H.
  destruct (jett_removed m fuel (di_removed d) 0) as [rs|] eqn:Hr; [|discriminate].
  destruct (jett_fields true m fuel i (di_sets d)) as [fs|] eqn:Hf; [|discriminate].
  inversion H. unfold msg_spec.
  rewrite (jett_removed_sound m fuel (di_removed d) [] rs Hr). rewrite (jett_fields_sound m i fuel _ fs Hf). reflexivity.
Qed.

Lemma jett_queue_sound : forall (om : option matcher) (fuel : nat) (pre done r : list omsg),
  jett_queue true om fuel (length pre) (pre ++ done) = Some r -> r = jq_spec om pre ++ done.
Proof.
  intros om fuel pre. induction pre as [|x pre IH] using rev_ind; intros done r H.
  - cbn in H. inversion H. reflexivity.
  - rewrite app_length in H. simpl length in H. rewrite Nat.add_1_r in H. cbn [jett_queue] in H.
    rewrite <- app_assoc in H. cbn [app] in H. rewrite nth_error_app_len in H.
    unfold jq_spec. rewrite flat_map_app. cbn [flat_map]. rewrite app_nil_r. rewrite <- app_assoc.
    destruct x as [d|id roots|t|code what]; cbn [omsg_spec]; try (apply IH; exact H).
    destruct (match om with Some m => jett_msg true m fuel (length pre) d | None => Some empty_di end) as [d'|] eqn:Hd;
      [|discriminate].
    assert (Hd' : d' = match om with Some m => msg_spec m d | None => empty_di end).
    { destruct om as [m|]; [apply (jett_msg_sound m (length pre) fuel); exact Hd|inversion Hd; reflexivity]. }
    subst d'.
    destruct (di_has_names (match om with Some m => msg_spec m d | None => empty_di end)).
    + rewrite replace_nth_app in H. apply IH. exact H.
    + rewrite remove_nth_app in H. apply IH. exact H.
Qed.

Lemma jettison_results_sound : forall (om : option matcher) (fuel : nat) (q r : list omsg),
  jettison_results true om fuel q = Some r -> r = jq_spec om q.
Proof.
  intros om fuel q r H. unfold jettison_results in H.
  pose proof (jett_queue_sound om fuel q [] r) as Hs. rewrite !app_nil_r in Hs. apply Hs. exact H.
Qed.

Lemma push_loop_sound : forall (fuel : nat) (sv sv' : server), push_loop fuel sv = Some sv' -> sv' = push_all sv.
Proof.
  intros fuel sv sv' H. destruct fuel as [|[|f]].
  - discriminate.
  - cbn [push_loop] in H. unfold push_all. destruct (sv_dirty sv); [discriminate|inversion H; reflexivity].
  - rewrite push_loop_spec in H by lia. inversion H. reflexivity.
Qed.

Lemma bpush_sound : forall (fuel : nat) (b b' : bserver), bpush fuel b = Some b' -> b' = bpush_spec b.
Proof.
  intros fuel b b' H. unfold bpush in H. destruct (push_loop fuel (b_sv b)) as [sv|] eqn:Hp; [|discriminate].
  inversion H. unfold bpush_spec. rewrite (push_loop_sound fuel _ sv Hp). reflexivity.
Qed.

Variable fx : fixes.

Lemma bhandle_sound : forall (c : bcmd) (fuel nest : nat) (b b' : bserver) (s : sid),
  bhandle fx true fuel nest b s c = Some b' -> b' = bhandle_spec fx nest b s c.
Proof.
  intros c fuel. induction c as [c0|flags items|t| |code what|keys|ids0|id keys|l IHl] using bcmd_ind';
    intros nest b b' s H; cbn [bhandle bhandle_spec] in *;
    destruct (get_session (b_sv b) s) as [ss|]; try (inversion H; reflexivity).
  - unfold jett_matcher.
    destruct (jettison_results true _ fuel (queue_of b s)) as [q'|] eqn:Hq; [|discriminate].
    inversion H. rewrite (jettison_results_sound _ fuel _ q' Hq). reflexivity.
  - destruct (Nat.ltb nest max_batch_nest); [|inversion H; reflexivity].
    revert b H. induction IHl as [|c' r Hc' _ IHr]; intros b H.
    + inversion H. reflexivity.
    + destruct (bhandle fx true fuel (S nest) b s c') as [b1|] eqn:H1; [|discriminate].
      destruct (bpush fuel b1) as [b2|] eqn:H2; [|discriminate].
      rewrite <- (Hc' (S nest) b b1 s H1). rewrite <- (bpush_sound fuel b1 b2 H2). apply IHr. exact H.
Qed.

Lemma bstep_sound : forall (fuel : nat) (b b' : bserver) (ev : bevent),
  bstep fx true fuel b ev = Some b' -> b' = bstep_spec fx b ev.
Proof.
  intros fuel b b' ev H. destruct ev as [s host nm|s|s bl|s c]; cbn [bstep bstep_spec] in *.
  - destruct (get_session (b_sv b) s); inversion H; reflexivity.
  - inversion H. reflexivity.
  - inversion H. reflexivity.
  - destruct (get_session (b_sv b) s); [|inversion H; reflexivity].
    destruct (bhandle fx true fuel 0 b s c) as [b1|] eqn:H1; [|discriminate].
    destruct (bpush fuel b1) as [b2|] eqn:H2; [|discriminate].
    inversion H. rewrite <- (bhandle_sound c fuel 0 b b1 s H1). rewrite <- (bpush_sound fuel b1 b2 H2). reflexivity.
Qed.

Lemma brun_sound : forall (fuel : nat) (evs : list bevent) (b b' : bserver),
  brun fx true fuel evs b = Some b' -> b' = brun_spec fx evs b.
Proof.
  intros fuel evs. induction evs as [|ev r IH]; intros b b' H; cbn [brun] in H.
  - inversion H. reflexivity.
  - destruct (bstep fx true fuel b ev) as [b1|] eqn:H1; [|discriminate].
    unfold brun_spec. cbn [fold_left]. rewrite <- (bstep_sound fuel b b1 ev H1). apply IH. exact H.
Qed.

(* the property on the fuelled semantics, for ANY amount of fuel: whenever the run of a history of other clients' events
   followed by w's ping returns at all, the PONG has been delivered to w *)
Theorem witness_ping_answered_any_fuel : forall (fuel : nat) (evs : list bevent) (b b' : bserver) (w : sid) (t : N),
  serving b w -> (forall ev, In ev evs -> ev_sid ev <> w) ->
  brun fx true fuel (evs ++ [BCmd w (BPing t)]) b = Some b' -> delivered b' w (OPong t).
Proof.
  intros fuel evs b b' w t Hs Hall H. rewrite (brun_sound fuel _ b b' H).
  unfold brun_spec. rewrite fold_left_app. cbn [fold_left].
  apply (witness_ping_answered fx evs b w t Hs Hall).
Qed.

End Sound.
