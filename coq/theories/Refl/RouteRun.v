(* Refl/RouteRun.v -- what holds for EVERY history of events and every setting of the repairs: outgoing queues only
   grow, each event appends only copies of its own Message, so Messages of one sender reach a receiver in the order
   sent (fifo_lemma); the sender field of every delivered Message names the session it came in on (sender_field_lemma). *)
From Coq Require Import List NArith ZArith Bool Arith Lia.
From Muscle Require Import Gen.Consts Refl.Base Refl.Tree Refl.Matcher Refl.Traverse Refl.Session Refl.Server Refl.Route
  Refl.TravBase Refl.TraverseProofs Refl.TraverseTheorems Refl.TraverseExit.
Import ListNotations.

(* l is obtained from L by dropping elements and possibly repeating the ones that are kept *)
Inductive stutter_sub {B : Type} : list B -> list B -> Prop :=
| ss_nil : forall L, stutter_sub [] L
| ss_skip : forall l x L, stutter_sub l L -> stutter_sub l (x :: L)
| ss_take : forall l x L, stutter_sub l (x :: L) -> stutter_sub (x :: l) (x :: L).

Lemma stutter_repeat : forall (B : Type) (x : B) (k : nat) (l L : list B),
  stutter_sub l L -> stutter_sub (repeat x k ++ l) (x :: L).
Proof.
  intros B x k l L H. induction k as [|k IH]; cbn.
  - now apply ss_skip.
  - now apply ss_take.
Qed.

Lemma stutter_incl : forall (B : Type) (l L : list B), stutter_sub l L -> incl l L.
Proof.
  intros B l L H. induction H as [L | l x L H IH | l x L H IH]; intros y Hy.
  - destruct Hy.
  - right. now apply IH.
  - destruct Hy as [Hy|Hy]; [now left | now apply IH].
Qed.

Lemma repeat_snoc : forall (B : Type) (x : B) (k : nat), repeat x k ++ [x] = repeat x (S k).
Proof. intros B x k. induction k as [|k IH]; cbn; [reflexivity|]. now rewrite IH. Qed.

Section Run.
Context {M : MatchOps}.
Variable fx : rfixes.

(* b is a with k more copies of d in its queue *)
Definition grown1 (d : dlv) (a b : rinfo) : Prop :=
  ri_id b = ri_id a /\ exists k, ri_inbox b = ri_inbox a ++ repeat d k.

Lemma grown1_refl : forall d a, grown1 d a a.
Proof. intros d a. split; [reflexivity|]. exists 0. cbn. now rewrite app_nil_r. Qed.

Lemma grown1_put : forall d s a b, grown1 d a b -> grown1 d a (put_inbox s d b).
Proof.
  intros d s a b [H1 [k H2]]. unfold put_inbox. destruct (N.eqb s (ri_id b) || ri_nb2gw b); [|now split; [|exists k]].
  split; [exact H1|]. exists (S k). cbn [ri_inbox set_inbox]. rewrite H2, <- app_assoc, repeat_snoc. reflexivity.
Qed.

Lemma grown_deliver : forall d s r infos0 infos,
  Forall2 (grown1 d) infos0 infos -> Forall2 (grown1 d) infos0 (deliver_to infos s r d).
Proof.
  intros d s r infos0 infos H. unfold deliver_to. induction H as [|a b l l' Hab H IH]; cbn; [constructor|].
  constructor; [|assumption]. destruct (N.eqb (ri_id b) r); [now apply grown1_put | assumption].
Qed.

Lemma grown_refl_list : forall d infos, Forall2 (grown1 d) infos infos.
Proof. intros d infos. induction infos; constructor; [apply grown1_refl | assumption]. Qed.

Lemma forall2_in_r : forall (B C : Type) (R : B -> C -> Prop) (l : list B) (l' : list C) (y : C),
  Forall2 R l l' -> In y l' -> exists x, In x l /\ R x y.
Proof.
  intros B C R l l' y H. induction H as [|a b l l' Hab H IH]; intros Hy; [destruct Hy|].
  destruct Hy as [Hy|Hy]; [subst; exists a; split; [now left | assumption]|].
  destruct (IH Hy) as [x [H1 H2]]. exists x. split; [now right | assumption].
Qed.

Lemma pass_traversal_grown : forall st s self_ok d mt,
  Forall2 (grown1 d) (rs_info st) (pass_traversal fx st s self_ok d mt).
Proof.
  intros st s self_ok d mt. unfold pass_traversal, do_traversal.
  apply (trav_invariant _ _ _ _ _ _ _ (fun acc : list rinfo * list sid => Forall2 (grown1 d) (rs_info st) (fst acc))).
  - intros acc n H. unfold pass_cb. destruct (owner_of (sv_sessions (rs_srv st)) (n_path n)) as [ss|]; [|assumption].
    destruct ((negb (N.eqb (s_id ss) s) || self_ok) && negb (rf_once fx && sid_mem (s_id ss) (snd acc))); [|assumption].
    cbn [fst]. now apply grown_deliver.
  - apply grown_refl_list.
Qed.

Lemma broadcast_grown : forall sessions s to_self d infos0 infos,
  Forall2 (grown1 d) infos0 infos -> Forall2 (grown1 d) infos0 (broadcast sessions s to_self d infos).
Proof.
  intros sessions s to_self d infos0. unfold broadcast. induction sessions as [|ss l IH]; intros infos H; [assumption|].
  cbn [fold_left]. apply IH. destruct (to_self || negb (N.eqb (s_id ss) s)); [now apply grown_deliver | assumption].
Qed.

(* the parameter commands leave id and queue alone *)
Lemma set_params_keeps : forall ri p, ri_id (set_params fx ri p) = ri_id ri /\ ri_inbox (set_params fx ri p) = ri_inbox ri.
Proof.
  intros ri p. unfold set_params.
  destruct (sp_reflect p), (sp_gw2nb p), (sp_nb2gw p), (sp_keys p), (sp_flts p), (rf_route fx); cbn; split; reflexivity.
Qed.

Lemma remove_param_keeps : forall ri p, ri_id (remove_param ri p) = ri_id ri /\ ri_inbox (remove_param ri p) = ri_inbox ri.
Proof.
  intros ri p. unfold remove_param. destruct (has_param (ri_params ri) p); [|split; reflexivity].
  destruct p; cbn; split; reflexivity.
Qed.

Lemma remove_params_keeps : forall l ri, ri_id (remove_params ri l) = ri_id ri /\ ri_inbox (remove_params ri l) = ri_inbox ri.
Proof.
  intros l ri. unfold remove_params.
  assert (G : forall l acc, ri_id (fst (fold_left (fun acc p => (remove_param (fst acc) p, snd acc || touches_route (fst acc) p)) l acc)) = ri_id (fst acc) /\
                            ri_inbox (fst (fold_left (fun acc p => (remove_param (fst acc) p, snd acc || touches_route (fst acc) p)) l acc)) = ri_inbox (fst acc)).
  { clear. induction l as [|p l IH]; intros acc; [split; reflexivity|]. cbn [fold_left].
    destruct (IH (remove_param (fst acc) p, snd acc || touches_route (fst acc) p)) as [H1 H2]. cbn [fst] in H1, H2.
    destruct (remove_param_keeps (fst acc) p) as [H3 H4]. split; congruence. }
  destruct (G l (ri, false)) as [H1 H2]. cbn [fst] in H1, H2.
  destruct (fold_left (fun acc p => (remove_param (fst acc) p, snd acc || touches_route (fst acc) p)) l (ri, false)) as [ri1 upd].
  cbn [fst] in H1, H2. destruct upd; cbn; split; assumption.
Qed.

(* the Message an event hands to the routing code, as its receivers will see it *)
Definition ev_dlv (st : rstate) (ev : revent) : list dlv :=
  match ev with
  | RCmd s (RMsg m) =>
    if in_cmd_range (u_what m) then []
    else match get_session (rs_srv st) s, get_info st s with
         | Some ss, Some _ => [mkD s (u_tag m) (overwrite (u_session m) (s_name ss))]
         | _, _ => []
         end
  | _ => []
  end.

(* b is a with some copies of the event's Message appended *)
Definition grown_by (new : list dlv) (a b : rinfo) : Prop :=
  ri_id b = ri_id a /\ exists k, ri_inbox b = ri_inbox a ++ flat_map (fun d => repeat d k) new.

Lemma grown_by_refl : forall new a, grown_by new a a.
Proof.
  intros new a. split; [reflexivity|]. exists 0. induction new as [|d new IH]; cbn; [now rewrite app_nil_r | exact IH].
Qed.

Lemma grown1_by : forall d a b, grown1 d a b -> grown_by [d] a b.
Proof. intros d a b [H1 [k H2]]. split; [exact H1|]. exists k. cbn. now rewrite app_nil_r. Qed.

(* one event: every queue afterwards is a queue from before with copies of the event's Message appended, or a new empty one *)
Theorem step_appends : forall (st : rstate) (ev : revent) (ri' : rinfo),
  In ri' (rs_info (rstep fx st ev)) ->
  (exists ri, In ri (rs_info st) /\ grown_by (ev_dlv st ev) ri ri') \/ ri_inbox ri' = [].
Proof.
  intros st ev ri' H.
  assert (Same : In ri' (rs_info st) -> (exists ri, In ri (rs_info st) /\ grown_by (ev_dlv st ev) ri ri') \/ ri_inbox ri' = []).
  { intros X. left. exists ri'. split; [assumption | apply grown_by_refl]. }
  destruct ev as [s host nm | s | s c]; cbn [rstep] in H.
  - destruct (get_session (rs_srv st) s); [now apply Same|]. cbn [rs_info] in H.
    apply in_app_or in H. destruct H as [H|[H|[]]]; [now apply Same | subst ri'; now right].
  - cbn [rs_info] in H. apply filter_In in H. destruct H as [H _]. now apply Same.
  - destruct (get_session (rs_srv st) s) as [ss|] eqn:Hs; [|now apply Same].
    destruct c as [p | l | m | c'].
    + unfold upd_info in H. cbn [rs_info] in H. apply in_map_iff in H. destruct H as [ri [E Hri]].
      left. exists ri. split; [assumption|]. cbn [ev_dlv]. subst ri'.
      destruct (N.eqb (ri_id ri) s); [|apply grown_by_refl].
      destruct (set_params_keeps ri p) as [H1 H2]. split; [exact H1|]. exists 0. cbn. now rewrite app_nil_r.
    + unfold upd_info in H. cbn [rs_info] in H. apply in_map_iff in H. destruct H as [ri [E Hri]].
      left. exists ri. split; [assumption|]. cbn [ev_dlv]. subst ri'.
      destruct (N.eqb (ri_id ri) s); [|apply grown_by_refl].
      destruct (remove_params_keeps l ri) as [H1 H2]. split; [exact H1|]. exists 0. cbn. now rewrite app_nil_r.
    + unfold route_msg in H. cbn [ev_dlv]. rewrite Hs in *.
      destruct (in_cmd_range (u_what m)); [left; exists ri'; split; [assumption | apply grown_by_refl]|].
      destruct (get_info st s) as [ri0|] eqn:Hi; [|left; exists ri'; split; [assumption | apply grown_by_refl]].
      set (d := mkD s (u_tag m) (overwrite (u_session m) (s_name ss))) in *.
      assert (Via : forall infos', Forall2 (grown1 d) (rs_info st) infos' -> In ri' infos' ->
                    (exists ri, In ri (rs_info st) /\ grown_by [d] ri ri') \/ ri_inbox ri' = []).
      { intros infos' F X. left. destruct (forall2_in_r _ _ _ _ _ _ F X) as [ri [H1 H2]]. exists ri. split; [assumption | now apply grown1_by]. }
      destruct (u_keys m).
      * destruct (has_param (ri_params ri0) PKeys).
        -- cbn [set_infos rs_info] in H. exact (Via _ (pass_traversal_grown st s _ d _) H).
        -- destruct (ri_gw2nb ri0).
           ++ cbn [set_infos rs_info] in H. exact (Via _ (broadcast_grown _ s _ d _ _ (grown_refl_list d _)) H).
           ++ left. exists ri'. split; [assumption | apply grown_by_refl].
      * cbn [set_infos rs_info] in H. exact (Via _ (pass_traversal_grown st s _ d _) H).
    + cbn [rs_info] in H. now apply Same.
Qed.

(* the Messages handed to the routing code during a history, in order *)
Fixpoint log (st : rstate) (evs : list revent) : list dlv :=
  match evs with
  | [] => []
  | ev :: evs' => ev_dlv st ev ++ log (rstep fx st ev) evs'
  end.

Lemma stutter_app_skip : forall (B : Type) (l pre L : list B), stutter_sub l L -> stutter_sub l (pre ++ L).
Proof. intros B l pre L H. induction pre as [|x pre IH]; cbn; [assumption | now apply ss_skip]. Qed.

(* a queue at the end of a history = the queue it started from (or an empty one) followed by a stuttering subsequence of the
   Messages sent, in the order they were sent *)
Theorem fifo_lemma : forall (evs : list revent) (st : rstate) (ri' : rinfo),
  In ri' (rs_info (rrun fx evs st)) ->
  exists pre l, ri_inbox ri' = pre ++ l /\
                (pre = [] \/ exists ri, In ri (rs_info st) /\ ri_id ri = ri_id ri' /\ pre = ri_inbox ri) /\
                stutter_sub l (log st evs).
Proof.
  induction evs as [|ev evs IH]; intros st ri' H.
  - cbn in H. exists (ri_inbox ri'), []. split; [now rewrite app_nil_r|]. split; [|constructor].
    right. exists ri'. now repeat split.
  - cbn [rrun fold_left] in H. destruct (IH (rstep fx st ev) ri' H) as [pre [l [H1 [H2 H3]]]].
    cbn [log]. destruct H2 as [H2 | [ri1 [H2 [H4 H5]]]].
    + exists pre, l. split; [assumption|]. split; [now left | now apply stutter_app_skip].
    + destruct (step_appends st ev ri1 H2) as [[ri [H6 [H7 [k H8]]]] | H6].
      * exists (ri_inbox ri), (flat_map (fun d => repeat d k) (ev_dlv st ev) ++ l). split.
        -- rewrite H1, H5, H8, <- app_assoc. reflexivity.
        -- split; [right; exists ri; split; [assumption|]; split; [congruence | reflexivity]|].
           unfold ev_dlv. destruct ev as [? ? ? | ? | s c]; try exact H3. destruct c as [? | ? | m | ?]; try exact H3.
           destruct (in_cmd_range (u_what m)); [exact H3|].
           destruct (get_session (rs_srv st) s) as [ss|]; [|exact H3]. destruct (get_info st s); [|exact H3].
           cbn [flat_map app]. rewrite app_nil_r. now apply stutter_repeat.
      * exists [], l. split; [rewrite H1, H5, H6; reflexivity|]. split; [now left | now apply stutter_app_skip].
Qed.

(* the sender field of a Message handed to the routing code *)
Theorem sender_field_lemma : forall (st : rstate) (ev : revent) (d : dlv),
  In d (ev_dlv st ev) ->
  exists s ss m, ev = RCmd s (RMsg m) /\ get_session (rs_srv st) s = Some ss /\ d_from d = s /\ d_tag d = u_tag m /\
                 d_field d = overwrite (u_session m) (s_name ss) /\
                 (forall v r, d_field d = SStr (v :: r) -> v = s_name ss) /\
                 (u_session m = SAbsent -> d_field d = SAbsent).
Proof.
  intros st ev d H. destruct ev as [? ? ? | ? | s c]; try destruct H. destruct c as [? | ? | m | ?]; try destruct H.
  cbn [ev_dlv] in H. destruct (in_cmd_range (u_what m)); [destruct H|].
  destruct (get_session (rs_srv st) s) as [ss|] eqn:Hs; [|destruct H]. destruct (get_info st s); [|destruct H].
  destruct H as [H|[]]. subst d. exists s, ss, m. cbn [d_from d_tag d_field].
  split; [reflexivity|]. split; [exact Hs|]. split; [reflexivity|]. split; [reflexivity|]. split; [reflexivity|]. split.
  - intros v rest E. destruct (u_session m) as [|[|v0 r0]|]; cbn in E; try discriminate. now inversion E.
  - intros E. now rewrite E.
Qed.

End Run.
