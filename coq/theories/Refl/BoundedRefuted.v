(* Refl/BoundedRefuted.v -- C07, finding F4: with the code as it was found (RemoveData(nextFieldName, i): the QUEUE
   index where the item index j is meant) the handler of PR_COMMAND_JETTISONRESULTS does not return.  The witness is a
   reachable state: two clients; client 0 owns two nodes; client 1 stops reading, asks for both nodes (two replies
   queue up) and then sends JETTISONRESULTS with a filter.  The same history through the repaired loop returns (and
   empties the queue), which is also the non-vacuity example of the fuel theorems.
   The history was replayed on the real server (harness/bounded_h.cpp, corpus line "F4"): ServerProcessLoop never
   returned before /repo commit 0caa6b8. *)
From Coq Require Import List NArith ZArith Bool Arith Lia.
From Muscle Require Import Gen.Consts Refl.Base Refl.Tree Refl.Matcher Refl.Traverse Refl.Session Refl.Server
  Refl.Bounded Refl.BoundedSpec Refl.BoundedProofs Refl.BoundedInv Refl.BoundedCost.
Import ListNotations.
Local Open Scope N_scope.

(* a small concrete world of patterns: clause 0 is "*", clause k > 0 is the literal name k; one filter, accepting everything *)
Definition tiny_ops : MatchOps :=
  {| clause := N;
     clause_eqb := N.eqb;
     cmatch := fun c n => N.eqb c 0 || N.eqb c n;
     ckeys := fun c => if N.eqb c 0 then None else Some [c];
     cstar := 0;
     qfilter := unit;
     fmatch := fun _ _ => true |}.

Section Witness.
Existing Instance tiny_ops.

Definition host : name := 9.
Definition na : name := 1.
Definition nb : name := 2.

Definition w_keys : list (spath * option qfilter) := [(Rel [na], Some tt); (Rel [nb], Some tt)].

Definition w_evs : list bevent :=
  [ BAttach 0 host 10; BAttach 1 host 11;
    BCmd 0 (BBase (CSetData 0 [([na], 5); ([nb], 6)]));
    BBlock 1 true;
    BCmd 1 (BBase (CGetData [(Rel [na], None)]));
    BCmd 1 (BBase (CGetData [(Rel [nb], None)])) ].

Definition w_cmd : bcmd := BJettResults (Some w_keys).

Definition w_state : bserver := brun_spec all_fixed w_evs empty_bserver.

Definition w_matcher : matcher := m_of_list (map (fun kf => (fix_path (fst kf), snd kf)) w_keys).

Lemma w_reachable : forall fuel, (2 <= fuel)%nat -> brun all_fixed true fuel w_evs empty_bserver = Some w_state.
Proof.
  intros fuel Hf. apply server_run_total; [exact Hf|].
  assert (Hp : rpeak all_fixed w_evs empty_bserver = 0%nat) by (vm_compute; reflexivity).
  rewrite Hp. lia.
Qed.

Lemma w_queue : queue_of w_state 1 =
  [ODataItems (mkDI [] [([host; 10; na], [5])]); ODataItems (mkDI [] [([host; 10; nb], [6])])].
Proof. vm_compute. reflexivity. Qed.

Lemma w_session : exists ss, get_session (b_sv w_state) 1 = Some ss.
Proof. vm_compute. eexists. reflexivity. Qed.

(* as found: the jettison pass over this queue is out of fuel for every fuel *)
Lemma w_jettison_hangs : forall fuel, jettison_results false (Some w_matcher) fuel (queue_of w_state 1) = None.
Proof.
  intros fuel. rewrite w_queue. unfold jettison_results. cbn [length jett_queue nth_error].
  unfold jett_msg. cbn [di_removed di_sets].
  destruct fuel as [|f]; [reflexivity|].
  cbn [jett_removed nth_error jett_fields].
  assert (Hnf : N.ltb 0 (m_nfilters w_matcher) = true) by (vm_compute; reflexivity).
  rewrite Hnf.
  rewrite (jett_items_stuck w_matcher 1 [host; 10; nb] [6] 0 6); reflexivity.
Qed.

Lemma w_step_hangs : forall fuel, bstep all_fixed false fuel w_state (BCmd 1 w_cmd) = None.
Proof.
  intros fuel. destruct w_session as [ss Hs]. unfold w_cmd. cbn [bstep bhandle]. rewrite Hs.
  fold w_matcher. rewrite w_jettison_hangs. reflexivity.
Qed.

(* repaired: the same step returns, and the queue of the non-reading client is empty afterwards *)
Lemma w_step_returns : forall fuel, (2 <= fuel)%nat ->
  exists b', bstep all_fixed true fuel w_state (BCmd 1 w_cmd) = Some b' /\ queue_of b' 1 = [].
Proof.
  intros fuel Hf. exists (bstep_spec all_fixed w_state (BCmd 1 w_cmd)). split.
  - apply server_step_total; [exact Hf|].
    assert (Hp : speak all_fixed w_state (BCmd 1 w_cmd) = 1%nat) by (vm_compute; reflexivity).
    rewrite Hp. lia.
  - vm_compute. reflexivity.
Qed.

(* in that state the witness (session 0) is attached and reading while session 1 is attached and NOT reading *)
Lemma w_serving : serving w_state 0 /\ ~ serving w_state 1.
Proof.
  split.
  - split; [vm_compute; eexists; reflexivity|]. vm_compute. eexists. split; reflexivity.
  - intros [_ [g [Hg Hb]]]. vm_compute in Hg. inversion Hg; subst. discriminate.
Qed.

(* ... and it has distinct session ids and distinct node paths (the premise of the polynomial fuel bound) *)
Lemma w_good : good_sv (b_sv w_state).
Proof.
  split; vm_compute; repeat (constructor; [cbn; intuition discriminate|]); constructor.
Qed.

End Witness.

(* jettison_refuted: there is a reachable state and a structurally valid Message on which the handler, as found, never returns *)
Lemma jettison_refuted :
  exists (ops : MatchOps) (evs : list bevent) (b : bserver) (s : sid) (c : bcmd),
    (forall fuel, (2 <= fuel)%nat -> @brun ops all_fixed true fuel evs empty_bserver = Some b) /\
    (forall fuel, @bstep ops all_fixed false fuel b (BCmd s c) = None).
Proof.
  exists tiny_ops, w_evs, w_state, 1, w_cmd. split.
  - exact w_reachable.
  - exact w_step_hangs.
Qed.
