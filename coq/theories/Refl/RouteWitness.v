(* Refl/RouteWitness.v -- concrete histories (over the small MatchOps instance of Refl/TravWitness.v):
   the witnesses of findings F19 (a session is served twice) and F20 (the default route is dead) in the model of the
   code as found, the same histories under the repairs, and a reachable state satisfying the premises of deliver_once. *)
From Coq Require Import List NArith ZArith Bool Arith Lia.
From Muscle Require Import Gen.Consts Refl.Base Refl.Tree Refl.Matcher Refl.Traverse Refl.Session Refl.Server Refl.Route
  Refl.TravBase Refl.TraverseProofs Refl.TraverseTheorems Refl.TravWitness Refl.RouteProofs Refl.RouteRun Pat.Translate Refl.ClauseKeys.
Import ListNotations.
Local Open Scope N_scope.

(* ------------------------------------------------------------------ a decision procedure for tree_wf *)

Fixpoint nodup_paths (l : list path) : bool :=
  match l with [] => true | p :: r => negb (path_mem p r) && nodup_paths r end.

Definition parent_ok (t : tree) (n : node) : bool :=
  match n_path n with
  | [] => false
  | _ => match removelast (n_path n) with [] => true | pp => has_node t pp end
  end.

Definition tree_wfb (t : tree) : bool := nodup_paths (map n_path t) && forallb (parent_ok t) t.

Lemma nodup_paths_ok : forall l, nodup_paths l = true -> NoDup l.
Proof.
  induction l as [|p l IH]; intros H; [constructor|]. cbn in H. apply andb_true_iff in H. destruct H as [H1 H2].
  constructor; [|now apply IH]. apply negb_true_iff in H1. now apply path_mem_false.
Qed.

Lemma tree_wfb_ok : forall t, tree_wfb t = true -> tree_wf t.
Proof.
  intros t H. unfold tree_wfb in H. apply andb_true_iff in H. destruct H as [H1 H2].
  rewrite forallb_forall in H2. split; [now apply nodup_paths_ok|]. split.
  - intros n Hn E. specialize (H2 n Hn). unfold parent_ok in H2. rewrite E in H2. discriminate.
  - intros n p k Hn E. specialize (H2 n Hn). unfold parent_ok in H2. rewrite E in H2.
    rewrite removelast_last in H2. destruct (p ++ [k]) eqn:X; [destruct p; discriminate|].
    destruct p as [|a p]; [now left|]. right. unfold has_node in H2.
    destruct (find_node t (a :: p)) as [pn|] eqn:F; [|discriminate].
    apply find_node_some in F. now exists pn.
Qed.

(* ------------------------------------------------------------------ the histories *)

Definition hostn := 10. Definition id0 := 20. Definition id1 := 21. Definition id2 := 22.
Definition na := 1. Definition nb := 2.

Definition lit (k : N) : wclause := Some (false, [k]).
Definition star : wclause := None.

Definition user_msg (tag : N) (keys : list spath) : umsg := mkU 1234 tag keys [] SAbsent.

(* sessions 0, 1, 2 attach; session 1 stores the nodes a and b *)
Definition setup : list revent :=
  [RAttach 0 hostn id0; RAttach 1 hostn id1; RAttach 2 hostn id2;
   RCmd 1 (RSrv (CSetData 0 [([na], 1); ([nb], 2)]))].

(* F19: session 0 sends one Message with the single relative key STAR (three clauses after the default prefix);
   session 1 owns two matching depth-3 nodes *)
Definition f19_history : list revent := setup ++ [RCmd 0 (RMsg (user_msg 7 [Rel [star]]))].

Definition inbox_of (st : rstate) (s : sid) : list dlv :=
  match get_info st s with Some ri => ri_inbox ri | None => [] end.

Lemma deliver_once_refuted_as_found_lemma :
  exists evs : list revent, exists d : dlv,
    inbox_of (rrun r_as_found evs empty_rstate) 1 = [d; d] /\ inbox_of (rrun r_all_fixed evs empty_rstate) 1 = [d].
Proof. exists f19_history, (mkD 0 7 SAbsent). split; vm_compute; reflexivity. Qed.

(* F20: session 0 sets the default route "b" and sends a Message without keys; only session 1 owns a node b *)
Definition f20_history : list revent :=
  setup ++ [RCmd 0 (RSetParams (mkSP false false false [Rel [lit nb]] None)); RCmd 0 (RMsg (user_msg 8 []))].

Lemma default_route_refuted_as_found_lemma :
  exists evs : list revent, exists d : dlv,
    inbox_of (rrun r_as_found evs empty_rstate) 2 = [d] /\ inbox_of (rrun r_all_fixed evs empty_rstate) 2 = [] /\
    inbox_of (rrun r_all_fixed evs empty_rstate) 1 = [d].
Proof. exists f20_history, (mkD 0 8 SAbsent). repeat split; vm_compute; reflexivity. Qed.

(* ------------------------------------------------------------------ a reachable state satisfying the premises of deliver_once *)

Definition setup_state : rstate := rrun r_all_fixed setup empty_rstate.

Lemma setup_state_wf :
  tree_wf (sv_tree (rs_srv setup_state)) /\ NoDup (map s_id (sv_sessions (rs_srv setup_state))) /\
  length (sv_tree (rs_srv setup_state)) = 6%nat /\
  (exists ss ri, get_session (rs_srv setup_state) 0 = Some ss /\ get_info setup_state 0 = Some ri /\ matcher_wf (ri_route ri)).
Proof.
  split; [apply tree_wfb_ok; vm_compute; reflexivity|]. split.
  - vm_compute. repeat constructor; cbn; intuition discriminate.
  - split; [vm_compute; reflexivity|].
    eexists. eexists. split; [vm_compute; reflexivity|]. split; [vm_compute; reflexivity|]. apply empty_matcher_wf.
Qed.

(* ------------------------------------------------------------------ the sources the translator has just read are the repaired ones *)

Lemma code_is_repaired_lemma :
  (c_c05_guard_as_found, c_c05_once_as_found, c_c05_route_as_found, c_c05_uvkeys_as_found, c_c05_uvempty_as_found) = (0, 0, 0, 0, 0)%N /\
  (c_c05_pass_returns_session_depth, c_c05_default_flags_gw_and_nb) = (1, 1)%N /\ r_as_is = r_all_fixed /\
  (forall st, clause_keys st = clause_keys_all st).
Proof.
  split; [reflexivity|]. split; [reflexivity|]. split; [reflexivity|]. intros st; reflexivity.
Qed.

Lemma premises_satisfiable_lemma :
  tree_wf f12_tree /\ matcher_wf f12_matcher /\
  (forall (c : clause) (ks : list name) (k : name), True -> ckeys c = Some ks -> cmatch c k = true -> In k ks) /\
  map n_path (visits f12_tree f12_matcher [] true true) = [[jeremy; kate]; [kevin; joe]].
Proof. split; [exact f12_tree_wf|]. split; [exact f12_matcher_wf|]. split; [intros c ks k _; apply wkeys_sound | exact f12_fixed_visits]. Qed.
