(* Refl/Base.v -- base types of the shared reflector-server model (C04, reused by C05/C06/C07).
   Definitions only (no proofs).

   Names and payloads are opaque to the server code that is modelled: only equality of node
   names matters (reflector/DataNode.cpp, StorageReflectSession.cpp never look inside a name
   or a payload Message), so both are numbers here.  The correspondence driver interns the
   strings of a case.  [payload] 0 stands for the empty Message every intermediate / host /
   session node is created with (GetEmptyMessageRef()).

   Wildcard clauses and query filters are external code (regex/StringMatcher.cpp, QueryFilter.cpp,
   the subject of C15 and C14).  They enter as the operations of the class [MatchOps]; what the
   theorems need of them is the class [MatchLaws] (in BaseProofs.v), which every theorem carries as an
   explicit premise -- nothing is an axiom. *)
From Coq Require Import List NArith ZArith Bool Arith.
Import ListNotations.

Definition name := N.
Definition path := list name.          (* absolute node path: the names from the root down; [] is the root *)
Definition payload := N.
Definition empty_payload : payload := 0%N.
Definition sid := N.                   (* session id (AbstractReflectSession::GetSessionID) *)

Definition name_eqb : name -> name -> bool := N.eqb.

Fixpoint path_eqb (p q : path) : bool :=
  match p, q with
  | [], [] => true
  | a :: p', b :: q' => name_eqb a b && path_eqb p' q'
  | _, _ => false
  end.

(* strip_prefix p q = Some r  iff  q = p ++ r *)
Fixpoint strip_prefix (p q : path) : option path :=
  match p, q with
  | [], _ => Some q
  | a :: p', b :: q' => if name_eqb a b then strip_prefix p' q' else None
  | _ :: _, [] => None
  end.

(* q is p or lies below p *)
Definition is_prefix (p q : path) : bool :=
  match strip_prefix p q with Some _ => true | None => false end.

(* q = p ++ [k] : q is a child of p *)
Definition child_name (p q : path) : option name :=
  match strip_prefix p q with Some [k] => Some k | _ => None end.

Definition is_child (p q : path) : bool :=
  match child_name p q with Some _ => true | None => false end.

Definition last_name (p : path) : name := last p 0%N.
Definition parent_path (p : path) : path := removelast p.

(* uint32 arithmetic written down (DESIGN 3): the value of a C++ uint32 expression *)
Definition u32 (n : N) : N := N.modulo n 4294967296%N.
Definition u32_of_Z (z : Z) : N := Z.to_N (Z.modulo z 4294967296%Z).     (* (uint32) of an int32 *)

(* ------------------------------------------------------------------ external matching code *)

Class MatchOps := {
  clause : Type;                                   (* one '/'-separated clause of a wildcard path *)
  clause_eqb : clause -> clause -> bool;           (* equality of the clause TEXT (paths are keyed by their string) *)
  cmatch : clause -> name -> bool;                 (* StringMatcher::Match; a NULL matcher ("*") matches everything *)
  ckeys : clause -> option (list name);            (* Some ks: IsPatternUnique() / IsPatternListOfUniqueValues(): the
                                                      (unescaped, non-empty) names the clause can match; None: wildcards *)
  cstar : clause;                                  (* the clause "*" *)
  qfilter : Type;                                  (* a QueryFilter *)
  fmatch : qfilter -> payload -> bool               (* QueryFilter::Matches on the node's Message *)
}.

Section Pat.
Context {M : MatchOps}.

Definition pat := list clause.                     (* a wildcard path with its leading '/' / default prefix resolved *)

Fixpoint pat_eqb (a b : pat) : bool :=
  match a, b with
  | [], [] => true
  | x :: a', y :: b' => clause_eqb x y && pat_eqb a' b'
  | _, _ => false
  end.

(* all clauses match the names, position by position, and the lengths agree *)
Fixpoint pat_matches (pt : pat) (p : path) : bool :=
  match pt, p with
  | [], [] => true
  | c :: pt', k :: p' => cmatch c k && pat_matches pt' p'
  | _, _ => false
  end.

(* DEFAULT_PATH_PREFIX "*/*" is prepended to a path string that has no leading '/' (PathMatcher::AdjustStringPrefix) *)
Definition default_prefix : pat := [cstar; cstar].

Definition filter_ok (f : option qfilter) (d : option payload) : bool :=   (* PathMatcherEntry::FilterMatches *)
  match f, d with
  | Some f', Some d' => fmatch f' d'
  | _, _ => true
  end.

End Pat.
