(* Refl/MirrorNotify.v -- one change notification (NotifySubscribersThatNodeChanged -> NodeChanged -> NodeChangedAux)
   read through the virtual mirrors: after it, every other session's virtual mirror holds at the changed
   path exactly what that session's subscriptions (paths and filters) select of the node. *)
From Coq Require Import List NArith ZArith Bool Arith Lia.
From Muscle Require Import Refl.Base Refl.BaseProofs Refl.Tree Refl.TreeProofs Refl.Matcher Refl.MatcherProofs
     Refl.Traverse Refl.Session Refl.Server Refl.ServerProofs Refl.Mirror Refl.MirrorBase Refl.MirrorServer.
Import ListNotations.

Section Notify.
Context {M : MatchOps} {L : MatchLaws M}.
Variable mir : mirror.

(* what subscriptions [subs] select of a node at p holding d (None: no node) *)
Definition exp_with (subs : matcher) (p : path) (d : option payload) : option payload :=
  match d with
  | Some v => if matches_path subs p (Some v) then Some v else None
  | None => None
  end.

Lemma expected_exp_with : forall t ss p,
  expected t ss p = exp_with (s_subs ss) p (option_map n_data (find_node t p)).
Proof. intros t ss p. unfold expected, exp_with. destruct (find_node t p); reflexivity. Qed.

(* the value NodeChanged leaves at the changed path in the told session's virtual mirror *)
Definition nc_result (subs : matcher) (p : path) (d : payload) (old : option payload) (r : bool) (cur : option payload)
  : option payload :=
  if N.ltb 0 (m_nfilters subs) then
    let before := matches_node subs p old 0 in
    if r then (if before then None else cur)
    else
      let now := matches_node subs p (Some d) 0 in
      match old with
      | Some _ => if now then Some d else if before then None else cur
      | None => if now then Some d else cur
      end
  else if r then None else Some d.

Lemma pend_ok_node_changed : forall sv s p d old r, pend_ok sv -> pend_ok (node_changed sv s p d old r).
Proof.
  intros sv s p d old r H. unfold node_changed. destruct (get_session sv s) as [ss|]; auto.
  destruct (N.ltb 0 (m_nfilters (s_subs ss))).
  - destruct r.
    + destruct (matches_node _ _ _ _); auto. now apply pend_ok_nca.
    + destruct old.
      * destruct (matches_node (s_subs ss) p (Some d) 0); [now apply pend_ok_nca|].
        destruct (matches_node _ _ _ _); auto. now apply pend_ok_nca.
      * destruct (matches_node (s_subs ss) p (Some d) 0); auto. now apply pend_ok_nca.
  - now apply pend_ok_nca.
Qed.

Lemma V_node_changed : forall sv s ss p d old r o q, pend_ok sv -> get_session sv s = Some ss ->
  V mir (node_changed sv s p d old r) o q
  = if N.eqb o s && path_eqb p q
    then Some (nc_result (s_subs ss) p d old r (mirror_get (vm mir ss) p))
    else V mir sv o q.
Proof.
  intros sv s ss p d old r o q Hpo Hss. unfold node_changed, nc_result. rewrite Hss.
  assert (Hex : exists x, get_session sv s = Some x) by eauto.
  assert (Hcur : N.eqb o s && path_eqb p q = true -> V mir sv o q = Some (mirror_get (vm mir ss) p)).
  { intros H. apply andb_true_iff in H as [H1 H2]. apply N.eqb_eq in H1. apply path_eqb_eq in H2. subst.
    unfold V. now rewrite Hss. }
  assert (Hnca : forall r', V mir (node_changed_aux sv s p d r') o q
                 = if N.eqb o s && path_eqb p q then Some (if r' then None else Some d) else V mir sv o q).
  { intros r'. rewrite (V_nca mir sv s p d r' o q Hpo Hex).
    destruct (N.eqb o s && path_eqb p q) eqn:E; auto.
    apply andb_true_iff in E as [E1 _]. apply N.eqb_eq in E1. subst o. now rewrite Hss. }
  destruct (N.ltb 0 (m_nfilters (s_subs ss))).
  - destruct r.
    + destruct (matches_node (s_subs ss) p old 0); [apply Hnca|].
      destruct (N.eqb o s && path_eqb p q) eqn:E; auto.
    + destruct old.
      * destruct (matches_node (s_subs ss) p (Some d) 0); [apply Hnca|].
        destruct (matches_node (s_subs ss) p (Some p0) 0); [apply Hnca|].
        destruct (N.eqb o s && path_eqb p q) eqn:E; auto.
      * destruct (matches_node (s_subs ss) p (Some d) 0); [apply Hnca|].
        destruct (N.eqb o s && path_eqb p q) eqn:E; auto.
  - apply Hnca.
Qed.

(* ------------------------------------------------------------------ the loop over the node's subscribers *)

Lemma tbl_has_spec : forall tb o, tbl_has tb o = true <-> In o (map fst tb).
Proof.
  induction tb as [|[k c] tb IH]; intros o; cbn; [split; [discriminate|intros []]|].
  rewrite orb_true_iff, IH, N.eqb_eq. intuition.
Qed.

Lemma get_session_core_some : forall sv sv' o ss, same_core sv sv' -> get_session sv o = Some ss ->
  exists ss', get_session sv' o = Some ss' /\ s_subs ss' = s_subs ss.
Proof.
  intros sv sv' o ss Hc Hss. pose proof (get_session_core sv sv' o Hc) as H. rewrite Hss in H.
  destruct (get_session sv' o) as [ss'|]; [|contradiction]. exists ss'. split; auto.
  unfold core in H. congruence.
Qed.

Lemma notify_fold : forall (tb : subtbl) sv by_ p d old r,
  NoDup (map fst tb) -> pend_ok sv ->
  (forall k, In k (map fst tb) -> k <> by_ -> exists ss, get_session sv k = Some ss) ->
  let sv' := fold_left (fun sv' kc => if N.eqb (fst kc) by_ then sv' else node_changed sv' (fst kc) p d old r) tb sv in
  pend_ok sv' /\ same_core sv sv'
  /\ forall o q ss, get_session sv o = Some ss ->
       V mir sv' o q
       = if (tbl_has tb o && negb (N.eqb o by_)) && path_eqb p q
         then Some (nc_result (s_subs ss) p d old r (mirror_get (vm mir ss) p))
         else V mir sv o q.
Proof.
  induction tb as [|[k c] tb IH]; intros sv by_ p d old r Hnd Hpo Hex; cbn [fold_left].
  - split; [auto|split; [apply same_core_refl|]]. intros o q ss _. reflexivity.
  - cbn in Hnd. inversion Hnd as [|? ? Hk Hnd']; subst. cbn [fst].
    destruct (N.eqb k by_) eqn:Ekb.
    + apply N.eqb_eq in Ekb. subst k.
      destruct (IH sv by_ p d old r Hnd' Hpo) as [H1 [H2 H3]].
      { intros k' Hk' Hne. apply Hex; auto. now right. }
      split; [auto|split; [auto|]]. intros o q ss Hss. rewrite (H3 o q ss Hss). cbn [tbl_has].
      destruct (N.eqb by_ o) eqn:E; auto. apply N.eqb_eq in E. subst o. rewrite N.eqb_refl. cbn.
      now rewrite andb_false_r.
    + apply N.eqb_neq in Ekb.
      destruct (Hex k (or_introl eq_refl) Ekb) as [ssk Hssk].
      set (sv1 := node_changed sv k p d old r).
      assert (Hpo1 : pend_ok sv1) by (now apply pend_ok_node_changed).
      assert (Hc1 : same_core sv sv1) by apply node_changed_core.
      destruct (IH sv1 by_ p d old r Hnd' Hpo1) as [H1 [H2 H3]].
      { intros k' Hk' Hne. destruct (Hex k' (or_intror Hk') Hne) as [x Hx].
        destruct (get_session_core_some sv sv1 k' x Hc1 Hx) as [x' [Hx' _]]. eauto. }
      split; [auto|split; [eapply same_core_trans; eauto|]].
      intros o q ss Hss.
      destruct (get_session_core_some sv sv1 o ss Hc1 Hss) as [ss1 [Hss1 Hsub1]].
      rewrite (H3 o q ss1 Hss1). cbn [tbl_has]. rewrite Hsub1.
      destruct (N.eqb k o) eqn:Eko.
      * (* the subscriber just told: it is not told again *)
        apply N.eqb_eq in Eko. subst o.
        assert (tbl_has tb k = false) as ->.
        { destruct (tbl_has tb k) eqn:E; auto. apply tbl_has_spec in E. contradiction. }
        cbn [orb andb]. unfold sv1. rewrite (V_node_changed sv k ssk p d old r k q Hpo Hssk).
        rewrite N.eqb_refl. assert (ss = ssk) by congruence. subst ssk.
        apply N.eqb_neq in Ekb. rewrite Ekb. cbn [negb andb]. reflexivity.
      * cbn [orb].
        assert (HV : forall q', V mir sv1 k q' = V mir sv1 k q') by reflexivity. clear HV.
        assert (Hsame : forall q', V mir sv1 o q' = V mir sv o q').
        { intros q'. unfold sv1. rewrite (V_node_changed sv k ssk p d old r o q' Hpo Hssk).
          rewrite (N.eqb_sym o k), Eko. reflexivity. }
        assert (Hvm : mirror_get (vm mir ss1) p = mirror_get (vm mir ss) p).
        { pose proof (Hsame p) as H. unfold V in H. rewrite Hss1, Hss in H. cbn in H. congruence. }
        rewrite Hvm, Hsame. reflexivity.
Qed.

Lemma V_notify_changed : forall sv by_ p d old r n o q ss,
  find_node (sv_tree sv) p = Some n -> NoDup (map fst (n_subs n)) -> pend_ok sv ->
  (forall k, In k (map fst (n_subs n)) -> k <> by_ -> exists x, get_session sv k = Some x) ->
  get_session sv o = Some ss ->
  V mir (notify_changed sv by_ p d old r) o q
  = if (tbl_has (n_subs n) o && negb (N.eqb o by_)) && path_eqb p q
    then Some (nc_result (s_subs ss) p d old r (mirror_get (vm mir ss) p))
    else V mir sv o q.
Proof.
  intros sv by_ p d old r n o q ss Hf Hnd Hpo Hex Hss. unfold notify_changed. rewrite Hf.
  destruct (notify_fold (n_subs n) sv by_ p d old r Hnd Hpo Hex) as [_ [_ H]]. now apply H.
Qed.

Lemma pend_ok_notify_changed : forall sv by_ p d old r, pend_ok sv -> pend_ok (notify_changed sv by_ p d old r).
Proof.
  intros sv by_ p d old r H. unfold notify_changed. destruct (find_node (sv_tree sv) p) as [n|]; auto.
  revert sv H. induction (n_subs n) as [|[k c] tb IH]; intros sv H; cbn [fold_left]; auto.
  apply IH. cbn [fst]. destruct (N.eqb k by_); auto. now apply pend_ok_node_changed.
Qed.

End Notify.
