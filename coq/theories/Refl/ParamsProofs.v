(* Refl/ParamsProofs.v -- lowering the commands a client sends (parameter names, Params.v) keeps every premise of
   mirror_converges_partial, so the theorem holds for histories as they are on the wire, without asking that a
   client unsubscribes under the spelling it subscribed with: mirror_converges_wire. *)
From Coq Require Import List NArith ZArith Bool Arith Lia.
From Muscle Require Import Gen.Consts Refl.Base Refl.BaseProofs Refl.Tree Refl.TreeProofs Refl.Matcher Refl.MatcherProofs
     Refl.Traverse Refl.Session Refl.Server Refl.ServerProofs Refl.Mirror Refl.MirrorCmd Refl.MirrorFrame Refl.MirrorProofs
     Refl.Params.
Import ListNotations.

Section ParamsProofs.
Context {M : MatchOps} {L : MatchLaws M}.

(* the BATCH case of lower_cmd, with a name *)
Fixpoint lower_list (nest : nat) (l : list cmd) (ps : pnames) : list cmd * pnames :=
  match l with
  | [] => ([], ps)
  | c' :: r => let '(c1, ps1) := lower_cmd nest ps c' in
               let '(r1, ps2) := lower_list nest r ps1 in (c1 :: r1, ps2)
  end.

Lemma lower_batch_eq : forall nest ps l,
  lower_cmd nest ps (CBatch l) =
  if Nat.ltb nest max_batch_nest
  then (CBatch (fst (lower_list (S nest) l ps)), snd (lower_list (S nest) l ps))
  else (CBatch l, ps).
Proof.
  intros nest ps l. cbn [lower_cmd]. destruct (Nat.ltb nest max_batch_nest); [|reflexivity].
  match goal with |- (let '(l', ps') := ?G l ps in _) = _ => assert (H : forall l0 ps0, G l0 ps0 = lower_list (S nest) l0 ps0) end.
  { induction l0 as [|c l0 IH]; intros ps0; cbn [lower_list]; [reflexivity|].
    destruct (lower_cmd (S nest) ps0 c) as [c1 ps1]. rewrite IH. reflexivity. }
  rewrite H. destruct (lower_list (S nest) l ps); reflexivity.
Qed.

Lemma lower_list_cons : forall nest c r ps,
  fst (lower_list nest (c :: r) ps) =
  fst (lower_cmd nest ps c) :: fst (lower_list nest r (snd (lower_cmd nest ps c))).
Proof.
  intros. cbn [lower_list]. destruct (lower_cmd nest ps c) as [c1 ps1]. cbn [fst snd].
  destruct (lower_list nest r ps1); reflexivity.
Qed.

Lemma lower_unsub_shape : forall nest ps subs, exists l, fst (lower_cmd nest ps (CUnsubscribe subs)) = CUnsubscribe l.
Proof. intros. cbn [lower_cmd]. destruct (lower_unsub ps subs) as [l ps']. now exists l. Qed.

(* ------------------------------------------------------------------ what lowering keeps *)

Lemma lower_cmd_budget : forall c nest ps, cmd_budget (fst (lower_cmd nest ps c)) = cmd_budget c.
Proof.
  induction c using cmd_ind'; intros nest ps; try reflexivity.
  - cbn [lower_cmd]. destruct (lower_unsub ps k); reflexivity.
  - rewrite lower_batch_eq. destruct (Nat.ltb nest max_batch_nest); [|reflexivity]. cbn [fst cmd_budget].
    revert ps. induction l as [|c l IH]; intros ps; [reflexivity|].
    inversion H as [|? ? Hc Hl]; subst. rewrite lower_list_cons. rewrite Hc, (IH Hl). reflexivity.
Qed.

Lemma lower_cmd_loud : forall c own nest ps, cmd_loud_for own (fst (lower_cmd nest ps c)) = cmd_loud_for own c.
Proof.
  induction c using cmd_ind'; intros own nest ps; try reflexivity.
  - cbn [lower_cmd]. destruct (lower_unsub ps k); reflexivity.
  - rewrite lower_batch_eq. destruct (Nat.ltb nest max_batch_nest); [|reflexivity]. cbn [fst cmd_loud_for].
    revert ps. induction l as [|c l IH]; intros ps; [reflexivity|].
    inversion H as [|? ? Hc Hl]; subst. rewrite lower_list_cons. cbn [forallb]. rewrite Hc, (IH Hl). reflexivity.
Qed.

Lemma lower_cmd_plain : forall c nest ps, cmd_plain (fst (lower_cmd nest ps c)) = cmd_plain c.
Proof.
  induction c using cmd_ind'; intros nest ps; try reflexivity.
  - cbn [lower_cmd]. destruct (lower_unsub ps k); reflexivity.
  - rewrite lower_batch_eq. destruct (Nat.ltb nest max_batch_nest); [|reflexivity]. cbn [fst cmd_plain].
    revert ps. induction l as [|c l IH]; intros ps; [reflexivity|].
    inversion H as [|? ? Hc Hl]; subst. rewrite lower_list_cons. cbn [forallb]. rewrite Hc, (IH Hl). reflexivity.
Qed.

Lemma lower_cmd_depth : forall c nest ps, cmd_depth (fst (lower_cmd nest ps c)) = cmd_depth c.
Proof.
  induction c using cmd_ind'; intros nest ps; try reflexivity.
  - cbn [lower_cmd]. destruct (lower_unsub ps k); reflexivity.
  - rewrite lower_batch_eq. destruct (Nat.ltb nest max_batch_nest); [|reflexivity]. cbn [fst cmd_depth]. f_equal.
    revert ps. induction l as [|c l IH]; intros ps; [reflexivity|].
    inversion H as [|? ? Hc Hl]; subst. rewrite lower_list_cons. rewrite Hc, (IH Hl). reflexivity.
Qed.

Lemma lower_cmd_subs_ok : forall c nest ps, cmd_subs_ok c -> cmd_subs_ok (fst (lower_cmd nest ps c)).
Proof.
  induction c using cmd_ind'; intros nest ps Hok; try exact Hok.
  - cbn [lower_cmd]. destruct (lower_unsub ps k); exact I.
  - rewrite lower_batch_eq. destruct (Nat.ltb nest max_batch_nest); [|exact Hok]. cbn [fst cmd_subs_ok] in *.
    revert ps. induction l as [|c l IH]; intros ps; [exact I|].
    inversion H as [|? ? Hc Hl]; subst. rewrite lower_list_cons. destruct Hok as [Hok1 Hok2]. split; [now apply Hc|now apply IH].
Qed.

(* ------------------------------------------------------------------ histories *)

Variable fx : fixes.
Hypothesis guard_on : fx_guard fx = true.
Hypothesis overlap_on : fx_overlap fx = true.
Hypothesis push_on : fx_push fx = true.

Lemma pworld_run_lower : forall evs pw,
  pw_world (pworld_run fx evs pw) = world_run fx (lower_run fx pw evs) (pw_world pw).
Proof.
  induction evs as [|ev evs IH]; intros pw; [reflexivity|].
  cbn [pworld_run fold_left lower_run world_run]. fold (pworld_run fx evs (pworld_step fx pw ev)). rewrite IH.
  fold (world_run fx (lower_run fx (pworld_step fx pw ev) evs)). f_equal.
  unfold pworld_step. destruct (lower_event pw ev) as [ev' t']. reflexivity.
Qed.

Lemma lower_event_budget : forall pw ev, ev_budget (fst (lower_event pw ev)) = ev_budget ev.
Proof.
  intros pw [s h n|s|s c]; cbn [lower_event].
  - destruct (get_session (w_srv (pw_world pw)) s); reflexivity.
  - reflexivity.
  - destruct (get_session (w_srv (pw_world pw)) s); [|reflexivity].
    pose proof (lower_cmd_budget c 0 (pt_get (pw_params pw) s)) as Hb.
    destruct (lower_cmd 0 (pt_get (pw_params pw) s) c) as [c' ps']. exact Hb.
Qed.

Lemma lower_run_budget : forall evs pw, run_budget (lower_run fx pw evs) = run_budget evs.
Proof.
  induction evs as [|ev evs IH]; intros pw; [reflexivity|].
  cbn [lower_run run_budget]. now rewrite lower_event_budget, IH.
Qed.

(* the condition on arrivals (fresh session directories), read along the run on the wire *)
Fixpoint wf_prun (pw : pworld) (evs : list event) : Prop :=
  match evs with
  | [] => True
  | ev :: r => wf_event (w_srv (pw_world pw)) ev /\ wf_prun (pworld_step fx pw ev) r
  end.

Lemma lower_event_wf : forall pw ev sv, wf_event sv ev -> wf_event sv (fst (lower_event pw ev)).
Proof.
  intros pw [s h n|s|s c] sv Hwf; cbn [lower_event].
  - destruct (get_session (w_srv (pw_world pw)) s); exact Hwf.
  - exact Hwf.
  - destruct (get_session (w_srv (pw_world pw)) s); [|exact Hwf].
    destruct (lower_cmd 0 (pt_get (pw_params pw) s) c); exact I.
Qed.

Lemma pworld_step_world : forall pw ev,
  pw_world (pworld_step fx pw ev) = world_step fx (pw_world pw) (fst (lower_event pw ev)).
Proof. intros. unfold pworld_step. destruct (lower_event pw ev); reflexivity. Qed.

Lemma wf_prun_lower : forall evs pw, wf_prun pw evs -> wf_wrun fx (pw_world pw) (lower_run fx pw evs).
Proof.
  induction evs as [|ev evs IH]; intros pw Hwf; [exact I|].
  destruct Hwf as [H1 H2]. cbn [lower_run wf_wrun]. split; [now apply lower_event_wf|].
  rewrite <- pworld_step_world. now apply IH.
Qed.

(* the conditions on quiet flags (ev_ok) and on the observer's own commands (ev_clean), read along the run on the wire:
   they are about what Server.v executes, i.e. about the lowered commands (a REMOVEPARAMETERS keeps the names that are
   parameters) *)
Fixpoint ok_prun (o : sid) (pw : pworld) (evs : list event) : Prop :=
  match evs with
  | [] => True
  | ev :: r => ev_ok o (pw_world pw) (fst (lower_event pw ev)) /\ ev_clean o (pw_world pw) (fst (lower_event pw ev))
               /\ ok_prun o (pworld_step fx pw ev) r
  end.

Lemma ok_prun_lower : forall evs pw o, ok_prun o pw evs -> ok_wrun fx o (pw_world pw) (lower_run fx pw evs).
Proof.
  induction evs as [|ev evs IH]; intros pw o H; [exact I|].
  destruct H as [H1 [H2 H3]]. cbn [lower_run ok_wrun]. split; [exact H1|split; [exact H2|]].
  rewrite <- pworld_step_world. now apply IH.
Qed.

(* mirror_converges_partial for histories as they are on the wire: REMOVEPARAMETERS works on parameter names *)
Theorem mirror_converges_wire : forall evs o,
  wf_prun empty_pworld evs -> ok_prun o empty_pworld evs -> small (run_budget evs) ->
  let w := pw_world (pworld_run fx evs empty_pworld) in
  forall c ss, In c (w_clients w) -> c_id c = o -> get_session (w_srv w) o = Some ss ->
  forall q, own_node ss q = false ->
  mirror_get (c_mirror c) q = expected (sv_tree (w_srv w)) ss q.
Proof.
  intros evs o Hwf Hok Hsm w. subst w. rewrite pworld_run_lower. cbn [empty_pworld pw_world].
  apply (mirror_converges_partial fx guard_on overlap_on push_on).
  - apply (wf_prun_lower evs empty_pworld Hwf).
  - apply (ok_prun_lower evs empty_pworld o Hok).
  - now rewrite lower_run_budget.
Qed.

End ParamsProofs.
