(* Refl/ParamsProofs.v -- lowering the commands a client sends (parameter names, Params.v) keeps every premise of
   mirror_converges_partial, so the theorem holds for histories as they are on the wire, without asking that a
   client unsubscribes under the spelling it subscribed with: mirror_converges_wire. *)
From Coq Require Import List NArith ZArith Bool Arith Lia.
From Muscle Require Import Gen.Consts Refl.Base Refl.BaseProofs Refl.Tree Refl.TreeProofs Refl.Matcher Refl.MatcherProofs
     Refl.Traverse Refl.Session Refl.Server Refl.ServerProofs Refl.Mirror Refl.MirrorCmd Refl.MirrorFrame Refl.MirrorProofs
     Refl.MirrorCheck Refl.MirrorStale Refl.Params.
Import ListNotations.

Section ParamsProofs.
Context {M : MatchOps} {L : MatchLaws M}.

(* the BATCH case of lower_cmd, with a name *)
Fixpoint lower_list (nest : nat) (l : list cmd) (ps : pnames) : list cmd * pnames :=
  match l with
  | [] => ([], ps)
  | c' :: r => let '(c1, ps1) := lower_cmd nest ps c' in
               let '(r1, ps2) := lower_list nest r ps1 in (c1 :: r1, ps2)
  end.

Lemma lower_batch_eq : forall nest ps l,
  lower_cmd nest ps (CBatch l) =
  if Nat.ltb nest max_batch_nest
  then (CBatch (fst (lower_list (S nest) l ps)), snd (lower_list (S nest) l ps))
  else (CBatch l, ps).
Proof.
  intros nest ps l. cbn [lower_cmd]. destruct (Nat.ltb nest max_batch_nest); [|reflexivity].
  match goal with |- (let '(l', ps') := ?G l ps in _) = _ => assert (H : forall l0 ps0, G l0 ps0 = lower_list (S nest) l0 ps0) end.
  { induction l0 as [|c l0 IH]; intros ps0; cbn [lower_list]; [reflexivity|].
    destruct (lower_cmd (S nest) ps0 c) as [c1 ps1]. rewrite IH. reflexivity. }
  rewrite H. destruct (lower_list (S nest) l ps); reflexivity.
Qed.

Lemma lower_list_cons : forall nest c r ps,
  fst (lower_list nest (c :: r) ps) =
  fst (lower_cmd nest ps c) :: fst (lower_list nest r (snd (lower_cmd nest ps c))).
Proof.
  intros. cbn [lower_list]. destruct (lower_cmd nest ps c) as [c1 ps1]. cbn [fst snd].
  destruct (lower_list nest r ps1); reflexivity.
Qed.

Lemma lower_unsub_shape : forall nest ps subs, exists l, fst (lower_cmd nest ps (CUnsubscribe subs)) = CUnsubscribe l.
Proof. intros. cbn [lower_cmd]. destruct (lower_unsub ps subs) as [l ps']. now exists l. Qed.

(* ------------------------------------------------------------------ what lowering keeps *)

Lemma lower_cmd_budget : forall c nest ps, cmd_budget (fst (lower_cmd nest ps c)) = cmd_budget c.
Proof.
  induction c using cmd_ind'; intros nest ps; try reflexivity.
  - cbn [lower_cmd]. destruct (lower_unsub ps k); reflexivity.
  - rewrite lower_batch_eq. destruct (Nat.ltb nest max_batch_nest); [|reflexivity]. cbn [fst cmd_budget].
    revert ps. induction l as [|c l IH]; intros ps; [reflexivity|].
    inversion H as [|? ? Hc Hl]; subst. rewrite lower_list_cons. rewrite Hc, (IH Hl). reflexivity.
Qed.

Lemma lower_cmd_loud : forall c own nest ps, cmd_loud_for own (fst (lower_cmd nest ps c)) = cmd_loud_for own c.
Proof.
  induction c using cmd_ind'; intros own nest ps; try reflexivity.
  - cbn [lower_cmd]. destruct (lower_unsub ps k); reflexivity.
  - rewrite lower_batch_eq. destruct (Nat.ltb nest max_batch_nest); [|reflexivity]. cbn [fst cmd_loud_for].
    revert ps. induction l as [|c l IH]; intros ps; [reflexivity|].
    inversion H as [|? ? Hc Hl]; subst. rewrite lower_list_cons. cbn [forallb]. rewrite Hc, (IH Hl). reflexivity.
Qed.

Lemma lower_cmd_plain : forall c nest ps, cmd_plain (fst (lower_cmd nest ps c)) = cmd_plain c.
Proof.
  induction c using cmd_ind'; intros nest ps; try reflexivity.
  - cbn [lower_cmd]. destruct (lower_unsub ps k); reflexivity.
  - rewrite lower_batch_eq. destruct (Nat.ltb nest max_batch_nest); [|reflexivity]. cbn [fst cmd_plain].
    revert ps. induction l as [|c l IH]; intros ps; [reflexivity|].
    inversion H as [|? ? Hc Hl]; subst. rewrite lower_list_cons. cbn [forallb]. rewrite Hc, (IH Hl). reflexivity.
Qed.

Lemma lower_cmd_depth : forall c nest ps, cmd_depth (fst (lower_cmd nest ps c)) = cmd_depth c.
Proof.
  induction c using cmd_ind'; intros nest ps; try reflexivity.
  - cbn [lower_cmd]. destruct (lower_unsub ps k); reflexivity.
  - rewrite lower_batch_eq. destruct (Nat.ltb nest max_batch_nest); [|reflexivity]. cbn [fst cmd_depth]. f_equal.
    revert ps. induction l as [|c l IH]; intros ps; [reflexivity|].
    inversion H as [|? ? Hc Hl]; subst. rewrite lower_list_cons. rewrite Hc, (IH Hl). reflexivity.
Qed.

Lemma lower_cmd_subs_ok : forall c nest ps, cmd_subs_ok c -> cmd_subs_ok (fst (lower_cmd nest ps c)).
Proof.
  induction c using cmd_ind'; intros nest ps Hok; try exact Hok.
  - cbn [lower_cmd]. destruct (lower_unsub ps k); exact I.
  - rewrite lower_batch_eq. destruct (Nat.ltb nest max_batch_nest); [|exact Hok]. cbn [fst cmd_subs_ok] in *.
    revert ps. induction l as [|c l IH]; intros ps; [exact I|].
    inversion H as [|? ? Hc Hl]; subst. rewrite lower_list_cons. destruct Hok as [Hok1 Hok2]. split; [now apply Hc|now apply IH].
Qed.

(* ------------------------------------------------------------------ histories *)

Variable fx : fixes.
Hypothesis guard_on : fx_guard fx = true.
Hypothesis overlap_on : fx_overlap fx = true.
Hypothesis push_on : fx_push fx = true.

Lemma pworld_run_lower : forall evs pw,
  pw_world (pworld_run fx evs pw) = world_run fx (lower_run fx pw evs) (pw_world pw).
Proof.
  induction evs as [|ev evs IH]; intros pw; [reflexivity|].
  cbn [pworld_run fold_left lower_run world_run]. fold (pworld_run fx evs (pworld_step fx pw ev)). rewrite IH.
  fold (world_run fx (lower_run fx (pworld_step fx pw ev) evs)). f_equal.
  unfold pworld_step. destruct (lower_event pw ev) as [ev' t']. reflexivity.
Qed.

Lemma lower_event_budget : forall pw ev, ev_budget (fst (lower_event pw ev)) = ev_budget ev.
Proof.
  intros pw [s h n|s|s c]; cbn [lower_event].
  - destruct (get_session (w_srv (pw_world pw)) s); reflexivity.
  - reflexivity.
  - destruct (get_session (w_srv (pw_world pw)) s); [|reflexivity].
    pose proof (lower_cmd_budget c 0 (pt_get (pw_params pw) s)) as Hb.
    destruct (lower_cmd 0 (pt_get (pw_params pw) s) c) as [c' ps']. exact Hb.
Qed.

Lemma lower_run_budget : forall evs pw, run_budget (lower_run fx pw evs) = run_budget evs.
Proof.
  induction evs as [|ev evs IH]; intros pw; [reflexivity|].
  cbn [lower_run run_budget]. now rewrite lower_event_budget, IH.
Qed.

(* the condition on arrivals (fresh session directories), read along the run on the wire *)
Fixpoint wf_prun (pw : pworld) (evs : list event) : Prop :=
  match evs with
  | [] => True
  | ev :: r => wf_event (w_srv (pw_world pw)) ev /\ wf_prun (pworld_step fx pw ev) r
  end.

Lemma lower_event_wf : forall pw ev sv, wf_event sv ev -> wf_event sv (fst (lower_event pw ev)).
Proof.
  intros pw [s h n|s|s c] sv Hwf; cbn [lower_event].
  - destruct (get_session (w_srv (pw_world pw)) s); exact Hwf.
  - exact Hwf.
  - destruct (get_session (w_srv (pw_world pw)) s); [|exact Hwf].
    destruct (lower_cmd 0 (pt_get (pw_params pw) s) c); exact I.
Qed.

Lemma pworld_step_world : forall pw ev,
  pw_world (pworld_step fx pw ev) = world_step fx (pw_world pw) (fst (lower_event pw ev)).
Proof. intros. unfold pworld_step. destruct (lower_event pw ev); reflexivity. Qed.

Lemma wf_prun_lower : forall evs pw, wf_prun pw evs -> wf_wrun fx (pw_world pw) (lower_run fx pw evs).
Proof.
  induction evs as [|ev evs IH]; intros pw Hwf; [exact I|].
  destruct Hwf as [H1 H2]. cbn [lower_run wf_wrun]. split; [now apply lower_event_wf|].
  rewrite <- pworld_step_world. now apply IH.
Qed.

(* the conditions on quiet flags (ev_ok) and on the observer's own commands (ev_clean), read along the run on the wire:
   they are about what Server.v executes, i.e. about the lowered commands (a REMOVEPARAMETERS keeps the names that are
   parameters) *)
Fixpoint ok_prun (o : sid) (pw : pworld) (evs : list event) : Prop :=
  match evs with
  | [] => True
  | ev :: r => ev_ok o (pw_world pw) (fst (lower_event pw ev)) /\ ev_clean o (pw_world pw) (fst (lower_event pw ev))
               /\ ok_prun o (pworld_step fx pw ev) r
  end.

Lemma ok_prun_lower : forall evs pw o, ok_prun o pw evs -> ok_wrun fx o (pw_world pw) (lower_run fx pw evs).
Proof.
  induction evs as [|ev evs IH]; intros pw o H; [exact I|].
  destruct H as [H1 [H2 H3]]. cbn [lower_run ok_wrun]. split; [exact H1|split; [exact H2|]].
  rewrite <- pworld_step_world. now apply IH.
Qed.

(* ------------------------------------------------------------------ the state-free tests of MirrorCheck.v, on the wire *)

Lemma lower_cmd_tail : forall c nest ps, tail_cmd (fst (lower_cmd nest ps c)) = tail_cmd c.
Proof.
  induction c using cmd_ind'; intros nest ps; try reflexivity.
  - cbn [lower_cmd]. destruct (lower_unsub ps k); reflexivity.
  - rewrite lower_batch_eq. destruct (Nat.ltb nest max_batch_nest); [|reflexivity]. cbn [fst tail_cmd].
    revert ps. induction l as [|c l IH]; intros ps; [reflexivity|].
    inversion H as [|? ? Hc Hl]; subst. rewrite lower_list_cons. cbn [forallb]. rewrite Hc, (IH Hl). reflexivity.
Qed.

Lemma lower_cmd_subs_ok_b : forall c nest ps, cmd_subs_ok_b (fst (lower_cmd nest ps c)) = cmd_subs_ok_b c.
Proof.
  induction c using cmd_ind'; intros nest ps; try reflexivity.
  - cbn [lower_cmd]. destruct (lower_unsub ps k); reflexivity.
  - rewrite lower_batch_eq. destruct (Nat.ltb nest max_batch_nest); [|reflexivity]. cbn [fst cmd_subs_ok_b].
    revert ps. induction l as [|c l IH]; intros ps; [reflexivity|].
    inversion H as [|? ? Hc Hl]; subst. rewrite lower_list_cons. cbn [forallb]. rewrite Hc, (IH Hl). reflexivity.
Qed.

(* is there an unsubscribe in the command?  (the flag of Mirror.client_cmd) *)
Fixpoint has_unsub (c : cmd) : bool :=
  match c with
  | CUnsubscribe _ => true
  | CBatch l => existsb has_unsub l
  | _ => false
  end.

Lemma client_flag : forall c m, snd (client_cmd m c) = has_unsub c.
Proof.
  induction c using cmd_ind'; intros m; try reflexivity.
  cbn [client_cmd has_unsub].
  assert (Hg : forall l0 acc, Forall (fun c => forall m, snd (client_cmd m c) = has_unsub c) l0 ->
            snd ((fix go (l : list cmd) (acc : matcher * bool) : matcher * bool :=
                    match l with
                    | [] => acc
                    | c' :: r => let '(m1, u1) := client_cmd (fst acc) c' in go r (m1, snd acc || u1)
                    end) l0 acc) = snd acc || existsb has_unsub l0).
  { induction l0 as [|c l0 IH]; intros acc HF; [cbn; now rewrite orb_false_r|].
    inversion HF as [|? ? Hc HF']; subst. cbn [existsb].
    pose proof (Hc (fst acc)) as Hs. destruct (client_cmd (fst acc) c) as [m1 u1]. cbn [snd] in Hs. subst u1.
    rewrite IH by auto. cbn [snd]. now rewrite orb_assoc. }
  rewrite Hg by auto. reflexivity.
Qed.

Lemma lower_cmd_has_unsub : forall c nest ps, has_unsub (fst (lower_cmd nest ps c)) = has_unsub c.
Proof.
  induction c using cmd_ind'; intros nest ps; try reflexivity.
  - cbn [lower_cmd]. destruct (lower_unsub ps k); reflexivity.
  - rewrite lower_batch_eq. destruct (Nat.ltb nest max_batch_nest); [|reflexivity]. cbn [fst has_unsub].
    revert ps. induction l as [|c l IH]; intros ps; [reflexivity|].
    inversion H as [|? ? Hc Hl]; subst. rewrite lower_list_cons. cbn [existsb]. rewrite Hc, (IH Hl). reflexivity.
Qed.

Lemma lower_list_forallb_tail : forall l nest ps, forallb tail_cmd (fst (lower_list nest l ps)) = forallb tail_cmd l.
Proof.
  induction l as [|c l IH]; intros nest ps; [reflexivity|]. rewrite lower_list_cons. cbn [forallb]. now rewrite lower_cmd_tail, IH.
Qed.

Lemma lower_list_drop_plain : forall l nest ps,
  forallb tail_cmd (drop_b cmd_plain (fst (lower_list nest l ps))) = forallb tail_cmd (drop_b cmd_plain l).
Proof.
  induction l as [|c l IH]; intros nest ps; [reflexivity|]. rewrite lower_list_cons. cbn [drop_b]. rewrite lower_cmd_plain.
  destruct (cmd_plain c); [apply IH|]. cbn [forallb]. now rewrite lower_cmd_tail, lower_list_forallb_tail.
Qed.

Lemma lower_list_drop_tail : forall l nest ps,
  forallb tail_cmd (drop_b cmd_plain (drop_b tail_cmd (fst (lower_list nest l ps))))
  = forallb tail_cmd (drop_b cmd_plain (drop_b tail_cmd l)).
Proof.
  induction l as [|c l IH]; intros nest ps; [reflexivity|]. rewrite lower_list_cons. cbn [drop_b]. rewrite lower_cmd_tail.
  destruct (tail_cmd c); [apply IH|].
  rewrite <- lower_list_cons. apply lower_list_drop_plain.
Qed.

Lemma lower_cmd_batch_tail_b : forall c ps, batch_tail_b (fst (lower_cmd 0 ps c)) = batch_tail_b c.
Proof.
  intros c ps. destruct c as [| | | | | | |l]; try reflexivity.
  - cbn [lower_cmd]. destruct (lower_unsub ps subs); reflexivity.
  - pose proof (lower_cmd_has_unsub (CBatch l) 0 ps) as Hu.
    rewrite lower_batch_eq in *. destruct (Nat.ltb 0 max_batch_nest); [|reflexivity]. cbn [fst] in *.
    unfold batch_tail_b. rewrite !client_flag, Hu. f_equal. apply lower_list_drop_tail.
Qed.

Lemma lower_event_ok_b : forall pw o ev, ev_ok_b o (fst (lower_event pw ev)) = ev_ok_b o ev.
Proof.
  intros pw o [s h n|s|s c]; cbn [lower_event].
  - destruct (get_session (w_srv (pw_world pw)) s); reflexivity.
  - reflexivity.
  - destruct (get_session (w_srv (pw_world pw)) s); [|reflexivity].
    pose proof (lower_cmd_loud c (N.eqb s o) 0 (pt_get (pw_params pw) s)) as H1.
    pose proof (lower_cmd_depth c 0 (pt_get (pw_params pw) s)) as H2.
    destruct (lower_cmd 0 (pt_get (pw_params pw) s) c) as [c' ps']. cbn [fst ev_ok_b] in *. now rewrite H1, H2.
Qed.

Lemma lower_event_clean_b : forall pw o ev, ev_clean_b o (fst (lower_event pw ev)) = ev_clean_b o ev.
Proof.
  intros pw o [s h n|s|s c]; cbn [lower_event].
  - destruct (get_session (w_srv (pw_world pw)) s); reflexivity.
  - reflexivity.
  - destruct (get_session (w_srv (pw_world pw)) s); [|reflexivity].
    pose proof (lower_cmd_plain c 0 (pt_get (pw_params pw) s)) as H1.
    pose proof (lower_cmd_subs_ok_b c 0 (pt_get (pw_params pw) s)) as H2.
    pose proof (lower_cmd_batch_tail_b c (pt_get (pw_params pw) s)) as H3.
    assert (H4 : is_unsub (fst (lower_cmd 0 (pt_get (pw_params pw) s) c)) = is_unsub c).
    { destruct c; try reflexivity.
      - cbn [lower_cmd]. destruct (lower_unsub (pt_get (pw_params pw) s) subs); reflexivity.
      - rewrite lower_batch_eq. destruct (Nat.ltb 0 max_batch_nest); reflexivity. }
    destruct (lower_cmd 0 (pt_get (pw_params pw) s) c) as [c' ps']. cbn [fst ev_clean_b] in *. now rewrite H1, H2, H3, H4.
Qed.

(* the state-free tests, made on the events as they are on the wire, imply the conditions on the lowered run *)
Lemma ok_prun_of_checks : forall o evs pw, forallb (ev_ok_b o) evs = true -> forallb (ev_clean_b o) evs = true ->
  ok_prun o pw evs.
Proof.
  intros o. induction evs as [|ev evs IH]; intros pw H H'; [exact I|]. cbn [forallb] in H, H'.
  apply andb_true_iff in H as [H1 H2]. apply andb_true_iff in H' as [H3 H4]. cbn [ok_prun].
  split; [apply ev_ok_b_one; now rewrite lower_event_ok_b|].
  split; [apply ev_clean_b_one; now rewrite lower_event_clean_b|now apply IH].
Qed.

(* mirror_converges_partial for histories as they are on the wire: REMOVEPARAMETERS works on parameter names *)
Theorem mirror_converges_wire : forall evs o,
  wf_prun empty_pworld evs -> ok_prun o empty_pworld evs -> small (run_budget evs) ->
  let w := pw_world (pworld_run fx evs empty_pworld) in
  forall c ss, In c (w_clients w) -> c_id c = o -> get_session (w_srv w) o = Some ss ->
  forall q, own_node ss q = false ->
  mirror_get (c_mirror c) q = expected (sv_tree (w_srv w)) ss q.
Proof.
  intros evs o Hwf Hok Hsm w. subst w. rewrite pworld_run_lower. cbn [empty_pworld pw_world].
  apply (mirror_converges_partial fx guard_on overlap_on push_on).
  - apply (wf_prun_lower evs empty_pworld Hwf).
  - apply (ok_prun_lower evs empty_pworld o Hok).
  - now rewrite lower_run_budget.
Qed.

(* the same with the state-free tests of MirrorCheck.v on the wire events (no explicit GETDATA at all, no quiet flag on a
   change of the tree by another session) *)
Corollary mirror_converges_wire_checked : forall evs o,
  wf_prun empty_pworld evs -> forallb (ev_ok_b o) evs = true -> forallb (ev_clean_b o) evs = true -> small (run_budget evs) ->
  let w := pw_world (pworld_run fx evs empty_pworld) in
  forall c ss, In c (w_clients w) -> c_id c = o -> get_session (w_srv w) o = Some ss ->
  forall q, own_node ss q = false ->
  mirror_get (c_mirror c) q = expected (sv_tree (w_srv w)) ss q.
Proof.
  intros evs o Hwf Hok Hcl Hsm. apply mirror_converges_wire; auto. now apply ok_prun_of_checks.
Qed.

(* mirror_converges_announced on the wire: the conditions are read off the lowered history (what Server.v executes) *)
Corollary mirror_converges_wire_announced : forall o evs,
  let evs' := lower_run fx empty_pworld evs in
  wf_wrun fx empty_world evs' -> oks_wrun fx o empty_world evs' -> small (run_budget evs') ->
  let w := pw_world (pworld_run fx evs empty_pworld) in
  forall c ss, In c (w_clients w) -> c_id c = o -> get_session (w_srv w) o = Some ss ->
  forall q, own_node ss q = false -> pmem q (stale_run fx o empty_world evs' []) = false ->
  mirror_get (c_mirror c) q = expected (sv_tree (w_srv w)) ss q.
Proof.
  intros o evs evs' Hwf Hok Hsm w. subst w. rewrite pworld_run_lower. cbn [empty_pworld pw_world]. fold evs'.
  now apply (mirror_converges_announced fx guard_on overlap_on push_on o evs').
Qed.

End ParamsProofs.
