(* Refl/Matcher.v -- muscle::PathMatcher (regex/PathMatcher.{h,cpp}) and the node tests of
   StorageReflectSession::NodePathMatcher (StorageReflectSession.cpp 1458-1499).  Definitions only.

   _entries is Hashtable<uint32, Hashtable<String, PathMatcherEntry>>: path strings grouped by
   their number of clauses; both levels iterate in insertion order, a Put on an existing key
   keeps its position, an emptied group is removed.  [matcher] keeps exactly that shape, and
   the filter counter _numFilters with the code's own bookkeeping. *)
From Coq Require Import List NArith ZArith Bool Arith.
From Muscle Require Import Refl.Base Refl.Tree.
Import ListNotations.

Section Matcher.
Context {M : MatchOps}.

Record entry := mkEntry { e_pat : pat; e_flt : option qfilter }.

Definition group := (nat * list entry)%type.            (* clause count, entries in insertion order *)

Record matcher := mkMatcher { m_groups : list group; m_nfilters : N }.

Definition empty_matcher : matcher := mkMatcher [] 0%N.

Definition has_filter (e : entry) : bool := match e_flt e with Some _ => true | None => false end.

(* ------------------------------------------------------------------ table operations *)

Fixpoint group_get (gs : list group) (d : nat) : list entry :=       (* _entries[d] : empty table when absent *)
  match gs with
  | [] => []
  | (k, es) :: r => if Nat.eqb k d then es else group_get r d
  end.

Fixpoint entries_get (es : list entry) (p : pat) : option entry :=
  match es with
  | [] => None
  | e :: r => if pat_eqb (e_pat e) p then Some e else entries_get r p
  end.

Definition m_get (m : matcher) (p : pat) : option entry := entries_get (group_get (m_groups m) (length p)) p.

Fixpoint entries_put (es : list entry) (e : entry) : list entry :=
  match es with
  | [] => [e]
  | x :: r => if pat_eqb (e_pat x) (e_pat e) then e :: r else x :: entries_put r e
  end.

Fixpoint groups_put (gs : list group) (d : nat) (e : entry) : list group :=
  match gs with
  | [] => [(d, [e])]
  | (k, es) :: r => if Nat.eqb k d then (k, entries_put es e) :: r else (k, es) :: groups_put r d e
  end.

Fixpoint entries_remove (es : list entry) (p : pat) : list entry :=
  match es with
  | [] => []
  | x :: r => if pat_eqb (e_pat x) p then r else x :: entries_remove r p
  end.

Fixpoint groups_remove (gs : list group) (d : nat) (p : pat) : list group :=
  match gs with
  | [] => []
  | (k, es) :: r =>
      if Nat.eqb k d then
        match entries_remove es p with
        | [] => r                                       (* if (subTable->IsEmpty()) _entries.Remove(depth) *)
        | es' => (k, es') :: r
        end
      else (k, es) :: groups_remove r d p
  end.

(* PathMatcher::PutPathString(path, optFilter)  (path.HasChars(): a pattern has at least one clause) *)
Definition m_put (m : matcher) (p : pat) (f : option qfilter) : matcher :=
  match p with
  | [] => m
  | _ =>
    let had := match m_get m p with Some e => has_filter e | None => false end in
    let has := match f with Some _ => true | None => false end in
    let nf := if Bool.eqb had has then m_nfilters m
              else if has then (m_nfilters m + 1)%N else (m_nfilters m - 1)%N in
    mkMatcher (groups_put (m_groups m) (length p) (mkEntry p f)) nf
  end.

(* PathMatcher::RemovePathString(wildpath): None = B_DATA_NOT_FOUND *)
Definition m_remove (m : matcher) (p : pat) : option matcher :=
  match m_get m p with
  | None => None
  | Some e =>
      Some (mkMatcher (groups_remove (m_groups m) (length p) p)
                      (if has_filter e then (m_nfilters m - 1)%N else m_nfilters m))
  end.

(* PathMatcher::SetFilterForEntry(path, newFilter) *)
Definition m_set_filter (m : matcher) (p : pat) (f : option qfilter) : matcher :=
  match m_get m p with
  | None => m
  | Some e =>
      let had := has_filter e in
      let has := match f with Some _ => true | None => false end in
      let nf := if Bool.eqb had has then m_nfilters m
                else if has then (m_nfilters m + 1)%N else (m_nfilters m - 1)%N in
      mkMatcher (groups_put (m_groups m) (length p) (mkEntry p f)) nf
  end.

(* PathMatcher::PutPathsFromMessage(keys, filters, msg, prefix): the (path, filter) pairs in field order *)
Definition m_of_list (l : list (pat * option qfilter)) : matcher :=
  fold_left (fun m pf => m_put m (fst pf) (snd pf)) l empty_matcher.

Definition all_entries (m : matcher) : list entry := flat_map snd (m_groups m).

Definition num_groups (m : matcher) : nat := length (m_groups m).          (* GetEntries().GetNumItems() *)
Definition num_entries (m : matcher) : nat := length (all_entries m).

(* ------------------------------------------------------------------ node tests *)

(* NodePathMatcher::PathMatches(node, optData, entry, rootDepth): the entry has exactly depth-rootDepth
   clauses, each matches the corresponding name (walking up from the node), and the filter accepts. *)
Definition path_matches (e : entry) (p : path) (d : option payload) (root_depth : nat) : bool :=
  pat_matches (e_pat e) (skipn root_depth p) && filter_ok (e_flt e) d.

(* NodePathMatcher::MatchesNode *)
Definition matches_node (m : matcher) (p : path) (d : option payload) (root_depth : nat) : bool :=
  if Nat.ltb (length p) root_depth then false
  else existsb (fun e => path_matches e p d root_depth) (group_get (m_groups m) (length p - root_depth)).

(* NodePathMatcher::GetMatchCount *)
Definition match_count (m : matcher) (p : path) (d : option payload) (root_depth : nat) : N :=
  if Nat.ltb (length p) root_depth then 0%N
  else N.of_nat (length (filter (fun e => path_matches e p d root_depth) (group_get (m_groups m) (length p - root_depth)))).

(* PathMatcher::MatchesPath(path, optMessage, optNode): the brute-force test (no tree, no traversal) *)
Definition matches_path (m : matcher) (p : path) (d : option payload) : bool :=
  existsb (fun e => pat_matches (e_pat e) p && filter_ok (e_flt e) d) (group_get (m_groups m) (length p)).

End Matcher.
