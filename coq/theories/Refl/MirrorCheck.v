(* Refl/MirrorCheck.v -- boolean tests of the premises of mirror_converges_partial, for examples and witnesses. *)
From Coq Require Import List NArith ZArith Bool Arith Lia.
From Muscle Require Import Gen.Consts Refl.Base Refl.BaseProofs Refl.Tree Refl.Matcher Refl.MatcherProofs Refl.Traverse
     Refl.Session Refl.Server Refl.ServerProofs Refl.RefcountProofs Refl.Mirror Refl.MirrorSubscribe Refl.MirrorCmd Refl.MirrorFrame Refl.MirrorProofs.
Import ListNotations.

Section Check.
Context {M : MatchOps} {L : MatchLaws M}.
Variable fx : fixes.

Fixpoint nodup_b (l : list pat) : bool :=
  match l with [] => true | p :: r => negb (existsb (pat_eqb p) r) && nodup_b r end.

Lemma nodup_b_spec : forall l, nodup_b l = true -> NoDup l.
Proof.
  induction l as [|p l IH]; intros H; [constructor|]. cbn in H. apply andb_true_iff in H as [H1 H2].
  constructor; [|now apply IH]. intros Hin. apply negb_true_iff in H1.
  assert (existsb (pat_eqb p) l = true); [|congruence]. apply existsb_exists. exists p. split; auto. apply pat_eqb_refl.
Qed.

Fixpoint cmd_subs_ok_b (c : cmd) : bool :=
  match c with
  | CSubscribe _ subs => nodup_b (fixed subs) && forallb (fun p => match p with [] => false | _ => true end) (fixed subs)
  | CBatch l => forallb cmd_subs_ok_b l
  | _ => true
  end.

Lemma cmd_subs_ok_b_spec : forall c, cmd_subs_ok_b c = true -> cmd_subs_ok c.
Proof.
  induction c using cmd_ind'; intros Hb; cbn [cmd_subs_ok cmd_subs_ok_b] in *; try exact I.
  - apply andb_true_iff in Hb as [H1 H2]. split; [now apply nodup_b_spec|].
    intros p Hp. rewrite forallb_forall in H2. specialize (H2 p Hp). destruct p; discriminate.
  - revert Hb. induction H as [|c l Hc Hl IHl]; intros Hb; [exact I|].
    cbn [forallb] in Hb. apply andb_true_iff in Hb as [H1 H2]. split; [now apply Hc|now apply IHl].
Qed.

Definition is_unsub (c : cmd) : bool := match c with CUnsubscribe _ => true | _ => false end.

Definition ev_ok_b (o : sid) (ev : event) : bool :=
  match ev with ECmd b c => cmd_loud_for (N.eqb b o) c && Nat.leb (cmd_depth c) max_batch_nest | _ => true end.

(* splitting a BATCH: the longest prefix of tail commands, then the longest prefix of plain commands, and the rest *)
Fixpoint take_b (f : cmd -> bool) (l : list cmd) : list cmd :=
  match l with [] => [] | c :: r => if f c then c :: take_b f r else [] end.
Fixpoint drop_b (f : cmd -> bool) (l : list cmd) : list cmd :=
  match l with [] => [] | c :: r => if f c then drop_b f r else l end.

Lemma take_drop_b : forall f l, l = take_b f l ++ drop_b f l.
Proof. intros f. induction l as [|c l IH]; cbn; [reflexivity|]. destruct (f c); cbn; [now rewrite <- IH|reflexivity]. Qed.

Lemma take_b_all : forall f l, forallb f (take_b f l) = true.
Proof. intros f. induction l as [|c l IH]; cbn; [reflexivity|]. destruct (f c) eqn:E; cbn; [now rewrite E|reflexivity]. Qed.

(* BATCH: tail commands, then plain commands, then tail commands; an unsubscribe among them *)
Definition batch_tail_b (c : cmd) : bool :=
  match c with
  | CBatch l => forallb tail_cmd (drop_b cmd_plain (drop_b tail_cmd l)) && snd (client_cmd empty_matcher c)
  | _ => false
  end.

(* a sufficient test of ev_clean that does not look at the state: no explicit GETDATA at all (cmd_covered itself compares
   filters, which MatchOps does not make decidable) *)
Definition ev_clean_b (o : sid) (ev : event) : bool :=
  match ev with
  | ECmd b c => if N.eqb b o then cmd_subs_ok_b c && (cmd_plain c || is_unsub c || batch_tail_b c) else true
  | _ => true
  end.

(* ev_ok_b tests the strict form (cmd_loud_for): it does not look at the state *)
Lemma ev_ok_b_one : forall o ev w, ev_ok_b o ev = true -> ev_ok o w ev.
Proof.
  intros o ev w H1. destruct ev; cbn in *; auto. apply andb_true_iff in H1 as [Ha Hb]. split; [now left|now apply Nat.leb_le].
Qed.

Lemma ev_clean_b_one : forall o ev w, ev_clean_b o ev = true -> ev_clean o w ev.
Proof.
  intros o ev w H1.
  destruct ev as [| |b c]; cbn [ev_clean ev_clean_b] in *; auto. intros E. subst b. rewrite N.eqb_refl in H1.
  apply andb_true_iff in H1 as [Ha Hb]. split; [now apply cmd_subs_ok_b_spec|].
  apply orb_true_iff in Hb as [Hb|Hb]; [apply orb_true_iff in Hb as [Hb|Hb]|].
  - left. split; [now apply nounsub_of_plain|]. intros ss _. now apply covered_of_plain.
  - right. left. destruct c; try discriminate. eauto.
  - right. right. destruct c as [| | | | | | |l]; try discriminate. cbn [batch_tail_b] in Hb.
    apply andb_true_iff in Hb as [Hb1 Hb2].
    exists (take_b tail_cmd l), (take_b cmd_plain (drop_b tail_cmd l)), (drop_b cmd_plain (drop_b tail_cmd l)).
    split; [f_equal; rewrite <- take_drop_b; apply take_drop_b|].
    split; [exact Hb2|]. split; [apply take_b_all|].
    pose proof (take_b_all cmd_plain (drop_b tail_cmd l)) as Hpp.
    split; [|split; [exact Hb1|]].
    + rewrite forallb_forall in *. intros x Hx. apply nounsub_of_plain. now apply Hpp.
    + intros ss _. apply covered_of_plain. exact Hpp.
Qed.

Lemma ok_wrun_b_spec : forall o evs w, forallb (ev_ok_b o) evs = true -> forallb (ev_clean_b o) evs = true -> ok_wrun fx o w evs.
Proof.
  intros o. induction evs as [|ev evs IH]; intros w H H'; [exact I|]. cbn [forallb] in H, H'.
  apply andb_true_iff in H as [H1 H2]. apply andb_true_iff in H' as [H3 H4].
  split; [now apply ev_ok_b_one|split; [now apply ev_clean_b_one|now apply IH]].
Qed.

Fixpoint wf_wrun_b (w : world) (evs : list event) : bool :=
  match evs with
  | [] => true
  | ev :: r => wf_event_b (w_srv w) ev && wf_wrun_b (world_step fx w ev) r
  end.

Lemma wf_wrun_b_spec : forall evs w, wf_wrun_b w evs = true -> wf_wrun fx w evs.
Proof.
  induction evs as [|ev evs IH]; intros w H; cbn [wf_wrun_b wf_wrun] in *; auto.
  apply andb_true_iff in H as [H1 H2]. split; [|now apply IH].
  destruct ev as [s host nm|s|s c]; cbn [wf_event wf_event_b] in *; auto.
  intros ss Hin E. rewrite forallb_forall in H1. specialize (H1 ss Hin).
  apply negb_true_iff in H1. apply path_eqb_neq in H1. contradiction.
Qed.

(* all premises of mirror_converges_partial at once *)
Definition premises_b (evs : list event) (o : sid) : bool :=
  wf_wrun_b empty_world evs && forallb (ev_ok_b o) evs && forallb (ev_clean_b o) evs
  && N.ltb (N.of_nat (run_budget evs)) 2147483647.

Lemma premises_b_spec : forall evs o, premises_b evs o = true ->
  wf_wrun fx empty_world evs /\ ok_wrun fx o empty_world evs /\ small (run_budget evs).
Proof.
  intros evs o H. unfold premises_b in H. repeat (apply andb_true_iff in H as [H ?]).
  split; [now apply wf_wrun_b_spec|split; [now apply ok_wrun_b_spec|]].
  unfold small. now apply N.ltb_lt.
Qed.

End Check.
