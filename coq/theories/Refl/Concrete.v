(* Refl/Concrete.v -- a small concrete instance of the matching operations (with its laws proved), used for
   the non-vacuity Examples of the C04 theorems and for the witnesses of the *_refuted lemmas.
   Clauses: "*" | a literal name | a comma list of literal names | a wildcard clause given by the set of names
   it matches (how "j*" behaves over the names of an example); filters: "v > k". *)
From Coq Require Import List NArith ZArith Bool Arith Lia.
From Muscle Require Import Refl.Base Refl.BaseProofs.
Import ListNotations.

Inductive cclause := CAny | CLit (k : N) | COneOf (ks : list N) | CWild (ks : list N).

Fixpoint ln_eqb (a b : list N) : bool :=
  match a, b with
  | [], [] => true
  | x :: a', y :: b' => N.eqb x y && ln_eqb a' b'
  | _, _ => false
  end.

Lemma ln_eqb_eq : forall a b, ln_eqb a b = true <-> a = b.
Proof.
  induction a as [|x a IH]; intros b; destruct b as [|y b]; cbn; split; intros H; try congruence; auto.
  - apply andb_true_iff in H as [H1 H2]. apply N.eqb_eq in H1. apply IH in H2. congruence.
  - inversion H; subst. rewrite N.eqb_refl. cbn. now apply IH.
Qed.

Definition cclause_eqb (a b : cclause) : bool :=
  match a, b with
  | CAny, CAny => true
  | CLit x, CLit y => N.eqb x y
  | COneOf x, COneOf y => ln_eqb x y
  | CWild x, CWild y => ln_eqb x y
  | _, _ => false
  end.

Definition mem_N (k : N) (l : list N) : bool := existsb (N.eqb k) l.

Lemma mem_N_spec : forall k l, mem_N k l = true <-> In k l.
Proof.
  intros k l. unfold mem_N. rewrite existsb_exists. split.
  - intros [x [H1 H2]]. apply N.eqb_eq in H2. now subst.
  - intros H. exists k. split; auto. apply N.eqb_refl.
Qed.

Definition cclause_match (c : cclause) (k : name) : bool :=
  match c with
  | CAny => true
  | CLit x => N.eqb k x
  | COneOf l => mem_N k l
  | CWild l => mem_N k l
  end.

Definition cclause_keys (c : cclause) : option (list name) :=
  match c with
  | CAny => None
  | CLit x => Some [x]
  | COneOf l => Some l
  | CWild _ => None
  end.

#[export] Instance concrete_ops : MatchOps := {
  clause := cclause;
  clause_eqb := cclause_eqb;
  cmatch := cclause_match;
  ckeys := cclause_keys;
  cstar := CAny;
  qfilter := N;
  fmatch := fun k v => N.ltb k v
}.

#[export] Instance concrete_laws : MatchLaws concrete_ops.
Proof.
  constructor.
  - intros a b. destruct a, b; cbn; split; intros H; try congruence; auto.
    + apply N.eqb_eq in H. congruence.
    + inversion H. apply N.eqb_refl.
    + apply ln_eqb_eq in H. congruence.
    + inversion H. now apply ln_eqb_eq.
    + apply ln_eqb_eq in H. congruence.
    + inversion H. now apply ln_eqb_eq.
  - reflexivity.
  - intros c ks H k. destruct c; cbn in *; try discriminate; inversion H; subst.
    + rewrite N.eqb_eq. split; [intros ->; now left|intros [E|[]]; auto].
    + apply mem_N_spec.
Qed.
