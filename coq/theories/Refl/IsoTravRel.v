(* Refl/IsoTravRel.v -- C06: the traversal of Refl/Traverse.v is parametric in its callback.
   Two callbacks that return the same depth on every node drive the traversal through the same control flow, so any relation
   between their accumulators that every pair of callback calls preserves, holds between the results.  Consequence: a
   traversal with a "continue" callback [continue_cb f] is the fold of f over the list of visited nodes ([visits]). *)
From Coq Require Import List NArith ZArith Bool Arith Lia.
From Muscle Require Import Refl.Base Refl.Tree Refl.Matcher Refl.Traverse Refl.IsoBase.
Import ListNotations.

Section TravRel.
Context {M : MatchOps}.
Variables A B : Type.
Variable cb1 : A -> node -> A * Z.
Variable cb2 : B -> node -> B * Z.
Variable t : tree.
Variable m : matcher.
Variable root_depth : nat.
Variable use_filters guard_fixed : bool.
Variable R : A -> B -> Prop.

Hypothesis Hcb : forall a b n, R a b -> R (fst (cb1 a n)) (fst (cb2 b n)) /\ snd (cb1 a n) = snd (cb2 b n).

Definition rec_rel (rec1 : path -> A -> A * Z) (rec2 : path -> B -> B * Z) : Prop :=
  forall p a b, R a b -> R (fst (rec1 p a)) (fst (rec2 p b)) /\ snd (rec1 p a) = snd (rec2 p b).

Lemma check_entries_rel : forall rec1 rec2 child rel known es idx matched recursed a b,
  rec_rel rec1 rec2 -> R a b ->
  R (fst (check_entries A cb1 m root_depth use_filters guard_fixed rec1 child rel known es idx matched recursed a))
    (fst (check_entries B cb2 m root_depth use_filters guard_fixed rec2 child rel known es idx matched recursed b)) /\
  snd (check_entries A cb1 m root_depth use_filters guard_fixed rec1 child rel known es idx matched recursed a) =
  snd (check_entries B cb2 m root_depth use_filters guard_fixed rec2 child rel known es idx matched recursed b).
Proof.
  intros rec1 rec2 child rel known es. induction es as [|e es IH]; intros idx matched recursed a b Hrec HR; cbn; [now split|].
  destruct (_ || _).
  - destruct (Nat.eqb _ _).
    + destruct matched; [now apply IH|].
      destruct (_ || _); [|now apply IH].
      destruct (Hcb a b child HR) as [H1 H2].
      destruct (cb1 a child) as [a1 d1], (cb2 b child) as [b1 d2]. cbn in H1, H2. subst d2.
      destruct (Z.ltb _ _); [now split|]. destruct recursed; [now split|]. now apply IH.
    + destruct recursed; [now apply IH|].
      destruct (Hrec (n_path child) a b HR) as [H1 H2].
      destruct (rec1 (n_path child) a) as [a1 d1], (rec2 (n_path child) b) as [b1 d2]. cbn in H1, H2. subst d2.
      destruct (Z.ltb _ _); [now split|]. destruct matched; [now split|]. now apply IH.
  - now apply IH.
Qed.

Lemma iter_children_rel : forall rec1 rec2 rel cs a b,
  rec_rel rec1 rec2 -> R a b ->
  R (fst (iter_children A cb1 m root_depth use_filters guard_fixed rec1 rel cs a))
    (fst (iter_children B cb2 m root_depth use_filters guard_fixed rec2 rel cs b)) /\
  snd (iter_children A cb1 m root_depth use_filters guard_fixed rec1 rel cs a) =
  snd (iter_children B cb2 m root_depth use_filters guard_fixed rec2 rel cs b).
Proof.
  intros rec1 rec2 rel cs. induction cs as [|c cs IH]; intros a b Hrec HR; cbn; [now split|].
  unfold check_child.
  destruct (check_entries_rel rec1 rec2 c rel None (active m rel) 0 false false a b Hrec HR) as [H1 H2].
  destruct (check_entries A cb1 _ _ _ _ rec1 c rel None _ 0 false false a) as [a1 o1],
           (check_entries B cb2 _ _ _ _ rec2 c rel None _ 0 false false b) as [b1 o2].
  cbn in H1, H2. subst o2. destruct o1; [now split|]. now apply IH.
Qed.

Lemma lookup_keys_rel : forall rec1 rec2 x rel idx ks did a b,
  rec_rel rec1 rec2 -> R a b ->
  R (fst (fst (lookup_keys A cb1 t m root_depth use_filters guard_fixed rec1 x rel idx ks did a)))
    (fst (fst (lookup_keys B cb2 t m root_depth use_filters guard_fixed rec2 x rel idx ks did b))) /\
  snd (fst (lookup_keys A cb1 t m root_depth use_filters guard_fixed rec1 x rel idx ks did a)) =
  snd (fst (lookup_keys B cb2 t m root_depth use_filters guard_fixed rec2 x rel idx ks did b)) /\
  snd (lookup_keys A cb1 t m root_depth use_filters guard_fixed rec1 x rel idx ks did a) =
  snd (lookup_keys B cb2 t m root_depth use_filters guard_fixed rec2 x rel idx ks did b).
Proof.
  intros rec1 rec2 x rel idx ks. induction ks as [|k ks IH]; intros did a b Hrec HR; cbn; [now repeat split|].
  destruct (get_child t x k) as [c|]; [|now apply IH].
  destruct (path_mem (n_path c) did); [now apply IH|].
  unfold check_child.
  destruct (check_entries_rel rec1 rec2 c rel (Some idx) (active m rel) 0 false false a b Hrec HR) as [H1 H2].
  destruct (check_entries A cb1 _ _ _ _ rec1 c rel (Some idx) _ 0 false false a) as [a1 o1],
           (check_entries B cb2 _ _ _ _ rec2 c rel (Some idx) _ 0 false false b) as [b1 o2].
  cbn in H1, H2. subst o2. destruct o1; [now repeat split|]. now apply IH.
Qed.

Lemma lookup_entries_rel : forall rec1 rec2 x rel es idx did a b,
  rec_rel rec1 rec2 -> R a b ->
  R (fst (lookup_entries A cb1 t m root_depth use_filters guard_fixed rec1 x rel es idx did a))
    (fst (lookup_entries B cb2 t m root_depth use_filters guard_fixed rec2 x rel es idx did b)) /\
  snd (lookup_entries A cb1 t m root_depth use_filters guard_fixed rec1 x rel es idx did a) =
  snd (lookup_entries B cb2 t m root_depth use_filters guard_fixed rec2 x rel es idx did b).
Proof.
  intros rec1 rec2 x rel es. induction es as [|e es IH]; intros idx did a b Hrec HR; cbn; [now split|].
  match goal with |- context [lookup_keys A cb1 t m root_depth use_filters guard_fixed rec1 x rel idx ?ks did a] =>
    destruct (lookup_keys_rel rec1 rec2 x rel idx ks did a b Hrec HR) as [H1 [H2 H3]];
    destruct (lookup_keys A cb1 t m root_depth use_filters guard_fixed rec1 x rel idx ks did a) as [[a1 did1] o1],
             (lookup_keys B cb2 t m root_depth use_filters guard_fixed rec2 x rel idx ks did b) as [[b1 did2] o2] end.
  cbn in H1, H2, H3. subst did2 o2. destruct o1; [now split|]. now apply IH.
Qed.

Lemma trav_rel : forall fuel,
  rec_rel (trav A cb1 t m root_depth use_filters guard_fixed fuel) (trav B cb2 t m root_depth use_filters guard_fixed fuel).
Proof.
  induction fuel as [|f IH]; intros x a b HR; cbn; [now split|].
  destruct (existsb _ _).
  - match goal with |- context [iter_children A cb1 m root_depth use_filters guard_fixed ?r1 ?rel ?cs a] =>
      destruct (iter_children_rel r1 (trav B cb2 t m root_depth use_filters guard_fixed f) rel cs a b IH HR) as [H1 H2];
      destruct (iter_children A cb1 m root_depth use_filters guard_fixed r1 rel cs a) as [a1 o1] end.
    destruct (iter_children B cb2 _ _ _ _ _ _ _ b) as [b1 o2]. cbn in H1, H2. subst o2. destruct o1; now split.
  - match goal with |- context [lookup_entries A cb1 t m root_depth use_filters guard_fixed ?r1 x ?rel ?es 0 [] a] =>
      destruct (lookup_entries_rel r1 (trav B cb2 t m root_depth use_filters guard_fixed f) x rel es 0 [] a b IH HR) as [H1 H2];
      destruct (lookup_entries A cb1 t m root_depth use_filters guard_fixed r1 x rel es 0 [] a) as [a1 o1] end.
    destruct (lookup_entries B cb2 _ _ _ _ _ _ _ _ _ _ _ b) as [b1 o2]. cbn in H1, H2. subst o2. destruct o1; now split.
Qed.

End TravRel.

(* a traversal whose callback always continues is the fold of the callback's effect over the visited nodes, in visiting order *)
Lemma do_traversal_fold : forall {M : MatchOps} (A : Type) (f : A -> node -> A) t m root uf gf acc,
  do_traversal (continue_cb f) t m root uf gf acc = fold_left f (visits t m root uf gf) acc.
Proof.
  intros M A f t m root uf gf acc. unfold visits, do_traversal.
  pose proof (trav_rel A (list node) (continue_cb f) (continue_cb (fun l n => n :: l)) t m (length root) uf gf
                (fun a l => a = fold_left f (rev l) acc)) as H.
  assert (Hcb : forall a b n, a = fold_left f (rev b) acc ->
            fst (continue_cb f a n) = fold_left f (rev (fst (continue_cb (fun l n0 => n0 :: l) b n))) acc /\
            snd (continue_cb f a n) = snd (continue_cb (fun l n0 => n0 :: l) b n)).
  { intros a b n Ha. unfold continue_cb. cbn. split; [|reflexivity]. rewrite fold_left_app. cbn. now rewrite Ha. }
  destruct (H Hcb (S (max_clauses m)) root acc [] eq_refl) as [H1 _]. exact H1.
Qed.
