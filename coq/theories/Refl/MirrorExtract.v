(* Extraction of the reflector server / mirror model for the C04 correspondence run (ExtrOcamlBasic only). *)
From Coq Require Import ExtrOcamlBasic.
From Coq Require Extraction.
From Coq Require Import NArith ZArith List.
From Muscle Require Import Gen.Consts Refl.Base Refl.Tree Refl.Matcher Refl.Traverse Refl.Session Refl.Server Refl.Mirror Refl.Params.
Definition dump_fuel : nat := S (N.to_nat c_MUSCLE_MAX_NODE_DEPTH).
Extraction "mirror_model.ml" world_step pworld_step empty_pworld pw_world empty_world all_fixed as_found dfs dump_fuel sv_tree sv_sessions
  w_srv w_clients w_last matches_path expected own_path visits mirror_get.
