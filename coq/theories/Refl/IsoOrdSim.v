(* Refl/IsoOrdSim.v -- C06, as-if-never with ordered children (model: Refl/IsoOrd.v): the simulation of Refl/IsoAsIf.v
   extended to the ordered indices and name counters.  The run with s and the run without it generate the same child names,
   build the same indices and keep the same counters everywhere outside s's subtree. *)
From Coq Require Import List NArith ZArith Bool Arith Lia Permutation.
From Muscle Require Import Gen.Consts Refl.Base Refl.BaseProofs Refl.Tree Refl.TreeProofs Refl.Matcher Refl.MatcherProofs
     Refl.Traverse Refl.TraverseProofs Refl.TraverseTheorems Refl.Session Refl.Server Refl.ServerProofs
     Refl.IsoModel Refl.IsoBase Refl.IsoTrav Refl.IsoFrame Refl.IsoSimBase Refl.IsoSimTrav Refl.IsoSim Refl.IsoDetach Refl.IsoRun
     Refl.IsoClean Refl.IsoHosts Refl.IsoNever Refl.IsoKick Refl.IsoAsIf Refl.IsoOrd Refl.IsoOrdProofs.
Import ListNotations.

(* ------------------------------------------------------------------ tables seen without the entries below a directory *)

Definition vis_tbl {A : Type} (od : option path) (tb : list (path * A)) : list (path * A) :=
  filter (fun e => negb (hidden od (fst e))) tb.

Lemma vis_idx_get : forall od (ix : itbl) p, hidden od p = false -> idx_get (vis_tbl od ix) p = idx_get ix p.
Proof.
  intros od ix p Hp. induction ix as [|e r IH]; [reflexivity|]. unfold vis_tbl in *. cbn [filter idx_get].
  destruct (path_eqb (fst e) p) eqn:E.
  - apply path_eqb_eq in E. rewrite E, Hp. cbn [negb idx_get]. rewrite E. now rewrite (proj2 (path_eqb_eq p p) eq_refl).
  - destruct (negb (hidden od (fst e))); [cbn [idx_get]; rewrite E|]; exact IH.
Qed.

Lemma vis_ctr_get : forall od (ct : ctbl) p, hidden od p = false -> ctr_get (vis_tbl od ct) p = ctr_get ct p.
Proof.
  intros od ct p Hp. induction ct as [|e r IH]; [reflexivity|]. unfold vis_tbl in *. cbn [filter ctr_get].
  destruct (path_eqb (fst e) p) eqn:E.
  - apply path_eqb_eq in E. rewrite E, Hp. cbn [negb ctr_get]. rewrite E. now rewrite (proj2 (path_eqb_eq p p) eq_refl).
  - destruct (negb (hidden od (fst e))); [cbn [ctr_get]; rewrite E|]; exact IH.
Qed.

Lemma vis_idx_set : forall od (ix : itbl) p l, hidden od p = false -> vis_tbl od (idx_set ix p l) = idx_set (vis_tbl od ix) p l.
Proof.
  intros od ix p l Hp. unfold vis_tbl, idx_set. rewrite filter_app, filter_comm. f_equal.
  destruct l; [reflexivity|]. cbn [filter fst]. now rewrite Hp.
Qed.

Lemma vis_ctr_set : forall od (ct : ctbl) p c, hidden od p = false -> vis_tbl od (ctr_set ct p c) = ctr_set (vis_tbl od ct) p c.
Proof.
  intros od ct p c Hp. unfold vis_tbl, ctr_set. rewrite filter_app, filter_comm. f_equal.
  destruct (N.eqb c 0); [reflexivity|]. cbn [filter fst]. now rewrite Hp.
Qed.

Lemma vis_idx_set_hidden : forall od (ix : itbl) p l, hidden od p = true -> vis_tbl od (idx_set ix p l) = vis_tbl od ix.
Proof.
  intros [d|] ix p l Hp; [|discriminate]. exact (idx_out_set_inside d ix p l Hp).
Qed.

Lemma vis_ctr_set_hidden : forall od (ct : ctbl) p c, hidden od p = true -> vis_tbl od (ctr_set ct p c) = vis_tbl od ct.
Proof.
  intros [d|] ct p c Hp; [|discriminate]. exact (ctr_out_set_inside d ct p c Hp).
Qed.

Lemma vis_tbl_none : forall (A : Type) (tb : list (path * A)), vis_tbl None tb = tb.
Proof. intros. unfold vis_tbl. apply filter_id. reflexivity. Qed.

Lemma vis_prune_idx : forall od t ix, vis_tbl od (prune_idx t ix) = prune_idx t (vis_tbl od ix).
Proof.
  intros [d|] t ix; [exact (idx_out_prune d t ix)|]. now rewrite !vis_tbl_none.
Qed.

Lemma vis_prune_ctr : forall od t ct, vis_tbl od (prune_ctr t ct) = prune_ctr t (vis_tbl od ct).
Proof.
  intros [d|] t ct; [exact (ctr_out_prune d t ct)|]. now rewrite !vis_tbl_none.
Qed.

Lemma prune_idx_ext : forall t t' ix,
  (forall e, In e ix -> has_node t' (fst e) = has_node t (fst e) /\ forall k, has_node t' (fst e ++ [k]) = has_node t (fst e ++ [k])) ->
  prune_idx t' ix = prune_idx t ix.
Proof.
  intros t t' ix H. unfold prune_idx. f_equal.
  assert (Hf : filter (fun e : path * list name => has_node t' (fst e)) ix = filter (fun e => has_node t (fst e)) ix)
    by (apply filter_ext_in; intros e He; apply (H e He)).
  rewrite Hf. apply map_ext_in. intros e He. apply filter_In in He as [He _]. f_equal. apply filter_ext. intros k. apply (H e He).
Qed.

Lemma prune_ctr_ext : forall t t' (ct : ctbl), (forall e, In e ct -> has_node t' (fst e) = has_node t (fst e)) -> prune_ctr t' ct = prune_ctr t ct.
Proof. intros t t' ct H. unfold prune_ctr. now apply filter_ext_in. Qed.

Lemma hidden_child : forall od p k, (forall d, od = Some d -> length d = 2) -> 2 <= length p -> hidden od p = false -> hidden od (p ++ [k]) = false.
Proof.
  intros [d|] p k Hd Hp Hh; [|reflexivity]. cbn [hidden] in *.
  pose proof (out_child d p k (Hd d eq_refl) Hp) as H. unfold out in H. rewrite Hh in H. specialize (H eq_refl). now apply negb_true_iff in H.
Qed.

(* pruning on the two sides *)
Lemma prune_idx_sim : forall s od tF tE ix, rel_tree s od tF tE -> (forall d, od = Some d -> length d = 2) -> deep ix ->
  vis_tbl od (prune_idx tF ix) = prune_idx tE (vis_tbl od ix).
Proof.
  intros s od tF tE ix R Hd D. rewrite vis_prune_idx. symmetry. apply prune_idx_ext. intros e He. unfold vis_tbl in He.
  apply filter_In in He as [He Hv]. apply negb_true_iff in Hv. pose proof (D e He) as Hl. split.
  - now apply (rel_has_node s od).
  - intros k. apply (rel_has_node s od); [exact R|rewrite app_length; cbn; lia|now apply hidden_child].
Qed.

Lemma prune_ctr_sim : forall s od tF tE (ct : ctbl), rel_tree s od tF tE -> deep ct ->
  vis_tbl od (prune_ctr tF ct) = prune_ctr tE (vis_tbl od ct).
Proof.
  intros s od tF tE ct R D. rewrite vis_prune_ctr. symmetry. apply prune_ctr_ext. intros e He. unfold vis_tbl in He.
  apply filter_In in He as [He Hv]. apply negb_true_iff in Hv. now apply (rel_has_node s od); [|apply D|].
Qed.

(* ------------------------------------------------------------------ the same nodes are visited, the same names generated *)

Section Plans.
Context {M : MatchOps}.
Variable iname : N -> name.
Variable s : sid.

Lemma visits_paths_sim : forall od tF tE m root uf gf, rel_tree s od tF tE -> root <> [] ->
  (forall r, hidden od (root ++ r) = false) ->
  map n_path (visits tE m root uf gf) = map n_path (visits tF m root uf gf).
Proof.
  intros od tF tE m root uf gf R Hr Hv.
  set (g := fun (acc : list path) (n : node) => n_path n :: acc).
  assert (Hfold : forall t, do_traversal (continue_cb g) t m root uf gf [] = rev (map n_path (visits t m root uf gf))).
  { intros t. unfold do_traversal. rewrite trav_continue, visits_V. cbn [fst].
    generalize (V t m (length root) uf gf (S (max_clauses m)) root). intros l.
    assert (G : forall acc, fold_left g l acc = rev (map n_path l) ++ acc).
    { induction l as [|x l IH]; intros acc; cbn [fold_left map rev]; [reflexivity|]. rewrite IH. unfold g. cbn [app]. now rewrite <- app_assoc. }
    rewrite G. apply app_nil_r. }
  assert (H2 : do_traversal (continue_cb g) tE m root uf gf [] = do_traversal (continue_cb g) tF m root uf gf []).
  { apply (do_traversal_two _ (continue_cb g) tF tE _ _ _ _ s).
    - intros acc n. unfold continue_cb, g, depth. now rewrite strip_path.
    - intros x Hx. apply (rel_children s od); [exact R| |].
      + apply is_prefix_spec in Hx as [r Hr']. rewrite Hr'. destruct root; [congruence|discriminate].
      + intros k. apply is_prefix_spec in Hx as [r Hr']. rewrite Hr', <- app_assoc. apply Hv.
    - intros x k Hx. apply (rel_get_child s od); [exact R| |].
      + apply is_prefix_spec in Hx as [r Hr']. rewrite Hr'. destruct root; [congruence|discriminate].
      + apply is_prefix_spec in Hx as [r Hr']. rewrite Hr', <- app_assoc. apply Hv. }
  rewrite !Hfold in H2. apply (f_equal (@rev path)) in H2. now rewrite !rev_involutive in H2.
Qed.

Lemma gen_name_ext : forall t t' pp fuel c, (forall k, has_node t' (pp ++ [k]) = has_node t (pp ++ [k])) ->
  gen_name iname t' pp c fuel = gen_name iname t pp c fuel.
Proof. intros t t' pp fuel. induction fuel as [|f IH]; intros c H; cbn [gen_name]; [reflexivity|]. rewrite H. now rewrite IH. Qed.

Lemma plan_names_sim : forall od tF tE pp c items, rel_tree s od tF tE -> 2 <= length pp ->
  (forall r, hidden od (pp ++ r) = false) ->
  plan_names iname tE pp c items = plan_names iname tF pp c items.
Proof.
  intros od tF tE pp c items R Hl Hv. revert c. induction items as [|it r IH]; intros c; cbn [plan_names]; [reflexivity|].
  assert (Hc : children tE pp = map (strip s) (children tF pp)).
  { apply (rel_children s od); [exact R|destruct pp; [cbn in Hl; lia|discriminate]|intros k; apply Hv]. }
  rewrite Hc, map_length.
  rewrite (gen_name_ext tF tE pp (S (length (children tF pp))) c).
  - now rewrite IH.
  - intros k. apply (rel_has_node s od); [exact R|rewrite app_length; cbn; lia|apply Hv].
Qed.

End Plans.

(* ------------------------------------------------------------------ commands: unfolding, budget, invariants *)

Section OSim.
Context {M : MatchOps} {L : MatchLaws M}.
Variable fx : fixes.
Hypothesis guard_on : fx_guard fx = true.
Variable iname : N -> name.
Variable s : sid.

Notation oserver := (@oserver M).

Lemma ohandle_unfold : forall nest (os : oserver) t c,
  ohandle fx iname nest os t c =
  match get_session (xs_sv (o_x os)) t with
  | None => os
  | Some ss =>
    match c with
    | OX xc => oprune (mkO (xhandle fx nest (o_x os) t xc) (o_idx os) (o_ctr os))
    | OInsert key items => do_insert fx iname nest os ss key items
    | OReorder fields => do_reorder fx os ss fields
    | OSetIdx flags items => do_set_idx fx nest os ss flags items
    | OBatch l => if Nat.ltb nest max_batch_nest
                  then fold_left (fun os0 c' => opush (ohandle fx iname (S nest) os0 t c')) l os
                  else os
    end
  end.
Proof.
  intros nest os t c. destruct nest, c; cbn [ohandle]; destruct (get_session (xs_sv (o_x os)) t); try reflexivity;
    (destruct (Nat.ltb _ _); [|reflexivity]); revert os; induction l as [|c' r IH]; intros os; cbn [fold_left]; auto.
Qed.

Fixpoint obudget (c : ocmd) : nat :=
  match c with
  | OX xc => xcmd_budget xc
  | OBatch l => (fix sum (l : list ocmd) : nat := match l with [] => 0 | c' :: r => obudget c' + sum r end) l
  | _ => 0
  end.

Fixpoint osum (l : list ocmd) : nat := match l with [] => 0 | c' :: r => obudget c' + osum r end.

Lemma obudget_batch : forall l, obudget (OBatch l) = osum l.
Proof. induction l as [|c l IH]; [reflexivity|]. cbn [osum]. rewrite <- IH. reflexivity. Qed.

Definition oev_budget (ev : oevent) : nat := match ev with OCmd _ c => obudget c | _ => 0 end.
Fixpoint orun_budget (evs : list oevent) : nat := match evs with [] => 0 | ev :: r => oev_budget ev + orun_budget r end.

Lemma ohandle_inv : forall c nest (os : oserver) t B, small (B + obudget c) -> inv B (xs_sv (o_x os)) ->
  inv (B + obudget c) (xs_sv (o_x (ohandle fx iname nest os t c))).
Proof.
  induction c as [xc|k i|f|fl i|l IHl] using ocmd_ind'; intros nest os t B HB I; rewrite ohandle_unfold;
    (destruct (get_session (xs_sv (o_x os)) t) as [a|] eqn:Ha; [|apply (inv_weaken B); [lia|exact I]]).
  - cbn [oprune o_x obudget]. now apply (xhandle_inv fx guard_on).
  - unfold do_insert. cbv zeta. cbn [oprune o_x obudget].
    match goal with |- inv _ (xs_sv (xhandle fx nest _ _ ?c)) => pose proof (xhandle_inv fx guard_on c nest (o_x os) (s_id a) B) as H end.
    cbn [xcmd_budget] in H. apply H; [exact HB|exact I].
  - unfold do_reorder. cbv zeta. cbn [oprune o_x obudget]. apply (inv_weaken B); [lia|exact I].
  - unfold do_set_idx. cbn [oprune o_x obudget]. rewrite Nat.add_0_r in *. clear Ha. revert os I.
    induction i as [|it i IH]; intros os I; cbn [fold_left]; [exact I|]. apply IH. unfold set_idx_item. cbv zeta. cbn [o_x].
    match goal with |- inv _ (xs_sv (xhandle fx nest _ _ ?c)) => pose proof (xhandle_inv fx guard_on c nest (o_x os) (s_id a) B) as H end.
    cbn [xcmd_budget] in H. rewrite Nat.add_0_r in H. now apply H.
  - rewrite obudget_batch in *. destruct (Nat.ltb nest max_batch_nest); [|apply (inv_weaken B); [lia|exact I]].
    clear Ha. revert os B HB I. induction IHl as [|c l Hc _ IHl']; intros os B HB I; cbn [fold_left osum] in *.
    + now rewrite Nat.add_0_r.
    + rewrite Nat.add_assoc. apply IHl'; [now rewrite <- Nat.add_assoc|]. unfold opush. cbn [o_x xs_sv with_sv].
      eapply inv_same_core; [apply push_all_core|]. apply Hc; [|exact I]. eapply small_le; [|exact HB]. lia.
Qed.

(* a command keeps host nodes and session names in order *)
Lemma ohandle_keeps : forall c nest (os : oserver) t, ok os ->
  (hosts_ok (xs_sv (o_x os)) -> hosts_ok (xs_sv (o_x (opush (ohandle fx iname nest os t c))))) /\
  (names_ok (xs_sv (o_x os)) -> names_ok (xs_sv (o_x (opush (ohandle fx iname nest os t c))))) /\
  sdir s (xs_sv (o_x (opush (ohandle fx iname nest os t c)))) = sdir s (xs_sv (o_x os)) /\
  sdir s (xs_sv (o_x (ohandle fx iname nest os t c))) = sdir s (xs_sv (o_x os)).
Proof.
  intros c nest os t Hok.
  destruct (get_session (xs_sv (o_x os)) t) as [a|] eqn:Ha.
  - pose proof (ohandle_frame fx iname c nest os t a Ha Hok) as F1.
    pose proof (opush_frame t (session_dir a) _ (proj2 (proj2 (proj2 F1)))) as F2.
    pose proof (oframe_trans _ _ _ _ _ F1 F2) as F12.
    destruct F12 as [[Fr _] _]. destruct F1 as [[Fr1 _] _]. split; [|split; [|split]].
    + intros H. apply (hosts_ok_frame (xs_sv (o_x os)) _ t (session_dir a)); [reflexivity|exact Fr|exact H].
    + intros H. apply (names_ok_idents (xs_sv (o_x os))); [exact (proj2 (proj2 Fr))|exact H].
    + apply (sdir_idents s). exact (proj2 (proj2 Fr)).
    + apply (sdir_idents s). exact (proj2 (proj2 Fr1)).
  - rewrite ohandle_unfold, Ha. unfold opush. cbn [o_x xs_sv with_sv].
    assert (Hi : idents (push_all (xs_sv (o_x os))) = idents (xs_sv (o_x os))) by (apply all_params_idents; apply (proj2 (push_all_same _))).
    split; [|split; [|split]].
    + intros H. eapply hosts_ok_same_state; [apply push_all_same|exact H].
    + intros H. now apply (names_ok_idents (xs_sv (o_x os))).
    + now apply (sdir_idents s).
    + reflexivity.
Qed.

(* ------------------------------------------------------------------ the relation, and pruning on both sides *)

Definition orel (OF OE : oserver) : Prop :=
  xrel s (o_x OF) (o_x OE) /\
  vis_tbl (sdir s (xs_sv (o_x OF))) (o_idx OF) = o_idx OE /\
  vis_tbl (sdir s (xs_sv (o_x OF))) (o_ctr OF) = o_ctr OE /\
  ok OF /\ ok OE.

Lemma sdir_len : forall F d, sdir s F = Some d -> length d = 2.
Proof. intros F d H. unfold sdir in H. destruct (get_session F s); [|discriminate]. cbn in H. injection H as <-. reflexivity. Qed.

Lemma oprune_sim : forall xF xE ixF ctF, rel s (xs_sv xF) (xs_sv xE) -> deep ixF -> deep ctF ->
  let od := sdir s (xs_sv xF) in
  let OF' := oprune (mkO xF ixF ctF) in
  let OE' := oprune (mkO xE (vis_tbl od ixF) (vis_tbl od ctF)) in
  vis_tbl od (o_idx OF') = o_idx OE' /\ vis_tbl od (o_ctr OF') = o_ctr OE' /\ ok OF' /\ ok OE'.
Proof.
  intros xF xE ixF ctF [R _] D1 D2 od OF' OE'. unfold OF', OE', oprune. cbn [o_x o_idx o_ctr]. split; [|split; [|split]].
  - apply (prune_idx_sim s); [exact R|apply sdir_len|exact D1].
  - apply (prune_ctr_sim s); [exact R|exact D2].
  - now apply (oprune_ok (mkO xF ixF ctF)).
  - apply (oprune_ok (mkO xE _ _)); cbn [o_idx o_ctr]; intros e He; unfold vis_tbl in He; apply filter_In in He as [He _]; [now apply D1|now apply D2].
Qed.

Lemma fold_sim : forall (A X Y : Type) (Rl : X -> Y -> Prop) (fF : X -> A -> X) (fE : Y -> A -> Y) (l : list A) x y,
  (forall a x y, In a l -> Rl x y -> Rl (fF x a) (fE y a)) -> Rl x y -> Rl (fold_left fF l x) (fold_left fE l y).
Proof.
  intros A X Y Rl fF fE l. induction l as [|a l IH]; intros x y H H0; cbn [fold_left]; [exact H0|].
  apply IH; [intros; apply H; [now right|assumption]|]. apply H; [now left|exact H0].
Qed.

Lemma fold_left_map : forall (A B X : Type) (f : X -> B -> X) (g : A -> B) l x,
  fold_left (fun a n => f a (g n)) l x = fold_left f (map g l) x.
Proof. intros A B X f g l. induction l as [|a l IH]; intros x; cbn; [reflexivity|]. apply IH. Qed.

Lemma fold_left_ext_in : forall (A X : Type) (f g : X -> A -> X) l x, (forall a x, In a l -> f x a = g x a) -> fold_left f l x = fold_left g l x.
Proof.
  intros A X f g l. induction l as [|a l IH]; intros x H; cbn [fold_left]; [reflexivity|].
  rewrite (H a x (or_introl eq_refl)). apply IH. intros; apply H; now right.
Qed.

Lemma fold_deep : forall (A X : Type) (f : list (path * X) -> A -> list (path * X)) l tb,
  (forall a tb, In a l -> deep tb -> deep (f tb a)) -> deep tb -> deep (fold_left f l tb).
Proof.
  intros A X f l. induction l as [|a l IH]; intros tb H D; cbn [fold_left]; [exact D|].
  apply IH; [intros; apply H; [now right|assumption]|]. apply H; [now left|exact D].
Qed.

Lemma xhandle_sdir : forall c nest xs t a, get_session (xs_sv xs) t = Some a -> sdir s (xs_sv (xhandle fx nest xs t c)) = sdir s (xs_sv xs).
Proof.
  intros c nest xs t a Ha. apply (sdir_idents s). exact (proj2 (proj2 (proj1 (xhandle_xframe fx c nest xs t a Ha)))).
Qed.

(* the paths a traversal from t's directory visits, on both sides *)
Lemma visit_paths_sim : forall B F E t a a' key, inv B F -> rel s F E -> t <> s ->
  get_session F t = Some a -> sparams a' = sparams a ->
  visit_paths fx (sv_tree E) a' key = visit_paths fx (sv_tree F) a key.
Proof.
  intros B F E t a a' key IF [R _] Ht Ha Hp. unfold visit_paths.
  apply sparams_parts in Hp as [_ [H2 [H3 _]]].
  assert (Hd : session_dir a' = session_dir a) by (unfold session_dir; now rewrite H2, H3). rewrite Hd.
  apply (visits_paths_sim s (sdir s F)); [exact R|discriminate|]. now apply (other_dir_visible s B F t a).
Qed.

Lemma do_insert_sim : forall nest (OF OE : oserver) a a' key items t B, small B ->
  inv B (xs_sv (o_x OF)) -> inv B (xs_sv (o_x OE)) -> hosts_ok (xs_sv (o_x OF)) -> hosts_ok (xs_sv (o_x OE)) -> names_ok (xs_sv (o_x OF)) ->
  orel OF OE -> t <> s -> get_session (xs_sv (o_x OF)) t = Some a -> get_session (xs_sv (o_x OE)) t = Some a' ->
  orel (do_insert fx iname nest OF a key items) (do_insert fx iname nest OE a' key items).
Proof.
  intros nest OF OE a a' key items t B HB IF IE HF HE NF [X [HI [HC [KF KE]]]] Ht Ha Ha'.
  pose proof X as [R _]. pose proof R as [R1 R2].
  pose proof (rel_get_session s _ _ t R2 Ht) as Hg. rewrite Ha, Ha' in Hg.
  pose proof (sparams_parts _ _ Hg) as [G1 [G2 [G3 _]]].
  assert (Hd : session_dir a' = session_dir a) by (unfold session_dir; now rewrite G2, G3).
  pose proof (get_session_id _ _ _ Ha) as Hida.
  set (od := sdir s (xs_sv (o_x OF))) in *.
  assert (Hv : forall r, hidden od (session_dir a ++ r) = false) by now apply (other_dir_visible s B _ t a).
  assert (Hps : visit_paths fx (sv_tree (xs_sv (o_x OE))) a' key = visit_paths fx (sv_tree (xs_sv (o_x OF))) a key)
    by now apply (visit_paths_sim B _ _ t).
  unfold do_insert. cbv zeta. rewrite Hps, Hd, G1.
  set (ps := visit_paths fx (sv_tree (xs_sv (o_x OF))) a key).
  assert (Hbelow : forall p, In p ps -> 2 <= length p /\ forall r, hidden od (p ++ r) = false).
  { intros p Hp. apply visit_paths_below in Hp as [r [Hr ->]]. split; [rewrite app_length, session_dir_len; lia|].
    intros r'. rewrite <- app_assoc. apply Hv. }
  (* the same plans *)
  assert (Hplans : map (fun p => (p, plan_names iname (sv_tree (xs_sv (o_x OE))) p (ctr_get (o_ctr OE) p) items)) ps =
                   map (fun p => (p, plan_names iname (sv_tree (xs_sv (o_x OF))) p (ctr_get (o_ctr OF) p) items)) ps).
  { apply map_ext_in. intros p Hp. destruct (Hbelow p Hp) as [Hl Hvp]. f_equal.
    rewrite <- HC, vis_ctr_get by (rewrite <- (app_nil_r p); apply Hvp).
    now apply (plan_names_sim iname s od). }
  rewrite Hplans.
  set (plans := map (fun p => (p, plan_names iname (sv_tree (xs_sv (o_x OF))) p (ctr_get (o_ctr OF) p) items)) ps).
  assert (Hpl : forall pl : plan, In pl plans -> 2 <= length (fst pl) /\ forall r, hidden od (fst pl ++ r) = false).
  { intros pl Hpl. unfold plans in Hpl. apply in_map_iff in Hpl as [p [<- Hp]]. cbn [fst]. now apply Hbelow. }
  match goal with |- orel (oprune (mkO (xhandle fx nest _ _ ?c) _ _)) _ => set (sc := c) end.
  assert (HB0 : small (B + xcmd_budget sc)) by (unfold sc; cbn [xcmd_budget]; now rewrite Nat.add_0_r).
  pose proof (xhandle_sim fx guard_on s sc nest (o_x OF) (o_x OE) t B HB0 IF IE HF HE NF X Ht) as X'.
  rewrite <- Hida in X'.
  set (xF' := xhandle fx nest (o_x OF) (s_id a) sc) in *. set (xE' := xhandle fx nest (o_x OE) (s_id a) sc) in *.
  assert (Hsd : sdir s (xs_sv xF') = od) by (unfold xF'; rewrite Hida; now apply (xhandle_sdir sc nest (o_x OF) t a)).
  pose proof (proj1 X') as R'. pose proof (proj1 R') as R1'. rewrite Hsd in R1'.
  (* the tables *)
  match goal with |- orel (oprune (mkO _ ?I ?C)) (oprune (mkO _ ?I2 ?C2)) => set (ixF' := I); set (ctF' := C); set (ixE' := I2); set (ctE' := C2) end.
  assert (HI' : vis_tbl od ixF' = ixE').
  { unfold ixF', ixE'. apply (fold_sim plan itbl itbl (fun x y => vis_tbl od x = y)); [|exact HI].
    intros pl x y Hin Hxy. destruct (Hpl pl Hin) as [Hl Hvp].
    assert (Hvis : hidden od (fst pl) = false) by (rewrite <- (app_nil_r (fst pl)); apply Hvp).
    rewrite vis_idx_set by exact Hvis. rewrite Hxy. f_equal. rewrite <- Hxy, vis_idx_get by exact Hvis.
    apply fold_left_ext_in. intros e l0 _.
    rewrite (rel_has_node s od (sv_tree (xs_sv xF')) (sv_tree (xs_sv xE')) (fst pl ++ [fst (fst e)]) R1'); [reflexivity| |apply Hvp].
    rewrite app_length. cbn. lia. }
  assert (HC' : vis_tbl od ctF' = ctE').
  { unfold ctF', ctE'. apply (fold_sim plan ctbl ctbl (fun x y => vis_tbl od x = y)); [|exact HC].
    intros pl x y Hin Hxy. destruct (Hpl pl Hin) as [Hl Hvp].
    rewrite vis_ctr_set by (rewrite <- (app_nil_r (fst pl)); apply Hvp). now rewrite Hxy. }
  assert (DI : deep ixF').
  { unfold ixF'. apply fold_deep; [|apply KF]. intros pl tb Hin D. apply deep_idx_set; [exact D|apply (Hpl pl Hin)]. }
  assert (DC : deep ctF').
  { unfold ctF'. apply fold_deep; [|apply KF]. intros pl tb Hin D. apply deep_ctr_set; [exact D|apply (Hpl pl Hin)]. }
  destruct (oprune_sim xF' xE' ixF' ctF' R' DI DC) as [P1 [P2 [P3 P4]]]. cbv zeta in P1, P2, P3, P4. rewrite Hsd, HI', HC' in *.
  split; [exact X'|]. cbn [oprune o_x]. rewrite Hsd. split; [exact P1|]. split; [exact P2|]. split; [exact P3|exact P4].
Qed.

Lemma reorder_one_ext : forall t t' l parent nm b, (forall k, has_node t' (parent ++ [k]) = has_node t (parent ++ [k])) ->
  reorder_one t' l parent nm b = reorder_one t l parent nm b.
Proof. intros t t' l parent nm b H. unfold reorder_one. destruct b as [k|]; [now rewrite H|reflexivity]. Qed.

Lemma do_reorder_sim : forall (OF OE : oserver) a a' fields t B,
  inv B (xs_sv (o_x OF)) -> orel OF OE -> t <> s ->
  get_session (xs_sv (o_x OF)) t = Some a -> get_session (xs_sv (o_x OE)) t = Some a' ->
  orel (do_reorder fx OF a fields) (do_reorder fx OE a' fields).
Proof.
  intros OF OE a a' fields t B IF [X [HI [HC [KF KE]]]] Ht Ha Ha'.
  pose proof X as [R _]. pose proof R as [R1 R2].
  pose proof (rel_get_session s _ _ t R2 Ht) as Hg. rewrite Ha, Ha' in Hg.
  set (od := sdir s (xs_sv (o_x OF))) in *.
  assert (Hv : forall r, hidden od (session_dir a ++ r) = false) by now apply (other_dir_visible s B _ t a).
  unfold do_reorder. cbv zeta.
  match goal with |- orel (oprune (mkO _ ?I _)) (oprune (mkO _ ?I2 _)) => set (ixF' := I); set (ixE' := I2) end.
  assert (Hstep : forall (f : spath * option name) x y, vis_tbl od x = y ->
            vis_tbl od (fold_left (reorder_at (sv_tree (xs_sv (o_x OF))) (snd f)) (visit_paths fx (sv_tree (xs_sv (o_x OF))) a (fst f, None)) x) =
            fold_left (reorder_at (sv_tree (xs_sv (o_x OE))) (snd f)) (visit_paths fx (sv_tree (xs_sv (o_x OE))) a' (fst f, None)) y).
  { intros f x y Hxy. rewrite (visit_paths_sim B _ _ t a a' (fst f, None) IF R Ht Ha Hg).
    apply (fold_sim path itbl itbl (fun x y => vis_tbl od x = y)); [|exact Hxy].
    intros p x0 y0 Hp H0. apply visit_paths_below in Hp as [r [Hr ->]]. unfold reorder_at. cbv zeta.
    rewrite removelast_app_ne by exact Hr.
    assert (Hvis : hidden od (session_dir a ++ removelast r) = false) by apply Hv.
    rewrite vis_idx_set by exact Hvis. rewrite H0. f_equal. rewrite <- H0, vis_idx_get by exact Hvis.
    symmetry. apply reorder_one_ext. intros k. apply (rel_has_node s od); [exact R1| |rewrite <- app_assoc; apply Hv].
    rewrite !app_length, session_dir_len. cbn. lia. }
  assert (HI' : vis_tbl od ixF' = ixE').
  { unfold ixF', ixE'. apply (fold_sim _ itbl itbl (fun x y => vis_tbl od x = y)); [|exact HI]. intros f x y _ Hxy. now apply Hstep. }
  assert (DI : deep ixF').
  { unfold ixF'. apply fold_deep; [|apply KF]. intros f tb _ D. apply fold_deep; [|exact D]. intros p tb0 Hp D0.
    now apply (proj2 (reorder_at_inside fx _ (snd f) a (fst f, None) p tb0 Hp)). }
  destruct (oprune_sim (o_x OF) (o_x OE) ixF' (o_ctr OF) R DI (proj1 (proj2 KF))) as [P1 [P2 [P3 P4]]]. cbv zeta in P1, P2, P3, P4.
  fold od in P1, P2, P3, P4. rewrite HI', HC in *.
  split; [exact X|]. cbn [oprune o_x]. fold od. split; [exact P1|]. split; [exact P2|]. split; [exact P3|exact P4].
Qed.

Lemma opush_sim : forall OF OE : oserver, orel OF OE -> orel (opush OF) (opush OE).
Proof.
  intros OF OE [X [HI [HC [KF KE]]]]. pose proof X as [R [P [D K]]].
  assert (Hsd : sdir s (xs_sv (o_x (opush OF))) = sdir s (xs_sv (o_x OF))).
  { unfold opush. cbn [o_x xs_sv with_sv]. apply (sdir_params s). apply (proj2 (push_all_same _)). }
  split; [|rewrite Hsd; split; [exact HI|split; [exact HC|]]].
  - unfold opush. cbn [o_x]. split; [|split; [exact P|split; [exact D|exact K]]]. cbn [xs_sv with_sv].
    eapply rel_same_state; [apply push_all_same|apply push_all_same|exact R].
  - split; [exact (proj2 (proj2 (proj2 (opush_frame s [] OF KF))))|exact (proj2 (proj2 (proj2 (opush_frame s [] OE KE))))].
Qed.

(* SETDATA with ADDTOINDEX on both sides, item by item *)
Definition item_rel (B : nat) (t : sid) (dirT : path) (od : option path) (OF OE : oserver) : Prop :=
  xrel s (o_x OF) (o_x OE) /\ vis_tbl od (o_idx OF) = o_idx OE /\ vis_tbl od (o_ctr OF) = o_ctr OE /\
  deep (o_idx OF) /\ deep (o_ctr OF) /\
  inv B (xs_sv (o_x OF)) /\ inv B (xs_sv (o_x OE)) /\ hosts_ok (xs_sv (o_x OF)) /\ hosts_ok (xs_sv (o_x OE)) /\ names_ok (xs_sv (o_x OF)) /\
  sdir s (xs_sv (o_x OF)) = od /\
  (exists aF, get_session (xs_sv (o_x OF)) t = Some aF /\ session_dir aF = dirT) /\
  (exists aE, get_session (xs_sv (o_x OE)) t = Some aE /\ session_dir aE = dirT).

Lemma set_idx_item_sim : forall nest a a' flags t B od OF OE it, small B -> t <> s ->
  s_id a = t -> s_id a' = t -> session_dir a' = session_dir a ->
  item_rel B t (session_dir a) od OF OE ->
  item_rel B t (session_dir a) od (set_idx_item fx nest a flags OF it) (set_idx_item fx nest a' flags OE it).
Proof.
  intros nest a a' flags t B od OF OE it HB Ht Hia Hia' Hd (X & HI & HC & DI & DC & IF & IE & HF & HE & NF & Hod & (aF & HaF & HdF) & (aE & HaE & HdE)).
  assert (Hv : forall r, hidden od (session_dir a ++ r) = false) by (rewrite <- HdF, <- Hod; now apply (other_dir_visible s B _ t aF)).
  unfold set_idx_item. cbv zeta. rewrite Hd, Hia, Hia'.
  set (sc := XSetData (N.setbit flags c_SETDATANODE_FLAG_DONTOVERWRITEDATA) [it]).
  assert (HB0 : small (B + xcmd_budget sc)) by (unfold sc; cbn [xcmd_budget]; now rewrite Nat.add_0_r).
  pose proof (xhandle_sim fx guard_on s sc nest (o_x OF) (o_x OE) t B HB0 IF IE HF HE NF X Ht) as X'.
  set (xF' := xhandle fx nest (o_x OF) t sc) in *. set (xE' := xhandle fx nest (o_x OE) t sc) in *.
  assert (Hsd : sdir s (xs_sv xF') = od) by (rewrite <- Hod; now apply (xhandle_sdir sc nest (o_x OF) t aF)).
  pose proof (proj1 (proj1 X')) as R1'. rewrite Hsd in R1'. pose proof (proj1 (proj1 X)) as R1. rewrite Hod in R1.
  set (p := session_dir a ++ snd (fst it)).
  assert (Hlp : 2 <= length p) by (unfold p; rewrite app_length, session_dir_len; lia).
  assert (Hn0 : has_node (sv_tree (xs_sv (o_x OE))) p = has_node (sv_tree (xs_sv (o_x OF))) p) by (apply (rel_has_node s od); [exact R1|exact Hlp|apply Hv]).
  assert (Hn1 : has_node (sv_tree (xs_sv xE')) p = has_node (sv_tree (xs_sv xF')) p) by (apply (rel_has_node s od); [exact R1'|exact Hlp|apply Hv]).
  rewrite Hn0, Hn1.
  pose proof (xhandle_xframe fx sc nest (o_x OF) t aF HaF) as FrF. pose proof (xhandle_xframe fx sc nest (o_x OE) t aE HaE) as FrE.
  fold xF' in FrF. fold xE' in FrE.
  assert (I0 : forall B0, B0 + 0 = B0) by (intros; lia).
  split; [exact X'|]. cbn [o_x o_idx o_ctr]. split; [|split; [exact HC|split; [|split; [exact DC|]]]].
  - destruct (_ && has_node (sv_tree (xs_sv xF')) p); [|exact HI].
    rewrite vis_idx_set by apply Hv. rewrite HI. f_equal. f_equal. rewrite <- HI. symmetry. apply vis_idx_get, Hv.
  - destruct (_ && has_node (sv_tree (xs_sv xF')) p); [|exact DI]. apply deep_idx_set; [exact DI|]. rewrite app_length, session_dir_len. lia.
  - split; [pose proof (xhandle_inv fx guard_on sc nest (o_x OF) t B HB0 IF) as H; unfold sc in H; cbn [xcmd_budget] in H; now rewrite I0 in H|].
    split; [pose proof (xhandle_inv fx guard_on sc nest (o_x OE) t B HB0 IE) as H; unfold sc in H; cbn [xcmd_budget] in H; now rewrite I0 in H|].
    split; [apply (hosts_ok_frame (xs_sv (o_x OF)) _ t (session_dir aF)); [reflexivity|exact (proj1 FrF)|exact HF]|].
    split; [apply (hosts_ok_frame (xs_sv (o_x OE)) _ t (session_dir aE)); [reflexivity|exact (proj1 FrE)|exact HE]|].
    split; [apply (names_ok_idents (xs_sv (o_x OF))); [exact (proj2 (proj2 (proj1 FrF)))|exact NF]|].
    split; [exact Hsd|]. split.
    + pose proof (proj2 (proj2 (proj1 FrF))) as Hid. destruct (get_session (xs_sv xF') t) as [a2|] eqn:H2.
      * exists a2. split; [reflexivity|]. destruct (idents_session_dir _ _ t aF a2 Hid HaF H2) as [_ H3]. congruence.
      * pose proof (idents_get_none _ _ t Hid H2). congruence.
    + pose proof (proj2 (proj2 (proj1 FrE))) as Hid. destruct (get_session (xs_sv xE') t) as [a2|] eqn:H2.
      * exists a2. split; [reflexivity|]. destruct (idents_session_dir _ _ t aE a2 Hid HaE H2) as [_ H3]. congruence.
      * pose proof (idents_get_none _ _ t Hid H2). congruence.
Qed.

Lemma do_set_idx_sim : forall nest (OF OE : oserver) a a' flags items t B, small B ->
  inv B (xs_sv (o_x OF)) -> inv B (xs_sv (o_x OE)) -> hosts_ok (xs_sv (o_x OF)) -> hosts_ok (xs_sv (o_x OE)) -> names_ok (xs_sv (o_x OF)) ->
  orel OF OE -> t <> s -> get_session (xs_sv (o_x OF)) t = Some a -> get_session (xs_sv (o_x OE)) t = Some a' ->
  orel (do_set_idx fx nest OF a flags items) (do_set_idx fx nest OE a' flags items).
Proof.
  intros nest OF OE a a' flags items t B HB IF IE HF HE NF [X [HI [HC [KF KE]]]] Ht Ha Ha'.
  pose proof (rel_get_session s _ _ t (proj2 (proj1 X)) Ht) as Hg. rewrite Ha, Ha' in Hg.
  pose proof (sparams_parts _ _ Hg) as [G1 [G2 [G3 _]]].
  assert (Hd : session_dir a' = session_dir a) by (unfold session_dir; now rewrite G2, G3).
  pose proof (get_session_id _ _ _ Ha) as Hia. pose proof (get_session_id _ _ _ Ha') as Hia'.
  set (od := sdir s (xs_sv (o_x OF))).
  assert (Q0 : item_rel B t (session_dir a) od OF OE).
  { split; [exact X|]. split; [exact HI|]. split; [exact HC|]. split; [apply KF|]. split; [apply KF|].
    repeat (split; [assumption|]). split; [reflexivity|]. split; [now exists a|now exists a']. }
  assert (Q : item_rel B t (session_dir a) od (fold_left (set_idx_item fx nest a flags) items OF) (fold_left (set_idx_item fx nest a' flags) items OE)).
  { clear Ha Ha' X HI HC KF KE IF IE HF HE NF Hg. clearbody od. revert OF OE Q0.
    induction items as [|it items IH]; intros OF OE Q0; cbn [fold_left]; [exact Q0|].
    apply IH. now apply (set_idx_item_sim nest a a' flags t B). }
  destruct Q as (X' & HI' & HC' & DI' & DC' & _ & _ & _ & _ & _ & Hsd & _).
  unfold do_set_idx.
  set (F1 := fold_left (set_idx_item fx nest a flags) items OF) in *. set (E1 := fold_left (set_idx_item fx nest a' flags) items OE) in *.
  destruct (oprune_sim (o_x F1) (o_x E1) (o_idx F1) (o_ctr F1) (proj1 X') DI' DC') as [P1 [P2 [P3 P4]]]. cbv zeta in P1, P2, P3, P4.
  rewrite Hsd, HI', HC' in *.
  replace (mkO (o_x F1) (o_idx F1) (o_ctr F1)) with F1 in * by (destruct F1; reflexivity).
  replace (mkO (o_x E1) (o_idx E1) (o_ctr E1)) with E1 in * by (destruct E1; reflexivity).
  split; [exact X'|]. cbn [oprune o_x]. rewrite Hsd. split; [exact P1|]. split; [exact P2|]. split; [exact P3|exact P4].
Qed.

Theorem ohandle_sim : forall c nest (OF OE : oserver) t B, small (B + obudget c) ->
  inv B (xs_sv (o_x OF)) -> inv B (xs_sv (o_x OE)) -> hosts_ok (xs_sv (o_x OF)) -> hosts_ok (xs_sv (o_x OE)) -> names_ok (xs_sv (o_x OF)) ->
  orel OF OE -> t <> s -> orel (ohandle fx iname nest OF t c) (ohandle fx iname nest OE t c).
Proof.
  induction c as [xc|k i|f|fl i|l IHl] using ocmd_ind'; intros nest OF OE t B HB IF IE HF HE NF O Ht; rewrite !ohandle_unfold;
    pose proof O as [X [HI [HC [KF KE]]]]; pose proof X as [R _];
    pose proof (rel_get_session s _ _ t (proj2 R) Ht) as Hg;
    (destruct (get_session (xs_sv (o_x OF)) t) as [a|] eqn:Ha; destruct (get_session (xs_sv (o_x OE)) t) as [a'|] eqn:Ha'; try contradiction; [|exact O]).
  - cbn [obudget] in HB. pose proof (xhandle_sim fx guard_on s xc nest (o_x OF) (o_x OE) t B HB IF IE HF HE NF X Ht) as X'.
    pose proof (xhandle_sdir xc nest (o_x OF) t a Ha) as Hsd.
    destruct (oprune_sim (xhandle fx nest (o_x OF) t xc) (xhandle fx nest (o_x OE) t xc) (o_idx OF) (o_ctr OF) (proj1 X') (proj1 KF) (proj1 (proj2 KF)))
      as [P1 [P2 [P3 P4]]]. cbv zeta in P1, P2, P3, P4. rewrite Hsd, HI, HC in *.
    split; [exact X'|]. cbn [oprune o_x]. rewrite Hsd. split; [exact P1|]. split; [exact P2|]. split; [exact P3|exact P4].
  - cbn [obudget] in HB. rewrite Nat.add_0_r in HB. now apply (do_insert_sim nest OF OE a a' k i t B).
  - now apply (do_reorder_sim OF OE a a' f t B).
  - cbn [obudget] in HB. rewrite Nat.add_0_r in HB. now apply (do_set_idx_sim nest OF OE a a' fl i t B).
  - rewrite obudget_batch in HB. destruct (Nat.ltb nest max_batch_nest); [|exact O].
    clear Ha Ha' Hg R X HI HC KF KE. revert OF OE B HB IF IE HF HE NF O.
    induction IHl as [|c l Hc _ IHl']; intros OF OE B HB IF IE HF HE NF O; cbn [fold_left osum] in *; [exact O|].
    assert (HBc : small (B + obudget c)) by (eapply small_le; [|exact HB]; lia).
    pose proof (Hc (S nest) OF OE t B HBc IF IE HF HE NF O Ht) as O1.
    pose proof O as [_ [_ [_ [KF KE]]]].
    destruct (ohandle_keeps c (S nest) OF t KF) as [KF1 [KF2 _]]. destruct (ohandle_keeps c (S nest) OE t KE) as [KE1 _].
    apply (IHl' _ _ (B + obudget c)).
    + now rewrite <- Nat.add_assoc.
    + unfold opush. cbn [o_x xs_sv with_sv]. eapply inv_same_core; [apply push_all_core|]. now apply ohandle_inv.
    + unfold opush. cbn [o_x xs_sv with_sv]. eapply inv_same_core; [apply push_all_core|]. now apply ohandle_inv.
    + now apply KF1.
    + now apply KE1.
    + now apply KF2.
    + now apply opush_sim.
Qed.

(* ------------------------------------------------------------------ where s lives, through arrivals and departures of others *)

Lemma attach_sdir : forall F t host nm, t <> s -> sdir s (attach F t host nm) = sdir s F.
Proof.
  intros F t host nm Ht.
  set (ss := mkSession t host nm empty_matcher default_max_items None []).
  set (F0 := mkServer (sv_tree F) (sv_sessions F ++ [ss]) (sv_dirty F)).
  assert (Hp : all_params (attach F t host nm) = all_params F0).
  { rewrite attach_unfold. cbv zeta. fold ss. rewrite (proj2 (push_all_same _)), (proj2 (notify_changed_same _ _ _ _ _ _)).
    cbn [set_tree sv_sessions all_params].
    change (all_params (with_host (mkServer (sv_tree F) (sv_sessions F ++ [ss]) (sv_dirty F)) t host) = all_params F0).
    now rewrite with_host_params. }
  rewrite (sdir_params s _ _ Hp). unfold sdir, get_session, F0. cbn [sv_sessions]. now rewrite find_session_app_other by exact Ht.
Qed.

Lemma attach_sdir_self : forall F host nm, get_session F s = None -> sdir s (attach F s host nm) = Some [host; nm].
Proof.
  intros F host nm Hs.
  set (ss := mkSession s host nm empty_matcher default_max_items None []).
  set (F0 := mkServer (sv_tree F) (sv_sessions F ++ [ss]) (sv_dirty F)).
  assert (Hp : all_params (attach F s host nm) = all_params F0).
  { rewrite attach_unfold. cbv zeta. fold ss. rewrite (proj2 (push_all_same _)), (proj2 (notify_changed_same _ _ _ _ _ _)).
    cbn [set_tree sv_sessions all_params].
    change (all_params (with_host (mkServer (sv_tree F) (sv_sessions F ++ [ss]) (sv_dirty F)) s host) = all_params F0).
    now rewrite with_host_params. }
  rewrite (sdir_params s _ _ Hp). unfold sdir, get_session, F0. cbn [sv_sessions].
  change s with (s_id ss) at 1. rewrite (find_session_app_new (sv_sessions F) ss) by exact Hs. reflexivity.
Qed.

Lemma detach_sdir : forall F t, t <> s -> sdir s (detach fx F t) = sdir s F.
Proof.
  intros F t Ht. pose proof (detach_params fx F t) as HpF. unfold sdir, get_session.
  pose proof (find_session_params (filter (fun x => negb (N.eqb (s_id x) t)) (sv_sessions F)) (sv_sessions (detach fx F t)) s HpF) as Hc.
  rewrite find_session_filter in Hc by congruence.
  destruct (find_session (sv_sessions F) s) as [x|], (find_session (sv_sessions (detach fx F t)) s) as [y|]; try contradiction; [|reflexivity].
  cbn. apply sparams_parts in Hc as [_ [H2 [H3 _]]]. unfold session_dir. now rewrite H2, H3.
Qed.

Lemma detach_nodes_old : forall B F t n', inv B F -> In n' (sv_tree (detach fx F t)) -> exists n, In n (sv_tree F) /\ n_path n' = n_path n.
Proof.
  intros B F t n' I Hn. destruct (get_session F t) as [a|] eqn:Ha.
  - destruct (detach_rest_untouched fx guard_on B F t a I Ha n' Hn) as [n [H1 [H2 _]]]. now exists n.
  - unfold detach in Hn. rewrite Ha in Hn. now exists n'.
Qed.

(* after the marked sessions are gone, s is where it was -- or gone, with nothing left below its directory *)
Definition moved (F F' : server) : Prop :=
  sdir s F' = sdir s F \/
  (sdir s F' = None /\ forall d n, sdir s F = Some d -> In n (sv_tree F') -> is_prefix d (n_path n) = false).

Lemma detach_all_moved : forall B l F, small B -> inv B F -> moved F (detach_all fx l F).
Proof.
  intros B l F HB I.
  assert (G : forall X, inv B X -> moved F X -> moved F (detach_all fx l X)).
  { induction l as [|t l IH]; intros X IX HX; cbn [detach_all fold_left]; [exact HX|].
    apply IH; [now apply detach_inv|]. destruct (N.eq_dec t s) as [->|Ht].
    - destruct (get_session X s) as [a|] eqn:Ha; [|unfold detach; now rewrite Ha].
      right. split; [unfold sdir; now rewrite (proj1 (detach_sessions fx guard_on B X s a IX Ha))|].
      intros d n Hd Hn. destruct HX as [HX|[HX _]].
      + rewrite <- HX in Hd. unfold sdir in Hd. rewrite Ha in Hd. cbn in Hd. injection Hd as <-.
        exact (detach_subtree_gone fx guard_on B X s a IX Ha n Hn).
      + unfold sdir in HX. rewrite Ha in HX. discriminate.
    - destruct HX as [HX|[HX1 HX2]]; [left; now rewrite detach_sdir|].
      right. split; [now rewrite detach_sdir|]. intros d n Hd Hn.
      destruct (detach_nodes_old B X t n IX Hn) as [n0 [Hn0 Hp]]. rewrite Hp. now apply (HX2 d n0). }
  apply G; [exact I|now left].
Qed.

Lemma prune_idx_dead : forall t (ix : itbl) (f : path * list name -> bool),
  (forall e, In e ix -> f e = false -> has_node t (fst e) = false) -> prune_idx t ix = prune_idx t (filter f ix).
Proof.
  intros t ix f H. unfold prune_idx. do 2 f_equal.
  rewrite (filter_comm _ (fun e : path * list name => has_node t (fst e)) f ix). symmetry. apply filter_id.
  intros e He. apply filter_In in He as [He Hn]. destruct (f e) eqn:E; [reflexivity|]. rewrite (H e He E) in Hn. discriminate.
Qed.

Lemma prune_ctr_dead : forall t (ct : ctbl) (f : path * N -> bool),
  (forall e, In e ct -> f e = false -> has_node t (fst e) = false) -> prune_ctr t ct = prune_ctr t (filter f ct).
Proof.
  intros t ct f H. unfold prune_ctr.
  rewrite (filter_comm _ (fun e : path * N => has_node t (fst e)) f ct). symmetry. apply filter_id.
  intros e He. apply filter_In in He as [He Hn]. destruct (f e) eqn:E; [reflexivity|]. rewrite (H e He E) in Hn. discriminate.
Qed.

(* pruning on both sides when s may just have gone *)
Lemma oprune_sim2 : forall (F0 : server) xF xE ixF ctF, rel s (xs_sv xF) (xs_sv xE) -> deep ixF -> deep ctF -> moved F0 (xs_sv xF) ->
  let od := sdir s F0 in
  let od' := sdir s (xs_sv xF) in
  let OF' := oprune (mkO xF ixF ctF) in
  let OE' := oprune (mkO xE (vis_tbl od ixF) (vis_tbl od ctF)) in
  vis_tbl od' (o_idx OF') = o_idx OE' /\ vis_tbl od' (o_ctr OF') = o_ctr OE' /\ ok OF' /\ ok OE'.
Proof.
  intros F0 xF xE ixF ctF R D1 D2 [Hm|[Hm1 Hm2]] od od' OF' OE'.
  - unfold OF', OE', od', od. rewrite <- Hm. now apply oprune_sim.
  - assert (Hdead : forall p, hidden od p = true -> has_node (sv_tree (xs_sv xF)) p = false).
    { intros p Hp. destruct (has_node (sv_tree (xs_sv xF)) p) eqn:E; [|reflexivity]. apply has_node_spec in E as [n [Hn <-]].
      unfold od in Hp. destruct (sdir s F0) as [d|] eqn:Ed; [|discriminate]. cbn [hidden] in Hp. rewrite (Hm2 d n eq_refl Hn) in Hp. discriminate. }
    assert (R0 : rel_tree s None (sv_tree (xs_sv xF)) (sv_tree (xs_sv xE))) by (rewrite <- Hm1; exact (proj1 R)).
    assert (DV1 : deep (vis_tbl od ixF)) by (intros e He; unfold vis_tbl in He; apply filter_In in He as [He _]; now apply D1).
    assert (DV2 : deep (vis_tbl od ctF)) by (intros e He; unfold vis_tbl in He; apply filter_In in He as [He _]; now apply D2).
    unfold OF', OE', od', oprune. cbn [o_x o_idx o_ctr]. rewrite Hm1, !vis_tbl_none. split; [|split; [|split]].
    + rewrite (prune_idx_dead _ ixF (fun e => negb (hidden od (fst e)))).
      * pose proof (prune_idx_sim s None _ _ (vis_tbl od ixF) R0 ltac:(discriminate) DV1) as H. now rewrite !vis_tbl_none in H.
      * intros e _ He. apply Hdead. now apply negb_false_iff in He.
    + rewrite (prune_ctr_dead _ ctF (fun e => negb (hidden od (fst e)))).
      * pose proof (prune_ctr_sim s None _ _ (vis_tbl od ctF) R0 DV2) as H. now rewrite !vis_tbl_none in H.
      * intros e _ He. apply Hdead. now apply negb_false_iff in He.
    + now apply (oprune_ok (mkO xF ixF ctF)).
    + now apply (oprune_ok (mkO xE _ _)).
Qed.

(* ------------------------------------------------------------------ one turn *)

Lemma clear_ducks_xrel : forall B XF XE, small B -> inv B (xs_sv XF) -> inv B (xs_sv XE) -> xrel s XF XE ->
  xrel s (clear_ducks fx XF) (clear_ducks fx XE).
Proof.
  intros B XF XE HB IF IE [R [P [D K]]].
  destruct (clear_ducks_sim fx guard_on s B XF XE HB IF IE R P D) as [R2 P2].
  split; [exact R2|]. split; [exact P2|]. rewrite !clear_ducks_none. split; [apply duck_rel_nil|].
  unfold nokick_s, clear_ducks. rewrite priv_fold_xdetach. apply (nokick_s_filter s (fun j => negb (sid_mem j (xs_ducks XF)))). exact K.
Qed.

Lemma clear_ducks_moved : forall B X, small B -> inv B (xs_sv X) -> moved (xs_sv X) (xs_sv (clear_ducks fx X)).
Proof. intros B X HB I. unfold clear_ducks. rewrite sv_fold_xdetach. now apply (detach_all_moved B). Qed.

Definition oev_of (ev : oevent) : sid := match ev with OAttach k _ _ _ => k | ODetach k => k | OCmd k _ => k end.

(* the skeleton of an event for the conditions on histories of Refl/IsoRun.v and Refl/IsoAsIf.v *)
Definition xev (ev : oevent) : xevent :=
  match ev with OAttach k h nm b => XAttach k h nm b | ODetach k => XDetach k | OCmd k _ => XCmd k (XBatch []) end.

Definition owf_event (os : oserver) (ev : oevent) : Prop := xwf_event (o_x os) (xev ev).
Definition onm_event (os : oserver) (ev : oevent) : Prop := xnm_event (o_x os) (xev ev).
Definition oev_nokick (ev : oevent) : Prop := ev_nokick s (xev ev).

Fixpoint owf_run (os : oserver) (evs : list oevent) : Prop :=
  match evs with [] => True | ev :: r => owf_event os ev /\ owf_run (ostep fx iname os ev) r end.
Fixpoint onm_run (os : oserver) (evs : list oevent) : Prop :=
  match evs with [] => True | ev :: r => onm_event os ev /\ onm_run (ostep fx iname os ev) r end.

(* what a turn keeps of the dispatcher part *)
Lemma ostep_keeps : forall ev (os : oserver) B, small (B + oev_budget ev) -> inv B (xs_sv (o_x os)) -> ok os -> owf_event os ev ->
  inv (B + oev_budget ev) (xs_sv (o_x (ostep fx iname os ev))) /\
  (hosts_ok (xs_sv (o_x os)) -> hosts_ok (xs_sv (o_x (ostep fx iname os ev)))) /\
  (names_ok (xs_sv (o_x os)) -> onm_event os ev -> names_ok (xs_sv (o_x (ostep fx iname os ev)))) /\
  (xs_ducks (o_x os) = [] -> xs_ducks (o_x (ostep fx iname os ev)) = []).
Proof.
  intros [k h nm b|k|k c] os B HB I Hok Hwf; cbn [ostep oev_budget oprune o_x] in *.
  - split; [|split; [|split]].
    + now apply (xstep_inv fx guard_on (XAttach k h nm b)).
    + intros H. rewrite Nat.add_0_r in HB. apply (hosts_ok_xstep fx guard_on (XAttach k h nm b) (o_x os) B); [now rewrite Nat.add_0_r|exact I|exact H].
    + intros H Hn. now apply (names_ok_xstep fx (XAttach k h nm b)).
    + intros H. now apply (xstep_no_ducks fx (o_x os) (XAttach k h nm b)).
  - split; [|split; [|split]].
    + now apply (xstep_inv fx guard_on (XDetach k)).
    + intros H. apply (hosts_ok_xstep fx guard_on (XDetach k) (o_x os) B); [exact HB|exact I|exact H].
    + intros H Hn. now apply (names_ok_xstep fx (XDetach k)).
    + intros H. now apply (xstep_no_ducks fx (o_x os) (XDetach k)).
  - destruct (get_session (xs_sv (o_x os)) k) as [a|] eqn:Ha.
    + cbv zeta. cbn [oprune o_x].
      assert (I1 : inv (B + obudget c) (xs_sv (o_x (opush (ohandle fx iname 0 os k c))))).
      { unfold opush. cbn [o_x xs_sv with_sv]. eapply inv_same_core; [apply push_all_core|]. now apply ohandle_inv. }
      destruct (ohandle_keeps c 0 os k Hok) as [K1 [K2 _]].
      split; [|split; [|split]].
      * now apply (clear_ducks_inv fx guard_on).
      * intros H. apply (hosts_ok_clear_ducks fx guard_on (B + obudget c)); [exact HB|exact I1|now apply K1].
      * intros H _. apply names_ok_clear_ducks. now apply K2.
      * intros _. apply clear_ducks_none.
    + split; [apply (inv_weaken B); [lia|exact I]|]. split; [auto|]. split; auto.
Qed.

Lemma fresh_dir_empty : forall B F host nm, inv B F -> (forall x, In x (sv_sessions F) -> session_dir x <> [host; nm]) ->
  forall n, In n (sv_tree F) -> is_prefix [host; nm] (n_path n) = false.
Proof.
  intros B F host nm I Hfresh n Hn. destruct (is_prefix [host; nm] (n_path n)) eqn:E0; [|reflexivity]. exfalso.
  apply is_prefix_spec in E0 as [r Hr]. destruct (inv_tree _ _ _ I) as [_ [_ Hpre]].
  destruct (Hpre n [host; nm] r Hn Hr) as [c [Hc1 Hc2]]; [discriminate|].
  destruct (inv_depth2 _ _ _ I c Hc1) as [x [Hx1 Hx2]]; [now rewrite Hc2|]. apply (Hfresh x Hx1). congruence.
Qed.

(* a turn for another session, on both sides *)
Lemma ostep_other : forall ev (OF OE : oserver) B, small (B + oev_budget ev) ->
  inv B (xs_sv (o_x OF)) -> inv B (xs_sv (o_x OE)) -> hosts_ok (xs_sv (o_x OF)) -> hosts_ok (xs_sv (o_x OE)) -> names_ok (xs_sv (o_x OF)) ->
  orel OF OE -> oev_of ev <> s -> owf_event OF ev ->
  orel (ostep fx iname OF ev) (ostep fx iname OE ev).
Proof.
  intros ev OF OE B HB IF IE HF HE NF O Ht Hwf. pose proof O as [X [HI [HC [KF KE]]]].
  assert (G : forall xF' xE', xrel s xF' xE' -> moved (xs_sv (o_x OF)) (xs_sv xF') ->
              orel (oprune (mkO xF' (o_idx OF) (o_ctr OF))) (oprune (mkO xE' (o_idx OE) (o_ctr OE)))).
  { intros xF' xE' X' Hm.
    destruct (oprune_sim2 (xs_sv (o_x OF)) xF' xE' (o_idx OF) (o_ctr OF) (proj1 X') (proj1 KF) (proj1 (proj2 KF)) Hm) as [P1 [P2 [P3 P4]]].
    cbv zeta in P1, P2, P3, P4. rewrite HI, HC in *. split; [exact X'|]. cbn [oprune o_x]. split; [exact P1|]. split; [exact P2|]. split; [exact P3|exact P4]. }
  destruct ev as [t h nm b|t|t c]; cbn [oev_of] in Ht; cbn [ostep].
  - apply G.
    + exact (xstep_other fx guard_on s (XAttach t h nm b) (o_x OF) (o_x OE) B HB IF IE HF HE NF X Ht Hwf).
    + left. cbn [xstep]. destruct (get_session (xs_sv (o_x OF)) t); [reflexivity|]. cbn [xs_sv xattach]. now apply attach_sdir.
  - apply G.
    + exact (xstep_other fx guard_on s (XDetach t) (o_x OF) (o_x OE) B HB IF IE HF HE NF X Ht Hwf).
    + left. cbn [xs_sv xdetach]. now apply detach_sdir.
  - pose proof (rel_get_session s _ _ t (proj2 (proj1 X)) Ht) as Hg.
    destruct (get_session (xs_sv (o_x OF)) t) as [a|] eqn:Ha; destruct (get_session (xs_sv (o_x OE)) t) as [a'|] eqn:Ha'; try contradiction; [|exact O].
    cbv zeta. cbn [oev_budget] in HB.
    pose proof (opush_sim _ _ (ohandle_sim c 0 OF OE t B HB IF IE HF HE NF O Ht)) as O2.
    set (F1 := opush (ohandle fx iname 0 OF t c)) in *. set (E1 := opush (ohandle fx iname 0 OE t c)) in *.
    pose proof O2 as [X2 [HI2 [HC2 [KF2 KE2]]]].
    assert (IF1 : inv (B + obudget c) (xs_sv (o_x F1))).
    { unfold F1, opush. cbn [o_x xs_sv with_sv]. eapply inv_same_core; [apply push_all_core|]. now apply ohandle_inv. }
    assert (IE1 : inv (B + obudget c) (xs_sv (o_x E1))).
    { unfold E1, opush. cbn [o_x xs_sv with_sv]. eapply inv_same_core; [apply push_all_core|]. now apply ohandle_inv. }
    pose proof (clear_ducks_xrel (B + obudget c) (o_x F1) (o_x E1) HB IF1 IE1 X2) as X3.
    pose proof (clear_ducks_moved (B + obudget c) (o_x F1) HB IF1) as Hm.
    destruct (oprune_sim2 (xs_sv (o_x F1)) (clear_ducks fx (o_x F1)) (clear_ducks fx (o_x E1)) (o_idx F1) (o_ctr F1)
                          (proj1 X3) (proj1 KF2) (proj1 (proj2 KF2)) Hm) as [P1 [P2 [P3 P4]]].
    cbv zeta in P1, P2, P3, P4. rewrite HI2, HC2 in *.
    split; [exact X3|]. cbn [oprune o_x]. split; [exact P1|]. split; [exact P2|]. split; [exact P3|exact P4].
Qed.

(* s without PR_PRIVILEGE_KICK marks nobody, whatever it sends *)
Lemma ohandle_self_quiet : forall c nest (os : oserver), nokick_s s (o_x os) ->
  xs_ducks (o_x (ohandle fx iname nest os s c)) = xs_ducks (o_x os) /\ nokick_s s (o_x (ohandle fx iname nest os s c)).
Proof.
  induction c as [xc|k i|f|fl i|l IHl] using ocmd_ind'; intros nest os K; rewrite ohandle_unfold;
    (destruct (get_session (xs_sv (o_x os)) s) as [a|] eqn:Ha; [|now split]).
  - cbn [oprune o_x]. now apply (xhandle_self_quiet fx s).
  - unfold do_insert. cbv zeta. cbn [oprune o_x]. rewrite (get_session_id _ _ _ Ha). now apply (xhandle_self_quiet fx s).
  - unfold do_reorder. cbv zeta. cbn [oprune o_x]. now split.
  - pose proof (get_session_id _ _ _ Ha) as Hida. unfold do_set_idx. cbn [oprune o_x]. clear Ha. revert os K.
    induction i as [|it i IH]; intros os K; cbn [fold_left]; [now split|].
    assert (Hstep : xs_ducks (o_x (set_idx_item fx nest a fl os it)) = xs_ducks (o_x os) /\ nokick_s s (o_x (set_idx_item fx nest a fl os it))).
    { unfold set_idx_item. cbv zeta. cbn [o_x]. rewrite Hida. now apply (xhandle_self_quiet fx s). }
    destruct Hstep as [D1 K1]. destruct (IH _ K1) as [D2 K2]. split; [congruence|exact K2].
  - destruct (Nat.ltb nest max_batch_nest); [|now split]. clear Ha. revert os K.
    induction IHl as [|c l Hc _ IHl']; intros os K; cbn [fold_left]; [now split|].
    destruct (Hc (S nest) os K) as [D1 K1].
    destruct (IHl' (opush (ohandle fx iname (S nest) os s c))) as [D2 K2]; [exact K1|]. split; [|exact K2].
    etransitivity; [exact D2|exact D1].
Qed.

(* a turn for s itself: the erased side stands still *)
Lemma ostep_self : forall ev (OF OE : oserver) B, small B -> inv B (xs_sv (o_x OF)) -> orel OF OE -> xs_ducks (o_x OF) = [] ->
  oev_of ev = s -> owf_event OF ev -> oev_nokick ev -> orel (ostep fx iname OF ev) OE.
Proof.
  intros ev OF OE B HB0 IF O D0 Ht Hwf Hnk. pose proof O as [X [HI [HC [KF KE]]]]. pose proof X as [R [P [D K]]].
  assert (HE0 : oprune OE = OE) by now apply oprune_id.
  destruct ev as [t h nm b|t|t c]; cbn [oev_of] in Ht; subst t; cbn [ostep].
  - (* s arrives *)
    unfold owf_event in Hwf. cbn [xev xwf_event] in Hwf.
    destruct (get_session (xs_sv (o_x OF)) s) as [a|] eqn:Ha.
    + cbn [xstep]. rewrite Ha. replace (mkO (o_x OF) (o_idx OF) (o_ctr OF)) with OF by (destruct OF; reflexivity). now rewrite oprune_id.
    + pose proof (xstep_self fx guard_on s (XAttach s h nm b) (o_x OF) (o_x OE) B IF X D0 eq_refl Hwf Hnk) as X'.
      assert (Hsd : sdir s (xs_sv (o_x OF)) = None) by (unfold sdir; now rewrite Ha). rewrite Hsd, !vis_tbl_none in HI, HC.
      set (xF' := xstep fx (o_x OF) (XAttach s h nm b)) in *.
      assert (Hsd' : sdir s (xs_sv xF') = Some [h; nm]).
      { unfold xF'. cbn [xstep]. rewrite Ha. cbn [xs_sv xattach]. now apply attach_sdir_self. }
      assert (Hvis : forall A (tb : list (path * A)), (forall e, In e tb -> has_node (sv_tree (xs_sv (o_x OF))) (fst e) = true) -> vis_tbl (Some [h; nm]) tb = tb).
      { intros A tb Hs. unfold vis_tbl. apply filter_id. intros e He. apply negb_true_iff. cbn [hidden].
        pose proof (Hs e He) as Hn. apply has_node_spec in Hn as [n [Hn <-]]. now apply (fresh_dir_empty B (xs_sv (o_x OF))). }
      pose proof (proj1 (proj1 X')) as R1'. rewrite Hsd' in R1'.
      split; [exact X'|]. unfold oprune. cbn [o_x o_idx o_ctr]. fold xF'. rewrite Hsd'. split; [|split; [|split; [|exact KE]]].
      * rewrite (prune_idx_sim s (Some [h; nm]) _ _ (o_idx OF) R1'); [|intros d Hd; injection Hd as <-; reflexivity|apply KF].
        rewrite Hvis by (intros e He; apply (proj1 (proj2 (proj2 KF)) e He)). rewrite HI. apply prune_idx_fix. apply KE.
      * rewrite (prune_ctr_sim s (Some [h; nm]) _ _ (o_ctr OF) R1'); [|apply KF].
        rewrite Hvis by (intros e He; apply (proj2 (proj2 (proj2 KF)) e He)). rewrite HC. apply prune_ctr_fix. apply KE.
      * apply (oprune_ok (mkO _ _ _)); apply KF.
  - (* s leaves *)
    pose proof (xstep_self fx guard_on s (XDetach s) (o_x OF) (o_x OE) B IF X D0 eq_refl I I) as X'. cbn [xstep] in X'.
    assert (Hm : moved (xs_sv (o_x OF)) (xs_sv (xdetach fx (o_x OF) s))).
    { cbn [xs_sv xdetach]. exact (detach_all_moved B [s] (xs_sv (o_x OF)) HB0 IF). }
    destruct (oprune_sim2 (xs_sv (o_x OF)) (xdetach fx (o_x OF) s) (o_x OE) (o_idx OF) (o_ctr OF) (proj1 X') (proj1 KF) (proj1 (proj2 KF)) Hm) as [P1 [P2 [P3 P4]]].
    cbv zeta in P1, P2, P3, P4. rewrite HI, HC in *.
    replace (mkO (o_x OE) (o_idx OE) (o_ctr OE)) with OE in * by (destruct OE; reflexivity). rewrite HE0 in *.
    split; [exact X'|]. cbn [oprune o_x]. split; [exact P1|]. split; [exact P2|]. split; [exact P3|exact KE].
  - (* s sends a command *)
    destruct (get_session (xs_sv (o_x OF)) s) as [a|] eqn:Ha; [|exact O]. cbv zeta.
    pose proof (ohandle_frame fx iname c 0 OF s a Ha KF) as F1.
    pose proof (opush_frame s (session_dir a) _ (proj2 (proj2 (proj2 F1)))) as F2.
    pose proof (oframe_trans _ _ _ _ _ F1 F2) as F12.
    destruct (ohandle_self_quiet c 0 OF K) as [Dk Kk].
    set (F1' := opush (ohandle fx iname 0 OF s c)) in *.
    assert (Hd1 : xs_ducks (o_x F1') = []) by (unfold F1', opush; cbn [o_x xs_ducks with_sv]; congruence).
    rewrite clear_ducks_nil by exact Hd1.
    replace (mkO (o_x F1') (o_idx F1') (o_ctr F1')) with F1' by (destruct F1'; reflexivity).
    destruct F12 as [[Fr [Pr _]] [FI [FC Fok]]]. rewrite oprune_id by exact Fok.
    assert (Hsd : sdir s (xs_sv (o_x OF)) = Some (session_dir a)) by (unfold sdir; now rewrite Ha).
    assert (Hsd1 : sdir s (xs_sv (o_x F1')) = Some (session_dir a)) by (rewrite <- Hsd; apply (sdir_idents s); exact (proj2 (proj2 Fr))).
    split; [|rewrite Hsd1; split; [|split; [|split; [exact Fok|exact KE]]]].
    + split; [apply (rel_frame s (xs_sv (o_x OF)) _ _ a); [exact R|exact Ha|exact Fr]|].
      split; [now rewrite Pr|]. split; [rewrite Hd1; rewrite D0 in D; exact D|].
      unfold F1', opush. cbn [o_x]. exact Kk.
    + rewrite Hsd in HI. unfold vis_tbl in *. cbn [hidden] in *. unfold idx_out, out in FI. rewrite FI. exact HI.
    + rewrite Hsd in HC. unfold vis_tbl in *. cbn [hidden] in *. unfold ctr_out, out in FC. rewrite FC. exact HC.
Qed.

(* ------------------------------------------------------------------ whole histories *)

Definition oerase (evs : list oevent) : list oevent := filter (fun ev => negb (N.eqb (oev_of ev) s)) evs.

Theorem osim_run : forall evs (OF OE : oserver) B, small (B + orun_budget evs) ->
  inv B (xs_sv (o_x OF)) -> inv B (xs_sv (o_x OE)) -> orel OF OE ->
  hosts_ok (xs_sv (o_x OF)) -> hosts_ok (xs_sv (o_x OE)) -> names_ok (xs_sv (o_x OF)) -> xs_ducks (o_x OF) = [] ->
  owf_run OF evs -> onm_run OF evs -> Forall oev_nokick evs ->
  orel (orun fx iname evs OF) (orun fx iname (oerase evs) OE) /\ inv (B + orun_budget evs) (xs_sv (o_x (orun fx iname evs OF))).
Proof.
  induction evs as [|ev evs IH]; intros OF OE B HB IF IE O HF HE NF D0 Hwf Hnm Hnk; cbn [orun fold_left oerase filter orun_budget] in *.
  - rewrite Nat.add_0_r. now split.
  - destruct Hwf as [Hw1 Hw2]. destruct Hnm as [Hm1 Hm2]. inversion Hnk as [|? ? Hn1 Hn2]; subst.
    assert (HBe : small (B + oev_budget ev)) by (eapply small_le; [|exact HB]; lia).
    assert (HB0 : small B) by (eapply small_le; [|exact HB]; lia).
    pose proof O as [X [_ [_ [KF KE]]]].
    destruct (ostep_keeps ev OF B HBe IF KF Hw1) as [IF' [HF' [NF' D0']]].
    rewrite Nat.add_assoc.
    destruct (N.eqb (oev_of ev) s) eqn:Es; cbn [negb].
    + apply N.eqb_eq in Es.
      apply (IH _ _ (B + oev_budget ev)); [now rewrite <- Nat.add_assoc|exact IF'|apply (inv_weaken B); [lia|exact IE]| |now apply HF'|exact HE|now apply NF'|now apply D0'|exact Hw2|exact Hm2|exact Hn2].
      now apply (ostep_self ev OF OE B).
    + apply N.eqb_neq in Es. cbn [fold_left].
      assert (Hw1E : owf_event OE ev) by (unfold owf_event in *; eapply (erased_wf_event s); [exact (proj2 (proj1 X))|exact Hw1]).
      destruct (ostep_keeps ev OE B HBe IE KE Hw1E) as [IE' [HE' _]].
      apply (IH _ _ (B + oev_budget ev)); [now rewrite <- Nat.add_assoc|exact IF'|exact IE'| |now apply HF'|now apply HE'|now apply NF'|now apply D0'|exact Hw2|exact Hm2|exact Hn2].
      now apply (ostep_other ev OF OE B).
Qed.

Lemma orel_empty : orel empty_oserver empty_oserver.
Proof.
  split; [apply (xrel_empty s)|]. split; [reflexivity|]. split; [reflexivity|]. split; apply ok_empty.
Qed.

Lemma owf_run_app : forall evs (os : oserver) ev, owf_run os evs -> owf_event (orun fx iname evs os) ev -> owf_run os (evs ++ [ev]).
Proof.
  induction evs as [|e evs IH]; intros os ev H1 H2; cbn [app owf_run orun fold_left] in *; [now split|].
  destruct H1 as [Ha Hb]. split; [exact Ha|]. now apply IH.
Qed.

Lemma onm_run_app : forall evs (os : oserver) ev, onm_run os evs -> onm_event (orun fx iname evs os) ev -> onm_run os (evs ++ [ev]).
Proof.
  induction evs as [|e evs IH]; intros os ev H1 H2; cbn [app onm_run orun fold_left] in *; [now split|].
  destruct H1 as [Ha Hb]. split; [exact Ha|]. now apply IH.
Qed.

Lemma orun_budget_app : forall a b, orun_budget (a ++ b) = orun_budget a + orun_budget b.
Proof. induction a as [|e a IH]; intros b; cbn [app orun_budget]; [reflexivity|]. rewrite IH. lia. Qed.

(* AS IF NEVER with ordered children.  For every history of the model of Refl/IsoOrd.v in which s is never granted
   PR_PRIVILEGE_KICK (premises as for as_if_never): let s's connection end after it and compare with the history from which
   everything s did has been erased.  As before the trees agree below host level, the sessions and privileges are the same;
   and the ordered indices and the name counters of ALL nodes are the same tables: the others' INSERTORDEREDDATA commands
   generated the same child names and built the same indices, whatever s inserted, reordered or removed in its own subtree
   and whatever it aimed at theirs. *)
Theorem o_as_if_never : forall evs,
  small (orun_budget evs) -> owf_run empty_oserver evs -> onm_run empty_oserver evs -> Forall oev_nokick evs ->
  let OF := ostep fx iname (orun fx iname evs empty_oserver) (ODetach s) in
  let OE := orun fx iname (oerase evs) empty_oserver in
  body (sv_tree (xs_sv (o_x OF))) = body (sv_tree (xs_sv (o_x OE))) /\
  all_params (xs_sv (o_x OF)) = all_params (xs_sv (o_x OE)) /\
  xs_priv (o_x OF) = xs_priv (o_x OE) /\
  o_idx OF = o_idx OE /\ o_ctr OF = o_ctr OE.
Proof.
  intros evs HB Hwf Hnm Hnk OF OE.
  assert (HB' : small (0 + orun_budget (evs ++ [ODetach s]))) by (rewrite orun_budget_app; cbn; now rewrite !Nat.add_0_r).
  assert (H0 : hosts_ok (xs_sv (o_x (@empty_oserver M)))) by (intros n []).
  destruct (osim_run (evs ++ [ODetach s]) empty_oserver empty_oserver 0 HB' empty_inv empty_inv orel_empty H0 H0 names_ok_empty eq_refl) as [O IF].
  - apply owf_run_app; [exact Hwf|exact I].
  - apply onm_run_app; [exact Hnm|exact I].
  - apply Forall_app. split; [exact Hnk|constructor; [exact I|constructor]].
  - unfold orun in O, IF. rewrite fold_left_app in O, IF. unfold oerase in O. rewrite filter_app in O. cbn [filter oev_of] in O.
    rewrite N.eqb_refl in O. cbn [negb] in O. rewrite app_nil_r in O. cbn [fold_left] in O, IF.
    change (orel OF OE) in O. change (inv (0 + orun_budget (evs ++ [ODetach s])) (xs_sv (o_x OF))) in IF.
    destruct O as [[[R1 R2] [P _]] [HI [HC _]]].
    assert (Hnone : get_session (xs_sv (o_x OF)) s = None).
    { unfold OF. cbn [ostep oprune o_x xs_sv xdetach]. unfold detach.
      destruct (get_session (xs_sv (o_x (orun fx iname evs empty_oserver))) s) eqn:E0; [|exact E0].
      unfold get_session. cbn [sv_sessions]. apply find_session_filter_self. }
    assert (Hsd : sdir s (xs_sv (o_x OF)) = None) by (unfold sdir; now rewrite Hnone).
    rewrite Hsd, !vis_tbl_none in *.
    assert (Hstrip : forall n, In n (sv_tree (xs_sv (o_x OF))) -> strip s n = n).
    { intros n Hn. destruct (inv_marks _ _ _ IF n Hn) as [Hok Hget].
      unfold strip. destruct n as [p d tb]. cbn [n_path n_data n_subs] in *. f_equal. apply tbl_without_absent.
      intros Hin. pose proof (tbl_in_get_pos _ _ Hok Hin) as Hpos. rewrite Hget in Hpos. unfold count_for in Hpos. rewrite Hnone in Hpos. lia. }
    split; [|split; [|split; [|split; [exact HI|exact HC]]]].
    + unfold rel_tree in R1. rewrite R1. unfold body.
      assert (Hf : filter (vis None) (sv_tree (xs_sv (o_x OF))) = filter nonhost (sv_tree (xs_sv (o_x OF)))).
      { apply filter_ext. intros n. unfold vis, hidden. apply andb_true_r. }
      rewrite Hf. rewrite <- (map_id (filter nonhost (sv_tree (xs_sv (o_x OF))))) at 1. apply map_ext_in.
      intros n Hn. apply filter_In in Hn as [Hn _]. symmetry. now apply Hstrip.
    + unfold rel_sess in R2. rewrite R2. unfold all_params. f_equal. symmetry. now apply (others_none s).
    + rewrite <- P. unfold OF. cbn [ostep oprune o_x xs_priv xdetach]. unfold priv_remove. now rewrite filter_filter_implied by auto.
Qed.

End OSim.
