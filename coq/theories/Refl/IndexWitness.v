(* Refl/IndexWitness.v -- C13: concrete histories.  (1) the pinned behaviour of the two places that were
   repaired refutes the property ([.._refuted], the witnesses were replayed on the real server);
   (2) why the push after every sub-Message of a batch matters; (3) non-vacuity of the theorems' premises. *)
From Coq Require Import List Arith Bool Lia.
Import ListNotations.
From Muscle Require Import Refl.Index Refl.IndexProofs Refl.IndexModel Refl.IndexModelProofs Refl.IndexRunProofs.

Definition a_ : name := NX 0.
Definition x_ : name := NX 1.
Definition src_ : name := NX 2.
Definition dst_ : name := NX 3.

(* pinned ReorderDataCallback: the owner subscribes to its own node whose index was created by REORDERDATA
   (replay `2|0>sd:a/x:0;0>ro:a/x:-;0>su:*/a`): the snapshot is skipped and the replica stays empty *)
Definition reorder_witness : list (nat * list cmd) :=
  [ (0, [CSetData [([a_; x_], false)] false]); (0, [CReorder [([CLit a_; CLit x_], BEnd)]]); (0, [CSubscribe [CAny; CLit a_]]) ].

Lemma reorder_ipres_refuted :
  exists steps s p, let st := run cfg_pinned 1 steps in
    subscribed st s p = true /\ st_mirror st s p <> index_at (st_tree st) p.
Proof.
  exists reorder_witness, 0, [NS 0; a_]. vm_compute. split; [reflexivity | discriminate].
Qed.

(* the same history on the repaired model *)
Example reorder_fixed_ok :
  let st := run cfg_fixed 1 reorder_witness in
  subscribed st 0 [NS 0; a_] = true /\ st_mirror st 0 [NS 0; a_] = [x_] /\ index_at (st_tree st) [NS 0; a_] = [x_].
Proof. vm_compute. repeat split; reflexivity. Qed.

(* pinned CloneDataNodeSubtree twice onto the same destination (F10; replay
   `1|0>xsd:src/I0:1:-;0>xsd:src/I1:1:-;0>xcl:0/src:dst:0:-;0>xcl:0/src:dst:0:-`) *)
Definition clone_witness : list (nat * list cmd) :=
  [ (0, [ASetDataNode [src_; NI 0] true BEnd]); (0, [ASetDataNode [src_; NI 1] true BEnd]);
    (0, [AClone [NS 0; src_] [dst_] false BEnd]); (0, [AClone [NS 0; src_] [dst_] false BEnd]) ].

Lemma clone_refuted :
  exists steps p, ~ NoDup (index_at (st_tree (run cfg_pinned 1 steps)) p).
Proof.
  exists clone_witness, [NS 0; dst_]. vm_compute. intro H.
  inversion H as [|? ? Hn _]. apply Hn. right. left. reflexivity.
Qed.

Example clone_fixed_ok :
  index_at (st_tree (run cfg_fixed 1 clone_witness)) [NS 0; dst_] = [NI 0; NI 1].
Proof. vm_compute. reflexivity. Qed.

(* Why PushSubscriptionMessages() must run after every sub-Message of a PR_COMMAND_BATCH: with the push
   delayed to the end of the batch a GETDATA snapshot overtakes the pending update of an earlier sub-Message. *)
Definition step_late_push (cfg : config) (st : state) (sc : nat * list cmd) : state :=
  if fst sc <? st_n st then flush (fold_left (fun st c => handle cfg st (fst sc) c) (snd sc) (with_out st [])) else st.

Definition batch_witness_prefix : list (nat * list cmd) :=
  [ (0, [CSetData [([a_], false)] false]); (0, [CSubscribe [CLit (NS 0); CLit a_]]); (0, [CInsertOrdered [[CLit a_]] [BEnd; BEnd]]) ].
Definition batch_witness_last : nat * list cmd :=
  (0, [CInsertOrdered [[CLit a_]] [BName (NI 1)]; CGetData [CLit (NS 0); CLit a_]]).

Lemma late_push_refuted :
  let st := step_late_push cfg_fixed (run cfg_fixed 1 batch_witness_prefix) batch_witness_last in
  subscribed st 0 [NS 0; a_] = true /\
  index_at (st_tree st) [NS 0; a_] = [NI 0; NI 2; NI 1] /\
  st_mirror st 0 [NS 0; a_] = [NI 0; NI 2; NI 2; NI 1].
Proof. vm_compute. repeat split; reflexivity. Qed.

Example batch_ok :
  let st := step cfg_fixed (run cfg_fixed 1 batch_witness_prefix) batch_witness_last in
  index_at (st_tree st) [NS 0; a_] = [NI 0; NI 2; NI 1] /\ st_mirror st 0 [NS 0; a_] = [NI 0; NI 2; NI 1].
Proof. vm_compute. split; reflexivity. Qed.

(* the server sends nothing for an empty index: a client that kept a stale replica across an
   unsubscription would not be corrected (hence the client-side rule modelled in [unsubscribe]) *)
Lemma empty_snapshot_is_silent : forall stale, replay (snapshot (mkNode (Some []) 0)) stale = stale.
Proof. intro stale. reflexivity. Qed.

Definition nv_steps_ : list (nat * list cmd) :=
  [ (1, [CSubscribe [CAny; CLit a_]]);
    (0, [CSetData [([a_], false)] false]);
    (0, [CInsertOrdered [[CLit a_]] [BEnd; BEnd; BName (NI 0)]]) ].

(* a quiet removal (PR_NAME_REMOVE_QUIETLY) leaves the parent's watchers with a stale replica: the exclusion of
   quiet removals from the histories of replay_eq is necessary, and quiet_frame's exception is exact *)
Lemma quiet_removal_refuted :
  let st := remove_child_quiet (run cfg_fixed 2 (firstn 3 nv_steps_)) [NS 0; a_; NI 1] in
  subscribed st 1 [NS 0; a_] = true /\ st_pend st = [] /\
  index_at (st_tree st) [NS 0; a_] = [NI 2; NI 0] /\ st_mirror st 1 [NS 0; a_] = [NI 2; NI 0; NI 1].
Proof. vm_compute. repeat split; reflexivity. Qed.

(* non-vacuity: a history with two sessions, a foreign subscriber, nested indices and a recursive removal,
   ending in a state where the premises of replay_eq hold with a non-trivial index *)
Definition nv_steps : list (nat * list cmd) :=
  [ (1, [CSubscribe [CAny; CLit a_]]);
    (0, [CSetData [([a_], false)] false]);
    (0, [CInsertOrdered [[CLit a_]] [BEnd; BEnd; BName (NI 0)]]);
    (0, [CReorder [([CLit a_; CLit (NI 0)], BEnd)]; CGetData [CAny; CLit a_]]);
    (0, [CRemove [[CLit a_; CLit (NI 1)]]]) ].

Example nv_replay_eq :
  let st := run cfg_fixed 2 nv_steps in
  subscribed st 1 [NS 0; a_] = true /\ index_at (st_tree st) [NS 0; a_] = [NI 2; NI 0] /\
  st_mirror st 1 [NS 0; a_] = [NI 2; NI 0] /\
  st_hist st 1 [NS 0; a_] = [OpIns 0 (NI 0); OpIns 1 (NI 1); OpIns 0 (NI 2); OpRem 1 (NI 0); OpIns 2 (NI 0); OpRem 1 (NI 1)].
Proof. vm_compute. repeat split; reflexivity. Qed.

Example nv_remove_premises :
  let st := run cfg_fixed 2 (firstn 4 nv_steps) in
  has_node (st_tree st) [NS 0; a_; NI 1] = true /\ 2 <= length [NS 0; a_; NI 1] /\
  In (NI 1) (index_at (st_tree st) [NS 0; a_]).
Proof. vm_compute. split; [reflexivity|]. split; [lia|]. right. left. reflexivity. Qed.

From Coq Require Import NArith.
From Muscle Require Import Gen.Consts.
Lemma opcodes_distinct :
  c_INDEX_OP_ENTRYINSERTED <> c_INDEX_OP_ENTRYREMOVED /\ c_INDEX_OP_ENTRYINSERTED <> c_INDEX_OP_CLEARED /\
  c_INDEX_OP_ENTRYREMOVED <> c_INDEX_OP_CLEARED.
Proof. vm_compute. repeat split; discriminate. Qed.
