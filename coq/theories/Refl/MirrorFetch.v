(* Refl/MirrorFetch.v -- DoGetData for the asking session, read through its virtual mirror: every foreign
   node the keys (paths and filters) accept is set to its current payload; nothing else moves.
   (GetDataCallback answers NODE_DEPTH_SESSIONNAME on the session's own nodes: trav_fold with that region.) *)
From Coq Require Import List NArith ZArith Bool Arith Lia.
From Muscle Require Import Gen.Consts Refl.Base Refl.BaseProofs Refl.Tree Refl.TreeProofs Refl.Matcher Refl.MatcherProofs
     Refl.Traverse Refl.TraverseFold Refl.TraverseSpec Refl.Session Refl.Server Refl.ServerProofs Refl.Mirror Refl.MirrorBase
     Refl.MirrorServer Refl.MirrorNotify Refl.MirrorSem Refl.MirrorSteps Refl.MirrorHandlers.
Import ListNotations.

Section Fetch.
Context {M : MatchOps} {L : MatchLaws M}.
Variable fx : fixes.
Hypothesis guard_on : fx_guard fx = true.
Variable mir : mirror.
Variable s : sid.
Variable ss : session.           (* the asking session's record when the fetch starts *)

Notation V := (V mir).

Definition gskip (p : path) : bool := own_node ss p && Nat.leb 2 (length p).

Definition gstep (acc : option ditems * server) (n : node) : option ditems * server :=
  if own_node ss (n_path n) then acc
  else
    let r := di_add_set (match fst acc with Some r => r | None => empty_di end) (n_path n) (n_data n) in
    if N.leb (s_max ss) (di_num_names r) then (None, upd_session (snd acc) s (fun x => send x r)) else (Some r, snd acc).

(* what stays true of the accumulator: the session is there under its name and limit, has nothing pending,
   and the reply under construction has distinct field names *)
Definition Iacc (acc : option ditems * server) : Prop :=
  (exists ss0, get_session (snd acc) s = Some ss0 /\ s_name ss0 = s_name ss /\ s_max ss0 = s_max ss /\ s_pending ss0 = None)
  /\ (forall r, fst acc = Some r -> di_ok r).

Lemma own_node_name : forall (a b : session) p, s_name a = s_name b -> own_node a p = own_node b p.
Proof. intros a b p H. unfold own_node. now rewrite H. Qed.

Lemma gskip_depth : forall p, gskip p = true -> 2 <= length p.
Proof. intros p H. unfold gskip in H. apply andb_true_iff in H as [_ H]. now apply Nat.leb_le in H. Qed.

Lemma own_node_ext : forall p r, 2 <= length p -> own_node ss (p ++ r) = own_node ss p.
Proof.
  intros p r H. destruct p as [|a [|b p]]; cbn in H; try lia. reflexivity.
Qed.

Lemma gskip_ext : forall p r, gskip p = true -> gskip (p ++ r) = true.
Proof.
  intros p r H. pose proof (gskip_depth p H) as Hl. unfold gskip in *. apply andb_true_iff in H as [H1 _].
  rewrite own_node_ext by auto. rewrite H1. cbn [andb]. apply Nat.leb_le. rewrite app_length. lia.
Qed.

Lemma gskip_enter : forall p k, gskip (p ++ [k]) = true -> gskip p = false -> length p <= 2.
Proof.
  intros p k H1 H2. destruct (Nat.leb 2 (length p)) eqn:E; [|apply Nat.leb_gt in E; lia].
  apply Nat.leb_le in E. unfold gskip in *. rewrite own_node_ext in H1 by auto.
  apply andb_true_iff in H1 as [H1 _]. rewrite H1 in H2. cbn [andb] in H2.
  apply Nat.leb_gt in H2. lia.
Qed.

Lemma Iacc_send : forall reply sv0 r, Iacc (reply, sv0) -> Iacc (None, upd_session sv0 s (fun x => send x r)).
Proof.
  intros reply sv0 r [[ss0 [H1 [H2 [H3 H4]]]] _]. split; [|intros r0 Hr0; discriminate].
  cbn [snd] in *. exists (send ss0 r). rewrite get_session_upd by reflexivity. rewrite N.eqb_refl, H1. auto.
Qed.

Lemma getdata_go : forall acc n, Iacc acc -> gskip (n_path n) = false ->
  exists nd, getdata_cb s acc n = (gstep acc n, nd) /\ (Z.of_nat (depth n) - 1 <= nd)%Z /\ Iacc (gstep acc n).
Proof.
  intros [reply sv0] n HI Hsk. pose proof HI as [[ss0 [H1 [H2 [H3 H4]]]] Hr]. cbn [fst snd] in *.
  unfold getdata_cb, gstep. rewrite H1. cbn [fst snd]. rewrite (own_node_name ss0 ss _ H2), H3.
  destruct (own_node ss (n_path n)) eqn:Eo.
  - exists (Z.of_nat session_depth). split; [reflexivity|split; [|exact HI]].
    unfold gskip in Hsk. rewrite Eo in Hsk. cbn [andb] in Hsk. apply Nat.leb_gt in Hsk. unfold depth. change session_depth with 2. lia.
  - set (r := di_add_set (match reply with Some r => r | None => empty_di end) (n_path n) (n_data n)).
    assert (Hrok : di_ok r).
    { unfold r. apply di_add_set_ok. destruct reply; [now apply Hr|apply empty_di_ok]. }
    destruct (N.leb (s_max ss) (di_num_names r)).
    + exists (Z.of_nat (depth n)). split; [reflexivity|split; [lia|]]. now apply (Iacc_send reply).
    + exists (Z.of_nat (depth n)). split; [reflexivity|split; [lia|]].
      split; [exists ss0; auto|]. intros r0 Hr0. cbn in Hr0. inversion Hr0; now subst.
Qed.

Lemma getdata_skip : forall acc n, Iacc acc -> gskip (n_path n) = true -> getdata_cb s acc n = (acc, Z.of_nat 2).
Proof.
  intros [reply sv0] n [[ss0 [H1 [H2 _]]] _] Hsk. cbn [snd] in H1. unfold getdata_cb. rewrite H1.
  rewrite (own_node_name ss0 ss _ H2). unfold gskip in Hsk. apply andb_true_iff in Hsk as [Hsk _]. now rewrite Hsk.
Qed.

(* ------------------------------------------------------------------ the accumulator read as a virtual mirror *)

Definition Wacc (acc : option ditems * server) (q : path) : option (option payload) :=
  option_map (fun ss0 => mirror_get (match fst acc with Some r => apply_di (vm mir ss0) r | None => vm mir ss0 end) q)
             (get_session (snd acc) s).

Lemma vm_send : forall ss0 r, s_pending ss0 = None -> vm mir (send ss0 r) = apply_di (vm mir ss0) r.
Proof.
  intros ss0 r H. unfold vm. cbn [send s_out s_pending]. rewrite H. apply apply_all_snoc.
Qed.

Lemma gstep_W : forall acc n, Iacc acc ->
  Iacc (gstep acc n) /\ same_core (snd acc) (snd (gstep acc n))
  /\ forall q, Wacc (gstep acc n) q
       = if path_eqb (n_path n) q && negb (own_node ss (n_path n)) then Some (Some (n_data n)) else Wacc acc q.
Proof.
  intros [reply sv0] n HI. pose proof HI as [[ss0 [H1 [H2 [H3 H4]]]] Hr]. cbn [fst snd] in *.
  unfold gstep. cbn [fst snd]. destruct (own_node ss (n_path n)) eqn:Eo.
  - split; [exact HI|split; [apply same_core_refl|]]. intros q. now rewrite andb_false_r.
  - set (r0 := match reply with Some r => r | None => empty_di end).
    set (r := di_add_set r0 (n_path n) (n_data n)).
    assert (Hr0ok : di_ok r0) by (unfold r0; destruct reply; [now apply Hr|apply empty_di_ok]).
    assert (Hval : forall q, mirror_get (apply_di (vm mir ss0) r) q
                   = if path_eqb (n_path n) q then Some (n_data n)
                     else mirror_get (match reply with Some r1 => apply_di (vm mir ss0) r1 | None => vm mir ss0 end) q).
    { intros q. rewrite apply_di_get. unfold r. rewrite di_lookup_add_set by exact Hr0ok.
      destruct (path_eqb (n_path n) q); [reflexivity|].
      unfold r0. destruct reply as [r1|]; [now rewrite apply_di_get|reflexivity]. }
    cbn [negb]. destruct (N.leb (s_max ss) (di_num_names r)).
    + split; [now apply (Iacc_send reply)|split; [apply upd_session_core; reflexivity|]].
      intros q. unfold Wacc. cbn [fst snd]. rewrite get_session_upd by reflexivity. rewrite N.eqb_refl, H1.
      cbn [option_map]. rewrite vm_send by exact H4. rewrite Hval, andb_true_r.
      destruct (path_eqb (n_path n) q); reflexivity.
    + split; [|split; [apply same_core_refl|]].
      * split; [exists ss0; auto|]. intros r1 Hr1. cbn in Hr1. inversion Hr1. subst r1. unfold r. now apply di_add_set_ok.
      * intros q. unfold Wacc. cbn [fst snd]. rewrite H1. cbn [option_map]. rewrite Hval, andb_true_r.
        destruct (path_eqb (n_path n) q); reflexivity.
Qed.

Lemma gfold_W : forall (l : list node) acc, NoDup (map n_path l) -> Iacc acc ->
  Iacc (fold_left gstep l acc) /\ same_core (snd acc) (snd (fold_left gstep l acc))
  /\ forall q, Wacc (fold_left gstep l acc) q
       = match find (fun n => path_eqb (n_path n) q && negb (own_node ss (n_path n))) l with
         | Some n => Some (Some (n_data n))
         | None => Wacc acc q
         end.
Proof.
  induction l as [|n l IH]; intros acc Hnd HI; cbn [fold_left].
  - split; [auto|split; [apply same_core_refl|]]. intros q. reflexivity.
  - cbn in Hnd. inversion Hnd as [|? ? Hn Hnd']; subst.
    destruct (gstep_W acc n HI) as [HI1 [Hc1 HW1]].
    destruct (IH (gstep acc n) Hnd' HI1) as [H1 [H2 H3]].
    split; [auto|split; [eapply same_core_trans; eauto|]].
    intros q. rewrite H3, HW1. cbn [find].
    destruct (path_eqb (n_path n) q && negb (own_node ss (n_path n))) eqn:E.
    + apply andb_true_iff in E as [E _]. apply path_eqb_eq in E. subst q.
      destruct (find (fun n0 => path_eqb (n_path n0) (n_path n) && negb (own_node ss (n_path n0))) l) as [x|] eqn:Ef; auto.
      apply find_some in Ef as [Hx1 Hx2]. apply andb_true_iff in Hx2 as [Hx2 _]. apply path_eqb_eq in Hx2.
      exfalso. apply Hn. rewrite <- Hx2. now apply in_map.
    + reflexivity.
Qed.

(* ------------------------------------------------------------------ DoGetData *)

Lemma fold_left_ext2 : forall (A B : Type) (f g : A -> B -> A) l a, (forall x y, f x y = g x y) -> fold_left f l a = fold_left g l a.
Proof. intros A B f g. induction l as [|b l IH]; intros a H; cbn; auto. rewrite H. now apply IH. Qed.

Lemma g'_gstep : forall acc n, g' (option ditems * server) gstep gskip acc n = gstep acc n.
Proof.
  intros acc n. unfold g'. destruct (gskip (n_path n)) eqn:E; auto.
  unfold gskip in E. apply andb_true_iff in E as [E _]. unfold gstep. now rewrite E.
Qed.

Theorem fetch_V : forall sv keys, pend_ok sv -> get_session sv s = Some ss -> s_pending ss = None ->
  let Mf := m_of_list (map (fun kf => (fix_path (fst kf), snd kf)) keys) in
  NoDup (map n_path (vlist (sv_tree sv) Mf [] true)) ->
  let sv' := do_get_data fx sv s keys in
  same_core sv sv'
  /\ forall q, V sv' s q
       = match find (fun n => path_eqb (n_path n) q && negb (own_node ss (n_path n))) (vlist (sv_tree sv) Mf [] true) with
         | Some n => Some (Some (n_data n))
         | None => V sv s q
         end.
Proof.
  intros sv keys Hpo Hss Hnp Mf Hnd sv'.
  assert (HI0 : Iacc (None, sv)).
  { split; [exists ss; auto|]. intros r Hr. discriminate. }
  assert (Hfold : do_traversal (getdata_cb s) (sv_tree sv) Mf [] true (fx_guard fx) (None, sv)
                  = fold_left gstep (vlist (sv_tree sv) Mf [] true) (None, sv)).
  { unfold do_traversal. rewrite guard_on.
    rewrite (trav_fold (option ditems * server) (getdata_cb s) gstep gskip 2 Iacc (sv_tree sv) Mf 0 true true
               gskip_depth gskip_ext gskip_enter getdata_go getdata_skip); auto.
    cbn [fst]. unfold vlist. cbn [length]. apply fold_left_ext2. apply g'_gstep. }
  destruct (gfold_W (vlist (sv_tree sv) Mf [] true) (None, sv) Hnd HI0) as [HI1 [Hc1 HW1]].
  unfold sv', do_get_data. fold Mf. rewrite Hfold.
  destruct (fold_left gstep (vlist (sv_tree sv) Mf [] true) (None, sv)) as [reply sv1] eqn:Ef.
  cbn [snd] in Hc1.
  assert (HW0 : forall q, Wacc (None, sv) q = V sv s q) by (intros q; reflexivity).
  destruct HI1 as [[ss1 [H1 [H2 [H3 H4]]]] Hrok]. cbn [fst snd] in *.
  destruct reply as [r|].
  - split; [eapply same_core_trans; [exact Hc1|apply upd_session_core; reflexivity]|].
    intros q. rewrite <- HW0, <- HW1. unfold V, Wacc. cbn [fst snd].
    rewrite get_session_upd by reflexivity. rewrite N.eqb_refl, H1. cbn [option_map]. now rewrite vm_send.
  - split; [exact Hc1|]. intros q. rewrite <- HW0, <- HW1. reflexivity.
Qed.

End Fetch.
