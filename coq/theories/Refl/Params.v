(* Refl/Params.v -- the session's parameter table, as far as subscriptions go.  Definitions only.

   StorageReflectSession keeps the fields of every PR_COMMAND_SETPARAMETERS Message in _parameters, under their
   field names: a subscription lives there as "SUBSCRIBE:<path as the client spelled it>".  The subscription ENTRY
   (Server.v, [subscribe_one]) is filed under the adjusted path ([fix_path]: "x" and "/*/*/x" are the same entry).
   PR_COMMAND_REMOVEPARAMETERS works on parameter NAMES: RemoveParameter() returns at once when _parameters has no
   field of that name, and only otherwise removes the entry of the adjusted path and, at the end, the name.
   So "SUBSCRIBE:x" does not remove what "SUBSCRIBE:/*/*/x" created (and nothing else either).

   The table influences nothing but that test, so it is modelled as a layer over Server.v / Mirror.v: the
   commands a client SENDS (spelled paths) are lowered to the commands Server.v executes, threading the table:
   an unsubscribe keeps exactly the names that are parameters at that moment.  The client knows what it sent,
   so its own record of its subscriptions follows the lowered commands as well. *)
From Coq Require Import List NArith ZArith Bool Arith.
From Muscle Require Import Gen.Consts Refl.Base Refl.Tree Refl.Matcher Refl.Traverse Refl.Session Refl.Server Refl.Mirror.
Import ListNotations.

Section Params.
Context {M : MatchOps}.

(* two parameter names are the same field name: same spelling *)
Definition spath_eqb (a b : spath) : bool :=
  match a, b with
  | Abs p, Abs q => pat_eqb p q
  | Rel p, Rel q => pat_eqb p q
  | _, _ => false
  end.

Definition pnames := list spath.                      (* the SUBSCRIBE: names in _parameters *)

Definition pn_has (ps : pnames) (sp : spath) : bool := existsb (spath_eqb sp) ps.
Definition pn_add (ps : pnames) (sp : spath) : pnames := if pn_has ps sp then ps else ps ++ [sp].     (* Message::CopyName *)
Definition pn_remove (ps : pnames) (sp : spath) : pnames := filter (fun x => negb (spath_eqb sp x)) ps. (* RemoveName *)

(* REMOVEPARAMETERS, name by name: a name that is no parameter does nothing; a removed name is gone for the rest *)
Fixpoint lower_unsub (ps : pnames) (subs : list spath) : list spath * pnames :=
  match subs with
  | [] => ([], ps)
  | sp :: r =>
    if pn_has ps sp
    then let '(l, ps') := lower_unsub (pn_remove ps sp) r in (sp :: l, ps')
    else lower_unsub ps r
  end.

(* what Server.v executes for a command the client sent, and the table afterwards; [nest] as in [handle]
   (a BATCH beyond the nesting limit is not executed, so it does not touch the table either) *)
Fixpoint lower_cmd (nest : nat) (ps : pnames) (c : cmd) : cmd * pnames :=
  match c with
  | CSubscribe _ subs => (c, fold_left (fun ps' sf => pn_add ps' (fst sf)) subs ps)
  | CUnsubscribe subs => let '(l, ps') := lower_unsub ps subs in (CUnsubscribe l, ps')
  | CBatch l =>
    if Nat.ltb nest max_batch_nest then
      let '(l', ps') :=
        (fix go (l : list cmd) (ps : pnames) : list cmd * pnames :=
           match l with
           | [] => ([], ps)
           | c' :: r => let '(c1, ps1) := lower_cmd (S nest) ps c' in
                        let '(r1, ps2) := go r ps1 in (c1 :: r1, ps2)
           end) l ps in
      (CBatch l', ps')
    else (c, ps)
  | _ => (c, ps)
  end.

(* ------------------------------------------------------------------ the world with parameter tables *)

Definition ptable := list (sid * pnames).

Fixpoint pt_get (t : ptable) (s : sid) : pnames :=
  match t with
  | [] => []
  | (k, ps) :: r => if N.eqb k s then ps else pt_get r s
  end.

Definition pt_set (t : ptable) (s : sid) (ps : pnames) : ptable :=
  (s, ps) :: filter (fun kp => negb (N.eqb (fst kp) s)) t.

Definition pt_drop (t : ptable) (s : sid) : ptable := filter (fun kp => negb (N.eqb (fst kp) s)) t.

Record pworld := mkPWorld { pw_world : world; pw_params : ptable }.

Definition empty_pworld : pworld := mkPWorld empty_world [].

Variable fx : fixes.

(* the event Server.v / Mirror.v see for an event on the wire, and the tables afterwards *)
Definition lower_event (pw : pworld) (ev : event) : event * ptable :=
  match ev with
  | ECmd s c =>
    match get_session (w_srv (pw_world pw)) s with
    | Some _ => let '(c', ps') := lower_cmd 0 (pt_get (pw_params pw) s) c in (ECmd s c', pt_set (pw_params pw) s ps')
    | None => (ev, pw_params pw)
    end
  | EDetach s => (ev, pt_drop (pw_params pw) s)
  | EAttach s _ _ =>
    match get_session (w_srv (pw_world pw)) s with
    | Some _ => (ev, pw_params pw)
    | None => (ev, pt_drop (pw_params pw) s)          (* a new session starts with an empty table *)
    end
  end.

Definition pworld_step (pw : pworld) (ev : event) : pworld :=
  let '(ev', t') := lower_event pw ev in
  mkPWorld (world_step fx (pw_world pw) ev') t'.

Definition pworld_run (evs : list event) (pw : pworld) : pworld := fold_left pworld_step evs pw.

(* the lowered history *)
Fixpoint lower_run (pw : pworld) (evs : list event) : list event :=
  match evs with
  | [] => []
  | ev :: r => fst (lower_event pw ev) :: lower_run (pworld_step pw ev) r
  end.

End Params.
