(* Refl/RoutePatReach.v -- deliver_once in every reachable state for the StringMatcher model, with NO clause premise.

   build-C04's invariant proofs (run_inv) ask for the clause laws in the form of the class MatchLaws: of ALL name numbers.
   The instance pat_ops_n of Refl/PatInst.v (StringMatcher model of C15 + DoTraversalAux's key parsing with both repairs,
   "matches" read off the lookup keys where a clause has keys) satisfies MatchLaws outright, and on every canonical name
   -- a number that stands for its own string, which is what every node name of the correspondence run is -- it coincides
   with the StringMatcher model (pmatch_n_agrees, from C15's unique_sound and uvlist_exact). *)
From Coq Require Import List NArith ZArith Bool Arith Lia.
From Muscle Require Import Gen.Consts Refl.Base Refl.BaseProofs Refl.Tree Refl.Matcher Refl.Traverse Refl.Session Refl.Server
  Refl.ServerProofs Refl.Route Refl.TravBase Refl.RouteProofs Refl.PatInst Refl.RouteReach Refl.RouteInbox.
Import ListNotations.

Lemma text_eqb_spec : forall a b : list N, text_eqb a b = true <-> a = b.
Proof.
  induction a as [|x a IH]; intros [|y b]; cbn; split; intros H; try discriminate; try reflexivity.
  - apply andb_true_iff in H. destruct H as [H1 H2]. apply N.eqb_eq in H1. apply IH in H2. now subst.
  - inversion H; subst. apply andb_true_iff. split; [apply N.eqb_refl | now apply IH].
Qed.

Section PatReach.
Variable tbl : name -> list N.
Variable untbl : list N -> name.

#[global] Instance PatLaws : MatchLaws (pat_ops_n tbl untbl).
Proof.
  constructor.
  - exact text_eqb_spec.
  - intros k. reflexivity.
  - intros c ks Hk k. cbn [cmatch ckeys pat_ops_n] in *. unfold pmatch_n. rewrite Hk. apply name_mem_in.
Qed.

Local Notation OPS := (pat_ops_n tbl untbl).

Theorem reachable_premises_stringmatcher_lemma : forall (evs : list (@revent OPS)),
  small (run_budget (flat_map srv_ev evs)) -> @wf_run OPS (srv_fixes r_all_fixed) empty_server (flat_map srv_ev evs) ->
  tree_wf (sv_tree (rs_srv (rrun r_all_fixed evs empty_rstate))) /\
  NoDup (map s_id (sv_sessions (rs_srv (rrun r_all_fixed evs empty_rstate)))) /\
  routes_wf (rrun r_all_fixed evs empty_rstate) /\ aligned (rrun r_all_fixed evs empty_rstate).
Proof.
  intros evs HB HW. destruct (@reachable_premises_lemma OPS PatLaws evs HB HW) as [H1 [H2 H3]].
  split; [exact H1|]. split; [exact H2|]. split; [exact H3 | apply reachable_aligned].
Qed.

Theorem deliver_once_reachable_stringmatcher_lemma :
  forall (evs : list (@revent OPS)) (s : sid) (ss : @session OPS) (m : @umsg OPS),
    small (run_budget (flat_map srv_ev evs)) -> @wf_run OPS (srv_fixes r_all_fixed) empty_server (flat_map srv_ev evs) ->
    let st := rrun r_all_fixed evs empty_rstate in
    get_session (rs_srv st) s = Some ss -> in_cmd_range (u_what m) = false ->
    exists ri, get_info st s = Some ri /\
      rstep r_all_fixed st (RCmd s (RMsg m))
      = mkRS (rs_srv st)
             (map (fun x => if route_targets st s ri m (ri_id x)
                            then put_inbox s (mkD s (u_tag m) (overwrite (u_session m) (s_name ss))) x else x) (rs_info st)).
Proof. exact (@deliver_once_reachable_full_lemma OPS PatLaws). Qed.

Theorem inbox_closed_form_stringmatcher_lemma :
  forall (evs : list (@revent OPS)) (r : sid) (x' : @rinfo OPS),
    small (run_budget (flat_map srv_ev evs)) -> @wf_run OPS (srv_fixes r_all_fixed) empty_server (flat_map srv_ev evs) ->
    get_info (rrun r_all_fixed evs empty_rstate) r = Some x' -> ri_inbox x' = expected_inbox empty_rstate evs r [].
Proof. exact (@inbox_closed_form_lemma OPS PatLaws). Qed.

End PatReach.
