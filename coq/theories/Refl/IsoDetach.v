(* Refl/IsoDetach.v -- C06, second half: a session that leaves, leaves no trace.

   For every state satisfying the server invariant of Refl/ServerProofs.v (it holds in every reachable state: run_inv)
   and every attached session s, after [detach] (AboutToDetachFromServer -> Cleanup, reflector/StorageReflectSession.cpp 203):
     - the tree is exactly: the old tree without s's directory and everything below it, without the host node iff that had
       no other child left, every remaining node unchanged but for s's mark in its subscriber table, which is gone;
     - no node lies at or below s's directory, no subscriber table mentions s, s is no longer among the sessions and all
       other sessions keep identity, subscriptions and limits;
     - every other session that subscribed to a node of the subtree (and whose filters, if it uses any, accept the node)
       holds a PR_RESULT_DATAITEMS Message naming that node as removed.
   The connection may end at any moment: with C03 ("only complete Messages are dispatched") a cut after any byte prefix is
   a cut between two commands, i.e. [detach] applied to a reachable state. *)
From Coq Require Import List NArith ZArith Bool Arith Lia.
From Muscle Require Import Gen.Consts Refl.Base Refl.BaseProofs Refl.Tree Refl.TreeProofs Refl.Matcher Refl.MatcherProofs
     Refl.Traverse Refl.TraverseSpec Refl.Session Refl.Server Refl.ServerProofs Refl.IsoModel Refl.IsoBase Refl.IsoTold.
Import ListNotations.

Section Detach.
Context {M : MatchOps} {L : MatchLaws M}.
Variable fx : fixes.
Hypothesis guard_on : fx_guard fx = true.

(* the tree Cleanup leaves behind, written without reference to the code *)
Definition tree_without (t : tree) (ss : session) : tree :=
  let t1 := prune_tree t (session_dir ss) in
  let t2 := if has_children t1 [s_host ss] then t1 else prune_tree t1 [s_host ss] in
  map (fun n => if matches_node (s_subs ss) (n_path n) None 0 then adj_node (s_id ss) cleanup_delta n else n) t2.

Lemma map_core_filter : forall (l l' : list session) s, map core l' = map core l ->
  map core (filter (fun x => negb (N.eqb (s_id x) s)) l') = map core (filter (fun x => negb (N.eqb (s_id x) s)) l).
Proof.
  induction l as [|x l IH]; intros [|y l'] s H; cbn in *; try discriminate; [reflexivity|].
  assert (H1 : core y = core x) by congruence. assert (H2 : map core l' = map core l) by congruence.
  assert (Hid : s_id y = s_id x) by (unfold core in H1; congruence).
  rewrite Hid. destruct (negb (N.eqb (s_id x) s)); cbn; [f_equal; [exact H1|]|]; now apply IH.
Qed.

Lemma detach_shape : forall B sv s ss, inv B sv -> get_session sv s = Some ss ->
  sv_tree (detach fx sv s) = tree_without (sv_tree sv) ss /\
  map core (sv_sessions (detach fx sv s)) = map core (filter (fun x => negb (N.eqb (s_id x) s)) (sv_sessions sv)).
Proof.
  intros B sv s ss I Hss. unfold detach. rewrite Hss.
  assert (Hin : In ss (sv_sessions sv)) by (apply find_session_some in Hss; tauto).
  assert (Hid : s_id ss = s) by (apply find_session_some in Hss; tauto).
  pose proof (inv_dirs_exist B sv ss I Hin) as Hdir.
  assert (Hhost : has_node (sv_tree sv) [s_host ss] = true).
  { apply has_node_spec in Hdir as [n [H1 H2]].
    destruct (inv_tree _ _ _ I) as [_ [_ Hpre]].
    destruct (Hpre n [s_host ss] [s_name ss] H1 H2) as [n' [H3 H4]]; [discriminate|].
    apply has_node_spec. eauto. }
  rewrite Hhost, Hdir.
  destruct (remove_subtree_spec sv s (session_dir ss) true (inv_tree _ _ _ I)) as [Ht1 Hs1]; [discriminate|].
  set (sv1 := remove_subtree sv s (session_dir ss) true) in *.
  assert (W1 : wf_tree (sv_tree sv1)) by (rewrite Ht1; apply wf_tree_prune, (inv_tree _ _ _ I)).
  match goal with |- context [push_all ?X] => set (sv2 := X) end.
  assert (H2 : sv_tree sv2 = (if has_children (prune_tree (sv_tree sv) (session_dir ss)) [s_host ss]
                              then prune_tree (sv_tree sv) (session_dir ss)
                              else prune_tree (prune_tree (sv_tree sv) (session_dir ss)) [s_host ss])
               /\ map core (sv_sessions sv2) = map core (sv_sessions sv)).
  { unfold sv2. rewrite Ht1. destruct (has_children (prune_tree (sv_tree sv) (session_dir ss)) [s_host ss]) eqn:Hch.
    - split; [exact Ht1|exact Hs1].
    - destruct (remove_subtree_spec sv1 s [s_host ss] true W1) as [Ht2 Hs2]; [discriminate|].
      split; [now rewrite Ht2, Ht1|congruence]. }
  destruct H2 as [Ht2 Hs2].
  destruct (push_all_core sv2) as [Ht3 Hs3]. set (sv3 := push_all sv2) in *.
  assert (W3 : wf_tree (sv_tree sv3)).
  { rewrite Ht3, Ht2. destruct (has_children (prune_tree (sv_tree sv) (session_dir ss)) [s_host ss]);
      repeat apply wf_tree_prune; apply (inv_tree _ _ _ I). }
  assert (Wm : wf_groups (m_groups (s_subs ss))) by (apply (inv_subs _ _ _ I ss Hin)).
  split.
  - cbn [sv_tree]. unfold tree_without. rewrite Hid. rewrite <- Ht2, <- Ht3.
    destruct (sv_tree sv3) as [|n0 t0] eqn:E3; [reflexivity|]. rewrite <- E3.
    apply (mark_nodes_spec fx guard_on); [rewrite E3; exact W3|exact Wm].
  - cbn [sv_sessions]. apply map_core_filter. congruence.
Qed.

(* ------------------------------------------------------------------ what the shape says *)

Lemma in_tree_without : forall t ss n', In n' (tree_without t ss) ->
  exists n, In n t /\ is_prefix (session_dir ss) (n_path n) = false /\
            n_path n' = n_path n /\ n_data n' = n_data n /\ tbl_without (s_id ss) (n_subs n') = tbl_without (s_id ss) (n_subs n).
Proof.
  intros t ss n' H. unfold tree_without in H. apply in_map_iff in H as [n [H1 H2]].
  assert (Hn : In n (prune_tree t (session_dir ss))).
  { destruct (has_children _ _); [exact H2|]. apply in_prune in H2. tauto. }
  apply in_prune in Hn as [Hn1 Hn2]. exists n. split; [exact Hn1|]. split; [exact Hn2|].
  subst n'. destruct (matches_node _ _ _ _); [|repeat split; reflexivity].
  unfold adj_node. cbn [n_path n_data n_subs]. repeat split; try reflexivity. apply tbl_without_adjust.
Qed.

(* DETACH, part 1: nothing at or below the departed session's directory is left *)
Theorem detach_subtree_gone : forall B sv s ss, inv B sv -> get_session sv s = Some ss ->
  forall n, In n (sv_tree (detach fx sv s)) -> is_prefix (session_dir ss) (n_path n) = false.
Proof.
  intros B sv s ss I Hss n Hn. destruct (detach_shape B sv s ss I Hss) as [Ht _]. rewrite Ht in Hn.
  apply in_tree_without in Hn as [n0 [_ [H2 [H3 _]]]]. now rewrite H3.
Qed.

(* DETACH, part 2: the departed session is no longer listed, everybody else is, unchanged *)
Theorem detach_sessions : forall B sv s ss, inv B sv -> get_session sv s = Some ss ->
  get_session (detach fx sv s) s = None /\
  map core (sv_sessions (detach fx sv s)) = map core (filter (fun x => negb (N.eqb (s_id x) s)) (sv_sessions sv)).
Proof.
  intros B sv s ss I Hss. split; [|apply (detach_shape B sv s ss I Hss)].
  unfold detach. rewrite Hss. unfold get_session. cbn [sv_sessions]. apply find_session_filter_self.
Qed.

(* DETACH, part 3: no subscriber table mentions the departed session *)
Theorem detach_no_marks : forall B sv s ss, small B -> inv B sv -> get_session sv s = Some ss ->
  forall n, In n (sv_tree (detach fx sv s)) -> ~ In s (map fst (n_subs n)) /\ tbl_get (n_subs n) s = 0%N.
Proof.
  intros B sv s ss HB I Hss n Hn.
  pose proof (detach_inv fx guard_on B sv s HB I) as I'.
  destruct (inv_marks _ _ _ I' n Hn) as [Hok Hget].
  assert (H0 : tbl_get (n_subs n) s = 0%N).
  { rewrite Hget. unfold count_for. destruct (detach_sessions B sv s ss I Hss) as [Hnone _]. now rewrite Hnone. }
  split; [|exact H0]. intros Hin. pose proof (tbl_in_get_pos _ _ Hok Hin). lia.
Qed.

(* DETACH, part 4: every remaining node is an old node outside the subtree, unchanged up to the departed session's mark *)
Theorem detach_rest_untouched : forall B sv s ss, inv B sv -> get_session sv s = Some ss ->
  forall n', In n' (sv_tree (detach fx sv s)) ->
  exists n, In n (sv_tree sv) /\ n_path n' = n_path n /\ n_data n' = n_data n /\
            tbl_without s (n_subs n') = tbl_without s (n_subs n).
Proof.
  intros B sv s ss I Hss n' Hn'. destruct (detach_shape B sv s ss I Hss) as [Ht _]. rewrite Ht in Hn'.
  assert (Hid : s_id ss = s) by (apply find_session_some in Hss; tauto).
  apply in_tree_without in Hn' as [n [H1 [_ [H3 [H4 H5]]]]]. rewrite Hid in H5. exists n. repeat split; assumption.
Qed.

(* ... and every old node outside the subtree other than the host node is still there *)
Theorem detach_rest_kept : forall B sv s ss, inv B sv -> get_session sv s = Some ss ->
  forall n, In n (sv_tree sv) -> is_prefix (session_dir ss) (n_path n) = false -> n_path n <> [s_host ss] ->
  has_node (sv_tree (detach fx sv s)) (n_path n) = true.
Proof.
  intros B sv s ss I Hss n Hn Hout Hnh. destruct (detach_shape B sv s ss I Hss) as [Ht _]. rewrite Ht.
  unfold tree_without. rewrite has_node_map; [|intros x; destruct (matches_node _ _ _ _); reflexivity].
  assert (H1 : In n (prune_tree (sv_tree sv) (session_dir ss))).
  { unfold prune_tree. apply filter_In. split; [exact Hn|]. now rewrite Hout. }
  apply has_node_spec. exists n. split; [|reflexivity].
  destruct (has_children _ _) eqn:Hch; [exact H1|].
  unfold prune_tree at 1. apply filter_In. split; [exact H1|]. apply negb_true_iff.
  destruct (is_prefix [s_host ss] (n_path n)) eqn:E; [|reflexivity]. exfalso.
  (* a node below the host node other than the host itself has an ancestor that is a child of the host *)
  apply is_prefix_spec in E as [r Hr]. destruct r as [|k r]; [rewrite app_nil_r in Hr; congruence|].
  assert (W1 : wf_tree (prune_tree (sv_tree sv) (session_dir ss))) by (apply wf_tree_prune, (inv_tree _ _ _ I)).
  destruct W1 as [_ [_ Hpre]]. destruct (Hpre n ([s_host ss] ++ [k]) r H1) as [c [Hc1 Hc2]].
  - rewrite Hr. now rewrite <- app_assoc.
  - discriminate.
  - exact (has_children_false _ _ c k Hch Hc1 Hc2).
Qed.

(* DETACH, part 5: the host node goes iff it became empty, i.e. iff no other session lives on that host *)
Theorem detach_host : forall B sv s ss, inv B sv -> get_session sv s = Some ss ->
  has_node (sv_tree (detach fx sv s)) [s_host ss] = true <->
  exists x, In x (sv_sessions sv) /\ s_id x <> s /\ s_host x = s_host ss.
Proof.
  intros B sv s ss I Hss. destruct (detach_shape B sv s ss I Hss) as [Ht _]. rewrite Ht.
  assert (Hin : In ss (sv_sessions sv)) by (apply find_session_some in Hss; tauto).
  assert (Hid : s_id ss = s) by (apply find_session_some in Hss; tauto).
  unfold tree_without. rewrite has_node_map; [|intros x; destruct (matches_node _ _ _ _); reflexivity].
  set (t1 := prune_tree (sv_tree sv) (session_dir ss)).
  assert (W1 : wf_tree t1) by (apply wf_tree_prune, (inv_tree _ _ _ I)).
  split.
  - intros H. destruct (has_children t1 [s_host ss]) eqn:Hch; [|rewrite has_node_prune_self in H; discriminate].
    unfold has_children in Hch. destruct (children t1 [s_host ss]) as [|c cs] eqn:Ec; [discriminate|].
    assert (Hc : In c (children t1 [s_host ss])) by (rewrite Ec; now left).
    apply children_in in Hc as [Hc1 [k Hk]]. apply in_prune in Hc1 as [Hc1 Hc2].
    destruct (inv_depth2 _ _ _ I c Hc1) as [x [Hx1 Hx2]]; [rewrite Hk; reflexivity|].
    exists x. split; [exact Hx1|]. rewrite Hk in Hx2.
    assert (Hh : s_host x = s_host ss) by (unfold session_dir in Hx2; cbn in Hx2; congruence).
    split; [|exact Hh]. intros E. assert (x = ss) by (apply (session_unique sv s ss x (inv_ids _ _ _ I) Hss Hx1 E)). subst x.
    rewrite Hk in Hc2. rewrite <- Hx2, is_prefix_refl in Hc2. discriminate.
  - intros [x [Hx1 [Hx2 Hx3]]].
    pose proof (inv_dirs_exist B sv x I Hx1) as Hdx. apply has_node_spec in Hdx as [c [Hc1 Hc2]].
    assert (Hne : session_dir x <> session_dir ss).
    { intros E. apply Hx2. assert (x = ss); [|now subst].
      apply (NoDup_map_inj _ _ session_dir (sv_sessions sv)); auto. apply (inv_dirs_nodup _ _ _ I). }
    assert (Hc3 : In c t1).
    { unfold t1, prune_tree. apply filter_In. split; [exact Hc1|]. apply negb_true_iff.
      destruct (is_prefix (session_dir ss) (n_path c)) eqn:E; [|reflexivity]. exfalso. apply Hne.
      rewrite Hc2 in E. symmetry. apply is_prefix_same_length; [exact E|reflexivity]. }
    assert (Hch : has_children t1 [s_host ss] = true).
    { unfold has_children. assert (Hcc : In c (children t1 [s_host ss])).
      { apply children_in. split; [exact Hc3|]. exists (s_name x). rewrite Hc2. unfold session_dir. now rewrite Hx3. }
      destruct (children t1 [s_host ss]); [destruct Hcc|reflexivity]. }
    rewrite Hch. destruct W1 as [_ [_ Hpre]].
    destruct (Hpre c [s_host ss] [s_name x] Hc3) as [h [Hh1 Hh2]].
    + rewrite Hc2. unfold session_dir. now rewrite Hx3.
    + discriminate.
    + apply has_node_spec. eauto.
Qed.

(* ------------------------------------------------------------------ DETACH, part 6: the subscribers are told *)

Definition same_core_sessions (sv sv' : server) : Prop := map core (sv_sessions sv') = map core (sv_sessions sv).

Lemma sessions_core_session : forall sv sv' t st, same_core_sessions sv sv' -> get_session sv t = Some st ->
  exists st', get_session sv' t = Some st' /\ s_subs st' = s_subs st /\ s_id st' = s_id st.
Proof.
  intros sv sv' t st Hc Hs. unfold get_session in *. pose proof (find_session_core _ _ t Hc) as H. rewrite Hs in H.
  destruct (find_session (sv_sessions sv') t) as [st'|]; [|contradiction]. exists st'. split; [reflexivity|]. unfold core in H. split; congruence.
Qed.

Lemma told_set_tree_ : forall sv tr t p, told sv t p -> told (set_tree sv tr) t p.
Proof. intros sv tr t p H. exact H. Qed.

(* the condition under which session st is owed a removal notice for a node (NodeChanged, 318-355): it is marked on the node,
   and if it uses filters at all, one of its subscriptions accepts the node's current payload *)
Definition owed (st : session) (n : node) : Prop :=
  In (s_id st) (map fst (n_subs n)) /\
  (N.ltb 0 (m_nfilters (s_subs st)) = true -> matches_node (s_subs st) (n_path n) (Some (n_data n)) 0 = true).

Lemma same_core_session : forall sv sv' t st, same_core sv sv' -> get_session sv t = Some st ->
  exists st', get_session sv' t = Some st' /\ s_subs st' = s_subs st /\ s_id st' = s_id st.
Proof.
  intros sv sv' t st Hc Hs. pose proof (get_session_core sv sv' t Hc) as H. rewrite Hs in H.
  destruct (get_session sv' t) as [st'|]; [|contradiction]. exists st'. split; [reflexivity|]. unfold core in H. split; congruence.
Qed.

(* NotifySubscribersThatNodeChanged(node, its data, being removed) called on session by_ tells every other owed subscriber *)
Lemma notify_removed_tells : forall sv by_ n t st,
  find_node (sv_tree sv) (n_path n) = Some n -> get_session sv t = Some st -> t <> by_ -> owed st n ->
  told (notify_changed sv by_ (n_path n) (n_data n) (Some (n_data n)) true) t (n_path n).
Proof.
  intros sv by_ n t st Hf Hs Hne [Hin Hflt]. unfold notify_changed. rewrite Hf.
  assert (Hid : s_id st = t) by (eapply get_session_some_id; eassumption). rewrite Hid in Hin.
  assert (G : forall (l : list (sid * N)) sv', same_core sv sv' -> In t (map fst l) ->
              told (fold_left (fun sv'0 (kc : sid * N) => if N.eqb (fst kc) by_ then sv'0
                                             else node_changed sv'0 (fst kc) (n_path n) (n_data n) (Some (n_data n)) true) l sv') t (n_path n)).
  { induction l as [|kc l IH]; intros sv' Hc Hl; [destruct Hl|]. cbn [fold_left].
    assert (Mono : forall (l0 : list (sid * N)) sv0, told sv0 t (n_path n) ->
              told (fold_left (fun sv'0 (kc0 : sid * N) => if N.eqb (fst kc0) by_ then sv'0
                                              else node_changed sv'0 (fst kc0) (n_path n) (n_data n) (Some (n_data n)) true) l0 sv0) t (n_path n)).
    { induction l0 as [|kc0 l0 IH0]; intros sv0 H0; cbn [fold_left]; [exact H0|]. apply IH0.
      destruct (N.eqb _ _); [exact H0|now apply told_node_changed]. }
    destruct Hl as [Hl|Hl].
    - rewrite Hl. assert (N.eqb t by_ = false) as -> by now apply N.eqb_neq. apply Mono.
      destruct (same_core_session sv sv' t st Hc Hs) as [st' [Hs' [Hsub _]]].
      eapply node_changed_tells; [exact Hs'|]. rewrite Hsub. exact Hflt.
    - apply IH; [|exact Hl]. destruct (N.eqb _ _); [exact Hc|]. eapply same_core_trans; [exact Hc|apply node_changed_core]. }
  apply G; [apply same_core_refl|exact Hin].
Qed.

Lemma remove_node_keeps : forall t q n, In n t -> n_path n <> q -> In n (remove_node t q).
Proof.
  intros t q n Hn Hq. unfold remove_node. apply filter_In. split; [exact Hn|]. apply negb_true_iff. now apply path_eqb_neq.
Qed.

Lemma remove_node_nodup : forall t q, NoDup (map n_path t) -> NoDup (map n_path (remove_node t q)).
Proof. intros t q H. unfold remove_node. now apply NoDup_map_filter. Qed.

(* DataNode::RemoveChild(.., notify, recurse): every owed subscriber of every node of the subtree is told *)
Lemma remove_subtree_tells : forall sv by_ p n t st,
  wf_tree (sv_tree sv) -> p <> [] -> In n (sv_tree sv) -> is_prefix p (n_path n) = true ->
  get_session sv t = Some st -> t <> by_ -> owed st n ->
  told (remove_subtree sv by_ p true) t (n_path n).
Proof.
  intros sv by_ p n t st Hwf Hp Hn Hpre Hs Hne Ho. unfold remove_subtree.
  assert (Hord : In (n_path n) (removal_order (S (length (sv_tree sv))) (sv_tree sv) p)).
  { apply pmem_spec. rewrite removal_order_mem; auto. }
  revert Hord. generalize (removal_order (S (length (sv_tree sv))) (sv_tree sv) p). intros l.
  set (step := fun (sv' : server) (q : path) =>
                 match find_node (sv_tree sv') q with
                 | Some n0 => set_tree (notify_changed sv' by_ q (n_data n0) (Some (n_data n0)) true)
                                       (remove_node (sv_tree (notify_changed sv' by_ q (n_data n0) (Some (n_data n0)) true)) q)
                 | None => sv'
                 end).
  change (In (n_path n) l -> told (fold_left step l sv) t (n_path n)).
  assert (Mono : forall l0 sv0, told sv0 t (n_path n) -> told (fold_left step l0 sv0) t (n_path n)).
  { induction l0 as [|q l0 IH0]; intros sv0 H0; cbn [fold_left]; [exact H0|]. apply IH0. unfold step.
    destruct (find_node _ _); [|exact H0]. apply told_set_tree_. now apply told_notify_changed. }
  assert (G : forall sv', same_core_sessions sv sv' -> NoDup (map n_path (sv_tree sv')) -> In n (sv_tree sv') ->
              In (n_path n) l -> told (fold_left step l sv') t (n_path n)).
  { induction l as [|q l IH]; intros sv' Hc Hnd Hin Hl; [destruct Hl|]. cbn [fold_left].
    destruct (path_eqb q (n_path n)) eqn:Eq.
    - apply path_eqb_eq in Eq. subst q. apply Mono. unfold step.
      rewrite (find_node_in _ n Hnd Hin). apply told_set_tree_.
      destruct (sessions_core_session sv sv' t st Hc Hs) as [st' [Hs' [Hsub Hid']]].
      apply (notify_removed_tells sv' by_ n t st'); [now apply find_node_in|exact Hs'|exact Hne|].
      destruct Ho as [Ho1 Ho2]. split; [now rewrite Hid'|now rewrite Hsub].
    - apply path_eqb_neq in Eq. destruct Hl as [Hl|Hl]; [contradiction|].
      unfold step at 2. destruct (find_node (sv_tree sv') q) as [n0|].
      + destruct (notify_changed_core sv' by_ q (n_data n0) (Some (n_data n0)) true) as [Ht Hss].
        apply IH; [| | |exact Hl]; cbn [sv_tree sv_sessions set_tree]; rewrite ?Ht.
        * unfold same_core_sessions in *. cbn [sv_sessions set_tree]. congruence.
        * now apply remove_node_nodup.
        * apply remove_node_keeps; [exact Hin|congruence].
      + now apply IH. }
  apply G; [reflexivity|apply Hwf|exact Hn].
Qed.

Lemma told_remove_subtree : forall sv by_ p notify t q, told sv t q -> told (remove_subtree sv by_ p notify) t q.
Proof.
  intros sv by_ p notify t q H. unfold remove_subtree.
  generalize (removal_order (S (length (sv_tree sv))) (sv_tree sv) p). intros l. revert sv H.
  induction l as [|x l IH]; intros sv H; cbn [fold_left]; [exact H|]. apply IH.
  destruct (find_node _ _); [|exact H]. apply told_set_tree_. destruct notify; [now apply told_notify_changed|exact H].
Qed.

(* DETACH, part 6: every other session that is owed a notice for a node of the departed session's subtree holds a
   PR_RESULT_DATAITEMS Message (handed to its gateway or still pending) that lists the node as removed *)
Theorem detach_tells : forall B sv s ss n t st, inv B sv -> get_session sv s = Some ss ->
  In n (sv_tree sv) -> is_prefix (session_dir ss) (n_path n) = true ->
  t <> s -> get_session sv t = Some st -> owed st n ->
  told (detach fx sv s) t (n_path n).
Proof.
  intros B sv s ss n t st I Hss Hn Hpre Hne Hst Ho. unfold detach. rewrite Hss.
  assert (Hin : In ss (sv_sessions sv)) by (apply find_session_some in Hss; tauto).
  pose proof (inv_dirs_exist B sv ss I Hin) as Hdir.
  assert (Hhost : has_node (sv_tree sv) [s_host ss] = true).
  { apply has_node_spec in Hdir as [n0 [H1 H2]].
    destruct (inv_tree _ _ _ I) as [_ [_ Hp]].
    destruct (Hp n0 [s_host ss] [s_name ss] H1 H2) as [n' [H3 H4]]; [discriminate|].
    apply has_node_spec. eauto. }
  rewrite Hhost, Hdir.
  assert (T1 : told (remove_subtree sv s (session_dir ss) true) t (n_path n)).
  { apply (remove_subtree_tells sv s (session_dir ss) n t st); auto; [apply (inv_tree _ _ _ I)|discriminate]. }
  set (sv1 := remove_subtree sv s (session_dir ss) true) in *.
  match goal with |- context [push_all ?X] => assert (T2 : told X t (n_path n)) end.
  { destruct (has_children _ _); [exact T1|now apply told_remove_subtree]. }
  match goal with |- context [push_all ?X] => set (sv2 := X) in * end.
  pose proof (told_push_all sv2 t (n_path n) T2) as T3.
  destruct T3 as [s3 [Hs3 Ht3]]. exists s3. split; [|exact Ht3].
  unfold get_session in *. cbn [sv_sessions]. rewrite find_session_filter; [exact Hs3|congruence].
Qed.

End Detach.
