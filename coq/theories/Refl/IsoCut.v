(* Refl/IsoCut.v -- C06 composed with C03: a connection cut after ANY byte prefix of a session's outgoing stream is a cut
   between two complete commands.
   The client side queues Messages on its gateway, the gateway pair of Gw/FrameModel.v (standard binary gateway, default
   encoding) moves bytes under arbitrary DoOutput / DoInput calls and arbitrary Write / Read results, and the server's
   session dispatches what its input gateway has delivered.  C03's prefix safety says the delivered list is a prefix of the
   queued list; so whatever the server does with the delivered Messages when the connection ends, it does with the first
   j queued Messages for some j -- never with a fragment of a Message. *)
From Coq Require Import List NArith Arith Lia.
From Muscle Require Import Gen.Consts Gw.GwBase Gw.TransportProofs Gw.FrameModel Gw.FrameProofs Gw.FrameDefault
     Refl.Base Refl.BaseProofs Refl.Tree Refl.Matcher Refl.Traverse Refl.Session Refl.Server Refl.ServerProofs
     Refl.IsoModel Refl.IsoFrame Refl.IsoRun Refl.IsoClean.
Import ListNotations.

Lemma prefix_firstn : forall (A : Type) (l d tl : list A), l = d ++ tl -> d = firstn (length d) l.
Proof. intros A l d tl ->. rewrite firstn_app, Nat.sub_diag, firstn_all. cbn. now rewrite app_nil_r. Qed.

(* C03, restated: at every moment of every run of the gateway pair, the receiver has been handed the first j queued
   Messages, whole, for some j *)
Theorem delivered_is_firstn : forall max_in (evs : list (GwBase.event bytes)),
  Forall (ev_wf (d_wfb max_in)) evs ->
  exists j, j <= length (ev_msgs evs) /\
            s_dlv (sys_run fs_queue d_do_output (d_do_input max_in) d_sys0 evs) = firstn j (ev_msgs evs).
Proof.
  intros max_in evs Hwf. destruct (d_prefix_safety max_in evs Hwf) as [tl Htl].
  exists (length (s_dlv (sys_run fs_queue d_do_output (d_do_input max_in) d_sys0 evs))). split.
  - rewrite Htl, app_length. lia.
  - now apply (prefix_firstn _ _ _ tl).
Qed.

Section Cut.
Context {M : MatchOps}.
Variable fx : fixes.

(* how the session reads a flattened Message: ANY function (Message parsing is C01/C02's subject) *)
Variable decode : bytes -> xcmd.
(* how the server's event loop interleaves the commands of s with everything else that happens: ANY function *)
Variable weave : list xevent -> list xevent.

Definition cmds_of (s : sid) (ms : list bytes) : list xevent := map (fun m => XCmd s (decode m)) ms.

(* the server after s's connection ended at an arbitrary moment of an arbitrary run of s's gateway pair *)
Definition cut_state (s : sid) (xs0 : xserver) (max_in : N) (evs : list (GwBase.event bytes)) : xserver :=
  xstep fx (xrun fx (weave (cmds_of s (s_dlv (sys_run fs_queue d_do_output (d_do_input max_in) d_sys0 evs)))) xs0) (XDetach s).

(* BYTE-LEVEL CUT = CUT BETWEEN COMMANDS.  For every Message sequence the client queued, every segmentation of its byte
   stream and every moment at which the connection ends: the server is in the state it would be in had the client sent
   exactly its first j Messages, for some j, and then closed the connection. *)
Theorem byte_cut_is_command_cut : forall s xs0 max_in (evs : list (GwBase.event bytes)),
  Forall (ev_wf (d_wfb max_in)) evs ->
  exists j, j <= length (ev_msgs evs) /\
            cut_state s xs0 max_in evs = xstep fx (xrun fx (weave (cmds_of s (firstn j (ev_msgs evs)))) xs0) (XDetach s).
Proof.
  intros s xs0 max_in evs Hwf. destruct (delivered_is_firstn max_in evs Hwf) as [j [Hj Hd]].
  exists j. split; [exact Hj|]. unfold cut_state. now rewrite Hd.
Qed.

End Cut.

(* ... and so the state after a cut at any byte is clean of s (Refl/IsoClean.v), whenever the commands that got through
   leave the server invariant in place -- which every well-formed history does (reachable_inv) *)
Theorem byte_cut_clean : forall (M : MatchOps) (L : MatchLaws M) (fx : fixes), fx_guard fx = true ->
  forall (decode : bytes -> xcmd) (weave : list xevent -> list xevent) s max_in (evs : list (GwBase.event bytes)),
  Forall (ev_wf (d_wfb max_in)) evs ->
  (forall j, small (xrun_budget (weave (cmds_of decode s (firstn j (ev_msgs evs))))) /\
             xwf_run fx empty_xserver (weave (cmds_of decode s (firstn j (ev_msgs evs))))) ->
  exists j, j <= length (ev_msgs evs) /\
    let before := xrun fx (weave (cmds_of decode s (firstn j (ev_msgs evs)))) empty_xserver in
    forall ss, get_session (xs_sv before) s = Some ss ->
    left_clean before s ss (cut_state fx decode weave s empty_xserver max_in evs).
Proof.
  intros M L fx G decode weave s max_in evs Hwf Hh.
  destruct (byte_cut_is_command_cut fx decode weave s empty_xserver max_in evs Hwf) as [j [Hj Hc]].
  exists j. split; [exact Hj|]. intros before ss Hs. rewrite Hc. destruct (Hh j) as [H1 H2].
  now apply (detach_clean fx G).
Qed.
