(* Extraction of the C06 model (Refl/Server.v + Refl/IsoModel.v + Refl/IsoOrd.v) for the correspondence run (ExtrOcamlBasic only). *)
From Coq Require Import ExtrOcamlBasic.
From Coq Require Extraction.
From Coq Require Import NArith ZArith List.
From Muscle Require Import Gen.Consts Refl.Base Refl.Tree Refl.Matcher Refl.Traverse Refl.Session Refl.Server Refl.IsoModel Refl.IsoOrd.
Definition dump_fuel : nat := S (N.to_nat c_MUSCLE_MAX_NODE_DEPTH).
(* the code as it is in the sources at hand: each repair is on iff its as-found text is gone *)
Definition head_fixes : fixes :=
  mkFixes (N.eqb c_c06_guard_as_found 0) (N.eqb c_c06_cqf_as_found 0) (N.eqb c_c06_push_as_found 0).
Extraction "iso_model.ml" xstep xclear empty_xserver ostep oclear empty_oserver o_x o_idx o_ctr idx_get head_fixes all_fixed as_found dfs dump_fuel sv_tree sv_sessions
  xs_sv xs_priv xs_log xs_ducks priv_get matches_path session_dir
  c_PR_COMMAND_INSERTORDEREDDATA c_PR_COMMAND_KICK c_PR_COMMAND_ADDBANS c_PR_COMMAND_REMOVEBANS c_PR_COMMAND_ADDREQUIRES c_PR_COMMAND_REMOVEREQUIRES
  c_PR_COMMAND_PING c_PR_COMMAND_NOOP c_PR_COMMAND_GETPARAMETERS c_PR_COMMAND_GETDATATREES c_PR_COMMAND_SETDATATREES
  c_PR_COMMAND_JETTISONRESULTS c_PR_COMMAND_JETTISONDATATREES c_END_PR_COMMANDS c_BEGIN_PR_COMMANDS.
