(* Refl/Traverse.v -- StorageReflectSession::NodePathMatcher::DoTraversal
   (DoTraversalAux 1510-1604, DoDirectChildLookup 1606-1618, CheckChildForTraversal 1620-1716).
   Definitions only.

   The traversal is generic in the callback: [cb acc node] returns the new accumulator and the
   depth the callback returns in the C++ (node depth = go on; smaller = unwind to that depth;
   -1 = abort).  The tree is the snapshot the traversal started on: no callback of the server
   changes names, structure or payloads while a traversal runs (subscription marks and pending
   Messages are the only things they touch).

   [guard_fixed] selects the test that lets a terminal clause match skip the full-path re-check:
     true : exactly one pattern in the whole matcher     (the repair of finding F12)
     false: exactly one clause-count GROUP               (the code as it was)                      *)
From Coq Require Import List NArith ZArith Bool Arith.
From Muscle Require Import Refl.Base Refl.Tree Refl.Matcher.
Import ListNotations.

Section Traverse.
Context {M : MatchOps}.
Variable A : Type.
Variable cb : A -> node -> A * Z.
Variable t : tree.
Variable m : matcher.
Variable root_depth : nat.
Variable use_filters : bool.
Variable guard_fixed : bool.

(* the entries of the groups that are not skipped by `if ((int32)iter.GetKey() <= relativeDepth) continue;` *)
Definition active (rel : nat) : list entry :=
  flat_map (fun g : group => if Nat.ltb rel (fst g) then snd g else []) (m_groups m).

Definition clause_at (e : entry) (rel : nat) : clause := nth rel (e_pat e) cstar.

Definition is_wild (c : clause) : bool := match ckeys c with None => true | Some _ => false end.

Definition single_guard : bool :=
  if guard_fixed then Nat.eqb (num_entries m) 1 else Nat.eqb (num_groups m) 1.

(* The loop over all parsers in CheckChildForTraversal for one child.  [rel] = depth of the child's parent
   minus rootDepth; [known] = optKnownMatchingEntryIdx.  Returns Some d when the traversal unwinds to depth d.
   (`break` is taken only when both actions are done, after which no later entry can act: returning is the same.) *)
Fixpoint check_entries (rec : path -> A -> A * Z) (child : node) (rel : nat) (known : option nat)
         (es : list entry) (idx : nat) (matched recursed : bool) (acc : A) : A * option Z :=
  match es with
  | [] => (acc, None)
  | e :: es' =>
    let hit := (match known with Some k => Nat.eqb idx k | None => false end)
               || cmatch (clause_at e rel) (last_name (n_path child)) in
    if hit then
      if Nat.eqb (length (e_pat e)) (S rel) then
        (* last clause of this path: the callback, at most once per node *)
        if matched then check_entries rec child rel known es' (S idx) matched recursed acc
        else
          let d := if use_filters then Some (n_data child) else None in
          if (single_guard && (negb use_filters || negb (has_filter e)))
             || matches_node m (n_path child) d root_depth then
            let '(acc1, nd) := cb acc child in
            if Z.ltb nd (Z.of_nat (depth child) - 1) then (acc1, Some nd)
            else if recursed then (acc1, None)
            else check_entries rec child rel known es' (S idx) true recursed acc1
          else check_entries rec child rel known es' (S idx) matched recursed acc
      else
        (* a non-terminal clause: descend, at most once per node *)
        if recursed then check_entries rec child rel known es' (S idx) matched recursed acc
        else
          let '(acc1, nd) := rec (n_path child) acc in
          if Z.ltb nd (Z.of_nat (depth child) - 1) then (acc1, Some nd)
          else if matched then (acc1, None)
          else check_entries rec child rel known es' (S idx) matched true acc1
    else check_entries rec child rel known es' (S idx) matched recursed acc
  end.

Definition check_child (rec : path -> A -> A * Z) (child : node) (rel : nat) (known : option nat) (acc : A)
  : A * option Z :=
  check_entries rec child rel known (active rel) 0 false false acc.

(* general case: iterate over all children *)
Fixpoint iter_children (rec : path -> A -> A * Z) (rel : nat) (cs : list node) (acc : A) : A * option Z :=
  match cs with
  | [] => (acc, None)
  | c :: cs' =>
    match check_child rec c rel None acc with
    | (acc1, Some d) => (acc1, Some d)
    | (acc1, None) => iter_children rec rel cs' acc1
    end
  end.

Fixpoint path_mem (p : path) (l : list path) : bool :=
  match l with [] => false | q :: r => path_eqb q p || path_mem p r end.

(* optimized case: one hash lookup per key of each entry's clause at this level; [did] = alreadyDid *)
Fixpoint lookup_keys (rec : path -> A -> A * Z) (x : path) (rel : nat) (idx : nat) (ks : list name)
         (did : list path) (acc : A) : A * list path * option Z :=
  match ks with
  | [] => (acc, did, None)
  | k :: ks' =>
    match get_child t x k with
    | Some c =>
      if path_mem (n_path c) did then lookup_keys rec x rel idx ks' did acc
      else
        match check_child rec c rel (Some idx) acc with
        | (acc1, Some d) => (acc1, did, Some d)
        | (acc1, None) => lookup_keys rec x rel idx ks' (n_path c :: did) acc1
        end
    | None => lookup_keys rec x rel idx ks' did acc
    end
  end.

Fixpoint lookup_entries (rec : path -> A -> A * Z) (x : path) (rel : nat) (es : list entry) (idx : nat)
         (did : list path) (acc : A) : A * option Z :=
  match es with
  | [] => (acc, None)
  | e :: es' =>
    let ks := match ckeys (clause_at e rel) with Some ks => ks | None => [] end in
    match lookup_keys rec x rel idx ks did acc with
    | (acc1, _, Some d) => (acc1, Some d)
    | (acc1, did1, None) => lookup_entries rec x rel es' (S idx) did1 acc1
    end
  end.

(* DoTraversalAux(data, node) for the node at path x; returns the accumulator and the depth to continue at *)
Fixpoint trav (fuel : nat) (x : path) (acc : A) : A * Z :=
  match fuel with
  | 0 => (acc, Z.of_nat (length x))
  | S f =>
    let rel := length x - root_depth in
    let es := active rel in
    let r := if existsb (fun e => is_wild (clause_at e rel)) es
             then iter_children (trav f) rel (children t x) acc
             else lookup_entries (trav f) x rel es 0 [] acc in
    match r with
    | (acc1, Some d) => (acc1, d)
    | (acc1, None) => (acc1, Z.of_nat (length x))
    end
  end.

End Traverse.

Section DoTraversal.
Context {M : MatchOps}.

Definition max_clauses (m : matcher) : nat := fold_right (fun g : group => Nat.max (fst g)) 0 (m_groups m).

(* NodePathMatcher::DoTraversal(cb, This, node, useFilters, userData), started at the node with path [root] *)
Definition do_traversal {A : Type} (cb : A -> node -> A * Z) (t : tree) (m : matcher) (root : path)
           (use_filters guard_fixed : bool) (acc : A) : A :=
  fst (trav A cb t m (length root) use_filters guard_fixed (S (max_clauses m)) root acc).

(* a callback that goes on with the traversal, as all node-marking / collecting callbacks do *)
Definition continue_cb {A : Type} (f : A -> node -> A) : A -> node -> A * Z :=
  fun acc n => (f acc n, Z.of_nat (depth n)).

(* the nodes a traversal calls back on, in order *)
Definition visits (t : tree) (m : matcher) (root : path) (use_filters guard_fixed : bool) : list node :=
  rev (do_traversal (continue_cb (fun acc n => n :: acc)) t m root use_filters guard_fixed []).

End DoTraversal.
