(* Extraction of the C13 index model for the correspondence run (ExtrOcamlBasic only). *)
From Coq Require Import ExtrOcamlBasic.
From Coq Require Extraction.
From Coq Require Import NArith.
From Muscle Require Import Gen.Consts Refl.Index Refl.IndexModel.
Definition op_clear : N := c_INDEX_OP_CLEARED.
Definition op_ins : N := c_INDEX_OP_ENTRYINSERTED.
Definition op_rem : N := c_INDEX_OP_ENTRYREMOVED.
Extraction "index_model.ml" init_state step cfg_fixed cfg_pinned subscribed index_at kids_of lookup replay
  pmatch op_clear op_ins op_rem expand expand_multi remove_child_quiet with_out has_node is_prefix parent_of.
