(* Refl/BoundedCost.v -- C07: cost accounting over the handlers of the shared server model (Refl/Server.v).
   Every item (a removed-string or a value) of every PR_RESULT_DATAITEMS Message is put there by one call of
   NodeChangedAux or GetDataCallback; [tw] counts the items held by all sessions (pending Message + Messages handed
   to the gateway), [SZ] the nodes and their subscriber-table entries, [NT] the nodes.  This file bounds, handler by
   handler, how much one call can add to each, on states with distinct session ids and distinct node paths. *)
From Coq Require Import List NArith ZArith Bool Arith Lia.
From Muscle Require Import Gen.Consts Refl.Base Refl.Tree Refl.Matcher Refl.Traverse Refl.Session Refl.Server
  Refl.Bounded Refl.BoundedSpec Refl.BoundedProofs Refl.BoundedInv Refl.BoundedLoops Refl.BoundedCount.
Import ListNotations.

Lemma NoDup_app_one : forall (A : Type) (l : list A) (x : A), NoDup l -> ~ In x l -> NoDup (l ++ [x]).
Proof.
  intros A l x Hnd Hn. induction l as [|a l IH]; cbn [app]; [constructor; [intros []|constructor]|].
  inversion Hnd; subst. constructor.
  - intros Hin. apply in_app_or in Hin. destruct Hin as [Hin|[Hin|[]]]; [contradiction|]. subst. apply Hn. left. reflexivity.
  - apply IH; [assumption|]. intros Hin. apply Hn. right. exact Hin.
Qed.

Section Cost.
Context {M : MatchOps}.

(* ------------------------------------------------------------------ measures *)

Definition wopt (o : option ditems) : nat := match o with Some d => di_weight d | None => 0 end.
Definition outw (l : list ditems) : nat := list_sum (map di_weight l).
Definition sw (x : session) : nat := wopt (s_pending x) + outw (s_out x).
Definition tw (sv : server) : nat := list_sum (map sw (sv_sessions sv)).

Definition nw (n : node) : nat := 1 + length (n_subs n).
Definition SZ (t : tree) : nat := list_sum (map nw t).
Definition NS (sv : server) : nat := length (sv_sessions sv).
Definition paths (sv : server) : list path := map n_path (sv_tree sv).

Definition good_sv (sv : server) : Prop := NoDup (ids sv) /\ NoDup (paths sv).

Lemma NS_ids : forall sv sv', ids sv' = ids sv -> NS sv' = NS sv.
Proof. intros sv sv' H. unfold NS. rewrite <- (map_length s_id), <- (map_length s_id (sv_sessions sv)). unfold ids in H. rewrite H. reflexivity. Qed.

Lemma outw_app : forall a b, outw (a ++ b) = outw a + outw b.
Proof. intros a b. unfold outw. rewrite map_app, list_sum_app. reflexivity. Qed.

Lemma sw_push_pending : forall x, sw (push_pending x) = sw x.
Proof.
  intros x. unfold push_pending. destruct (s_pending x) as [d|] eqn:E; [|reflexivity].
  unfold sw. cbn [set_pending send s_pending s_out wopt]. rewrite E. cbn [wopt]. rewrite outw_app.
  unfold outw. cbn [map]. rewrite list_sum_cons. cbn [list_sum fold_right]. lia.
Qed.

Lemma tw_push_all : forall sv, tw (push_all sv) = tw sv.
Proof.
  intros sv. unfold push_all. destruct (sv_dirty sv); [|reflexivity].
  unfold tw. cbn [sv_sessions]. rewrite map_map. f_equal. apply map_ext. intros x. apply sw_push_pending.
Qed.

Lemma upd_absent : forall (l : list session) s f, ~ In s (map s_id l) ->
  map (fun x => if N.eqb (s_id x) s then f x else x) l = l.
Proof.
  induction l as [|x l IH]; intros s f H; cbn [map]; [reflexivity|].
  cbn [map In] in H. destruct (N.eqb (s_id x) s) eqn:E.
  - apply N.eqb_eq in E. exfalso. apply H. left. exact E.
  - rewrite IH; [reflexivity|]. intros Hin. apply H. right. exact Hin.
Qed.

Lemma tw_upd : forall sv s ss f, NoDup (ids sv) -> get_session sv s = Some ss -> (forall x, s_id (f x) = s_id x) ->
  tw (upd_session sv s f) + sw ss = tw sv + sw (f ss).
Proof.
  intros sv s ss f Hnd Hs Hf. unfold tw, upd_session, get_session, ids in *. cbn [sv_sessions].
  induction (sv_sessions sv) as [|x l IH]; cbn [find_session map] in *; [discriminate|].
  rewrite !list_sum_cons. inversion Hnd as [|? ? Hn Hd]; subst.
  destruct (N.eqb (s_id x) s) eqn:E.
  - inversion Hs; subst x. apply N.eqb_eq in E. rewrite upd_absent by (rewrite <- E; exact Hn). lia.
  - specialize (IH Hd Hs). lia.
Qed.

Lemma tw_upd_le : forall sv s ss f k, NoDup (ids sv) -> get_session sv s = Some ss -> (forall x, s_id (f x) = s_id x) ->
  sw (f ss) <= sw ss + k -> tw (upd_session sv s f) <= tw sv + k.
Proof. intros sv s ss f k Hnd Hs Hf Hk. pose proof (tw_upd sv s ss f Hnd Hs Hf). lia. Qed.

Lemma sets_weight_add : forall l p v, sets_weight (sets_add l p v) = sets_weight l + 1.
Proof.
  induction l as [|[q vs] l IH]; intros p v; unfold sets_weight in *; cbn [sets_add map snd].
  - rewrite !list_sum_cons. cbn. lia.
  - destruct (path_eqb q p); cbn [map snd]; rewrite !list_sum_cons.
    + rewrite app_length. cbn. lia.
    + rewrite IH. lia.
Qed.

Lemma di_weight_add_set : forall d p v, di_weight (di_add_set d p v) = di_weight d + 1.
Proof. intros d p v. unfold di_weight, di_add_set. cbn [di_removed di_sets]. rewrite sets_weight_add. lia. Qed.

Lemma di_weight_add_removed : forall d p, di_weight (di_add_removed d p) = di_weight d + 1.
Proof. intros d p. unfold di_weight, di_add_removed. cbn [di_removed di_sets]. rewrite app_length. cbn. lia. Qed.

Lemma wopt_pending_or_new : forall ss : session, di_weight (pending_or_new ss) = wopt (s_pending ss).
Proof. intros ss. unfold pending_or_new. destruct (s_pending ss); reflexivity. Qed.

(* ------------------------------------------------------------------ NodeChangedAux, NodeChanged, notification *)

Lemma get_session_some_ids : forall sv sv' s ss, ids sv' = ids sv -> get_session sv s = Some ss -> exists ss', get_session sv' s = Some ss'.
Proof. intros sv sv' s ss Hi Hs. apply get_session_ids. rewrite Hi. apply get_session_ids. eexists. exact Hs. Qed.

Lemma tw_node_changed_aux : forall sv s p d removed, NoDup (ids sv) -> tw (node_changed_aux sv s p d removed) <= tw sv + 1.
Proof.
  intros sv s p d removed Hnd. unfold node_changed_aux.
  destruct (get_session sv s) as [ss|] eqn:Hs; [|lia]. cbv zeta.
  match goal with |- context [get_session ?sv1 s] => assert (H1 : tw sv1 <= tw sv + 1) end.
  { destruct removed; [destruct (di_has_set (pending_or_new ss) p)|].
    - set (sv0 := set_dirty (upd_session sv s (fun x => set_pending x (Some (pending_or_new ss)))) true).
      assert (H0 : tw sv0 <= tw sv + 0).
      { apply (tw_upd_le sv s ss); try assumption; [reflexivity|]. unfold sw. cbn [set_pending s_pending s_out wopt]. rewrite wopt_pending_or_new. lia. }
      assert (Hi : ids (push_all sv0) = ids sv) by (rewrite ids_push_all; subst sv0; rewrite ids_set_dirty, ids_upd_session by (intros; reflexivity); reflexivity).
      destruct (get_session_some_ids sv (push_all sv0) s ss Hi Hs) as [ss' Hs'].
      assert (H2 : tw (upd_session (push_all sv0) s (fun x => set_pending x (Some (di_add_removed empty_di p)))) <= tw (push_all sv0) + 1).
      { apply (tw_upd_le _ s ss'); [rewrite Hi; exact Hnd|exact Hs'|reflexivity|].
        unfold sw. cbn [set_pending s_pending s_out wopt]. rewrite di_weight_add_removed. cbn. lia. }
      rewrite tw_push_all in H2.
      change (tw (upd_session (push_all sv0) s (fun x => set_pending x (Some (di_add_removed empty_di p)))) <= tw sv + 1). lia.
    - apply (tw_upd_le sv s ss); try assumption; [reflexivity|]. unfold sw. cbn [set_pending s_pending s_out wopt].
      rewrite di_weight_add_removed, wopt_pending_or_new. lia.
    - apply (tw_upd_le sv s ss); try assumption; [reflexivity|]. unfold sw. cbn [set_pending s_pending s_out wopt].
      rewrite di_weight_add_set, wopt_pending_or_new. lia. }
  match goal with |- context [get_session ?sv1 s] =>
    destruct (get_session sv1 s) as [ss1|]; [|exact H1];
    destruct (s_pending ss1) as [pd|]; [|exact H1];
    destruct (N.leb (s_max ss1) (di_num_names pd)); [rewrite tw_push_all|]; exact H1 end.
Qed.

Lemma tw_node_changed : forall sv s p d old removed, NoDup (ids sv) -> tw (node_changed sv s p d old removed) <= tw sv + 1.
Proof.
  intros sv s p d old removed Hnd. unfold node_changed.
  destruct (get_session sv s) as [ss|]; [|lia].
  repeat first [ lia | apply tw_node_changed_aux; exact Hnd | outer_if | destruct old ].
Qed.

Lemma fold_tw : forall (B : Type) (f : server -> B -> server) (k : nat) (l : list B) (sv : server),
  (forall acc x, NoDup (ids acc) -> ids (f acc x) = ids acc /\ tw (f acc x) <= tw acc + k) ->
  NoDup (ids sv) -> tw (fold_left f l sv) <= tw sv + k * length l.
Proof.
  intros B f k l. induction l as [|x l IH]; intros sv Hf Hnd; cbn [fold_left length]; [lia|].
  destruct (Hf sv x Hnd) as [Hi Ht]. specialize (IH (f sv x) Hf ltac:(rewrite Hi; exact Hnd)). lia.
Qed.

Lemma tw_notify_changed : forall sv by_ p d old removed, NoDup (ids sv) ->
  tw (notify_changed sv by_ p d old removed) <=
  tw sv + match find_node (sv_tree sv) p with Some n => length (n_subs n) | None => 0 end.
Proof.
  intros sv by_ p d old removed Hnd. unfold notify_changed.
  destruct (find_node (sv_tree sv) p) as [n|]; [|lia].
  pose proof (fold_tw _ (fun sv' kc => if N.eqb (fst kc) by_ then sv' else node_changed sv' (fst kc) p d old removed) 1 (n_subs n) sv) as H.
  rewrite Nat.mul_1_l in H. apply H; [|exact Hnd].
  intros acc x Ha. destruct (N.eqb (fst x) by_); [split; [reflexivity|lia]|].
  split; [apply ids_node_changed|apply tw_node_changed; exact Ha].
Qed.

(* ------------------------------------------------------------------ trees *)

Lemma nw_le_SZ : forall t n, In n t -> nw n <= SZ t.
Proof.
  induction t as [|a t IH]; intros n H; [contradiction|].
  unfold SZ in *. cbn [map]. rewrite list_sum_cons. destruct H as [H|H].
  - subst. lia.
  - specialize (IH n H). lia.
Qed.

Lemma SZ_app : forall a b, SZ (a ++ b) = SZ a + SZ b.
Proof. intros a b. unfold SZ. rewrite map_app, list_sum_app. reflexivity. Qed.

Lemma length_le_SZ : forall t, length t <= SZ t.
Proof. induction t as [|a t IH]; unfold SZ in *; cbn [map length]; [lia|]. rewrite list_sum_cons. unfold nw at 1. lia. Qed.

Lemma tbl_put_len : forall t s c, length (tbl_put t s c) <= length t + 1.
Proof. induction t as [|[k c0] t IH]; intros s c; cbn [tbl_put length]; [lia|]. destruct (N.eqb k s); cbn [length]; [lia|]. specialize (IH s c). lia. Qed.

Lemma tbl_remove_len : forall t s, length (tbl_remove t s) <= length t.
Proof. induction t as [|[k c0] t IH]; intros s; cbn [tbl_remove length]; [lia|]. destruct (N.eqb k s); cbn [length]; [lia|]. specialize (IH s). lia. Qed.

Lemma tbl_adjust_len : forall t s delta, length (tbl_adjust t s delta) <= length t + 1.
Proof.
  intros t s delta. unfold tbl_adjust. destruct (Z.eqb delta 0); [lia|]. cbv zeta.
  outer_if; [apply tbl_put_len|]. pose proof (tbl_remove_len t s). lia.
Qed.

Lemma new_node_table_len : forall sv p, length (new_node_table sv p) <= NS sv.
Proof.
  intros sv p. unfold new_node_table, NS.
  assert (H : forall l tb, length (fold_left (fun tb ss => tbl_adjust tb (s_id ss) (i32_of_u32 (u32 (match_count (s_subs ss) p None 0)))) l tb)
                           <= length tb + length l).
  { induction l as [|x l IH]; intros tb; cbn [fold_left length]; [lia|].
    specialize (IH (tbl_adjust tb (s_id x) (i32_of_u32 (u32 (match_count (s_subs x) p None 0))))).
    pose proof (tbl_adjust_len tb (s_id x) (i32_of_u32 (u32 (match_count (s_subs x) p None 0)))). lia. }
  specialize (H (sv_sessions sv) []). cbn [length] in H. lia.
Qed.

Lemma map_node_paths : forall f t p, (forall n, n_path (f n) = n_path n) -> map n_path (map_node f t p) = map n_path t.
Proof.
  intros f t p Hf. unfold map_node. rewrite map_map. apply map_ext. intros n. destruct (path_eqb (n_path n) p); [apply Hf|reflexivity].
Qed.

Lemma map_node_absent : forall (f : node -> node) t p, ~ In p (map n_path t) ->
  map (fun n => if path_eqb (n_path n) p then f n else n) t = t.
Proof.
  intros f t p. induction t as [|b t IH]; intros Hn; cbn [map]; [reflexivity|].
  destruct (path_eqb (n_path b) p) eqn:Eb.
  - apply path_eqb_eq in Eb. exfalso. apply Hn. left. exact Eb.
  - rewrite IH; [reflexivity|]. intros Hin. apply Hn. right. exact Hin.
Qed.

Lemma SZ_map_node : forall f t p k, (forall n, n_path (f n) = n_path n) -> (forall n, length (n_subs (f n)) <= length (n_subs n) + k) ->
  NoDup (map n_path t) -> SZ (map_node f t p) <= SZ t + k.
Proof.
  intros f t p k Hp Hk. unfold map_node, SZ. induction t as [|a t IH]; intros Hnd; cbn [map]; [cbn; lia|].
  rewrite !list_sum_cons. inversion Hnd as [|? ? Hn Hd]; subst.
  destruct (path_eqb (n_path a) p) eqn:E.
  - apply path_eqb_eq in E.
    assert (Hid : map (fun n => if path_eqb (n_path n) p then f n else n) t = t) by (apply map_node_absent; rewrite <- E; exact Hn).
    rewrite Hid. unfold nw. specialize (Hk a). lia.
  - specialize (IH Hd). lia.
Qed.

Lemma SZ_set_data : forall t p d, SZ (set_data t p d) = SZ t.
Proof.
  intros t p d. unfold set_data, map_node, SZ. rewrite map_map. f_equal. apply map_ext. intros n.
  destruct (path_eqb (n_path n) p); reflexivity.
Qed.

Lemma paths_set_data : forall t p d, map n_path (set_data t p d) = map n_path t.
Proof. intros t p d. unfold set_data. apply map_node_paths. reflexivity. Qed.

Lemma length_set_data : forall t p d, length (set_data t p d) = length t.
Proof. intros t p d. unfold set_data, map_node. apply map_length. Qed.

Lemma find_node_none_paths : forall t p, find_node t p = None -> ~ In p (map n_path t).
Proof.
  induction t as [|a t IH]; intros p H; cbn [find_node map In] in *; [tauto|].
  destruct (path_eqb (n_path a) p) eqn:E; [discriminate|]. intros [Hi|Hi].
  - apply path_eqb_eq in Hi. congruence.
  - exact (IH p H Hi).
Qed.

Lemma remove_node_facts : forall t q, NoDup (map n_path t) ->
  NoDup (map n_path (remove_node t q)) /\ SZ (remove_node t q) <= SZ t /\ length (remove_node t q) <= length t.
Proof.
  intros t q Hnd. unfold remove_node. split; [apply NoDup_map_filter'; exact Hnd|]. split.
  - unfold SZ. induction t as [|a t IH]; cbn [filter map]; [lia|]. inversion Hnd; subst.
    destruct (negb (path_eqb (n_path a) q)); cbn [map]; rewrite ?list_sum_cons; specialize (IH ltac:(assumption)); lia.
  - pose proof (filter_length_le node (fun n => negb (path_eqb (n_path n) q)) (fun _ => true) t (fun _ _ => eq_refl)) as H.
    rewrite filter_true in H. exact H.
Qed.

(* removing a node that is there frees its own weight *)
Lemma SZ_remove_found : forall t q n, find_node t q = Some n -> SZ (remove_node t q) + nw n <= SZ t.
Proof.
  induction t as [|a t IH]; intros q n H; cbn [find_node] in H; [discriminate|].
  unfold remove_node, SZ in *. cbn [filter map].
  destruct (path_eqb (n_path a) q) eqn:E; cbn [negb].
  - inversion H; subst a. rewrite list_sum_cons.
    assert (Hle : list_sum (map nw (filter (fun n0 => negb (path_eqb (n_path n0) q)) t)) <= list_sum (map nw t)).
    { clear IH H E. induction t as [|b t IHt]; cbn [filter map]; [lia|].
      destruct (negb (path_eqb (n_path b) q)); cbn [map]; rewrite ?list_sum_cons; lia. }
    lia.
  - cbn [map]. rewrite !list_sum_cons. specialize (IH q n H). lia.
Qed.

(* ------------------------------------------------------------------ SetDataNode *)

(* what one handler call may do: same sessions, distinct paths kept, growth of nodes / node weight / items bounded *)
Definition step_ok (a b g : nat) (sv sv' : server) : Prop :=
  ids sv' = ids sv /\ NoDup (paths sv') /\ length (sv_tree sv') <= length (sv_tree sv) + a /\
  SZ (sv_tree sv') <= SZ (sv_tree sv) + b /\ tw sv' <= tw sv + g.

Lemma step_ok_refl : forall sv, good_sv sv -> step_ok 0 0 0 sv sv.
Proof. intros sv [_ H]. unfold step_ok. repeat split; try lia; assumption. Qed.

Lemma step_ok_weaken : forall a b g a' b' g' sv sv', a <= a' -> b <= b' -> g <= g' -> step_ok a b g sv sv' -> step_ok a' b' g' sv sv'.
Proof. intros a b g a' b' g' sv sv' Ha Hb Hg [H1 [H2 [H3 [H4 H5]]]]. unfold step_ok. repeat split; try assumption; lia. Qed.

Lemma step_ok_trans : forall a1 b1 g1 a2 b2 g2 sv sv1 sv2,
  step_ok a1 b1 g1 sv sv1 -> step_ok a2 b2 g2 sv1 sv2 -> step_ok (a1 + a2) (b1 + b2) (g1 + g2) sv sv2.
Proof.
  intros a1 b1 g1 a2 b2 g2 sv sv1 sv2 [H1 [H2 [H3 [H4 H5]]]] [K1 [K2 [K3 [K4 K5]]]]. unfold step_ok.
  repeat split; try assumption; try lia. congruence.
Qed.

Lemma good_step : forall a b g sv sv', good_sv sv -> step_ok a b g sv sv' -> good_sv sv'.
Proof. intros a b g sv sv' [H1 _] [K1 [K2 _]]. split; [rewrite K1; exact H1|exact K2]. Qed.

Lemma step_notify : forall sv by_ p d old removed n, good_sv sv -> find_node (sv_tree sv) p = Some n ->
  step_ok 0 0 (length (n_subs n)) sv (notify_changed sv by_ p d old removed).
Proof.
  intros sv by_ p d old removed n [Hi Hp] Hf. unfold step_ok, paths.
  rewrite tree_notify_changed, ids_notify_changed. repeat split; try lia; try assumption.
  pose proof (tw_notify_changed sv by_ p d old removed Hi) as H. rewrite Hf in H. exact H.
Qed.

Lemma set_data_loop_cost : forall cl sv by_ pp d dc dov q, good_sv sv ->
  step_ok (length cl) (length cl * (1 + NS sv)) (SZ (sv_tree sv) + length cl * (2 * NS sv + 1))
          sv (set_data_loop sv by_ pp cl d dc dov q).
Proof.
  induction cl as [|k rest IH]; intros sv by_ pp d dc dov q Hg; cbn [set_data_loop length].
  - eapply step_ok_weaken; [| | |apply step_ok_refl; exact Hg]; lia.
  - cbv zeta. destruct Hg as [Hi Hp]. destruct (find_node (sv_tree sv) (pp ++ [k])) as [n|] eqn:Hf.
    + destruct rest as [|k2 rest2].
      * destruct dov; [eapply step_ok_weaken; [| | |apply step_ok_refl; split; assumption]; lia|].
        set (sv1 := set_tree sv (set_data (sv_tree sv) (pp ++ [k]) d)).
        assert (H1 : step_ok 0 0 0 sv sv1).
        { unfold step_ok, sv1, paths. cbn [set_tree sv_tree]. rewrite paths_set_data, SZ_set_data, length_set_data.
          repeat split; try lia; try reflexivity; try exact Hp. change (tw sv <= tw sv + 0). lia. }
        destruct q; [eapply step_ok_weaken; [| | |exact H1]; lia|].
        assert (Hf1 : exists n1, find_node (sv_tree sv1) (pp ++ [k]) = Some n1 /\ n_subs n1 = n_subs n).
        { unfold sv1. cbn [set_tree sv_tree]. unfold set_data, map_node. clear -Hf.
          induction (sv_tree sv) as [|a t IHt]; cbn [find_node map] in *; [discriminate|].
          destruct (path_eqb (n_path a) (pp ++ [k])) eqn:E.
          - inversion Hf; subst a. cbn [n_path]. rewrite E. eexists. split; reflexivity.
          - rewrite E. apply IHt. exact Hf. }
        destruct Hf1 as [n1 [Hf1 Hs1]].
        pose proof (step_notify sv1 by_ (pp ++ [k]) d (Some (n_data n)) false n1 (good_step _ _ _ _ _ (conj Hi Hp) H1) Hf1) as H2.
        pose proof (step_ok_trans _ _ _ _ _ _ _ _ _ H1 H2) as H3.
        eapply step_ok_weaken; [| | |exact H3]; try lia.
        apply find_node_sound in Hf. pose proof (nw_le_SZ _ _ (proj1 Hf)). unfold nw in *. rewrite Hs1. lia.
      * pose proof (IH sv by_ (pp ++ [k]) d dc dov q (conj Hi Hp)) as H.
        eapply step_ok_weaken; [| | |exact H]; cbn [length]; lia.
    + destruct dc; [eapply step_ok_weaken; [| | |apply step_ok_refl; split; assumption]; lia|].
      outer_if; [eapply step_ok_weaken; [| | |apply step_ok_refl; split; assumption]; lia|].
      match goal with |- context [add_node (sv_tree sv) ?nn] => set (newn := nn) end.
      set (sv1 := set_tree sv (add_node (sv_tree sv) newn)).
      assert (Hlen : length (n_subs newn) <= NS sv) by (subst newn; cbn [n_subs]; apply new_node_table_len).
      assert (H1 : step_ok 1 (1 + NS sv) 0 sv sv1).
      { unfold step_ok, sv1, paths, add_node. cbn [set_tree sv_tree]. rewrite map_app, app_length, SZ_app. cbn [map length].
        split; [reflexivity|]. split.
        { apply NoDup_app_one; [exact Hp|]. subst newn. cbn [n_path]. apply find_node_none_paths. exact Hf. }
        split; [lia|]. split.
        { unfold SZ at 2. cbn [map]. rewrite list_sum_cons. cbn [list_sum fold_right]. unfold nw. lia. }
        change (tw sv <= tw sv + 0). lia. }
      assert (Hg1 : good_sv sv1) by (exact (good_step _ _ _ _ _ (conj Hi Hp) H1)).
      assert (Hns : NS sv1 = NS sv) by (apply NS_ids; apply H1).
      assert (H2 : forall dd oo, step_ok 1 (1 + NS sv) (NS sv) sv (if q then sv1 else notify_changed sv1 by_ (pp ++ [k]) dd oo false)).
      { intros dd oo. destruct q; [eapply step_ok_weaken; [| | |exact H1]; lia|].
        assert (Hf1 : exists n1, find_node (sv_tree sv1) (pp ++ [k]) = Some n1 /\ n_subs n1 = n_subs newn).
        { unfold sv1, add_node. cbn [set_tree sv_tree]. clear -Hf.
          induction (sv_tree sv) as [|a t IHt]; cbn [find_node app] in *.
          - subst newn. cbn [n_path]. assert (E : path_eqb (pp ++ [k]) (pp ++ [k]) = true) by (apply path_eqb_eq; reflexivity).
            rewrite E. eexists. split; reflexivity.
          - destruct (path_eqb (n_path a) (pp ++ [k])); [discriminate|]. apply IHt. exact Hf. }
        destruct Hf1 as [n1 [Hf1 Hs1]].
        pose proof (step_notify sv1 by_ (pp ++ [k]) dd oo false n1 Hg1 Hf1) as Hn.
        pose proof (step_ok_trans _ _ _ _ _ _ _ _ _ H1 Hn) as H3.
        eapply step_ok_weaken; [| | |exact H3]; try lia. rewrite Hs1. lia. }
      destruct rest as [|k2 rest2].
      * eapply step_ok_weaken; [| | |apply H2]; cbn [length]; lia.
      * specialize (H2 empty_payload None).
        set (sv2 := if q then sv1 else notify_changed sv1 by_ (pp ++ [k]) empty_payload None false) in *.
        assert (Hg2 : good_sv sv2) by (exact (good_step _ _ _ _ _ (conj Hi Hp) H2)).
        pose proof (IH sv2 by_ (pp ++ [k]) d false dov q Hg2) as H3.
        assert (Hns2 : NS sv2 = NS sv) by (apply NS_ids; apply H2).
        pose proof (step_ok_trans _ _ _ _ _ _ _ _ _ H2 H3) as H4.
        eapply step_ok_weaken; [| | |exact H4]; rewrite ?Hns2; cbn [length]; try lia.
        destruct H2 as [_ [_ [_ [Hsz _]]]]. nia.
Qed.

(* ------------------------------------------------------------------ removal: items + node weight never grow *)

Definition shrink_ok (sv0 sv : server) : Prop :=
  ids sv = ids sv0 /\ NoDup (paths sv) /\ length (sv_tree sv) <= length (sv_tree sv0) /\
  SZ (sv_tree sv) <= SZ (sv_tree sv0) /\ tw sv + SZ (sv_tree sv) <= tw sv0 + SZ (sv_tree sv0).

Lemma shrink_refl : forall sv, good_sv sv -> shrink_ok sv sv.
Proof. intros sv [_ H]. unfold shrink_ok. repeat split; try lia; try reflexivity; exact H. Qed.

Lemma shrink_leave : forall (sv0 acc : server) (by_ : sid) (notify : bool) (q : path), NoDup (ids sv0) -> shrink_ok sv0 acc ->
  shrink_ok sv0 (match find_node (sv_tree acc) q with
                 | None => acc
                 | Some n =>
                   let sv1 := if notify then notify_changed acc by_ q (n_data n) (Some (n_data n)) true else acc in
                   set_tree sv1 (remove_node (sv_tree sv1) q)
                 end).
Proof.
  intros sv0 acc by_ notify q Hnd [H1 [H2 [H3 [H4 H5]]]].
  destruct (find_node (sv_tree acc) q) as [n|] eqn:Hf; [|unfold shrink_ok; repeat split; assumption].
  cbv zeta.
  set (sv1 := if notify then notify_changed acc by_ q (n_data n) (Some (n_data n)) true else acc).
  assert (Ht : sv_tree sv1 = sv_tree acc) by (subst sv1; destruct notify; [apply tree_notify_changed|reflexivity]).
  assert (Hi : ids sv1 = ids acc) by (subst sv1; destruct notify; [apply ids_notify_changed|reflexivity]).
  assert (Hw : tw sv1 <= tw acc + length (n_subs n)).
  { subst sv1. destruct notify; [|lia].
    pose proof (tw_notify_changed acc by_ q (n_data n) (Some (n_data n)) true ltac:(rewrite H1; exact Hnd)) as H. rewrite Hf in H. exact H. }
  destruct (remove_node_facts (sv_tree acc) q H2) as [R1 [R2 R3]].
  pose proof (SZ_remove_found (sv_tree acc) q n Hf) as R4. unfold nw in R4.
  unfold shrink_ok, paths. cbn [set_tree sv_tree]. rewrite Ht.
  split; [change (ids sv1 = ids sv0); congruence|]. split; [exact R1|]. split; [lia|]. split; [lia|].
  change (tw sv1 + SZ (remove_node (sv_tree acc) q) <= tw sv0 + SZ (sv_tree sv0)). lia.
Qed.

Lemma remove_subtree_shrink : forall sv0 sv by_ p notify, NoDup (ids sv0) -> shrink_ok sv0 sv ->
  shrink_ok sv0 (remove_subtree sv by_ p notify).
Proof.
  intros sv0 sv by_ p notify Hnd Hs. unfold remove_subtree.
  generalize (removal_order (S (length (sv_tree sv))) (sv_tree sv) p). intros l. revert sv Hs.
  induction l as [|q l IH]; intros sv Hs; cbn [fold_left]; [exact Hs|].
  apply IH. apply (shrink_leave sv0 sv by_ notify q Hnd Hs).
Qed.

Variable fx : fixes.

Lemma do_remove_data_shrink : forall sv ss keys quiet, good_sv sv -> shrink_ok sv (do_remove_data fx sv ss keys quiet).
Proof.
  intros sv ss keys quiet Hg. unfold do_remove_data. cbv zeta.
  match goal with |- context [fold_left _ ?l sv] => generalize l end. intros l.
  assert (H : forall acc, shrink_ok sv acc ->
    shrink_ok sv (fold_left (fun sv' p => if has_node (sv_tree sv') p then remove_subtree sv' (s_id ss) p (negb quiet) else sv') l acc)).
  { induction l as [|q l IH]; intros acc Ha; cbn [fold_left]; [exact Ha|].
    apply IH. outer_if; [apply remove_subtree_shrink; [apply Hg|exact Ha]|exact Ha]. }
  apply H. apply shrink_refl. exact Hg.
Qed.

Lemma shrink_step : forall sv sv', shrink_ok sv sv' -> step_ok 0 0 (SZ (sv_tree sv)) sv sv'.
Proof. intros sv sv' [H1 [H2 [H3 [H4 H5]]]]. unfold step_ok. repeat split; try assumption; lia. Qed.

(* ------------------------------------------------------------------ subscriptions *)

Lemma tw_upd_same : forall sv s f, (forall x, sw (f x) = sw x) -> tw (upd_session sv s f) = tw sv.
Proof.
  intros sv s f Hf. unfold tw, upd_session. cbn [sv_sessions]. rewrite map_map. f_equal. apply map_ext.
  intros x. destruct (N.eqb (s_id x) s); [apply Hf|reflexivity].
Qed.

Lemma mark_nodes_cost : forall t m s delta, NoDup (map n_path t) ->
  map n_path (mark_nodes fx t m s delta) = map n_path t /\ SZ (mark_nodes fx t m s delta) <= SZ t + length t.
Proof.
  intros t m s delta Hnd. unfold mark_nodes.
  apply (do_traversal_cost tree (continue_cb (fun acc n => adjust_subs acc (n_path n) s delta)) SZ
           (fun acc => map n_path acc = map n_path t)); [|exact Hnd|reflexivity].
  intros acc n HQ. unfold continue_cb. cbn [fst]. unfold adjust_subs. split.
  - rewrite map_node_paths by reflexivity. exact HQ.
  - apply SZ_map_node; [reflexivity| |rewrite HQ; exact Hnd]. intros n0. cbn [n_subs]. apply tbl_adjust_len.
Qed.

Lemma mark_step : forall sv m s delta, good_sv sv ->
  step_ok 0 (length (sv_tree sv)) 0 sv (set_tree sv (mark_nodes fx (sv_tree sv) m s delta)).
Proof.
  intros sv m s delta [Hi Hp]. destruct (mark_nodes_cost (sv_tree sv) m s delta Hp) as [H1 H2].
  unfold step_ok, paths. cbn [set_tree sv_tree]. rewrite H1.
  split; [reflexivity|]. split; [exact Hp|]. split; [rewrite <- (map_length n_path), H1, map_length; lia|]. split; [lia|].
  change (tw sv <= tw sv + 0). lia.
Qed.

Lemma tree_cqf_cb : forall s oldf newf sv n, sv_tree (cqf_cb fx s oldf newf sv n) = sv_tree sv.
Proof.
  intros s oldf newf sv n. unfold cqf_cb. cbv zeta. outer_if; [reflexivity|].
  destruct (get_session sv s) as [ss|]; [|reflexivity]. outer_if; [reflexivity|apply tree_node_changed_aux].
Qed.

Lemma tw_cqf_cb : forall s oldf newf sv n, NoDup (ids sv) -> tw (cqf_cb fx s oldf newf sv n) <= tw sv + 1.
Proof.
  intros s oldf newf sv n Hnd. unfold cqf_cb. cbv zeta. outer_if; [lia|].
  destruct (get_session sv s) as [ss|]; [|lia]. outer_if; [lia|apply tw_node_changed_aux; exact Hnd].
Qed.

Lemma step_upd_same : forall sv s f, good_sv sv -> (forall x, s_id (f x) = s_id x) -> (forall x, sw (f x) = sw x) ->
  step_ok 0 0 0 sv (upd_session sv s f).
Proof.
  intros sv s f [Hi Hp] H1 H2. unfold step_ok, paths. rewrite ids_upd_session by exact H1. rewrite tw_upd_same by exact H2.
  cbn [upd_session sv_tree]. repeat split; try lia; assumption.
Qed.

Lemma subscribe_one_cost : forall sv s sf, good_sv sv ->
  step_ok 0 (length (sv_tree sv)) (length (sv_tree sv)) sv (subscribe_one fx sv s sf).
Proof.
  intros sv s sf Hg. unfold subscribe_one. cbv zeta.
  destruct (get_session sv s) as [ss|]; [|eapply step_ok_weaken; [| | |apply step_ok_refl; exact Hg]; lia].
  destruct (fix_path (fst sf)) as [|c0 fp]; [eapply step_ok_weaken; [| | |apply step_ok_refl; exact Hg]; lia|].
  destruct (m_get (s_subs ss) (c0 :: fp)) as [e|].
  - match goal with |- context [upd_session ?sv1 s _] => set (svt := sv1) end.
    assert (H1 : step_ok 0 0 (length (sv_tree sv)) sv svt).
    { assert (Ht : step_ok 0 0 (length (sv_tree sv)) sv
                    (do_traversal (continue_cb (cqf_cb fx s (e_flt e) (snd sf))) (sv_tree sv) (single (c0 :: fp)) [] false (fx_guard fx) sv)).
      { destruct Hg as [Hi Hp].
        destruct (do_traversal_cost server (continue_cb (cqf_cb fx s (e_flt e) (snd sf))) tw
                    (fun acc => ids acc = ids sv /\ sv_tree acc = sv_tree sv)
                    ltac:(intros acc n [Q1 Q2]; unfold continue_cb; cbn [fst]; split;
                          [split; [rewrite ids_cqf_cb; exact Q1|rewrite tree_cqf_cb; exact Q2]
                          |apply tw_cqf_cb; rewrite Q1; exact Hi])
                    (sv_tree sv) (single (c0 :: fp)) [] false (fx_guard fx) sv Hp (conj eq_refl eq_refl)) as [[Q1 Q2] Q3].
        unfold step_ok, paths. rewrite Q2. repeat split; try lia; assumption. }
      subst svt. destruct (snd sf), (e_flt e); try exact Ht.
      eapply step_ok_weaken; [| | |apply step_ok_refl; exact Hg]; lia. }
    pose proof (step_upd_same svt s (fun x => set_subs x (m_set_filter (s_subs x) (c0 :: fp) (snd sf)))
                  (good_step _ _ _ _ _ Hg H1) ltac:(reflexivity) ltac:(reflexivity)) as H2.
    pose proof (step_ok_trans _ _ _ _ _ _ _ _ _ H1 H2) as H3.
    eapply step_ok_weaken; [| | |exact H3]; lia.
  - pose proof (step_upd_same sv s (fun x => set_subs x (m_put (s_subs x) (c0 :: fp) (snd sf))) Hg ltac:(reflexivity) ltac:(reflexivity)) as H1.
    set (sv1 := upd_session sv s (fun x => set_subs x (m_put (s_subs x) (c0 :: fp) (snd sf)))) in *.
    pose proof (mark_step sv1 (single (c0 :: fp)) s 1 (good_step _ _ _ _ _ Hg H1)) as H2.
    pose proof (step_ok_trans _ _ _ _ _ _ _ _ _ H1 H2) as H3.
    eapply step_ok_weaken; [| | |exact H3]; try lia. subst sv1. cbn [upd_session sv_tree]. lia.
Qed.

Lemma unsubscribe_one_cost : forall sv s sp, good_sv sv ->
  step_ok 0 (length (sv_tree sv)) 0 sv (unsubscribe_one fx sv s sp).
Proof.
  intros sv s sp Hg. unfold unsubscribe_one. cbv zeta.
  destruct (get_session sv s) as [ss|]; [|eapply step_ok_weaken; [| | |apply step_ok_refl; exact Hg]; lia].
  destruct (m_remove (s_subs ss) (fix_path sp)) as [m'|]; [|eapply step_ok_weaken; [| | |apply step_ok_refl; exact Hg]; lia].
  pose proof (step_upd_same sv s (fun x => set_subs x m') Hg ltac:(reflexivity) ltac:(reflexivity)) as H1.
  set (sv1 := upd_session sv s (fun x => set_subs x m')) in *.
  pose proof (mark_step sv1 (single (fix_path sp)) s (-1) (good_step _ _ _ _ _ Hg H1)) as H2.
  pose proof (step_ok_trans _ _ _ _ _ _ _ _ _ H1 H2) as H3.
  eapply step_ok_weaken; [| | |exact H3]; try lia. subst sv1. cbn [upd_session sv_tree]. lia.
Qed.

(* ------------------------------------------------------------------ GETDATA *)

Lemma tree_getdata_cb : forall s acc n, sv_tree (snd (fst (getdata_cb s acc n))) = sv_tree (snd acc).
Proof.
  intros s [reply sv] n. unfold getdata_cb. destruct (get_session sv s) as [ss|]; [|reflexivity].
  destruct (own_node ss (n_path n)); [reflexivity|]. outer_if; reflexivity.
Qed.

Lemma sw_send : forall (x : session) r, sw (send x r) = sw x + di_weight r.
Proof.
  intros x r. unfold sw. cbn [send s_pending s_out]. rewrite outw_app. unfold outw at 2. cbn [map].
  rewrite list_sum_cons. cbn [list_sum fold_right]. lia.
Qed.

Lemma tw_send_le : forall sv s r, NoDup (ids sv) -> tw (upd_session sv s (fun x => send x r)) <= tw sv + di_weight r.
Proof.
  intros sv s r Hnd. destruct (get_session sv s) as [ss|] eqn:Hs.
  - apply (tw_upd_le sv s ss); [exact Hnd|exact Hs|reflexivity|]. rewrite sw_send. lia.
  - assert (Hno : ~ In s (ids sv)) by (intros Hin; apply get_session_ids in Hin; destruct Hin as [x Hx]; congruence).
    unfold tw, upd_session. cbn [sv_sessions]. rewrite upd_absent by exact Hno. lia.
Qed.

Lemma getdata_cb_cost : forall sv s acc n, NoDup (ids sv) -> ids (snd acc) = ids sv ->
  ids (snd (fst (getdata_cb s acc n))) = ids sv /\
  wopt (fst (fst (getdata_cb s acc n))) + tw (snd (fst (getdata_cb s acc n))) <= wopt (fst acc) + tw (snd acc) + 1.
Proof.
  intros sv s [reply sv0] n Hnd Hi. cbn [fst snd] in *. unfold getdata_cb.
  destruct (get_session sv0 s) as [ss|]; [|cbn [fst snd]; split; [exact Hi|lia]].
  destruct (own_node ss (n_path n)); [cbn [fst snd]; split; [exact Hi|lia]|].
  set (r := di_add_set match reply with Some r0 => r0 | None => empty_di end (n_path n) (n_data n)).
  assert (Hr : di_weight r = wopt reply + 1).
  { subst r. rewrite di_weight_add_set. destruct reply; reflexivity. }
  outer_if; cbn [fst snd wopt].
  - split; [rewrite ids_upd_session by (intros; reflexivity); exact Hi|].
    pose proof (tw_send_le sv0 s r ltac:(rewrite Hi; exact Hnd)). lia.
  - split; [exact Hi|lia].
Qed.

Lemma do_get_data_cost : forall sv s keys, good_sv sv -> step_ok 0 0 (length (sv_tree sv)) sv (do_get_data fx sv s keys).
Proof.
  intros sv s keys [Hi Hp]. unfold do_get_data.
  match goal with |- context [do_traversal ?cb ?t ?m ?root ?uf ?gf ?acc] =>
    destruct (do_traversal_cost (option ditems * server) cb (fun a => wopt (fst a) + tw (snd a))
                (fun a => ids (snd a) = ids sv /\ sv_tree (snd a) = sv_tree sv)
                ltac:(intros acc0 n [Q1 Q2]; destruct (getdata_cb_cost sv s acc0 n Hi Q1) as [G1 G2];
                      split; [split; [exact G1|rewrite tree_getdata_cb; exact Q2]|exact G2])
                t m root uf gf acc Hp (conj eq_refl eq_refl)) as [[Q1 Q2] Q3];
    destruct (do_traversal cb t m root uf gf acc) as [reply sv1]
  end.
  cbn [fst snd wopt] in *. unfold step_ok, paths.
  destruct reply as [r|].
  - rewrite ids_upd_session by (intros; reflexivity). cbn [upd_session sv_tree]. rewrite Q2.
    split; [exact Q1|]. split; [exact Hp|]. split; [lia|]. split; [lia|].
    pose proof (tw_send_le sv1 s r ltac:(rewrite Q1; exact Hi)) as Hle. cbn [wopt] in Q3.
    change (tw (upd_session sv1 s (fun x => send x r)) <= tw sv + length (sv_tree sv)). lia.
  - rewrite Q2. cbn [wopt] in Q3. repeat split; try lia; assumption.
Qed.

End Cost.
