(* Refl/IsoHonest.v -- C06: forged session fields.  Whatever PR_NAME_SESSION string a client puts into a client-to-client
   Message, every copy the server passes on carries the sender's own session name (or no such field, if there was none),
   names the true sender, and goes to somebody else; bounces and replies go to the sender alone. *)
From Coq Require Import List NArith ZArith Bool Arith Lia.
From Muscle Require Import Gen.Consts Refl.Base Refl.Tree Refl.Matcher Refl.Traverse Refl.Session Refl.Server
     Refl.IsoModel Refl.IsoBase Refl.IsoTrav.
Import ListNotations.

Section Honest.
Context {M : MatchOps}.
Variable fx : fixes.

(* what an entry that session ss's Message (what-code what, session field sess) adds to the log may look like *)
Definition honest (ss : session) (what : N) (sess : option name) (e : sid * reply) : Prop :=
  match snd e with
  | RForward from w se =>
      from = s_id ss /\ w = what /\ se = match sess with Some _ => Some (s_name ss) | None => None end /\ fst e <> s_id ss
  | RBounce _ w => fst e = s_id ss /\ w = what
  | RReply _ => fst e = s_id ss
  end.

Lemma pass_cb_honest : forall sv ss what sess (old : list (sid * reply)) acc n,
  (exists added, snd acc = old ++ added /\ Forall (honest ss what sess) added) ->
  exists added, snd (fst (pass_cb sv (s_id ss) (RForward (s_id ss) what (match sess with Some _ => Some (s_name ss) | None => None end)) acc n))
                = old ++ added /\ Forall (honest ss what sess) added.
Proof.
  intros sv ss what sess old [sent log] n [added [Ha Hf]]. cbn [snd] in Ha. unfold pass_cb.
  destruct (owner_of sv (n_path n)) as [t|]; [|now exists added].
  destruct (N.eqb (s_id t) (s_id ss)) eqn:E; [now exists added|].
  destruct (sid_mem (s_id t) sent); [now exists added|].
  cbn [fst snd]. exists (added ++ [(s_id t, RForward (s_id ss) what (match sess with Some _ => Some (s_name ss) | None => None end))]).
  split; [rewrite Ha; now rewrite app_assoc|]. apply Forall_app. split; [exact Hf|]. constructor; [|constructor].
  unfold honest. cbn [snd fst]. repeat split. now apply N.eqb_neq.
Qed.

Theorem dispatch_honest : forall xs ss what keys sess,
  exists added, xs_log (dispatch fx xs ss what keys sess) = xs_log xs ++ added /\ Forall (honest ss what sess) added.
Proof.
  intros xs ss what keys sess. unfold dispatch, bounce, log_to, with_ducks.
  assert (Hnil : exists added, xs_log xs = xs_log xs ++ added /\ Forall (honest ss what sess) added)
    by (exists []; split; [now rewrite app_nil_r|constructor]).
  assert (Hone : forall r, honest ss what sess (s_id ss, r) ->
                 exists added, xs_log xs ++ [(s_id ss, r)] = xs_log xs ++ added /\ Forall (honest ss what sess) added)
    by (intros r Hr; exists [(s_id ss, r)]; split; [reflexivity|constructor; [exact Hr|constructor]]).
  destruct (in_command_range what).
  - repeat (match goal with |- context [if ?b then _ else _] => destruct b end); cbn [xs_log];
      try exact Hnil; try (apply Hone; unfold honest; cbn; auto); destruct keys; cbn [xs_log]; exact Hnil.
  - destruct keys as [|k keys']; cbn [xs_log].
    + exists (flat_map (fun t => if N.eqb (s_id t) (s_id ss) then []
                                   else [(s_id t, RForward (s_id ss) what (match sess with Some _ => Some (s_name ss) | None => None end))])
                       (sv_sessions (xs_sv xs))).
      split; [reflexivity|]. apply Forall_forall. intros e He. apply in_flat_map in He as [t [_ He]].
      destruct (N.eqb (s_id t) (s_id ss)) eqn:E; [destruct He|]. destruct He as [<-|[]].
      unfold honest. cbn [snd fst]. repeat split. now apply N.eqb_neq.
    + apply (do_traversal_inv _ _ (sv_tree (xs_sv xs)) _ [] true (fx_guard fx)
               (fun acc => exists added, snd acc = xs_log xs ++ added /\ Forall (honest ss what sess) added)).
      * intros acc n Ha _ _. now apply pass_cb_honest.
      * exact Hnil.
Qed.

End Honest.
