(* Extraction of the Message-routing model for the C05 correspondence run (ExtrOcamlBasic only). *)
From Coq Require Import ExtrOcamlBasic.
From Coq Require Extraction.
From Coq Require Import NArith ZArith List.
From Muscle Require Import Gen.Consts Pat.Ere Pat.Translate Refl.Base Refl.Tree Refl.Matcher Refl.Traverse Refl.Session
  Refl.Server Refl.Route Refl.ClauseKeys Refl.PatInst.
Definition dump_fuel : nat := S (N.to_nat c_MUSCLE_MAX_NODE_DEPTH).
(* the key parsing of DoTraversalAux as the sources at hand have it (finding F52) *)
Definition uv_keep_as_is : bool := negb (N.eqb c_c05_uvkeys_as_found 1).
(* ... and whether it looks up empty items (finding F63) *)
Definition uv_empty_as_is : bool := negb (N.eqb c_c05_uvempty_as_found 1).
Extraction "route_model.ml" rstep empty_rstate r_as_is r_all_fixed r_as_found dfs dump_fuel sv_tree sv_sessions rs_srv rs_info
  find_nodes find_sessions matcher_of session_dir fix_path matches_path owner_of
  pat_ops pat_ops_n uv_keep_as_is uv_empty_as_is regex_supported.
