(* Refl/Index.v -- the ordered child index of a reflector DataNode (reflector/DataNode.{h,cpp}),
   the positional update log (PR_RESULT_INDEXUPDATED) and its client-side replay, and a flat
   node tree.  Definitions only (no proofs): see IndexProofs.v.  Written for reuse by the other
   reflector properties (C04..C07): nothing here knows about sessions or subscriptions.

   Names.  A node name is [NI n] (the text "I<n>" that InsertOrderedChild generates from
   _orderedCounter), [NX k] (the k-th name of some pool of other names) or [NS s] (the session
   directory of session s).  Only equality of names matters to the code that is modelled.

   Node.   [inode] = (_orderedIndex as option (list name): None = NULL pointer, Some l = the
   Queue<DataNodeRef> read as the names of the referenced children; _orderedCounter).
   The children table (Hashtable in insertion order) is NOT stored in the node: in the flat
   tree the children of p are the map entries p ++ [k], in map order, which is insertion order.

   Log.    [iop] = INDEX_OP_CLEARED | INDEX_OP_ENTRYINSERTED pos key | INDEX_OP_ENTRYREMOVED pos key. *)
From Coq Require Import List Arith Bool.
Import ListNotations.

Inductive name := NI (n : nat) | NX (k : nat) | NS (s : nat).

Definition name_eqb (a b : name) : bool :=
  match a, b with
  | NI x, NI y => Nat.eqb x y
  | NX x, NX y => Nat.eqb x y
  | NS x, NS y => Nat.eqb x y
  | _, _ => false
  end.

Definition path := list name.

Fixpoint path_eqb (p q : path) : bool :=
  match p, q with
  | [], [] => true
  | a :: p', b :: q' => name_eqb a b && path_eqb p' q'
  | _, _ => false
  end.

Fixpoint mem (k : name) (l : list name) : bool :=
  match l with [] => false | x :: t => name_eqb x k || mem k t end.

(* optInsertBefore / optMoveToBeforeThis: "" (or any name that is no child) | PR_NAME_REMOVE_FROM_INDEX | a name *)
Inductive bspec := BEnd | BRemove | BName (b : name).

Definition is_remove (b : bspec) : bool := match b with BRemove => true | _ => false end.

(* ------------------------------------------------------------------ the update log and its replay *)

Inductive iop := OpClear | OpIns (pos : nat) (k : name) | OpRem (pos : nat) (k : name).

(* Queue::InsertItemAt(i, x): i >= size appends;  Queue::RemoveItemAt(i): i >= size fails *)
Definition insert_at (l : list name) (i : nat) (x : name) : list name := firstn i l ++ x :: skipn i l.
Definition remove_at (l : list name) (i : nat) : list name := firstn i l ++ skipn (S i) l.

Definition replay1 (l : list name) (o : iop) : list name :=
  match o with
  | OpClear => []
  | OpIns i k => insert_at l i k
  | OpRem i _ => remove_at l i
  end.

Definition replay (ops : list iop) (l : list name) : list name := fold_left replay1 ops l.

(* an op "fits" a replica when a strict client can apply it: an insert position is at most the length,
   a remove position holds the named key *)
Definition op_fits (l : list name) (o : iop) : bool :=
  match o with
  | OpClear => true
  | OpIns i _ => i <=? length l
  | OpRem i k => match nth_error l i with Some x => name_eqb x k | None => false end
  end.

Fixpoint ops_fit (ops : list iop) (l : list name) : bool :=
  match ops with
  | [] => true
  | o :: t => op_fits l o && ops_fit t (replay1 l o)
  end.

(* ------------------------------------------------------------------ one node *)

Record inode := mkNode { idx : option (list name); ctr : nat }.

Definition new_node : inode := mkNode None 0.

Definition index_of (n : inode) : list name := match idx n with Some l => l | None => [] end.

(* `for (i = last; i >= 0; i--) if (index[i]->GetNodeName() == k) ...` : the LAST position holding k *)
Fixpoint find_last (k : name) (l : list name) : option nat :=
  match l with
  | [] => None
  | x :: t => match find_last k t with
              | Some i => Some (S i)
              | None => if name_eqb x k then Some 0 else None
              end
  end.

(* `while(true) {sprintf(buf, "I%u", _orderedCounter++); if (!HasChild(buf)) break;}` on fuel *)
Fixpoint gen_name (kids : list name) (c : nat) (fuel : nat) : name * nat :=
  match fuel with
  | 0 => (NI c, S c)
  | S f => if mem (NI c) kids then gen_name kids (S c) f else (NI c, S c)
  end.

(* position an ordered insert goes to: before the last occurrence of [b], else the end *)
Definition target_pos (b : bspec) (l : list name) : nat :=
  match b with
  | BName x => match find_last x l with Some i => i | None => length l end
  | _ => length l
  end.

(* DataNode::InsertOrderedChild(data, optInsertBefore, optNodeName, ...), index part.
   [kids] = the node's children before the call.  Returns the node, the new child's name
   (the caller performs PutChild) and the emitted notifications. *)
Definition insert_ordered_child (kids : list name) (n : inode) (b : bspec) (optname : option name)
  : inode * name * list iop :=
  let i1 := match idx n with
            | None => if is_remove b then None else Some []
            | Some l => Some l
            end in
  let '(nm, c') := match optname with
                   | Some x => (x, ctr n)
                   | None => gen_name kids (ctr n) (S (length kids))
                   end in
  match i1 with
  | Some l => if is_remove b then (mkNode i1 c', nm, [])
              else let i := target_pos b l in
                   (mkNode (Some (insert_at l i nm)) c', nm, [OpIns i nm])
  | None => (mkNode i1 c', nm, [])
  end.

(* DataNode::RemoveIndexEntry(key, notify) *)
Definition remove_entry (k : name) (l : list name) : list name * list iop :=
  match find_last k l with
  | Some i => (remove_at l i, [OpRem i k])
  | None => (l, [])
  end.

Definition remove_index_entry (n : inode) (k : name) : inode * list iop :=
  match idx n with
  | Some l => let '(l', ops) := remove_entry k l in (mkNode (Some l') (ctr n), ops)
  | None => (n, [])
  end.

(* DataNode::ReorderChild(child, optMoveToBeforeThis, notify); [kids] = the node's children
   (for the HasChild(optMoveToBeforeThis) test); [c] is a child of the node. *)
Definition reorder_go (kids : list name) (cn : nat) (c : name) (b : bspec) (l : list name) : inode * list iop :=
  let '(l1, ops1) := remove_entry c l in
  match b with
  | BRemove => (mkNode (Some l1) cn, ops1)
  | BEnd => (mkNode (Some (insert_at l1 (length l1) c)) cn, ops1 ++ [OpIns (length l1) c])
  | BName x => let tgt := if mem x kids then target_pos b l1 else length l1 in
               (mkNode (Some (insert_at l1 tgt c)) cn, ops1 ++ [OpIns tgt c])
  end.

Definition reorder_child (kids : list name) (n : inode) (c : name) (b : bspec) : inode * list iop :=
  let self := match b with BName x => name_eqb x c | _ => false end in
  match idx n with
  | None => if is_remove b then (n, []) else if self then (n, []) else reorder_go kids (ctr n) c b []
  | Some l => if self then (n, []) else reorder_go kids (ctr n) c b l
  end.

(* DataNode::InsertIndexEntryAt(insertIndex, notify, key): key must be a child; the notification
   carries the position as given (not clamped). *)
Definition insert_index_entry_at (kids : list name) (n : inode) (pos : nat) (k : name) : inode * list iop :=
  if mem k kids then (mkNode (Some (insert_at (index_of n) pos k)) (ctr n), [OpIns pos k])
  else (n, []).

(* DataNode::RemoveIndexEntryAt(removeIndex, notify) *)
Definition remove_index_entry_at (n : inode) (pos : nat) : inode * list iop :=
  match idx n with
  | Some l => match nth_error l pos with
              | Some k => (mkNode (Some (remove_at l pos)) (ctr n), [OpRem pos k])
              | None => (n, [])
              end
  | None => (n, [])
  end.

(* the snapshot GetDataCallback sends for a node: nothing for an absent or empty index,
   else clear + one insert per entry with its position *)
Fixpoint ins_from (i : nat) (l : list name) : list iop :=
  match l with [] => [] | k :: t => OpIns i k :: ins_from (S i) t end.

Definition snapshot (n : inode) : list iop :=
  match index_of n with
  | [] => []
  | l => OpClear :: ins_from 0 l
  end.

(* ------------------------------------------------------------------ flat node tree *)

Definition tree := list (path * inode).

Fixpoint lookup (t : tree) (p : path) : option inode :=
  match t with
  | [] => None
  | (q, n) :: r => if path_eqb q p then Some n else lookup r p
  end.

Definition has_node (t : tree) (p : path) : bool :=
  match lookup t p with Some _ => true | None => false end.

Definition index_at (t : tree) (p : path) : list name :=
  match lookup t p with Some n => index_of n | None => [] end.

(* replace the node stored at p (no effect if p is absent) *)
Fixpoint set_node (t : tree) (p : path) (n : inode) : tree :=
  match t with
  | [] => []
  | (q, m) :: r => if path_eqb q p then (q, n) :: r else (q, m) :: set_node r p n
  end.

(* a new node goes to the end: map order = creation order = Hashtable iteration order among siblings *)
Definition add_node (t : tree) (p : path) : tree :=
  if has_node t p then t else t ++ [(p, new_node)].

(* strip_prefix p q = Some r  iff  q = p ++ r *)
Fixpoint strip_prefix (p q : path) : option path :=
  match p, q with
  | [], _ => Some q
  | a :: p', b :: q' => if name_eqb a b then strip_prefix p' q' else None
  | _ :: _, [] => None
  end.

Definition is_prefix (p q : path) : bool :=
  match strip_prefix p q with Some _ => true | None => false end.

Fixpoint kids_of (t : tree) (p : path) : list name :=
  match t with
  | [] => []
  | (q, _) :: r => match strip_prefix p q with
                   | Some [k] => k :: kids_of r p
                   | _ => kids_of r p
                   end
  end.

(* all nodes at or below p, in map order *)
Definition subtree_paths (t : tree) (p : path) : list path :=
  map fst (filter (fun e => is_prefix p (fst e)) t).

Definition delete_subtree (t : tree) (p : path) : tree :=
  filter (fun e => negb (is_prefix p (fst e))) t.

Definition parent_of (p : path) : path := removelast p.
Definition last_name (p : path) : name := last p (NX 0).

(* ------------------------------------------------------------------ wildcard paths *)

Inductive clause := CAny | CLit (k : name).
Definition pattern := list clause.

Definition clause_match (c : clause) (k : name) : bool :=
  match c with CAny => true | CLit x => name_eqb x k end.

Fixpoint pmatch (pat : pattern) (p : path) : bool :=
  match pat, p with
  | [], [] => true
  | c :: pat', k :: p' => clause_match c k && pmatch pat' p'
  | _, _ => false
  end.

Definition clause_eqb (a b : clause) : bool :=
  match a, b with
  | CAny, CAny => true
  | CLit x, CLit y => name_eqb x y
  | _, _ => false
  end.

Fixpoint pattern_eqb (a b : pattern) : bool :=
  match a, b with
  | [], [] => true
  | x :: a', y :: b' => clause_eqb x y && pattern_eqb a' b'
  | _, _ => false
  end.

(* The nodes a single-pattern traversal (NodePathMatcher::DoTraversal from the node [root])
   calls back on, in traversal order: depth-first, children in iteration order. *)
Fixpoint expand (t : tree) (root : path) (pat : pattern) : list path :=
  match pat with
  | [] => [root]
  | c :: rest => flat_map (fun k => expand t (root ++ [k]) rest) (filter (clause_match c) (kids_of t root))
  end.

(* The nodes a traversal with several patterns of equal depth calls back on, in traversal order
   (NodePathMatcher::DoTraversalAux / CheckChildForTraversal): at every level the candidates are, when some
   pattern has a wildcard clause at that level, the children in iteration order that match some pattern's clause
   of that level; otherwise the children named by the patterns' clauses of that level, in pattern order, each
   once (direct lookup).  At the last level a candidate is reported when some pattern matches its whole path. *)
Definition is_any (c : clause) : bool := match c with CAny => true | CLit _ => false end.

Fixpoint dedupe_names (l : list name) : list name :=
  match l with
  | [] => []
  | x :: r => x :: filter (fun y => negb (name_eqb x y)) (dedupe_names r)
  end.

Fixpoint trav (k : nat) (t : tree) (pats : list pattern) (rootlen : nat) (node : path) : list path :=
  match k with
  | 0 => []
  | S k' =>
      let d := length node - rootlen in
      let cls := flat_map (fun p => match nth_error p d with Some c => [c] | None => [] end) pats in
      let kids := kids_of t node in
      let cands := if existsb is_any cls
                   then filter (fun x => existsb (fun c => clause_match c x) cls) kids
                   else dedupe_names (filter (fun x => mem x kids)
                                             (flat_map (fun c => match c with CLit x => [x] | CAny => [] end) cls)) in
      match k' with
      | 0 => filter (fun q => existsb (fun p => pmatch p (skipn rootlen q)) pats) (map (fun x => node ++ [x]) cands)
      | S _ => flat_map (fun x => trav k' t pats rootlen (node ++ [x])) cands
      end
  end.

Definition expand_multi (t : tree) (root : path) (pats : list pattern) : list path :=
  match pats with
  | [] => []
  | p :: _ => trav (length p) t pats (length root) root
  end.
