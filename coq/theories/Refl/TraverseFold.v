(* Refl/TraverseFold.v -- a traversal whose callback never asks to unwind, except by answering
   "skip to the session level" on nodes of a region it does nothing on, is a fold over the list of
   visited nodes [vtrav].  [vtrav] is the traversal specialised to callbacks that go on.

   Used twice: all marking / collecting callbacks (no region), and GetDataCallback, which returns
   NODE_DEPTH_SESSIONNAME on the asking session's own nodes. *)
From Coq Require Import List NArith ZArith Bool Arith Lia.
From Muscle Require Import Refl.Base Refl.BaseProofs Refl.Tree Refl.TreeProofs Refl.Matcher Refl.Traverse.
Import ListNotations.

Section VTrav.
Context {M : MatchOps}.
Variable t : tree.
Variable m : matcher.
Variable rd : nat.
Variable uf gf : bool.

(* the test that lets a terminal clause match call the callback *)
Definition term_ok (e : entry) (child : node) : bool :=
  (single_guard m gf && (negb uf || negb (has_filter e)))
  || matches_node m (n_path child) (if uf then Some (n_data child) else None) rd.

Definition hit_of (known : option nat) (idx : nat) (e : entry) (rel : nat) (child : node) : bool :=
  (match known with Some k => Nat.eqb idx k | None => false end)
  || cmatch (clause_at e rel) (last_name (n_path child)).

Fixpoint vcheck_entries (rec : path -> list node) (child : node) (rel : nat) (known : option nat)
         (es : list entry) (idx : nat) (matched recursed : bool) : list node :=
  match es with
  | [] => []
  | e :: es' =>
    if hit_of known idx e rel child then
      if Nat.eqb (length (e_pat e)) (S rel) then
        if matched then vcheck_entries rec child rel known es' (S idx) matched recursed
        else if term_ok e child
             then child :: (if recursed then [] else vcheck_entries rec child rel known es' (S idx) true recursed)
             else vcheck_entries rec child rel known es' (S idx) matched recursed
      else
        if recursed then vcheck_entries rec child rel known es' (S idx) matched recursed
        else rec (n_path child) ++ (if matched then [] else vcheck_entries rec child rel known es' (S idx) matched true)
    else vcheck_entries rec child rel known es' (S idx) matched recursed
  end.

Definition vcheck_child (rec : path -> list node) (child : node) (rel : nat) (known : option nat) : list node :=
  vcheck_entries rec child rel known (active m rel) 0 false false.

Definition viter_children (rec : path -> list node) (rel : nat) (cs : list node) : list node :=
  flat_map (fun c => vcheck_child rec c rel None) cs.

Fixpoint vlookup_keys (rec : path -> list node) (x : path) (rel idx : nat) (ks : list name) (did : list path)
  : list node * list path :=
  match ks with
  | [] => ([], did)
  | k :: ks' =>
    match get_child t x k with
    | Some c =>
      if path_mem (n_path c) did then vlookup_keys rec x rel idx ks' did
      else let '(l, did') := vlookup_keys rec x rel idx ks' (n_path c :: did) in
           (vcheck_child rec c rel (Some idx) ++ l, did')
    | None => vlookup_keys rec x rel idx ks' did
    end
  end.

Fixpoint vlookup_entries (rec : path -> list node) (x : path) (rel : nat) (es : list entry) (idx : nat) (did : list path)
  : list node :=
  match es with
  | [] => []
  | e :: es' =>
    let ks := match ckeys (clause_at e rel) with Some ks => ks | None => [] end in
    let '(l, did') := vlookup_keys rec x rel idx ks did in
    l ++ vlookup_entries rec x rel es' (S idx) did'
  end.

Fixpoint vtrav (fuel : nat) (x : path) : list node :=
  match fuel with
  | 0 => []
  | S f =>
    let rel := length x - rd in
    let es := active m rel in
    if existsb (fun e => is_wild (clause_at e rel)) es
    then viter_children (vtrav f) rel (children t x)
    else vlookup_entries (vtrav f) x rel es 0 []
  end.

End VTrav.

(* ------------------------------------------------------------------ the fold lemma *)

Section Fold.
Context {M : MatchOps}.
Variable A : Type.
Variable cb : A -> node -> A * Z.
Variable g : A -> node -> A.
Variable skip : path -> bool.
Variable sd : nat.
Variable P : A -> Prop.

Variable t : tree.
Variable m : matcher.
Variable rd : nat.
Variable uf gf : bool.

Hypothesis skip_depth : forall p, skip p = true -> sd <= length p.
Hypothesis skip_ext : forall p r, skip p = true -> skip (p ++ r) = true.
Hypothesis skip_enter : forall p k, skip (p ++ [k]) = true -> skip p = false -> length p <= sd.

Hypothesis cb_go : forall acc n, P acc -> skip (n_path n) = false ->
  exists nd, cb acc n = (g acc n, nd) /\ (Z.of_nat (depth n) - 1 <= nd)%Z /\ P (g acc n).
Hypothesis cb_skip : forall acc n, P acc -> skip (n_path n) = true -> cb acc n = (acc, Z.of_nat sd).

Definition g' (acc : A) (n : node) : A := if skip (n_path n) then acc else g acc n.

Lemma g'_go : forall acc n, skip (n_path n) = false -> g' acc n = g acc n.
Proof. intros acc n H. unfold g'. now rewrite H. Qed.

Lemma g'_skip : forall acc n, skip (n_path n) = true -> g' acc n = acc.
Proof. intros acc n H. unfold g'. now rewrite H. Qed.

Lemma fold_g'_P : forall l acc, P acc -> P (fold_left g' l acc).
Proof.
  induction l as [|n l IH]; intros acc HP; cbn; auto.
  apply IH. unfold g'. destruct (skip (n_path n)) eqn:E; auto.
  destruct (cb_go acc n HP E) as [nd [_ [_ HP']]]. exact HP'.
Qed.

Lemma fold_g'_skip : forall l acc, (forall n, In n l -> skip (n_path n) = true) -> fold_left g' l acc = acc.
Proof.
  induction l as [|n l IH]; intros acc H; cbn; auto.
  rewrite (g'_skip acc n (H n (or_introl eq_refl))). apply IH. intros n' Hn'. apply H. now right.
Qed.

Notation chk := (check_entries A cb m rd uf gf).
Notation vchk := (vcheck_entries m rd uf gf).

(* -- children outside the region ------------------------------------------------------------ *)

(* what a recursive call into the child may be assumed to do *)
Definition rec_ok (recT : path -> A -> A * Z) (recV : path -> list node) (p : path) : Prop :=
  (skip p = false -> forall acc, P acc -> recT p acc = (fold_left g' (recV p) acc, Z.of_nat (length p)))
  /\ (skip p = true -> forall acc, P acc ->
        (exists nd, recT p acc = (acc, nd) /\ (Z.of_nat sd <= nd)%Z) /\ fold_left g' (recV p) acc = acc).

Lemma chk_go : forall recT recV child rel known,
  skip (n_path child) = false ->
  rec_ok recT recV (n_path child) ->
  forall es idx matched recursed acc, P acc ->
  chk recT child rel known es idx matched recursed acc
  = (fold_left g' (vchk recV child rel known es idx matched recursed) acc, None).
Proof.
  intros recT recV child rel known Hs [Hrec _]. specialize (Hrec Hs).
  induction es as [|e es IH]; intros idx matched recursed acc HP; cbn [check_entries vcheck_entries fold_left]; auto.
  fold (hit_of known idx e rel child). fold (term_ok m rd uf gf e child).
  destruct (hit_of known idx e rel child); [|now apply IH].
  destruct (Nat.eqb (length (e_pat e)) (S rel)).
  - destruct matched; [now apply IH|].
    destruct (term_ok m rd uf gf e child); [|now apply IH].
    destruct (cb_go acc child HP Hs) as [nd [Hcb [Hnd HP']]]. rewrite Hcb.
    assert (Z.ltb nd (Z.of_nat (depth child) - 1) = false) as -> by (apply Z.ltb_ge; lia).
    cbn [fold_left]. rewrite (g'_go acc child Hs).
    destruct recursed; auto.
  - destruct recursed; [now apply IH|].
    rewrite (Hrec acc HP).
    assert (Z.ltb (Z.of_nat (length (n_path child))) (Z.of_nat (depth child) - 1) = false) as ->
        by (apply Z.ltb_ge; unfold depth; lia).
    rewrite fold_left_app.
    destruct matched; auto. apply IH. now apply fold_g'_P.
Qed.

(* -- children inside the region: nothing happens to the accumulator --------------------------- *)

Lemma vchk_in : forall recV child rel known es idx matched recursed n,
  In n (vchk recV child rel known es idx matched recursed) -> n = child \/ In n (recV (n_path child)).
Proof.
  intros recV child rel known. induction es as [|e es IH]; intros idx matched recursed n H; cbn in H; [contradiction|].
  destruct (hit_of known idx e rel child); [|now apply IH in H].
  destruct (Nat.eqb (length (e_pat e)) (S rel)).
  - destruct matched; [now apply IH in H|].
    destruct (term_ok m rd uf gf e child); [|now apply IH in H].
    destruct H as [H|H]; [now left|]. destruct recursed; [contradiction|now apply IH in H].
  - destruct recursed; [now apply IH in H|].
    apply in_app_or in H as [H|H]; [now right|]. destruct matched; [contradiction|now apply IH in H].
Qed.

Lemma chk_skip : forall recT recV child rel known,
  skip (n_path child) = true ->
  rec_ok recT recV (n_path child) ->
  forall es idx matched recursed acc, P acc ->
  exists r, chk recT child rel known es idx matched recursed acc = (acc, r)
            /\ (forall nd, r = Some nd -> (Z.of_nat sd <= nd)%Z).
Proof.
  intros recT recV child rel known Hs [_ Hrec]. specialize (Hrec Hs).
  induction es as [|e es IH]; intros idx matched recursed acc HP; cbn [check_entries].
  - exists None. split; auto. intros; discriminate.
  - fold (hit_of known idx e rel child). fold (term_ok m rd uf gf e child).
    destruct (hit_of known idx e rel child); [|now apply IH].
    destruct (Nat.eqb (length (e_pat e)) (S rel)).
    + destruct matched; [now apply IH|].
      destruct (term_ok m rd uf gf e child); [|now apply IH].
      rewrite (cb_skip acc child HP Hs).
      destruct (Z.ltb (Z.of_nat sd) (Z.of_nat (depth child) - 1)).
      * exists (Some (Z.of_nat sd)). split; auto. intros nd E; inversion E; lia.
      * destruct recursed; [|now apply IH]. exists None. split; auto. intros; discriminate.
    + destruct recursed; [now apply IH|].
      destruct (Hrec acc HP) as [[nd [Hr Hnd]] _]. rewrite Hr.
      destruct (Z.ltb nd (Z.of_nat (depth child) - 1)).
      * exists (Some nd). split; auto. intros nd' E; inversion E; subst; lia.
      * destruct matched; [|now apply IH]. exists None. split; auto. intros; discriminate.
Qed.

Lemma vchk_skip : forall recT recV child rel known,
  skip (n_path child) = true ->
  rec_ok recT recV (n_path child) ->
  forall es idx matched recursed acc, P acc ->
  fold_left g' (vchk recV child rel known es idx matched recursed) acc = acc.
Proof.
  intros recT recV child rel known Hs [_ Hrec]. specialize (Hrec Hs).
  induction es as [|e es IH]; intros idx matched recursed acc HP; cbn [vcheck_entries fold_left]; auto.
  destruct (hit_of known idx e rel child); [|now apply IH].
  destruct (Nat.eqb (length (e_pat e)) (S rel)).
  - destruct matched; [now apply IH|].
    destruct (term_ok m rd uf gf e child); [|now apply IH].
    cbn [fold_left]. rewrite (g'_skip acc child Hs). destruct recursed; auto.
  - destruct recursed; [now apply IH|].
    rewrite fold_left_app. destruct (Hrec acc HP) as [_ Hf]. rewrite Hf.
    destruct matched; auto.
Qed.

(* a child of a node outside the region, itself inside the region, cannot make the traversal unwind *)
Lemma chk_skip_noexit : forall recT recV child rel known x k,
  n_path child = x ++ [k] -> skip x = false ->
  skip (n_path child) = true ->
  rec_ok recT recV (n_path child) ->
  forall es idx matched recursed acc, P acc ->
  chk recT child rel known es idx matched recursed acc = (acc, None).
Proof.
  intros recT recV child rel known x k Hp Hx Hs Hrok.
  assert (Hd : (Z.of_nat (depth child) - 1 <= Z.of_nat sd)%Z).
  { unfold depth. rewrite Hp, app_length. cbn. rewrite Hp in Hs. pose proof (skip_enter x k Hs Hx). lia. }
  destruct Hrok as [_ Hrec]. specialize (Hrec Hs).
  induction es as [|e es IH]; intros idx matched recursed acc HP; cbn [check_entries]; auto.
  fold (hit_of known idx e rel child). fold (term_ok m rd uf gf e child).
  destruct (hit_of known idx e rel child); [|now apply IH].
  destruct (Nat.eqb (length (e_pat e)) (S rel)).
  - destruct matched; [now apply IH|].
    destruct (term_ok m rd uf gf e child); [|now apply IH].
    rewrite (cb_skip acc child HP Hs).
    assert (Z.ltb (Z.of_nat sd) (Z.of_nat (depth child) - 1) = false) as -> by (apply Z.ltb_ge; lia).
    destruct recursed; auto.
  - destruct recursed; [now apply IH|].
    destruct (Hrec acc HP) as [[nd [Hr Hnd]] _]. rewrite Hr.
    assert (Z.ltb nd (Z.of_nat (depth child) - 1) = false) as -> by (apply Z.ltb_ge; lia).
    destruct matched; auto.
Qed.


(* -- the loops of DoTraversalAux -------------------------------------------------------------- *)

Notation vchild := (vcheck_child m rd uf gf).

Lemma vchild_skip_in : forall recV c rel known n,
  (forall n', In n' (recV (n_path c)) -> skip (n_path n') = true) ->
  skip (n_path c) = true -> In n (vchild recV c rel known) -> skip (n_path n) = true.
Proof.
  intros recV c rel known n Hr Hs H. unfold vcheck_child in H. apply vchk_in in H as [H|H]; subst; auto.
Qed.

Section Loops.
Variable recT : path -> A -> A * Z.
Variable recV : path -> list node.
Hypothesis rec_all : forall p, rec_ok recT recV p.

(* one child of x, x outside the region *)
Lemma child_go : forall x k c rel known acc,
  n_path c = x ++ [k] -> skip x = false -> P acc ->
  check_child A cb m rd uf gf recT c rel known acc = (fold_left g' (vchild recV c rel known) acc, None).
Proof.
  intros x k c rel known acc Hp Hx HP. unfold check_child, vcheck_child.
  destruct (skip (n_path c)) eqn:Hs.
  - rewrite (chk_skip_noexit recT recV c rel known x k Hp Hx Hs (rec_all _) _ _ _ _ acc HP).
    now rewrite (vchk_skip recT recV c rel known Hs (rec_all _) _ _ _ _ acc HP).
  - now apply chk_go.
Qed.

Lemma iter_go : forall x rel cs acc,
  skip x = false -> (forall c, In c cs -> exists k, n_path c = x ++ [k]) -> P acc ->
  iter_children A cb m rd uf gf recT rel cs acc = (fold_left g' (viter_children m rd uf gf recV rel cs) acc, None).
Proof.
  intros x rel cs. induction cs as [|c cs IH]; intros acc Hx Hcs HP; cbn [iter_children viter_children flat_map fold_left]; auto.
  destruct (Hcs c (or_introl eq_refl)) as [k Hk].
  rewrite (child_go x k c rel None acc Hk Hx HP). rewrite fold_left_app.
  apply IH; auto.
  - intros c' Hc'. apply Hcs. now right.
  - now apply fold_g'_P.
Qed.

Lemma lookup_keys_go : forall x rel idx ks did acc,
  skip x = false -> P acc ->
  lookup_keys A cb t m rd uf gf recT x rel idx ks did acc
  = (fold_left g' (fst (vlookup_keys t m rd uf gf recV x rel idx ks did)) acc,
     snd (vlookup_keys t m rd uf gf recV x rel idx ks did), None).
Proof.
  intros x rel idx ks. induction ks as [|k ks IH]; intros did acc Hx HP; cbn [lookup_keys vlookup_keys fst snd fold_left]; auto.
  destruct (get_child t x k) as [c|] eqn:Hc; [|now apply IH].
  destruct (path_mem (n_path c) did); [now apply IH|].
  rewrite (child_go x k c rel (Some idx) acc (get_child_path _ _ _ _ Hc) Hx HP).
  destruct (vlookup_keys t m rd uf gf recV x rel idx ks (n_path c :: did)) as [l did'] eqn:E.
  cbn [fst snd]. rewrite fold_left_app.
  rewrite IH; auto; [|now apply fold_g'_P]. now rewrite E.
Qed.

Lemma lookup_entries_go : forall x rel es idx did acc,
  skip x = false -> P acc ->
  lookup_entries A cb t m rd uf gf recT x rel es idx did acc
  = (fold_left g' (vlookup_entries t m rd uf gf recV x rel es idx did) acc, None).
Proof.
  intros x rel es. induction es as [|e es IH]; intros idx did acc Hx HP; cbn [lookup_entries vlookup_entries fold_left]; auto.
  rewrite lookup_keys_go by auto.
  destruct (vlookup_keys t m rd uf gf recV x rel idx
              match ckeys (clause_at e rel) with Some ks => ks | None => [] end did) as [l did'] eqn:E.
  cbn [fst snd]. rewrite fold_left_app. apply IH; auto. now apply fold_g'_P.
Qed.

(* inside the region *)
Lemma child_skip : forall c rel known acc,
  skip (n_path c) = true -> P acc ->
  exists r, check_child A cb m rd uf gf recT c rel known acc = (acc, r)
            /\ (forall nd, r = Some nd -> (Z.of_nat sd <= nd)%Z).
Proof. intros c rel known acc Hs HP. unfold check_child. now apply (chk_skip recT recV). Qed.

Lemma iter_skip : forall x rel cs acc,
  skip x = true -> (forall c, In c cs -> exists k, n_path c = x ++ [k]) -> P acc ->
  exists r, iter_children A cb m rd uf gf recT rel cs acc = (acc, r)
            /\ (forall nd, r = Some nd -> (Z.of_nat sd <= nd)%Z).
Proof.
  intros x rel cs. induction cs as [|c cs IH]; intros acc Hx Hcs HP; cbn [iter_children].
  - exists None. split; auto. intros; discriminate.
  - destruct (Hcs c (or_introl eq_refl)) as [k Hk].
    assert (Hs : skip (n_path c) = true) by (rewrite Hk; now apply skip_ext).
    destruct (child_skip c rel None acc Hs HP) as [r [Hr Hnd]]. rewrite Hr.
    destruct r as [d|].
    + exists (Some d). split; auto.
    + apply IH; auto. intros c' Hc'. apply Hcs. now right.
Qed.

Lemma lookup_keys_skip : forall x rel idx ks did acc,
  skip x = true -> P acc ->
  exists did' r, lookup_keys A cb t m rd uf gf recT x rel idx ks did acc = (acc, did', r)
            /\ (forall nd, r = Some nd -> (Z.of_nat sd <= nd)%Z).
Proof.
  intros x rel idx ks. induction ks as [|k ks IH]; intros did acc Hx HP; cbn [lookup_keys].
  - exists did, None. split; auto. intros; discriminate.
  - destruct (get_child t x k) as [c|] eqn:Hc; [|now apply IH].
    destruct (path_mem (n_path c) did); [now apply IH|].
    assert (Hs : skip (n_path c) = true) by (rewrite (get_child_path _ _ _ _ Hc); now apply skip_ext).
    destruct (child_skip c rel (Some idx) acc Hs HP) as [r [Hr Hnd]]. rewrite Hr.
    destruct r as [d|].
    + exists did, (Some d). split; auto.
    + now apply IH.
Qed.

Lemma lookup_entries_skip : forall x rel es idx did acc,
  skip x = true -> P acc ->
  exists r, lookup_entries A cb t m rd uf gf recT x rel es idx did acc = (acc, r)
            /\ (forall nd, r = Some nd -> (Z.of_nat sd <= nd)%Z).
Proof.
  intros x rel es. induction es as [|e es IH]; intros idx did acc Hx HP; cbn [lookup_entries].
  - exists None. split; auto. intros; discriminate.
  - destruct (lookup_keys_skip x rel idx match ckeys (clause_at e rel) with Some ks => ks | None => [] end did acc Hx HP)
      as [did' [r [Hr Hnd]]]. rewrite Hr.
    destruct r as [d|].
    + exists (Some d). split; auto.
    + now apply IH.
Qed.

End Loops.

(* every node [vtrav] lists below x lies below x *)
Lemma vlookup_keys_in : forall recV x rel idx ks did n,
  In n (fst (vlookup_keys t m rd uf gf recV x rel idx ks did)) ->
  exists k c, get_child t x k = Some c /\ In n (vchild recV c rel (Some idx)).
Proof.
  intros recV x rel idx ks. induction ks as [|k ks IH]; intros did n H; cbn in H; [contradiction|].
  destruct (get_child t x k) as [c|] eqn:Hc; [|now apply IH in H].
  destruct (path_mem (n_path c) did); [now apply IH in H|].
  destruct (vlookup_keys t m rd uf gf recV x rel idx ks (n_path c :: did)) as [l did'] eqn:E. cbn in H.
  apply in_app_or in H as [H|H]; [now exists k, c|].
  apply (IH (n_path c :: did)). now rewrite E.
Qed.

Lemma vlookup_entries_in : forall recV x rel es idx did n,
  In n (vlookup_entries t m rd uf gf recV x rel es idx did) ->
  exists k c known, get_child t x k = Some c /\ In n (vchild recV c rel known).
Proof.
  intros recV x rel es. induction es as [|e es IH]; intros idx did n H; cbn in H; [contradiction|].
  destruct (vlookup_keys t m rd uf gf recV x rel idx
              match ckeys (clause_at e rel) with Some ks => ks | None => [] end did) as [l did'] eqn:E.
  apply in_app_or in H as [H|H].
  - assert (H' : In n (fst (vlookup_keys t m rd uf gf recV x rel idx
              match ckeys (clause_at e rel) with Some ks => ks | None => [] end did))) by now rewrite E.
    apply vlookup_keys_in in H' as [k [c [Hc Hn]]]. now exists k, c, (Some idx).
  - now apply IH in H.
Qed.

Lemma vtrav_below : forall fuel x n, In n (vtrav t m rd uf gf fuel x) -> exists r, r <> [] /\ n_path n = x ++ r.
Proof.
  induction fuel as [|f IH]; intros x n H; cbn in H; [contradiction|].
  assert (Hc : forall c known k, n_path c = x ++ [k] -> In n (vchild (vtrav t m rd uf gf f) c (length x - rd) known) ->
               exists r, r <> [] /\ n_path n = x ++ r).
  { intros c known k Hk Hn. unfold vcheck_child in Hn. apply vchk_in in Hn as [Hn|Hn].
    - subst. exists [k]. split; [discriminate|auto].
    - apply IH in Hn as [r [Hr Hn]]. exists (k :: r). split; [discriminate|]. rewrite Hn, Hk, <- app_assoc. reflexivity. }
  destruct (existsb _ _).
  - unfold viter_children in H. apply in_flat_map in H as [c [Hc1 Hc2]].
    apply children_in in Hc1 as [_ [k Hk]]. eauto.
  - apply vlookup_entries_in in H as [k [c [known [Hg Hn]]]].
    apply get_child_path in Hg. eauto.
Qed.

(* -- DoTraversalAux --------------------------------------------------------------------------- *)

Lemma trav_rec_ok : forall fuel p,
  rec_ok (trav A cb t m rd uf gf fuel) (vtrav t m rd uf gf fuel) p.
Proof.
  induction fuel as [|f IH]; intros p.
  - split; intros Hs acc HP; cbn; auto.
    split; auto. exists (Z.of_nat (length p)). split; auto. apply skip_depth in Hs. lia.
  - split; intros Hs acc HP.
    + cbn [trav vtrav]. destruct (existsb _ _).
      * rewrite (iter_go _ _ IH p _ _ acc Hs); auto. intros c Hc. now apply children_in in Hc as [_ Hc].
      * now rewrite (lookup_entries_go _ _ IH p _ _ _ _ acc Hs).
    + split.
      * cbn [trav]. destruct (existsb _ _).
        -- destruct (iter_skip _ _ IH p (length p - rd) (children t p) acc Hs) as [r [Hr Hnd]]; auto.
           { intros c Hc. now apply children_in in Hc as [_ Hc]. }
           rewrite Hr. destruct r as [d|]; eauto.
           exists (Z.of_nat (length p)). split; auto. apply skip_depth in Hs. lia.
        -- destruct (lookup_entries_skip _ _ IH p (length p - rd) (active m (length p - rd)) 0 [] acc Hs HP) as [r [Hr Hnd]].
           rewrite Hr. destruct r as [d|]; eauto.
           exists (Z.of_nat (length p)). split; auto. apply skip_depth in Hs. lia.
      * apply fold_g'_skip. intros n Hn. apply vtrav_below in Hn as [r [_ Hn]]. rewrite Hn. now apply skip_ext.
Qed.

(* the traversal started at a node outside the region is the fold of g' over the visit list *)
Theorem trav_fold : forall fuel x acc,
  skip x = false -> P acc ->
  trav A cb t m rd uf gf fuel x acc = (fold_left g' (vtrav t m rd uf gf fuel x) acc, Z.of_nat (length x)).
Proof. intros fuel x acc Hs HP. destruct (trav_rec_ok fuel x) as [H _]. now apply H. Qed.

End Fold.

(* ------------------------------------------------------------------ invariants of the accumulator *)

(* whatever the callback answers, a property of the accumulator that every callback call preserves is
   preserved by the whole traversal *)
Section Invariant.
Context {M : MatchOps}.
Variable A : Type.
Variable cb : A -> node -> A * Z.
Variable Q : A -> Prop.
Variable t : tree.
Variable m : matcher.
Variable rd : nat.
Variable uf gf : bool.
Hypothesis cb_Q : forall acc n, Q acc -> Q (fst (cb acc n)).

Lemma chk_Q : forall recT child rel known,
  (forall p acc, Q acc -> Q (fst (recT p acc))) ->
  forall es idx matched recursed acc, Q acc ->
  Q (fst (check_entries A cb m rd uf gf recT child rel known es idx matched recursed acc)).
Proof.
  intros recT child rel known Hrec. induction es as [|e es IH]; intros idx matched recursed acc HQ; cbn [check_entries]; auto.
  match goal with |- context [if ?b then _ else _] => destruct b end; [|now apply IH].
  destruct (Nat.eqb (length (e_pat e)) (S rel)).
  - destruct matched; [now apply IH|].
    match goal with |- context [if ?b then _ else _] => destruct b end; [|now apply IH].
    pose proof (cb_Q acc child HQ) as H1. destruct (cb acc child) as [acc1 nd]. cbn [fst] in H1.
    destruct (Z.ltb nd (Z.of_nat (depth child) - 1)); auto.
    destruct recursed; auto.
  - destruct recursed; [now apply IH|].
    pose proof (Hrec (n_path child) acc HQ) as H1. destruct (recT (n_path child) acc) as [acc1 nd]. cbn [fst] in H1.
    destruct (Z.ltb nd (Z.of_nat (depth child) - 1)); auto.
    destruct matched; auto.
Qed.

Lemma iter_Q : forall recT rel,
  (forall p acc, Q acc -> Q (fst (recT p acc))) ->
  forall cs acc, Q acc -> Q (fst (iter_children A cb m rd uf gf recT rel cs acc)).
Proof.
  intros recT rel Hrec. induction cs as [|c cs IH]; intros acc HQ; cbn [iter_children]; auto.
  unfold check_child.
  pose proof (chk_Q recT c rel None Hrec (active m rel) 0 false false acc HQ) as H1.
  destruct (check_entries A cb m rd uf gf recT c rel None (active m rel) 0 false false acc) as [acc1 [d|]]; auto.
Qed.

Lemma lookup_keys_Q : forall recT x rel idx,
  (forall p acc, Q acc -> Q (fst (recT p acc))) ->
  forall ks did acc, Q acc -> Q (fst (fst (lookup_keys A cb t m rd uf gf recT x rel idx ks did acc))).
Proof.
  intros recT x rel idx Hrec. induction ks as [|k ks IH]; intros did acc HQ; cbn [lookup_keys]; auto.
  destruct (get_child t x k) as [c|]; [|now apply IH].
  destruct (path_mem (n_path c) did); [now apply IH|].
  unfold check_child.
  pose proof (chk_Q recT c rel (Some idx) Hrec (active m rel) 0 false false acc HQ) as H1.
  destruct (check_entries A cb m rd uf gf recT c rel (Some idx) (active m rel) 0 false false acc) as [acc1 [d|]]; auto.
Qed.

Lemma lookup_entries_Q : forall recT x rel,
  (forall p acc, Q acc -> Q (fst (recT p acc))) ->
  forall es idx did acc, Q acc -> Q (fst (lookup_entries A cb t m rd uf gf recT x rel es idx did acc)).
Proof.
  intros recT x rel Hrec. induction es as [|e es IH]; intros idx did acc HQ; cbn [lookup_entries]; auto.
  pose proof (lookup_keys_Q recT x rel idx Hrec
                match ckeys (clause_at e rel) with Some ks => ks | None => [] end did acc HQ) as H1.
  destruct (lookup_keys A cb t m rd uf gf recT x rel idx
              match ckeys (clause_at e rel) with Some ks => ks | None => [] end did acc) as [[acc1 did1] [d|]]; auto.
Qed.

Lemma trav_Q : forall fuel x acc, Q acc -> Q (fst (trav A cb t m rd uf gf fuel x acc)).
Proof.
  induction fuel as [|f IH]; intros x acc HQ; cbn [trav]; auto.
  destruct (existsb _ _).
  - pose proof (iter_Q (trav A cb t m rd uf gf f) (length x - rd) IH (children t x) acc HQ) as H1.
    destruct (iter_children A cb m rd uf gf (trav A cb t m rd uf gf f) (length x - rd) (children t x) acc) as [acc1 [d|]]; auto.
  - pose proof (lookup_entries_Q (trav A cb t m rd uf gf f) x (length x - rd) IH (active m (length x - rd)) 0 [] acc HQ) as H1.
    destruct (lookup_entries A cb t m rd uf gf (trav A cb t m rd uf gf f) x (length x - rd) (active m (length x - rd)) 0 [] acc)
      as [acc1 [d|]]; auto.
Qed.

End Invariant.

Theorem do_traversal_Q : forall {M : MatchOps} (A : Type) (cb : A -> node -> A * Z) (Q : A -> Prop) t m uf gf,
  (forall acc n, Q acc -> Q (fst (cb acc n))) ->
  forall root acc, Q acc -> Q (do_traversal cb t m root uf gf acc).
Proof. intros M A cb Q t m uf gf H root acc HQ. unfold do_traversal. now apply trav_Q. Qed.

(* a callback that never asks to unwind (it may answer the node's depth or one less, as RemoveDataCallback does):
   the traversal is the fold over the visit list, whatever the guard *)
Theorem do_traversal_go : forall {M : MatchOps} (A : Type) (cb : A -> node -> A * Z) (g : A -> node -> A) t m root uf gf acc,
  (forall acc n, exists nd, cb acc n = (g acc n, nd) /\ (Z.of_nat (depth n) - 1 <= nd)%Z) ->
  do_traversal cb t m root uf gf acc = fold_left g (vtrav t m (length root) uf gf (S (max_clauses m)) root) acc.
Proof.
  intros M A cb g t m root uf gf acc H. unfold do_traversal.
  rewrite (trav_fold A cb g (fun _ => false) 0 (fun _ => True)); auto; try discriminate.
  intros acc0 n _ _. destruct (H acc0 n) as [nd [H1 H2]]. exists nd. auto.
Qed.

(* every visited node lies strictly below the start node *)
Theorem vtrav_below_root : forall {M : MatchOps} t m rd uf gf fuel x n,
  In n (vtrav t m rd uf gf fuel x) -> exists r, r <> [] /\ n_path n = x ++ r.
Proof. intros. eapply vtrav_below; eauto. Qed.
