(* Extraction of the C07 server model (outgoing queues, jettison handlers, fuelled loops) for the correspondence run
   (ExtrOcamlBasic only). *)
From Coq Require Import ExtrOcamlBasic.
From Coq Require Extraction.
From Coq Require Import NArith ZArith List.
From Muscle Require Import Gen.Consts Refl.Base Refl.Tree Refl.Matcher Refl.Traverse Refl.Session Refl.Server Refl.Bounded.
Definition dump_fuel : nat := S (N.to_nat c_MUSCLE_MAX_NODE_DEPTH).
Definition code_unimplemented : N := c_PR_RESULT_ERRORUNIMPLEMENTED.
Definition code_denied : N := c_PR_RESULT_ERRORACCESSDENIED.
Definition begin_commands : N := c_BEGIN_PR_COMMANDS.
Extraction "bounded_model.ml" bstep empty_bserver all_fixed as_found code_fixes code_jfix dfs dump_fuel sv_tree sv_sessions sv_dirty
  b_sv b_gws b_last code_unimplemented code_denied begin_commands jettison_results supersede_scan.
