(* Refl/TreeProofs.v -- lemmas about subscriber tables and the flat node tree. *)
From Coq Require Import List NArith ZArith Bool Arith Lia.
From Muscle Require Import Refl.Base Refl.Tree.
Import ListNotations.

Lemma tbl_get_put_same : forall t s c, tbl_get (tbl_put t s c) s = c.
Proof.
  induction t as [|[k c0] r IH]; intros s c; cbn.
  - now rewrite N.eqb_refl.
  - destruct (N.eqb k s) eqn:E; cbn; rewrite E; auto.
Qed.
