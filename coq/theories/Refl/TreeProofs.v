(* Refl/TreeProofs.v -- lemmas about subscriber tables and the flat node tree. *)
From Coq Require Import List NArith ZArith Bool Arith Lia.
From Muscle Require Import Refl.Base Refl.BaseProofs Refl.Tree.
Import ListNotations.

Lemma tbl_get_put_same : forall t s c, tbl_get (tbl_put t s c) s = c.
Proof.
  induction t as [|[k c0] r IH]; intros s c; cbn.
  - now rewrite N.eqb_refl.
  - destruct (N.eqb k s) eqn:E; cbn; rewrite E; auto.
Qed.

Lemma find_node_some : forall t p n, find_node t p = Some n -> In n t /\ n_path n = p.
Proof.
  induction t as [|x t IH]; intros p n H; cbn in H; [discriminate|].
  destruct (path_eqb (n_path x) p) eqn:E.
  - inversion H; subst. apply path_eqb_eq in E. split; [now left|auto].
  - apply IH in H as [H1 H2]. split; [now right|auto].
Qed.

Lemma get_child_path : forall t x k c, get_child t x k = Some c -> n_path c = x ++ [k].
Proof. intros t x k c H. unfold get_child in H. now apply find_node_some in H. Qed.

Lemma children_in : forall t x c, In c (children t x) <-> In c t /\ exists k, n_path c = x ++ [k].
Proof.
  intros t x c. unfold children. rewrite filter_In. now rewrite is_child_spec.
Qed.

(* ------------------------------------------------------------------ well-formed trees *)

Definition wf_tree (t : tree) : Prop :=
  NoDup (map n_path t)
  /\ (forall n, In n t -> n_path n <> [])
  /\ (forall n q r, In n t -> n_path n = q ++ r -> q <> [] -> exists n', In n' t /\ n_path n' = q).

Lemma find_node_none : forall t p, find_node t p = None <-> forall n, In n t -> n_path n <> p.
Proof.
  induction t as [|x t IH]; intros p; cbn.
  - split; [intros _ n []|auto].
  - destruct (path_eqb (n_path x) p) eqn:E.
    + apply path_eqb_eq in E. split; [discriminate|]. intros H. exfalso. apply (H x); auto.
    + apply path_eqb_neq in E. rewrite IH. split.
      * intros H n [Hn|Hn]; [now subst|now apply H].
      * intros H n Hn. apply H. now right.
Qed.

Lemma node_eq_by_path : forall t n n', NoDup (map n_path t) -> In n t -> In n' t -> n_path n = n_path n' -> n = n'.
Proof.
  induction t as [|x t IH]; intros n n' Hnd Hn Hn' Hp; [contradiction|].
  cbn in Hnd. inversion Hnd as [|? ? Hx Hnd']; subst.
  destruct Hn as [Hn|Hn], Hn' as [Hn'|Hn'].
  - congruence.
  - subst. exfalso. apply Hx. rewrite Hp. now apply in_map.
  - subst. exfalso. apply Hx. rewrite <- Hp. now apply in_map.
  - now apply IH.
Qed.

Lemma find_node_in : forall t n, NoDup (map n_path t) -> In n t -> find_node t (n_path n) = Some n.
Proof.
  intros t n Hnd Hn. destruct (find_node t (n_path n)) as [n'|] eqn:E.
  - apply find_node_some in E as [E1 E2]. f_equal. now apply (node_eq_by_path t).
  - exfalso. rewrite find_node_none in E. now apply (E n).
Qed.

Lemma has_node_spec : forall t p, has_node t p = true <-> exists n, In n t /\ n_path n = p.
Proof.
  intros t p. unfold has_node. destruct (find_node t p) as [n|] eqn:E.
  - apply find_node_some in E. split; eauto.
  - split; [discriminate|]. intros [n [Hn Hp]]. rewrite find_node_none in E. exfalso. now apply (E n).
Qed.

Lemma children_nodup : forall t x, NoDup (map n_path t) -> NoDup (map n_path (children t x)).
Proof.
  intros t x. unfold children. induction t as [|n t IH]; intros Hnd; cbn; [constructor|].
  cbn in Hnd. inversion Hnd as [|? ? Hn Hnd']; subst.
  destruct (is_child x (n_path n)); auto. cbn. constructor; auto.
  intros H. apply Hn. apply in_map_iff in H as [n' [H1 H2]]. apply filter_In in H2 as [H2 _].
  rewrite <- H1. now apply in_map.
Qed.

Lemma get_child_in : forall t x k c, NoDup (map n_path t) -> In c t -> n_path c = x ++ [k] -> get_child t x k = Some c.
Proof. intros t x k c Hnd Hc Hp. unfold get_child. rewrite <- Hp. now apply find_node_in. Qed.

(* ------------------------------------------------------------------ subscriber tables *)

Definition tbl_ok (tb : subtbl) : Prop := NoDup (map fst tb) /\ forall k c, In (k, c) tb -> (0 < c)%N.

Lemma tbl_get_put : forall tb s c s', tbl_get (tbl_put tb s c) s' = if N.eqb s s' then c else tbl_get tb s'.
Proof.
  induction tb as [|[k c0] r IH]; intros s c s'; cbn.
  - destruct (N.eqb s s'); reflexivity.
  - destruct (N.eqb k s) eqn:E; cbn.
    + apply N.eqb_eq in E; subst. destruct (N.eqb s s'); reflexivity.
    + rewrite IH. destruct (N.eqb k s') eqn:E'; auto.
      apply N.eqb_eq in E'; subst. now rewrite N.eqb_sym, E.
Qed.

Lemma tbl_get_absent : forall tb s, ~ In s (map fst tb) -> tbl_get tb s = 0%N.
Proof.
  induction tb as [|[k c0] r IH]; intros s H; cbn; auto.
  destruct (N.eqb k s) eqn:E.
  - apply N.eqb_eq in E; subst. exfalso. apply H. now left.
  - apply IH. intros H'. apply H. now right.
Qed.

Lemma tbl_get_remove : forall tb s s', NoDup (map fst tb) ->
  tbl_get (tbl_remove tb s) s' = if N.eqb s s' then 0%N else tbl_get tb s'.
Proof.
  induction tb as [|[k c0] r IH]; intros s s' Hnd; cbn.
  - destruct (N.eqb s s'); reflexivity.
  - cbn in Hnd. inversion Hnd as [|? ? Hk Hnd']; subst.
    destruct (N.eqb k s) eqn:E; cbn.
    + apply N.eqb_eq in E; subst. destruct (N.eqb s s') eqn:E'; auto.
      apply N.eqb_eq in E'; subst. now apply tbl_get_absent.
    + rewrite IH by auto. destruct (N.eqb k s') eqn:E'; auto.
      apply N.eqb_eq in E'; subst. now rewrite N.eqb_sym, E.
Qed.

Lemma tbl_put_keys : forall tb s c k, In k (map fst (tbl_put tb s c)) <-> k = s \/ In k (map fst tb).
Proof.
  induction tb as [|[k0 c0] r IH]; intros s c k; cbn.
  - intuition.
  - destruct (N.eqb k0 s) eqn:E; cbn.
    + apply N.eqb_eq in E; subst. intuition.
    + rewrite IH. intuition.
Qed.

Lemma tbl_put_ok : forall tb s c, tbl_ok tb -> (0 < c)%N -> tbl_ok (tbl_put tb s c).
Proof.
  induction tb as [|[k0 c0] r IH]; intros s c [Hnd Hpos] Hc; cbn.
  - split; [repeat constructor; intros []|]. intros k c' [H|[]]. now inversion H; subst.
  - cbn in Hnd. inversion Hnd as [|? ? Hk Hnd']; subst.
    assert (Hr : tbl_ok r) by (split; auto; intros k c' H; apply (Hpos k c'); now right).
    destruct (N.eqb k0 s) eqn:E.
    + apply N.eqb_eq in E; subst. split; [cbn; now constructor|].
      intros k c' [H|H]; [now inversion H; subst|apply (Hpos k c'); now right].
    + destruct (IH s c Hr Hc) as [Hnd2 Hpos2]. split.
      * cbn. constructor; auto. rewrite tbl_put_keys. intros [H|H]; [|contradiction].
        subst. now rewrite N.eqb_refl in E.
      * intros k c' [H|H]; [inversion H; subst; apply (Hpos k c'); now left|now apply (Hpos2 k c')].
Qed.

Lemma tbl_remove_keys : forall tb s k, In k (map fst (tbl_remove tb s)) -> In k (map fst tb).
Proof.
  induction tb as [|[k0 c0] r IH]; intros s k; cbn; auto.
  destruct (N.eqb k0 s); cbn; intuition eauto.
Qed.

Lemma tbl_remove_ok : forall tb s, tbl_ok tb -> tbl_ok (tbl_remove tb s).
Proof.
  induction tb as [|[k0 c0] r IH]; intros s [Hnd Hpos]; cbn; [split; auto|].
  cbn in Hnd. inversion Hnd as [|? ? Hk Hnd']; subst.
  assert (Hr : tbl_ok r) by (split; auto; intros k c' H; apply (Hpos k c'); now right).
  destruct (N.eqb k0 s); auto.
  destruct (IH s Hr) as [Hnd2 Hpos2]. split.
  - cbn. constructor; auto. intros H. apply Hk. now apply tbl_remove_keys in H.
  - intros k c' [H|H]; [inversion H; subst; apply (Hpos k c'); now left|now apply (Hpos2 k c')].
Qed.

Lemma tbl_get_pos_in : forall tb s, (0 < tbl_get tb s)%N -> In s (map fst tb).
Proof.
  intros tb s H. destruct (in_dec N.eq_dec s (map fst tb)) as [|Hn]; auto.
  rewrite (tbl_get_absent tb s Hn) in H. lia.
Qed.

Lemma tbl_in_get_pos : forall tb s, tbl_ok tb -> In s (map fst tb) -> (0 < tbl_get tb s)%N.
Proof.
  induction tb as [|[k0 c0] r IH]; intros s [Hnd Hpos] H; [contradiction|]. cbn.
  cbn in Hnd. inversion Hnd as [|? ? Hk Hnd']; subst.
  destruct (N.eqb k0 s) eqn:E.
  - apply (Hpos k0 c0). now left.
  - destruct H as [H|H]; [cbn in H; subst; now rewrite N.eqb_refl in E|].
    apply IH; auto. split; auto. intros k c' H'. apply (Hpos k c'). now right.
Qed.

(* the new count computed by GetDataNodeSubscribersTableFromPool *)
Definition adjusted_count (cur : N) (delta : Z) : N :=
  if Z.eqb delta 0 then cur
  else if Z.leb 0 delta then u32 (cur + Z.to_N delta)
  else let d := Z.to_N (Z.opp delta) in if N.leb d cur then (cur - d)%N else 0%N.

Lemma tbl_adjust_get : forall tb s delta s', tbl_ok tb ->
  tbl_get (tbl_adjust tb s delta) s' = if N.eqb s s' then adjusted_count (tbl_get tb s) delta else tbl_get tb s'.
Proof.
  intros tb s delta s' [Hnd Hpos]. unfold tbl_adjust, adjusted_count.
  destruct (Z.eqb delta 0) eqn:E0.
  - destruct (N.eqb s s') eqn:E; auto. apply N.eqb_eq in E; now subst.
  - set (nw := if Z.leb 0 delta then u32 (tbl_get tb s + Z.to_N delta)
               else if N.leb (Z.to_N (- delta)) (tbl_get tb s) then (tbl_get tb s - Z.to_N (- delta))%N else 0%N).
    destruct (N.ltb 0 nw) eqn:Epos.
    + now rewrite tbl_get_put.
    + rewrite tbl_get_remove by auto. destruct (N.eqb s s'); auto.
      apply N.ltb_ge in Epos. lia.
Qed.

Lemma tbl_adjust_ok : forall tb s delta, tbl_ok tb -> tbl_ok (tbl_adjust tb s delta).
Proof.
  intros tb s delta H. unfold tbl_adjust. destruct (Z.eqb delta 0); auto.
  match goal with |- context [N.ltb 0 ?x] => destruct (N.ltb 0 x) eqn:E end.
  - apply tbl_put_ok; auto. now apply N.ltb_lt.
  - now apply tbl_remove_ok.
Qed.

(* ------------------------------------------------------------------ tree updates keep the tree well-formed *)

Lemma wf_tree_add : forall t pp k d tb,
  wf_tree t -> find_node t (pp ++ [k]) = None -> (pp = [] \/ has_node t pp = true) ->
  wf_tree (add_node t (mkNode (pp ++ [k]) d tb)).
Proof.
  intros t pp k d tb [Hnd [Hne Hpre]] Hnone Hpp. unfold add_node. split; [|split].
  - rewrite map_app. cbn. apply NoDup_app_intro; auto.
    + repeat constructor. intros [].
    + intros p Hp [Hq|[]]. subst p. rewrite find_node_none in Hnone.
      apply in_map_iff in Hp as [n [Hn1 Hn2]]. now apply (Hnone n).
  - intros n Hn. apply in_app_or in Hn as [Hn|[Hn|[]]]; [now apply Hne|]. subst n. cbn. destruct pp; discriminate.
  - intros n q r Hn Hp Hq. apply in_app_or in Hn as [Hn|[Hn|[]]].
    + destruct (Hpre n q r Hn Hp Hq) as [n' [H1 H2]]. exists n'. split; [apply in_or_app; now left|auto].
    + subst n. cbn in Hp.
      destruct (path_snoc_cases r) as [Hr|[r' [k' Hr]]].
      * subst r. rewrite app_nil_r in Hp. exists (mkNode (pp ++ [k]) d tb). split; [apply in_or_app; right; now left|auto].
      * subst r. rewrite app_assoc in Hp. apply app_inj_tail in Hp as [Hp _].
        destruct Hpp as [Hpp|Hpp].
        -- subst pp. destruct q; [congruence|discriminate].
        -- apply has_node_spec in Hpp as [np [Hnp1 Hnp2]].
           destruct r' as [|a r''].
           ++ rewrite app_nil_r in Hp. subst q. exists np. split; [apply in_or_app; now left|auto].
           ++ destruct (Hpre np q (a :: r'') Hnp1) as [n' [H1 H2]]; [congruence|auto|].
              exists n'. split; [apply in_or_app; now left|auto].
Qed.

Lemma map_node_paths : forall f t p, (forall n, n_path (f n) = n_path n) -> map n_path (map_node f t p) = map n_path t.
Proof.
  intros f t p Hf. unfold map_node. rewrite map_map. apply map_ext. intros n.
  destruct (path_eqb (n_path n) p); auto.
Qed.

Lemma map_node_in : forall f t p n', In n' (map_node f t p) ->
  exists n, In n t /\ n' = (if path_eqb (n_path n) p then f n else n).
Proof. intros f t p n' H. unfold map_node in H. apply in_map_iff in H as [n [H1 H2]]. eauto. Qed.

Lemma wf_tree_map_node : forall f t p, (forall n, n_path (f n) = n_path n) -> wf_tree t -> wf_tree (map_node f t p).
Proof.
  intros f t p Hf [Hnd [Hne Hpre]]. split; [|split].
  - now rewrite map_node_paths.
  - intros n' Hn'. apply map_node_in in Hn' as [n [H1 H2]]. subst n'.
    destruct (path_eqb (n_path n) p); [rewrite Hf|]; now apply Hne.
  - intros n' q r Hn' Hp Hq. apply map_node_in in Hn' as [n [H1 H2]].
    assert (Hpn : n_path n' = n_path n) by (subst n'; destruct (path_eqb (n_path n) p); [apply Hf|reflexivity]).
    rewrite Hpn in Hp. destruct (Hpre n q r H1 Hp Hq) as [n2 [H3 H4]].
    exists (if path_eqb (n_path n2) p then f n2 else n2). split.
    + unfold map_node. apply in_map_iff. exists n2. auto.
    + destruct (path_eqb (n_path n2) p); [rewrite Hf|]; auto.
Qed.

Lemma find_node_map_node : forall f t p q, (forall n, n_path (f n) = n_path n) ->
  find_node (map_node f t p) q = option_map (fun n => if path_eqb (n_path n) p then f n else n) (find_node t q).
Proof.
  intros f t p q Hf. induction t as [|x t IH]; cbn; auto.
  assert (E : n_path (if path_eqb (n_path x) p then f x else x) = n_path x)
    by (destruct (path_eqb (n_path x) p); [apply Hf|reflexivity]).
  rewrite E. destruct (path_eqb (n_path x) q); auto.
Qed.

Lemma has_node_map_node : forall f t p q, (forall n, n_path (f n) = n_path n) -> has_node (map_node f t p) q = has_node t q.
Proof.
  intros f t p q Hf. unfold has_node. rewrite find_node_map_node by auto. destruct (find_node t q); reflexivity.
Qed.

Lemma has_node_add : forall t n q, has_node t q = true -> has_node (add_node t n) q = true.
Proof.
  intros t n q H. apply has_node_spec in H as [x [H1 H2]]. apply has_node_spec. exists x.
  split; [apply in_or_app; now left|auto].
Qed.

(* ------------------------------------------------------------------ taking a subtree out *)

Definition pmem (p : path) (l : list path) : bool := existsb (path_eqb p) l.

Lemma pmem_spec : forall p l, pmem p l = true <-> In p l.
Proof.
  intros p l. unfold pmem. rewrite existsb_exists. split.
  - intros [q [H1 H2]]. apply path_eqb_eq in H2. now subst.
  - intros H. exists p. split; auto. apply path_eqb_refl.
Qed.

Lemma fold_remove_node : forall L t,
  fold_left remove_node L t = filter (fun n => negb (pmem (n_path n) L)) t.
Proof.
  induction L as [|q L IH]; intros t; cbn [fold_left].
  - cbn. induction t as [|x t IHt]; cbn; auto. now rewrite <- IHt.
  - rewrite IH. unfold remove_node. induction t as [|x t IHt]; cbn [filter]; auto.
    unfold pmem at 2. cbn [existsb]. rewrite (path_eqb_sym (n_path x) q).
    destruct (path_eqb q (n_path x)); cbn [negb orb filter].
    + apply IHt.
    + fold (pmem (n_path x) L). destruct (negb (pmem (n_path x) L)); [f_equal|]; apply IHt.
Qed.

(* everything listed lies at or below p *)
Lemma removal_order_below : forall fuel t p q, In q (removal_order fuel t p) -> is_prefix p q = true.
Proof.
  induction fuel as [|f IH]; intros t p q H; cbn in H.
  - destruct H as [H|[]]. subst. apply is_prefix_refl.
  - apply in_app_or in H as [H|[H|[]]]; [|subst; apply is_prefix_refl].
    apply in_flat_map in H as [c [Hc Hq]]. apply children_in in Hc as [_ [k Hk]].
    apply IH in Hq. apply is_prefix_spec in Hq as [r Hr]. apply is_prefix_spec. exists (k :: r).
    rewrite Hr, Hk, <- app_assoc. reflexivity.
Qed.

(* every node of the tree at or below p is listed, given enough fuel *)
Lemma removal_order_complete : forall fuel t p r, wf_tree t -> p <> [] ->
  (exists n, In n t /\ n_path n = p ++ r) -> length r <= fuel -> In (p ++ r) (removal_order fuel t p).
Proof.
  induction fuel as [|f IH]; intros t p r Hwf Hp [n [Hn Hpn]] Hl.
  - destruct r; [|cbn in Hl; lia]. rewrite app_nil_r. now left.
  - cbn. destruct r as [|k r'].
    + rewrite app_nil_r. apply in_or_app. right. now left.
    + apply in_or_app. left. apply in_flat_map.
      destruct Hwf as [Hnd [Hne Hpre]].
      destruct (Hpre n (p ++ [k]) r' Hn) as [c [Hc1 Hc2]].
      { rewrite Hpn, <- app_assoc. reflexivity. }
      { destruct p; discriminate. }
      exists c. split; [apply children_in; eauto|].
      rewrite Hc2. replace (p ++ k :: r') with ((p ++ [k]) ++ r') by (rewrite <- app_assoc; reflexivity).
      apply IH; [split; auto|destruct p; discriminate| |cbn in Hl; lia].
      exists n. split; auto. rewrite Hpn, <- app_assoc. reflexivity.
Qed.

Lemma NoDup_map_in : forall (A B : Type) (f : A -> B) l,
  (forall x y, In x l -> In y l -> f x = f y -> x = y) -> NoDup l -> NoDup (map f l).
Proof.
  induction l as [|a l IH]; intros Hinj Hnd; cbn; [constructor|].
  inversion Hnd as [|? ? Ha Hnd']; subst. constructor.
  - intros H. apply in_map_iff in H as [b [H1 H2]]. apply Ha.
    assert (b = a) by (apply Hinj; auto; [now right|now left]). now subst.
  - apply IH; auto. intros x y Hx Hy. apply Hinj; now right.
Qed.

(* a chain of nested nodes is no longer than the tree *)
Lemma chain_length : forall t p r n, wf_tree t -> p <> [] -> In n t -> n_path n = p ++ r -> length r <= length t.
Proof.
  intros t p r n [Hnd [Hne Hpre]] Hp Hn Hpn.
  set (chain := map (fun j => p ++ firstn j r) (seq 1 (length r))).
  assert (Hc1 : NoDup chain).
  { unfold chain. apply NoDup_map_in; [|apply seq_NoDup].
    intros i j Hi Hj E. apply in_seq in Hi. apply in_seq in Hj. apply app_inv_head in E.
    apply (f_equal (@length name)) in E. rewrite !firstn_length in E. lia. }
  assert (Hc2 : incl chain (map n_path t)).
  { intros q Hq. unfold chain in Hq. apply in_map_iff in Hq as [j [Hj1 Hj2]]. apply in_seq in Hj2.
    destruct (Hpre n q (skipn j r) Hn) as [n' [H1 H2]].
    - rewrite Hpn, <- Hj1, <- app_assoc, firstn_skipn. reflexivity.
    - subst q. destruct p; [congruence|discriminate].
    - rewrite <- H2. now apply in_map. }
  pose proof (NoDup_incl_length Hc1 Hc2) as H. unfold chain in H. rewrite !map_length, seq_length in H. exact H.
Qed.

Lemma removal_order_mem : forall t p n, wf_tree t -> p <> [] -> In n t ->
  pmem (n_path n) (removal_order (S (length t)) t p) = is_prefix p (n_path n).
Proof.
  intros t p n Hwf Hp Hn. destruct (is_prefix p (n_path n)) eqn:E.
  - apply pmem_spec. apply is_prefix_spec in E as [r Hr]. rewrite Hr.
    apply removal_order_complete; auto; [eauto|]. pose proof (chain_length t p r n Hwf Hp Hn Hr). lia.
  - destruct (pmem (n_path n) (removal_order (S (length t)) t p)) eqn:E'; auto.
    apply pmem_spec in E'. apply removal_order_below in E'. congruence.
Qed.

Definition prune_tree (t : tree) (p : path) : tree := filter (fun n => negb (is_prefix p (n_path n))) t.

Lemma fold_remove_subtree : forall t p, wf_tree t -> p <> [] ->
  fold_left remove_node (removal_order (S (length t)) t p) t = prune_tree t p.
Proof.
  intros t p Hwf Hp. rewrite fold_remove_node. unfold prune_tree. apply filter_ext_in.
  intros n Hn. now rewrite removal_order_mem.
Qed.

Lemma wf_tree_prune : forall t p, wf_tree t -> wf_tree (prune_tree t p).
Proof.
  intros t p [Hnd [Hne Hpre]]. unfold prune_tree. split; [|split].
  - clear Hne Hpre. induction t as [|x t IH]; cbn; [constructor|].
    cbn in Hnd. inversion Hnd as [|? ? Hx Hnd']; subst.
    destruct (negb (is_prefix p (n_path x))); auto. cbn. constructor; auto.
    intros H. apply Hx. apply in_map_iff in H as [y [H1 H2]]. apply filter_In in H2 as [H2 _].
    rewrite <- H1. now apply in_map.
  - intros n Hn. apply filter_In in Hn as [Hn _]. now apply Hne.
  - intros n q r Hn Hpn Hq. apply filter_In in Hn as [Hn Hf].
    destruct (Hpre n q r Hn Hpn Hq) as [n' [H1 H2]]. exists n'. split; auto.
    apply filter_In. split; auto. rewrite H2.
    apply negb_true_iff in Hf. apply negb_true_iff.
    destruct (is_prefix p q) eqn:E; auto. apply is_prefix_spec in E as [r' Hr'].
    assert (is_prefix p (n_path n) = true); [|congruence].
    apply is_prefix_spec. exists (r' ++ r). rewrite Hpn, Hr', <- app_assoc. reflexivity.
Qed.

(* ------------------------------------------------------------------ mapping over all nodes *)

Lemma find_node_map : forall (g : node -> node) t q, (forall n, n_path (g n) = n_path n) ->
  find_node (map g t) q = option_map g (find_node t q).
Proof.
  intros g t q Hg. induction t as [|x t IH]; cbn; auto.
  rewrite Hg. destruct (path_eqb (n_path x) q); auto.
Qed.

Lemma has_node_map : forall (g : node -> node) t q, (forall n, n_path (g n) = n_path n) ->
  has_node (map g t) q = has_node t q.
Proof. intros g t q Hg. unfold has_node. rewrite find_node_map by auto. destruct (find_node t q); reflexivity. Qed.

Lemma wf_tree_map : forall (g : node -> node) t, (forall n, n_path (g n) = n_path n) -> wf_tree t -> wf_tree (map g t).
Proof.
  intros g t Hg [Hnd [Hne Hpre]]. split; [|split].
  - rewrite map_map. rewrite (map_ext (fun x => n_path (g x)) n_path Hg). exact Hnd.
  - intros n' Hn'. apply in_map_iff in Hn' as [n [H1 H2]]. subst n'. rewrite Hg. now apply Hne.
  - intros n' q r Hn' Hp Hq. apply in_map_iff in Hn' as [n [H1 H2]]. subst n'. rewrite Hg in Hp.
    destruct (Hpre n q r H2 Hp Hq) as [n2 [H3 H4]]. exists (g n2). split; [now apply in_map|now rewrite Hg].
Qed.

Lemma remove_node_absent : forall t q, find_node t q = None -> remove_node t q = t.
Proof.
  intros t q H. rewrite find_node_none in H. unfold remove_node. induction t as [|x t IH]; cbn; auto.
  assert (E : path_eqb (n_path x) q = false) by (apply path_eqb_neq; apply H; now left).
  rewrite E. cbn. f_equal. apply IH. intros n Hn. apply H. now right.
Qed.

Lemma has_node_prune : forall t p q, has_node t q = true -> is_prefix p q = false -> has_node (prune_tree t p) q = true.
Proof.
  intros t p q H Hp. apply has_node_spec in H as [n [H1 H2]]. apply has_node_spec. exists n. split; auto.
  unfold prune_tree. apply filter_In. split; auto. now rewrite H2, Hp.
Qed.

Lemma in_prune : forall t p n, In n (prune_tree t p) -> In n t /\ is_prefix p (n_path n) = false.
Proof. intros t p n H. unfold prune_tree in H. apply filter_In in H as [H1 H2]. split; auto. now apply negb_true_iff. Qed.
