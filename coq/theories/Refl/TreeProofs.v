(* Refl/TreeProofs.v -- lemmas about subscriber tables and the flat node tree. *)
From Coq Require Import List NArith ZArith Bool Arith Lia.
From Muscle Require Import Refl.Base Refl.BaseProofs Refl.Tree.
Import ListNotations.

Lemma tbl_get_put_same : forall t s c, tbl_get (tbl_put t s c) s = c.
Proof.
  induction t as [|[k c0] r IH]; intros s c; cbn.
  - now rewrite N.eqb_refl.
  - destruct (N.eqb k s) eqn:E; cbn; rewrite E; auto.
Qed.

Lemma find_node_some : forall t p n, find_node t p = Some n -> In n t /\ n_path n = p.
Proof.
  induction t as [|x t IH]; intros p n H; cbn in H; [discriminate|].
  destruct (path_eqb (n_path x) p) eqn:E.
  - inversion H; subst. apply path_eqb_eq in E. split; [now left|auto].
  - apply IH in H as [H1 H2]. split; [now right|auto].
Qed.

Lemma get_child_path : forall t x k c, get_child t x k = Some c -> n_path c = x ++ [k].
Proof. intros t x k c H. unfold get_child in H. now apply find_node_some in H. Qed.

Lemma children_in : forall t x c, In c (children t x) <-> In c t /\ exists k, n_path c = x ++ [k].
Proof.
  intros t x c. unfold children. rewrite filter_In. now rewrite is_child_spec.
Qed.

(* ------------------------------------------------------------------ well-formed trees *)

Definition wf_tree (t : tree) : Prop :=
  NoDup (map n_path t)
  /\ (forall n, In n t -> n_path n <> [])
  /\ (forall n q r, In n t -> n_path n = q ++ r -> q <> [] -> exists n', In n' t /\ n_path n' = q).

Lemma find_node_none : forall t p, find_node t p = None <-> forall n, In n t -> n_path n <> p.
Proof.
  induction t as [|x t IH]; intros p; cbn.
  - split; [intros _ n []|auto].
  - destruct (path_eqb (n_path x) p) eqn:E.
    + apply path_eqb_eq in E. split; [discriminate|]. intros H. exfalso. apply (H x); auto.
    + apply path_eqb_neq in E. rewrite IH. split.
      * intros H n [Hn|Hn]; [now subst|now apply H].
      * intros H n Hn. apply H. now right.
Qed.

Lemma node_eq_by_path : forall t n n', NoDup (map n_path t) -> In n t -> In n' t -> n_path n = n_path n' -> n = n'.
Proof.
  induction t as [|x t IH]; intros n n' Hnd Hn Hn' Hp; [contradiction|].
  cbn in Hnd. inversion Hnd as [|? ? Hx Hnd']; subst.
  destruct Hn as [Hn|Hn], Hn' as [Hn'|Hn'].
  - congruence.
  - subst. exfalso. apply Hx. rewrite Hp. now apply in_map.
  - subst. exfalso. apply Hx. rewrite <- Hp. now apply in_map.
  - now apply IH.
Qed.

Lemma find_node_in : forall t n, NoDup (map n_path t) -> In n t -> find_node t (n_path n) = Some n.
Proof.
  intros t n Hnd Hn. destruct (find_node t (n_path n)) as [n'|] eqn:E.
  - apply find_node_some in E as [E1 E2]. f_equal. now apply (node_eq_by_path t).
  - exfalso. rewrite find_node_none in E. now apply (E n).
Qed.

Lemma has_node_spec : forall t p, has_node t p = true <-> exists n, In n t /\ n_path n = p.
Proof.
  intros t p. unfold has_node. destruct (find_node t p) as [n|] eqn:E.
  - apply find_node_some in E. split; eauto.
  - split; [discriminate|]. intros [n [Hn Hp]]. rewrite find_node_none in E. exfalso. now apply (E n).
Qed.

Lemma children_nodup : forall t x, NoDup (map n_path t) -> NoDup (map n_path (children t x)).
Proof.
  intros t x. unfold children. induction t as [|n t IH]; intros Hnd; cbn; [constructor|].
  cbn in Hnd. inversion Hnd as [|? ? Hn Hnd']; subst.
  destruct (is_child x (n_path n)); auto. cbn. constructor; auto.
  intros H. apply Hn. apply in_map_iff in H as [n' [H1 H2]]. apply filter_In in H2 as [H2 _].
  rewrite <- H1. now apply in_map.
Qed.

Lemma get_child_in : forall t x k c, NoDup (map n_path t) -> In c t -> n_path c = x ++ [k] -> get_child t x k = Some c.
Proof. intros t x k c Hnd Hc Hp. unfold get_child. rewrite <- Hp. now apply find_node_in. Qed.

(* ------------------------------------------------------------------ subscriber tables *)

Definition tbl_ok (tb : subtbl) : Prop := NoDup (map fst tb) /\ forall k c, In (k, c) tb -> (0 < c)%N.

Lemma tbl_get_put : forall tb s c s', tbl_get (tbl_put tb s c) s' = if N.eqb s s' then c else tbl_get tb s'.
Proof.
  induction tb as [|[k c0] r IH]; intros s c s'; cbn.
  - destruct (N.eqb s s'); reflexivity.
  - destruct (N.eqb k s) eqn:E; cbn.
    + apply N.eqb_eq in E; subst. destruct (N.eqb s s'); reflexivity.
    + rewrite IH. destruct (N.eqb k s') eqn:E'; auto.
      apply N.eqb_eq in E'; subst. now rewrite N.eqb_sym, E.
Qed.

Lemma tbl_get_absent : forall tb s, ~ In s (map fst tb) -> tbl_get tb s = 0%N.
Proof.
  induction tb as [|[k c0] r IH]; intros s H; cbn; auto.
  destruct (N.eqb k s) eqn:E.
  - apply N.eqb_eq in E; subst. exfalso. apply H. now left.
  - apply IH. intros H'. apply H. now right.
Qed.

Lemma tbl_get_remove : forall tb s s', NoDup (map fst tb) ->
  tbl_get (tbl_remove tb s) s' = if N.eqb s s' then 0%N else tbl_get tb s'.
Proof.
  induction tb as [|[k c0] r IH]; intros s s' Hnd; cbn.
  - destruct (N.eqb s s'); reflexivity.
  - cbn in Hnd. inversion Hnd as [|? ? Hk Hnd']; subst.
    destruct (N.eqb k s) eqn:E; cbn.
    + apply N.eqb_eq in E; subst. destruct (N.eqb s s') eqn:E'; auto.
      apply N.eqb_eq in E'; subst. now apply tbl_get_absent.
    + rewrite IH by auto. destruct (N.eqb k s') eqn:E'; auto.
      apply N.eqb_eq in E'; subst. now rewrite N.eqb_sym, E.
Qed.

Lemma tbl_put_keys : forall tb s c k, In k (map fst (tbl_put tb s c)) <-> k = s \/ In k (map fst tb).
Proof.
  induction tb as [|[k0 c0] r IH]; intros s c k; cbn.
  - intuition.
  - destruct (N.eqb k0 s) eqn:E; cbn.
    + apply N.eqb_eq in E; subst. intuition.
    + rewrite IH. intuition.
Qed.

Lemma tbl_put_ok : forall tb s c, tbl_ok tb -> (0 < c)%N -> tbl_ok (tbl_put tb s c).
Proof.
  induction tb as [|[k0 c0] r IH]; intros s c [Hnd Hpos] Hc; cbn.
  - split; [repeat constructor; intros []|]. intros k c' [H|[]]. now inversion H; subst.
  - cbn in Hnd. inversion Hnd as [|? ? Hk Hnd']; subst.
    assert (Hr : tbl_ok r) by (split; auto; intros k c' H; apply (Hpos k c'); now right).
    destruct (N.eqb k0 s) eqn:E.
    + apply N.eqb_eq in E; subst. split; [cbn; now constructor|].
      intros k c' [H|H]; [now inversion H; subst|apply (Hpos k c'); now right].
    + destruct (IH s c Hr Hc) as [Hnd2 Hpos2]. split.
      * cbn. constructor; auto. rewrite tbl_put_keys. intros [H|H]; [|contradiction].
        subst. now rewrite N.eqb_refl in E.
      * intros k c' [H|H]; [inversion H; subst; apply (Hpos k c'); now left|now apply (Hpos2 k c')].
Qed.

Lemma tbl_remove_keys : forall tb s k, In k (map fst (tbl_remove tb s)) -> In k (map fst tb).
Proof.
  induction tb as [|[k0 c0] r IH]; intros s k; cbn; auto.
  destruct (N.eqb k0 s); cbn; intuition eauto.
Qed.

Lemma tbl_remove_ok : forall tb s, tbl_ok tb -> tbl_ok (tbl_remove tb s).
Proof.
  induction tb as [|[k0 c0] r IH]; intros s [Hnd Hpos]; cbn; [split; auto|].
  cbn in Hnd. inversion Hnd as [|? ? Hk Hnd']; subst.
  assert (Hr : tbl_ok r) by (split; auto; intros k c' H; apply (Hpos k c'); now right).
  destruct (N.eqb k0 s); auto.
  destruct (IH s Hr) as [Hnd2 Hpos2]. split.
  - cbn. constructor; auto. intros H. apply Hk. now apply tbl_remove_keys in H.
  - intros k c' [H|H]; [inversion H; subst; apply (Hpos k c'); now left|now apply (Hpos2 k c')].
Qed.

Lemma tbl_get_pos_in : forall tb s, (0 < tbl_get tb s)%N -> In s (map fst tb).
Proof.
  intros tb s H. destruct (in_dec N.eq_dec s (map fst tb)) as [|Hn]; auto.
  rewrite (tbl_get_absent tb s Hn) in H. lia.
Qed.

Lemma tbl_in_get_pos : forall tb s, tbl_ok tb -> In s (map fst tb) -> (0 < tbl_get tb s)%N.
Proof.
  induction tb as [|[k0 c0] r IH]; intros s [Hnd Hpos] H; [contradiction|]. cbn.
  cbn in Hnd. inversion Hnd as [|? ? Hk Hnd']; subst.
  destruct (N.eqb k0 s) eqn:E.
  - apply (Hpos k0 c0). now left.
  - destruct H as [H|H]; [cbn in H; subst; now rewrite N.eqb_refl in E|].
    apply IH; auto. split; auto. intros k c' H'. apply (Hpos k c'). now right.
Qed.

(* the new count computed by GetDataNodeSubscribersTableFromPool *)
Definition adjusted_count (cur : N) (delta : Z) : N :=
  if Z.eqb delta 0 then cur
  else if Z.leb 0 delta then u32 (cur + Z.to_N delta)
  else let d := Z.to_N (Z.opp delta) in if N.leb d cur then (cur - d)%N else 0%N.

Lemma tbl_adjust_get : forall tb s delta s', tbl_ok tb ->
  tbl_get (tbl_adjust tb s delta) s' = if N.eqb s s' then adjusted_count (tbl_get tb s) delta else tbl_get tb s'.
Proof.
  intros tb s delta s' [Hnd Hpos]. unfold tbl_adjust, adjusted_count.
  destruct (Z.eqb delta 0) eqn:E0.
  - destruct (N.eqb s s') eqn:E; auto. apply N.eqb_eq in E; now subst.
  - set (nw := if Z.leb 0 delta then u32 (tbl_get tb s + Z.to_N delta)
               else if N.leb (Z.to_N (- delta)) (tbl_get tb s) then (tbl_get tb s - Z.to_N (- delta))%N else 0%N).
    destruct (N.ltb 0 nw) eqn:Epos.
    + now rewrite tbl_get_put.
    + rewrite tbl_get_remove by auto. destruct (N.eqb s s'); auto.
      apply N.ltb_ge in Epos. lia.
Qed.

Lemma tbl_adjust_ok : forall tb s delta, tbl_ok tb -> tbl_ok (tbl_adjust tb s delta).
Proof.
  intros tb s delta H. unfold tbl_adjust. destruct (Z.eqb delta 0); auto.
  match goal with |- context [N.ltb 0 ?x] => destruct (N.ltb 0 x) eqn:E end.
  - apply tbl_put_ok; auto. now apply N.ltb_lt.
  - now apply tbl_remove_ok.
Qed.
