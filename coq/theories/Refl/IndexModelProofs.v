(* Refl/IndexModelProofs.v -- C13: invariants of the index state machine of Refl/IndexModel.v.
   Inv (at every point where a client can observe: after the push that follows each command):
     - the tree is well-formed: every index lists only existing children, each once      (twf)
     - nothing is pending
     - every client's replica of every node it is subscribed to equals the server's index
     - what was delivered since the subscription replays (from nothing) to that replica
     - a session whose _indexingPresent flag is clear owns no non-empty index             (I6)
   Mid: the same while a command is being handled, with "replica" replaced by
        "replica after replaying what is still pending for that client and node". *)
From Coq Require Import List Arith Bool Lia.
Import ListNotations.
From Muscle Require Import Refl.Index Refl.IndexProofs Refl.IndexModel.

(* the ops pending (or being delivered) for client s and node p, in order *)
Definition pend_for (pe : list event) (s : nat) (p : path) : list iop :=
  flat_map (fun e : event => let '(s', p', o) := e in if Nat.eqb s' s && path_eqb p' p then [o] else []) pe.

Record MidA (st : state) : Prop := mkMidA {
  mA_twf : twf (st_tree st);
  mA_sub : forall s p, subscribed st s p = true ->
           replay (pend_for (st_pend st) s p) (st_mirror st s p) = index_at (st_tree st) p;
  mA_unsub : forall s p, subscribed st s p = false -> st_mirror st s p = [] /\ pend_for (st_pend st) s p = [];
  mA_hist : forall s p, replay (st_hist st s p) [] = st_mirror st s p;
  mA_n : forall s, st_n st <= s -> st_subs st s = [];
  (* every delivered or pending op can be applied by a strict client *)
  mA_fit : forall s p, subscribed st s p = true -> ops_fit (pend_for (st_pend st) s p) (st_mirror st s p) = true;
  mA_hfit : forall s p, ops_fit (st_hist st s p) [] = true;
  (* a client keeps no history for a node it is not subscribed to *)
  mA_hunsub : forall s p, subscribed st s p = false -> st_hist st s p = []
}.

Definition J (st : state) (s : nat) : Prop :=
  st_ipres st s = true \/ forall p, own s p = true -> index_at (st_tree st) p = [].
Definition I6 (st : state) : Prop := forall s, J st s.
Definition I6x (s : nat) (st : state) : Prop := forall s', s' <> s -> J st s'.

Definition Mid (st : state) : Prop := MidA st /\ I6 st.
Definition Inv (st : state) : Prop := MidA st /\ I6 st /\ st_pend st = [].

(* ------------------------------------------------------------------ pending projections *)

Lemma pend_for_app : forall a b s p, pend_for (a ++ b) s p = pend_for a s p ++ pend_for b s p.
Proof. intros. unfold pend_for. apply flat_map_app. Qed.

Lemma pend_for_map : forall s' p' ops s p,
  pend_for (map (fun o => (s', p', o)) ops) s p = if Nat.eqb s' s && path_eqb p' p then ops else [].
Proof.
  intros s' p' ops s p. induction ops as [|o t IH]; simpl.
  - destruct (Nat.eqb s' s && path_eqb p' p); reflexivity.
  - unfold pend_for in *. simpl. rewrite IH.
    destruct (Nat.eqb s' s && path_eqb p' p); reflexivity.
Qed.

Lemma pend_for_notify_seq : forall (st : state) p ops s q n a,
  pend_for (flat_map (fun s' => if subscribed st s' p then map (fun o => (s', p, o)) ops else []) (seq a n)) s q
  = if (a <=? s) && (s <? a + n) && subscribed st s p && path_eqb p q then ops else [].
Proof.
  intros st p ops s q n. induction n as [|n IH]; intro a; cbn [seq flat_map].
  - cbn [pend_for flat_map]. replace ((a <=? s) && (s <? a + 0)) with false; [reflexivity|].
    destruct (Nat.leb_spec a s), (Nat.ltb_spec s (a + 0)); try reflexivity; lia.
  - rewrite pend_for_app, IH. cbv beta.
    match goal with |- ?x ++ _ = _ =>
      assert (Hhead : x = if Nat.eqb a s && subscribed st s p && path_eqb p q then ops else []) end.
    { destruct (Nat.eqb a s) eqn:Ea.
      - apply Nat.eqb_eq in Ea. subst a.
        destruct (subscribed st s p); simpl; [rewrite pend_for_map, Nat.eqb_refl; reflexivity | reflexivity].
      - simpl. destruct (subscribed st a p); [|reflexivity]. rewrite pend_for_map. rewrite Ea. reflexivity. }
    rewrite Hhead.
    destruct (Nat.eqb a s) eqn:Ea.
    + apply Nat.eqb_eq in Ea. subst a.
      replace (S s <=? s) with false by (symmetry; apply Nat.leb_gt; lia). cbn [andb]. rewrite app_nil_r.
      replace (s <=? s) with true by (symmetry; apply Nat.leb_le; lia).
      replace (s <? s + S n) with true by (symmetry; apply Nat.ltb_lt; lia). reflexivity.
    + apply Nat.eqb_neq in Ea. cbn [andb app].
      assert (E : (S a <=? s) && (s <? S a + n) = (a <=? s) && (s <? a + S n)).
      { destruct (Nat.leb_spec (S a) s), (Nat.leb_spec a s), (Nat.ltb_spec s (S a + n)), (Nat.ltb_spec s (a + S n)); try reflexivity; lia. }
      rewrite E. reflexivity.
Qed.

Lemma pend_for_notify : forall st p ops s q,
  pend_for (notify_events st p ops) s q = if (s <? st_n st) && subscribed st s p && path_eqb p q then ops else [].
Proof.
  intros. unfold notify_events. rewrite pend_for_notify_seq. simpl. reflexivity.
Qed.

(* ------------------------------------------------------------------ delivery *)

Lemma subscribed_subs : forall st st' s p, st_subs st' = st_subs st -> subscribed st' s p = subscribed st s p.
Proof. intros st st' s p H. unfold subscribed. rewrite H. reflexivity. Qed.

Lemma deliver1_fields : forall st e,
  st_n (deliver1 st e) = st_n st /\ st_tree (deliver1 st e) = st_tree st /\ st_subs (deliver1 st e) = st_subs st /\
  st_ipres (deliver1 st e) = st_ipres st /\ st_refl (deliver1 st e) = st_refl st /\ st_pend (deliver1 st e) = st_pend st.
Proof. intros st [[s p] o]. simpl. repeat split; reflexivity. Qed.

Lemma fold_deliver_fields : forall pe st,
  st_n (fold_left deliver1 pe st) = st_n st /\ st_tree (fold_left deliver1 pe st) = st_tree st /\
  st_subs (fold_left deliver1 pe st) = st_subs st /\ st_ipres (fold_left deliver1 pe st) = st_ipres st /\
  st_refl (fold_left deliver1 pe st) = st_refl st /\ st_pend (fold_left deliver1 pe st) = st_pend st.
Proof.
  induction pe as [|e pe IH]; intro st; simpl.
  - repeat split; reflexivity.
  - destruct (IH (deliver1 st e)) as (A & B & C & D & E & F).
    destruct (deliver1_fields st e) as (A' & B' & C' & D' & E' & F').
    repeat split; congruence.
Qed.

Lemma fold_deliver_mirror : forall pe st s p,
  st_mirror (fold_left deliver1 pe st) s p
  = if subscribed st s p then replay (pend_for pe s p) (st_mirror st s p) else st_mirror st s p.
Proof.
  induction pe as [|[[s' p'] o] pe IH]; intros st s p.
  - simpl. destruct (subscribed st s p); reflexivity.
  - cbn [fold_left]. rewrite IH.
    rewrite (subscribed_subs st (deliver1 st (s', p', o)) s p) by apply deliver1_fields.
    change (pend_for ((s', p', o) :: pe) s p) with ((if Nat.eqb s' s && path_eqb p' p then [o] else []) ++ pend_for pe s p).
    simpl st_mirror.
    destruct (subscribed st s p) eqn:Es.
    + destruct (Nat.eqb s' s) eqn:E1; simpl.
      * apply Nat.eqb_eq in E1. subst s'. rewrite Nat.eqb_refl. simpl.
        destruct (path_eqb p' p) eqn:E2; simpl.
        -- apply path_eqb_eq in E2. subst p'. rewrite path_eqb_refl, Es. reflexivity.
        -- rewrite path_eqb_sym, E2. reflexivity.
      * rewrite Nat.eqb_sym, E1. reflexivity.
    + destruct (Nat.eqb s s' && path_eqb p p' && subscribed st s' p') eqn:Eh; [|reflexivity].
      apply andb_true_iff in Eh. destruct Eh as [Eh E3]. apply andb_true_iff in Eh. destruct Eh as [E1 E2].
      apply Nat.eqb_eq in E1. apply path_eqb_eq in E2. subst. congruence.
Qed.

Lemma fold_deliver_hist : forall pe st s p,
  st_hist (fold_left deliver1 pe st) s p
  = if subscribed st s p then st_hist st s p ++ pend_for pe s p else st_hist st s p.
Proof.
  induction pe as [|[[s' p'] o] pe IH]; intros st s p.
  - simpl. destruct (subscribed st s p); [rewrite app_nil_r|]; reflexivity.
  - cbn [fold_left]. rewrite IH.
    rewrite (subscribed_subs st (deliver1 st (s', p', o)) s p) by apply deliver1_fields.
    change (pend_for ((s', p', o) :: pe) s p) with ((if Nat.eqb s' s && path_eqb p' p then [o] else []) ++ pend_for pe s p).
    simpl st_hist.
    destruct (subscribed st s p) eqn:Es.
    + destruct (Nat.eqb s' s) eqn:E1; simpl.
      * apply Nat.eqb_eq in E1. subst s'. rewrite Nat.eqb_refl. simpl.
        destruct (path_eqb p' p) eqn:E2; simpl.
        -- apply path_eqb_eq in E2. subst p'. rewrite path_eqb_refl, Es. simpl. rewrite <- app_assoc. reflexivity.
        -- rewrite path_eqb_sym, E2. reflexivity.
      * rewrite Nat.eqb_sym, E1. reflexivity.
    + destruct (Nat.eqb s s' && path_eqb p p' && subscribed st s' p') eqn:Eh; [|reflexivity].
      apply andb_true_iff in Eh. destruct Eh as [Eh E3]. apply andb_true_iff in Eh. destruct Eh as [E1 E2].
      apply Nat.eqb_eq in E1. apply path_eqb_eq in E2. subst. congruence.
Qed.

(* ------------------------------------------------------------------ flush re-establishes the boundary invariant *)

Lemma subscribed_lt : forall st s p, MidA st -> subscribed st s p = true -> s < st_n st.
Proof.
  intros st s p M H. destruct (Nat.lt_ge_cases s (st_n st)) as [Hl|Hg]; [exact Hl|].
  unfold subscribed in H. rewrite (mA_n st M s Hg) in H. discriminate.
Qed.

Lemma J_ext : forall st st' s, st_ipres st' = st_ipres st -> st_tree st' = st_tree st -> J st s -> J st' s.
Proof. intros st st' s H1 H2 H. unfold J in *. rewrite H1, H2. exact H. Qed.

Lemma flush_Inv : forall st, MidA st -> I6 st -> Inv (flush st).
Proof.
  intros st M H6. unfold flush.
  destruct (fold_deliver_fields (st_pend st) (with_pend st [])) as (A & B & C & D & E & F).
  simpl in A, B, C, D, E, F.
  split; [|split].
  - constructor.
    + rewrite B. apply (mA_twf st M).
    + intros s p Hs. rewrite (subscribed_subs (with_pend st []) _ s p C) in Hs.
      rewrite F, B. simpl. rewrite fold_deliver_mirror.
      change (subscribed (with_pend st []) s p) with (subscribed st s p) in *. rewrite Hs. simpl.
      apply (mA_sub st M s p Hs).
    + intros s p Hs. rewrite (subscribed_subs (with_pend st []) _ s p C) in Hs.
      rewrite F. split; [|reflexivity]. rewrite fold_deliver_mirror.
      change (subscribed (with_pend st []) s p) with (subscribed st s p) in *. rewrite Hs. simpl.
      apply (mA_unsub st M s p Hs).
    + intros s p. rewrite fold_deliver_mirror, fold_deliver_hist.
      change (subscribed (with_pend st []) s p) with (subscribed st s p). simpl.
      destruct (subscribed st s p); [|apply (mA_hist st M)].
      rewrite replay_app, (mA_hist st M). reflexivity.
    + intros s Hs. rewrite A in Hs. rewrite C. apply (mA_n st M s Hs).
    + intros s p _. rewrite F. reflexivity.
    + intros s p. rewrite fold_deliver_hist.
      change (subscribed (with_pend st []) s p) with (subscribed st s p). simpl.
      destruct (subscribed st s p) eqn:Es; [|apply (mA_hfit st M)].
      rewrite ops_fit_app, (mA_hfit st M), (mA_hist st M). simpl. apply (mA_fit st M s p Es).
    + intros s p Hs. rewrite (subscribed_subs (with_pend st []) _ s p C) in Hs. rewrite fold_deliver_hist.
      change (subscribed (with_pend st []) s p) with (subscribed st s p) in *. rewrite Hs. simpl.
      apply (mA_hunsub st M s p Hs).
  - intro s. apply (J_ext st); [exact D | exact B | apply H6].
  - exact F.
Qed.

(* ------------------------------------------------------------------ generic effect of an index change at one node *)

Lemma tree_step_MidA : forall st t' p ops,
  MidA st -> twf t' ->
  (forall q, q <> p -> index_at t' q = index_at (st_tree st) q) ->
  replay ops (index_at (st_tree st) p) = index_at t' p ->
  ops_fit ops (index_at (st_tree st) p) = true ->
  MidA (notify (with_tree st t') p ops).
Proof.
  intros st t' p ops M Hw Hother Hp Hfit. constructor; simpl.
  - exact Hw.
  - intros s q Hs. change (subscribed (notify (with_tree st t') p ops) s q) with (subscribed st s q) in Hs.
    rewrite pend_for_app, pend_for_notify. simpl.
    change (subscribed (with_tree st t') s p) with (subscribed st s p).
    rewrite replay_app, (mA_sub st M s q Hs).
    destruct (path_eqb p q) eqn:E.
    + apply path_eqb_eq in E. subst q. rewrite Hs.
      replace (s <? st_n st) with true by (symmetry; apply Nat.ltb_lt; eapply subscribed_lt; eassumption).
      simpl. exact Hp.
    + rewrite andb_false_r. simpl. symmetry. apply Hother. apply path_eqb_neq in E. congruence.
  - intros s q Hs. change (subscribed (notify (with_tree st t') p ops) s q) with (subscribed st s q) in Hs.
    destruct (mA_unsub st M s q Hs) as [H1 H2]. split; [exact H1|].
    rewrite pend_for_app, pend_for_notify, H2. simpl.
    change (subscribed (with_tree st t') s p) with (subscribed st s p).
    destruct (path_eqb p q) eqn:E.
    + apply path_eqb_eq in E. subst q. rewrite Hs, andb_false_r. reflexivity.
    + rewrite andb_false_r. reflexivity.
  - apply (mA_hist st M).
  - apply (mA_n st M).
  - intros s q Hs. change (subscribed (notify (with_tree st t') p ops) s q) with (subscribed st s q) in Hs.
    rewrite pend_for_app, pend_for_notify. simpl.
    change (subscribed (with_tree st t') s p) with (subscribed st s p).
    rewrite ops_fit_app, (mA_fit st M s q Hs), (mA_sub st M s q Hs). simpl.
    destruct (path_eqb p q) eqn:E.
    + apply path_eqb_eq in E. subst q. rewrite Hs.
      replace (s <? st_n st) with true by (symmetry; apply Nat.ltb_lt; eapply subscribed_lt; eassumption).
      simpl. exact Hfit.
    + rewrite andb_false_r. reflexivity.
  - apply (mA_hfit st M).
  - apply (mA_hunsub st M).
Qed.

Lemma tree_same_MidA : forall st t',
  MidA st -> twf t' -> (forall q, index_at t' q = index_at (st_tree st) q) -> MidA (with_tree st t').
Proof.
  intros st t' M Hw Hsame. constructor; simpl.
  - exact Hw.
  - intros s q Hs. rewrite Hsame. apply (mA_sub st M s q Hs).
  - apply (mA_unsub st M).
  - apply (mA_hist st M).
  - apply (mA_n st M).
  - apply (mA_fit st M).
  - apply (mA_hfit st M).
  - apply (mA_hunsub st M).
Qed.

Lemma own_inj : forall s s' p, own s p = true -> own s' p = true -> s = s'.
Proof.
  intros s s' [|[x|x|x] p] H1 H2; simpl in *; try discriminate.
  apply Nat.eqb_eq in H1. apply Nat.eqb_eq in H2. congruence.
Qed.

Lemma own_app : forall s p r, own s p = true -> own s (p ++ r) = true.
Proof. intros s [|x p] r H; simpl in *; [discriminate | exact H]. Qed.

Lemma I6_I6x : forall st s, I6 st -> I6x s st.
Proof. intros st s H s' _. apply H. Qed.

Lemma I6_set_ipres : forall st s, I6x s st -> I6 (set_ipres st s).
Proof.
  intros st s H s'. unfold J. simpl. destruct (Nat.eqb s' s) eqn:E; [left; reflexivity|].
  apply Nat.eqb_neq in E. destruct (H s' E) as [H1|H1]; [left|right]; exact H1.
Qed.

Lemma I6x_set_ipres : forall st s s0, I6x s st -> I6x s (set_ipres st s0).
Proof.
  intros st s s0 H s' Hne. unfold J. simpl. destruct (H s' Hne) as [H1|H1]; [left|right; exact H1].
  rewrite H1. destruct (Nat.eqb s' s0); reflexivity.
Qed.

(* indices that were empty stay empty: the flag invariant survives *)
Lemma J_shrink : forall st st' s, st_ipres st' = st_ipres st ->
  (forall q, index_at (st_tree st) q = [] -> index_at (st_tree st') q = []) -> J st s -> J st' s.
Proof.
  intros st st' s Hi Hs [H|H]; [left; rewrite Hi; exact H | right; intros p Hp; apply Hs, H, Hp].
Qed.

(* a change confined to a node owned by s does not concern the other sessions *)
Lemma J_other : forall st st' s s' p, st_ipres st' = st_ipres st -> own s p = true -> s' <> s ->
  (forall q, q <> p -> index_at (st_tree st') q = index_at (st_tree st) q) -> J st s' -> J st' s'.
Proof.
  intros st st' s s' p Hi Ho Hne Hq [H|H]; [left; rewrite Hi; exact H | right].
  intros q Hoq. rewrite Hq; [apply H, Hoq|]. intro E. subst q. apply Hne. eapply own_inj; eassumption.
Qed.

(* ------------------------------------------------------------------ primitives keep Mid *)

Lemma index_at_set_node : forall t p n n' q, lookup t p = Some n ->
  index_at (set_node t p n') q = if path_eqb p q then index_of n' else index_at t q.
Proof.
  intros t p n n' q H. unfold index_at. rewrite lookup_set_node, H. destruct (path_eqb p q); reflexivity.
Qed.

Lemma index_at_add_node : forall t p q, index_at (add_node t p) q = index_at t q.
Proof.
  intros t p q. unfold index_at. rewrite lookup_add_node. destruct (lookup t q); [reflexivity|].
  destruct (path_eqb p q); reflexivity.
Qed.

Lemma node_at_lookup : forall st p n, lookup (st_tree st) p = Some n -> node_at st p = n.
Proof. intros st p n H. unfold node_at. rewrite H. reflexivity. Qed.

Lemma has_node_lookup : forall t p, has_node t p = true -> exists n, lookup t p = Some n.
Proof. intros t p H. unfold has_node in H. destruct (lookup t p) as [n|]; [exists n; reflexivity | discriminate]. Qed.

Lemma put_idx_MidA : forall st p n n' ops,
  MidA st -> lookup (st_tree st) p = Some n -> wfn (kids_of (st_tree st) p) n' ->
  replay ops (index_of n) = index_of n' -> ops_fit ops (index_of n) = true -> MidA (put_idx st p n' ops).
Proof.
  intros st p n n' ops M Hl Hw Hr Hf. unfold put_idx. apply tree_step_MidA.
  - exact M.
  - apply twf_set_node; [apply (mA_twf st M) | exact Hw].
  - intros q Hq. rewrite (index_at_set_node _ _ n) by exact Hl.
    replace (path_eqb p q) with false; [reflexivity|]. symmetry. apply path_eqb_neq. congruence.
  - rewrite (index_at_set_node _ _ n) by exact Hl. rewrite path_eqb_refl.
    rewrite (index_at_lookup _ _ _ Hl). exact Hr.
  - rewrite (index_at_lookup _ _ _ Hl). exact Hf.
Qed.

Lemma MidA_set_ipres : forall st s, MidA st -> MidA (set_ipres st s).
Proof. intros st s M. destruct M. constructor; assumption. Qed.

Lemma MidA_set_refl : forall st s v, MidA st -> MidA (set_refl st s v).
Proof. intros st s v M. destruct M. constructor; assumption. Qed.

Lemma I6_set_refl : forall st s v, I6 st -> I6 (set_refl st s v).
Proof. intros st s v H s'. apply (H s'). Qed.

(* what prim_remove_entry does *)
Lemma prim_remove_entry_spec : forall st p k, MidA st ->
  let st' := prim_remove_entry st p k in
  MidA st' /\ st_ipres st' = st_ipres st /\ map fst (st_tree st') = map fst (st_tree st) /\
  (forall q x, In x (index_at (st_tree st') q) -> In x (index_at (st_tree st) q) /\ (q = p -> x <> k)).
Proof.
  intros st p k M. unfold prim_remove_entry.
  destruct (has_node (st_tree st) p) eqn:Eh.
  2:{ simpl. split; [exact M|]. split; [reflexivity|]. split; [reflexivity|]. intros q x Hx. split; [exact Hx|].
      intros -> . unfold index_at in Hx. unfold has_node in Eh. destruct (lookup (st_tree st) p); [discriminate | inversion Hx]. }
  destruct (has_node_lookup _ _ Eh) as [n Hl]. rewrite (node_at_lookup _ _ _ Hl).
  destruct (remove_index_entry n k) as [n' ops] eqn:Er.
  destruct (remove_index_entry_spec (kids_of (st_tree st) p) n k n' ops (proj2 (mA_twf st M) p n Hl) Er) as (W & R & Nk & Sub & _).
  pose proof (remove_index_entry_fits _ _ _ _ Er) as Fit.
  cbv zeta. split; [eapply put_idx_MidA; eassumption|]. split; [reflexivity|]. split; [simpl; apply keys_set_node|].
  intros q x Hx. simpl in Hx. rewrite (index_at_set_node _ _ n) in Hx by exact Hl.
  destruct (path_eqb p q) eqn:E.
  - apply path_eqb_eq in E. subst q. rewrite (index_at_lookup _ _ _ Hl). split; [apply Sub, Hx|].
    intros _ Hk. subst x. contradiction.
  - split; [exact Hx|]. intros ->. rewrite path_eqb_refl in E. discriminate.
Qed.

Lemma I6_shrink : forall st st', I6 st -> st_ipres st' = st_ipres st ->
  (forall q x, In x (index_at (st_tree st') q) -> In x (index_at (st_tree st) q)) -> I6 st'.
Proof.
  intros st st' H Hi Hs s. apply (J_shrink st); [exact Hi | | apply H].
  intros q Hq. destruct (index_at (st_tree st') q) as [|x l] eqn:E; [reflexivity|].
  exfalso. assert (Hin : In x (index_at (st_tree st) q)) by (apply Hs; rewrite E; left; reflexivity).
  rewrite Hq in Hin. inversion Hin.
Qed.

Lemma I6x_shrink : forall s st st', I6x s st -> st_ipres st' = st_ipres st ->
  (forall q x, In x (index_at (st_tree st') q) -> In x (index_at (st_tree st) q)) -> I6x s st'.
Proof.
  intros s st st' H Hi Hs s' Hne. apply (J_shrink st); [exact Hi | | apply H; exact Hne].
  intros q Hq. destruct (index_at (st_tree st') q) as [|x l] eqn:E; [reflexivity|].
  exfalso. assert (Hin : In x (index_at (st_tree st) q)) by (apply Hs; rewrite E; left; reflexivity).
  rewrite Hq in Hin. inversion Hin.
Qed.

Lemma prim_remove_entry_Mid : forall st p k, Mid st -> Mid (prim_remove_entry st p k).
Proof.
  intros st p k [M H6]. destruct (prim_remove_entry_spec st p k M) as (M' & Hi & _ & Hs).
  split; [exact M'|]. apply (I6_shrink st); [exact H6 | exact Hi | intros q x Hx; apply (Hs q x Hx)].
Qed.

(* a fold of entry removals at one node *)
Lemma remove_entries_spec : forall q ks st, MidA st ->
  let st' := fold_left (fun st k => prim_remove_entry st q k) ks st in
  MidA st' /\ st_ipres st' = st_ipres st /\ map fst (st_tree st') = map fst (st_tree st) /\
  (forall p x, In x (index_at (st_tree st') p) -> In x (index_at (st_tree st) p)) /\
  (forall x, In x (index_at (st_tree st') q) -> ~ In x ks).
Proof.
  intros q ks. induction ks as [|k ks IH]; intros st M; simpl.
  - split; [exact M|]. split; [reflexivity|]. split; [reflexivity|]. split; [intros p x Hx; exact Hx | intros x _ Hx; exact Hx].
  - destruct (prim_remove_entry_spec st q k M) as (M1 & I1 & K1 & S1).
    destruct (IH (prim_remove_entry st q k) M1) as (M2 & I2 & K2 & S2 & D2).
    split; [exact M2|]. split; [congruence|]. split; [congruence|]. split.
    + intros p x Hx. apply (S1 p x). apply S2. exact Hx.
    + intros x Hx [Hk|Hk].
      * subst x. apply S2 in Hx. destruct (S1 q k Hx) as [_ Hne]. apply (Hne eq_refl). reflexivity.
      * apply (D2 x Hx Hk).
Qed.

Lemma drain_node_spec : forall st q, MidA st ->
  let st' := drain_node st q in
  MidA st' /\ st_ipres st' = st_ipres st /\ map fst (st_tree st') = map fst (st_tree st) /\
  (forall p x, In x (index_at (st_tree st') p) -> In x (index_at (st_tree st) p)) /\
  index_at (st_tree st') q = [].
Proof.
  intros st q M. unfold drain_node.
  destruct (remove_entries_spec q (kids_of (st_tree st) q) st M) as (M' & I' & K' & S' & D').
  split; [exact M'|]. split; [exact I'|]. split; [exact K'|]. split; [exact S'|].
  match goal with |- index_at ?t q = [] => destruct (index_at t q) as [|x l] eqn:E end; [reflexivity|].
  exfalso. assert (Hx : In x (x :: l)) by (left; reflexivity).
  apply (D' x Hx). apply kids_of_In. apply (twf_index_child _ _ _ (mA_twf st M)). apply S'. rewrite E. exact Hx.
Qed.

Lemma drain_all_spec : forall L st, MidA st ->
  let st' := fold_left drain_node L st in
  MidA st' /\ st_ipres st' = st_ipres st /\ map fst (st_tree st') = map fst (st_tree st) /\
  (forall p x, In x (index_at (st_tree st') p) -> In x (index_at (st_tree st) p)) /\
  (forall q, In q L -> index_at (st_tree st') q = []).
Proof.
  induction L as [|q L IH]; intros st M; simpl.
  - split; [exact M|]. split; [reflexivity|]. split; [reflexivity|]. split; [intros p x Hx; exact Hx | intros q []].
  - destruct (drain_node_spec st q M) as (M1 & I1 & K1 & S1 & D1).
    destruct (IH (drain_node st q) M1) as (M2 & I2 & K2 & S2 & D2).
    split; [exact M2|]. split; [congruence|]. split; [congruence|]. split.
    + intros p x Hx. apply S1, S2, Hx.
    + intros q' [->|Hq']; [|apply D2; exact Hq'].
      match goal with |- index_at ?t q' = [] => destruct (index_at t q') as [|x l] eqn:E end; [reflexivity|].
      exfalso. assert (Hx : In x (x :: l)) by (left; reflexivity). rewrite <- E in Hx. apply S2 in Hx. rewrite D1 in Hx. inversion Hx.
Qed.

Lemma has_node_keys : forall t t' p, map fst t = map fst t' -> has_node t p = has_node t' p.
Proof.
  induction t as [|[r m] t IH]; intros [|[r' m'] t'] p H; simpl in *; try discriminate; [reflexivity|].
  inversion H; subst. unfold has_node in *. simpl. destruct (path_eqb r' p); [reflexivity | apply IH; assumption].
Qed.

Lemma has_node_delete : forall t v q, has_node (delete_subtree t v) q = has_node t q && negb (is_prefix v q).
Proof.
  intros t v q. unfold has_node. rewrite lookup_delete_subtree.
  destruct (is_prefix v q); simpl; [rewrite andb_false_r; reflexivity | rewrite andb_true_r; reflexivity].
Qed.

Lemma removelast_snoc : forall (q : path) x, removelast (q ++ [x]) = q.
Proof. intros q x. apply removelast_last. Qed.

Lemma last_snoc : forall (q : path) x d, last (q ++ [x]) d = x.
Proof. intros q x d. apply last_last. Qed.

(* parent->RemoveChild(name, this, true) *)
Lemma remove_child_rec_Mid : forall st v, Mid st -> Mid (remove_child_rec st v).
Proof.
  intros st v [M H6]. unfold remove_child_rec.
  destruct (has_node (st_tree st) v) eqn:Eg; [|split; assumption].
  destruct (drain_all_spec (subtree_paths (st_tree st) v) st M) as (M1 & I1 & K1 & S1 & D1).
  set (st1 := fold_left drain_node (subtree_paths (st_tree st) v) st) in *.
  destruct (prim_remove_entry_spec st1 (parent_of v) (last_name v) M1) as (M2 & I2 & K2 & S2).
  set (st2 := prim_remove_entry st1 (parent_of v) (last_name v)) in *.
  assert (W2 : twf (st_tree st2)) by apply (mA_twf st2 M2).
  (* nodes at or below v hold an empty index by now *)
  assert (Hempty : forall q, is_prefix v q = true -> index_at (st_tree st2) q = []).
  { intros q Hq. destruct (index_at (st_tree st2) q) as [|x l] eqn:E; [reflexivity|]. exfalso.
    assert (Hx : In x (index_at (st_tree st2) q)) by (rewrite E; left; reflexivity).
    apply S2 in Hx. destruct Hx as [Hx _].
    destruct (has_node (st_tree st) q) eqn:Eh.
    - rewrite (D1 q) in Hx; [inversion Hx|]. apply subtree_paths_In. split; assumption.
    - apply S1 in Hx. unfold index_at in Hx. unfold has_node in Eh. destruct (lookup (st_tree st) q); [discriminate | inversion Hx]. }
  split.
  - apply tree_same_MidA; [exact M2 | | ].
    + split; [apply keys_delete_NoDup; apply W2|].
      intros q m Hq. rewrite lookup_delete_subtree in Hq. destruct (is_prefix v q) eqn:Ep; [discriminate|].
      destruct (proj2 W2 q m Hq) as [Hnd Hinc]. split; [exact Hnd|].
      intros x Hx. apply kids_of_In. rewrite has_node_delete.
      assert (Hc : has_node (st_tree st2) (q ++ [x]) = true) by (apply kids_of_In; apply Hinc; exact Hx).
      rewrite Hc. simpl. destruct (is_prefix v (q ++ [x])) eqn:Ep2; [|reflexivity]. exfalso.
      pose proof (is_prefix_snoc _ _ _ Ep2 Ep) as Ev. subst v.
      unfold parent_of, last_name in S2. rewrite removelast_snoc, last_snoc in S2.
      assert (Hx2 : In x (index_at (st_tree st2) q)) by (rewrite (index_at_lookup _ _ _ Hq); exact Hx).
      destruct (S2 q x Hx2) as [_ Hne]. apply (Hne eq_refl). reflexivity.
    + intros q. unfold index_at at 1. rewrite lookup_delete_subtree. destruct (is_prefix v q) eqn:Ep.
      * symmetry. apply Hempty. exact Ep.
      * reflexivity.
  - apply (I6_shrink st); [exact H6 | simpl; congruence |].
    intros q x Hx. simpl in Hx. unfold index_at in Hx at 1. rewrite lookup_delete_subtree in Hx.
    destruct (is_prefix v q); [inversion Hx|].
    apply S1. apply (S2 q x). exact Hx.
Qed.

Lemma prim_remove_node_Mid : forall st v, Mid st -> Mid (prim_remove_node st v).
Proof.
  intros st v HM. unfold prim_remove_node. destruct (2 <=? length v); [apply remove_child_rec_Mid|]; exact HM.
Qed.

Lemma prim_remove_entry_at_Mid : forall st p pos, Mid st -> Mid (prim_remove_entry_at st p pos).
Proof.
  intros st p pos [M H6]. unfold prim_remove_entry_at.
  destruct (has_node (st_tree st) p) eqn:Eh; [|split; assumption].
  destruct (has_node_lookup _ _ Eh) as [n Hl]. rewrite (node_at_lookup _ _ _ Hl).
  destruct (remove_index_entry_at n pos) as [n' ops] eqn:Er.
  pose proof (proj2 (mA_twf st M) p n Hl) as Wn.
  destruct (remove_index_entry_at_spec _ _ _ _ _ Wn Er) as (W & R & _).
  pose proof (remove_index_entry_at_fits _ _ _ _ Er) as Fit.
  split; [eapply put_idx_MidA; eassumption|].
  apply (I6_shrink st); [exact H6 | reflexivity|].
  intros q x Hx. simpl in Hx. rewrite (index_at_set_node _ _ n) in Hx by exact Hl.
  destruct (path_eqb p q) eqn:E; [|exact Hx]. apply path_eqb_eq in E. subst q. rewrite (index_at_lookup _ _ _ Hl).
  eapply remove_index_entry_at_incl; eassumption.
Qed.

Lemma prim_insert_entry_at_Mid : forall st s p pos k, Mid st -> Mid (prim_insert_entry_at st s p pos k).
Proof.
  intros st s p pos k [M H6]. unfold prim_insert_entry_at.
  destruct (own s p && has_node (st_tree st) p && mem k (kids_of (st_tree st) p)
            && negb (mem k (index_at (st_tree st) p)) && (pos <=? length (index_at (st_tree st) p))) eqn:Eg; [|split; assumption].
  apply andb_true_iff in Eg. destruct Eg as [Eg Epos]. apply andb_true_iff in Eg. destruct Eg as [Eg Enot].
  apply andb_true_iff in Eg. destruct Eg as [Eg Ek]. apply andb_true_iff in Eg. destruct Eg as [Ho Eh].
  destruct (has_node_lookup _ _ Eh) as [n Hl]. rewrite (node_at_lookup _ _ _ Hl).
  rewrite (index_at_lookup _ _ _ Hl) in Enot, Epos.
  destruct (insert_index_entry_at (kids_of (st_tree st) p) n pos k) as [n' ops] eqn:Ei.
  assert (Hnot : ~ In k (index_of n)) by (apply mem_false; apply negb_true_iff; exact Enot).
  destruct (insert_index_entry_at_spec _ _ _ _ _ _ (proj2 (mA_twf st M) p n Hl) Hnot Ei) as (W & R & _).
  assert (Fit : ops_fit ops (index_of n) = true) by (eapply insert_index_entry_at_fits; [apply Nat.leb_le; exact Epos | exact Ei]).
  split.
  - apply MidA_set_ipres. eapply put_idx_MidA; eassumption.
  - apply I6_set_ipres. intros s' Hne. apply (J_other st _ s s' p); [reflexivity | exact Ho | exact Hne | | apply H6].
    intros q Hq. simpl. rewrite (index_at_set_node _ _ n) by exact Hl.
    replace (path_eqb p q) with false; [reflexivity|]. symmetry. apply path_eqb_neq. congruence.
Qed.

Lemma add_node_Mid : forall st q, Mid st -> Mid (with_tree st (add_node (st_tree st) q)).
Proof.
  intros st q [M H6]. split.
  - apply tree_same_MidA; [exact M | apply twf_add_node; apply (mA_twf st M) | intro p; apply index_at_add_node].
  - apply (I6_shrink st); [exact H6 | reflexivity |]. intros p x Hx. simpl in Hx. rewrite index_at_add_node in Hx. exact Hx.
Qed.

Lemma insert_ordered_child_name : forall kids n b x, snd (fst (insert_ordered_child kids n b (Some x))) = x.
Proof.
  intros kids n b x. unfold insert_ordered_child.
  destruct (idx n); destruct (is_remove b); reflexivity.
Qed.

Lemma twf_insert_child : forall t p n n' nm,
  twf t -> lookup t p = Some n -> has_node t (p ++ [nm]) = false -> wfn (kids_of t p ++ [nm]) n' ->
  twf (add_node (set_node t p n') (p ++ [nm])).
Proof.
  intros t p n n' nm [Hk Hw] Hl Hh Hwn. split.
  - apply keys_add_node_NoDup. rewrite keys_set_node. exact Hk.
  - intros q m Hq. rewrite lookup_add_node, lookup_set_node, Hl in Hq.
    assert (Hkids : forall q0, incl (kids_of t q0) (kids_of (add_node (set_node t p n') (p ++ [nm])) q0)).
    { intro q0. eapply incl_tran; [|apply kids_of_add_node]. rewrite kids_of_set_node. apply incl_refl. }
    destruct (path_eqb p q) eqn:E.
    + apply path_eqb_eq in E. subst q. inversion Hq; subst m.
      eapply wfn_incl; [|exact Hwn]. intros x Hx. apply in_app_or in Hx. destruct Hx as [Hx|[<-|[]]].
      * apply Hkids. exact Hx.
      * apply kids_of_In. rewrite has_node_add_node, path_eqb_refl. apply orb_true_r.
    + destruct (lookup t q) as [m0|] eqn:El.
      * inversion Hq; subst m0. eapply wfn_incl; [apply Hkids | apply Hw; exact El].
      * destruct (path_eqb (p ++ [nm]) q); [|discriminate]. inversion Hq; subst. apply wfn_new.
Qed.

Lemma index_at_insert_child : forall t p n n' nm q, lookup t p = Some n ->
  index_at (add_node (set_node t p n') (p ++ [nm])) q = if path_eqb p q then index_of n' else index_at t q.
Proof. intros. rewrite index_at_add_node. apply index_at_set_node with (n := n). assumption. Qed.

Lemma prim_insert_ordered_Mid : forall st s p b optname, Mid st -> Mid (prim_insert_ordered st s p b optname).
Proof.
  intros st s p b optname [M H6]. unfold prim_insert_ordered.
  destruct (own s p && has_node (st_tree st) p) eqn:Eg; [|split; assumption].
  apply andb_true_iff in Eg. destruct Eg as [Ho Eh].
  destruct (has_node_lookup _ _ Eh) as [n Hl]. rewrite (node_at_lookup _ _ _ Hl).
  destruct (insert_ordered_child (kids_of (st_tree st) p) n b optname) as [[n' nm] ops] eqn:Ei.
  destruct (has_node (st_tree st) (p ++ [nm])) eqn:Eh2; [split; assumption|].
  assert (Hfresh : forall x, optname = Some x -> ~ In x (kids_of (st_tree st) p)).
  { intros x -> Hin. pose proof (insert_ordered_child_name (kids_of (st_tree st) p) n b x) as Hn. rewrite Ei in Hn. simpl in Hn. subst nm.
    apply kids_of_In in Hin. congruence. }
  destruct (insert_ordered_child_spec _ _ _ _ _ _ _ (proj2 (mA_twf st M) p n Hl) Hfresh Ei) as (_ & W & R).
  split.
  - apply MidA_set_ipres. apply tree_step_MidA.
    + exact M.
    + eapply twf_insert_child; try eassumption. apply (mA_twf st M).
    + intros q Hq. rewrite (index_at_insert_child _ _ n) by exact Hl.
      replace (path_eqb p q) with false; [reflexivity|]. symmetry. apply path_eqb_neq. congruence.
    + rewrite (index_at_insert_child _ _ n) by exact Hl. rewrite path_eqb_refl, (index_at_lookup _ _ _ Hl). exact R.
    + rewrite (index_at_lookup _ _ _ Hl). eapply insert_ordered_child_fits. exact Ei.
  - apply I6_set_ipres. intros s' Hne. apply (J_other st _ s s' p); [reflexivity | exact Ho | exact Hne | | apply H6].
    intros q Hq. simpl. rewrite (index_at_insert_child _ _ n) by exact Hl.
    replace (path_eqb p q) with false; [reflexivity|]. symmetry. apply path_eqb_neq. congruence.
Qed.

Lemma prim_reorder_Mid : forall cfg st s p c b, fix_reorder_ipres cfg = true -> Mid st ->
  Mid (prim_reorder cfg st s p c b).
Proof.
  intros cfg st s p c b Hfix [M H6]. unfold prim_reorder. rewrite Hfix.
  destruct (own s p && has_node (st_tree st) p && has_node (st_tree st) (p ++ [c])) eqn:Eg; [|split; assumption].
  apply andb_true_iff in Eg. destruct Eg as [Eg Ec]. apply andb_true_iff in Eg. destruct Eg as [Ho Eh].
  destruct (has_node_lookup _ _ Eh) as [n Hl]. rewrite (node_at_lookup _ _ _ Hl).
  destruct (reorder_child (kids_of (st_tree st) p) n c b) as [n' ops] eqn:Er.
  assert (Hc : In c (kids_of (st_tree st) p)) by (apply kids_of_In; exact Ec).
  destruct (reorder_child_spec _ _ _ _ _ _ (proj2 (mA_twf st M) p n Hl) Hc Er) as (W & R & _).
  pose proof (reorder_child_fits _ _ _ _ _ _ (proj2 (mA_twf st M) p n Hl) Er) as Fit.
  split.
  - apply MidA_set_ipres. eapply put_idx_MidA; eassumption.
  - apply I6_set_ipres. intros s' Hne. apply (J_other st _ s s' p); [reflexivity | exact Ho | exact Hne | | apply H6].
    intros q Hq. simpl. rewrite (index_at_set_node _ _ n) by exact Hl.
    replace (path_eqb p q) with false; [reflexivity|]. symmetry. apply path_eqb_neq. congruence.
Qed.

Lemma set_data_node_aux_Mid : forall rel st s cur addidx b, Mid st ->
  Mid (set_data_node_aux st s cur rel addidx b).
Proof.
  induction rel as [|c rest IH]; intros st s cur addidx b HM; [exact HM|].
  destruct rest as [|c2 rest].
  - cbn [set_data_node_aux].
    destruct (has_node (st_tree st) (cur ++ [c])).
    + destruct addidx; [exact HM|]. destruct (is_remove b); [apply prim_remove_entry_Mid; exact HM | exact HM].
    + destruct addidx; [apply prim_insert_ordered_Mid; assumption | apply add_node_Mid; exact HM].
  - change (set_data_node_aux st s cur (c :: c2 :: rest) addidx b)
      with (set_data_node_aux (with_tree st (add_node (st_tree st) (cur ++ [c]))) s (cur ++ [c]) (c2 :: rest) addidx b).
    apply IH. apply add_node_Mid. exact HM.
Qed.

Lemma own_root : forall s, own s [NS s] = true.
Proof. intro s. simpl. apply Nat.eqb_refl. Qed.

Lemma set_data_node_Mid : forall st s rel addidx b, Mid st -> Mid (set_data_node st s rel addidx b).
Proof.
  intros st s rel addidx b HM. unfold set_data_node.
  destruct (has_node (st_tree st) [NS s]); [|exact HM]. apply set_data_node_aux_Mid. exact HM.
Qed.
