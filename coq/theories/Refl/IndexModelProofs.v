(* Refl/IndexModelProofs.v -- C13: invariants of the index state machine of Refl/IndexModel.v.
   Inv (at every point where a client can observe: after the push that follows each command):
     - the tree is well-formed: every index lists only existing children, each once      (twf)
     - nothing is pending
     - every client's replica of every node it is subscribed to equals the server's index
     - what was delivered since the subscription replays (from nothing) to that replica
     - a session whose _indexingPresent flag is clear owns no non-empty index             (I6)
   Mid: the same while a command is being handled, with "replica" replaced by
        "replica after replaying what is still pending for that client and node". *)
From Coq Require Import List Arith Bool Lia.
Import ListNotations.
From Muscle Require Import Refl.Index Refl.IndexProofs Refl.IndexModel.

(* the ops pending (or being delivered) for client s and node p, in order *)
Definition pend_for (pe : list event) (s : nat) (p : path) : list iop :=
  flat_map (fun e : event => let '(s', p', o) := e in if Nat.eqb s' s && path_eqb p' p then [o] else []) pe.

Record MidA (st : state) : Prop := mkMidA {
  mA_twf : twf (st_tree st);
  mA_sub : forall s p, subscribed st s p = true ->
           replay (pend_for (st_pend st) s p) (st_mirror st s p) = index_at (st_tree st) p;
  mA_unsub : forall s p, subscribed st s p = false -> st_mirror st s p = [] /\ pend_for (st_pend st) s p = [];
  mA_hist : forall s p, replay (st_hist st s p) [] = st_mirror st s p;
  mA_n : forall s, st_n st <= s -> st_subs st s = []
}.

Definition J (st : state) (s : nat) : Prop :=
  st_ipres st s = true \/ forall p, own s p = true -> index_at (st_tree st) p = [].
Definition I6 (st : state) : Prop := forall s, J st s.
Definition I6x (s : nat) (st : state) : Prop := forall s', s' <> s -> J st s'.

Definition Mid (st : state) : Prop := MidA st /\ I6 st.
Definition Inv (st : state) : Prop := MidA st /\ I6 st /\ st_pend st = [].

(* ------------------------------------------------------------------ pending projections *)

Lemma pend_for_app : forall a b s p, pend_for (a ++ b) s p = pend_for a s p ++ pend_for b s p.
Proof. intros. unfold pend_for. apply flat_map_app. Qed.

Lemma pend_for_map : forall s' p' ops s p,
  pend_for (map (fun o => (s', p', o)) ops) s p = if Nat.eqb s' s && path_eqb p' p then ops else [].
Proof.
  intros s' p' ops s p. induction ops as [|o t IH]; simpl.
  - destruct (Nat.eqb s' s && path_eqb p' p); reflexivity.
  - unfold pend_for in *. simpl. rewrite IH.
    destruct (Nat.eqb s' s && path_eqb p' p); reflexivity.
Qed.

Lemma pend_for_notify_seq : forall (st : state) p ops s q n a,
  pend_for (flat_map (fun s' => if subscribed st s' p then map (fun o => (s', p, o)) ops else []) (seq a n)) s q
  = if (a <=? s) && (s <? a + n) && subscribed st s p && path_eqb p q then ops else [].
Proof.
  intros st p ops s q n. induction n as [|n IH]; intro a; simpl.
  - replace (s <? a + 0) with false by (symmetry; apply Nat.ltb_ge; lia).
    rewrite andb_false_r. reflexivity.
  - rewrite pend_for_app, IH.
    assert (Hhead : pend_for (if subscribed st a p then map (fun o => (a, p, o)) ops else []) s q
                    = if Nat.eqb a s && subscribed st s p && path_eqb p q then ops else []).
    { destruct (Nat.eqb_spec a s) as [->|Hne].
      - destruct (subscribed st s p); simpl; [rewrite pend_for_map, Nat.eqb_refl; reflexivity | reflexivity].
      - simpl. destruct (subscribed st a p); [|reflexivity]. rewrite pend_for_map.
        replace (Nat.eqb a s) with false by (symmetry; apply Nat.eqb_neq; exact Hne). reflexivity. }
    rewrite Hhead.
    destruct (Nat.eqb_spec a s) as [->|Hne].
    + replace (S s <=? s) with false by (symmetry; apply Nat.leb_gt; lia). simpl. rewrite app_nil_r.
      replace (s <=? s) with true by (symmetry; apply Nat.leb_le; lia).
      replace (s <? s + S n) with true by (symmetry; apply Nat.ltb_lt; lia). reflexivity.
    + simpl.
      assert (E : (S a <=? s) && (s <? S a + n) = (a <=? s) && (s <? a + S n)).
      { destruct (Nat.leb_spec (S a) s), (Nat.leb_spec a s), (Nat.ltb_spec s (S a + n)), (Nat.ltb_spec s (a + S n)); try reflexivity; lia. }
      rewrite E. reflexivity.
Qed.

Lemma pend_for_notify : forall st p ops s q,
  pend_for (notify_events st p ops) s q = if (s <? st_n st) && subscribed st s p && path_eqb p q then ops else [].
Proof.
  intros. unfold notify_events. rewrite pend_for_notify_seq. simpl. reflexivity.
Qed.
