(* Refl/ParamsExamples.v -- the parameter-name layer (Params.v) on a concrete history: "SUBSCRIBE:ab" does not remove what
   "SUBSCRIBE:/*/*/ab" created, the same spelling does; and the premises of mirror_converges_wire are satisfiable. *)
From Coq Require Import List NArith ZArith Bool Arith Lia.
From Muscle Require Import Gen.Consts Refl.Base Refl.BaseProofs Refl.Tree Refl.Matcher Refl.Traverse Refl.Session Refl.Server
     Refl.ServerProofs Refl.RefcountProofs Refl.Mirror Refl.MirrorProofs Refl.MirrorCheck Refl.Params Refl.ParamsProofs Refl.Concrete Refl.Examples.
Import ListNotations.
Local Open Scope N_scope.

Definition exw : list event :=
  [ EAttach 0 1 10; EAttach 1 1 11;
    ECmd 1 (CSetData 0 [([21], 6)]);
    ECmd 0 (CSubscribe false [(Abs [CAny; CAny; CLit 21], None)]);      (* SUBSCRIBE:/*/*/ab *)
    ECmd 0 (CUnsubscribe [Rel [CLit 21]]) ].                             (* REMOVEPARAMETERS SUBSCRIBE:ab: no such parameter *)

Definition held (w : world) (o : sid) : option nat :=
  option_map (fun c => length (c_mirror c)) (find (fun c => N.eqb (c_id c) o) (w_clients w)).
Definition entries_of (w : world) (o : sid) : option nat :=
  option_map (fun ss => length (all_entries (s_subs ss))) (get_session (w_srv w) o).

Example wire_alias_unsubscribe_is_noop :
  (* on the wire: entry and mirror stay *)
  held (pw_world (pworld_run all_fixed exw empty_pworld)) 0 = Some 1%nat
  /\ entries_of (pw_world (pworld_run all_fixed exw empty_pworld)) 0 = Some 1%nat
  (* the same spelling removes them *)
  /\ held (pw_world (pworld_run all_fixed (exw ++ [ECmd 0 (CUnsubscribe [Abs [CAny; CAny; CLit 21]])]) empty_pworld)) 0 = Some 0%nat
  /\ entries_of (pw_world (pworld_run all_fixed (exw ++ [ECmd 0 (CUnsubscribe [Abs [CAny; CAny; CLit 21]])]) empty_pworld)) 0 = Some 0%nat
  (* the entry-level command would have removed them at once *)
  /\ held (world_run all_fixed exw empty_world) 0 = Some 0%nat.
Proof. vm_compute. repeat split; reflexivity. Qed.

(* the premises of mirror_converges_wire, in checkable form *)
Fixpoint wf_prun_b (fx : fixes) (pw : pworld) (evs : list event) : bool :=
  match evs with
  | [] => true
  | ev :: r => wf_event_b (w_srv (pw_world pw)) ev && wf_prun_b fx (pworld_step fx pw ev) r
  end.

Lemma wf_prun_b_spec : forall fx evs pw, wf_prun_b fx pw evs = true -> wf_prun fx pw evs.
Proof.
  induction evs as [|ev evs IH]; intros pw H; cbn [wf_prun_b wf_prun] in *; auto.
  apply andb_true_iff in H as [H1 H2]. split; [|now apply IH].
  destruct ev as [s host nm|s|s c]; cbn [wf_event wf_event_b] in *; auto.
  intros ss Hin E. rewrite forallb_forall in H1. specialize (H1 ss Hin).
  apply negb_true_iff in H1. apply path_eqb_neq in H1. contradiction.
Qed.

Fixpoint ok_prun_b (fx : fixes) (o : sid) (pw : pworld) (evs : list event) : bool :=
  match evs with
  | [] => true
  | ev :: r => ev_ok_b o (fst (lower_event pw ev)) && ev_clean_b o (fst (lower_event pw ev)) && ok_prun_b fx o (pworld_step fx pw ev) r
  end.

Lemma ok_prun_b_spec : forall fx o evs pw, ok_prun_b fx o pw evs = true -> ok_prun fx o pw evs.
Proof.
  induction evs as [|ev evs IH]; intros pw H; [exact I|]. cbn [ok_prun_b ok_prun] in *.
  apply andb_true_iff in H as [H1 H2]. apply andb_true_iff in H1 as [H0 H1].
  split; [now apply ev_ok_b_one|split; [now apply ev_clean_b_one|now apply IH]].
Qed.

Example wire_premises_satisfiable :
  wf_prun_b all_fixed empty_pworld exw = true /\ ok_prun_b all_fixed 0 empty_pworld exw = true.
Proof. vm_compute. repeat split; reflexivity. Qed.
