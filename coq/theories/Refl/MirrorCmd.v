(* Refl/MirrorCmd.v -- the subscriber invariant J through whole commands (MessageReceivedFromGateway), for the
   observer's own commands and for everybody else's. *)
From Coq Require Import List NArith ZArith Bool Arith Lia.
From Muscle Require Import Gen.Consts Refl.Base Refl.BaseProofs Refl.Tree Refl.TreeProofs Refl.Matcher Refl.MatcherProofs
     Refl.Traverse Refl.TraverseFold Refl.TraverseSpec Refl.Session Refl.Server Refl.ServerProofs Refl.Mirror Refl.MirrorBase
     Refl.MirrorServer Refl.MirrorNotify Refl.MirrorSem Refl.MirrorSteps Refl.MirrorHandlers Refl.MirrorSubscribe Refl.MirrorFetch
     Refl.MirrorSubJ.
Import ListNotations.

Section Cmd.
Context {M : MatchOps} {L : MatchLaws M}.

(* no quiet flag anywhere in the command *)
Fixpoint cmd_loud (c : cmd) : bool :=
  match c with
  | CSetData flags _ => negb (flag_set flags c_SETDATANODE_FLAG_QUIET)
  | CRemoveData q _ => negb q
  | CSubscribe q _ => negb q
  | CBatch l => forallb cmd_loud l
  | _ => true
  end.

(* neither an explicit GETDATA nor an unsubscribe anywhere in the command *)
Fixpoint cmd_plain (c : cmd) : bool :=
  match c with
  | CGetData _ => false
  | CUnsubscribe _ => false
  | CBatch l => forallb cmd_plain l
  | _ => true
  end.


(* the SUBSCRIBE: fields of one Message have distinct, non-empty paths (they are field names of one Message) *)
Fixpoint cmd_subs_ok (c : cmd) : Prop :=
  match c with
  | CSubscribe _ subs => NoDup (fixed subs) /\ forall p, In p (fixed subs) -> p <> []
  | CBatch l => (fix all (l : list cmd) : Prop := match l with [] => True | c' :: r => cmd_subs_ok c' /\ all r end) l
  | _ => True
  end.

Variable fx : fixes.
Hypothesis guard_on : fx_guard fx = true.
Hypothesis overlap_on : fx_overlap fx = true.
Hypothesis push_on : fx_push fx = true.
Variable mir : mirror.
Variable o : sid.                (* the observer *)

Notation J := (J mir).
Notation V := (V mir).

(* ------------------------------------------------------------------ SUBSCRIBE / unsubscribe lists of another session *)

Lemma subscribe_fold_other : forall subs B sv b, b <> o -> small (B + length subs) -> inv B sv -> pend_ok sv ->
  let sv' := fold_left (fun sv' sf => subscribe_one fx sv' b sf) subs sv in
  (forall q, V sv' o q = V sv o q) /\ (forall q, data_at (sv_tree sv') q = data_at (sv_tree sv) q)
  /\ same_for o sv sv' /\ pend_ok sv' /\ inv (B + length subs) sv'.
Proof.
  induction subs as [|sf subs IH]; intros B sv b Hne HB I Hpo; cbn [fold_left length].
  - rewrite Nat.add_0_r. split; [auto|split; [auto|split; [intros x Hx; eauto|auto]]].
  - destruct (subscribe_one_other fx guard_on mir B sv b sf o Hne I Hpo) as [H1 [H2 H3]].
    assert (I1 : inv (S B) (subscribe_one fx sv b sf)).
    { apply subscribe_one_inv; auto. eapply small_le; [|exact HB]. cbn [length]. lia. }
    destruct (IH (S B) (subscribe_one fx sv b sf) b Hne) as [H4 [H5 [H6 [H7 H8]]]]; auto.
    + eapply small_le; [|exact HB]. cbn [length]. lia.
    + now apply pend_ok_subscribe_one.
    + split; [intros q; now rewrite H4|split; [intros q; now rewrite H5|split; [|split; [auto|]]]].
      * eapply same_for_trans; eauto.
      * replace (B + S (length subs)) with (S B + length subs) by lia. exact H8.
Qed.

Lemma unsubscribe_fold_other : forall subs B sv b, b <> o -> small B -> inv B sv -> pend_ok sv ->
  let sv' := fold_left (fun sv' sp => unsubscribe_one fx sv' b sp) subs sv in
  (forall q, V sv' o q = V sv o q) /\ (forall q, data_at (sv_tree sv') q = data_at (sv_tree sv) q)
  /\ same_for o sv sv' /\ pend_ok sv' /\ inv B sv'.
Proof.
  induction subs as [|sp subs IH]; intros B sv b Hne HB I Hpo; cbn [fold_left].
  - split; [auto|split; [auto|split; [intros x Hx; eauto|auto]]].
  - destruct (unsubscribe_one_other fx guard_on mir B sv b sp o Hne I) as [H1 [H2 H3]].
    destruct (IH B (unsubscribe_one fx sv b sp) b Hne HB) as [H4 [H5 [H6 [H7 H8]]]].
    + now apply unsubscribe_one_inv.
    + now apply pend_ok_unsubscribe_one.
    + split; [intros q; now rewrite H4|split; [intros q; now rewrite H5|split; [|auto]]].
      eapply same_for_trans; eauto.
Qed.

Lemma same_for_core : forall sv sv', same_core sv sv' -> same_for o sv sv'.
Proof. intros sv sv' H. apply same_sess_for. now apply same_core_sess. Qed.

(* ------------------------------------------------------------------ one command *)

Lemma handle_J : forall c nest sv b B, small (B + cmd_budget c) ->
  cmd_loud c = true -> (b = o -> cmd_plain c = true /\ cmd_subs_ok c) ->
  inv B sv -> pend_ok sv -> J sv o ->
  J (handle fx nest sv b c) o /\ pend_ok (handle fx nest sv b c).
Proof.
  induction c using cmd_ind'; intros nest sv b B HB Hloud Hown I Hpo HJ; cbn [handle cmd_budget cmd_loud cmd_plain cmd_subs_ok] in *;
    destruct (get_session sv b) as [bs|] eqn:Hbs; try (split; assumption); try (rewrite Nat.add_0_r in HB).
  - (* SETDATA *)
    apply (set_data_items_J mir B i sv b f o); auto. now apply negb_true_iff in Hloud.
  - (* REMOVEDATA *)
    apply negb_true_iff in Hloud. subst q.
    apply (do_remove_data_J fx mir B [] sv bs k o); auto.
    pose proof (find_session_some _ _ _ Hbs) as [_ Hid]. rewrite Hid. exact Hbs.
  - (* SETPARAMETERS with SUBSCRIBE: fields *)
    apply negb_true_iff in Hloud. subst q.
    destruct (N.eq_dec b o) as [E|E].
    + subst b. destruct (Hown eq_refl) as [_ [Hnd Hne]].
      apply (subscribe_cmd_J fx guard_on overlap_on push_on mir o B sv k); eauto.
    + destruct (subscribe_fold_other k B sv b E HB I Hpo) as [H1 [H2 [H3 [H4 H5]]]].
      destruct k as [|sf0 k0] eqn:Ek.
      * split; [|exact H4]. apply (J_frame_local mir sv); auto.
      * rewrite <- Ek in *.
        set (sv1 := fold_left (fun sv' sf => subscribe_one fx sv' b sf) k sv) in *.
        assert (Hp : pend_ok (if fx_push fx then push_all sv1 else sv1)) by (destruct (fx_push fx); [now apply pend_ok_push_all|auto]).
        split; [|now apply pend_ok_do_get_data].
        apply (J_frame_local mir sv); auto.
        -- eapply same_for_trans; [exact H3|]. eapply same_for_trans; [|apply same_for_core, do_get_data_core].
           destruct (fx_push fx); [apply same_for_core, push_all_core|intros x Hx; eauto].
        -- intros q. rewrite (do_get_data_other fx mir _ b k o E). destruct (fx_push fx); [rewrite V_push_all|]; apply H1.
        -- intros q. destruct (do_get_data_core fx (if fx_push fx then push_all sv1 else sv1) b k) as [Ht _]. rewrite Ht.
           destruct (fx_push fx); [destruct (push_all_core sv1) as [Ht' _]; rewrite Ht'|]; apply H2.
  - (* REMOVEPARAMETERS of SUBSCRIBE: names *)
    destruct (N.eq_dec b o) as [E|E]; [destruct (Hown E) as [Hp _]; discriminate|].
    destruct (unsubscribe_fold_other k B sv b E HB I Hpo) as [H1 [H2 [H3 [H4 H5]]]].
    split; [|exact H4]. apply (J_frame_local mir sv); auto.
  - (* max update items *)
    split; [|apply pend_ok_upd_keep; [reflexivity|auto]].
    apply (J_frame_local mir sv); auto.
    + apply same_for_core. apply upd_session_core. reflexivity.
    + intros q. apply V_upd_keep. intros x; auto.
  - split; [|apply pend_ok_upd_keep; [reflexivity|auto]].
    apply (J_frame_local mir sv); auto.
    + apply same_for_core. apply upd_session_core. reflexivity.
    + intros q. apply V_upd_keep. intros x; auto.
  - (* GETDATA (never the observer's) *)
    destruct (N.eq_dec b o) as [E|E]; [destruct (Hown E) as [Hp _]; discriminate|].
    split; [|now apply pend_ok_do_get_data].
    apply (J_frame_local mir sv); auto.
    + apply same_for_core, do_get_data_core.
    + intros q. now apply do_get_data_other.
    + intros q. destruct (do_get_data_core fx sv b k) as [Ht _]. now rewrite Ht.
  - (* BATCH *)
    destruct (Nat.ltb nest max_batch_nest); [|split; assumption].
    clear Hbs bs. revert sv B HB Hloud Hown I Hpo HJ.
    induction H as [|c l Hc Hl IHl]; intros sv B HB Hloud Hown I Hpo HJ; [split; assumption|].
    cbn [forallb] in Hloud. apply andb_true_iff in Hloud as [Hl1 Hl2].
    assert (Hown1 : b = o -> cmd_plain c = true /\ cmd_subs_ok c).
    { intros E. destruct (Hown E) as [Hp [Hs _]]. cbn [forallb] in Hp. apply andb_true_iff in Hp as [Hp _]. auto. }
    assert (Hown2 : b = o -> forallb cmd_plain l = true /\
              (fix all (l : list cmd) : Prop := match l with [] => True | c' :: r => cmd_subs_ok c' /\ all r end) l).
    { intros E. destruct (Hown E) as [Hp [_ Hs]]. cbn [forallb] in Hp. apply andb_true_iff in Hp as [_ Hp]. auto. }
    match type of HB with small (B + (cmd_budget c + ?X)) => set (rest := X) in * end.
    destruct (Hc (S nest) sv b B) as [HJ1 Hpo1]; auto.
    { eapply small_le; [|exact HB]. lia. }
    assert (I1 : inv (B + cmd_budget c) (push_all (handle fx (S nest) sv b c))).
    { eapply inv_same_core; [apply push_all_core|]. apply handle_inv; auto. eapply small_le; [|exact HB]. lia. }
    apply (IHl (push_all (handle fx (S nest) sv b c)) (B + cmd_budget c)); auto.
    + now rewrite <- Nat.add_assoc.
    + now apply pend_ok_push_all.
    + now apply J_push_all.
Qed.

End Cmd.
