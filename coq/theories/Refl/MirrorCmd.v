(* Refl/MirrorCmd.v -- the subscriber invariant J through whole commands (MessageReceivedFromGateway), for the
   observer's own commands and for everybody else's. *)
From Coq Require Import List NArith ZArith Bool Arith Lia.
From Muscle Require Import Gen.Consts Refl.Base Refl.BaseProofs Refl.Tree Refl.TreeProofs Refl.Matcher Refl.MatcherProofs
     Refl.Traverse Refl.TraverseFold Refl.TraverseSpec Refl.Session Refl.Server Refl.ServerProofs Refl.Mirror Refl.MirrorBase
     Refl.MirrorServer Refl.MirrorNotify Refl.MirrorSem Refl.MirrorSteps Refl.MirrorHandlers Refl.MirrorSubscribe Refl.MirrorFetch
     Refl.MirrorSubJ Refl.MirrorFrame Refl.MirrorGet Refl.MirrorQuiet Refl.MirrorTail.
Import ListNotations.

Section Cmd.
Context {M : MatchOps} {L : MatchLaws M}.

(* no quiet flag anywhere in the command *)
(* what may be quiet: no change of the tree by another session, and not the observer's own SUBSCRIBE: (it would miss the
   initial values).  Another session's quiet subscription is nobody else's business, and neither are the observer's own
   quiet SETDATA / REMOVEDATA: they touch its own subtree only, which its mirror statement leaves out.
   [own] = the sender is the observer *)
Fixpoint cmd_loud_for (own : bool) (c : cmd) : bool :=
  match c with
  | CSetData flags _ => own || negb (flag_set flags c_SETDATANODE_FLAG_QUIET)
  | CRemoveData q _ => own || negb q
  | CSubscribe q _ => negb q || negb own
  | CBatch l => forallb (cmd_loud_for own) l
  | _ => true
  end.

(* everything loud (the strongest form; implies cmd_loud_for) *)
Fixpoint cmd_loud (c : cmd) : bool :=
  match c with
  | CSetData flags _ => negb (flag_set flags c_SETDATANODE_FLAG_QUIET)
  | CRemoveData q _ => negb q
  | CSubscribe q _ => negb q
  | CBatch l => forallb cmd_loud l
  | _ => true
  end.

(* no unsubscribe anywhere in the command *)
Fixpoint cmd_nounsub (c : cmd) : bool :=
  match c with
  | CUnsubscribe _ => false
  | CBatch l => forallb cmd_nounsub l
  | _ => true
  end.

(* neither an explicit GETDATA nor an unsubscribe anywhere in the command *)
Fixpoint cmd_plain (c : cmd) : bool :=
  match c with
  | CGetData _ => false
  | CUnsubscribe _ => false
  | CBatch l => forallb cmd_plain l
  | _ => true
  end.

(* the keys of every explicit GETDATA in the command are subscriptions the sender holds at that moment (same path, same
   filter; distinct non-empty paths): [m] is its subscription table when the command starts, threaded through a BATCH *)
Fixpoint cmd_covered (m : matcher) (c : cmd) : Prop :=
  match c with
  | CGetData keys =>
    NoDup (fixed keys) /\ (forall p, In p (fixed keys) -> p <> []) /\
    forall kf, In kf keys -> In (mkEntry (fix_path (fst kf)) (snd kf)) (all_entries m)
  | CBatch l =>
    (fix all (l : list cmd) (m : matcher) : Prop :=
       match l with [] => True | c' :: r => cmd_covered m c' /\ all r (fst (client_cmd m c')) end) l m
  | _ => True
  end.

(* the SUBSCRIBE: fields of one Message have distinct, non-empty paths (they are field names of one Message) *)
Fixpoint cmd_subs_ok (c : cmd) : Prop :=
  match c with
  | CSubscribe _ subs => NoDup (fixed subs) /\ forall p, In p (fixed subs) -> p <> []
  | CBatch l => (fix all (l : list cmd) : Prop := match l with [] => True | c' :: r => cmd_subs_ok c' /\ all r end) l
  | _ => True
  end.

(* none of o's subscription paths reaches below the session node of b (both attached) *)
Definition hidden_from (sv : server) (o b : sid) : Prop :=
  exists so sb, get_session sv o = Some so /\ get_session sv b = Some sb /\
                hidden_data (all_entries (s_subs so)) (session_dir sb).

Variable fx : fixes.
Hypothesis guard_on : fx_guard fx = true.
Hypothesis overlap_on : fx_overlap fx = true.
Hypothesis push_on : fx_push fx = true.
Variable mir : mirror.
Variable o : sid.                (* the observer *)

Notation J := (J mir).
Notation V := (V mir).

(* ------------------------------------------------------------------ SUBSCRIBE / unsubscribe lists of another session *)

Lemma subscribe_fold_other : forall subs B sv b, b <> o -> small (B + length subs) -> inv B sv -> pend_ok sv ->
  let sv' := fold_left (fun sv' sf => subscribe_one fx sv' b sf) subs sv in
  (forall q, V sv' o q = V sv o q) /\ (forall q, data_at (sv_tree sv') q = data_at (sv_tree sv) q)
  /\ same_for o sv sv' /\ pend_ok sv' /\ inv (B + length subs) sv'.
Proof.
  induction subs as [|sf subs IH]; intros B sv b Hne HB I Hpo; cbn [fold_left length].
  - rewrite Nat.add_0_r. split; [auto|split; [auto|split; [intros x Hx; eauto|auto]]].
  - destruct (subscribe_one_other fx guard_on mir B sv b sf o Hne I Hpo) as [H1 [H2 H3]].
    assert (I1 : inv (S B) (subscribe_one fx sv b sf)).
    { apply subscribe_one_inv; auto. eapply small_le; [|exact HB]. cbn [length]. lia. }
    destruct (IH (S B) (subscribe_one fx sv b sf) b Hne) as [H4 [H5 [H6 [H7 H8]]]]; auto.
    + eapply small_le; [|exact HB]. cbn [length]. lia.
    + now apply pend_ok_subscribe_one.
    + split; [intros q; now rewrite H4|split; [intros q; now rewrite H5|split; [|split; [auto|]]]].
      * eapply same_for_trans; eauto.
      * replace (B + S (length subs)) with (S B + length subs) by lia. exact H8.
Qed.

Lemma unsubscribe_fold_other : forall subs B sv b, b <> o -> small B -> inv B sv -> pend_ok sv ->
  let sv' := fold_left (fun sv' sp => unsubscribe_one fx sv' b sp) subs sv in
  (forall q, V sv' o q = V sv o q) /\ (forall q, data_at (sv_tree sv') q = data_at (sv_tree sv) q)
  /\ same_for o sv sv' /\ pend_ok sv' /\ inv B sv'.
Proof.
  induction subs as [|sp subs IH]; intros B sv b Hne HB I Hpo; cbn [fold_left].
  - split; [auto|split; [auto|split; [intros x Hx; eauto|auto]]].
  - destruct (unsubscribe_one_other fx guard_on mir B sv b sp o Hne I) as [H1 [H2 H3]].
    destruct (IH B (unsubscribe_one fx sv b sp) b Hne HB) as [H4 [H5 [H6 [H7 H8]]]].
    + now apply unsubscribe_one_inv.
    + now apply pend_ok_unsubscribe_one.
    + split; [intros q; now rewrite H4|split; [intros q; now rewrite H5|split; [|auto]]].
      eapply same_for_trans; eauto.
Qed.

Lemma same_for_core : forall sv sv', same_core sv sv' -> same_for o sv sv'.
Proof. intros sv sv' H. apply same_sess_for. now apply same_core_sess. Qed.

(* ------------------------------------------------------------------ one command *)

Lemma loud_for_of_loud : forall c own, cmd_loud c = true -> cmd_loud_for own c = true.
Proof.
  induction c using cmd_ind'; intros own Hl; cbn [cmd_loud cmd_loud_for] in *; auto.
  - rewrite Hl. apply orb_true_r.
  - rewrite Hl. apply orb_true_r.
  - now rewrite Hl.
  - induction H as [|c l Hc Hl' IH]; [reflexivity|]. cbn [forallb] in *. apply andb_true_iff in Hl as [H1 H2].
    rewrite (Hc own H1), (IH H2). reflexivity.
Qed.

Lemma covered_of_plain : forall c m, cmd_plain c = true -> cmd_covered m c.
Proof.
  induction c using cmd_ind'; intros m Hp; cbn [cmd_plain cmd_covered] in *; try exact I; try discriminate.
  revert m. induction H as [|c l Hc Hl IH]; intros m; [exact I|]. cbn [forallb] in Hp. apply andb_true_iff in Hp as [H1 H2].
  split; [now apply Hc|now apply IH].
Qed.

Lemma nounsub_of_plain : forall c, cmd_plain c = true -> cmd_nounsub c = true.
Proof.
  induction c using cmd_ind'; intros Hp; cbn [cmd_plain cmd_nounsub] in *; auto.
  induction H as [|c l Hc Hl IH]; [reflexivity|]. cbn [forallb] in *. apply andb_true_iff in Hp as [H1 H2].
  rewrite (Hc H1), (IH H2). reflexivity.
Qed.

Lemma hidden_from_tracks : forall sv sv' b f, b <> o -> tracks sv sv' b f -> hidden_from sv o b -> hidden_from sv' o b.
Proof.
  intros sv sv' b f Hne Htr [so [sb [H1 [H2 H3]]]].
  destruct (Htr o so H1) as [so' [Ha [_ Hb]]]. destruct (Htr b sb H2) as [sb' [Hc [Hd _]]].
  apply N.eqb_neq in Hne. rewrite Hne in Hb.
  exists so', sb'. split; [auto|split; [auto|]]. now rewrite Hb, Hd.
Qed.

(* quiet flags are allowed on commands of a session the observer cannot see (quiet_frame), otherwise cmd_loud_for *)
Lemma handle_J : forall c nest sv b B, small (B + cmd_budget c) ->
  (cmd_loud_for (N.eqb b o) c = true \/ (b <> o /\ hidden_from sv o b)) -> nest + cmd_depth c <= max_batch_nest ->
  (b = o -> cmd_nounsub c = true /\ cmd_subs_ok c /\
            forall ss, get_session sv o = Some ss -> s_pending ss = None /\ cmd_covered (s_subs ss) c) ->
  inv B sv -> pend_ok sv -> J sv o ->
  J (handle fx nest sv b c) o /\ pend_ok (handle fx nest sv b c).
Proof.
  induction c using cmd_ind'; intros nest sv b B HB Hloud Hdep Hown I Hpo HJ;
    cbn [handle cmd_budget cmd_loud_for cmd_nounsub cmd_subs_ok cmd_covered] in *;
    destruct (get_session sv b) as [bs|] eqn:Hbs; try (split; assumption); try (rewrite Nat.add_0_r in HB).
  - (* SETDATA *)
    destruct (flag_set f c_SETDATANODE_FLAG_QUIET) eqn:Efl.
    + (* quiet: the observer's own (its own subtree), or where the observer cannot see *)
      destruct Hloud as [Hloud|[Hne [so [sb [Hso [Hsb Hhid]]]]]].
      { rewrite orb_false_r in Hloud. apply N.eqb_eq in Hloud. subst b.
        destruct (set_data_items_frame i sv o f Hpo) as [Hpo' Hs'].
        split; [|exact Hpo'].
        destruct (own_set_data_items mir o i sv f (session_dir bs) Hpo) as [HV Hd]; [intros x Hx; congruence|].
        apply (J_frame_foreign mir sv); auto; [now apply same_sess_for|].
        intros ss Hss q Hfq. assert (ss = bs) by congruence. subst ss.
        apply expected_data. apply Hd. destruct (is_prefix (session_dir bs) q) eqn:Ep; auto.
        apply own_node_of_prefix in Ep. congruence. }
      assert (sb = bs) by congruence. subst sb.
      destruct (set_data_items_frame i sv b f Hpo) as [Hpo' _].
      split; [|exact Hpo'].
      destruct (set_data_items_quiet i sv b f (session_dir bs) Efl) as [Hr Hd]; [intros x Hx; congruence|].
      apply (quiet_frame mir B sv _ o so (session_dir bs)); auto.
    + apply (set_data_items_J mir B i sv b f o); auto.
  - (* REMOVEDATA *)
    destruct q.
    + destruct Hloud as [Hloud|[Hne [so [sb [Hso [Hsb Hhid]]]]]].
      { rewrite orb_false_r in Hloud. apply N.eqb_eq in Hloud. subst b.
        pose proof (find_session_some _ _ _ Hbs) as [_ Hid].
        destruct (do_remove_data_frame fx sv bs k true Hpo) as [Hpo' Hs'].
        split; [|exact Hpo'].
        destruct (own_do_remove_data fx mir o sv bs k true Hpo Hid) as [HV Hd].
        apply (J_frame_foreign mir sv); auto; [now apply same_sess_for|].
        intros ss Hss q Hfq. assert (ss = bs) by congruence. subst ss.
        apply expected_data. apply Hd. destruct (is_prefix (session_dir bs) q) eqn:Ep; auto.
        apply own_node_of_prefix in Ep. congruence. }
      assert (sb = bs) by congruence. subst sb.
      destruct (do_remove_data_frame fx sv bs k true Hpo) as [Hpo' _].
      split; [|exact Hpo'].
      destruct (do_remove_data_quiet fx sv bs k) as [Hr Hd].
      apply (quiet_frame mir B sv _ o so (session_dir bs)); auto.
    + apply (do_remove_data_J fx mir B [] sv bs k o); auto.
      pose proof (find_session_some _ _ _ Hbs) as [_ Hid]. rewrite Hid. exact Hbs.
  - (* SETPARAMETERS with SUBSCRIBE: fields *)
    destruct (N.eq_dec b o) as [E|E].
    + subst b. destruct Hloud as [Hloud|[Hne _]]; [|congruence].
      rewrite N.eqb_refl, orb_false_r in Hloud. apply negb_true_iff in Hloud. subst q.
      destruct (Hown eq_refl) as [_ [[Hnd Hne] _]].
      apply (subscribe_cmd_J fx guard_on overlap_on push_on mir o B sv k); eauto.
    + destruct (subscribe_fold_other k B sv b E HB I Hpo) as [H1 [H2 [H3 [H4 H5]]]].
      destruct q; [split; [|exact H4]; apply (J_frame_local mir sv); auto|].
      destruct k as [|sf0 k0] eqn:Ek.
      * split; [|exact H4]. apply (J_frame_local mir sv); auto.
      * rewrite <- Ek in *.
        set (sv1 := fold_left (fun sv' sf => subscribe_one fx sv' b sf) k sv) in *.
        assert (Hp : pend_ok (if fx_push fx then push_all sv1 else sv1)) by (destruct (fx_push fx); [now apply pend_ok_push_all|auto]).
        split; [|now apply pend_ok_do_get_data].
        apply (J_frame_local mir sv); auto.
        -- eapply same_for_trans; [exact H3|]. eapply same_for_trans; [|apply same_for_core, do_get_data_core].
           destruct (fx_push fx); [apply same_for_core, push_all_core|intros x Hx; eauto].
        -- intros q. rewrite (do_get_data_other fx mir _ b k o E). destruct (fx_push fx); [rewrite V_push_all|]; apply H1.
        -- intros q. destruct (do_get_data_core fx (if fx_push fx then push_all sv1 else sv1) b k) as [Ht _]. rewrite Ht.
           destruct (fx_push fx); [destruct (push_all_core sv1) as [Ht' _]; rewrite Ht'|]; apply H2.
  - (* REMOVEPARAMETERS of SUBSCRIBE: names *)
    destruct (N.eq_dec b o) as [E|E]; [destruct (Hown E) as [Hp _]; discriminate|].
    destruct (unsubscribe_fold_other k B sv b E HB I Hpo) as [H1 [H2 [H3 [H4 H5]]]].
    split; [|exact H4]. apply (J_frame_local mir sv); auto.
  - (* max update items *)
    split; [|apply pend_ok_upd_keep; [reflexivity|auto]].
    apply (J_frame_local mir sv); auto.
    + apply same_for_core. apply upd_session_core. reflexivity.
    + intros q. apply V_upd_keep. intros x; auto.
  - split; [|apply pend_ok_upd_keep; [reflexivity|auto]].
    apply (J_frame_local mir sv); auto.
    + apply same_for_core. apply upd_session_core. reflexivity.
    + intros q. apply V_upd_keep. intros x; auto.
  - (* GETDATA *)
    split; [|now apply pend_ok_do_get_data].
    destruct (N.eq_dec b o) as [E|E].
    + (* the observer's own: its keys are subscriptions it holds *)
      subst b. destruct (Hown eq_refl) as [_ [_ Hc]]. destruct (Hc bs Hbs) as [Hnp [Hnd [Hne Hcov]]].
      apply (getdata_covered_J fx guard_on mir o B sv bs k); auto.
    + apply (J_frame_local mir sv); auto.
      * apply same_for_core, do_get_data_core.
      * intros q. now apply do_get_data_other.
      * intros q. destruct (do_get_data_core fx sv b k) as [Ht _]. now rewrite Ht.
  - (* BATCH *)
    cbn [cmd_depth] in Hdep.
    assert (Hlt : Nat.ltb nest max_batch_nest = true) by (apply Nat.ltb_lt; lia). rewrite Hlt.
    clear Hbs bs Hlt. revert sv B HB Hloud Hdep Hown I Hpo HJ.
    induction H as [|c l Hc Hl IHl]; intros sv B HB Hloud Hdep Hown I Hpo HJ; [split; assumption|].
    assert (Hl1 : cmd_loud_for (N.eqb b o) c = true \/ (b <> o /\ hidden_from sv o b)).
    { destruct Hloud as [Hloud|Hh]; [left|now right]. cbn [forallb] in Hloud. now apply andb_true_iff in Hloud as [Hl1 _]. }
    assert (Hown1 : b = o -> cmd_nounsub c = true /\ cmd_subs_ok c /\
              forall ss, get_session sv o = Some ss -> s_pending ss = None /\ cmd_covered (s_subs ss) c).
    { intros E. destruct (Hown E) as [Hp [[Hs _] Hcv]]. cbn [forallb] in Hp. apply andb_true_iff in Hp as [Hp _].
      split; [auto|split; [auto|]]. intros ss Hss. destruct (Hcv ss Hss) as [Hn [Hc1 _]]. auto. }
    match type of HB with small (B + (cmd_budget c + ?X)) => set (rest := X) in * end.
    destruct (Hc (S nest) sv b B) as [HJ1 Hpo1]; auto.
    { eapply small_le; [|exact HB]. lia. }
    { lia. }
    set (sv1 := push_all (handle fx (S nest) sv b c)).
    assert (I1 : inv (B + cmd_budget c) sv1).
    { eapply inv_same_core; [apply push_all_core|]. apply handle_inv; auto. eapply small_le; [|exact HB]. lia. }
    assert (Hpo2 : pend_ok sv1) by (now apply pend_ok_push_all).
    apply (IHl sv1 (B + cmd_budget c)); auto.
    + now rewrite <- Nat.add_assoc.
    + destruct Hloud as [Hloud|[Hne Hh]]; [left|right; split; [auto|]].
      * cbn [forallb] in Hloud. now apply andb_true_iff in Hloud as [_ Hl2].
      * destruct (handle_track fx c (S nest) sv b Hpo) as [_ Htr]; [lia|].
        apply (hidden_from_tracks (handle fx (S nest) sv b c) sv1 b (fun m => m) Hne).
        -- apply tracks_sess. apply same_core_sess. apply push_all_core.
        -- now apply (hidden_from_tracks sv _ b _ Hne Htr).
    + lia.
    + intros E. destruct (Hown E) as [Hp [[_ Hs] Hcv]]. cbn [forallb] in Hp. apply andb_true_iff in Hp as [_ Hp].
      split; [auto|split; [auto|]]. intros ss1 Hss1.
      split; [apply (push_all_no_pending (handle fx (S nest) sv b c) Hpo1); apply find_session_some in Hss1; tauto|].
      subst b.
      destruct (get_session sv o) as [ss|] eqn:Hss.
      * destruct (Hcv ss eq_refl) as [_ [_ Hrest]].
        destruct (handle_track fx c (S nest) sv o Hpo) as [_ Htr]; [lia|].
        destruct (Htr o ss Hss) as [ss' [Hss' [_ Hsub']]]. rewrite N.eqb_refl in Hsub'.
        destruct (get_session_core_some _ sv1 o ss' (push_all_core _) Hss') as [ss1' [Hss1' Hsub1]].
        assert (ss1' = ss1) by (unfold sv1 in *; congruence). subst ss1'.
        rewrite Hsub1, Hsub'. exact Hrest.
      * exfalso.
        assert (Hh : handle fx (S nest) sv o c = sv) by (destruct c; cbn [handle]; rewrite Hss; reflexivity).
        assert (Hcs : same_sess sv sv1) by (unfold sv1; rewrite Hh; apply same_core_sess, push_all_core).
        destruct (get_session_sess sv sv1 o ss1 Hcs Hss1) as [x [Hx _]].
        congruence.
    + now apply J_push_all.
Qed.

End Cmd.
