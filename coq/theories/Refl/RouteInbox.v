(* Refl/RouteInbox.v -- the whole outgoing queue of a session at the end of ANY history, in closed form.

   step_exact:         one event, in a state satisfying the invariants: the queue of every session afterwards is its queue
                       before followed by [step_new] -- the event's Message if the session is one of its targets and accepts
                       Messages from neighbours (or is the sender itself), nothing otherwise -- or the empty queue of a
                       session that has just arrived.
   inbox_closed_form:  by induction over the history: the queue at the end = [expected_inbox], the concatenation, in the
                       order sent, of exactly the Messages addressed to the session since it arrived.  This is
                       "exactly once to every selected session, to no other, in the order sent" for whole histories. *)
From Coq Require Import List NArith ZArith Bool Arith Lia.
From Muscle Require Import Gen.Consts Refl.Base Refl.BaseProofs Refl.Tree Refl.TreeProofs Refl.Matcher Refl.Traverse Refl.Session
  Refl.Server Refl.ServerProofs Refl.BoundedInv Refl.Route Refl.TravBase Refl.TraverseProofs Refl.TraverseTheorems Refl.RouteProofs
  Refl.RouteRun Refl.RouteReach.
Import ListNotations.

Lemma find_map_keep : forall (B : Type) (p : B -> bool) (f : B -> B) (l : list B),
  (forall x, p (f x) = p x) -> find p (map f l) = option_map f (find p l).
Proof.
  intros B p f l H. induction l as [|x l IH]; [reflexivity|]. cbn [map find]. rewrite H.
  destruct (p x); [reflexivity | exact IH].
Qed.

Lemma find_app_none : forall (B : Type) (p : B -> bool) (l1 l2 : list B), find p l1 = None -> find p (l1 ++ l2) = find p l2.
Proof.
  intros B p l1 l2. induction l1 as [|x l1 IH]; intros H; [reflexivity|]. cbn [find app] in *.
  destruct (p x); [discriminate | now apply IH].
Qed.

Lemma find_app_some : forall (B : Type) (p : B -> bool) (l1 l2 : list B) (y : B), find p l1 = Some y -> find p (l1 ++ l2) = Some y.
Proof.
  intros B p l1 l2 y. induction l1 as [|x l1 IH]; intros H; [discriminate|]. cbn [find app] in *.
  destruct (p x); [exact H | now apply IH].
Qed.

Lemma find_filter_other : forall (B : Type) (p q : B -> bool) (l : list B),
  (forall x, p x = true -> q x = true) -> find p (filter q l) = find p l.
Proof.
  intros B p q l H. induction l as [|x l IH]; [reflexivity|]. cbn [filter find].
  destruct (q x) eqn:Eq.
  - cbn [find]. destruct (p x); [reflexivity | exact IH].
  - destruct (p x) eqn:Ep; [rewrite (H x Ep) in Eq; discriminate | exact IH].
Qed.

Lemma run_budget_app : forall {M : MatchOps} (a b : list event), run_budget (a ++ b) = run_budget a + run_budget b.
Proof. intros M a b. induction a as [|e a IH]; cbn [app run_budget]; [reflexivity | rewrite IH; lia]. Qed.

Section Inbox.
Context {M : MatchOps} {L : MatchLaws M}.

Local Notation FX := r_all_fixed.

(* what the event adds to the queue of the session described by x *)
Definition step_new (st : rstate) (ev : revent) (x : rinfo) : list dlv :=
  match ev with
  | RCmd s (RMsg m) =>
    if in_cmd_range (u_what m) then []
    else match get_session (rs_srv st) s, get_info st s with
         | Some ss, Some ri =>
           if route_targets st s ri m (ri_id x) && (N.eqb s (ri_id x) || ri_nb2gw x)
           then [mkD s (u_tag m) (overwrite (u_session m) (s_name ss))] else []
         | _, _ => []
         end
  | _ => []
  end.

(* the queue of session r after the event, given its queue before *)
Definition next_inbox (st : rstate) (ev : revent) (r : sid) (cur : list dlv) : list dlv :=
  match ev with
  | RAttach s _ _ =>
    if N.eqb s r then match get_session (rs_srv st) s with None => [] | Some _ => cur end else cur
  | _ => match get_info st r with Some x => cur ++ step_new st ev x | None => cur end
  end.

Fixpoint expected_inbox (st : rstate) (evs : list revent) (r : sid) (cur : list dlv) : list dlv :=
  match evs with
  | [] => cur
  | ev :: evs' => expected_inbox (rstep FX st ev) evs' r (next_inbox st ev r cur)
  end.

(* the invariants a reachable routing state satisfies *)
Definition good (B : nat) (st : rstate) : Prop := inv B (rs_srv st) /\ routes_wf st /\ aligned st.

Lemma good_empty : good 0 empty_rstate.
Proof. split; [exact empty_inv|]. split; [intros ri [] | reflexivity]. Qed.

Lemma good_step : forall B st ev,
  small (B + run_budget (srv_ev ev)) -> good B st -> wf_run (srv_fixes FX) (rs_srv st) (srv_ev ev) ->
  good (B + run_budget (srv_ev ev)) (rstep FX st ev).
Proof.
  intros B st ev HB [Iv [R A]] HW. split; [|split].
  - rewrite rs_srv_rstep. now apply (run_inv (srv_fixes FX) eq_refl).
  - now apply rstep_routes_wf.
  - now apply rstep_aligned.
Qed.

Lemma put_inbox_inbox : forall s d x,
  ri_inbox (put_inbox s d x) = ri_inbox x ++ (if N.eqb s (ri_id x) || ri_nb2gw x then [d] else []).
Proof. intros s d x. unfold put_inbox. destruct (N.eqb s (ri_id x) || ri_nb2gw x); cbn; [reflexivity | now rewrite app_nil_r]. Qed.

Lemma get_info_none_ids : forall st r, get_info st r = None -> ~ In r (map ri_id (rs_info st)).
Proof.
  intros st r H Hin. destruct (find_info_in _ _ Hin) as [ri E]. unfold get_info in H. congruence.
Qed.

(* one event *)
Theorem step_exact : forall B st ev r x',
  good B st -> get_info (rstep FX st ev) r = Some x' ->
  match ev with
  | RAttach s _ _ =>
    if N.eqb s r && match get_session (rs_srv st) s with None => true | Some _ => false end
    then ri_inbox x' = []
    else exists x, get_info st r = Some x /\ ri_inbox x' = ri_inbox x
  | _ => exists x, get_info st r = Some x /\ ri_inbox x' = ri_inbox x ++ step_new st ev x
  end.
Proof.
  intros B st ev r x' [Iv [R A]] H.
  assert (TWF : tree_wf (sv_tree (rs_srv st))) by (apply wf_tree_tree_wf; exact (inv_tree _ _ _ Iv)).
  assert (NDS : NoDup (map s_id (sv_sessions (rs_srv st)))) by exact (inv_ids _ _ _ Iv).
  destruct ev as [s host nm | s | s c]; cbn [rstep] in H.
  - destruct (get_session (rs_srv st) s) as [ss|] eqn:Es.
    + rewrite andb_false_r. exists x'. now split.
    + rewrite andb_true_r. unfold get_info in H. cbn [rs_info] in H.
      destruct (find (fun ri => N.eqb (ri_id ri) r) (rs_info st)) as [x|] eqn:F.
      * rewrite (find_app_some _ _ _ _ _ F) in H. inversion H; subst x'.
        destruct (N.eqb s r) eqn:E; [|exists x; now split].
        exfalso. apply N.eqb_eq in E. subst r.
        assert (Hin : In s (map ri_id (rs_info st))).
        { apply find_some in F. destruct F as [F1 F2]. apply N.eqb_eq in F2. rewrite <- F2. now apply in_map. }
        rewrite A in Hin. apply get_session_ids in Hin. destruct Hin as [ss Hss]. congruence.
      * rewrite (find_app_none _ _ _ _ F) in H. cbn [find new_info ri_id] in H.
        destruct (N.eqb s r); [inversion H; reflexivity | discriminate].
  - unfold get_info in H. cbn [rs_info] in H. cbn [step_new]. 
    destruct (N.eqb r s) eqn:E.
    + exfalso. apply N.eqb_eq in E. subst r. apply find_some in H. destruct H as [H1 H2].
      apply filter_In in H1. destruct H1 as [_ H1]. rewrite H2 in H1. discriminate.
    + rewrite find_filter_other in H.
      * exists x'. split; [exact H | now rewrite app_nil_r].
      * intros x Hx. apply N.eqb_eq in Hx. rewrite Hx, E. reflexivity.
  - destruct (get_session (rs_srv st) s) as [ss|] eqn:Es.
    + destruct c as [p | l | m | c'].
      * unfold get_info, upd_info in H. cbn [rs_info] in H. cbn [step_new].
        rewrite find_map_keep in H.
        -- destruct (find (fun ri => N.eqb (ri_id ri) r) (rs_info st)) as [x|] eqn:F; [|discriminate].
           cbn in H. inversion H; subst x'. exists x. split; [exact F|]. rewrite app_nil_r.
           destruct (N.eqb (ri_id x) s); [apply set_params_keeps | reflexivity].
        -- intros x. destruct (N.eqb (ri_id x) s); [|reflexivity]. now destruct (set_params_keeps FX x p) as [-> _].
      * unfold get_info, upd_info in H. cbn [rs_info] in H. cbn [step_new].
        rewrite find_map_keep in H.
        -- destruct (find (fun ri => N.eqb (ri_id ri) r) (rs_info st)) as [x|] eqn:F; [|discriminate].
           cbn in H. inversion H; subst x'. exists x. split; [exact F|]. rewrite app_nil_r.
           destruct (N.eqb (ri_id x) s); [apply remove_params_keeps | reflexivity].
        -- intros x. destruct (N.eqb (ri_id x) s); [|reflexivity]. now destruct (remove_params_keeps l x) as [-> _].
      * cbn [step_new]. unfold route_msg in H.
        destruct (in_cmd_range (u_what m)) eqn:Ew.
        -- exists x'. split; [exact H | now rewrite app_nil_r].
        -- rewrite Es in *. destruct (get_info st s) as [ri|] eqn:Ei.
           ++ assert (RWF : matcher_wf (ri_route ri)) by (apply R; unfold get_info in Ei; apply find_some in Ei; tauto).
              assert (Hclosed := deliver_once_lemma (fun _ => True)
                       (fun c ks k _ Hk Hm => proj1 (ckeys_spec c ks Hk k) Hm)
                       (fun c ks k Hk Hin => proj2 (ckeys_spec c ks Hk k) Hin)
                       st s ss ri m TWF (fun n _ => proj2 (Forall_forall _ _) (fun _ _ => I)) NDS RWF Es Ei Ew).
              unfold route_msg in Hclosed. rewrite Ew, Es, Ei in Hclosed. rewrite Hclosed in H.
              unfold get_info in H. cbn [rs_info] in H. rewrite find_map_keep in H.
              ** destruct (find (fun ri0 => N.eqb (ri_id ri0) r) (rs_info st)) as [x|] eqn:F; [|discriminate].
                 cbn in H. inversion H; subst x'. exists x. split; [exact F|].
                 destruct (route_targets st s ri m (ri_id x)); cbn [andb].
                 --- apply put_inbox_inbox.
                 --- now rewrite app_nil_r.
              ** intros x. destruct (route_targets st s ri m (ri_id x)); [now rewrite put_inbox_id | reflexivity].
           ++ exists x'. split; [exact H | now rewrite app_nil_r].
      * cbn [step_new]. unfold get_info in H. cbn [rs_info] in H. exists x'. split; [exact H | now rewrite app_nil_r].
    + exists x'. split; [exact H|]. destruct c; cbn [step_new]; try now rewrite app_nil_r.
      destruct (in_cmd_range (u_what m)); [now rewrite app_nil_r|]. rewrite Es. now rewrite app_nil_r.
Qed.

(* ids that have no record before a non-arrival event have none after it *)
Lemma step_exact_next : forall B st ev r x' cur,
  good B st -> (forall x, get_info st r = Some x -> ri_inbox x = cur) ->
  get_info (rstep FX st ev) r = Some x' -> ri_inbox x' = next_inbox st ev r cur.
Proof.
  intros B st ev r x' cur G Hcur H. assert (E := step_exact B st ev r x' G H). unfold next_inbox.
  destruct ev as [s host nm | s | s c].
  - destruct (N.eqb s r); cbn [andb] in E.
    + destruct (get_session (rs_srv st) s); [|exact E]. destruct E as [x [E1 E2]]. rewrite E2. now apply Hcur.
    + destruct E as [x [E1 E2]]. rewrite E2. now apply Hcur.
  - destruct E as [x [E1 E2]]. rewrite E1, E2. f_equal. now apply Hcur.
  - destruct E as [x [E1 E2]]. rewrite E1, E2. f_equal. now apply Hcur.
Qed.

(* whole histories *)
Theorem inbox_closed_form_gen : forall (evs : list revent) (B : nat) (st : rstate) (r : sid) (cur : list dlv) (x' : rinfo),
  good B st -> small (B + run_budget (flat_map srv_ev evs)) -> wf_run (srv_fixes FX) (rs_srv st) (flat_map srv_ev evs) ->
  (forall x, get_info st r = Some x -> ri_inbox x = cur) ->
  get_info (rrun FX evs st) r = Some x' -> ri_inbox x' = expected_inbox st evs r cur.
Proof.
  induction evs as [|ev evs IH]; intros B st r cur x' G HB HW Hcur H.
  - cbn in *. now apply Hcur.
  - cbn [rrun fold_left flat_map expected_inbox] in *.
    assert (HW1 : wf_run (srv_fixes FX) (rs_srv st) (srv_ev ev) /\
                  wf_run (srv_fixes FX) (rs_srv (rstep FX st ev)) (flat_map srv_ev evs)).
    { rewrite rs_srv_rstep. clear - HW. revert HW. generalize (rs_srv st). generalize (flat_map srv_ev evs).
      induction (srv_ev ev) as [|e l IHl]; intros rest sv HW; cbn [app run fold_left wf_run] in *; [split; [exact I | exact HW]|].
      destruct HW as [H1 H2]. destruct (IHl rest _ H2) as [H3 H4]. repeat split; assumption. }
    destruct HW1 as [HWa HWb].
    rewrite run_budget_app in HB.
    assert (G' : good (B + run_budget (srv_ev ev)) (rstep FX st ev)).
    { apply good_step; [|exact G|exact HWa]. eapply small_le; [|exact HB]. lia. }
    apply (IH (B + run_budget (srv_ev ev)) (rstep FX st ev) r (next_inbox st ev r cur) x' G').
    + now rewrite <- Nat.add_assoc.
    + exact HWb.
    + intros x Hx. now apply (step_exact_next B st ev r x cur G Hcur).
    + exact H.
Qed.

Theorem inbox_closed_form_lemma : forall (evs : list revent) (r : sid) (x' : rinfo),
  small (run_budget (flat_map srv_ev evs)) -> wf_run (srv_fixes FX) empty_server (flat_map srv_ev evs) ->
  get_info (rrun FX evs empty_rstate) r = Some x' -> ri_inbox x' = expected_inbox empty_rstate evs r [].
Proof.
  intros evs r x' HB HW H. apply (inbox_closed_form_gen evs 0 empty_rstate r [] x' good_empty HB HW); [|exact H].
  intros x Hx. discriminate.
Qed.

End Inbox.

(* non-vacuity: the history of finding F19 -- session 1 owns two matching nodes and is sent ONE Message -- computed by the
   closed form: exactly one copy *)
From Muscle Require Import Refl.TravWitness Refl.RouteWitness.

Example f19_expected_inbox :
  expected_inbox empty_rstate f19_history 1%N [] = [mkD 0%N 7%N SAbsent] /\
  expected_inbox empty_rstate f19_history 2%N [] = [] /\
  small (run_budget (flat_map srv_ev f19_history)).
Proof. repeat split; vm_compute; reflexivity. Qed.
