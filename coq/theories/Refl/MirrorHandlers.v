(* Refl/MirrorHandlers.v -- the subscriber invariant J through the handlers that do not touch the
   observer's own subscriptions: SETDATA, REMOVEDATA, a session's arrival and departure, and every
   command of another session. *)
From Coq Require Import List NArith ZArith Bool Arith Lia.
From Muscle Require Import Gen.Consts Refl.Base Refl.BaseProofs Refl.Tree Refl.TreeProofs Refl.Matcher Refl.MatcherProofs
     Refl.Traverse Refl.TraverseFold Refl.TraverseSpec Refl.Session Refl.Server Refl.ServerProofs Refl.Mirror Refl.MirrorBase
     Refl.MirrorServer Refl.MirrorNotify Refl.MirrorSem Refl.MirrorSteps.
Import ListNotations.

Section Handlers.
Context {M : MatchOps} {L : MatchLaws M}.
Variable fx : fixes.
Hypothesis guard_on : fx_guard fx = true.
Variable mir : mirror.

Notation J := (J mir).
Notation V := (V mir).

(* ------------------------------------------------------------------ a step that is none of the observer's business *)

(* payloads of the tree *)
Definition data_at (t : tree) (q : path) : option payload := option_map n_data (find_node t q).

Lemma expected_data : forall t t' ss q, data_at t' q = data_at t q -> expected t' ss q = expected t ss q.
Proof.
  intros t t' ss q H. rewrite !expected_exp_with. unfold data_at in H. now rewrite H.
Qed.

Lemma J_frame : forall sv sv' o, same_sess sv sv' ->
  (forall q, V sv' o q = V sv o q) -> (forall q, data_at (sv_tree sv') q = data_at (sv_tree sv) q) ->
  J sv o -> J sv' o.
Proof.
  intros sv sv' o Hs HV Hd HJ. apply (J_intro mir sv sv' o Hs). intros ss Hss q Hown.
  rewrite HV, (HJ ss Hss q Hown). f_equal. symmetry. apply expected_data. apply Hd.
Qed.

(* ------------------------------------------------------------------ REMOVEDATA *)

Lemma fold_collect_in : forall (l : list node) acc p,
  In p (fold_left (fun acc n => if Nat.ltb session_depth (depth n) then n_path n :: acc else acc) l acc) ->
  In p acc \/ exists n, In n l /\ n_path n = p.
Proof.
  induction l as [|n l IH]; intros acc p H; cbn [fold_left] in H; [now left|].
  apply IH in H as [H|[n' [H1 H2]]]; [|right; exists n'; split; [now right|auto]].
  destruct (Nat.ltb session_depth (depth n)); [|now left].
  destruct H as [H|H]; [right; exists n; split; [now left|auto]|now left].
Qed.

Lemma do_remove_data_J : forall B exc sv ss keys o,
  inv_x B exc sv -> pend_ok sv -> get_session sv (s_id ss) = Some ss -> J sv o ->
  J (do_remove_data fx sv ss keys false) o /\ pend_ok (do_remove_data fx sv ss keys false).
Proof.
  intros B exc sv ss keys o I Hpo Hss HJ. unfold do_remove_data.
  set (rs := do_traversal remove_cb (sv_tree sv) (m_of_list keys) (session_dir ss) true (fx_guard fx) []).
  assert (Hrs : forall p, In p rs -> is_prefix (session_dir ss) p = true).
  { intros p Hp. unfold rs in Hp.
    rewrite (do_traversal_go (list path) remove_cb
               (fun acc n => if Nat.ltb session_depth (depth n) then n_path n :: acc else acc)) in Hp.
    - apply fold_collect_in in Hp as [[]|[n [H1 H2]]]. apply vtrav_below_root in H1 as [r [_ Hr]].
      apply is_prefix_spec. exists r. congruence.
    - intros acc n. unfold remove_cb. destruct (Nat.ltb session_depth (depth n)); eexists; split; eauto; lia. }
  clearbody rs. cbn [negb].
  assert (Hgen : forall rs sv0, (forall p, In p rs -> is_prefix (session_dir ss) p = true) ->
            marks_ok sv0 -> pend_ok sv0 -> same_sess sv sv0 -> J sv0 o ->
            J (fold_left (fun sv' p => if has_node (sv_tree sv') p then remove_subtree sv' (s_id ss) p true else sv') rs sv0) o
            /\ pend_ok (fold_left (fun sv' p => if has_node (sv_tree sv') p then remove_subtree sv' (s_id ss) p true else sv') rs sv0)).
  { clear rs Hrs. induction rs as [|p rs IH]; intros sv0 Hrs Hmk0 Hpo0 Hs0 HJ0; cbn [fold_left]; auto.
    destruct (has_node (sv_tree sv0) p) eqn:Hh.
    - destruct (remove_subtree_J mir sv0 (s_id ss) p o Hmk0 Hpo0) as [H1 [H2 [H3 H4]]]; auto.
      + destruct (N.eq_dec o (s_id ss)) as [E|E]; [right|now left]. subst o. intros ss0 Hss0.
        destruct (get_session_sess sv sv0 (s_id ss) ss0 Hs0 Hss0) as [ss1 [Hss1 [_ Hdir]]].
        assert (ss1 = ss) by congruence. subst ss1. rewrite <- Hdir. apply Hrs. now left.
      + apply IH; auto; [intros q Hq; apply Hrs; now right|now apply (same_sess_trans sv sv0)].
    - apply IH; auto. intros q Hq. apply Hrs. now right. }
  apply Hgen; auto; [now apply (inv_marks_ok B exc)|reflexivity].
Qed.


(* ------------------------------------------------------------------ SETDATA *)

Lemma set_data_node_loud : forall sv ss rel d flags, flag_set flags c_SETDATANODE_FLAG_QUIET = false ->
  set_data_node sv ss rel d flags
  = set_data_loop sv (s_id ss) (session_dir ss) rel d (flag_set flags c_SETDATANODE_FLAG_DONTCREATENODE)
                  (flag_set flags c_SETDATANODE_FLAG_DONTOVERWRITEDATA) false.
Proof. intros sv ss rel d flags H. unfold set_data_node. now rewrite H. Qed.

Lemma set_data_items_J : forall B items sv s flags o, small B ->
  flag_set flags c_SETDATANODE_FLAG_QUIET = false ->
  inv B sv -> pend_ok sv -> J sv o ->
  let sv' := fold_left (fun sv' it => match get_session sv' s with
                                      | Some ss' => match fst it with
                                                    | [] => sv'
                                                    | _ => set_data_node sv' ss' (fst it) (snd it) flags
                                                    end
                                      | None => sv'
                                      end) items sv in
  J sv' o /\ pend_ok sv'.
Proof.
  intros B. induction items as [|it items IH]; intros sv s flags o HB Hq I Hpo HJ; cbn [fold_left]; auto.
  destruct (get_session sv s) as [ss|] eqn:Hss; [|now apply IH].
  destruct (fst it) as [|k rel] eqn:Hit; [now apply IH|].
  assert (Hin : In ss (sv_sessions sv)) by (apply find_session_some in Hss; tauto).
  assert (Hid : s_id ss = s) by (apply find_session_some in Hss; tauto).
  rewrite <- Hit. rewrite (set_data_node_loud sv ss (fst it) (snd it) flags Hq). rewrite Hit.
  destruct (set_data_loop_J mir B [] (k :: rel) sv (s_id ss) (session_dir ss) (snd it)
              (flag_set flags c_SETDATANODE_FLAG_DONTCREATENODE) (flag_set flags c_SETDATANODE_FLAG_DONTOVERWRITEDATA) o HB I Hpo)
    as [H1 H2]; auto.
  - now apply (inv_dirs_exist B sv).
  - intros ss0 Hss0. rewrite Hid in Hss0. assert (ss0 = ss) by congruence. subst. apply is_prefix_refl.
  - apply IH; auto. apply (set_data_loop_inv B []); auto. now apply (inv_dirs_exist B sv).
Qed.

(* ------------------------------------------------------------------ steps that leave the observer alone *)

(* the observer's own record keeps its subscriptions and directory *)
Definition same_for (o : sid) (sv sv' : server) : Prop :=
  forall ss', get_session sv' o = Some ss' ->
  exists ss, get_session sv o = Some ss /\ s_subs ss = s_subs ss' /\ session_dir ss = session_dir ss'.

Lemma same_sess_for : forall o sv sv', same_sess sv sv' -> same_for o sv sv'.
Proof. intros o sv sv' H ss' Hss'. now apply (get_session_sess sv sv'). Qed.

Lemma J_frame_local : forall sv sv' o, same_for o sv sv' ->
  (forall q, V sv' o q = V sv o q) -> (forall q, data_at (sv_tree sv') q = data_at (sv_tree sv) q) ->
  J sv o -> J sv' o.
Proof.
  intros sv sv' o Hs HV Hd HJ ss' Hss' q Hown.
  destruct (Hs ss' Hss') as [ss [Hss [Hsub Hdir]]].
  rewrite HV, (HJ ss Hss q); [|now rewrite (own_node_dir ss ss' q Hdir)].
  f_equal. rewrite (expected_subs _ ss ss' q Hsub). symmetry. apply expected_data. apply Hd.
Qed.

Lemma V_upd_keep : forall sv s f o q,
  (forall x, s_id (f x) = s_id x /\ s_out (f x) = s_out x /\ s_pending (f x) = s_pending x) ->
  V (upd_session sv s f) o q = V sv o q.
Proof.
  intros sv s f o q Hf. unfold V. rewrite get_session_upd by (intros x; apply Hf).
  destruct (N.eqb s o); auto. destruct (get_session sv o) as [ss|]; auto. cbn [option_map]. f_equal.
  unfold vm. destruct (Hf ss) as [_ [H1 H2]]. now rewrite H1, H2.
Qed.

Lemma data_at_mark : forall t m s delta q, wf_tree t -> wf_groups (m_groups m) ->
  data_at (mark_nodes fx t m s delta) q = data_at t q.
Proof.
  intros t m s delta q Ht Hm. rewrite mark_nodes_spec by auto. unfold data_at.
  rewrite find_node_map.
  - destruct (find_node t q) as [n|]; auto. cbn [option_map]. destruct (matches_node m (n_path n) None 0); reflexivity.
  - intros n. destruct (matches_node m (n_path n) None 0); reflexivity.
Qed.

Lemma get_session_upd_other : forall sv s f o, (forall x, s_id (f x) = s_id x) -> s <> o ->
  get_session (upd_session sv s f) o = get_session sv o.
Proof. intros sv s f o Hf Hne. rewrite get_session_upd by auto. apply N.eqb_neq in Hne. now rewrite Hne. Qed.

(* GETDATA of another session *)
Lemma getdata_cb_other : forall sv b o acc n, b <> o ->
  (forall q', V (snd acc) o q' = V sv o q') -> forall q', V (snd (fst (getdata_cb b acc n))) o q' = V sv o q'.
Proof.
  intros sv b o [reply0 sv0] n Hne HQ. unfold getdata_cb. cbn [snd] in HQ.
  destruct (get_session sv0 b) as [ss|]; [|exact HQ].
  destruct (own_node ss (n_path n)); [exact HQ|].
  destruct (N.leb _ _); cbn [fst snd]; auto.
  intros q'. rewrite V_upd_other by (auto; reflexivity). apply HQ.
Qed.

Lemma do_get_data_other : forall sv b keys o, b <> o ->
  forall q, V (do_get_data fx sv b keys) o q = V sv o q.
Proof.
  intros sv b keys o Hne q. unfold do_get_data.
  match goal with |- context [do_traversal ?cb ?t ?m ?r ?u ?g ?a] =>
    pose proof (do_traversal_Q (option ditems * server) cb (fun acc => forall q', V (snd acc) o q' = V sv o q') t m u g
                  (fun acc n => getdata_cb_other sv b o acc n Hne) r a (fun q' => eq_refl)) as H;
    destruct (do_traversal cb t m r u g a) as [reply sv1] end.
  cbn [snd] in H. destruct reply; [|apply H]. rewrite V_upd_other by (auto; reflexivity). apply H.
Qed.


(* ------------------------------------------------------------------ pending Messages stay well formed *)

Lemma pend_ok_upd_keep : forall sv s f, (forall x, s_pending (f x) = s_pending x) -> pend_ok sv -> pend_ok (upd_session sv s f).
Proof.
  intros sv s f Hf [H1 H2]. split; cbn [sv_sessions sv_dirty upd_session].
  - intros ss d Hin Hp. apply in_map_iff in Hin as [x [Hx Hin]]. subst ss.
    destruct (N.eqb (s_id x) s); [rewrite Hf in Hp|]; eauto.
  - intros [ss [Hin Hp]]. apply in_map_iff in Hin as [x [Hx Hin]]. subst ss. apply H2. exists x. split; auto.
    destruct (N.eqb (s_id x) s); [now rewrite Hf in Hp|auto].
Qed.

Lemma pend_ok_set_tree : forall sv t, pend_ok sv -> pend_ok (set_tree sv t).
Proof. intros sv t H. exact H. Qed.

Lemma pend_ok_cqf : forall s oldf newf sv n, pend_ok sv -> pend_ok (cqf_cb fx s oldf newf sv n).
Proof.
  intros s oldf newf sv n H. unfold cqf_cb. destruct (Bool.eqb _ _); auto.
  destruct (get_session sv s); auto. destruct (_ && _); auto. now apply pend_ok_nca.
Qed.

Lemma pend_ok_getdata_cb : forall s acc n, pend_ok (snd acc) -> pend_ok (snd (fst (getdata_cb s acc n))).
Proof.
  intros s [reply0 sv0] n HQ. unfold getdata_cb. cbn [snd] in HQ.
  destruct (get_session sv0 s) as [ss|]; [|exact HQ].
  destruct (own_node ss (n_path n)); [exact HQ|].
  destruct (N.leb _ _); cbn [fst snd]; auto. apply pend_ok_upd_keep; auto.
Qed.

Lemma pend_ok_do_get_data : forall sv s keys, pend_ok sv -> pend_ok (do_get_data fx sv s keys).
Proof.
  intros sv s keys Hpo. unfold do_get_data.
  match goal with |- context [do_traversal ?cb ?t ?m ?r ?u ?g ?a] =>
    pose proof (do_traversal_Q (option ditems * server) cb (fun acc => pend_ok (snd acc)) t m u g
                  (pend_ok_getdata_cb s) r a Hpo) as H;
    destruct (do_traversal cb t m r u g a) as [reply sv1] end.
  cbn [snd] in H. destruct reply; auto. apply pend_ok_upd_keep; auto.
Qed.


(* ------------------------------------------------------------------ SUBSCRIBE / unsubscribe of another session *)

Lemma cqf_traversal_other : forall b oldf newf t m root uf gf sv o, b <> o -> pend_ok sv ->
  let sv' := do_traversal (continue_cb (cqf_cb fx b oldf newf)) t m root uf gf sv in
  pend_ok sv' /\ forall q, V sv' o q = V sv o q.
Proof.
  intros b oldf newf t m root uf gf sv o Hne Hpo.
  apply (do_traversal_Q server (continue_cb (cqf_cb fx b oldf newf))
           (fun acc => pend_ok acc /\ forall q, V acc o q = V sv o q)).
  - intros acc n [H1 H2]. unfold continue_cb. cbn [fst]. split; [now apply pend_ok_cqf|].
    intros q. rewrite <- H2. unfold cqf_cb. destruct (Bool.eqb _ _); auto.
    destruct (get_session acc b) as [ss|] eqn:Hss; auto. destruct (_ && _); auto.
    rewrite (V_nca mir acc b (n_path n) (n_data n) _ o q H1) by eauto.
    assert (N.eqb o b = false) as -> by (apply N.eqb_neq; congruence). reflexivity.
  - split; auto.
Qed.

Lemma pend_ok_cqf_traversal : forall b oldf newf t m root uf gf sv, pend_ok sv ->
  pend_ok (do_traversal (continue_cb (cqf_cb fx b oldf newf)) t m root uf gf sv).
Proof.
  intros b oldf newf t m root uf gf sv Hpo.
  apply (do_traversal_Q server (continue_cb (cqf_cb fx b oldf newf)) pend_ok); auto.
  intros acc n H. unfold continue_cb. cbn [fst]. now apply pend_ok_cqf.
Qed.

Lemma pend_ok_subscribe_one : forall sv b sf, pend_ok sv -> pend_ok (subscribe_one fx sv b sf).
Proof.
  intros sv b [sp f] Hpo. unfold subscribe_one. cbn [fst snd].
  destruct (get_session sv b) as [ss|]; auto. destruct (fix_path sp) as [|c fp']; auto.
  destruct (m_get (s_subs ss) (c :: fp')) as [e|].
  - apply pend_ok_upd_keep; [reflexivity|]. destruct f, (e_flt e); auto; now apply pend_ok_cqf_traversal.
  - apply pend_ok_set_tree. apply pend_ok_upd_keep; [reflexivity|auto].
Qed.

Lemma pend_ok_unsubscribe_one : forall sv b sp, pend_ok sv -> pend_ok (unsubscribe_one fx sv b sp).
Proof.
  intros sv b sp Hpo. unfold unsubscribe_one. destruct (get_session sv b) as [ss|]; auto.
  destruct (m_remove (s_subs ss) (fix_path sp)); auto.
  apply pend_ok_set_tree. apply pend_ok_upd_keep; [reflexivity|auto].
Qed.

Lemma same_for_upd_other : forall sv b f o, (forall x, s_id (f x) = s_id x) -> b <> o -> same_for o sv (upd_session sv b f).
Proof.
  intros sv b f o Hf Hne ss' Hss'. rewrite get_session_upd_other in Hss' by auto. exists ss'. auto.
Qed.

Lemma same_for_trans : forall o a b c, same_for o a b -> same_for o b c -> same_for o a c.
Proof.
  intros o a b c H1 H2 ss3 Hss3. destruct (H2 ss3 Hss3) as [ss2 [Hss2 [E1 E2]]].
  destruct (H1 ss2 Hss2) as [ss1 [Hss1 [E3 E4]]]. exists ss1. split; [auto|split; congruence].
Qed.

Lemma subscribe_one_other : forall B sv b sf o, b <> o -> inv B sv -> pend_ok sv ->
  let sv' := subscribe_one fx sv b sf in
  (forall q, V sv' o q = V sv o q) /\ (forall q, data_at (sv_tree sv') q = data_at (sv_tree sv) q) /\ same_for o sv sv'.
Proof.
  intros B sv b [sp f] o Hne I Hpo. unfold subscribe_one. cbn [fst snd].
  destruct (get_session sv b) as [ss|] eqn:Hss; [|split; [auto|split; [auto|intros x Hx; eauto]]].
  destruct (fix_path sp) as [|c fp'] eqn:Hfp; [split; [auto|split; [auto|intros x Hx; eauto]]|].
  destruct (m_get (s_subs ss) (c :: fp')) as [e|].
  - match goal with |- context [upd_session ?X b _] => set (sv1 := X) end.
    assert (H1 : (forall q, V sv1 o q = V sv o q) /\ same_core sv sv1).
    { unfold sv1. destruct f, (e_flt e); try (split; [intros q; reflexivity|apply same_core_refl]);
        (split; [apply (cqf_traversal_other b _ _ _ _ _ _ _ sv o Hne Hpo)|apply cqf_traversal_core]). }
    destruct H1 as [HV Hc]. cbv zeta. split; [|split].
    + intros q. rewrite V_upd_keep by (intros x; auto). apply HV.
    + intros q. cbn [sv_tree upd_session]. destruct Hc as [Ht _]. now rewrite Ht.
    + apply (same_for_trans o sv sv1); [apply same_sess_for; now apply same_core_sess|].
      apply same_for_upd_other; auto.
  - cbv zeta. split; [|split].
    + intros q. rewrite V_set_tree, V_upd_keep by (intros x; auto). reflexivity.
    + intros q. cbn [sv_tree set_tree upd_session]. apply data_at_mark; [apply (inv_tree _ _ _ I)|].
      unfold single. apply single_wf. discriminate.
    + intros ss' Hss'. change (get_session (upd_session sv b (fun x => set_subs x (m_put (s_subs x) (c :: fp') f))) o = Some ss') in Hss'.
      rewrite get_session_upd_other in Hss' by auto. eauto.
Qed.

Lemma unsubscribe_one_other : forall B sv b sp o, b <> o -> inv B sv ->
  let sv' := unsubscribe_one fx sv b sp in
  (forall q, V sv' o q = V sv o q) /\ (forall q, data_at (sv_tree sv') q = data_at (sv_tree sv) q) /\ same_for o sv sv'.
Proof.
  intros B sv b sp o Hne I. unfold unsubscribe_one.
  destruct (get_session sv b) as [ss|] eqn:Hss; [|split; [auto|split; [auto|intros x Hx; eauto]]].
  destruct (m_remove (s_subs ss) (fix_path sp)) as [m'|] eqn:Hrm; [|split; [auto|split; [auto|intros x Hx; eauto]]].
  assert (Hne' : fix_path sp <> []).
  { intros E. rewrite E in Hrm. unfold m_remove, m_get in Hrm. cbn in Hrm.
    assert (Hin : In ss (sv_sessions sv)) by (apply find_session_some in Hss; tauto).
    destruct (inv_subs _ _ _ I ss Hin) as [[[_ Hw] _] _].
    destruct (group_get (m_groups (s_subs ss)) 0) as [|e0 l] eqn:Eg; [discriminate|].
    assert (He : In e0 (group_get (m_groups (s_subs ss)) 0)) by (rewrite Eg; now left).
    apply group_get_in in He as [g [Hg [Hd _]]]. destruct (Hw g Hg) as [_ [H1 _]]. lia. }
  cbv zeta. split; [|split].
  - intros q. rewrite V_set_tree, V_upd_keep by (intros x; auto). reflexivity.
  - intros q. cbn [sv_tree set_tree upd_session]. apply data_at_mark; [apply (inv_tree _ _ _ I)|].
    unfold single. now apply single_wf.
  - intros ss' Hss'. change (get_session (upd_session sv b (fun x => set_subs x m')) o = Some ss') in Hss'.
    rewrite get_session_upd_other in Hss' by auto. eauto.
Qed.


(* ------------------------------------------------------------------ a session arrives *)

Lemma V_add_session : forall sv ssn o q, get_session sv o <> None ->
  V (mkServer (sv_tree sv) (sv_sessions sv ++ [ssn]) (sv_dirty sv)) o q = V sv o q.
Proof.
  intros sv ssn o q H. unfold V, get_session in *. cbn [sv_sessions]. rewrite find_session_app.
  destruct (find_session (sv_sessions sv) o); [reflexivity|contradiction].
Qed.

Lemma attach_J : forall B sv s host nm o, small B -> inv B sv -> pend_ok sv -> get_session sv s = None ->
  (forall ss, In ss (sv_sessions sv) -> session_dir ss <> [host; nm]) ->
  o <> s -> J sv o -> J (attach sv s host nm) o /\ pend_ok (attach sv s host nm).
Proof.
  intros B sv s host nm o HB I Hpo Hnone Hfresh Hne HJ. unfold attach.
  set (ssn := mkSession s host nm empty_matcher default_max_items None []).
  set (sv0 := mkServer (sv_tree sv) (sv_sessions sv ++ [ssn]) (sv_dirty sv)).
  destruct (attach_pre B sv s host nm I Hnone Hfresh) as [I0 Habsent]. fold ssn in I0. fold sv0 in I0.
  assert (Hpo0 : pend_ok sv0).
  { destruct Hpo as [H1 H2]. split; cbn [sv_sessions sv_dirty sv0].
    - intros ss d Hin Hp. apply in_app_or in Hin as [Hin|[Hin|[]]]; [eauto|subst ss; discriminate].
    - intros [ss [Hin Hp]]. apply in_app_or in Hin as [Hin|[Hin|[]]]; [apply H2; eauto|subst ss; now contradiction Hp]. }
  assert (HJ0 : J sv0 o).
  { intros ss0 Hss0 q Hown. unfold get_session in Hss0. cbn [sv_sessions sv0] in Hss0. rewrite find_session_app in Hss0.
    destruct (find_session (sv_sessions sv) o) as [ss|] eqn:Hso.
    - inversion Hss0; subst ss0. unfold sv0. rewrite V_add_session by (unfold get_session; now rewrite Hso).
      apply HJ; auto.
    - cbn [s_id ssn] in Hss0. destruct (N.eqb s o) eqn:E; [|discriminate]. apply N.eqb_eq in E. congruence. }
  assert (Hdir0 : exists ss, In ss (sv_sessions sv0) /\ session_dir ss = [host; nm]).
  { exists ssn. split; [cbn; apply in_or_app; right; now left|reflexivity]. }
  match goal with |- J (push_all (notify_changed (set_tree ?X _) _ _ _ _ _)) _ /\ _ => set (sv1 := X) end.
  assert (H1 : J sv1 o /\ pend_ok sv1 /\ inv_x B [host; nm] sv1 /\ has_node (sv_tree sv1) [host] = true
               /\ find_node (sv_tree sv1) [host; nm] = None
               /\ exists ss, In ss (sv_sessions sv1) /\ session_dir ss = [host; nm]).
  { unfold sv1. destruct (has_node (sv_tree sv0) [host]) eqn:Hh.
    - repeat (split; [assumption|]). exact Hdir0.
    - assert (Hn0 : find_node (sv_tree sv0) ([] ++ [host]) = None).
      { unfold has_node in Hh. cbn [app]. destruct (find_node (sv_tree sv0) [host]); [discriminate|reflexivity]. }
      destruct (create_step_J mir B [host; nm] sv0 s [] host empty_payload o HB I0 Hpo0 (or_introl eq_refl)) as [Ha [Hb [Hc [Hd [He Hf]]]]]; auto.
      { cbn. discriminate. }
      cbn [app] in *. split; [exact Ha|split; [exact Hb|split; [exact Hc|split; [exact Hd|split]]]].
      + rewrite Hf. apply find_node_none. intros n Hn. apply in_app_or in Hn as [Hn|[Hn|[]]].
        * cbn [sv_tree sv0] in Hn. rewrite find_node_none in Habsent. now apply Habsent.
        * subst n. cbn. discriminate.
      + now apply (core_dir_exists (sv_sessions sv0)). }
  destruct H1 as [HJ1 [Hpo1 [I1 [Hhost [Habs1 Hdir1]]]]].
  destruct (create_step_J mir B [host; nm] sv1 s [host] nm empty_payload o HB I1 Hpo1 (or_intror Hhost)) as [Ha [Hb _]]; auto.
  cbn [app] in *. split; [now apply J_push_all|now apply pend_ok_push_all].
Qed.

(* the session that notifies is never told *)
Lemma V_notify_self_gen : forall sv by_ p d old r q, pend_ok sv ->
  V (notify_changed sv by_ p d old r) by_ q = V sv by_ q.
Proof.
  intros sv by_ p d old r q Hpo. unfold notify_changed. destruct (find_node (sv_tree sv) p) as [n|]; auto.
  revert sv Hpo. induction (n_subs n) as [|[k c] tb IH]; intros sv Hpo; cbn [fold_left]; auto. cbn [fst].
  destruct (N.eqb k by_) eqn:E; [now apply IH|].
  rewrite IH by (now apply pend_ok_node_changed).
  destruct (get_session sv k) as [ssk|] eqn:Hk.
  - rewrite (V_node_changed mir sv k ssk p d old r by_ q Hpo Hk).
    rewrite (N.eqb_sym by_ k), E. reflexivity.
  - unfold node_changed. now rewrite Hk.
Qed.


Lemma expected_empty : forall t (ss : session) q, s_subs ss = empty_matcher -> expected t ss q = None.
Proof. intros t ss q H. unfold expected. rewrite H. destruct (find_node t q); reflexivity. Qed.

(* the newcomer itself: nothing subscribed, nothing held *)
Lemma attach_J_new : forall sv s host nm, mir = [] -> pend_ok sv -> get_session sv s = None ->
  J (attach sv s host nm) s.
Proof.
  intros sv s host nm Hmir Hpo Hnone. unfold attach.
  set (ssn := mkSession s host nm empty_matcher default_max_items None []).
  set (sv0 := mkServer (sv_tree sv) (sv_sessions sv ++ [ssn]) (sv_dirty sv)).
  assert (Hss0 : get_session sv0 s = Some ssn).
  { unfold get_session in *. cbn [sv_sessions sv0]. rewrite find_session_app, Hnone. cbn [s_id ssn]. now rewrite N.eqb_refl. }
  assert (Hpo0 : pend_ok sv0).
  { destruct Hpo as [H1 H2]. split; cbn [sv_sessions sv_dirty sv0].
    - intros ss d Hin Hp. apply in_app_or in Hin as [Hin|[Hin|[]]]; [eauto|subst ss; discriminate].
    - intros [ss [Hin Hp]]. apply in_app_or in Hin as [Hin|[Hin|[]]]; [apply H2; eauto|subst ss; now contradiction Hp]. }
  match goal with |- J (push_all (notify_changed (set_tree ?X ?T) _ _ _ _ _)) _ => set (sv1 := X); set (t2 := T) end.
  assert (H1 : pend_ok sv1 /\ same_sess sv0 sv1 /\ forall q, V sv1 s q = V sv0 s q).
  { unfold sv1. destruct (has_node (sv_tree sv0) [host]).
    - split; [auto|split; [reflexivity|auto]].
    - split; [apply pend_ok_notify_changed; exact Hpo0|split].
      + apply (same_sess_trans sv0 (set_tree sv0 (add_node (sv_tree sv0) (mkNode [host] empty_payload (new_node_table sv0 [host])))));
          [reflexivity|apply same_core_sess, notify_changed_core].
      + intros q. rewrite V_notify_self_gen by exact Hpo0. reflexivity. }
  destruct H1 as [Hpo1 [Hs1 HV1]].
  set (sv3 := notify_changed (set_tree sv1 t2) s [host; nm] empty_payload None false).
  assert (Hs3 : same_sess sv0 (push_all sv3)).
  { apply (same_sess_trans sv0 sv1); auto. apply (same_sess_trans sv1 (set_tree sv1 t2)); [reflexivity|].
    apply (same_sess_trans _ sv3); [apply same_core_sess, notify_changed_core|apply same_core_sess, push_all_core]. }
  intros ss Hss q Hown.
  destruct (get_session_sess sv0 _ s ss Hs3 Hss) as [ss0 [Hss0' [Hsub _]]].
  assert (ss0 = ssn) by congruence. subst ss0.
  rewrite expected_empty by (now rewrite <- Hsub).
  rewrite V_push_all. unfold sv3. rewrite V_notify_self_gen by exact Hpo1. rewrite V_set_tree, HV1.
  unfold V. rewrite Hss0. cbn. now rewrite Hmir.
Qed.

(* ------------------------------------------------------------------ a session leaves *)

Lemma V_drop_session : forall sv t s o q, o <> s ->
  V (mkServer t (filter (fun x => negb (N.eqb (s_id x) s)) (sv_sessions sv)) (sv_dirty sv)) o q = V sv o q.
Proof.
  intros sv t s o q Hne. unfold V, get_session. cbn [sv_sessions]. rewrite find_session_filter by congruence. reflexivity.
Qed.

(* marking never touches a payload *)
Lemma data_at_adjust : forall t p s delta q, data_at (adjust_subs t p s delta) q = data_at t q.
Proof.
  intros t p s delta q. unfold data_at, adjust_subs. rewrite find_node_map_node by reflexivity.
  destruct (find_node t q) as [n|]; auto. cbn. destruct (path_eqb (n_path n) p); reflexivity.
Qed.

Lemma data_at_mark_gen : forall t m s delta q, data_at (mark_nodes fx t m s delta) q = data_at t q.
Proof.
  intros t m s delta q. unfold mark_nodes.
  apply (do_traversal_Q tree (continue_cb (fun acc n => adjust_subs acc (n_path n) s delta))
           (fun acc => data_at acc q = data_at t q)); auto.
  intros acc n H. unfold continue_cb. cbn [fst]. now rewrite data_at_adjust.
Qed.

Lemma detach_J : forall B sv s o, inv B sv -> pend_ok sv -> o <> s -> J sv o -> J (detach fx sv s) o.
Proof.
  intros B sv s o I Hpo Hne HJ. unfold detach.
  destruct (get_session sv s) as [ss|] eqn:Hss; auto.
  assert (Hin : In ss (sv_sessions sv)) by (apply find_session_some in Hss; tauto).
  pose proof (inv_dirs_exist B sv ss I Hin) as Hdir.
  assert (Hhost : has_node (sv_tree sv) [s_host ss] = true).
  { apply has_node_spec in Hdir as [n [H1 H2]].
    destruct (inv_tree _ _ _ I) as [_ [_ Hpre]].
    destruct (Hpre n [s_host ss] [s_name ss] H1 H2) as [n' [H3 H4]]; [discriminate|].
    apply has_node_spec. eauto. }
  rewrite Hhost, Hdir.
  destruct (remove_subtree_J mir sv s (session_dir ss) o (inv_marks_ok _ _ _ I) Hpo (or_introl Hne) HJ) as [HJ1 [Hpo1 [Hmk1 Hs1]]].
  set (sv1 := remove_subtree sv s (session_dir ss) true) in *.
  match goal with |- J (mkServer _ (filter _ (sv_sessions (push_all ?X))) _) _ => set (sv2 := X) end.
  assert (H2 : J sv2 o /\ pend_ok sv2).
  { unfold sv2. destruct (has_children (sv_tree sv1) [s_host ss]); [split; auto|].
    destruct (remove_subtree_J mir sv1 s [s_host ss] o Hmk1 Hpo1 (or_introl Hne) HJ1) as [Ha [Hb _]]. split; auto. }
  destruct H2 as [HJ2 Hpo2].
  set (sv3 := push_all sv2).
  assert (HJ3 : J sv3 o) by (now apply J_push_all).
  (* unmarking touches subscriber tables only; dropping the session touches neither the observer nor the tree *)
  intros ss' Hss' q Hown. unfold get_session in Hss'. cbn [sv_sessions] in Hss'.
  rewrite find_session_filter in Hss' by congruence.
  rewrite V_drop_session by auto. rewrite (HJ3 ss' Hss' q Hown). f_equal. cbn [sv_tree].
  destruct (sv_tree sv3) as [|n0 t0] eqn:Et; [reflexivity|]. rewrite <- Et.
  symmetry. apply expected_data. apply data_at_mark_gen.
Qed.

End Handlers.
