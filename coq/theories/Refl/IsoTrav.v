(* Refl/IsoTrav.v -- C06: what EVERY traversal of NodePathMatcher::DoTraversal (Refl/Traverse.v) guarantees,
   whatever the patterns, filters, callback and repair flags: the callback is only ever invoked on nodes of the
   tree that lie strictly below the node the traversal started at.  Stated as an invariant rule. *)
From Coq Require Import List NArith ZArith Bool Arith Lia.
From Muscle Require Import Refl.Base Refl.Tree Refl.Matcher Refl.Traverse Refl.IsoBase.
Import ListNotations.

Section TravInv.
Context {M : MatchOps}.
Variable A : Type.
Variable cb : A -> node -> A * Z.
Variable t : tree.
Variable m : matcher.
Variable root_depth : nat.
Variable use_filters guard_fixed : bool.
Variable root : path.
Variable P : A -> Prop.

(* a node the callback may see: in the tree, strictly below [root] *)
Definition below (n : node) : Prop := In n t /\ exists r, r <> [] /\ n_path n = root ++ r.

Hypothesis Hcb : forall acc n, P acc -> below n -> P (fst (cb acc n)).

Definition rec_ok (rec : path -> A -> A * Z) : Prop :=
  forall p acc, is_prefix root p = true -> P acc -> P (fst (rec p acc)).

Lemma check_entries_inv : forall rec child rel known es idx matched recursed acc,
  rec_ok rec -> below child -> P acc ->
  P (fst (check_entries A cb m root_depth use_filters guard_fixed rec child rel known es idx matched recursed acc)).
Proof.
  intros rec child rel known es. induction es as [|e es IH]; intros idx matched recursed acc Hrec Hch HP; cbn; [exact HP|].
  assert (Hpre : is_prefix root (n_path child) = true).
  { destruct Hch as [_ [r [_ Hr]]]. rewrite Hr. apply is_prefix_app. }
  destruct (_ || _).
  - destruct (Nat.eqb _ _).
    + destruct matched; [now apply IH|].
      destruct (_ || _).
      * destruct (cb acc child) as [acc1 nd] eqn:Ecb.
        assert (HP1 : P acc1) by (specialize (Hcb acc child HP Hch); now rewrite Ecb in Hcb).
        destruct (Z.ltb _ _); [exact HP1|]. destruct recursed; [exact HP1|]. now apply IH.
      * now apply IH.
    + destruct recursed; [now apply IH|].
      destruct (rec (n_path child) acc) as [acc1 nd] eqn:Erec.
      assert (HP1 : P acc1) by (specialize (Hrec (n_path child) acc Hpre HP); now rewrite Erec in Hrec).
      destruct (Z.ltb _ _); [exact HP1|]. destruct matched; [exact HP1|]. now apply IH.
  - now apply IH.
Qed.

Lemma check_child_inv : forall rec child rel known acc,
  rec_ok rec -> below child -> P acc ->
  P (fst (check_child A cb m root_depth use_filters guard_fixed rec child rel known acc)).
Proof. intros. unfold check_child. now apply check_entries_inv. Qed.

Lemma iter_children_inv : forall rec rel cs acc,
  rec_ok rec -> (forall c, In c cs -> below c) -> P acc ->
  P (fst (iter_children A cb m root_depth use_filters guard_fixed rec rel cs acc)).
Proof.
  intros rec rel cs. induction cs as [|c cs IH]; intros acc Hrec Hcs HP; cbn; [exact HP|].
  destruct (check_child A cb m root_depth use_filters guard_fixed rec c rel None acc) as [acc1 [d|]] eqn:E.
  - pose proof (check_child_inv rec c rel None acc Hrec (Hcs c (or_introl eq_refl)) HP) as H. now rewrite E in H.
  - apply IH; [exact Hrec|intros c' Hc'; apply Hcs; now right|].
    pose proof (check_child_inv rec c rel None acc Hrec (Hcs c (or_introl eq_refl)) HP) as H. now rewrite E in H.
Qed.

Lemma lookup_keys_inv : forall rec x rel idx ks did acc,
  rec_ok rec -> is_prefix root x = true -> P acc ->
  P (fst (fst (lookup_keys A cb t m root_depth use_filters guard_fixed rec x rel idx ks did acc))).
Proof.
  intros rec x rel idx ks. induction ks as [|k ks IH]; intros did acc Hrec Hx HP; cbn; [exact HP|].
  destruct (get_child t x k) as [c|] eqn:Eg; [|now apply IH].
  destruct (path_mem (n_path c) did); [now apply IH|].
  assert (Hb : below c).
  { apply get_child_In in Eg as [Hin Hp]. split; [exact Hin|]. apply is_prefix_spec in Hx as [r Hr].
    exists (r ++ [k]). split; [destruct r; discriminate|]. rewrite Hp, Hr. now rewrite app_assoc. }
  destruct (check_child A cb m root_depth use_filters guard_fixed rec c rel (Some idx) acc) as [acc1 [d|]] eqn:E;
    pose proof (check_child_inv rec c rel (Some idx) acc Hrec Hb HP) as H; rewrite E in H; cbn in H.
  - exact H.
  - now apply IH.
Qed.

Lemma lookup_entries_inv : forall rec x rel es idx did acc,
  rec_ok rec -> is_prefix root x = true -> P acc ->
  P (fst (lookup_entries A cb t m root_depth use_filters guard_fixed rec x rel es idx did acc)).
Proof.
  intros rec x rel es. induction es as [|e es IH]; intros idx did acc Hrec Hx HP; cbn; [exact HP|].
  match goal with |- context [lookup_keys A cb t m root_depth use_filters guard_fixed rec x rel idx ?ks did acc] =>
    pose proof (lookup_keys_inv rec x rel idx ks did acc Hrec Hx HP) as H;
    destruct (lookup_keys A cb t m root_depth use_filters guard_fixed rec x rel idx ks did acc) as [[acc1 did1] [d|]] end;
    cbn in H.
  - exact H.
  - now apply IH.
Qed.

Lemma trav_inv : forall fuel, rec_ok (trav A cb t m root_depth use_filters guard_fixed fuel).
Proof.
  induction fuel as [|f IH]; intros x acc Hx HP; cbn; [exact HP|].
  destruct (existsb _ _).
  - match goal with |- context [iter_children A cb m root_depth use_filters guard_fixed ?r ?rel ?cs acc] =>
      assert (H : P (fst (iter_children A cb m root_depth use_filters guard_fixed r rel cs acc))) end.
    { apply iter_children_inv; [exact IH| |exact HP].
      intros c Hc. apply children_In in Hc as [Hin [k Hk]]. split; [exact Hin|].
      apply is_prefix_spec in Hx as [r Hr]. exists (r ++ [k]). split; [destruct r; discriminate|].
      rewrite Hk, Hr. now rewrite app_assoc. }
    destruct (iter_children _ _ _ _ _ _ _ _ _ _) as [acc1 [d|]]; exact H.
  - match goal with |- context [lookup_entries A cb t m root_depth use_filters guard_fixed ?r x ?rel ?es 0 [] acc] =>
      pose proof (lookup_entries_inv r x rel es 0 [] acc IH Hx HP) as H;
      destruct (lookup_entries A cb t m root_depth use_filters guard_fixed r x rel es 0 [] acc) as [acc1 [d|]] end; exact H.
Qed.

End TravInv.

(* the rule for DoTraversal: any property of the accumulator that every callback on a node of the tree strictly below
   [root] preserves, is preserved by the whole traversal *)
Lemma do_traversal_inv : forall {M : MatchOps} (A : Type) (cb : A -> node -> A * Z) t m root uf gf (P : A -> Prop),
  (forall acc n, P acc -> In n t -> (exists r, r <> [] /\ n_path n = root ++ r) -> P (fst (cb acc n))) ->
  forall acc, P acc -> P (do_traversal cb t m root uf gf acc).
Proof.
  intros M A cb t m root uf gf P Hcb acc HP. unfold do_traversal.
  apply (trav_inv A cb t m (length root) uf gf root P).
  - intros a n Ha [Hin Hr]. now apply Hcb.
  - apply is_prefix_refl.
  - exact HP.
Qed.
