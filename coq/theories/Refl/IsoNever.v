(* Refl/IsoNever.v -- C06, as-if-never, the server level: sessions arriving and leaving keep the simulation relation of
   Refl/IsoSim.v, and the arrival and departure of s itself leave the erased side alone.  (Dispatcher level: Refl/IsoAsIf.v.) *)
From Coq Require Import List NArith ZArith Bool Arith Lia.
From Muscle Require Import Gen.Consts Refl.Base Refl.BaseProofs Refl.Tree Refl.TreeProofs Refl.Matcher Refl.MatcherProofs
     Refl.Traverse Refl.TraverseSpec Refl.Session Refl.Server Refl.ServerProofs Refl.IsoModel Refl.IsoBase Refl.IsoTrav Refl.IsoFrame
     Refl.IsoSimBase Refl.IsoSimTrav Refl.IsoSim Refl.IsoDetach Refl.IsoRun Refl.IsoHosts.
Import ListNotations.

Section Never.
Context {M : MatchOps} {L : MatchLaws M}.
Variable fx : fixes.
Hypothesis guard_on : fx_guard fx = true.
Variable s : sid.

(* ------------------------------------------------------------------ host nodes are invisible to the relation *)

Lemma rel_add_host_l : forall od tF tE h, rel_tree s od tF tE -> nonhost h = false -> rel_tree s od (add_node tF h) tE.
Proof.
  intros od tF tE h R Hh. unfold rel_tree, add_node in *. rewrite filter_app. cbn [filter]. unfold vis at 2. rewrite Hh. cbn [andb].
  now rewrite app_nil_r.
Qed.

Lemma rel_add_host_r : forall od tF tE h, rel_tree s od tF tE -> nonhost h = false -> rel_tree s od tF (add_node tE h).
Proof.
  intros od tF tE h R Hh. unfold rel_tree, add_node in *. rewrite body_app. unfold body at 2. cbn [filter]. rewrite Hh.
  now rewrite app_nil_r.
Qed.

Lemma filter_filter_implied : forall (A : Type) (f g : A -> bool) l,
  (forall x, In x l -> f x = true -> g x = true) -> filter f (filter g l) = filter f l.
Proof.
  intros A f g l H. induction l as [|x l IH]; [reflexivity|]. cbn [filter].
  assert (IH' : filter f (filter g l) = filter f l) by (apply IH; intros y Hy; apply H; now right).
  destruct (f x) eqn:F.
  - rewrite (H x (or_introl eq_refl) F). cbn [filter]. rewrite F. now rewrite IH'.
  - destruct (g x); cbn [filter]; [rewrite F|]; exact IH'.
Qed.

(* pruning a host node that has no child removes that one node only *)
Lemma prune_childless_host : forall t h (f : node -> bool), wf_tree t -> has_children t [h] = false ->
  (forall n, nonhost n = false -> f n = false) -> filter f (prune_tree t [h]) = filter f t.
Proof.
  intros t h f W Hc Hf. unfold prune_tree. apply filter_filter_implied. intros n Hn Hfn.
  apply negb_true_iff. destruct (is_prefix [h] (n_path n)) eqn:E; [|reflexivity]. exfalso.
  apply is_prefix_spec in E as [r Hr]. destruct r as [|k r].
  - assert (nonhost n = false) by (unfold nonhost; rewrite Hr; reflexivity). rewrite (Hf n H) in Hfn. discriminate.
  - destruct W as [_ [_ Hpre]]. destruct (Hpre n ([h] ++ [k]) r Hn) as [c [Hc1 Hc2]].
    + rewrite Hr. now rewrite <- app_assoc.
    + discriminate.
    + exact (has_children_false _ _ c k Hc Hc1 Hc2).
Qed.

(* ------------------------------------------------------------------ another session arrives *)

Lemma find_session_app_other : forall l (x : session) k, s_id x <> k -> find_session (l ++ [x]) k = find_session l k.
Proof.
  induction l as [|y l IH]; intros x k Hx; cbn.
  - assert (N.eqb (s_id x) k = false) as -> by now apply N.eqb_neq. reflexivity.
  - destruct (N.eqb (s_id y) k); [reflexivity|now apply IH].
Qed.

Lemma others_app : forall l l', others s (l ++ l') = others s l ++ others s l'.
Proof. intros. unfold others. apply filter_app. Qed.

(* the new session appended on both sides *)
Lemma rel_append_session : forall F E (x : session), rel s F E -> s_id x <> s ->
  rel s (mkServer (sv_tree F) (sv_sessions F ++ [x]) (sv_dirty F)) (mkServer (sv_tree E) (sv_sessions E ++ [x]) (sv_dirty E)).
Proof.
  intros F E x [R1 R2] Hx. split.
  - unfold sdir, get_session. cbn [sv_sessions sv_tree]. rewrite find_session_app_other by exact Hx. exact R1.
  - unfold rel_sess, all_params in *. cbn [sv_sessions]. rewrite map_app, R2, others_app, map_app. f_equal.
    unfold others. cbn [filter]. assert (N.eqb (s_id x) s = false) as -> by now apply N.eqb_neq. reflexivity.
Qed.

Definition with_host (sv : server) (by_ : sid) (host : name) : server :=
  if has_node (sv_tree sv) [host] then sv
  else notify_changed (set_tree sv (add_node (sv_tree sv) (mkNode [host] empty_payload (new_node_table sv [host])))) by_ [host] empty_payload None false.

Lemma with_host_params : forall sv by_ host, all_params (with_host sv by_ host) = all_params sv.
Proof.
  intros. unfold with_host. destruct (has_node _ _); [reflexivity|]. rewrite (proj2 (notify_changed_same _ _ _ _ _ _)). reflexivity.
Qed.

Lemma rel_set_tree_l : forall F E tF, rel s F E -> rel_tree s (sdir s F) tF (sv_tree E) -> rel s (set_tree F tF) E.
Proof. intros F E tF [_ R2] R. split; [exact R|exact R2]. Qed.

Lemma rel_set_tree_r : forall F E tE, rel s F E -> rel_tree s (sdir s F) (sv_tree F) tE -> rel s F (set_tree E tE).
Proof. intros F E tE [_ R2] R. split; [exact R|exact R2]. Qed.

Lemma rel_with_host : forall F E by_ host, rel s F E -> rel s (with_host F by_ host) (with_host E by_ host).
Proof.
  intros F E by_ host R.
  assert (HL : rel s (with_host F by_ host) E).
  { unfold with_host. destruct (has_node (sv_tree F) [host]); [exact R|].
    eapply rel_same_state; [apply notify_changed_same|apply same_state_refl|].
    apply rel_set_tree_l; [exact R|]. apply rel_add_host_l; [exact (proj1 R)|reflexivity]. }
  unfold with_host at 2. destruct (has_node (sv_tree E) [host]); [exact HL|].
  eapply rel_same_state; [apply same_state_refl|apply notify_changed_same|].
  apply rel_set_tree_r; [exact HL|]. apply rel_add_host_r; [exact (proj1 HL)|reflexivity].
Qed.

Lemma attach_unfold : forall sv t host nm,
  attach sv t host nm =
  let ss := mkSession t host nm empty_matcher default_max_items None [] in
  let sv1 := with_host (mkServer (sv_tree sv) (sv_sessions sv ++ [ss]) (sv_dirty sv)) t host in
  push_all (notify_changed (set_tree sv1 (add_node (sv_tree sv1) (mkNode [host; nm] empty_payload (new_node_table sv1 [host; nm]))))
                           t [host; nm] empty_payload None false).
Proof. reflexivity. Qed.

Lemma attach_sim : forall F E t host nm, rel s F E -> t <> s -> hidden (sdir s F) [host; nm] = false ->
  rel s (attach F t host nm) (attach E t host nm).
Proof.
  intros F E t host nm R Ht Hv. rewrite !attach_unfold. cbv zeta.
  set (ss := mkSession t host nm empty_matcher default_max_items None []).
  assert (R0 : rel s (mkServer (sv_tree F) (sv_sessions F ++ [ss]) (sv_dirty F)) (mkServer (sv_tree E) (sv_sessions E ++ [ss]) (sv_dirty E)))
    by (apply rel_append_session; [exact R|exact Ht]).
  assert (Hs0 : sdir s (mkServer (sv_tree F) (sv_sessions F ++ [ss]) (sv_dirty F)) = sdir s F).
  { unfold sdir, get_session. cbn [sv_sessions]. now rewrite find_session_app_other by exact Ht. }
  pose proof (rel_with_host _ _ t host R0) as R1.
  set (F1 := with_host (mkServer (sv_tree F) (sv_sessions F ++ [ss]) (sv_dirty F)) t host) in *.
  set (E1 := with_host (mkServer (sv_tree E) (sv_sessions E ++ [ss]) (sv_dirty E)) t host) in *.
  assert (Hs1 : sdir s F1 = sdir s F) by (unfold F1; rewrite (sdir_params s _ _ (with_host_params _ _ _)); exact Hs0).
  eapply rel_same_state; [eapply same_state_trans; [apply notify_changed_same|apply push_all_same]
                         |eapply same_state_trans; [apply notify_changed_same|apply push_all_same]|].
  apply rel_set_tree; [exact R1|]. apply rel_add; [exact (proj1 R1)| |].
  - unfold strip. cbn [n_path n_data n_subs]. f_equal. symmetry. apply rel_new_node_table. exact (proj2 R1).
  - unfold vis, nonhost. cbn [n_path length]. rewrite Hs1, Hv. reflexivity.
Qed.

(* ------------------------------------------------------------------ another session leaves *)

Lemma detach_params : forall sv t, all_params (detach fx sv t) = map sparams (filter (fun x => negb (N.eqb (s_id x) t)) (sv_sessions sv)).
Proof.
  intros sv t. unfold detach. destruct (get_session sv t) as [ss|] eqn:Hs.
  - unfold all_params. cbn [sv_sessions]. apply (others_params_eq t).
    destruct (has_node (sv_tree sv) [s_host ss]); [|reflexivity].
    match goal with |- map sparams (sv_sessions (push_all ?X)) = _ => change (all_params (push_all X) = all_params sv); set (sv2 := X) end.
    rewrite (proj2 (push_all_same sv2)). unfold sv2.
    match goal with |- all_params (if ?c then ?a else ?b) = _ => assert (Ha : all_params a = all_params sv) end.
    { destruct (has_node _ _); [apply remove_subtree_params|reflexivity]. }
    destruct (has_children _ _); [exact Ha|]. rewrite remove_subtree_params. exact Ha.
  - (* no such session: nothing is filtered *)
    unfold all_params. f_equal. symmetry. unfold get_session in Hs.
    induction (sv_sessions sv) as [|x l IH]; [reflexivity|]. cbn in *. destruct (N.eqb (s_id x) t); [discriminate|]. cbn. f_equal. now apply IH.
Qed.

Lemma rel_tree_without : forall od tF tE (stF stE : session), rel_tree s od tF tE -> wf_tree tF -> wf_tree tE ->
  session_dir stE = session_dir stF -> s_subs stE = s_subs stF -> s_id stE = s_id stF -> s_id stF <> s ->
  rel_tree s od (tree_without tF stF) (tree_without tE stE).
Proof.
  intros od tF tE stF stE R WF WE Hd Hsub Hid Hne. unfold tree_without. rewrite Hd, Hsub, Hid.
  assert (Hh : s_host stE = s_host stF) by (unfold session_dir in Hd; congruence). rewrite Hh.
  apply rel_map.
  - pose proof (rel_prune s od tF tE (session_dir stF) R) as R1.
    set (t1F := prune_tree tF (session_dir stF)) in *. set (t1E := prune_tree tE (session_dir stF)) in *.
    assert (W1F : wf_tree t1F) by now apply wf_tree_prune. assert (W1E : wf_tree t1E) by now apply wf_tree_prune.
    unfold rel_tree in *. unfold body in *.
    assert (HE : filter nonhost (if has_children t1E [s_host stF] then t1E else prune_tree t1E [s_host stF]) = filter nonhost t1E).
    { destruct (has_children t1E [s_host stF]) eqn:Hc; [reflexivity|]. apply prune_childless_host; auto. }
    assert (HF : filter (vis od) (if has_children t1F [s_host stF] then t1F else prune_tree t1F [s_host stF]) = filter (vis od) t1F).
    { destruct (has_children t1F [s_host stF]) eqn:Hc; [reflexivity|]. apply prune_childless_host; auto.
      intros n Hn. unfold vis. now rewrite Hn. }
    transitivity (filter nonhost t1E); [exact HE|]. rewrite R1. f_equal. symmetry. exact HF.
  - intros n. destruct (matches_node _ _ _ _); reflexivity.
  - intros n. destruct (matches_node _ _ _ _); reflexivity.
  - intros n. rewrite strip_path. destruct (matches_node _ _ _ _); [now apply strip_adj_other|reflexivity].
Qed.

Lemma filter_filter_swap : forall (l : list session) (a b : sid),
  filter (fun x => negb (N.eqb (s_id x) a)) (filter (fun x => negb (N.eqb (s_id x) b)) l) =
  filter (fun x => negb (N.eqb (s_id x) b)) (filter (fun x => negb (N.eqb (s_id x) a)) l).
Proof. intros. apply filter_comm. Qed.

Lemma detach_sim : forall B F E t, inv B F -> inv B E -> rel s F E -> t <> s -> rel s (detach fx F t) (detach fx E t).
Proof.
  intros B F E t IF IE R Ht.
  pose proof (rel_get_session s F E t (proj2 R) Ht) as Hg.
  destruct (get_session F t) as [a|] eqn:Ha; destruct (get_session E t) as [b|] eqn:Hb; try contradiction.
  2:{ unfold detach. rewrite Ha, Hb. exact R. }
  destruct (detach_shape fx guard_on B F t a IF Ha) as [HtF _]. destruct (detach_shape fx guard_on B E t b IE Hb) as [HtE _].
  pose proof (detach_params F t) as HpF. pose proof (detach_params E t) as HpE.
  apply sparams_parts in Hg as [G1 [G2 [G3 [G4 _]]]].
  assert (Hid : s_id a = t) by (apply find_session_some in Ha; tauto).
  assert (Hsd : sdir s (detach fx F t) = sdir s F).
  { unfold sdir, get_session.
    pose proof (find_session_params (filter (fun x => negb (N.eqb (s_id x) t)) (sv_sessions F)) (sv_sessions (detach fx F t)) s HpF) as Hc.
    rewrite find_session_filter in Hc by congruence.
    destruct (find_session (sv_sessions F) s) as [x|], (find_session (sv_sessions (detach fx F t)) s) as [y|]; try contradiction; [|reflexivity].
    cbn. apply sparams_parts in Hc as [_ [H2 [H3 _]]]. unfold session_dir. now rewrite H2, H3. }
  split.
  - rewrite Hsd, HtF, HtE. apply rel_tree_without; [exact (proj1 R)|apply (inv_tree _ _ _ IF)|apply (inv_tree _ _ _ IE)| | | |].
    + unfold session_dir. now rewrite G2, G3.
    + exact G4.
    + exact G1.
    + congruence.
  - unfold rel_sess. rewrite HpE.
    change (filter (fun x => negb (N.eqb (s_id x) t)) (sv_sessions E)) with (others t (sv_sessions E)).
    rewrite (others_params_eq t (others s (sv_sessions F)) (sv_sessions E) (proj2 R)).
    transitivity (map sparams (others s (others t (sv_sessions F)))).
    + f_equal. unfold others. apply filter_comm.
    + symmetry. apply (others_params_eq s). exact HpF.
Qed.

(* ------------------------------------------------------------------ the events of s itself: the erased side stands still *)

Lemma filter_andb : forall (A : Type) (f g : A -> bool) l, filter (fun x => f x && g x) l = filter f (filter g l).
Proof.
  intros A f g l. induction l as [|x l IH]; [reflexivity|]. cbn [filter].
  destruct (g x) eqn:G, (f x) eqn:F; cbn [filter andb]; rewrite ?F; now rewrite IH.
Qed.

(* with s attached at d, the relation sees the full tree only through s's foreign view *)
Lemma vis_foreign_view : forall d t, map (strip s) (filter (vis (Some d)) t) = filter nonhost (foreign_view s d t).
Proof.
  intros d t. unfold foreign_view. rewrite (filter_map_pres _ nonhost (strip s)) by reflexivity. f_equal.
  unfold vis, hidden. rewrite (filter_andb _ nonhost (fun n => negb (is_prefix d (n_path n)))). reflexivity.
Qed.

Lemma find_session_idents : forall l l' k, map sident l' = map sident l ->
  match find_session l k, find_session l' k with
  | Some a, Some b => sident b = sident a
  | None, None => True
  | _, _ => False
  end.
Proof.
  induction l as [|x l IH]; intros [|y l'] k H; try discriminate; cbn [find_session]; [exact I|].
  cbn [map] in H. assert (H1 : sident y = sident x) by exact (f_equal (fun l0 => hd (sident x) l0) H).
  assert (H2 : map sident l' = map sident l) by exact (f_equal (@tl _) H).
  assert (Hid : s_id y = s_id x) by exact (f_equal (fun c => fst (fst c)) H1). rewrite Hid.
  destruct (N.eqb (s_id x) k); [exact H1|now apply IH].
Qed.

Lemma sdir_idents : forall F F', idents F' = idents F -> sdir s F' = sdir s F.
Proof.
  intros F F' H. unfold sdir, get_session. pose proof (find_session_idents (sv_sessions F) (sv_sessions F') s H) as Hc.
  destruct (find_session (sv_sessions F) s) as [a|], (find_session (sv_sessions F') s) as [b|]; try contradiction; [|reflexivity].
  cbn. unfold session_dir.
  pose proof (f_equal (fun c => snd (fst c)) Hc) as H2. pose proof (f_equal snd Hc) as H3. cbn in H2, H3. now rewrite H2, H3.
Qed.

(* anything that respects s's frame keeps the relation *)
Lemma rel_frame : forall F F' E ss, rel s F E -> get_session F s = Some ss -> frame s (session_dir ss) F F' -> rel s F' E.
Proof.
  intros F F' E ss [R1 R2] Hs [Hfv [Hop Hid]]. split.
  - rewrite (sdir_idents F F' Hid). unfold sdir in *. rewrite Hs in *. cbn [option_map] in *.
    unfold rel_tree in *. rewrite vis_foreign_view in *. now rewrite Hfv.
  - unfold rel_sess in *. rewrite R2. symmetry. exact Hop.
Qed.

(* s arrives *)
Lemma filter_add_false : forall (f : node -> bool) t n, f n = false -> filter f (add_node t n) = filter f t.
Proof. intros f t n H. unfold add_node. rewrite filter_app. cbn [filter]. rewrite H. apply app_nil_r. Qed.

Lemma vis_own_dir : forall d dat tb, vis (Some d) (mkNode d dat tb) = false.
Proof. intros. unfold vis, hidden. cbn [n_path]. rewrite is_prefix_refl. apply andb_false_r. Qed.

Lemma vis_host : forall od h dat tb, vis od (mkNode [h] dat tb) = false.
Proof. reflexivity. Qed.

Lemma find_session_app_new : forall l (x : session), find_session l (s_id x) = None -> find_session (l ++ [x]) (s_id x) = Some x.
Proof.
  induction l as [|y l IH]; intros x H; cbn in *; [now rewrite N.eqb_refl|].
  destruct (N.eqb (s_id y) (s_id x)); [discriminate|now apply IH].
Qed.

Lemma attach_self : forall B F E host nm, inv B F -> rel s F E -> get_session F s = None ->
  (forall x, In x (sv_sessions F) -> session_dir x <> [host; nm]) ->
  rel s (attach F s host nm) E.
Proof.
  intros B F E host nm I [R1 R2] Hs Hfresh. rewrite attach_unfold. cbv zeta.
  set (ss := mkSession s host nm empty_matcher default_max_items None []).
  set (F0 := mkServer (sv_tree F) (sv_sessions F ++ [ss]) (sv_dirty F)).
  assert (Hs0 : get_session F0 s = Some ss) by (unfold get_session, F0; cbn [sv_sessions]; now apply (find_session_app_new _ ss)).
  assert (Hnone : sdir s F = None) by (unfold sdir; now rewrite Hs).
  rewrite Hnone in R1.
  (* no old node lies at or below the new directory *)
  assert (Hout : forall n, In n (sv_tree F) -> is_prefix [host; nm] (n_path n) = false).
  { intros n Hn. destruct (is_prefix [host; nm] (n_path n)) eqn:E0; [|reflexivity]. exfalso.
    apply is_prefix_spec in E0 as [r Hr]. destruct (inv_tree _ _ _ I) as [_ [_ Hpre]].
    destruct (Hpre n [host; nm] r Hn Hr) as [c [Hc1 Hc2]]; [discriminate|].
    destruct (inv_depth2 _ _ _ I c Hc1) as [x [Hx1 Hx2]]; [now rewrite Hc2|]. apply (Hfresh x Hx1). congruence. }
  set (F1 := with_host F0 s host).
  assert (HsF1 : sdir s F1 = Some [host; nm]).
  { unfold F1. rewrite (sdir_params s _ _ (with_host_params _ _ _)). unfold sdir. now rewrite Hs0. }
  eapply rel_same_state; [eapply same_state_trans; [apply notify_changed_same|apply push_all_same]|apply same_state_refl|].
  split.
  - cbn [sv_tree set_tree]. rewrite sdir_set_tree, HsF1. unfold rel_tree in *. rewrite R1. f_equal.
    rewrite filter_add_false by apply vis_own_dir.
    assert (Ht1 : filter (vis (Some [host; nm])) (sv_tree F1) = filter (vis (Some [host; nm])) (sv_tree F)).
    { unfold F1, with_host. destruct (has_node (sv_tree F0) [host]); [reflexivity|].
      rewrite (proj1 (notify_changed_same _ _ _ _ _ _)). cbn [sv_tree set_tree F0]. apply filter_add_false. apply vis_host. }
    rewrite Ht1. apply filter_ext_in. intros n Hn. unfold vis, hidden. now rewrite (Hout n Hn).
  - unfold rel_sess in *. cbn [sv_sessions set_tree]. unfold F1. rewrite R2.
    transitivity (map sparams (others s (sv_sessions F0))).
    + unfold F0. cbn [sv_sessions]. rewrite others_app. unfold others at 3. cbn [filter ss s_id]. rewrite N.eqb_refl. cbn [negb]. now rewrite app_nil_r.
    + symmetry. apply (others_params_eq s). apply with_host_params.
Qed.

(* s leaves *)
Lemma vis_prune : forall d t, filter (vis None) (prune_tree t d) = filter (vis (Some d)) t.
Proof.
  intros d t. unfold prune_tree. induction t as [|n r IH]; [reflexivity|]. cbn [filter]. unfold vis at 2, hidden.
  destruct (is_prefix d (n_path n)); cbn [negb filter].
  - rewrite andb_false_r. exact IH.
  - unfold vis at 1, hidden. cbn [negb]. destruct (nonhost n); cbn [andb]; [now rewrite IH|exact IH].
Qed.

Lemma strip_adj_self : forall delta n, strip s (adj_node s delta n) = strip s n.
Proof. intros. unfold strip, adj_node. cbn [n_path n_data n_subs]. f_equal. apply tbl_without_adjust. Qed.

Lemma detach_self : forall B F E ss, inv B F -> rel s F E -> get_session F s = Some ss -> rel s (detach fx F s) E.
Proof.
  intros B F E ss I [R1 R2] Hs.
  destruct (detach_shape fx guard_on B F s ss I Hs) as [Ht _]. pose proof (detach_params F s) as Hp.
  assert (Hid : s_id ss = s) by (apply find_session_some in Hs; tauto).
  assert (Hnone : sdir s (detach fx F s) = None).
  { unfold sdir. destruct (detach_sessions fx guard_on B F s ss I Hs) as [Hn _]. now rewrite Hn. }
  split.
  - rewrite Hnone, Ht. unfold sdir in R1. rewrite Hs in R1. cbn [option_map] in R1. unfold rel_tree in *. rewrite R1.
    unfold tree_without. rewrite Hid.
    set (t1 := prune_tree (sv_tree F) (session_dir ss)).
    assert (W1 : wf_tree t1) by (apply wf_tree_prune, (inv_tree _ _ _ I)).
    rewrite (filter_map_pres _ (vis None)) by (intros n; unfold vis, nonhost, hidden; destruct (matches_node _ _ _ _); reflexivity).
    rewrite map_map.
    rewrite (map_ext (fun x => strip s (if matches_node (s_subs ss) (n_path x) None 0 then adj_node s cleanup_delta x else x)) (strip s))
      by (intros n; destruct (matches_node _ _ _ _); [apply strip_adj_self|reflexivity]).
    f_equal.
    assert (H2 : filter (vis None) (if has_children t1 [s_host ss] then t1 else prune_tree t1 [s_host ss]) = filter (vis None) t1).
    { destruct (has_children t1 [s_host ss]) eqn:Hc; [reflexivity|]. apply prune_childless_host; auto.
      intros n Hn. unfold vis. now rewrite Hn. }
    transitivity (filter (vis None) t1); [|symmetry; exact H2]. symmetry. apply vis_prune.
  - unfold rel_sess in *. rewrite R2.
    transitivity (map sparams (others s (others s (sv_sessions F)))).
    + f_equal. unfold others. symmetry. apply filter_filter_implied. auto.
    + symmetry. apply (others_params_eq s). exact Hp.
Qed.

End Never.
