(* Refl/IsoNever.v -- C06, as-if-never: sessions arriving and leaving keep the simulation relation of Refl/IsoSim.v, the
   events of s itself leave the erased side alone, and when s has left the two states agree. *)
From Coq Require Import List NArith ZArith Bool Arith Lia.
From Muscle Require Import Gen.Consts Refl.Base Refl.BaseProofs Refl.Tree Refl.TreeProofs Refl.Matcher Refl.MatcherProofs
     Refl.Traverse Refl.TraverseSpec Refl.Session Refl.Server Refl.ServerProofs Refl.IsoModel Refl.IsoBase Refl.IsoTrav Refl.IsoFrame
     Refl.IsoSimBase Refl.IsoSimTrav Refl.IsoSim Refl.IsoDetach Refl.IsoRun Refl.IsoHosts.
Import ListNotations.

Section Never.
Context {M : MatchOps} {L : MatchLaws M}.
Variable fx : fixes.
Hypothesis guard_on : fx_guard fx = true.
Variable s : sid.

(* ------------------------------------------------------------------ host nodes are invisible to the relation *)

Lemma rel_add_host_l : forall od tF tE h, rel_tree s od tF tE -> nonhost h = false -> rel_tree s od (add_node tF h) tE.
Proof.
  intros od tF tE h R Hh. unfold rel_tree, add_node in *. rewrite filter_app. cbn [filter]. unfold vis at 2. rewrite Hh. cbn [andb].
  now rewrite app_nil_r.
Qed.

Lemma rel_add_host_r : forall od tF tE h, rel_tree s od tF tE -> nonhost h = false -> rel_tree s od tF (add_node tE h).
Proof.
  intros od tF tE h R Hh. unfold rel_tree, add_node in *. rewrite body_app. unfold body at 2. cbn [filter]. rewrite Hh.
  now rewrite app_nil_r.
Qed.

Lemma filter_filter_implied : forall (A : Type) (f g : A -> bool) l,
  (forall x, In x l -> f x = true -> g x = true) -> filter f (filter g l) = filter f l.
Proof.
  intros A f g l H. induction l as [|x l IH]; [reflexivity|]. cbn [filter].
  assert (IH' : filter f (filter g l) = filter f l) by (apply IH; intros y Hy; apply H; now right).
  destruct (f x) eqn:F.
  - rewrite (H x (or_introl eq_refl) F). cbn [filter]. rewrite F. now rewrite IH'.
  - destruct (g x); cbn [filter]; [rewrite F|]; exact IH'.
Qed.

(* pruning a host node that has no child removes that one node only *)
Lemma prune_childless_host : forall t h (f : node -> bool), wf_tree t -> has_children t [h] = false ->
  (forall n, nonhost n = false -> f n = false) -> filter f (prune_tree t [h]) = filter f t.
Proof.
  intros t h f W Hc Hf. unfold prune_tree. apply filter_filter_implied. intros n Hn Hfn.
  apply negb_true_iff. destruct (is_prefix [h] (n_path n)) eqn:E; [|reflexivity]. exfalso.
  apply is_prefix_spec in E as [r Hr]. destruct r as [|k r].
  - assert (nonhost n = false) by (unfold nonhost; rewrite Hr; reflexivity). rewrite (Hf n H) in Hfn. discriminate.
  - destruct W as [_ [_ Hpre]]. destruct (Hpre n ([h] ++ [k]) r Hn) as [c [Hc1 Hc2]].
    + rewrite Hr. now rewrite <- app_assoc.
    + discriminate.
    + exact (has_children_false _ _ c k Hc Hc1 Hc2).
Qed.

(* ------------------------------------------------------------------ another session arrives *)

Lemma find_session_app_other : forall l (x : session) k, s_id x <> k -> find_session (l ++ [x]) k = find_session l k.
Proof.
  induction l as [|y l IH]; intros x k Hx; cbn.
  - assert (N.eqb (s_id x) k = false) as -> by now apply N.eqb_neq. reflexivity.
  - destruct (N.eqb (s_id y) k); [reflexivity|now apply IH].
Qed.

Lemma others_app : forall l l', others s (l ++ l') = others s l ++ others s l'.
Proof. intros. unfold others. apply filter_app. Qed.

(* the new session appended on both sides *)
Lemma rel_append_session : forall F E (x : session), rel s F E -> s_id x <> s ->
  rel s (mkServer (sv_tree F) (sv_sessions F ++ [x]) (sv_dirty F)) (mkServer (sv_tree E) (sv_sessions E ++ [x]) (sv_dirty E)).
Proof.
  intros F E x [R1 R2] Hx. split.
  - unfold sdir, get_session. cbn [sv_sessions sv_tree]. rewrite find_session_app_other by exact Hx. exact R1.
  - unfold rel_sess, all_params in *. cbn [sv_sessions]. rewrite map_app, R2, others_app, map_app. f_equal.
    unfold others. cbn [filter]. assert (N.eqb (s_id x) s = false) as -> by now apply N.eqb_neq. reflexivity.
Qed.

Definition with_host (sv : server) (by_ : sid) (host : name) : server :=
  if has_node (sv_tree sv) [host] then sv
  else notify_changed (set_tree sv (add_node (sv_tree sv) (mkNode [host] empty_payload (new_node_table sv [host])))) by_ [host] empty_payload None false.

Lemma with_host_params : forall sv by_ host, all_params (with_host sv by_ host) = all_params sv.
Proof.
  intros. unfold with_host. destruct (has_node _ _); [reflexivity|]. rewrite (proj2 (notify_changed_same _ _ _ _ _ _)). reflexivity.
Qed.

Lemma rel_set_tree_l : forall F E tF, rel s F E -> rel_tree s (sdir s F) tF (sv_tree E) -> rel s (set_tree F tF) E.
Proof. intros F E tF [_ R2] R. split; [exact R|exact R2]. Qed.

Lemma rel_set_tree_r : forall F E tE, rel s F E -> rel_tree s (sdir s F) (sv_tree F) tE -> rel s F (set_tree E tE).
Proof. intros F E tE [_ R2] R. split; [exact R|exact R2]. Qed.

Lemma rel_with_host : forall F E by_ host, rel s F E -> rel s (with_host F by_ host) (with_host E by_ host).
Proof.
  intros F E by_ host R.
  assert (HL : rel s (with_host F by_ host) E).
  { unfold with_host. destruct (has_node (sv_tree F) [host]); [exact R|].
    eapply rel_same_state; [apply notify_changed_same|apply same_state_refl|].
    apply rel_set_tree_l; [exact R|]. apply rel_add_host_l; [exact (proj1 R)|reflexivity]. }
  unfold with_host at 2. destruct (has_node (sv_tree E) [host]); [exact HL|].
  eapply rel_same_state; [apply same_state_refl|apply notify_changed_same|].
  apply rel_set_tree_r; [exact HL|]. apply rel_add_host_r; [exact (proj1 HL)|reflexivity].
Qed.

Lemma attach_unfold : forall sv t host nm,
  attach sv t host nm =
  let ss := mkSession t host nm empty_matcher default_max_items None [] in
  let sv1 := with_host (mkServer (sv_tree sv) (sv_sessions sv ++ [ss]) (sv_dirty sv)) t host in
  push_all (notify_changed (set_tree sv1 (add_node (sv_tree sv1) (mkNode [host; nm] empty_payload (new_node_table sv1 [host; nm]))))
                           t [host; nm] empty_payload None false).
Proof. reflexivity. Qed.

Lemma attach_sim : forall F E t host nm, rel s F E -> t <> s -> hidden (sdir s F) [host; nm] = false ->
  rel s (attach F t host nm) (attach E t host nm).
Proof.
  intros F E t host nm R Ht Hv. rewrite !attach_unfold. cbv zeta.
  set (ss := mkSession t host nm empty_matcher default_max_items None []).
  assert (R0 : rel s (mkServer (sv_tree F) (sv_sessions F ++ [ss]) (sv_dirty F)) (mkServer (sv_tree E) (sv_sessions E ++ [ss]) (sv_dirty E)))
    by (apply rel_append_session; [exact R|exact Ht]).
  assert (Hs0 : sdir s (mkServer (sv_tree F) (sv_sessions F ++ [ss]) (sv_dirty F)) = sdir s F).
  { unfold sdir, get_session. cbn [sv_sessions]. now rewrite find_session_app_other by exact Ht. }
  pose proof (rel_with_host _ _ t host R0) as R1.
  set (F1 := with_host (mkServer (sv_tree F) (sv_sessions F ++ [ss]) (sv_dirty F)) t host) in *.
  set (E1 := with_host (mkServer (sv_tree E) (sv_sessions E ++ [ss]) (sv_dirty E)) t host) in *.
  assert (Hs1 : sdir s F1 = sdir s F) by (unfold F1; rewrite (sdir_params s _ _ (with_host_params _ _ _)); exact Hs0).
  eapply rel_same_state; [eapply same_state_trans; [apply notify_changed_same|apply push_all_same]
                         |eapply same_state_trans; [apply notify_changed_same|apply push_all_same]|].
  apply rel_set_tree; [exact R1|]. apply rel_add; [exact (proj1 R1)| |].
  - unfold strip. cbn [n_path n_data n_subs]. f_equal. symmetry. apply rel_new_node_table. exact (proj2 R1).
  - unfold vis, nonhost. cbn [n_path length]. rewrite Hs1, Hv. reflexivity.
Qed.

(* ------------------------------------------------------------------ another session leaves *)

Lemma detach_params : forall sv t, all_params (detach fx sv t) = map sparams (filter (fun x => negb (N.eqb (s_id x) t)) (sv_sessions sv)).
Proof.
  intros sv t. unfold detach. destruct (get_session sv t) as [ss|] eqn:Hs.
  - unfold all_params. cbn [sv_sessions]. apply (others_params_eq t).
    destruct (has_node (sv_tree sv) [s_host ss]); [|reflexivity].
    match goal with |- map sparams (sv_sessions (push_all ?X)) = _ => change (all_params (push_all X) = all_params sv); set (sv2 := X) end.
    rewrite (proj2 (push_all_same sv2)). unfold sv2.
    match goal with |- all_params (if ?c then ?a else ?b) = _ => assert (Ha : all_params a = all_params sv) end.
    { destruct (has_node _ _); [apply remove_subtree_params|reflexivity]. }
    destruct (has_children _ _); [exact Ha|]. rewrite remove_subtree_params. exact Ha.
  - (* no such session: nothing is filtered *)
    unfold all_params. f_equal. symmetry. unfold get_session in Hs.
    induction (sv_sessions sv) as [|x l IH]; [reflexivity|]. cbn in *. destruct (N.eqb (s_id x) t); [discriminate|]. cbn. f_equal. now apply IH.
Qed.

Lemma rel_tree_without : forall od tF tE (stF stE : session), rel_tree s od tF tE -> wf_tree tF -> wf_tree tE ->
  session_dir stE = session_dir stF -> s_subs stE = s_subs stF -> s_id stE = s_id stF -> s_id stF <> s ->
  rel_tree s od (tree_without tF stF) (tree_without tE stE).
Proof.
  intros od tF tE stF stE R WF WE Hd Hsub Hid Hne. unfold tree_without. rewrite Hd, Hsub, Hid.
  assert (Hh : s_host stE = s_host stF) by (unfold session_dir in Hd; congruence). rewrite Hh.
  apply rel_map.
  - pose proof (rel_prune s od tF tE (session_dir stF) R) as R1.
    set (t1F := prune_tree tF (session_dir stF)) in *. set (t1E := prune_tree tE (session_dir stF)) in *.
    assert (W1F : wf_tree t1F) by now apply wf_tree_prune. assert (W1E : wf_tree t1E) by now apply wf_tree_prune.
    unfold rel_tree in *. unfold body in *.
    assert (HE : filter nonhost (if has_children t1E [s_host stF] then t1E else prune_tree t1E [s_host stF]) = filter nonhost t1E).
    { destruct (has_children t1E [s_host stF]) eqn:Hc; [reflexivity|]. apply prune_childless_host; auto. }
    assert (HF : filter (vis od) (if has_children t1F [s_host stF] then t1F else prune_tree t1F [s_host stF]) = filter (vis od) t1F).
    { destruct (has_children t1F [s_host stF]) eqn:Hc; [reflexivity|]. apply prune_childless_host; auto.
      intros n Hn. unfold vis. now rewrite Hn. }
    transitivity (filter nonhost t1E); [exact HE|]. rewrite R1. f_equal. symmetry. exact HF.
  - intros n. destruct (matches_node _ _ _ _); reflexivity.
  - intros n. destruct (matches_node _ _ _ _); reflexivity.
  - intros n. rewrite strip_path. destruct (matches_node _ _ _ _); [now apply strip_adj_other|reflexivity].
Qed.

Lemma filter_filter_swap : forall (l : list session) (a b : sid),
  filter (fun x => negb (N.eqb (s_id x) a)) (filter (fun x => negb (N.eqb (s_id x) b)) l) =
  filter (fun x => negb (N.eqb (s_id x) b)) (filter (fun x => negb (N.eqb (s_id x) a)) l).
Proof. intros. apply filter_comm. Qed.

Lemma detach_sim : forall B F E t, inv B F -> inv B E -> rel s F E -> t <> s -> rel s (detach fx F t) (detach fx E t).
Proof.
  intros B F E t IF IE R Ht.
  pose proof (rel_get_session s F E t (proj2 R) Ht) as Hg.
  destruct (get_session F t) as [a|] eqn:Ha; destruct (get_session E t) as [b|] eqn:Hb; try contradiction.
  2:{ unfold detach. rewrite Ha, Hb. exact R. }
  destruct (detach_shape fx guard_on B F t a IF Ha) as [HtF _]. destruct (detach_shape fx guard_on B E t b IE Hb) as [HtE _].
  pose proof (detach_params F t) as HpF. pose proof (detach_params E t) as HpE.
  apply sparams_parts in Hg as [G1 [G2 [G3 [G4 _]]]].
  assert (Hid : s_id a = t) by (apply find_session_some in Ha; tauto).
  assert (Hsd : sdir s (detach fx F t) = sdir s F).
  { unfold sdir, get_session.
    pose proof (find_session_params (filter (fun x => negb (N.eqb (s_id x) t)) (sv_sessions F)) (sv_sessions (detach fx F t)) s HpF) as Hc.
    rewrite find_session_filter in Hc by congruence.
    destruct (find_session (sv_sessions F) s) as [x|], (find_session (sv_sessions (detach fx F t)) s) as [y|]; try contradiction; [|reflexivity].
    cbn. apply sparams_parts in Hc as [_ [H2 [H3 _]]]. unfold session_dir. now rewrite H2, H3. }
  split.
  - rewrite Hsd, HtF, HtE. apply rel_tree_without; [exact (proj1 R)|apply (inv_tree _ _ _ IF)|apply (inv_tree _ _ _ IE)| | | |].
    + unfold session_dir. now rewrite G2, G3.
    + exact G4.
    + exact G1.
    + congruence.
  - unfold rel_sess. rewrite HpE.
    change (filter (fun x => negb (N.eqb (s_id x) t)) (sv_sessions E)) with (others t (sv_sessions E)).
    rewrite (others_params_eq t (others s (sv_sessions F)) (sv_sessions E) (proj2 R)).
    transitivity (map sparams (others s (others t (sv_sessions F)))).
    + f_equal. unfold others. apply filter_comm.
    + symmetry. apply (others_params_eq s). exact HpF.
Qed.

(* ------------------------------------------------------------------ the events of s itself: the erased side stands still *)

Lemma filter_andb : forall (A : Type) (f g : A -> bool) l, filter (fun x => f x && g x) l = filter f (filter g l).
Proof.
  intros A f g l. induction l as [|x l IH]; [reflexivity|]. cbn [filter].
  destruct (g x) eqn:G, (f x) eqn:F; cbn [filter andb]; rewrite ?F; now rewrite IH.
Qed.

(* with s attached at d, the relation sees the full tree only through s's foreign view *)
Lemma vis_foreign_view : forall d t, map (strip s) (filter (vis (Some d)) t) = filter nonhost (foreign_view s d t).
Proof.
  intros d t. unfold foreign_view. rewrite (filter_map_pres _ nonhost (strip s)) by reflexivity. f_equal.
  unfold vis, hidden. rewrite (filter_andb _ nonhost (fun n => negb (is_prefix d (n_path n)))). reflexivity.
Qed.

Lemma find_session_idents : forall l l' k, map sident l' = map sident l ->
  match find_session l k, find_session l' k with
  | Some a, Some b => sident b = sident a
  | None, None => True
  | _, _ => False
  end.
Proof.
  induction l as [|x l IH]; intros [|y l'] k H; try discriminate; cbn [find_session]; [exact I|].
  cbn [map] in H. assert (H1 : sident y = sident x) by exact (f_equal (fun l0 => hd (sident x) l0) H).
  assert (H2 : map sident l' = map sident l) by exact (f_equal (@tl _) H).
  assert (Hid : s_id y = s_id x) by exact (f_equal (fun c => fst (fst c)) H1). rewrite Hid.
  destruct (N.eqb (s_id x) k); [exact H1|now apply IH].
Qed.

Lemma sdir_idents : forall F F', idents F' = idents F -> sdir s F' = sdir s F.
Proof.
  intros F F' H. unfold sdir, get_session. pose proof (find_session_idents (sv_sessions F) (sv_sessions F') s H) as Hc.
  destruct (find_session (sv_sessions F) s) as [a|], (find_session (sv_sessions F') s) as [b|]; try contradiction; [|reflexivity].
  cbn. unfold session_dir.
  pose proof (f_equal (fun c => snd (fst c)) Hc) as H2. pose proof (f_equal snd Hc) as H3. cbn in H2, H3. now rewrite H2, H3.
Qed.

(* anything that respects s's frame keeps the relation *)
Lemma rel_frame : forall F F' E ss, rel s F E -> get_session F s = Some ss -> frame s (session_dir ss) F F' -> rel s F' E.
Proof.
  intros F F' E ss [R1 R2] Hs [Hfv [Hop Hid]]. split.
  - rewrite (sdir_idents F F' Hid). unfold sdir in *. rewrite Hs in *. cbn [option_map] in *.
    unfold rel_tree in *. rewrite vis_foreign_view in *. now rewrite Hfv.
  - unfold rel_sess in *. rewrite R2. symmetry. exact Hop.
Qed.

(* s arrives *)
Lemma filter_add_false : forall (f : node -> bool) t n, f n = false -> filter f (add_node t n) = filter f t.
Proof. intros f t n H. unfold add_node. rewrite filter_app. cbn [filter]. rewrite H. apply app_nil_r. Qed.

Lemma vis_own_dir : forall d dat tb, vis (Some d) (mkNode d dat tb) = false.
Proof. intros. unfold vis, hidden. cbn [n_path]. rewrite is_prefix_refl. apply andb_false_r. Qed.

Lemma vis_host : forall od h dat tb, vis od (mkNode [h] dat tb) = false.
Proof. reflexivity. Qed.

Lemma find_session_app_new : forall l (x : session), find_session l (s_id x) = None -> find_session (l ++ [x]) (s_id x) = Some x.
Proof.
  induction l as [|y l IH]; intros x H; cbn in *; [now rewrite N.eqb_refl|].
  destruct (N.eqb (s_id y) (s_id x)); [discriminate|now apply IH].
Qed.

Lemma attach_self : forall B F E host nm, inv B F -> rel s F E -> get_session F s = None ->
  (forall x, In x (sv_sessions F) -> session_dir x <> [host; nm]) ->
  rel s (attach F s host nm) E.
Proof.
  intros B F E host nm I [R1 R2] Hs Hfresh. rewrite attach_unfold. cbv zeta.
  set (ss := mkSession s host nm empty_matcher default_max_items None []).
  set (F0 := mkServer (sv_tree F) (sv_sessions F ++ [ss]) (sv_dirty F)).
  assert (Hs0 : get_session F0 s = Some ss) by (unfold get_session, F0; cbn [sv_sessions]; now apply (find_session_app_new _ ss)).
  assert (Hnone : sdir s F = None) by (unfold sdir; now rewrite Hs).
  rewrite Hnone in R1.
  (* no old node lies at or below the new directory *)
  assert (Hout : forall n, In n (sv_tree F) -> is_prefix [host; nm] (n_path n) = false).
  { intros n Hn. destruct (is_prefix [host; nm] (n_path n)) eqn:E0; [|reflexivity]. exfalso.
    apply is_prefix_spec in E0 as [r Hr]. destruct (inv_tree _ _ _ I) as [_ [_ Hpre]].
    destruct (Hpre n [host; nm] r Hn Hr) as [c [Hc1 Hc2]]; [discriminate|].
    destruct (inv_depth2 _ _ _ I c Hc1) as [x [Hx1 Hx2]]; [now rewrite Hc2|]. apply (Hfresh x Hx1). congruence. }
  set (F1 := with_host F0 s host).
  assert (HsF1 : sdir s F1 = Some [host; nm]).
  { unfold F1. rewrite (sdir_params s _ _ (with_host_params _ _ _)). unfold sdir. now rewrite Hs0. }
  eapply rel_same_state; [eapply same_state_trans; [apply notify_changed_same|apply push_all_same]|apply same_state_refl|].
  split.
  - cbn [sv_tree set_tree]. rewrite sdir_set_tree, HsF1. unfold rel_tree in *. rewrite R1. f_equal.
    rewrite filter_add_false by apply vis_own_dir.
    assert (Ht1 : filter (vis (Some [host; nm])) (sv_tree F1) = filter (vis (Some [host; nm])) (sv_tree F)).
    { unfold F1, with_host. destruct (has_node (sv_tree F0) [host]); [reflexivity|].
      rewrite (proj1 (notify_changed_same _ _ _ _ _ _)). cbn [sv_tree set_tree F0]. apply filter_add_false. apply vis_host. }
    rewrite Ht1. apply filter_ext_in. intros n Hn. unfold vis, hidden. now rewrite (Hout n Hn).
  - unfold rel_sess in *. cbn [sv_sessions set_tree]. unfold F1. rewrite R2.
    transitivity (map sparams (others s (sv_sessions F0))).
    + unfold F0. cbn [sv_sessions]. rewrite others_app. unfold others at 3. cbn [filter ss s_id]. rewrite N.eqb_refl. cbn [negb]. now rewrite app_nil_r.
    + symmetry. apply (others_params_eq s). apply with_host_params.
Qed.

(* s leaves *)
Lemma vis_prune : forall d t, filter (vis None) (prune_tree t d) = filter (vis (Some d)) t.
Proof.
  intros d t. unfold prune_tree. induction t as [|n r IH]; [reflexivity|]. cbn [filter]. unfold vis at 2, hidden.
  destruct (is_prefix d (n_path n)); cbn [negb filter].
  - rewrite andb_false_r. exact IH.
  - unfold vis at 1, hidden. cbn [negb]. destruct (nonhost n); cbn [andb]; [now rewrite IH|exact IH].
Qed.

Lemma strip_adj_self : forall delta n, strip s (adj_node s delta n) = strip s n.
Proof. intros. unfold strip, adj_node. cbn [n_path n_data n_subs]. f_equal. apply tbl_without_adjust. Qed.

Lemma detach_self : forall B F E ss, inv B F -> rel s F E -> get_session F s = Some ss -> rel s (detach fx F s) E.
Proof.
  intros B F E ss I [R1 R2] Hs.
  destruct (detach_shape fx guard_on B F s ss I Hs) as [Ht _]. pose proof (detach_params F s) as Hp.
  assert (Hid : s_id ss = s) by (apply find_session_some in Hs; tauto).
  assert (Hnone : sdir s (detach fx F s) = None).
  { unfold sdir. destruct (detach_sessions fx guard_on B F s ss I Hs) as [Hn _]. now rewrite Hn. }
  split.
  - rewrite Hnone, Ht. unfold sdir in R1. rewrite Hs in R1. cbn [option_map] in R1. unfold rel_tree in *. rewrite R1.
    unfold tree_without. rewrite Hid.
    set (t1 := prune_tree (sv_tree F) (session_dir ss)).
    assert (W1 : wf_tree t1) by (apply wf_tree_prune, (inv_tree _ _ _ I)).
    rewrite (filter_map_pres _ (vis None)) by (intros n; unfold vis, nonhost, hidden; destruct (matches_node _ _ _ _); reflexivity).
    rewrite map_map.
    rewrite (map_ext (fun x => strip s (if matches_node (s_subs ss) (n_path x) None 0 then adj_node s cleanup_delta x else x)) (strip s))
      by (intros n; destruct (matches_node _ _ _ _); [apply strip_adj_self|reflexivity]).
    f_equal.
    assert (H2 : filter (vis None) (if has_children t1 [s_host ss] then t1 else prune_tree t1 [s_host ss]) = filter (vis None) t1).
    { destruct (has_children t1 [s_host ss]) eqn:Hc; [reflexivity|]. apply prune_childless_host; auto.
      intros n Hn. unfold vis. now rewrite Hn. }
    transitivity (filter (vis None) t1); [|symmetry; exact H2]. symmetry. apply vis_prune.
  - unfold rel_sess in *. rewrite R2.
    transitivity (map sparams (others s (others s (sv_sessions F)))).
    + f_equal. unfold others. symmetry. apply filter_filter_implied. auto.
    + symmetry. apply (others_params_eq s). exact Hp.
Qed.

(* ------------------------------------------------------------------ the dispatcher level *)

(* nobody holds PR_PRIVILEGE_KICK *)
Definition nokick (xs : xserver) : Prop := forall k, N.testbit (priv_get (xs_priv xs) k) c_PR_PRIVILEGE_KICK = false.

Definition xrel (XF XE : xserver) : Prop :=
  rel s (xs_sv XF) (xs_sv XE) /\ priv_remove (xs_priv XF) s = xs_priv XE /\ xs_ducks XF = [] /\ xs_ducks XE = [] /\ nokick XF.

Lemma priv_get_remove : forall l a k, priv_get (priv_remove l a) k = if N.eqb a k then 0%N else priv_get l k.
Proof.
  unfold priv_remove. induction l as [|[k0 b] r IH]; intros a k; cbn [filter priv_get fst]; [now destruct (N.eqb a k)|].
  destruct (N.eqb k0 a) eqn:E; cbn [negb priv_get].
  - apply N.eqb_eq in E. subst k0. rewrite IH. destruct (N.eqb a k); reflexivity.
  - rewrite IH. destruct (N.eqb k0 k) eqn:E2; [|reflexivity].
    apply N.eqb_eq in E2. subst k0. rewrite N.eqb_sym in E. now rewrite E.
Qed.

Lemma nokick_remove : forall xs a, nokick xs -> nokick (with_priv xs (priv_remove (xs_priv xs) a)).
Proof. intros xs a H k. cbn [xs_priv with_priv]. rewrite priv_get_remove. destruct (N.eqb a k); [apply N.bits_0|apply H]. Qed.

Lemma nokick_erased : forall XF XE, nokick XF -> priv_remove (xs_priv XF) s = xs_priv XE -> nokick XE.
Proof. intros XF XE H Hp k. rewrite <- Hp, priv_get_remove. destruct (N.eqb s k); [apply N.bits_0|apply H]. Qed.

Lemma priv_remove_comm : forall l a b, priv_remove (priv_remove l a) b = priv_remove (priv_remove l b) a.
Proof. intros. unfold priv_remove. apply filter_comm. Qed.

Lemma dispatch_nokick : forall xs ss what keys sess, nokick xs ->
  xs_sv (dispatch fx xs ss what keys sess) = xs_sv xs /\ xs_priv (dispatch fx xs ss what keys sess) = xs_priv xs /\
  xs_ducks (dispatch fx xs ss what keys sess) = xs_ducks xs.
Proof.
  intros xs ss what keys sess Hk. unfold dispatch, bounce, log_to, with_ducks, has_priv. rewrite (Hk (s_id ss)).
  repeat (match goal with |- context [if ?b then _ else _] => destruct b end); try (now repeat split); destruct keys; now repeat split.
Qed.

Lemma get_session_some_in : forall sv k x, get_session sv k = Some x -> In x (sv_sessions sv) /\ s_id x = k.
Proof. intros sv k x H. now apply find_session_some. Qed.

Theorem xhandle_sim : forall c nest XF XE t B, small (B + xcmd_budget c) -> inv B (xs_sv XF) -> inv B (xs_sv XE) ->
  xrel XF XE -> t <> s -> xrel (xhandle fx nest XF t c) (xhandle fx nest XE t c).
Proof.
  induction c as [b|f i|q k|w k|b| |w k se|l IHl] using xcmd_ind'; intros nest XF XE t B HB IF IE X Ht;
    pose proof X as [R [P [D1 [D2 K]]]];
    pose proof (rel_get_session s _ _ t (proj2 R) Ht) as Hg;
    (destruct (get_session (xs_sv XF) t) as [a|] eqn:Ha; destruct (get_session (xs_sv XE) t) as [a'|] eqn:Ha'; try contradiction;
     [|destruct nest; cbn [xhandle]; rewrite Ha, Ha'; exact X]).
  - destruct nest; cbn [xhandle]; rewrite Ha, Ha'; (split; [|now repeat split]); cbn [xs_sv with_sv]; now apply (handle_sim fx guard_on s b _ _ _ t B).
  - cbn [xcmd_budget] in HB. destruct nest; cbn [xhandle]; rewrite Ha, Ha'; (split; [|now repeat split]); cbn [xs_sv with_sv];
      (apply (handle_sim fx guard_on s _ _ _ _ t B); [exact HB|exact IF|exact IE|exact R|exact Ht]).
  - cbn [xcmd_budget] in HB. destruct nest; cbn [xhandle]; rewrite Ha, Ha'; (split; [|now repeat split]); cbn [xs_sv with_sv];
      (apply (handle_sim fx guard_on s _ _ _ _ t B); [exact HB|exact IF|exact IE|exact R|exact Ht]).
  - pose proof (nokick_erased XF XE K P) as K'.
    destruct (dispatch_nokick XF a w k None K) as [A1 [A2 A3]]. destruct (dispatch_nokick XE a' w k None K') as [B1 [B2 B3]].
    destruct nest; cbn [xhandle]; rewrite Ha, Ha'; unfold xrel, nokick; rewrite A1, A2, A3, B1, B2, B3; exact X.
  - destruct nest; cbn [xhandle]; rewrite Ha, Ha'; exact X.
  - destruct nest; cbn [xhandle]; rewrite Ha, Ha'; (split; [exact R|]); cbn [xs_priv xs_ducks with_priv];
      (split; [rewrite priv_remove_comm; now rewrite P|]); (split; [exact D1|]); (split; [exact D2|]); apply (nokick_remove XF t K).
  - pose proof (nokick_erased XF XE K P) as K'.
    destruct (dispatch_nokick XF a w k se K) as [A1 [A2 A3]]. destruct (dispatch_nokick XE a' w k se K') as [B1 [B2 B3]].
    destruct nest; cbn [xhandle]; rewrite Ha, Ha'; unfold xrel, nokick; rewrite A1, A2, A3, B1, B2, B3; exact X.
  - (* BATCH *)
    rewrite (xcmd_budget_batch l) in HB.
    assert (G : forall nest' XF' XE' B', small (B' + xsum l) -> inv B' (xs_sv XF') -> inv B' (xs_sv XE') -> xrel XF' XE' ->
              xrel ((fix go (l0 : list xcmd) (xs0 : xserver) : xserver :=
                       match l0 with
                       | [] => xs0
                       | c' :: r => go r (let xs1 := xhandle fx (S nest') xs0 t c' in with_sv xs1 (push_all (xs_sv xs1)))
                       end) l XF')
                   ((fix go (l0 : list xcmd) (xs0 : xserver) : xserver :=
                       match l0 with
                       | [] => xs0
                       | c' :: r => go r (let xs1 := xhandle fx (S nest') xs0 t c' in with_sv xs1 (push_all (xs_sv xs1)))
                       end) l XE')).
    { intros nest'. clear HB IF IE X R P D1 D2 K Hg Ha Ha'. induction IHl as [|c l Hc _ IHl']; intros XF' XE' B' HB' IF' IE' X'; [exact X'|].
      cbn [xsum] in HB'.
      assert (HBc : small (B' + xcmd_budget c)) by (eapply small_le; [|exact HB']; lia).
      pose proof (Hc (S nest') XF' XE' t B' HBc IF' IE' X' Ht) as [R1 [P1 [E1 [E2 K1]]]].
      apply (IHl' _ _ (B' + xcmd_budget c)).
      - now rewrite <- Nat.add_assoc.
      - cbn [xs_sv with_sv]. eapply inv_same_core; [apply push_all_core|]. now apply (xhandle_inv fx guard_on).
      - cbn [xs_sv with_sv]. eapply inv_same_core; [apply push_all_core|]. now apply (xhandle_inv fx guard_on).
      - split; [|now repeat split]. cbn [xs_sv with_sv]. eapply rel_same_state; [apply push_all_same|apply push_all_same|exact R1]. }
    destruct nest as [|nest]; cbn [xhandle]; rewrite Ha, Ha'; (destruct (Nat.ltb _ _); [now apply (G _ XF XE B)|exact X]).
Qed.

(* without PR_PRIVILEGE_KICK anywhere, no command marks anybody for removal *)
Lemma xhandle_nokick : forall c nest xs k, nokick xs ->
  xs_ducks (xhandle fx nest xs k c) = xs_ducks xs /\ nokick (xhandle fx nest xs k c).
Proof.
  induction c as [b|f i|q ky|w ky|b| |w ky se|l IHl] using xcmd_ind'; intros nest xs k K;
    (destruct (get_session (xs_sv xs) k) as [a|] eqn:Ha; [|destruct nest; cbn [xhandle]; rewrite Ha; now split]).
  - destruct nest; cbn [xhandle]; rewrite Ha; now split.
  - destruct nest; cbn [xhandle]; rewrite Ha; now split.
  - destruct nest; cbn [xhandle]; rewrite Ha; now split.
  - destruct (dispatch_nokick xs a w ky None K) as [A1 [A2 A3]]. destruct nest; cbn [xhandle]; rewrite Ha; (split; [exact A3|]); unfold nokick; now rewrite A2.
  - destruct nest; cbn [xhandle]; rewrite Ha; now split.
  - destruct nest; cbn [xhandle]; rewrite Ha; (split; [reflexivity|apply (nokick_remove xs k K)]).
  - destruct (dispatch_nokick xs a w ky se K) as [A1 [A2 A3]]. destruct nest; cbn [xhandle]; rewrite Ha; (split; [exact A3|]); unfold nokick; now rewrite A2.
  - assert (G : forall nest' xs', nokick xs' ->
              xs_ducks ((fix go (l0 : list xcmd) (xs0 : xserver) : xserver :=
                           match l0 with
                           | [] => xs0
                           | c' :: r => go r (let xs1 := xhandle fx (S nest') xs0 k c' in with_sv xs1 (push_all (xs_sv xs1)))
                           end) l xs') = xs_ducks xs' /\
              nokick ((fix go (l0 : list xcmd) (xs0 : xserver) : xserver :=
                           match l0 with
                           | [] => xs0
                           | c' :: r => go r (let xs1 := xhandle fx (S nest') xs0 k c' in with_sv xs1 (push_all (xs_sv xs1)))
                           end) l xs')).
    { intros nest'. clear K Ha. induction IHl as [|c l Hc _ IHl']; intros xs' K'; [now split|].
      destruct (Hc (S nest') xs' k K') as [D1 K1].
      destruct (IHl' (with_sv (xhandle fx (S nest') xs' k c) (push_all (xs_sv (xhandle fx (S nest') xs' k c))))) as [D2 K2]; [exact K1|].
      split; [|exact K2]. etransitivity; [exact D2|exact D1]. }
    destruct nest as [|nest]; cbn [xhandle]; rewrite Ha; (destruct (Nat.ltb _ _); [now apply G|now split]).
Qed.

(* ------------------------------------------------------------------ one turn *)

Definition ev_of (ev : xevent) : sid := match ev with XAttach k _ _ _ => k | XDetach k => k | XCmd k _ => k end.

(* no arriving session is granted PR_PRIVILEGE_KICK *)
Definition ev_nokick (ev : xevent) : Prop :=
  match ev with XAttach _ _ _ bits => N.testbit bits c_PR_PRIVILEGE_KICK = false | _ => True end.

Lemma priv_get_app : forall l k b j, priv_get (l ++ [(k, b)]) j = if N.testbit 0 0 then 0%N else
  match find (fun kb => N.eqb (fst kb) j) l with Some kb => snd kb | None => if N.eqb k j then b else 0%N end.
Proof.
  induction l as [|[k0 b0] r IH]; intros k b j; cbn [app priv_get find fst snd N.testbit]; [reflexivity|].
  destruct (N.eqb k0 j); [reflexivity|]. rewrite IH. reflexivity.
Qed.

Lemma nokick_app : forall xs k b, nokick xs -> N.testbit b c_PR_PRIVILEGE_KICK = false ->
  forall j, N.testbit (priv_get (xs_priv xs ++ [(k, b)]) j) c_PR_PRIVILEGE_KICK = false.
Proof.
  intros xs k b K Hb j. specialize (K j). revert K. generalize (xs_priv xs). induction l as [|[k0 b0] r IH]; intros K; cbn [app priv_get] in *.
  - destruct (N.eqb k j); [exact Hb|apply N.bits_0].
  - destruct (N.eqb k0 j); [exact K|now apply IH].
Qed.

Lemma priv_remove_app_other : forall l k b, k <> s -> priv_remove (l ++ [(k, b)]) s = priv_remove l s ++ [(k, b)].
Proof.
  intros l k b Hk. unfold priv_remove. rewrite filter_app. cbn [filter fst].
  assert (N.eqb k s = false) as -> by now apply N.eqb_neq. reflexivity.
Qed.

Lemma priv_remove_app_self : forall l b, priv_remove (l ++ [(s, b)]) s = priv_remove l s.
Proof. intros l b. unfold priv_remove. rewrite filter_app. cbn [filter fst]. rewrite N.eqb_refl. cbn [negb]. apply app_nil_r. Qed.

Lemma clear_ducks_nil' : forall xs, xs_ducks xs = [] -> clear_ducks fx xs = xs.
Proof. intros xs H. unfold clear_ducks. now rewrite H. Qed.

(* a turn for another session, on both sides *)
Lemma xstep_other : forall ev XF XE B, small (B + xev_budget ev) -> inv B (xs_sv XF) -> inv B (xs_sv XE) ->
  xrel XF XE -> ev_of ev <> s -> xwf_event XF ev -> ev_nokick ev ->
  xrel (xstep fx XF ev) (xstep fx XE ev).
Proof.
  intros [t host nm bits|t|t c] XF XE B HB IF IE X Ht Hwf Hnk; cbn [ev_of] in Ht; pose proof X as [R [P [D1 [D2 K]]]];
    pose proof (rel_get_session s _ _ t (proj2 R) Ht) as Hg.
  - (* arrival *)
    cbn [xstep]. destruct (get_session (xs_sv XF) t) as [a|] eqn:Ha; destruct (get_session (xs_sv XE) t) as [a'|] eqn:Ha'; try contradiction; [exact X|].
    unfold xattach. split; [|split; [|split; [exact D1|split; [exact D2|]]]]; cbn [xs_sv xs_priv xs_ducks].
    + apply attach_sim; [exact R|exact Ht|]. cbn [xwf_event] in Hwf. unfold sdir.
      destruct (get_session (xs_sv XF) s) as [ss|] eqn:Hss; [|reflexivity]. cbn [option_map hidden].
      destruct (is_prefix (session_dir ss) [host; nm]) eqn:E0; [|reflexivity]. exfalso.
      apply (Hwf ss); [apply find_session_some in Hss; tauto|]. apply is_prefix_same_length; [exact E0|reflexivity].
    + destruct (N.eqb bits 0); [exact P|]. rewrite priv_remove_app_other by exact Ht. now rewrite P.
    + cbn [ev_nokick] in Hnk. destruct (N.eqb bits 0); [exact K|]. intros j. cbn [xs_priv]. now apply nokick_app.
  - (* departure *)
    cbn [xstep]. unfold xdetach. split; [|split; [|split; [|split]]]; cbn [xs_sv xs_priv xs_ducks].
    + now apply (detach_sim B).
    + rewrite priv_remove_comm. now rewrite P.
    + now rewrite D1.
    + now rewrite D2.
    + intros j. cbn [xs_priv]. rewrite priv_get_remove. destruct (N.eqb t j); [apply N.bits_0|apply K].
  - (* a command *)
    cbn [xstep xev_budget] in *.
    destruct (get_session (xs_sv XF) t) as [a|] eqn:Ha; destruct (get_session (xs_sv XE) t) as [a'|] eqn:Ha'; try contradiction; [|exact X].
    cbv zeta. pose proof (xhandle_sim c 0 XF XE t B HB IF IE X Ht) as [R1 [P1 [E1 [E2 K1]]]].
    rewrite !clear_ducks_nil' by (cbn [xs_ducks with_sv]; assumption).
    split; [|now repeat split]. cbn [xs_sv with_sv]. eapply rel_same_state; [apply push_all_same|apply push_all_same|exact R1].
Qed.

(* a turn for s itself: the erased side stands still *)
Lemma xstep_self : forall ev XF XE B, inv B (xs_sv XF) -> xrel XF XE -> ev_of ev = s -> xwf_event XF ev -> ev_nokick ev ->
  xrel (xstep fx XF ev) XE.
Proof.
  intros [t host nm bits|t|t c] XF XE B IF X Ht Hwf Hnk; cbn [ev_of] in Ht; subst t; pose proof X as [R [P [D1 [D2 K]]]].
  - cbn [xstep]. destruct (get_session (xs_sv XF) s) as [a|] eqn:Ha; [exact X|].
    unfold xattach. split; [|split; [|split; [exact D1|split; [exact D2|]]]]; cbn [xs_sv xs_priv xs_ducks].
    + now apply (attach_self B).
    + destruct (N.eqb bits 0); [exact P|]. now rewrite priv_remove_app_self.
    + cbn [ev_nokick] in Hnk. destruct (N.eqb bits 0); [exact K|]. intros j. cbn [xs_priv]. now apply nokick_app.
  - cbn [xstep]. unfold xdetach. split; [|split; [|split; [|split]]]; cbn [xs_sv xs_priv xs_ducks].
    + destruct (get_session (xs_sv XF) s) as [a|] eqn:Ha; [now apply (detach_self B _ _ a)|]. unfold detach. now rewrite Ha.
    + unfold priv_remove. rewrite filter_filter_implied by auto. exact P.
    + now rewrite D1.
    + exact D2.
    + intros j. cbn [xs_priv]. rewrite priv_get_remove. destruct (N.eqb s j); [apply N.bits_0|apply K].
  - cbn [xstep]. destruct (get_session (xs_sv XF) s) as [a|] eqn:Ha; [|exact X]. cbv zeta.
    pose proof (xhandle_xframe fx c 0 XF s a Ha) as [Fr [Pr _]].
    destruct (xhandle_nokick c 0 XF s K) as [Dk Kk].
    rewrite clear_ducks_nil' by (cbn [xs_ducks with_sv]; congruence).
    split; [|split; [|split; [|split]]]; cbn [xs_sv xs_priv xs_ducks with_sv].
    + apply (rel_frame (xs_sv XF) _ _ a); [exact R|exact Ha|]. eapply frame_trans; [exact Fr|apply same_state_frame, push_all_same].
    + now rewrite Pr.
    + congruence.
    + exact D2.
    + exact Kk.
Qed.

(* ------------------------------------------------------------------ whole histories *)

(* the history with everything s did (arriving, commands, leaving) taken out *)
Definition erase (evs : list xevent) : list xevent := filter (fun ev => negb (N.eqb (ev_of ev) s)) evs.

Lemma erased_wf_event : forall XF XE ev, rel_sess s (xs_sv XF) (xs_sv XE) -> xwf_event XF ev -> xwf_event XE ev.
Proof.
  intros XF XE [t host nm bits|t|t c] R Hwf; cbn [xwf_event] in *; [|exact I|exact I].
  intros x Hx Hd. unfold rel_sess, all_params in R.
  assert (Hin : In (sparams x) (map sparams (others s (sv_sessions (xs_sv XF))))) by (rewrite <- R; now apply in_map).
  apply in_map_iff in Hin as [y [Hy1 Hy2]]. unfold others in Hy2. apply filter_In in Hy2 as [Hy2 _].
  apply (Hwf y Hy2). apply sparams_parts in Hy1 as [_ [H2 [H3 _]]]. unfold session_dir in *. congruence.
Qed.

Theorem sim_run : forall evs XF XE B, small (B + xrun_budget evs) -> inv B (xs_sv XF) -> inv B (xs_sv XE) -> xrel XF XE ->
  hosts_ok (xs_sv XF) -> hosts_ok (xs_sv XE) ->
  xwf_run fx XF evs -> Forall ev_nokick evs ->
  xrel (xrun fx evs XF) (xrun fx (erase evs) XE) /\
  (inv (B + xrun_budget evs) (xs_sv (xrun fx evs XF)) /\ inv (B + xrun_budget evs) (xs_sv (xrun fx (erase evs) XE))) /\
  (hosts_ok (xs_sv (xrun fx evs XF)) /\ hosts_ok (xs_sv (xrun fx (erase evs) XE))).
Proof.
  induction evs as [|ev evs IH]; intros XF XE B HB IF IE X HF HE Hwf Hnk; cbn [xrun fold_left erase filter xrun_budget] in *.
  - rewrite Nat.add_0_r. split; [exact X|split; split; assumption].
  - destruct Hwf as [Hw1 Hw2]. inversion Hnk as [|? ? Hn1 Hn2]; subst.
    assert (HBe : small (B + xev_budget ev)) by (eapply small_le; [|exact HB]; lia).
    assert (IF' : inv (B + xev_budget ev) (xs_sv (xstep fx XF ev))) by now apply (xstep_inv fx guard_on).
    assert (HF' : hosts_ok (xs_sv (xstep fx XF ev))) by now apply (hosts_ok_xstep fx guard_on ev XF B).
    rewrite Nat.add_assoc.
    destruct (N.eqb (ev_of ev) s) eqn:Es; cbn [negb].
    + apply N.eqb_eq in Es.
      apply (IH _ _ (B + xev_budget ev)); [now rewrite <- Nat.add_assoc|exact IF'|apply (inv_weaken B); [lia|exact IE]| |exact HF'|exact HE|exact Hw2|exact Hn2].
      now apply (xstep_self ev XF XE B).
    + apply N.eqb_neq in Es. cbn [fold_left].
      assert (Hw1E : xwf_event XE ev) by (eapply erased_wf_event; [exact (proj2 (proj1 X))|exact Hw1]).
      apply (IH _ _ (B + xev_budget ev)); [now rewrite <- Nat.add_assoc|exact IF'| | |exact HF'| |exact Hw2|exact Hn2].
      * now apply (xstep_inv fx guard_on).
      * now apply (xstep_other ev XF XE B).
      * now apply (hosts_ok_xstep fx guard_on ev XE B).
Qed.

Lemma xrel_empty : xrel empty_xserver empty_xserver.
Proof.
  split; [split; [reflexivity|reflexivity]|]. split; [reflexivity|]. split; [reflexivity|]. split; [reflexivity|].
  intros k. apply N.bits_0.
Qed.

Lemma xwf_run_app : forall evs xs ev, xwf_run fx xs evs -> xwf_event (xrun fx evs xs) ev -> xwf_run fx xs (evs ++ [ev]).
Proof.
  induction evs as [|e evs IH]; intros xs ev H1 H2; cbn [app xwf_run xrun fold_left] in *; [now split|].
  destruct H1 as [Ha Hb]. split; [exact Ha|]. now apply IH.
Qed.

Lemma xrun_budget_app : forall a b, xrun_budget (a ++ b) = xrun_budget a + xrun_budget b.
Proof. induction a as [|e a IH]; intros b; cbn [app xrun_budget]; [reflexivity|]. rewrite IH. lia. Qed.

Lemma xrun_app : forall a b xs, xrun fx (a ++ b) xs = xrun fx b (xrun fx a xs).
Proof. intros. unfold xrun. apply fold_left_app. Qed.

Lemma erase_app : forall a b, erase (a ++ b) = erase a ++ erase b.
Proof. intros. unfold erase. apply filter_app. Qed.

Lemma others_none : forall l, find_session l s = None -> others s l = l.
Proof.
  induction l as [|x l IH]; intros H; [reflexivity|]. cbn in *. destruct (N.eqb (s_id x) s); [discriminate|]. cbn. f_equal. now apply IH.
Qed.

(* AS IF NEVER.  Take any history evs in which nobody is granted PR_PRIVILEGE_KICK (sessions arrive under fresh (host, id)
   pairs; fewer than 2^31-1 subscription strings in total), let s's connection end after it, and compare with the history in
   which s never arrived, sent or left:
     * below host level the two trees are the same list of nodes: same paths, same payloads, same order (= child iteration
       order), same subscriber tables;
     * the sessions are the same, in the same order, with the same identity, subscriptions and update limits;
     * the privilege tables are the same and nobody is marked for removal.
   (Host nodes: see [as_if_never_hosts].)  What the others were sent in the meantime is of course not compared. *)
Theorem as_if_never : forall evs,
  small (xrun_budget evs) -> xwf_run fx empty_xserver evs -> Forall ev_nokick evs ->
  let XF := xstep fx (xrun fx evs empty_xserver) (XDetach s) in
  let XE := xrun fx (erase evs) empty_xserver in
  body (sv_tree (xs_sv XF)) = body (sv_tree (xs_sv XE)) /\
  all_params (xs_sv XF) = all_params (xs_sv XE) /\
  xs_priv XF = xs_priv XE /\ xs_ducks XF = [] /\ xs_ducks XE = [].
Proof.
  intros evs HB Hwf Hnk XF XE.
  assert (HB' : small (0 + xrun_budget (evs ++ [XDetach s]))) by (rewrite xrun_budget_app; cbn; now rewrite !Nat.add_0_r).
  assert (H0 : hosts_ok (xs_sv empty_xserver)) by (intros n []).
  destruct (sim_run (evs ++ [XDetach s]) empty_xserver empty_xserver 0 HB' empty_inv empty_inv xrel_empty H0 H0) as [X [[IF IE] _]].
  - apply xwf_run_app; [exact Hwf|exact I].
  - apply Forall_app. split; [exact Hnk|constructor; [exact I|constructor]].
  - rewrite xrun_app in X, IF. rewrite erase_app in X. cbn [erase filter ev_of] in X. rewrite N.eqb_refl in X. cbn [negb] in X. rewrite app_nil_r in X.
    cbn [xrun fold_left] in X, IF. fold XF in X, IF. fold XE in X.
    destruct X as [[R1 R2] [P [D1 [D2 _]]]].
    assert (Hnone : get_session (xs_sv XF) s = None).
    { unfold XF. cbn [xstep xs_sv xdetach]. unfold detach. destruct (get_session (xs_sv (xrun fx evs empty_xserver)) s) eqn:E0; [|exact E0].
      unfold get_session. cbn [sv_sessions]. apply find_session_filter_self. }
    assert (Hstrip : forall n, In n (sv_tree (xs_sv XF)) -> strip s n = n).
    { intros n Hn. destruct (inv_marks _ _ _ IF n Hn) as [Hok Hget].
      unfold strip. destruct n as [p d tb]. cbn [n_path n_data n_subs] in *. f_equal. apply tbl_without_absent.
      intros Hin. pose proof (tbl_in_get_pos _ _ Hok Hin) as Hpos. rewrite Hget in Hpos. unfold count_for in Hpos. rewrite Hnone in Hpos. lia. }
    split; [|split; [|split; [|split]]].
    + unfold sdir in R1. rewrite Hnone in R1. cbn [option_map] in R1. unfold rel_tree in R1. rewrite R1. unfold body.
      assert (Hf : filter (vis None) (sv_tree (xs_sv XF)) = filter nonhost (sv_tree (xs_sv XF))).
      { apply filter_ext. intros n. unfold vis, hidden. apply andb_true_r. }
      rewrite Hf. rewrite <- (map_id (filter nonhost (sv_tree (xs_sv XF)))) at 1. apply map_ext_in.
      intros n Hn. apply filter_In in Hn as [Hn _]. symmetry. now apply Hstrip.
    + unfold rel_sess in R2. rewrite R2. unfold all_params. f_equal. symmetry. now apply others_none.
    + rewrite <- P. unfold XF. cbn [xstep xs_priv xdetach]. unfold priv_remove. now rewrite filter_filter_implied by auto.
    + exact D1.
    + exact D2.
Qed.

(* two states with the same sessions (identity, subscriptions) that both satisfy the invariants agree on their host nodes *)
Lemma hosts_agree : forall B A Bv h, inv B A -> inv B Bv -> hosts_ok A -> hosts_ok Bv -> all_params A = all_params Bv ->
  match find_node (sv_tree A) [h], find_node (sv_tree Bv) [h] with
  | Some a, Some b => n_data a = n_data b /\ forall k, tbl_get (n_subs a) k = tbl_get (n_subs b) k
  | None, None => True
  | _, _ => False
  end.
Proof.
  intros B A Bv h IA IB HA HB Hp.
  assert (Hhost : forall (X Y : server) n, inv B Y -> hosts_ok X -> all_params X = all_params Y ->
                  find_node (sv_tree X) [h] = Some n -> has_node (sv_tree Y) [h] = true).
  { intros X Y n IY HX Hxy Hf. apply find_node_some in Hf as [Hin Hpn].
    destruct (HX n Hin) as [_ [x [Hx1 Hx2]]]; [now rewrite Hpn|].
    unfold all_params in Hxy. assert (Hi : In (sparams x) (map sparams (sv_sessions Y))) by (rewrite <- Hxy; now apply in_map).
    apply in_map_iff in Hi as [y [Hy1 Hy2]]. apply sparams_parts in Hy1 as [_ [Hh _]].
    pose proof (host_of_session B Y y IY Hy2) as Hn. rewrite Hpn in Hx2. injection Hx2 as Hx2. now rewrite Hh, Hx2 in Hn. }
  destruct (find_node (sv_tree A) [h]) as [a|] eqn:Ea; destruct (find_node (sv_tree Bv) [h]) as [b|] eqn:Eb.
  - apply find_node_some in Ea as [Ia Pa]. apply find_node_some in Eb as [Ib Pb].
    destruct (HA a Ia) as [Da _]; [now rewrite Pa|]. destruct (HB b Ib) as [Db _]; [now rewrite Pb|].
    split; [congruence|]. intros k.
    destruct (inv_marks _ _ _ IA a Ia) as [_ Ga]. destruct (inv_marks _ _ _ IB b Ib) as [_ Gb]. rewrite Ga, Gb, Pa, Pb.
    unfold count_for, get_session. pose proof (find_session_params (sv_sessions Bv) (sv_sessions A) k Hp) as Hc.
    destruct (find_session (sv_sessions Bv) k) as [y|], (find_session (sv_sessions A) k) as [x|]; try contradiction; [|reflexivity].
    apply sparams_parts in Hc as [_ [_ [_ [Hs _]]]]. now rewrite Hs.
  - pose proof (Hhost A Bv a IB HA Hp Ea) as Hn. unfold has_node in Hn. rewrite Eb in Hn. discriminate.
  - pose proof (Hhost Bv A b IA HB (eq_sym Hp) Eb) as Hn. unfold has_node in Hn. rewrite Ea in Hn. discriminate.
  - exact I.
Qed.

(* AS IF NEVER, host level: the two states have the same host nodes, with the same (empty) payload and the same subscriber
   counts for every session.  (A host node's position among its siblings is the one thing that may differ: the run without s
   may have created it later.) *)
Theorem as_if_never_hosts : forall evs,
  small (xrun_budget evs) -> xwf_run fx empty_xserver evs -> Forall ev_nokick evs ->
  let XF := xstep fx (xrun fx evs empty_xserver) (XDetach s) in
  let XE := xrun fx (erase evs) empty_xserver in
  forall h,
  match find_node (sv_tree (xs_sv XF)) [h], find_node (sv_tree (xs_sv XE)) [h] with
  | Some a, Some b => n_data a = n_data b /\ forall k, tbl_get (n_subs a) k = tbl_get (n_subs b) k
  | None, None => True
  | _, _ => False
  end.
Proof.
  intros evs HB Hwf Hnk XF XE h.
  destruct (as_if_never evs HB Hwf Hnk) as [_ [Hp _]]. fold XF in Hp. fold XE in Hp.
  assert (HB' : small (0 + xrun_budget (evs ++ [XDetach s]))) by (rewrite xrun_budget_app; cbn; now rewrite !Nat.add_0_r).
  assert (H0 : hosts_ok (xs_sv empty_xserver)) by (intros n []).
  destruct (sim_run (evs ++ [XDetach s]) empty_xserver empty_xserver 0 HB' empty_inv empty_inv xrel_empty H0 H0) as [_ [[IF IE] [HF HE]]].
  - apply xwf_run_app; [exact Hwf|exact I].
  - apply Forall_app. split; [exact Hnk|constructor; [exact I|constructor]].
  - rewrite xrun_app in IF, HF. rewrite erase_app in IE, HE. cbn [erase filter ev_of] in IE, HE. rewrite N.eqb_refl in IE, HE. cbn [negb] in IE, HE.
    rewrite app_nil_r in IE, HE. cbn [xrun fold_left] in IF, HF. fold XF in IF, HF. fold XE in IE, HE.
    now apply (hosts_agree _ _ _ h IF IE HF HE Hp).
Qed.

End Never.
