(* Refl/TravWitness.v -- a small concrete instance of the external matching code (class MatchOps) that satisfies the
   laws the traversal theorems assume, the witness of finding F12 (the multi-pattern guard as found counts
   clause-count groups, not patterns), and non-trivial states satisfying the premises of the C05 theorems. *)
From Coq Require Import List NArith ZArith Bool Arith Lia.
From Muscle Require Import Refl.Base Refl.Tree Refl.Matcher Refl.Traverse Refl.TravBase Refl.TraverseProofs Refl.TraverseTheorems.
Import ListNotations.
Local Open Scope N_scope.

(* a clause is "*" (None) or the finite set of names it matches, flagged wildcard (true) or
   unique / list of unique values (false); a filter g accepts the payloads above g *)
Definition wclause := option (bool * list N).

Definition wclause_eqb (a b : wclause) : bool :=
  match a, b with
  | None, None => true
  | Some (w1, l1), Some (w2, l2) => Bool.eqb w1 w2 && path_eqb l1 l2
  | _, _ => false
  end.

Definition wmatch (c : wclause) (k : name) : bool :=
  match c with None => true | Some (_, l) => existsb (N.eqb k) l end.

Definition wkeys (c : wclause) : option (list name) :=
  match c with Some (false, l) => Some l | _ => None end.

#[global] Instance WOps : MatchOps := {|
  clause := wclause; clause_eqb := wclause_eqb; cmatch := wmatch; ckeys := wkeys; cstar := None;
  qfilter := N; fmatch := fun g p => N.ltb g p |}.

Lemma wkeys_sound : forall (c : clause) (ks : list name) (k : name), ckeys c = Some ks -> cmatch c k = true -> In k ks.
Proof.
  intros [[[|] l]|] ks k H Hm; cbn in H; try discriminate. inversion H; subst ks. cbn in Hm.
  apply existsb_exists in Hm. destruct Hm as [x [Hx E]]. apply N.eqb_eq in E. now subst.
Qed.

Lemma wkeys_complete : forall (c : clause) (ks : list name) (k : name), ckeys c = Some ks -> In k ks -> cmatch c k = true.
Proof.
  intros [[[|] l]|] ks k H Hin; cbn in H; try discriminate. inversion H; subst ks. cbn.
  apply existsb_exists. exists k. split; [assumption | apply N.eqb_refl].
Qed.

(* ------------------------------------------------------------------ the tree and the patterns of finding F12 *)

Definition jeremy := 1. Definition jenny := 2. Definition kate := 3. Definition kevin := 4. Definition joe := 5. Definition kim := 6.

Definition jstar : wclause := Some (true, [jeremy; jenny; joe]).     (* j* *)
Definition kstar : wclause := Some (true, [kate; kevin; kim]).       (* k* *)

Definition f12_tree : tree :=
  [mkNode [jeremy] 0 []; mkNode [jeremy; jenny] 0 []; mkNode [jeremy; kate] 0 [];
   mkNode [kevin] 0 []; mkNode [kevin; joe] 0 []; mkNode [kevin; kim] 0 []].

Definition f12_matcher : matcher := m_of_list [([jstar; kstar], None); ([kstar; jstar], None)].

Lemma f12_tree_wf : tree_wf f12_tree.
Proof.
  split; [|split].
  - cbn. repeat constructor; cbn; intuition discriminate.
  - intros n H. cbn in H. intuition; subst; discriminate.
  - intros n p k H E. cbn in H.
    destruct H as [H|[H|[H|[H|[H|[H|[]]]]]]]; subst n; cbn in E;
      destruct p as [|a [|b [|c p]]]; cbn in E; inversion E; subst;
      try (left; reflexivity); try (destruct p; discriminate); right.
    + exists (mkNode [jeremy] 0 []). cbn. tauto.
    + exists (mkNode [jeremy] 0 []). cbn. tauto.
    + exists (mkNode [kevin] 0 []). cbn. tauto.
    + exists (mkNode [kevin] 0 []). cbn. tauto.
Qed.

Lemma f12_matcher_wf : matcher_wf f12_matcher.
Proof. apply m_of_list_wf. Qed.

(* with the guard as found (one clause-count GROUP) the traversal calls back on a node that
   PathMatcher::MatchesPath rejects: /jeremy/jenny matches j* at level 1 and, by the other pattern, j* at level 2 *)
Lemma traversal_refuted_with_group_count_guard_lemma :
  exists (t : tree) (m : matcher) (n : node),
    tree_wf t /\ matcher_wf m /\ In n (visits t m [] true false) /\ matches_path m (n_path n) (Some (n_data n)) = false.
Proof.
  exists f12_tree, f12_matcher, (mkNode [jeremy; jenny] 0 []).
  split; [apply f12_tree_wf|]. split; [apply f12_matcher_wf|]. split; vm_compute; tauto.
Qed.

(* the same traversal with the repaired guard (one PATTERN): exactly the two nodes MatchesPath accepts *)
Example f12_fixed_visits : map n_path (visits f12_tree f12_matcher [] true true) = [[jeremy; kate]; [kevin; joe]].
Proof. vm_compute. reflexivity. Qed.

Example f12_as_found_visits :
  map n_path (visits f12_tree f12_matcher [] true false) = [[jeremy; jenny]; [jeremy; kate]; [kevin; joe]; [kevin; kim]].
Proof. vm_compute. reflexivity. Qed.
